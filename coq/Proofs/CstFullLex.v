(* Proofs/CstFullLex.v -- the capstone fragment (Spec/CstFull.v), lexer completeness for QUALIFIED Unicode
   names and for start tags whose entries (attributes and namespace declarations) carry arbitrary
   raw values: UTF-8 of Chars without the quote and '<'.  Stated on the entries of Spec/CstNs.v
   "as written" (names and values are the rendered bytes), so the tokens are those of
   Proofs/CstNsLex.v.  All stages of the fragment use this one lexer. *)
From Coq Require Import Ascii String.
From Coq Require Import List NArith PeanoNat Bool Lia ZifyBool ZifyN ZifyNat.
Import ListNotations.
From RX Require Import Generated.
From RX.Model Require Import Base CharClass Stream Tokenizer.
From RX.Spec Require Cst Scope CstNs CstU.
From RX.Proofs Require Import CstLex CstULex CstNsLex.
Open Scope N_scope.

Ltac clia := repeat match goal with H : @eq bool _ true |- _ => clear H end; lia.

(* a qualified name as written *)
Definition xq (pre loc : list N) : CstNs.qname := {| CstNs.q_prefix := utf8s pre; CstNs.q_local := utf8s loc |}.

Definition uq_ok (q : CstNs.qname) : Prop :=
  exists pre loc, q = xq pre loc /\ (pre = [] \/ CstU.wf_name pre = true) /\ CstU.wf_name loc = true.
Definition uchars (cs : list N) : Prop := Forall (fun c => is_scalar c = true /\ char_is_char c = true) cs.
Definition uval_ok (quote : N) (v : bytes) : Prop :=
  exists cs, v = utf8s cs /\ uchars cs /\ forallb (fun y => negb ((y =? quote) || (y =? 60))) v = true.
Definition uentry_ok (e : CstNs.entry) : Prop :=
  CstNs.wf_layout (CstNs.e_layout e) = true /\ uq_ok (e_qname e) /\
  uval_ok (CstNs.l_quote (CstNs.e_layout e)) (CstNs.e_value e).

Lemma uname_valid n : CstU.wf_name n = true -> U8.Valid (utf8s n).
Proof.
  intros Hn. destruct (wf_uname_parts n Hn) as (c0 & x0 & -> & _ & Hall). apply Valid_utf8s. apply uname_scalars. exact Hall.
Qed.

Lemma uname_ne n : CstU.wf_name n = true -> exists b0 r, utf8s n = b0 :: r.
Proof. intros H. destruct (uname_head n H) as (b0 & r & E & _). eauto. Qed.

Lemma uq_valid q : uq_ok q -> U8.Valid (CstNs.r_qname q).
Proof.
  intros (pre & loc & -> & Hp & Hl). unfold CstNs.r_qname, xq. cbn [CstNs.q_prefix CstNs.q_local].
  destruct Hp as [-> |Hp]; [apply uname_valid; exact Hl|].
  destruct (uname_ne _ Hp) as (b0 & r & E). rewrite E. rewrite <- E.
  repeat apply U8.Valid_app; [apply uname_valid; exact Hp|apply Valid_lit; reflexivity|apply uname_valid; exact Hl].
Qed.

Lemma uq_head q : uq_ok q ->
  exists b0 r, CstNs.r_qname q = b0 :: r /\ byte_is_space b0 = false /\ b0 <> 47 /\ b0 <> 62 /\ b0 <> 33 /\ b0 <> 63 /\ b0 <> 60.
Proof.
  intros (pre & loc & -> & Hp & Hl). unfold CstNs.r_qname, xq. cbn [CstNs.q_prefix CstNs.q_local].
  destruct Hp as [-> |Hp]; [apply uname_head; exact Hl|].
  destruct (uname_head _ Hp) as (b0 & r & E & H). rewrite E. cbn [app]. eauto.
Qed.

Section Lex.
Variable text : bytes.

Notation st := (CstLex.st text).
Notation W := (CstLex.W text).
Notation WV := (CstULex.WV text).

Lemma qname_chars_u start spl : forall x p l fuel, WV p (utf8s x ++ l) ->
  forallb CstU.is_name_char x = true ->
  consume_qname_loop text (length x + fuel) start spl (st p (utf8s x ++ l)) =
  consume_qname_loop text fuel start spl (st (p + blen (utf8s x)) l).
Proof.
  induction x as [|c x IH]; intros p l fuel HW Hx.
  - cbn [CstU.utf8s flat_map app length Nat.add]. rewrite blen_nil, N.add_0_r. reflexivity.
  - cbn [length Nat.add].
    cbn [forallb] in Hx. apply andb_true_iff in Hx. destruct Hx as [Hc Hx].
    destruct (uname_char_facts _ Hc) as (Hs & Hn & H58 & Hb).
    rewrite utf8s_cons, <- app_assoc in *.
    assert (HW' : WV (p + blen (utf8 c)) (utf8s x ++ l)).
    { apply (WV_app _ _ _ _ HW). rewrite utf8_enc. apply U8.Valid_encode. exact Hs. }
    cbn [consume_qname_loop]. rewrite at_end_st by apply HW.
    pose proof (utf8_len c) as Hlen.
    replace (match utf8 c ++ utf8s x ++ l with [] => true | _ :: _ => false end) with false
      by (destruct (utf8 c); [unfold blen in Hlen; cbn in Hlen; lia|reflexivity]).
    destruct (N.lt_ge_cases c 128) as [L|L].
    + rewrite (utf8_ascii c L) in *. cbn [app] in *. cbn [curr_byte_unchecked CstLex.st s_rest bind].
      replace (c <? 128) with true by lia. replace (c =? 58) with false by lia. rewrite (Hb L).
      fold (st p (c :: utf8s x ++ l)). rewrite advance1_st by apply HW. cbn [bind].
      change (blen [c]) with 1 in HW'.
      rewrite IH; [|exact HW'|exact Hx]. rewrite blen_cons, N.add_assoc. reflexivity.
    + destruct (utf8_high c L) as (_ & b0 & r & E & Hb0).
      assert (Ecb : curr_byte_unchecked (st p (utf8 c ++ utf8s x ++ l)) = Ok b0).
      { rewrite E. reflexivity. }
      rewrite Ecb. cbn [bind]. replace (b0 <? 128) with false by lia.
      rewrite next_char_v by assumption. cbn [bind]. rewrite Hn.
      rewrite advance_v by exact HW. cbn [bind].
      rewrite IH; [|exact HW'|exact Hx]. rewrite blen_app, N.add_assoc. reflexivity.
Qed.

Lemma qname_stop_u start spl p l fuel : W p l -> name_stop l ->
  consume_qname_loop text (S fuel) start spl (st p l) = Ok (spl, st p l).
Proof.
  intros HW Hl. cbn [consume_qname_loop]. rewrite at_end_st by exact HW. destruct l as [|c l]; [reflexivity|].
  cbn [curr_byte_unchecked CstLex.st s_rest bind]. destruct Hl as (H1 & H2 & H3).
  replace (c <? 128) with true by lia. replace (c =? 58) with false by lia. rewrite H3. reflexivity.
Qed.

Lemma qname_colon_u start p l fuel : W p (58 :: l) ->
  consume_qname_loop text (S fuel) start None (st p (58 :: l)) =
  consume_qname_loop text fuel start (Some p) (st (p + 1) l).
Proof.
  intros HW. cbn [consume_qname_loop]. rewrite at_end_st by exact HW.
  cbn [curr_byte_unchecked CstLex.st s_rest bind]. change (58 <? 128) with true. change (58 =? 58) with true.
  cbv iota. fold (st p (58 :: l)). rewrite advance1_st by exact HW. reflexivity.
Qed.

Lemma name_start_str n : CstU.wf_name n = true -> str_is_name_start (utf8s n) = true.
Proof. intros H. rewrite <- (app_nil_r (utf8s n)). apply str_is_name_start_u. exact H. Qed.

(* consume_qname on a rendered qualified name *)
Lemma consume_qname_full q p l : WV p (CstNs.r_qname q ++ l) -> uq_ok q -> name_stop l ->
  consume_qname text (st p (CstNs.r_qname q ++ l)) =
  Ok (sl p (p + blen (CstNs.q_prefix q)), sl (p + q_off q) (p + blen (CstNs.r_qname q)), st (p + blen (CstNs.r_qname q)) l).
Proof.
  intros HW (pre & loc & -> & Hp & Hloc) Hl.
  destruct (wf_uname_parts _ Hloc) as (c & x & El & Hc & Hx).
  pose proof (r_qname_len (xq pre loc)) as Hlen.
  unfold consume_qname. cbn [CstLex.st s_pos s_rest].
  fold (st p (CstNs.r_qname (xq pre loc) ++ l)).
  unfold CstNs.r_qname, q_off, xq in *. cbn [CstNs.q_prefix CstNs.q_local] in *.
  destruct Hp as [-> |Hp].
  - (* unprefixed *)
    cbn [CstU.utf8s flat_map] in *.
    assert (EF : exists F, S (length (utf8s loc ++ l)) = (length loc + S F)%nat).
    { rewrite app_length. pose proof (utf8s_len_le loc). exists (length (utf8s loc) + length l - length loc)%nat. lia. }
    destruct EF as [F EF]. rewrite EF. clear EF.
    rewrite qname_chars_u; [|exact HW|rewrite El; exact Hx].
    pose proof (WV_app _ _ _ _ HW (uname_valid _ Hloc)) as HW1.
    rewrite qname_stop_u by (try exact Hl; apply HW1). cbn [bind]. unfold slice_back. cbn [CstLex.st s_pos].
    rewrite (mk_slice_v text p (utf8s loc) l HW (uname_valid _ Hloc)). cbn [bind].
    rewrite (mk_slice_empty text p _ HW). cbn [bind].
    unfold slice_len. cbn [sl sl_start sl_end]. rewrite N.sub_diag. change (0 =? 0) with true. cbn [negb andb].
    fold (sl p (p + blen (utf8s loc))). rewrite (W_slice _ _ _ _ (WV_W _ _ _ HW)).
    rewrite (name_start_str _ Hloc). cbn [negb].
    change (blen []) with 0. rewrite !N.add_0_r. reflexivity.
  - (* prefix : local *)
    destruct (wf_uname_parts _ Hp) as (c0 & x0 & Ep0 & Hc0 & Hx0).
    destruct (uname_ne _ Hp) as (pb & pr & Epb). rewrite Epb in *. rewrite <- Epb in *.
    rewrite <- !app_assoc in HW |- *.
    assert (EF : exists F, S (length (utf8s pre ++ [58] ++ utf8s loc ++ l)) = (length pre + S (length loc + S F))%nat).
    { rewrite !app_length. cbn [length]. pose proof (utf8s_len_le pre). pose proof (utf8s_len_le loc).
      exists (length (utf8s pre) + length (utf8s loc) + length l - length pre - length loc)%nat. lia. }
    destruct EF as [F EF]. rewrite EF. clear EF.
    rewrite qname_chars_u; [|exact HW|rewrite Ep0; exact Hx0].
    pose proof (WV_app _ _ _ _ HW (uname_valid _ Hp)) as HW1.
    cbn [app] in HW1 |- *. rewrite qname_colon_u by apply HW1.
    pose proof (WV_cons _ _ _ _ HW1 ltac:(lia)) as HW2.
    rewrite qname_chars_u; [|exact HW2|rewrite El; exact Hx].
    pose proof (WV_app _ _ _ _ HW2 (uname_valid _ Hloc)) as HW3.
    rewrite qname_stop_u by (try exact Hl; apply HW3). cbn [bind]. unfold slice_back. cbn [CstLex.st s_pos].
    rewrite (mk_slice_v text p (utf8s pre) _ HW (uname_valid _ Hp)). cbn [bind].
    rewrite (mk_slice_v text (p + blen (utf8s pre) + 1) (utf8s loc) l HW2 (uname_valid _ Hloc)). cbn [bind].
    unfold slice_len. cbn [sl sl_start sl_end].
    replace (p + blen (utf8s pre) - p =? 0) with false by (rewrite Epb, blen_cons; lia). cbn [negb andb].
    fold (sl p (p + blen (utf8s pre))).
    rewrite (W_slice _ _ (utf8s pre) _ (WV_W _ _ _ HW)).
    rewrite (name_start_str _ Hp). cbn [negb].
    fold (sl (p + blen (utf8s pre) + 1) (p + blen (utf8s pre) + 1 + blen (utf8s loc))).
    rewrite (W_slice _ _ _ _ (WV_W _ _ _ HW2)).
    rewrite (name_start_str _ Hloc). cbn [negb].
    rewrite !blen_app. cbn [app]. rewrite ?blen_cons. change (blen [58]) with 1.
    replace (p + (blen (utf8s pre) + (1 + blen (utf8s loc)))) with (p + blen (utf8s pre) + 1 + blen (utf8s loc)) by lia.
    replace (p + (blen (utf8s pre) + 1)) with (p + blen (utf8s pre) + 1) by lia. reflexivity.
Qed.

(* ---- start-tag entries ---- *)
Variable C : Type.
Variable ev : token -> C -> res C.

Lemma uentry_parts e : uentry_ok e ->
  CstNs.l_ws (CstNs.e_layout e) <> [] /\ Cst.wf_ws (CstNs.l_ws (CstNs.e_layout e)) = true /\
  Cst.wf_ws (CstNs.l_ws1 (CstNs.e_layout e)) = true /\ Cst.wf_ws (CstNs.l_ws2 (CstNs.e_layout e)) = true /\
  (CstNs.l_quote (CstNs.e_layout e) = 39 \/ CstNs.l_quote (CstNs.e_layout e) = 34) /\
  uval_ok (CstNs.l_quote (CstNs.e_layout e)) (CstNs.e_value e) /\ uq_ok (e_qname e).
Proof.
  intros (H & Hq & Hv). unfold CstNs.wf_layout in H. rewrite !andb_true_iff in H. destruct H as [[[H1 H2] H3] H4].
  repeat split; try assumption.
  - unfold Cst.wf_ws1 in H1. destruct (CstNs.l_ws (CstNs.e_layout e)); [discriminate|discriminate].
  - unfold Cst.wf_ws1 in H1. unfold Cst.wf_ws. destruct (CstNs.l_ws (CstNs.e_layout e)); [reflexivity|exact H1].
  - lia.
Qed.

Lemma uentry_valid e : uentry_ok e -> U8.Valid (CstNs.r_entry e).
Proof.
  intros H. destruct (uentry_parts e H) as (_ & Hw & Hw1 & Hw2 & Hq & (cs & Ev & Hcs & _) & Hn).
  unfold CstNs.r_entry. cbv zeta. rewrite e_name_qname.
  repeat apply U8.Valid_app; try (apply Valid_lit; apply ws_lit; assumption).
  - apply uq_valid; exact Hn.
  - apply Valid_lit. reflexivity.
  - apply Valid_lit. cbn. destruct Hq as [-> | ->]; reflexivity.
  - rewrite Ev. apply Valid_utf8s. apply chars_scalars. exact Hcs.
  - apply Valid_lit. cbn. destruct Hq as [-> | ->]; reflexivity.
Qed.

Lemma lex_entry_full fuel ts q e more c : WV q (CstNs.r_entry e ++ more) -> uentry_ok e ->
  parse_element_loop text C ev (S fuel) ts (st q (CstNs.r_entry e ++ more)) c =
  let! c' := ev (entry_tok q e) c in
  parse_element_loop text C ev fuel ts (st (q + blen (CstNs.r_entry e)) more) c'.
Proof.
  intros HW Hwf. destruct (uentry_parts _ Hwf) as (Hne & Hws & Hw1 & Hw2 & Hq & Hv & Hn).
  unfold entry_tok. cbv zeta.
  assert (Elen : q + blen (CstNs.r_entry e) = q + blen (CstNs.l_ws (CstNs.e_layout e)) + blen (CstNs.r_qname (e_qname e))
                  + blen (CstNs.l_ws1 (CstNs.e_layout e)) + 1 + blen (CstNs.l_ws2 (CstNs.e_layout e)) + 1 + blen (CstNs.e_value e) + 1).
  { clear. unfold CstNs.r_entry. cbv zeta. rewrite e_name_qname, !blen_app, !blen_cons, blen_nil. lia. }
  rewrite Elen. clear Elen.
  unfold CstNs.r_entry in *. cbv zeta in *. rewrite e_name_qname in *. rewrite <- !app_assoc in *. cbn [app] in *.
  set (qn := e_qname e) in *. clearbody qn.
  destruct (CstNs.e_layout e) as [ws ws1 ws2 quote]. set (value := CstNs.e_value e) in *. clearbody value.
  cbn [CstNs.l_ws CstNs.l_ws1 CstNs.l_ws2 CstNs.l_quote] in *. clear Hwf.
  destruct Hv as (cs & -> & Hv2 & Hv1).
  assert (Hqq : (quote =? 39) || (quote =? 34) = true) by (clear - Hq; lia).
  assert (Hqsp : byte_is_space quote = false) by (clear - Hq; destruct Hq as [-> | ->]; reflexivity).
  assert (Hq128 : quote < 128) by (clear - Hq; lia). clear Hq.
  destruct ws as [|w ws]; [congruence|]. clear Hne.
  destruct (uq_head _ Hn) as (n & nr & En & Hnsp & Hn47 & Hn62 & _).
  apply N.eqb_neq in Hn47, Hn62.
  assert (Hwsp : byte_is_space w = true).
  { cbn [Cst.wf_ws forallb] in Hws. apply andb_true_iff in Hws. apply ws_space. apply Hws. }
  pose proof (WV_W _ _ _ HW) as HW0.
  cbn [parse_element_loop]. rewrite at_end_st by exact HW0. cbn [app].
  unfold starts_with_space. rewrite curr_byte_opt_st by exact HW0.
  rewrite Hwsp. cbv zeta.
  change (w :: ws ++ ?l) with ((w :: ws) ++ l) in HW, HW0 |- *.
  rewrite skip_spaces_st; [|exact HW0|apply ws_spaces; exact Hws|rewrite En; cbn [app stops]; exact Hnsp].
  pose proof (WV_lit _ _ _ _ HW (ws_lit _ Hws)) as HW1. pose proof (WV_W _ _ _ HW1) as HW1'. cbn [CstLex.st s_pos].
  assert (Ecb : curr_byte (st (q + blen (w :: ws)) (CstNs.r_qname qn ++ ws1 ++ 61 :: ws2 ++ quote :: utf8s cs ++ quote :: more)) = Ok n).
  { revert HW1'. rewrite En. cbn [app]. intros HW1'. apply curr_byte_st. exact HW1'. }
  rewrite Ecb. cbn [bind]. rewrite Hn47, Hn62. clear Ecb En.
  rewrite consume_qname_full; [|exact HW1|exact Hn|].
  2:{ apply ws_stop_name; [exact Hw1|]. cbn [name_stop]. apply not_name_byte_lit. auto. }
  cbn [bind].
  pose proof (WV_app _ _ _ _ HW1 (uq_valid _ Hn)) as HW2. pose proof (WV_W _ _ _ HW2) as HW2'.
  unfold consume_eq.
  rewrite skip_spaces_st; [|exact HW2'|apply ws_spaces; exact Hw1|reflexivity].
  pose proof (WV_lit _ _ _ _ HW2 (ws_lit _ Hw1)) as HW3.
  rewrite consume_byte_st by (apply (WV_W _ _ _ HW3)). cbn [bind].
  pose proof (WV_cons _ _ _ _ HW3 ltac:(lia)) as HW4.
  rewrite skip_spaces_st; [|apply (WV_W _ _ _ HW4)|apply ws_spaces; exact Hw2|cbn [stops]; exact Hqsp].
  pose proof (WV_lit _ _ _ _ HW4 (ws_lit _ Hw2)) as HW5. cbn [CstLex.st s_pos].
  unfold consume_quote. rewrite curr_byte_st by (apply (WV_W _ _ _ HW5)). cbn [bind].
  rewrite Hqq.
  rewrite advance1_st by (apply (WV_W _ _ _ HW5)). cbn [bind].
  pose proof (WV_cons _ _ _ _ HW5 Hq128) as HW6. pose proof (WV_W _ _ _ HW6) as HW6'. cbn [CstLex.st s_pos].
  unfold advance_until2. rewrite avail_st by exact HW6'.
  rewrite find_idx_run; [|exact Hv1|rewrite N.eqb_refl; reflexivity].
  rewrite advance_st by (try reflexivity; exact HW6'). cbn [bind].
  unfold slice_back. cbn [CstLex.st s_pos].
  rewrite (mk_slice_v text _ (utf8s cs) _ HW6) by (apply Valid_utf8s; apply chars_scalars; exact Hv2). cbn [bind].
  rewrite (is_xml_str_u text _ cs _ _ HW6' Hv2). cbn [bind].
  pose proof (W_app _ _ _ _ HW6') as HW7.
  rewrite consume_byte_st by exact HW7. cbn [bind]. cbn [CstLex.st s_pos].
  reflexivity.
Qed.

Lemma lex_entries_full ts ws_end empty post : forall es q c fuel,
  WV q (flat_map CstNs.r_entry es ++ ws_end ++ tag_tail empty ++ post) ->
  Forall uentry_ok es -> Cst.wf_ws ws_end = true -> (length es < fuel)%nat ->
  parse_element_loop text C ev fuel ts (st q (flat_map CstNs.r_entry es ++ ws_end ++ tag_tail empty ++ post)) c =
  let q' := q + blen (flat_map CstNs.r_entry es) + blen ws_end in
  let! c1 := evs C ev (entry_toks q es) c in
  let! c2 := ev (end_tok q' empty) c1 in
  Ok (negb empty, st (q' + blen (tag_tail empty)) post, c2).
Proof.
  induction es as [|a es IH]; intros q c fuel HW Ha Hws Hf; cbv zeta.
  - cbn [flat_map app entry_toks evs bind] in *. rewrite blen_nil, N.add_0_r.
    destruct fuel as [|fu]; [cbn in Hf; lia|]. apply lex_elem_end; [apply (WV_W _ _ _ HW)|exact Hws].
  - apply Forall_cons_iff in Ha. destruct Ha as [Ha1 Ha2].
    cbn [length] in Hf. destruct fuel as [|fu]; [lia|].
    cbn [flat_map entry_toks evs] in *. rewrite <- app_assoc in *.
    rewrite lex_entry_full by assumption.
    destruct (ev (entry_tok q a) c) as [c'| | |]; cbn [bind]; try reflexivity.
    rewrite IH; [|apply (WV_app _ _ _ _ HW (uentry_valid _ Ha1))|exact Ha2|exact Hws|lia]. cbv zeta.
    rewrite blen_app. rewrite !N.add_assoc. reflexivity.
Qed.

Lemma uentries_name_stop es ws_end empty post :
  Forall uentry_ok es -> Cst.wf_ws ws_end = true ->
  name_stop (flat_map CstNs.r_entry es ++ ws_end ++ tag_tail empty ++ post).
Proof.
  intros Ha Hws. destruct es as [|a es].
  - cbn [flat_map app]. apply ws_stop_name; [exact Hws|]. destruct empty; cbn [tag_tail app name_stop];
      apply not_name_byte_lit; auto.
  - apply Forall_cons_iff in Ha. destruct Ha as [Ha _].
    destruct (uentry_parts _ Ha) as (Hne & Hw & _). cbn [flat_map]. unfold CstNs.r_entry. cbv zeta.
    destruct (CstNs.l_ws (CstNs.e_layout a)) as [|w ws]; [congruence|]. cbn [app name_stop].
    cbn [Cst.wf_ws forallb] in Hw. apply andb_true_iff in Hw. apply ws_not_name_byte. apply Hw.
Qed.

Lemma lex_element_full p name es ws_end empty post c :
  WV p ([60] ++ CstNs.r_qname name ++ flat_map CstNs.r_entry es ++ ws_end ++ tag_tail empty ++ post) ->
  uq_ok name -> Forall uentry_ok es -> Cst.wf_ws ws_end = true ->
  let q' := p + 1 + blen (CstNs.r_qname name) + blen (flat_map CstNs.r_entry es) + blen ws_end in
  parse_element text C ev (st p ([60] ++ CstNs.r_qname name ++ flat_map CstNs.r_entry es ++ ws_end ++ tag_tail empty ++ post)) c =
  let! c1 := evs C ev (start_toks_ns p name es) c in
  let! c2 := ev (end_tok q' empty) c1 in
  Ok (negb empty, st (q' + blen (tag_tail empty)) post, c2).
Proof.
  intros HW Hn Ha Hws q'. unfold parse_element. cbv zeta. cbn [CstLex.st s_pos].
  fold (st p ([60] ++ CstNs.r_qname name ++ flat_map CstNs.r_entry es ++ ws_end ++ tag_tail empty ++ post)).
  rewrite (advance_st text 1 p [60]) by (try reflexivity; apply (WV_W _ _ _ HW)). cbn [bind].
  pose proof (WV_lit _ _ _ _ HW eq_refl) as HW1. change (blen [60]) with 1 in HW1.
  rewrite consume_qname_full; [|exact HW1|exact Hn|apply uentries_name_stop; assumption]. cbn [bind].
  unfold start_toks_ns. cbn [evs].
  destruct (ev _ c) as [c0| | |]; cbn [bind]; try reflexivity.
  pose proof (WV_app _ _ _ _ HW1 (uq_valid _ Hn)) as HW2.
  rewrite lex_entries_full; [|exact HW2|exact Ha|exact Hws|].
  2:{ cbn [CstLex.st s_rest]. rewrite app_length. pose proof (flat_entry_len es). lia. }
  reflexivity.
Qed.

Lemma lex_close_full p name ws2 post c : WV p ([60; 47] ++ CstNs.r_qname name ++ ws2 ++ [62] ++ post) ->
  uq_ok name -> Cst.wf_ws ws2 = true ->
  let e := p + 2 + blen (CstNs.r_qname name) + blen ws2 + 1 in
  parse_close_element text C ev (st p ([60; 47] ++ CstNs.r_qname name ++ ws2 ++ [62] ++ post)) c =
  let! c' := ev (TElementEnd (EClose (sl (p + 2) (p + 2 + blen (CstNs.q_prefix name)))
                                     (sl (p + 2 + q_off name) (p + 2 + blen (CstNs.r_qname name)))) (p, e)) c in
  Ok (st e post, c').
Proof.
  intros HW Hn Hws e. unfold parse_close_element. cbv zeta. cbn [CstLex.st s_pos].
  fold (st p ([60; 47] ++ CstNs.r_qname name ++ ws2 ++ [62] ++ post)).
  rewrite (advance_st text 2 p [60; 47]) by (try reflexivity; apply (WV_W _ _ _ HW)). cbn [bind].
  pose proof (WV_lit _ _ _ _ HW eq_refl) as HW1. change (blen [60; 47]) with 2 in HW1.
  rewrite consume_qname_full; [|exact HW1|exact Hn|].
  2:{ apply ws_stop_name; [exact Hws|]. cbn [app name_stop]. apply not_name_byte_lit. auto. }
  cbn [bind]. pose proof (W_app _ _ _ _ (WV_W _ _ _ HW1)) as HW2.
  rewrite skip_spaces_st; [|exact HW2|apply ws_spaces; exact Hws|reflexivity].
  pose proof (W_app _ _ _ _ HW2) as HW3. cbn [app] in *.
  rewrite consume_byte_st by exact HW3. cbn [bind CstLex.st s_pos]. reflexivity.
Qed.

End Lex.

Print Assumptions consume_qname_full.
Print Assumptions lex_element_full.
Print Assumptions lex_close_full.
