(* Proofs/RangeInv.v -- C13, part 3: the invariant of the builder about ranges, on the level of the
   node and attribute lists, and its preservation by the arena operations of RangeArena.v. *)
From Coq Require Import List Arith NArith Bool Lia ZifyBool ZifyN ZifyNat.
Import ListNotations.
From RX Require Import Generated.
From RX.Model Require Import Base CharClass Stream Tokenizer Doc Builder.
From RX.Proofs Require Import Tactics NoPanicUtf8 BorrowLocal RangeTokenizer RangeArena.
Open Scope N_scope.

Definition valid_range (text : bytes) (r : range) : Prop :=
  fst r <= snd r /\ snd r <= tlen text /\
  is_boundary text (fst r) = true /\ is_boundary text (snd r) = true.

Definition doc_ranges_ok (text : bytes) (d : document) : Prop :=
  (forall nd, In nd (d_nodes d) -> valid_range text (nd_range nd)) /\
  (forall a, In a (d_attrs d) -> valid_range text (ad_range a) /\ fst (ad_range a) < snd (ad_range a)) /\
  (exists nd0, nth_N (d_nodes d) 0 = Some nd0 /\ nd_range nd0 = (0, tlen text)).

(* one level of entity expansion: the arena when the level was entered, the node that was the
   parent then, the floor, and whether this is the document itself *)
Record level := { lv_nodes0 : list node_data; lv_base : N; lv_floor : N; lv_top : bool }.

Section Inv.
Variable text : bytes.
Notation Bd := (Boundary text).
Notation VR := (valid_range text).

Lemma VR_intro a e : a <= e -> Bd a -> Bd e -> VR (a, e).
Proof.
  intros H [H1 _] [H2 H3]. unfold valid_range, tlen. cbn [fst snd]. auto.
Qed.

Definition attr_ok (a : attr_data) : Prop :=
  VR (ad_range a) /\ fst (ad_range a) < snd (ad_range a) /\
  fst (ad_range a) + ad_qname_len a <= snd (ad_range a).

Definition tattr_ok (lo hi : N) (a : temp_attr) : Prop :=
  VR (ta_range a) /\ fst (ta_range a) < snd (ta_range a) /\
  fst (ta_range a) + ta_qname_len a <= snd (ta_range a) /\
  lo < fst (ta_range a) /\ snd (ta_range a) <= hi.

Definition NodesValid (nodes : list node_data) : Prop :=
  forall i nd, nth_N nodes i = Some nd -> VR (nd_range nd).
Definition AttrsValid (attrs : list attr_data) : Prop :=
  forall i a, nth_N attrs i = Some a -> attr_ok a.

(* the attributes of an element lie strictly inside its range *)
Definition AttrsIn (attrs : list attr_data) (ar : range) (lo hi : N) : Prop :=
  snd ar <= len_N attrs /\
  forall i a, fst ar <= i -> i < snd ar -> nth_N attrs i = Some a ->
              lo < fst (ad_range a) /\ snd (ad_range a) < hi.
Definition ElemAttrs (nodes : list node_data) (attrs : list attr_data) : Prop :=
  forall id nd ns local ar nss, nth_N nodes id = Some nd -> nd_kind nd = KElement ns local ar nss ->
    AttrsIn attrs ar (fst (nd_range nd)) (snd (nd_range nd)).

(* ---- NodesValid ---- *)
Lemma NodesValid_core nodes nodes' : core_pw nodes nodes' -> NodesValid nodes -> NodesValid nodes'.
Proof.
  intros Hpw H i nd' Hi. destruct (pw_back _ _ _ _ _ Hpw Hi) as [nd [Hnd (_ & _ & _ & Hr & _)]].
  rewrite Hr. eapply H; eauto.
Qed.

Lemma NodesValid_app nodes pid kind r nodes' :
  AppSpec nodes pid kind r nodes' -> VR r -> NodesValid nodes -> NodesValid nodes'.
Proof.
  intros HA Hr H i nd' Hi. destruct (AppSpec_back _ _ _ _ _ _ _ HA Hi) as
    [[_ [nd [Hnd (_ & _ & _ & E & _)]]]|[_ [pnd (_ & _ & _ & _ & E & _)]]].
  - rewrite E. eapply H; eauto.
  - rewrite E. exact Hr.
Qed.

Lemma NodesValid_close nodes x e nodes' :
  CloseSpec nodes x e nodes' -> NodesValid nodes ->
  (forall nd, nth_N nodes x = Some nd -> fst (nd_range nd) <= e) -> Bd e -> NodesValid nodes'.
Proof.
  intros HC H Hx He i nd' Hi. destruct (pw_back _ _ _ _ _ HC Hi) as [nd [Hnd HR]].
  pose proof (H i nd Hnd) as (V1 & V2 & V3 & V4).
  destruct (N.eqb_spec i x).
  - subst i nd'. cbn [nd_range nd_set_range_end]. apply VR_intro.
    + cbn [fst]. eauto.
    + split; [exact V3|]. unfold blen, tlen in *. cbn [fst]. unfold blen in *. lia.
    + exact He.
  - subst nd'. repeat split; assumption.
Qed.

(* ---- ElemAttrs ---- *)
Lemma ElemAttrs_core nodes nodes' attrs :
  core_pw nodes nodes' -> ElemAttrs nodes attrs -> ElemAttrs nodes' attrs.
Proof.
  intros Hpw H id nd' ns local ar nss Hi Hk.
  destruct (pw_back _ _ _ _ _ Hpw Hi) as [nd [Hnd (_ & _ & _ & Hr & Hs)]].
  rewrite Hr. eapply H; [exact Hnd|]. destruct Hs as [Hs|Hs].
  - rewrite <- Hs. exact Hk.
  - rewrite Hk in Hs. discriminate.
Qed.

Lemma ElemAttrs_app nodes pid kind r nodes' attrs :
  AppSpec nodes pid kind r nodes' -> ElemAttrs nodes attrs ->
  (forall ns local ar nss, kind = KElement ns local ar nss -> AttrsIn attrs ar (fst r) (snd r)) ->
  ElemAttrs nodes' attrs.
Proof.
  intros HA H Hnew id nd' ns local ar nss Hi Hk.
  destruct (AppSpec_back _ _ _ _ _ _ _ HA Hi) as
    [[_ [nd [Hnd (_ & _ & Ek & Er & _)]]]|[_ [pnd (_ & _ & _ & Ek & Er & _)]]].
  - rewrite Er. eapply H; [exact Hnd|]. rewrite <- Ek. exact Hk.
  - rewrite Er. eapply Hnew. rewrite <- Ek. exact Hk.
Qed.

Lemma ElemAttrs_close nodes x e nodes' attrs :
  CloseSpec nodes x e nodes' -> ElemAttrs nodes attrs ->
  (forall nd, nth_N nodes x = Some nd -> snd (nd_range nd) <= e) -> ElemAttrs nodes' attrs.
Proof.
  intros HC H Hx id nd' ns local ar nss Hi Hk.
  destruct (pw_back _ _ _ _ _ HC Hi) as [nd [Hnd HR]].
  destruct (N.eqb_spec id x).
  - subst id nd'. cbn [nd_kind nd_range nd_set_range_end fst snd] in *.
    destruct (H x nd ns local ar nss Hnd Hk) as [H1 H2]. split; [exact H1|].
    intros i a Hi1 Hi2 Ha. destruct (H2 i a Hi1 Hi2 Ha) as [H3 H4]. split; [exact H3|].
    pose proof (Hx nd Hnd). lia.
  - subst nd'. eapply H; eauto.
Qed.

Lemma ElemAttrs_attrs nodes attrs new :
  ElemAttrs nodes attrs -> ElemAttrs nodes (attrs ++ new).
Proof.
  intros H id nd ns local ar nss Hi Hk. destruct (H id nd ns local ar nss Hi Hk) as [H1 H2].
  split; [rewrite len_N_app; lia|]. intros i a Hi1 Hi2 Ha.
  rewrite nth_N_app_l in Ha by lia. eauto.
Qed.

(* ------------------------------------------------------------------ *)
Section Level.
Variable L : level.
Definition n0 : N := len_N (lv_nodes0 L).

(* the nodes that existed when the level was entered keep their parent and their range *)
Definition Frame (nodes : list node_data) : Prop :=
  forall i nd0, nth_N (lv_nodes0 L) i = Some nd0 ->
    exists nd, nth_N nodes i = Some nd /\ nd_parent nd = nd_parent nd0 /\ nd_range nd = nd_range nd0.

Definition LevelWf : Prop :=
  (exists nd0, nth_N (lv_nodes0 L) (lv_base L) = Some nd0) /\
  (lv_top L = true -> lv_base L = 0 /\ exists nd0, nth_N (lv_nodes0 L) 0 = Some nd0 /\
                                      nd_parent nd0 = None /\ nd_range nd0 = (0, tlen text)).

Lemma Frame_len nodes : Frame nodes -> n0 <= len_N nodes.
Proof.
  intros H. unfold n0. destruct (N.eqb_spec (len_N (lv_nodes0 L)) 0) as [E|E]; [lia|].
  destruct (nth_N_some (lv_nodes0 L) (len_N (lv_nodes0 L) - 1) ltac:(lia)) as [nd0 H0].
  destruct (H _ _ H0) as [nd [Hnd _]]. apply nth_N_lt in Hnd. lia.
Qed.

Lemma Frame_core nodes nodes' : core_pw nodes nodes' -> Frame nodes -> Frame nodes'.
Proof.
  intros [_ HF] H i nd0 H0. destruct (H i nd0 H0) as [nd [Hnd [E1 E2]]].
  destruct (HF i nd Hnd) as [nd' [Hnd' (C1 & _ & _ & C4 & _)]].
  exists nd'. split; [exact Hnd'|]. split; congruence.
Qed.

Lemma Frame_app nodes pid kind r nodes' : AppSpec nodes pid kind r nodes' -> Frame nodes -> Frame nodes'.
Proof.
  intros (_ & HF & _) H i nd0 H0. destruct (H i nd0 H0) as [nd [Hnd [E1 E2]]].
  destruct (HF i nd Hnd) as [nd' [Hnd' (C1 & _ & _ & C4 & _)]].
  exists nd'. split; [exact Hnd'|]. split; congruence.
Qed.

Lemma Frame_close nodes x e nodes' : CloseSpec nodes x e nodes' -> n0 <= x -> Frame nodes -> Frame nodes'.
Proof.
  intros [_ HF] Hx H i nd0 H0. destruct (H i nd0 H0) as [nd [Hnd [E1 E2]]].
  destruct (HF i nd Hnd) as [nd' [Hnd' HR]].
  assert (i <> x). { apply nth_N_lt in H0. unfold n0 in Hx. lia. }
  destruct (N.eqb_spec i x); [contradiction|]. subst nd'. eauto.
Qed.

(* ---- the chain of open elements of this level ---- *)
Fixpoint linked (E : Prop) (nodes : list node_data) (cur : N) (opens : list N) : Prop :=
  match opens with
  | [] => cur = lv_base L
  | x :: r => cur = x /\ exists nd y, nth_N nodes x = Some nd /\ nd_parent nd = Some y /\
                (E -> exists ynd, nth_N nodes y = Some ynd /\ nd_last_child ynd = Some x) /\
                linked E nodes y r
  end.

Lemma linked_hd E nodes cur opens : linked E nodes cur opens -> hd (lv_base L) opens = cur.
Proof. destruct opens; cbn; [auto|]. intros [-> _]. reflexivity. Qed.

Lemma linked_In E nodes cur opens : linked E nodes cur opens -> In cur (opens ++ [lv_base L]).
Proof. destruct opens; cbn; [auto|]. intros [-> _]. auto. Qed.

Definition same_lnk (nd nd' : node_data) : Prop :=
  nd_parent nd' = nd_parent nd /\ nd_last_child nd' = nd_last_child nd.

Lemma linked_pw E nodes nodes' : pw (fun _ => same_lnk) nodes nodes' ->
  forall opens cur, linked E nodes cur opens -> linked E nodes' cur opens.
Proof.
  intros [_ HF]. induction opens as [|x r IH]; intros cur H; cbn [linked] in *; [exact H|].
  destruct H as [-> (nd & y & Hx & Hp & HE & Hr)].
  split; [reflexivity|]. destruct (HF x nd Hx) as [nd' [Hx' [E1 E2]]].
  exists nd', y. split; [exact Hx'|]. split; [congruence|]. split; [|apply IH; exact Hr].
  intros He. destruct (HE He) as [ynd [Hy Hl]]. destruct (HF y ynd Hy) as [ynd' [Hy' [F1 F2]]].
  exists ynd'. split; [exact Hy'|congruence].
Qed.

Lemma core_pw_lnk nodes nodes' : core_pw nodes nodes' -> pw (fun _ => same_lnk) nodes nodes'.
Proof. apply pw_weaken. intros j a c (H1 & _ & H3 & _). split; assumption. Qed.

Lemma close_pw_lnk nodes x e nodes' : CloseSpec nodes x e nodes' -> pw (fun _ => same_lnk) nodes nodes'.
Proof.
  apply pw_weaken. intros j a c H. destruct (j =? x); subst c; split; reflexivity.
Qed.

Lemma linked_weaken (E E' : Prop) nodes : (E' -> E) ->
  forall opens cur, linked E nodes cur opens -> linked E' nodes cur opens.
Proof.
  intros HE. induction opens as [|x r IH]; intros cur H; cbn [linked] in *; [exact H|].
  destruct H as [-> (nd & y & Hx & Hp & H1 & Hr)]. split; [reflexivity|].
  exists nd, y. repeat split; auto.
Qed.

(* appending below [pid]: the last_child of [pid] changes, so [pid] may not be the parent of
   an open element of the chain -- it is the innermost one *)
Lemma linked_app E nodes pid kind r nodes' : AppSpec nodes pid kind r nodes' ->
  forall opens cur, linked E nodes cur opens -> (E -> ~ In pid (tl (opens ++ [lv_base L]))) ->
  linked E nodes' cur opens.
Proof.
  intros (_ & HF & _). induction opens as [|x rr IH]; intros cur H Hn; cbn [linked] in *; [exact H|].
  destruct H as [-> (nd & y & Hx & Hp & HE & Hr)]. split; [reflexivity|].
  destruct (HF x nd Hx) as [nd' [Hx' (E1 & _ & _ & _ & _)]].
  exists nd', y. split; [exact Hx'|]. split; [congruence|]. split.
  - intros He. destruct (HE He) as [ynd [Hy Hl]].
    destruct (HF y ynd Hy) as [ynd' [Hy' (_ & _ & _ & _ & F5)]].
    exists ynd'. split; [exact Hy'|]. rewrite F5.
    destruct (N.eqb_spec y pid); [|exact Hl]. subst y. exfalso. apply (Hn He).
    cbn [app tl]. eapply linked_In; eauto.
  - apply IH; [exact Hr|]. intros He Hin. apply (Hn He). cbn [app tl].
    destruct rr; cbn in *; [contradiction|auto].
Qed.

Definition OpenOk (p : N) (nodes : list node_data) (x : N) : Prop :=
  n0 <= x /\ exists nd, nth_N nodes x = Some nd /\ snd (nd_range nd) <= p.

Lemma OpenOk_lt p nodes x : OpenOk p nodes x -> x < len_N nodes.
Proof. intros [_ [nd [H _]]]. eapply nth_N_lt; eauto. Qed.

(* ---- nesting and sibling order (only while no entity has been declared) ---- *)
Definition N34 (bound : N) (nodes : list node_data) (cur : N) (opens : list N) : Prop :=
  (forall i nd, nth_N nodes i = Some nd ->
     fst (nd_range nd) <= bound /\ (i <> 0 -> snd (nd_range nd) <= bound)) /\
  (forall nd, nth_N nodes 0 = Some nd -> nd_parent nd = None) /\
  (forall i nd pid, nth_N nodes i = Some nd -> nd_parent nd = Some pid ->
     exists pnd, nth_N nodes pid = Some pnd /\ fst (nd_range pnd) <= fst (nd_range nd) /\
       (snd (nd_range nd) <= snd (nd_range pnd) \/ In pid (opens ++ [0]))) /\
  (forall i nd q, nth_N nodes i = Some nd -> nd_prev_sibling nd = Some q ->
     ~ In q opens /\ q < i /\
     exists qnd, nth_N nodes q = Some qnd /\ snd (nd_range qnd) <= fst (nd_range nd)) /\
  (forall pnd q, nth_N nodes cur = Some pnd -> nd_last_child pnd = Some q ->
     ~ In q opens /\ q < len_N nodes /\ 0 < q) /\
  NoDup (opens ++ [0]).

Ltac n34split := split; [|split; [|split; [|split; [|split]]]].

Lemma N34_mono bound bound' nodes cur opens :
  bound <= bound' -> N34 bound nodes cur opens -> N34 bound' nodes cur opens.
Proof.
  intros Hb (H1 & H0 & H2 & H3 & H4 & H5). n34split; auto.
  intros i nd Hi. destruct (H1 i nd Hi) as [G1 G2]. split; [lia|]. intros Hne. specialize (G2 Hne). lia.
Qed.

Lemma N34_core bound nodes nodes' cur opens :
  core_pw nodes nodes' -> N34 bound nodes cur opens -> N34 bound nodes' cur opens.
Proof.
  intros Hpw (H1 & H0 & H2 & H3 & H4 & H5). pose proof Hpw as [HL HF].
  n34split; auto.
  - intros i nd' Hi. destruct (pw_back _ _ _ _ _ Hpw Hi) as [nd [Hnd (_ & _ & _ & Er & _)]].
    rewrite Er. eauto.
  - intros nd' Hi. destruct (pw_back _ _ _ _ _ Hpw Hi) as [nd [Hnd (Ep & _)]].
    rewrite Ep. eauto.
  - intros i nd' pid Hi Hp.
    destruct (pw_back _ _ _ _ _ Hpw Hi) as [nd [Hnd (Ep & _ & _ & Er & _)]].
    rewrite Ep in Hp. destruct (H2 i nd pid Hnd Hp) as [pnd [Hpn [G1 G2]]].
    destruct (HF pid pnd Hpn) as [pnd' [Hpn' (_ & _ & _ & Er' & _)]].
    exists pnd'. rewrite Er, Er'. auto.
  - intros i nd' q Hi Hq.
    destruct (pw_back _ _ _ _ _ Hpw Hi) as [nd [Hnd (_ & Eq & _ & Er & _)]].
    rewrite Eq in Hq. destruct (H3 i nd q Hnd Hq) as [G1 [G2 [qnd [Hqn G3]]]].
    destruct (HF q qnd Hqn) as [qnd' [Hqn' (_ & _ & _ & Er' & _)]].
    split; [exact G1|]. split; [exact G2|]. exists qnd'. rewrite Er, Er'. auto.
  - intros pnd' q Hc Hl.
    destruct (pw_back _ _ _ _ _ Hpw Hc) as [pnd [Hpn (_ & _ & El & _ & _)]].
    rewrite El in Hl. rewrite HL. eauto.
Qed.

(* a new last node below the innermost open node *)
Lemma N34_app bound nodes pid kind r nodes' opens :
  AppSpec nodes pid kind r nodes' -> NodesValid nodes ->
  N34 bound nodes pid opens -> In pid (opens ++ [0]) -> Forall (fun x => x < len_N nodes) opens ->
  fst r <= snd r -> bound <= fst r ->
  N34 (snd r) nodes' pid opens.
Proof.
  intros HA HV (H1 & H0 & H2 & H3 & H4 & H5) Hin Hlt Hr Hb.
  pose proof HA as (HL & HF & pnd0 & ndn & Hp0 & Hn & N1 & N2 & N3 & N4 & N5).
  set (n := len_N nodes) in *.
  assert (Hnpos : 0 < n) by (apply nth_N_lt in Hp0; fold n in Hp0; lia).
  n34split; auto.
  - intros i nd' Hi. destruct (AppSpec_back _ _ _ _ _ _ _ HA Hi) as
      [[_ [nd [Hnd (_ & _ & _ & Er & _)]]]|[_ [pnd (_ & _ & _ & _ & Er & _)]]].
    + rewrite Er. destruct (H1 i nd Hnd) as [G1 G2]. split; [lia|]. intros Hne. specialize (G2 Hne). lia.
    + rewrite Er. split; [lia|]. intros _. lia.
  - intros nd' Hi. destruct (AppSpec_back _ _ _ _ _ _ _ HA Hi) as
      [[_ [nd [Hnd (Ep & _)]]]|[Ei _]].
    + rewrite Ep. eauto.
    + fold n in Ei. lia.
  - intros i nd' pid' Hi Hp. destruct (AppSpec_back _ _ _ _ _ _ _ HA Hi) as
      [[_ [nd [Hnd (Ep & _ & _ & Er & _)]]]|[_ [pnd (Hpn0 & Ep & _ & _ & Er & _)]]].
    + rewrite Ep in Hp. destruct (H2 i nd pid' Hnd Hp) as [pnd [Hpn [G1 G2]]].
      destruct (HF pid' pnd Hpn) as [pnd' [Hpn' (_ & _ & _ & Er' & _)]].
      exists pnd'. rewrite Er, Er'. auto.
    + rewrite Ep in Hp. injection Hp as <-.
      destruct (HF pid pnd0 Hp0) as [pnd' [Hpn' (_ & _ & _ & Er' & _)]].
      exists pnd'. split; [exact Hpn'|]. rewrite Er, Er'.
      destruct (H1 pid pnd0 Hp0) as [G1 _].
      split; [lia|]. right. exact Hin.
  - intros i nd' q Hi Hq. destruct (AppSpec_back _ _ _ _ _ _ _ HA Hi) as
      [[_ [nd [Hnd (_ & Eq & _ & Er & _)]]]|[Ei [pnd (Hpn0 & _ & Eq & _ & Er & _)]]].
    + rewrite Eq in Hq. destruct (H3 i nd q Hnd Hq) as [G1 [G2 [qnd [Hqn G3]]]].
      destruct (HF q qnd Hqn) as [qnd' [Hqn' (_ & _ & _ & Er' & _)]].
      split; [exact G1|]. split; [exact G2|]. exists qnd'. rewrite Er, Er'. auto.
    + assert (pnd = pnd0) by congruence. subst pnd. rewrite Eq in Hq.
      destruct (H4 pnd0 q Hp0 Hq) as [G1 [G2 G3]].
      destruct (nth_N_some nodes q G2) as [qnd Hqn].
      destruct (HF q qnd Hqn) as [qnd' [Hqn' (_ & _ & _ & Er' & _)]].
      split; [exact G1|]. split; [subst i; exact G2|]. exists qnd'.
      split; [exact Hqn'|]. rewrite Er, Er'. destruct (H1 q qnd Hqn) as [_ G4].
      specialize (G4 ltac:(lia)). lia.
  - intros pnd' q Hc Hl. destruct (HF pid pnd0 Hp0) as [pnd2 [Hpn2 (_ & _ & _ & _ & El)]].
    assert (pnd2 = pnd') by congruence. subst pnd2. rewrite El, N.eqb_refl in Hl.
    injection Hl as <-. split; [|rewrite HL; lia].
    intros Hi. rewrite Forall_forall in Hlt. specialize (Hlt _ Hi). lia.
Qed.

(* the new node becomes the innermost open one *)
Lemma N34_open bound nodes' n ndn pid opens :
  N34 bound nodes' pid opens -> nth_N nodes' n = Some ndn -> nd_last_child ndn = None ->
  len_N nodes' = n + 1 -> Forall (fun x => x < n) opens -> 0 < n ->
  N34 bound nodes' n (n :: opens).
Proof.
  intros (H1 & H0 & H2 & H3 & H4 & H5) Hn Hl HL Hlt Hpos.
  n34split; auto.
  - intros i nd pid' Hi Hp. destruct (H2 i nd pid' Hi Hp) as [pnd [Hpn [G1 G2]]].
    exists pnd. split; [exact Hpn|]. split; [exact G1|]. destruct G2; [auto|]. right. cbn. auto.
  - intros i nd q Hi Hq. destruct (H3 i nd q Hi Hq) as [G1 [G2 G3]].
    split; [|auto]. intros [Hc|Hc]; [|contradiction].
    apply nth_N_lt in Hi. lia.
  - intros pnd q Hc Hlc. assert (pnd = ndn) by congruence. subst pnd. congruence.
  - cbn [app]. constructor; [|exact H5]. intros Hi. apply in_app_or in Hi. destruct Hi as [Hi|[Hi|[]]].
    + rewrite Forall_forall in Hlt. specialize (Hlt _ Hi). lia.
    + lia.
Qed.

(* the innermost open element [x] is closed; [y] is its parent *)
Lemma N34_close p e nodes x y ndx rr nodes' :
  CloseSpec nodes x e nodes' -> N34 p nodes x (x :: rr) -> p <= e ->
  nth_N nodes x = Some ndx -> nd_parent ndx = Some y ->
  (exists ynd, nth_N nodes y = Some ynd /\ nd_last_child ynd = Some x) ->
  In y (rr ++ [0]) ->
  N34 e nodes' y rr.
Proof.
  intros HC (H1 & H0 & H2 & H3 & H4 & H5) Hpe Hx Hpx [ynd [Hy Hly]] Hyin.
  pose proof HC as [HL HF].
  assert (Hfst : forall j nd', nth_N nodes' j = Some nd' ->
            exists nd, nth_N nodes j = Some nd /\ fst (nd_range nd') = fst (nd_range nd) /\
              nd_parent nd' = nd_parent nd /\ nd_prev_sibling nd' = nd_prev_sibling nd /\
              nd_last_child nd' = nd_last_child nd /\
              snd (nd_range nd') = (if j =? x then e else snd (nd_range nd))).
  { intros j nd' Hj. destruct (pw_back _ _ _ _ _ HC Hj) as [nd [Hnd HR]].
    exists nd. split; [exact Hnd|]. destruct (j =? x); subst nd'; cbn; auto 6. }
  cbn [app] in H5. inversion H5 as [|? ? Hxn Hndp]; subst.
  assert (Hx0 : x <> 0) by (intros ->; apply Hxn; apply in_or_app; right; left; reflexivity).
  n34split; auto.
  - intros i nd' Hi. destruct (Hfst i nd' Hi) as [nd [Hnd (Ef & _ & _ & _ & Es)]].
    rewrite Ef, Es. destruct (H1 i nd Hnd) as [G1 G2]. split; [lia|]. intros Hne.
    destruct (i =? x); [lia|]. specialize (G2 Hne). lia.
  - intros nd' Hi. destruct (Hfst 0 nd' Hi) as [nd [Hnd (_ & Ep & _)]]. rewrite Ep. eauto.
  - intros i nd' pid Hi Hp. destruct (Hfst i nd' Hi) as [nd [Hnd (Ef & Ep & _ & _ & Es)]].
    rewrite Ep in Hp. destruct (H2 i nd pid Hnd Hp) as [pnd [Hpn [G1 G2]]].
    destruct (HF pid pnd Hpn) as [pnd' [Hpn' HR']].
    destruct (Hfst pid pnd' Hpn') as [pnd2 [Hpn2 (Ef' & _ & _ & _ & Es')]].
    assert (pnd2 = pnd) by congruence. subst pnd2.
    exists pnd'. split; [exact Hpn'|]. rewrite Ef, Ef'. split; [exact G1|].
    rewrite Es, Es'. destruct (N.eqb_spec i x) as [->|Hix].
    + right. assert (nd = ndx) by congruence. subst nd. assert (pid = y) by congruence. subst pid.
      exact Hyin.
    + destruct (N.eqb_spec pid x) as [->|Hpx'].
      * left. destruct (H1 i nd Hnd) as [_ G3].
        assert (Hi0 : i <> 0).
        { intros ->. specialize (H0 nd Hnd). congruence. }
        specialize (G3 Hi0). lia.
      * destruct G2 as [G2|G2]; [auto|]. right. cbn [app] in G2. destruct G2 as [G2|G2]; [congruence|exact G2].
  - intros i nd' q Hi Hq. destruct (Hfst i nd' Hi) as [nd [Hnd (Ef & _ & Eq & _ & _)]].
    rewrite Eq in Hq. destruct (H3 i nd q Hnd Hq) as [G1 [G2 [qnd [Hqn G3]]]].
    assert (Hqx : q <> x) by (intros ->; apply G1; left; reflexivity).
    destruct (HF q qnd Hqn) as [qnd' [Hqn' HR']].
    destruct (N.eqb_spec q x); [contradiction|]. subst qnd'.
    split; [intros Hc; apply G1; right; exact Hc|]. split; [exact G2|].
    exists qnd. split; [exact Hqn'|]. rewrite Ef. exact G3.
  - intros pnd' q Hc Hl. destruct (Hfst y pnd' Hc) as [pnd [Hpn (_ & _ & _ & El & _)]].
    assert (pnd = ynd) by congruence. subst pnd. rewrite El, Hly in Hl. injection Hl as <-.
    split; [|split].
    + intros Hi. apply Hxn. apply in_or_app. left. exact Hi.
    + rewrite HL. eapply nth_N_lt; eauto.
    + lia.
Qed.

(* ---- the path: count, chain, bounds, order ---- *)
Definition PathOk (E : Prop) (p bound : N) (nodes : list node_data) (cur npre : N)
           (opens : list N) : Prop :=
  N.of_nat (length opens) + lv_floor L + (if lv_top L then 1 else 0) = npre /\
  linked E nodes cur opens /\ Forall (OpenOk p nodes) opens /\
  (E -> lv_base L = 0 /\ N34 bound nodes cur opens).

Lemma PathOk_mono E p p' bound bound' nodes cur npre opens :
  p <= p' -> bound <= bound' -> PathOk E p bound nodes cur npre opens ->
  PathOk E p' bound' nodes cur npre opens.
Proof.
  intros Hp Hb (H1 & H2 & H3 & H4). split; [exact H1|]. split; [exact H2|]. split.
  - eapply Forall_impl; [|exact H3]. intros x [G1 [nd [G2 G3]]]. split; [exact G1|].
    exists nd. split; [exact G2|lia].
  - intros He. destruct (H4 He) as [Hb0 HN]. split; [exact Hb0|].
    eapply N34_mono; [exact Hb|exact HN].
Qed.

Lemma PathOk_weaken (E E' : Prop) p bound nodes cur npre opens :
  (E' -> E) -> PathOk E p bound nodes cur npre opens -> PathOk E' p bound nodes cur npre opens.
Proof.
  intros HE (H1 & H2 & H3 & H4). split; [exact H1|]. split; [|split; [exact H3|]].
  - eapply linked_weaken; eauto.
  - intros He. apply H4. auto.
Qed.

Lemma PathOk_core E p bound nodes nodes' cur npre opens :
  core_pw nodes nodes' -> PathOk E p bound nodes cur npre opens ->
  PathOk E p bound nodes' cur npre opens.
Proof.
  intros Hpw (H1 & H2 & H3 & H4). pose proof Hpw as [_ HF].
  split; [exact H1|]. split; [|split].
  - eapply linked_pw; [apply core_pw_lnk; exact Hpw|exact H2].
  - eapply Forall_impl; [|exact H3]. intros x [G1 [nd [G2 G3]]]. split; [exact G1|].
    destruct (HF x nd G2) as [nd' [G2' (_ & _ & _ & Er & _)]]. exists nd'. rewrite Er. auto.
  - intros He. destruct (H4 He) as [Hb0 HN]. split; [exact Hb0|].
    eapply N34_core; [exact Hpw|exact HN].
Qed.

Lemma OpenOk_app p p' nodes pid kind r nodes' x :
  AppSpec nodes pid kind r nodes' -> p <= p' -> OpenOk p nodes x -> OpenOk p' nodes' x.
Proof.
  intros (_ & HF & _) Hp [G1 [nd [G2 G3]]]. split; [exact G1|].
  destruct (HF x nd G2) as [nd' [G2' (_ & _ & _ & Er & _)]]. exists nd'. rewrite Er.
  split; [exact G2'|lia].
Qed.

Lemma PathOk_app E p bound nodes kind r nodes' cur npre opens :
  AppSpec nodes cur kind r nodes' -> NodesValid nodes ->
  PathOk E p bound nodes cur npre opens -> fst r <= snd r -> p <= snd r -> (E -> bound <= fst r) ->
  PathOk E (snd r) (snd r) nodes' cur npre opens.
Proof.
  intros HA HV (H1 & H2 & H3 & H4) Hr Hp Hb.
  assert (Hlt : Forall (fun x => x < len_N nodes) opens).
  { eapply Forall_impl; [|exact H3]. intros x. apply OpenOk_lt. }
  split; [exact H1|]. split; [|split].
  - eapply linked_app; [exact HA|exact H2|]. intros He.
    destruct (H4 He) as [Hb0 (_ & _ & _ & _ & _ & Hnd)]. rewrite Hb0.
    pose proof (linked_hd _ _ _ _ H2) as Hhd. rewrite Hb0 in Hhd.
    destruct opens as [|x rr]; cbn [app tl hd] in *; [auto|]. subst x.
    inversion Hnd; assumption.
  - eapply Forall_impl; [|exact H3]. intros x. eapply OpenOk_app; eauto.
  - intros He. destruct (H4 He) as [Hb0 HN]. split; [exact Hb0|].
    eapply N34_app; eauto. rewrite <- Hb0. eapply linked_In; eauto.
Qed.

Lemma PathOk_open E p bound nodes' n ndn pid npre opens :
  PathOk E p bound nodes' pid npre opens ->
  nth_N nodes' n = Some ndn -> nd_parent ndn = Some pid -> nd_last_child ndn = None ->
  snd (nd_range ndn) <= p ->
  (exists pnd, nth_N nodes' pid = Some pnd /\ nd_last_child pnd = Some n) ->
  len_N nodes' = n + 1 -> n0 <= n -> Forall (fun x => x < n) opens -> 0 < n ->
  PathOk E p bound nodes' n (npre + 1) (n :: opens).
Proof.
  intros (H1 & H2 & H3 & H4) Hn Hp Hl Hs Hpl HL Hn0 Hlt Hpos.
  split; [cbn [length]; lia|]. split; [|split].
  - cbn [linked]. split; [reflexivity|]. exists ndn, pid. auto.
  - constructor; [|exact H3]. split; [exact Hn0|]. exists ndn. auto.
  - intros He. destruct (H4 He) as [Hb0 HN]. split; [exact Hb0|].
    eapply N34_open; eauto.
Qed.

Lemma PathOk_close E p e nodes x rr nodes' npre :
  CloseSpec nodes x e nodes' -> PathOk E p p nodes x npre (x :: rr) -> p <= e ->
  exists ndx y, nth_N nodes x = Some ndx /\ nd_parent ndx = Some y /\ n0 <= x /\
                snd (nd_range ndx) <= p /\
                PathOk E e e nodes' y (npre - 1) rr.
Proof.
  intros HC (H1 & H2 & H3 & H4) Hpe. cbn [linked] in H2.
  destruct H2 as [_ (ndx & y & Hx & Hpx & HE & Hr)].
  inversion H3 as [|? ? [Hx0 [ndx' [Hx' Hsx]]] H3']; subst.
  assert (ndx' = ndx) by congruence. subst ndx'.
  exists ndx, y. split; [exact Hx|]. split; [exact Hpx|]. split; [exact Hx0|]. split; [exact Hsx|].
  split; [cbn [length] in *; lia|]. split; [|split].
  - eapply linked_pw; [eapply close_pw_lnk; exact HC|exact Hr].
  - destruct HC as [_ HF]. eapply Forall_impl; [|exact H3'].
    intros z [G1 [nd [G2 G3]]]. split; [exact G1|].
    destruct (HF z nd G2) as [nd' [G2' HR]]. exists nd'. split; [exact G2'|].
    destruct (z =? x); subst nd'; cbn; lia.
  - intros He. destruct (H4 He) as [Hb0 HN]. split; [exact Hb0|].
    eapply N34_close; eauto. rewrite <- Hb0. eapply linked_In; eauto.
Qed.

(* leaving a nested level: the nodes that existed when it was entered kept parent and range *)
Definition frame_rel (nodes nodes' : list node_data) : Prop :=
  forall i nd, nth_N nodes i = Some nd ->
    exists nd', nth_N nodes' i = Some nd' /\ nd_parent nd' = nd_parent nd /\ nd_range nd' = nd_range nd.

Lemma linked_frame (E E' : Prop) nodes nodes' : ~ E' -> frame_rel nodes nodes' ->
  forall opens cur, linked E nodes cur opens -> linked E' nodes' cur opens.
Proof.
  intros HE HF. induction opens as [|x r IH]; intros cur H; cbn [linked] in *; [exact H|].
  destruct H as [-> (nd & y & Hx & Hp & _ & Hr)]. split; [reflexivity|].
  destruct (HF x nd Hx) as [nd' [Hx' [E1 E2]]].
  exists nd', y. split; [exact Hx'|]. split; [congruence|]. split; [intros He; contradiction|].
  apply IH; exact Hr.
Qed.

Lemma PathOk_frame (E E' : Prop) p bound bound' nodes nodes' cur npre opens :
  ~ E' -> frame_rel nodes nodes' -> PathOk E p bound nodes cur npre opens ->
  PathOk E' p bound' nodes' cur npre opens.
Proof.
  intros HE HF (H1 & H2 & H3 & H4). split; [exact H1|]. split; [|split].
  - eapply linked_frame; eauto.
  - eapply Forall_impl; [|exact H3]. intros x [G1 [nd [G2 G3]]]. split; [exact G1|].
    destruct (HF x nd G2) as [nd' [G2' [_ Er]]]. exists nd'. rewrite Er. auto.
  - intros He. contradiction.
Qed.

Lemma Frame_trans nodes nodes' : Frame nodes -> frame_rel nodes nodes' -> Frame nodes'.
Proof.
  intros H HF i nd0 H0. destruct (H i nd0 H0) as [nd [Hnd [E1 E2]]].
  destruct (HF i nd Hnd) as [nd' [Hnd' [F1 F2]]]. exists nd'. split; [exact Hnd'|]. split; congruence.
Qed.

End Level.
End Inv.
