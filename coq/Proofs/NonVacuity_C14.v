(* Proofs/NonVacuity_C14.v -- non-vacuity of the hypotheses of the theorems pinned under C14 that had
   no instance yet: PositionProofs.v, the front-whitespace shift theorems of ErrShiftFinal.v, the
   callback hypothesis of tokenizer_errors_positioned, the display theorems.
   (insertion_point: ErrShiftMidFinal.ex_point..ex_ok; dtd_point_noent: ErrShiftDtdFinal.exd_point..exd_ok;
   dtd_point: ErrShiftEntSanity.exe_point..exe_err_attr.) *)
From Coq Require Import Ascii String List NArith Bool Lia.
Import ListNotations.
From RX Require Import Generated.
From RX.Model Require Import Base CharClass Stream Tokenizer Doc Builder Parse Api.
From RX.Proofs Require Import PositionProofs ErrPosStream ErrPosTokenizer ErrPosParse ErrPayload RangeShiftBuilder ErrShiftBase ErrShiftFinal
     NonVacuity_Doc.
From RX Require GeneratedDisplay.
From RX.Model Require ErrDisplay.
From RX.Proofs Require ErrDisplayProofs.
Open Scope N_scope.

(* a two-line document with a multi-byte character (U+00E9) before the offset looked at *)
Definition textP : bytes := b "<r>" ++ [195; 169; 10] ++ b "<a>t</b></r>".

Example nv_text_pos_on_boundary :
  valid_utf8_b textP = true /\ 9 <= tlen textP /\ is_boundary textP 9 = true /\
  (9 = 0 -> head_ok textP) /\ text_pos_at textP 9 = Ok (2, 4) /\ tlen textP <= 100.
Proof. repeat split; try (vm_compute; first [reflexivity | discriminate]). Qed.

Example nv_text_pos_shift_lines_applied :
  text_pos_at (repeat 10 2 ++ textP) (N.of_nat 2 + 9) = Ok (N.of_nat 2 + 2, 4).
Proof.
  destruct nv_text_pos_on_boundary as (H1 & H2 & H3 & H4 & H5 & _).
  exact (text_pos_shift_lines_valid textP 2 9 2 4 H1 H2 H3 H5).
Qed.

Example nv_text_pos_shift_spaces_gen_applied :
  text_pos_at (repeat 32 3 ++ textP) (N.of_nat 3 + 9) = Ok (2, 4).
Proof.
  destruct nv_text_pos_on_boundary as (H1 & H2 & H3 & H4 & H5 & _).
  exact (text_pos_shift_spaces_gen textP 3 9 2 4 H2 H3 H4 H5).
Qed.

(* the case q = 0 of the _gen theorems: head_ok *)
Example nv_text_pos_shift_gen_q0 :
  0 <= tlen textP /\ is_boundary textP 0 = true /\ (0 = 0 -> head_ok textP) /\ text_pos_at textP 0 = Ok (1, 1).
Proof. repeat split; try (vm_compute; first [reflexivity | discriminate]). Qed.

(* parse_err_shift and its corollaries: an error with a position on row 2 *)
Example nv_parse_err_shift :
  forallb byte_is_space (b "  " ++ [10; 9]) = true /\ valid_utf8_b textP = true /\
  starts_with (stream_new textP) [239;187;191] = false /\ starts_with_declaration (stream_new textP) = false /\
  exists e, parse textP opt0 = Err e /\ has_pos e = true /\ error_pos e = (2, 5).
Proof.
  split; [vm_compute; reflexivity|]. split; [vm_compute; reflexivity|].
  split; [vm_compute; reflexivity|]. split; [vm_compute; reflexivity|].
  eexists. split; [vm_compute; reflexivity|]. split; reflexivity.
Qed.

Example nv_parse_err_shift_lines_applied :
  exists e', parse (repeat 10 2 ++ textP) opt0 = Err e' /\ error_pos e' = (4, 5).
Proof.
  destruct nv_parse_err_shift as (_ & H2 & H3 & H4 & e & H5 & H6 & H7).
  destruct (parse_err_shift_lines 2 textP opt0 e H2 H3 H4 H5 H6) as (e' & E1 & _ & E3).
  exists e'. split; [exact E1|]. rewrite E3, H7. reflexivity.
Qed.

(* parse_ok_shift on the shared document *)
Example nv_parse_ok_shift :
  forallb byte_is_space [32; 10] = true /\ [32; 10] <> [] /\
  starts_with (stream_new text0) [239;187;191] = false /\ starts_with_declaration (stream_new text0) = false.
Proof.
  split; [vm_compute; reflexivity|]. split; [discriminate|]. split; vm_compute; reflexivity.
Qed.

Example nv_parse_ok_shift_applied : parse ([32; 10] ++ text0) opt0 = Ok (sh_doc 2 d0).
Proof.
  destruct nv_parse_ok_shift as (H1 & H2 & H3 & H4).
  exact (parse_ok_shift [32; 10] text0 opt0 d0 H1 valid0 H2 H3 H4 parse0).
Qed.

(* tokenizer_errors_positioned: a callback that fails at the comment with a positioned error *)
Definition ev_err (tok : Tokenizer.token) (c : nat) : res nat :=
  match tok with TComment _ _ => Err (InvalidComment (1, 1)) | _ => Ok (S c) end.

Example nv_tokenizer_errors_positioned :
  (forall tok c0 e0, ev_err tok c0 = Err e0 -> positioned text0 e0) /\
  parse_document text0 nat ev_err true 0%nat = Err (InvalidComment (1, 1)).
Proof.
  split; [|vm_compute; reflexivity].
  intros tok c0 e0 H. destruct tok; cbn in H; inversion H; subst. left. reflexivity.
Qed.

(* token_errors_positioned / parse_errors_positioned / parse_error_in_bounds / payload: an Err exists *)
Example nv_parse_err : exists e, parse textP opt0 = Err e /\ valid_utf8_b textP = true.
Proof. eexists. split; [vm_compute; reflexivity|vm_compute; reflexivity]. Qed.

(* the display theorems *)
Module Disp.
Import RX.GeneratedDisplay. Import RX.Model.ErrDisplay. Import RX.Proofs.ErrDisplayProofs.
Example nv_display_pos : has_pos (UnknownNamespace (b "p") (2, 7)) = true.
Proof. reflexivity. Qed.
Example nv_display_positionless : has_pos NoRootNode = false.
Proof. reflexivity. Qed.
Example nv_display_payload :
  quoted_payload (UnknownNamespace (b "p") (2, 7)) = true /\
  In (FStr (b "p")) (error_fields (UnknownNamespace (b "p") (2, 7))).
Proof. split; [reflexivity|]. vm_compute. auto. Qed.
End Disp.
