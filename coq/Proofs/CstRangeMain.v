(* Proofs/CstRangeMain.v -- C13 (shape of the ranges) and C18 (what is stored) for every
   well-formed abstract document of Spec/Cst.v: the ranges of the nodes and of the attributes of
   parse (render c) are exactly the places where the items and attributes of c are written
   ([spans], [attr_spans], [shapes] of CstRangeDefs.v), and everything stored is borrowed.

   Size hypotheses as in CstMain.v: room for all nodes, input at most u32::MAX bytes long. *)
From Coq Require Import Ascii String.
From Coq Require Import List NArith PeanoNat Bool Lia ZifyBool ZifyN ZifyNat.
Import ListNotations.
From RX Require Import Generated.
From RX.Model Require Import Base CharClass Stream Tokenizer Doc Builder Parse Api.
From RX.Spec Require Cst.
From RX.Proofs Require Import Tactics CstLex CstBuild CstTree CstItems CstDoc CstMain
  CstRangeDefs CstRangeBuild CstRangeItems CstRangeDoc.
Open Scope N_scope.

(* ---- how a stored node matches the place it was written at (C18) ---- *)
(* [stored_as k sh]: the kind [k] of a stored node holds exactly the slices [sh] of the input; a
   text is stored Borrowed, an element has no namespace.  (This is CstRangeItems.kshape.) *)
Definition stored_as (k : node_kind) (sh : nshape) : Prop :=
  match k, sh with
  | KElement ns local _ _, SElem sp => ns = None /\ (sl_start local, sl_end local) = sp
  | KText (Borrowed (SIn s)), SText sp => (sl_start s, sl_end s) = sp
  | KComment s, SComment sp => (sl_start s, sl_end s) = sp
  | KPI t v, SPI tsp vsp =>
    (sl_start t, sl_end t) = tsp /\
    match v, vsp with
    | Some s, Some sp => (sl_start s, sl_end s) = sp
    | None, None => True
    | _, _ => False
    end
  | _, _ => False
  end.

Lemma stored_as_kshape k sh : kshape k sh <-> stored_as k sh.
Proof. reflexivity. Qed.

Definition slice_of (sp : N * N) : slice := {| sl_start := fst sp; sl_end := snd sp |}.

(* ------------------------------------------------------------------ *)
(* the run                                                              *)

Lemma parse_is_doc text opt cf d :
  parse_document text context (Parse.token text) (allow_dtd opt) (init_ctx text opt) = Ok cf ->
  parse text opt = Ok d -> d = c_doc cf.
Proof.
  intros E H. unfold parse in H. rewrite init_context_eq in H. cbn [bind] in H. rewrite E in H. cbn [bind] in H.
  apply bind_ok in H. destruct H as [it [_ H]]. apply bind_ok in H. destruct H as [he [_ H]].
  destruct (negb he); [discriminate|]. destruct (_ <? _); [discriminate|]. injection H as <-. reflexivity.
Qed.

(* everything the induction observes, for the whole document *)
Lemma parse_observed (c : Cst.doc) (opt : options) d :
  Cst.wf_doc c = true ->
  N.of_nat (length (Cst.sem c)) < nodes_limit opt ->
  N.of_nat (length (Cst.render c)) <= u32_max ->
  parse (Cst.render c) opt = Ok d ->
  map nd_range (d_nodes d) = (0, tlen (Cst.render c)) :: spans c /\
  (exists k0, map nd_kind (d_nodes d) = KRoot :: k0 /\ Forall2 kshape k0 (shapes c)) /\
  d_attrs d = flat_map item_ads (doc_items_at c).
Proof.
  intros Hwf Hlim Hsz H. destruct (render_bounds c Hwf) as [B1 B2]. set (text := Cst.render c) in *.
  destruct (parse_document_ok_r c (allow_dtd opt) (init_ctx text opt) Hwf (init_ctx_CI text opt) eq_refl)
    as (cf & K & ext & E & S & _ & _ & (X1 & X2 & X3)).
  { unfold node_room. cbn. rewrite nsizes_doc. unfold len_N. cbn [length]. unfold u32_max in *. lia. }
  { unfold attr_room. cbn. unfold doc_nattrs in B2. unfold u32_max in *. lia. }
  fold text in E. unfold tok_ev in E. rewrite (parse_is_doc text opt cf d E H).
  destruct S as (S0 & _).
  split; [|split].
  - exact X3.
  - exists (map snd K). split; [|exact X1].
    replace (map nd_kind (d_nodes (c_doc cf))) with (map snd (absn (c_doc cf)))
      by (unfold absn; rewrite map_map; apply map_ext; reflexivity).
    rewrite (s_nodes _ _ _ _ S0), map_app. reflexivity.
  - rewrite (s_attrs _ _ _ _ S0). cbn [init_ctx c_doc d_attrs app]. exact X2.
Qed.

(* ------------------------------------------------------------------ *)
(* (1) the ranges of the nodes                                          *)

Theorem parse_render_ranges : forall (c : Cst.doc) (opt : options) d,
  Cst.wf_doc c = true ->
  N.of_nat (length (Cst.sem c)) < nodes_limit opt ->          (* room for all nodes + the Root *)
  N.of_nat (length (Cst.render c)) <= u32_max ->               (* the input is at most u32::MAX bytes long *)
  parse (Cst.render c) opt = Ok d ->
  map nd_range (tl (d_nodes d)) = spans c /\
  (exists root, nth_N (d_nodes d) 0 = Some root /\ nd_range root = (0, N.of_nat (length (Cst.render c)))).
Proof.
  intros c opt d Hwf Hlim Hsz H. destruct (parse_observed c opt d Hwf Hlim Hsz H) as (R & _ & _).
  destruct (d_nodes d) as [|root nodes]; [discriminate|]. cbn [map tl] in *. injection R as R0 R1.
  split; [exact R1|]. exists root. split; [reflexivity|exact R0].
Qed.
Print Assumptions parse_render_ranges.

(* ------------------------------------------------------------------ *)
(* (2) the ranges of the attributes                                     *)

Lemma ads_spans : forall attrs q, Forall attr_small attrs ->
  map (fun a => (ad_range a, attr_range_qname a, attr_range_value a)) (map ad_of (tas q attrs)) =
  map (fun s => (as_range s, as_qname s, Ok (as_value s))) (aspans_at q attrs).
Proof.
  induction attrs as [|a r IH]; intros q HF; [reflexivity|].
  inversion HF as [|? ? [Hs1 Hs2] HF']; subst. cbn [tas map aspans_at]. rewrite (IH _ HF'). f_equal.
  unfold ad_of, ta_of, aspan_at, attr_range_qname, attr_range_value. cbv zeta.
  cbn [ad_range ad_qname_len ad_eq_len ta_range ta_qname_len ta_eq_len as_range as_qname as_value fst snd].
  unfold nlen in *. fold (blen (Cst.a_ws a)) (blen (Cst.a_name a)) (blen (Cst.a_ws1 a)) (blen (Cst.a_ws2 a))
    (blen (Cst.a_value a)) in *.
  unfold qname_len_sat, eq_len_sat.
  set (s := q + blen (Cst.a_ws a)). set (n := blen (Cst.a_name a)).
  set (w1 := blen (Cst.a_ws1 a)) in *. set (w2 := blen (Cst.a_ws2 a)) in *. set (v := blen (Cst.a_value a)).
  fold n in Hs1.
  replace (N.min (s + n - s) 65535) with n by lia.
  replace (N.min (s + n + w1 + 1 + w2 - (s + n)) 255) with (w1 + 1 + w2) by lia.
  replace (s + n + w1 + 1 + w2 + 1 + v + 1 =? 0) with false by lia.
  repeat (f_equal; try lia).
Qed.

Lemma attrs_small_items L : Forall attr_small (flat_map item_attrs L) ->
  map (fun a => (ad_range a, attr_range_qname a, attr_range_value a)) (flat_map item_ads L) =
  map (fun s => (as_range s, as_qname s, Ok (as_value s))) (flat_map item_aspans L).
Proof.
  induction L as [|[p i] L IH]; intros HF; [reflexivity|].
  cbn [flat_map] in *. apply Forall_app in HF. destruct HF as [H1 H2].
  rewrite !map_app, (IH H2). f_equal.
  unfold item_ads, item_aspans, item_attrs in *. cbn [fst snd] in *.
  destruct i; try reflexivity. apply ads_spans. exact H1.
Qed.

Theorem parse_render_attr_ranges : forall (c : Cst.doc) (opt : options) d,
  Cst.wf_doc c = true ->
  N.of_nat (length (Cst.sem c)) < nodes_limit opt ->
  N.of_nat (length (Cst.render c)) <= u32_max ->
  attrs_small c ->                                             (* below the saturation limits *)
  parse (Cst.render c) opt = Ok d ->
  map (fun a => (ad_range a, attr_range_qname a, attr_range_value a)) (d_attrs d) =
  map (fun s => (as_range s, as_qname s, Ok (as_value s))) (attr_spans c).
Proof.
  intros c opt d Hwf Hlim Hsz Hsmall H. destruct (parse_observed c opt d Hwf Hlim Hsz H) as (_ & _ & A).
  rewrite A. apply attrs_small_items. exact Hsmall.
Qed.
Print Assumptions parse_render_attr_ranges.

(* a document that satisfies the hypothesis: <a x="1" y = '2'/> *)
Example small_doc : Cst.doc :=
  {| Cst.d_before := []; Cst.d_ws0 := [];
     Cst.d_root := Cst.IElem [97]
       [ {| Cst.a_ws := [32]; Cst.a_name := [120]; Cst.a_ws1 := []; Cst.a_ws2 := []; Cst.a_quote := 34; Cst.a_value := [49] |};
         {| Cst.a_ws := [32]; Cst.a_name := [121]; Cst.a_ws1 := [32]; Cst.a_ws2 := [32]; Cst.a_quote := 39; Cst.a_value := [50] |} ]
       [] None;
     Cst.d_after := []; Cst.d_ws_end := [] |}.
Example small_doc_ok : Cst.wf_doc small_doc = true /\ attrs_small small_doc /\
  attr_spans small_doc =
  [ {| as_range := (3, 8); as_qname := (3, 4); as_value := (6, 7) |};
    {| as_range := (9, 16); as_qname := (9, 10); as_value := (14, 15) |} ].
Proof.
  split; [reflexivity|]. split; [|reflexivity].
  unfold attrs_small. cbn. repeat constructor; cbn; lia.
Qed.

(* ------------------------------------------------------------------ *)
(* (3) what is stored (C18)                                             *)

Lemma ads_stored : forall attrs q,
  map (fun a => (ad_local a, ad_value a)) (map ad_of (tas q attrs)) =
  map (fun s => (slice_of (as_qname s), Borrowed (SIn (slice_of (as_value s))))) (aspans_at q attrs).
Proof.
  induction attrs as [|a r IH]; intros q; [reflexivity|]. cbn [tas map aspans_at]. rewrite IH. f_equal.
Qed.

Lemma items_stored L :
  map (fun a => (ad_local a, ad_value a)) (flat_map item_ads L) =
  map (fun s => (slice_of (as_qname s), Borrowed (SIn (slice_of (as_value s))))) (flat_map item_aspans L).
Proof.
  induction L as [|[p i] L IH]; [reflexivity|]. cbn [flat_map]. rewrite !map_app, IH. f_equal.
  unfold item_ads, item_aspans. cbn [fst snd]. destruct i; try reflexivity. apply ads_stored.
Qed.

Theorem parse_render_storage : forall (c : Cst.doc) (opt : options) d,
  Cst.wf_doc c = true ->
  N.of_nat (length (Cst.sem c)) < nodes_limit opt ->
  N.of_nat (length (Cst.render c)) <= u32_max ->
  parse (Cst.render c) opt = Ok d ->
  (* every node holds exactly the slices of its written occurrence; texts are Borrowed *)
  Forall2 stored_as (map nd_kind (tl (d_nodes d))) (shapes c) /\
  (* every attribute: the local name is the slice of the written name, the value is Borrowed
     with exactly the slice between the quotes *)
  map (fun a => (ad_local a, ad_value a)) (d_attrs d) =
  map (fun s => (slice_of (as_qname s), Borrowed (SIn (slice_of (as_value s))))) (attr_spans c).
Proof.
  intros c opt d Hwf Hlim Hsz H. destruct (parse_observed c opt d Hwf Hlim Hsz H) as (_ & (k0 & Hk & HF) & A).
  split.
  - destruct (d_nodes d) as [|root nodes]; [discriminate|]. cbn [map tl] in *. injection Hk as _ Hk.
    rewrite Hk. exact HF.
  - rewrite A. apply items_stored.
Qed.
Print Assumptions parse_render_storage.

(* ------------------------------------------------------------------ *)
(* consequences of (1) and (3): what the slice of a node looks like      *)

(* [x] is written in [text] at offset [p] *)
Definition occ (text : bytes) (p : N) (x : bytes) : Prop :=
  exists pre post, text = pre ++ x ++ post /\ nlen pre = p.

Lemma occ_sub text p x : occ text p x -> sub text p (p + nlen x) = x.
Proof.
  intros (pre & post & -> & <-). unfold sub, nlen.
  replace (N.to_nat (N.of_nat (length pre) + N.of_nat (length x) - N.of_nat (length pre))) with (length x) by lia.
  rewrite Nat2N.id, skipn_len_app, firstn_len_app. reflexivity.
Qed.

Lemma occ_l text p a r : occ text p (a ++ r) -> occ text p a.
Proof. intros (pre & post & -> & <-). exists pre, (r ++ post). rewrite <- app_assoc. auto. Qed.

Lemma occ_r text p a r : occ text p (a ++ r) -> occ text (p + nlen a) r.
Proof.
  intros (pre & post & -> & <-). exists (pre ++ a), post. rewrite <- !app_assoc. split; [reflexivity|].
  unfold nlen. rewrite app_length. lia.
Qed.

Definition occs (text : bytes) (L : list (N * Cst.item)) : Prop :=
  Forall (fun x => occ text (fst x) (Cst.r_item (snd x))) L.

Lemma occ_items_list text cs :
  Forall (fun i => forall p, occ text p (Cst.r_item i) -> occs text (items_at p i)) cs ->
  forall q, occ text q (r_items cs) -> occs text (items_list q cs).
Proof.
  induction 1 as [|i r Hi _ IH]; intros q Hq; cbn [items_list]; [constructor|].
  cbn [r_items] in Hq. apply Forall_app. split; [apply Hi; eapply occ_l; exact Hq|].
  apply IH. eapply occ_r; exact Hq.
Qed.

Lemma occ_items text : forall i p, occ text p (Cst.r_item i) -> occs text (items_at p i).
Proof.
  intros i. induction i as [n a w|n a w cs w2 IH|bs|bs|t s v] using item_ind'; intros p Hp.
  - rewrite items_at_elem. constructor; [exact Hp|constructor].
  - rewrite items_at_elem. constructor; [exact Hp|].
    apply (occ_items_list text cs IH). rewrite r_item_elem in Hp.
    apply occ_r in Hp. apply occ_r in Hp. apply occ_r in Hp. apply occ_r in Hp. apply occ_r in Hp. apply occ_l in Hp.
    replace (p + start_tag_len n a w) with (p + nlen [60] + nlen n + nlen (flat_map Cst.r_attr a) + nlen w + nlen [62])
      by (unfold start_tag_len, nlen; cbn [length]; lia).
    exact Hp.
  - constructor; [exact Hp|constructor].
  - constructor; [exact Hp|constructor].
  - constructor; [exact Hp|constructor].
Qed.

Lemma occ_before text : forall l q,
  occ text q (flat_map (fun x => Cst.r_item (fst x) ++ snd x) l) -> occs text (before_at q l).
Proof.
  induction l as [|[i w] r IH]; intros q H; cbn [before_at]; [constructor|].
  cbn [flat_map fst snd] in H. rewrite <- app_assoc in H. apply Forall_app. split.
  - apply occ_items. eapply occ_l; exact H.
  - apply IH. apply occ_r in H. apply occ_r in H. exact H.
Qed.

Lemma occ_after text : forall l q,
  occ text q (flat_map (fun x => fst x ++ Cst.r_item (snd x)) l) -> occs text (after_at q l).
Proof.
  induction l as [|[w i] r IH]; intros q H; cbn [after_at]; [constructor|].
  cbn [flat_map fst snd] in H. rewrite <- app_assoc in H. apply occ_r in H. apply Forall_app. split.
  - apply occ_items. eapply occ_l; exact H.
  - apply IH. eapply occ_r; exact H.
Qed.

Lemma doc_occ c : occs (Cst.render c) (doc_items_at c).
Proof.
  unfold doc_items_at, root_offset, before_len.
  assert (H0 : occ (Cst.render c) 0 (Cst.render c)).
  { exists [], []. rewrite app_nil_r. split; reflexivity. }
  unfold Cst.render in H0 at 2. apply occ_r in H0. rewrite N.add_0_l in H0.
  apply Forall_app. split; [apply occ_before; eapply occ_l; exact H0|].
  apply occ_r in H0. apply Forall_app. split; [apply occ_items; eapply occ_l; exact H0|].
  apply occ_r in H0. apply occ_after. eapply occ_l; exact H0.
Qed.

(* every node but the Root is the k-th item of the document *)
Lemma node_item (c : Cst.doc) (opt : options) d id nd :
  Cst.wf_doc c = true -> N.of_nat (length (Cst.sem c)) < nodes_limit opt ->
  N.of_nat (length (Cst.render c)) <= u32_max -> parse (Cst.render c) opt = Ok d ->
  nth_N (d_nodes d) id = Some nd -> nd_kind nd <> KRoot ->
  exists x, In x (doc_items_at c) /\ nd_range nd = span_of x /\ stored_as (nd_kind nd) (shape_of x) /\
            occ (Cst.render c) (fst x) (Cst.r_item (snd x)).
Proof.
  intros Hwf Hlim Hsz H Hn Hk. destruct (parse_observed c opt d Hwf Hlim Hsz H) as (R & (k0 & K0 & HF) & _).
  unfold nth_N in Hn. destruct (len_N (d_nodes d) <=? id); [discriminate|].
  destruct (d_nodes d) as [|root nodes]; [destruct (N.to_nat id); discriminate|].
  cbn [map] in R, K0. injection R as _ R. injection K0 as K00 K0.
  destruct (N.to_nat id) as [|k] eqn:Ek; cbn [nth_error] in Hn.
  { injection Hn as <-. contradiction. }
  unfold spans, shapes in *. subst k0.
  assert (Hx : exists x, nth_error (doc_items_at c) k = Some x).
  { destruct (nth_error (doc_items_at c) k) eqn:E; [eauto|]. apply nth_error_None in E.
    apply (f_equal (@length _)) in R. rewrite !map_length in R.
    assert (k < length nodes)%nat by (apply nth_error_Some; congruence). lia. }
  destruct Hx as [x Hx]. exists x. split; [eapply nth_error_In; exact Hx|].
  split; [|split].
  - pose proof (map_nth_error nd_range _ _ Hn) as A1. rewrite R in A1.
    pose proof (map_nth_error span_of _ _ Hx) as A2.
    assert (E : Some (nd_range nd) = Some (span_of x))
      by (transitivity (nth_error (map span_of (doc_items_at c)) k); [symmetry; exact A1|exact A2]).
    injection E as E. exact E.
  - pose proof (map_nth_error nd_kind _ _ Hn) as A1. pose proof (map_nth_error shape_of _ _ Hx) as A2.
    revert A1 A2. generalize (nd_kind nd) (shape_of x). clear - HF. revert k.
    induction HF as [|a b0 l l' Hab _ IH]; intros k u v A1 A2; destruct k; cbn [nth_error] in *; try discriminate.
    + injection A1 as <-. injection A2 as <-. exact Hab.
    + eapply IH; eauto.
  - pose proof (doc_occ c) as HO. unfold occs in HO. rewrite Forall_forall in HO. apply HO.
    eapply nth_error_In; exact Hx.
Qed.

Lemma occ_slice text p a x r : occ text p (a ++ x ++ r) ->
  slice_bytes text {| sl_start := p + nlen a; sl_end := p + nlen a + nlen x |} = x.
Proof.
  intros H. apply occ_r in H. apply occ_l in H. unfold slice_bytes. cbn [sl_start sl_end]. apply occ_sub. exact H.
Qed.

Section Shapes.
Variables (c : Cst.doc) (opt : options) (d : document).
Hypothesis Hwf : Cst.wf_doc c = true.
Hypothesis Hlim : N.of_nat (length (Cst.sem c)) < nodes_limit opt.
Hypothesis Hsz : N.of_nat (length (Cst.render c)) <= u32_max.
Hypothesis Hparse : parse (Cst.render c) opt = Ok d.
Notation text := (Cst.render c).
Notation slice_of_range r := (sub text (fst r) (snd r)).

(* the slice of an element starts with '<' and its name, and ends with '>' *)
Corollary element_slice_shape : forall id nd ns local ar nss,
  nth_N (d_nodes d) id = Some nd -> nd_kind nd = KElement ns local ar nss ->
  exists mid, slice_of_range (nd_range nd) = [60] ++ slice_bytes text local ++ mid ++ [62].
Proof.
  intros id nd ns local ar nss Hn Hk.
  destruct (node_item c opt d id nd Hwf Hlim Hsz Hparse Hn ltac:(congruence)) as ([p i] & _ & Hr & Hs & Ho).
  rewrite Hk in Hs. rewrite Hr. unfold span_of. cbn [fst snd] in *. rewrite (occ_sub _ _ _ Ho).
  destruct i as [name attrs ws body| | |]; cbn [shape_of snd fst stored_as] in Hs; try contradiction.
  destruct Hs as [_ Hs]. destruct local as [ls le]. cbn [sl_start sl_end] in Hs. injection Hs as -> ->.
  rewrite r_item_elem in Ho |- *.
  change (p + 1) with (p + nlen [60]). rewrite (occ_slice _ _ _ _ _ Ho).
  destruct body as [[cs ws2]|].
  - exists (flat_map Cst.r_attr attrs ++ ws ++ [62] ++ r_items cs ++ [60; 47] ++ name ++ ws2).
    rewrite <- !app_assoc. reflexivity.
  - exists (flat_map Cst.r_attr attrs ++ ws ++ [47]). rewrite <- !app_assoc. reflexivity.
Qed.

(* the slice of a comment is exactly "<!--" text "-->" *)
Corollary comment_slice_shape : forall id nd s,
  nth_N (d_nodes d) id = Some nd -> nd_kind nd = KComment s ->
  slice_of_range (nd_range nd) = [60; 33; 45; 45] ++ slice_bytes text s ++ [45; 45; 62].
Proof.
  intros id nd s Hn Hk.
  destruct (node_item c opt d id nd Hwf Hlim Hsz Hparse Hn ltac:(congruence)) as ([p i] & _ & Hr & Hs & Ho).
  rewrite Hk in Hs. rewrite Hr. unfold span_of. cbn [fst snd] in *. rewrite (occ_sub _ _ _ Ho).
  destruct i as [| |bs|]; cbn [shape_of snd fst stored_as] in Hs; try contradiction.
  destruct s as [ls le]. cbn [sl_start sl_end] in Hs. injection Hs as -> ->.
  cbn [Cst.r_item] in Ho |- *. change (p + 4) with (p + nlen [60; 33; 45; 45]).
  rewrite (occ_slice _ _ _ _ _ Ho). reflexivity.
Qed.

(* the slice of a processing instruction is "<?" target ... "?>" *)
Corollary pi_slice_shape : forall id nd target value,
  nth_N (d_nodes d) id = Some nd -> nd_kind nd = KPI target value ->
  exists mid, slice_of_range (nd_range nd) = [60; 63] ++ slice_bytes text target ++ mid ++ [63; 62].
Proof.
  intros id nd target value Hn Hk.
  destruct (node_item c opt d id nd Hwf Hlim Hsz Hparse Hn ltac:(congruence)) as ([p i] & _ & Hr & Hs & Ho).
  rewrite Hk in Hs. rewrite Hr. unfold span_of. cbn [fst snd] in *. rewrite (occ_sub _ _ _ Ho).
  destruct i as [| | |t sp v]; cbn [shape_of snd fst stored_as] in Hs; try contradiction.
  destruct Hs as [Hs _]. destruct target as [ls le]. cbn [sl_start sl_end] in Hs. injection Hs as -> ->.
  cbn [Cst.r_item] in Ho |- *. change (p + 2) with (p + nlen [60; 63]).
  rewrite (occ_slice _ _ _ _ _ Ho). exists (sp ++ v). rewrite <- !app_assoc. reflexivity.
Qed.

(* a text node's content is exactly its slice (nothing is copied) *)
Corollary text_slice_shape : forall id nd st,
  nth_N (d_nodes d) id = Some nd -> nd_kind nd = KText st ->
  exists s, st = Borrowed (SIn s) /\ (sl_start s, sl_end s) = nd_range nd.
Proof.
  intros id nd st Hn Hk.
  destruct (node_item c opt d id nd Hwf Hlim Hsz Hparse Hn ltac:(congruence)) as ([p i] & _ & Hr & Hs & Ho).
  rewrite Hk in Hs. rewrite Hr. unfold span_of. cbn [fst snd] in *.
  destruct i as [| bs| |]; cbn [shape_of snd fst] in Hs; cbn [stored_as] in Hs;
    try (destruct st as [[s|]|]; contradiction).
  destruct st as [[s|]|]; try contradiction. exists s. split; [reflexivity|]. cbn [Cst.r_item]. exact Hs.
Qed.

End Shapes.
Print Assumptions element_slice_shape.
Print Assumptions comment_slice_shape.
Print Assumptions pi_slice_shape.
Print Assumptions text_slice_shape.
