(* Proofs/CstRangeTDoc.v -- C13 / C18 on the fragment of Spec/CstText.v, part 4: parse_document of
   CstTextDoc.v once more, with the observations of CstRangeTItems.v.  The prolog and the epilog are
   those of Spec/Cst.v (CstRangeDoc.misc_loop_ok_r), transported through the erasure. *)
From Coq Require Import Ascii String.
From Coq Require Import List NArith PeanoNat Bool Lia ZifyBool ZifyN ZifyNat.
Import ListNotations.
From RX Require Import Generated.
From RX.Model Require Import Base CharClass Stream Tokenizer Doc Builder Parse.
From RX.Spec Require Cst CstText.
From RX.Spec Require Import Text.
From RX.Proofs Require Import Tactics CstLex CstBuild CstTree CstItems CstDoc CstTextSem CstTextLex CstTextBuild CstTextItems CstTextDoc.
From RX.Proofs Require Import CstRangeDefs CstRangeBuild CstRangeItems CstRangeDoc CstRangeTDefs CstRangeTBuild CstRangeTItems.
Open Scope N_scope.

(* ---- miscellaneous items through the erasure ---- *)
Definition epairs (L : list (N * T.item)) : list (N * Cst.item) := map (fun x => (fst x, erase (snd x))) L.

Lemma kshape_misc k p i : T.is_misc i = true -> kshape k (shape_of (p, erase i)) -> tkshape k (tshape_of (p, i)).
Proof.
  destruct i as [? ? ? ?|?|bs|t s v]; try discriminate; intros _ H;
    destruct k as [| | | |[[?|?]|?]]; cbn in H; try contradiction; exact H.
Qed.

Lemma Extra_misc L c c' K : Forall (fun x => T.is_misc (snd x) = true) L ->
  Extra (epairs L) c c' K [] -> ExtraT L c c' K [].
Proof.
  intros HM (A1 & A2 & A3). split; [|split].
  - revert A1. generalize (map snd K). clear - HM. induction HM as [|[p i] L Hi _ IH]; intros ks H; cbn [epairs map] in *.
    + inversion H; subst. constructor.
    + inversion H as [|k sh ks' ? Hk Hr]; subst. constructor; [|apply IH; exact Hr].
      cbn [fst snd] in *. apply kshape_misc; assumption.
  - clear - HM. induction HM as [|[p i] L Hi _ IH]; [reflexivity|]. cbn [flat_map]. rewrite <- IH.
    cbn [snd] in Hi. destruct i; try discriminate; reflexivity.
  - rewrite A3. f_equal. clear - HM. induction HM as [|[p i] L Hi _ IH]; [reflexivity|]. cbn [epairs map]. fold (epairs L).
    rewrite IH. f_equal. cbn [snd] in Hi. destruct i; try discriminate; reflexivity.
Qed.

Lemma misc_titems_at q i : T.is_misc i = true -> titems_at q i = [(q, i)].
Proof. destruct i; try discriminate; reflexivity. Qed.

Lemma tbefore_erase : forall (l : list (T.item * bytes)) q,
  forallb (fun p => T.is_misc (fst p)) l = true ->
  Forall (fun x => T.is_misc (snd x) = true) (tbefore_at q l) /\
  before_at q (map (fun x => (erase (fst x), snd x)) l) = epairs (tbefore_at q l).
Proof.
  induction l as [|[i w] r IH]; intros q H; cbn [tbefore_at before_at map]; [split; [constructor|reflexivity]|].
  cbn [forallb fst snd] in H. apply andb_true_iff in H. destruct H as [H1 H2].
  destruct (misc_erase i H1) as (E1 & E2 & _).
  rewrite (misc_titems_at _ _ H1), (misc_items_at _ _ E1). cbn [app fst snd]. unfold nlen at 1 3. rewrite E2.
  destruct (IH (q + nlen (T.r_item i) + nlen w) H2) as [F Eq]. split; [constructor; [exact H1|exact F]|].
  cbn [epairs map fst snd]. f_equal. exact Eq.
Qed.

Lemma tafter_erase : forall (l : list (bytes * T.item)) q,
  forallb (fun p => T.is_misc (snd p)) l = true ->
  Forall (fun x => T.is_misc (snd x) = true) (tafter_at q l) /\
  after_at q (map (fun x => (fst x, erase (snd x))) l) = epairs (tafter_at q l).
Proof.
  induction l as [|[w i] r IH]; intros q H; cbn [tafter_at after_at map]; [split; [constructor|reflexivity]|].
  cbn [forallb fst snd] in H. apply andb_true_iff in H. destruct H as [H1 H2].
  destruct (misc_erase i H1) as (E1 & E2 & _).
  rewrite (misc_titems_at _ _ H1), (misc_items_at _ _ E1). cbn [app fst snd]. unfold nlen at 2 5. rewrite E2.
  destruct (IH (q + nlen w + nlen (T.r_item i)) H2) as [F Eq]. split; [constructor; [exact H1|exact F]|].
  cbn [epairs map fst snd]. f_equal. exact Eq.
Qed.

Lemma tdoc_items_at_eq c : T.wf_doc c = true ->
  let p1 := 0 + blen (r_pairs (regroup (T.d_ws0 c) (Cst.d_before (erase_doc c)))) +
            blen (last_ws (T.d_ws0 c) (Cst.d_before (erase_doc c))) in
  tdoc_items_at c =
    tbefore_at (nlen (T.d_ws0 c)) (T.d_before c) ++ titems_at p1 (T.d_root c) ++
    tafter_at (p1 + blen (T.r_item (T.d_root c))) (T.d_after c) /\
  Forall (fun x => T.is_misc (snd x) = true) (tbefore_at (nlen (T.d_ws0 c)) (T.d_before c)) /\
  pairs_at 0 (regroup (T.d_ws0 c) (Cst.d_before (erase_doc c))) = epairs (tbefore_at (nlen (T.d_ws0 c)) (T.d_before c)) /\
  Forall (fun x => T.is_misc (snd x) = true) (tafter_at (p1 + blen (T.r_item (T.d_root c))) (T.d_after c)) /\
  pairs_at (p1 + blen (T.r_item (T.d_root c))) (Cst.d_after (erase_doc c)) =
    epairs (tafter_at (p1 + blen (T.r_item (T.d_root c))) (T.d_after c)).
Proof.
  intros Hwf p1. pose proof (twf_doc_parts c Hwf) as [H1 H2 H3 _ H5 H6 Hr].
  assert (Mb : forallb (fun p => T.is_misc (fst p)) (T.d_before c) = true).
  { unfold T.wf_doc in Hwf. rewrite !andb_true_iff in Hwf. destruct Hwf as [[[[_ _] Hb] _] _].
    apply forallb_forall. intros x Hx. rewrite forallb_forall in Hb. specialize (Hb x Hx).
    rewrite !andb_true_iff in Hb. tauto. }
  assert (Ma : forallb (fun p => T.is_misc (snd p)) (T.d_after c) = true).
  { unfold T.wf_doc in Hwf. rewrite !andb_true_iff in Hwf. destruct Hwf as [_ Ha].
    apply forallb_forall. intros x Hx. rewrite forallb_forall in Ha. specialize (Ha x Hx).
    rewrite !andb_true_iff in Ha. tauto. }
  assert (Ero : troot_offset c = p1).
  { unfold troot_offset, tbefore_len, p1.
    pose proof (f_equal (@length N) (regroup_render (Cst.d_before (erase_doc c)) (T.d_ws0 c))) as E.
    rewrite !app_length in E.
    assert (El : length (flat_map (fun p => Cst.r_item (fst p) ++ snd p) (Cst.d_before (erase_doc c))) =
                 length (flat_map (fun p => T.r_item (fst p) ++ snd p) (T.d_before c))).
    { unfold erase_doc. cbn [Cst.d_before]. clear - Mb. induction (T.d_before c) as [|[i w] r IH]; [reflexivity|].
      cbn [forallb fst snd] in Mb. apply andb_true_iff in Mb. destruct Mb as [A D].
      destruct (misc_erase i A) as (_ & E2 & _). cbn [map flat_map fst snd]. rewrite !app_length, E2, IH by exact D. reflexivity. }
    unfold nlen, blen. lia. }
  destruct (tbefore_erase (T.d_before c) (nlen (T.d_ws0 c)) Mb) as [Fb Eb].
  destruct (tafter_erase (T.d_after c) (p1 + blen (T.r_item (T.d_root c))) Ma) as [Fa Ea].
  split; [|split; [exact Fb|split; [|split; [exact Fa|]]]].
  - unfold tdoc_items_at. rewrite Ero. reflexivity.
  - rewrite (pairs_at_regroup _ 0 _ H3). rewrite N.add_0_l. exact Eb.
  - rewrite (pairs_at_after _ _ H6). exact Ea.
Qed.

Ltac clia := repeat match goal with H : @eq bool _ true |- _ => clear H end; lia.

Lemma tparse_document_ok_r (c : T.doc) (dtd : bool) (c0 : context) :
  T.wf_doc c = true ->
  let text := T.render c in
  CI c0 -> LD c0 -> c_after_text c0 = [] ->
  node_room c0 (nsizes (doc_items (erase_doc c))) -> attr_room c0 (nattrs (erase (T.d_root c))) ->
  exists cf K ext,
    parse_document text context (tok_ev text) dtd c0 = Ok cf /\
    Step c0 cf K ext /\ CI cf /\
    Forall2 (km text (d_attrs (c_doc cf))) K
            (tag_list (c_parent_id c0) (len_N (d_nodes (c_doc c0))) (doc_items (erase_doc c))) /\
    ExtraT (tdoc_items_at c) c0 cf K ext.
Proof.
  intros Hwf text I0 Hld0 A0 NR AR. pose proof (tdoc_items_at_eq c Hwf) as Eat.
  pose proof (trender_asc c Hwf) as Hascii. fold text in Hascii.
  pose proof (tdecl_render c Hwf) as Hdecl. fold text in Hdecl.
  pose proof (trender_shape c Hwf) as Etext. fold text in Etext.
  pose proof (twf_doc_parts c Hwf) as [H1 H2 H3 (name & attrs & ws & body & Er) H5 H6 _].
  clear Hwf.
  destruct (regroup_wf _ _ H1 H3) as [R1 R2].
  assert (Eitems : doc_items (erase_doc c) =
                   map snd (regroup (T.d_ws0 c) (Cst.d_before (erase_doc c))) ++ erase (T.d_root c) :: map snd (Cst.d_after (erase_doc c))).
  { unfold doc_items. rewrite regroup_items. reflexivity. }
  rewrite Eitems in *. clear Eitems. clear H1 H3.
  set (B := regroup (T.d_ws0 c) (Cst.d_before (erase_doc c))) in *.
  set (wB := last_ws (T.d_ws0 c) (Cst.d_before (erase_doc c))) in *.
  set (A := Cst.d_after (erase_doc c)) in *. set (wE := T.d_ws_end c) in *.
  rewrite Er in *. clear Er.
  set (root := T.IElem name attrs ws body) in *.
  rewrite nsizes_app, nsizes_cons in NR.
  pose proof (W_new text) as HW0.
  destruct (twf_elem_parts _ _ _ _ H5) as (Hn & _).
  destruct (troot_starts name attrs ws body Hn) as (n & l & El & Hns). fold root in El.
  destruct (name_start_byte _ Hns) as (_ & _ & Hnsp & _ & _ & H33 & H63 & _). clear Hns Hn.
  remember (T.r_item root ++ r_pairs A ++ wE ++ []) as rest eqn:Erest.
  assert (Hstop : misc_stop rest).
  { rewrite Erest, El. cbn [app]. split; [reflexivity|]. cbn [prefix_b].
    replace (33 =? n) with false by clia. replace (63 =? n) with false by clia. split; reflexivity. }
  assert (Hdt : prefix_b [60; 33; 68; 79; 67; 84; 89; 80; 69] rest = false).
  { rewrite Erest, El. cbn [app prefix_b]. replace (33 =? n) with false by clia. rewrite andb_false_r. reflexivity. }
  assert (Hcb : forall p, CstLex.W text p rest ->
            match curr_byte_opt (CstLex.st text p rest) with Some x => x =? 60 | None => false end = true).
  { intros p HWp. rewrite Erest, El in *. cbn [app] in *. rewrite curr_byte_opt_st by exact HWp. reflexivity. }
  clear El.
  unfold parse_document. rewrite st_new.
  rewrite starts_with_st by exact HW0. rewrite bom_false by exact Hascii. cbn [bind].
  unfold starts_with_declaration. rewrite starts_with_st, avail_st by exact HW0.
  change (b "<?xml") with [60; 63; 120; 109; 108]. fold (decl_test text). rewrite Hdecl. cbn [bind].
  (* prolog *)
  unfold parse_misc. cbn [CstLex.st s_rest].
  fold (CstLex.st text 0 text).
  assert (HW0' : CstLex.W text 0 (r_pairs B ++ wB ++ rest)) by (rewrite <- Etext; exact HW0).
  replace (CstLex.st text 0 text) with (CstLex.st text 0 (r_pairs B ++ wB ++ rest))
    by (rewrite <- Etext; reflexivity).
  assert (Elen : length text = length (r_pairs B ++ wB ++ rest)) by (rewrite <- Etext; reflexivity).
  destruct (misc_loop_ok_r text Hascii B 0 wB rest c0 (S (length text)) HW0' R1 R2 Hstop)
    as (c1 & K1 & E1 & S1 & I1 & A1 & F1 & X1).
  { pose proof (pairs_len B R1). rewrite Elen, app_length. clia. }
  { exact I0. } { exact A0. } { unfold node_room in *. clia. }
  rewrite E1. cbn [bind]. clear E1.
  pose proof (W_app _ _ _ _ HW0') as HWa. pose proof (W_app _ _ _ _ HWa) as HW1.
  set (p1 := 0 + blen (r_pairs B) + blen wB) in *.
  rewrite skip_spaces_none by (try exact HW1; apply Hstop).
  rewrite starts_with_st by exact HW1. change (b "<!DOCTYPE") with [60; 33; 68; 79; 67; 84; 89; 80; 69].
  rewrite Hdt.
  cbn [bind]. rewrite skip_spaces_none by (try exact HW1; apply Hstop).
  rewrite (Hcb p1 HW1).
  (* root *)
  pose proof (Step_nodes_len _ _ _ _ S1) as Ln1.
  rewrite (Forall2_len_N _ _ _ F1) in Ln1. unfold len_N at 3 in Ln1. rewrite tag_list_len in Ln1.
  pose proof (Step_opt _ _ _ _ (proj1 S1)) as Lo1.
  pose proof (Step_attrs_len _ _ _ _ (proj1 S1)) as La1. change (len_N []) with 0 in La1.
  rewrite Erest in HW1 |- *.
  destruct (root_ok_r' text Hascii name attrs ws body p1 (r_pairs A ++ wE ++ []) c1 H5 HW1 I1 (Step_LD _ _ _ _ S1 Hld0))
    as (c2 & K2 & e2 & E2 & (S2 & I2 & A2 & _ & _ & F2 & L2) & X2).
  { unfold node_room in *. rewrite Ln1, Lo1. fold root. clia. }
  { unfold attr_room in *. rewrite La1. fold root. clia. }
  fold root in E2, S2, A2, F2, L2, HW1, X2.
  rewrite E2. cbn [bind]. clear E2.
  pose proof (W_app _ _ _ _ HW1) as HW2.
  set (p2 := p1 + blen (T.r_item root)) in *.
  pose proof (Step_nodes_len _ _ _ _ S2) as Ln2.
  rewrite (Forall2_len_N _ _ _ F2) in Ln2. unfold len_N at 3 in Ln2. rewrite tag_len in Ln2.
  pose proof (Step_opt _ _ _ _ (proj1 S2)) as Lo2.
  (* epilog *)
  unfold parse_misc. cbn [CstLex.st s_rest]. fold (CstLex.st text p2 (r_pairs A ++ wE ++ [])).
  destruct (misc_loop_ok_r text Hascii A p2 wE [] c2
              (S (length (r_pairs A ++ wE ++ []))) HW2 H6 H2)
    as (c3 & K3 & E3 & S3 & I3 & A3 & F3 & X3).
  { split; [exact Logic.I|split; reflexivity]. }
  { pose proof (pairs_len A H6). rewrite app_length. clia. }
  { exact I2. } { apply A2. reflexivity. }
  { unfold node_room in *. rewrite Ln2, Lo2, Ln1, Lo1. clia. }
  rewrite E3. cbn [bind]. clear E3.
  pose proof (W_app _ _ _ _ HW2) as HWb. pose proof (W_app _ _ _ _ HWb) as HW3.
  rewrite at_end_st by exact HW3. cbn [negb].
  exists c3, (K1 ++ K2 ++ K3), ([] ++ e2 ++ []). split; [reflexivity|].
  split; [apply (Step_trans _ _ _ _ _ _ _ S1 (Step_trans _ _ _ _ _ _ _ S2 S3))|]. split; [exact I3|].
  split.
  2:{ destruct Eat as (Eat & Mb & Eb & Ma & Ea). rewrite Eat.
      eapply ExtraT_app; [apply (Extra_misc _ _ _ _ Mb); rewrite <- Eb; exact X1|].
      eapply ExtraT_app; [exact X2|]. apply (Extra_misc _ _ _ _ Ma). rewrite <- Ea. exact X3. }
  rewrite tag_list_app. cbn [tag_list].
  destruct S1 as (S1 & P1 & _). destruct S2 as (S2 & P2 & _). destruct S3 as (S3 & _ & _).
  apply Forall2_app; [|apply Forall2_app].
  - rewrite (s_attrs _ _ _ _ S3), (s_attrs _ _ _ _ S2), <- app_assoc. apply km_Forall2_ext. exact F1.
  - rewrite (s_attrs _ _ _ _ S3). apply km_Forall2_ext. rewrite P1, Ln1 in F2. exact F2.
  - rewrite P2, P1, Ln2, Ln1 in F3. exact F3.
Qed.


Print Assumptions tparse_document_ok_r.
