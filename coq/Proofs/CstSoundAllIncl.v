(* Proofs/CstSoundAllIncl.v -- the OLDER byte fragments against the union [in_fragment_all] of Proofs/CstSoundAll.v.
   - [in_fragment_p] / [in_fragment_p0] (Proofs/CstSoundP.v: DOCTYPE with character-data entities) ARE contained:
     [in_fragment_p_6] (the literal condition of P has no '<', so the markup test of fragment 6 is not reached), hence
     [in_fragment_p_all];
   - [in_fragment] / [_u] / [_t] / [_n] (no DOCTYPE at all: they only exclude the bytes "<!D") are NOT contained as byte
     predicates: they do not look at a stray "<!ENTITY" in the text, the later fragments do ([ex_old_not_all]; such inputs are
     rejected by the parser, so nothing is lost on accepted inputs, but the inclusion is not a statement about bytes alone). *)
From Coq Require Import String.
From Coq Require Import List NArith Bool Lia.
Import ListNotations.
From RX Require Import Generated.
From RX.Model Require Import Base.
From RX.Proofs Require Import CstSound CstSoundU CstSoundT CstSoundN CstSoundP CstSound6 CstSound6Sanity CstSound10 CstSoundAll.
Open Scope N_scope.

Lemma all_suffixes_scan_pos (P : bytes -> bool) (Q : N -> bytes -> bool) :
  (forall p s, P s = true -> Q p s = true) -> forall l p, all_suffixes P l = true -> scan_pos Q p l = true.
Proof.
  intros HPQ. induction l as [|x r IH]; intros p H; cbn [all_suffixes scan_pos] in *.
  - apply HPQ. exact H.
  - apply andb_true_iff in H. destruct H as [H1 H2]. rewrite (HPQ p _ H1), (IH _ H2). reflexivity.
Qed.

Lemma ge_value_ok_6 text vs v : ge_value_ok v = true -> ge_value_ok6 text vs v = true.
Proof.
  unfold ge_value_ok, ge_value_ok6. intros H.
  apply andb_true_iff in H. destruct H as [H Hamp]. apply andb_true_iff in H. destruct H as [H Hcc].
  apply andb_true_iff in H. destruct H as [H60 H37]. apply negb_true_iff in H60.
  rewrite H37, Hamp, H60, Hcc. reflexivity.
Qed.

Lemma ge_decl_ok_6 text p s : ge_decl_ok s = true -> ge_decl_ok6 text p s = true.
Proof.
  unfold ge_decl_ok, ge_decl_ok6. destruct (prefix_b (b "<!ENTITY") s); [|reflexivity]. cbv zeta.
  destruct (is_pe (skip_ws (skipn 8 s))); [reflexivity|].
  generalize (p + blen s - blen (skip_ws (drop_name (skip_ws (skipn 8 s))))). generalize (skip_ws (drop_name (skip_ws (skipn 8 s)))).
  intros l q0. unfold lit_ok, lit_ok6. destruct l as [|q v]; [reflexivity|].
  destruct ((q =? 39) || (q =? 34)); [|reflexivity]. apply ge_value_ok_6.
Qed.

Lemma ge_values_ok_6 text : ge_values_ok text = true -> ge_values_ok6 text = true.
Proof. unfold ge_values_ok, ge_values_ok6. apply all_suffixes_scan_pos. intros p s. apply ge_decl_ok_6. Qed.

Lemma in_fragment_p_6 text : in_fragment_p text = true -> in_fragment_6 text = true.
Proof.
  unfold in_fragment_p, in_fragment_6. intros H. apply andb_true_iff in H. destruct H as [H Hge].
  rewrite H. cbn [andb]. apply ge_values_ok_6. exact Hge.
Qed.

Lemma in_fragment_p_all text : in_fragment_p text = true -> in_fragment_all text = true.
Proof. intros H. apply in_fragment_6_all, in_fragment_p_6. exact H. Qed.
Lemma in_fragment_p0_all text : in_fragment_p0 text = true -> in_fragment_all text = true.
Proof. unfold in_fragment_p0. intros H. apply andb_true_iff in H. apply in_fragment_p_all. exact (proj1 H). Qed.
Print Assumptions in_fragment_p0_all.

(* the fragments without DOCTYPE are not contained, as sets of byte strings *)
Example ex_old_not_all :
  let t := b "<a><!ENTITY a '<'></a>" in
  in_fragment t = true /\ in_fragment_u t = true /\ in_fragment_t t = true /\ in_fragment_n t = true /\
  in_fragment_p t = false /\ in_fragment_all t = false /\ acc6 t = false.
Proof. vm_compute. repeat split. Qed.
