(* Proofs/PubidChar.v -- elementary facts on the model's [pubid_char] (Model/CharClass.v), used by
   every per-function lemma on parse_pubid_literal: a PubidChar is an ASCII byte, an XML Char,
   never a quote-or-other delimiter it is compared with unless that byte is itself a PubidChar. *)
From Coq Require Import List NArith Bool Lia ZifyBool ZifyN.
Import ListNotations.
From RX Require Import Generated.
From RX.Model Require Import Base CharClass.
Open Scope N_scope.

Lemma pubid_char_cases x : pubid_char x = true ->
  (48 <= x <= 57) \/ (65 <= x <= 90) \/ (97 <= x <= 122) \/
  In x [32; 13; 10; 45; 39; 40; 41; 43; 44; 46; 47; 58; 61; 63; 59; 33; 42; 35; 64; 36; 95; 37].
Proof.
  unfold pubid_char, is_ascii_alphanumeric, is_ascii_digit, pubid_punct. cbn [mem_b In].
  intros H. lia.
Qed.

Lemma pubid_char_lt128 x : pubid_char x = true -> x < 128.
Proof. intros H. apply pubid_char_cases in H. cbn [In] in H. lia. Qed.

Lemma pubid_char_ltb128 x : pubid_char x = true -> (x <? 128) = true.
Proof. intros H. apply pubid_char_lt128 in H. lia. Qed.

(* the predicate of parse_pubid_literal's skip_bytes *)
Definition pubid_skip (q : N) (x : N) : bool := negb (x =? q) && pubid_char x.

Lemma pubid_skip_lt128 q x : pubid_skip q x = true -> x < 128.
Proof. unfold pubid_skip. intros H. apply pubid_char_lt128. lia. Qed.

Lemma pubid_skip_ltb128 q x : pubid_skip q x = true -> (x <? 128) = true.
Proof. intros H. apply pubid_skip_lt128 in H. lia. Qed.

Lemma pubid_skip_not_q q x : pubid_skip q x = true -> x <> q.
Proof. unfold pubid_skip. lia. Qed.

Lemma pubid_char_not_34 x : pubid_char x = true -> x <> 34.
Proof. intros H. apply pubid_char_cases in H. cbn [In] in H. lia. Qed.

Lemma pubid_char_not_lt_gt x : pubid_char x = true -> x <> 60 /\ x <> 62 /\ x <> 38 /\ x <> 91 /\ x <> 93.
Proof. intros H. apply pubid_char_cases in H. cbn [In] in H. lia. Qed.

Lemma pubid_char_byte_is_char x : pubid_char x = true -> byte_is_char x = true.
Proof.
  intros H. apply pubid_char_cases in H. cbn [In] in H.
  unfold byte_is_char. change byte_char_gt with 32.
  destruct (32 <? x) eqn:E1; [reflexivity|]. cbn [orb].
  assert (x = 32 \/ x = 13 \/ x = 10) as [->|[->| ->]] by lia; reflexivity.
Qed.
