(* Proofs/CstRangeEText.v -- C13 / C18 on the fragment of Spec/CstEnt.v (character-data entities),
   part 2: CstEntText.TL once more, observing the fragments exactly: each fragment appended by
   [process_text_with] on a text token with general entity references, with the range it is
   appended with, and the range of the Text node of the run (that of its first fragment). *)
From Coq Require Import Ascii String.
From Coq Require Import List NArith PeanoNat Bool Lia ZifyBool ZifyN ZifyNat.
Import ListNotations.
From RX Require Import Generated.
From RX.Model Require Import Base CharClass Stream Tokenizer Doc Builder Parse.
From RX.Spec Require Cst CstText CstEnt Detector.
From RX.Spec Require Import Text.
From RX.Proofs Require Import Tactics CstLex CstBuild TextMachine TextMerge HoistProofs NoPanicUtf8 DetectorProofs.
From RX.Proofs Require Import CstTextSem CstTextLex CstTextBuild CstEntSem CstEntText.
From RX.Proofs Require Import CstRangeBuild CstRangeTBuild.
Open Scope N_scope.

(* a run, with the ranges the fragments were appended with *)
Definition RunR (c0 c : context) (fr : list (cow * range)) : Prop :=
  Run c0 c (map fst fr) /\ rng c = rng c0 ++ firstn 1 (map snd fr).

Lemma same_frame_rng a b : same_frame a b -> rng a = rng b.
Proof. intros (_ & _ & _ & _ & _ & _ & _ & _ & H). unfold rng. rewrite H. reflexivity. Qed.

Lemma RunR_frame c0 c c' fr : RunR c0 c fr -> same_frame c c' -> RunR c0 c' fr.
Proof. intros [H1 H2] S. split; [eapply Run_frame; eassumption|]. rewrite <- (same_frame_rng _ _ S). exact H2. Qed.

Lemma RunR_entities c0 c fr : RunR c0 c fr -> c_entities c = c_entities c0.
Proof. intros [H _]. eapply Run_entities; exact H. Qed.
Lemma RunR_pp c0 c fr : RunR c0 c fr -> c_parent_prefixes c = c_parent_prefixes c0.
Proof. intros [H _]. eapply Run_pp; exact H. Qed.

Lemma Run_after c0 c frs : Run c0 c frs -> c_after_text c0 = [] -> c_after_text c = frs.
Proof.
  unfold Run. destruct frs as [|t0 r].
  - intros (_ & _ & _ & _ & _ & _ & H & _) Hat. rewrite <- H. exact Hat.
  - intros (nodes' & _ & (_ & _ & _ & _ & _ & _ & H & _)) _. rewrite <- H. reflexivity.
Qed.

Lemma append_text_rng t r c c' : append_text t r c = Ok c' ->
  rng c' = match c_after_text c with [] => rng c ++ [r] | _ => rng c end.
Proof.
  intros H. destruct (c_after_text c) as [|x l] eqn:E.
  - apply (first_frag_rng t r c c' E H).
  - rewrite append_text_cont in H by (rewrite E; discriminate). injection H as <-. reflexivity.
Qed.

Lemma run_append_r t r c0 c fr : RunR c0 c fr -> CI c0 -> (fr = [] -> room c0) -> c_after_text c0 = [] ->
  exists c', append_text t r c = Ok c' /\ RunR c0 c' (fr ++ [(t, r)]) /\
             c_ld c' = c_ld c /\ c_tag_name c' = c_tag_name c /\ c_entity_floor c' = c_entity_floor c.
Proof.
  intros [HR Hg] I R0 Hat.
  destruct (run_append t r c0 c (map fst fr) HR I (fun E => R0 ltac:(destruct fr; [reflexivity|discriminate])) Hat)
    as (c' & E & HR' & L).
  exists c'. split; [exact E|]. split; [|exact L]. split.
  - rewrite map_app. exact HR'.
  - rewrite (append_text_rng _ _ _ _ E), (Run_after _ _ _ HR Hat), Hg.
    destruct fr as [|[t0 r0] fr']; cbn [map app firstn fst snd]; [rewrite app_nil_r; reflexivity|reflexivity].
Qed.

Definition emitG (m : bool) (acc : list chunk) (r : range) : list (cow * range) :=
  match run_text_chunks m acc with [] => [] | o => [(CowOwned o, r)] end.

Lemma emitG_bytes text m acc r : map (cow_bytes text) (map fst (emitG m acc r)) = emit m acc.
Proof. unfold emitG, emit. destruct (run_text_chunks m acc); reflexivity. Qed.

Section EntR.
Variable text : bytes.
Hypothesis Hascii : Forall (fun x => x < 128) text.
Variable decls : list E.edecl.
Variable es : list entity.
Notation W := (CstLex.W text).
Hypothesis Henv : Forall2 (ent_ok text) decls es.
Hypothesis Hdecls : Forall decl_ok decls.

(* the fragments of the pieces of a token with range r, read in mode m with the chunks acc in the
   buffer; the value of an entity is a token of its own, with the range of the value *)
Inductive ExpG : bool -> list chunk -> list E.epiece -> range -> list (cow * range) -> Prop :=
| EG_nil : forall m acc r, ExpG m acc [] r (emitG m acc r)
| EG_piece : forall m acc p rest r G,
    ExpG m (acc ++ T.piece_chunks p) rest r G -> ExpG m acc (E.EP p :: rest) r G
| EG_ref : forall m acc n rest r d vps en Gv G,
    first_decl decls n = Some d -> E.e_value d = E.EText vps -> find_entity text es n = Some en ->
    ValG vps (en_value en) Gv -> ExpG m [] rest r G ->
    ExpG m acc (E.ERef n :: rest) r (emitG m acc r ++ Gv ++ G)
with ValG : list E.epiece -> slice -> list (cow * range) -> Prop :=
| VG_empty : forall vps s, E.r_epieces vps = [] -> ValG vps s []
| VG_fast : forall vps s, E.r_epieces vps <> [] ->
    existsb (fun x => (x =? 38) || (x =? 13)) (E.r_epieces vps) = false ->
    ValG vps s [(CowBorrowed s, (sl_start s, sl_end s))]
| VG_slow : forall vps s Gv, E.r_epieces vps <> [] ->
    existsb (fun x => (x =? 38) || (x =? 13)) (E.r_epieces vps) = true ->
    ExpG true [] vps (sl_start s, sl_end s) Gv -> ValG vps s Gv.

Lemma finish_emit_r m acc r c0 c fr : Forall (chunk_okm m) acc ->
  RunR c0 c fr -> CI c0 -> (fr = [] -> emit m acc <> [] -> room c0) -> c_after_text c0 = [] ->
  exists c', finish_text r (push_text_chunks m acc tb_new) c = Ok c' /\ RunR c0 c' (fr ++ emitG m acc r) /\
             c_ld c' = c_ld c /\ c_tag_name c' = c_tag_name c /\ c_entity_floor c' = c_entity_floor c.
Proof.
  intros Hacc HR I R Hat. rewrite finish_text_spec.
  change (tb_buf (tb_flush (push_text_chunks m acc tb_new))) with (run_text_chunks m acc).
  destruct (emit_valid m acc Hacc) as [Eo Hv]. unfold emit, emitG, text_result in *.
  destruct (run_text_chunks m acc) as [|y out] eqn:Er.
  - exists c. rewrite app_nil_r. split; [reflexivity|]. split; [exact HR|]. repeat split.
  - rewrite <- Eo in Hv. apply valid_iff_Valid in Hv. rewrite Hv.
    destruct (run_append_r (CowOwned (y :: out)) r c0 c fr HR I (fun E0 => R E0 ltac:(discriminate)) Hat) as (c' & E & HR' & L1 & L2 & L3).
    exists c'. split; [exact E|]. split; [exact HR'|]. repeat split; assumption.
Qed.

Lemma TL_r : forall m acc ps q tr F, Exp decls m acc ps q tr F ->
  forall e p more c0 c (frs : list (cow * range)) fuel lvl r ld',
  Forall (ep_ok m) ps -> W p (E.r_epieces ps ++ more) -> p + blen (E.r_epieces ps) = e -> e <= tlen text ->
  m = (0 <? ld_depth (c_ld c)) -> Forall (chunk_okm m) acc ->
  c_entities c = es -> ld_run (c_ld c) tr = Some ld' -> N.of_nat lvl + ld_depth (c_ld c) = 12 ->
  CI c0 -> (frs = [] -> F <> [] -> room c0) -> c_after_text c0 = [] -> RunR c0 c frs ->
  (length (E.r_epieces ps) < fuel)%nat ->
  exists c' G,
    (let! (b0, c1) := text_loop text (parse_content_lvl text lvl) r fuel (sst e p (E.r_epieces ps ++ more))
                        (push_text_chunks m acc tb_new) c in finish_text r b0 c1) = Ok c' /\
    RunR c0 c' (frs ++ G) /\ map (cow_bytes text) (map fst G) = F /\ ExpG m acc ps r G /\
    c_ld c' = ld' /\ ld_depth ld' = ld_depth (c_ld c) /\
    c_tag_name c' = c_tag_name c /\ c_entity_floor c' = c_entity_floor c.
Proof.
  intros m acc ps q tr F H.
  induction H as [m acc|m acc pc0 rest q tr F _ IH|m acc n rest d vps qv trv Fv q tr F Hfd Hval Hv IHv Hr IHr];
    intros e p more c0 c frs fuel lvl r ld' Hok HW He Hle Hm Hacc Hes Hld Hlvl I R Hat HR Hfu.
  - (* end of the token *)
    cbn [E.r_epieces flat_map app] in *. rewrite blen_nil, N.add_0_r in He. subst p.
    destruct fuel as [|fu]; [lia|]. cbn [text_loop]. rewrite at_end_sst. replace (e <=? e) with true by lia.
    cbn [bind]. cbn [ld_run] in Hld. injection Hld as <-.
    destruct (finish_emit_r m acc r c0 c frs Hacc HR I R Hat) as (c' & E & HR' & L1 & L2 & L3).
    exists c', (emitG m acc r). split; [exact E|]. split; [exact HR'|]. split; [apply emitG_bytes|].
    split; [constructor|]. repeat split; assumption.
  - (* a piece *)
    apply Forall_cons_iff in Hok. destruct Hok as [Hp Hrest]. cbn [E.r_epieces flat_map E.r_epiece] in *. fold (E.r_epieces rest) in *.
    rewrite <- app_assoc in HW |- *. rewrite blen_app in He.
    pose proof Hp as [Hvp _]. pose proof (chunks_le_piece pc0 Hvp) as Hcl. rewrite app_length in Hfu.
    replace fuel with (length (T.piece_chunks pc0) + (fuel - length (T.piece_chunks pc0)))%nat by lia.
    rewrite loop_piece by (try assumption; lia). rewrite <- Hm.
    rewrite <- push_text_chunks_app.
    destruct (IH e (p + blen (T.r_piece pc0)) more c0 c frs (fuel - length (T.piece_chunks pc0))%nat lvl r ld')
      as (c' & G & E' & HR' & HG & HX & K); try assumption; try lia.
    + apply (W_app _ _ _ _ HW).
    + apply Forall_app. split; [exact Hacc|apply ep_chunks; exact Hp].
    + exists c', G. split; [exact E'|]. split; [exact HR'|]. split; [exact HG|]. split; [constructor; exact HX|exact K].
  - (* a reference *)
    apply Forall_cons_iff in Hok. destruct Hok as [Hp Hrest]. destruct Hp as [Hn Hpre].
    cbn [E.r_epieces flat_map E.r_epiece] in *. fold (E.r_epieces rest) in *.
    rewrite <- !app_assoc in HW |- *. rewrite !blen_app in He. change (blen [38]) with 1 in He. change (blen [59]) with 1 in He.
    destruct (find_first text decls es Henv Hdecls n d Hfd) as (en0 & Efind & _).
    destruct (pnc_entity text Hascii decls es Henv Hdecls e p n (E.r_epieces rest ++ more) d HW Hn Hpre ltac:(lia) Hle Hfd) as (en & Epnc & (Hen & vs & tail & Eval & HWv) & Hdok).
    assert (Eenv : en_value en0 = en_value en).
    { pose proof Epnc as X. unfold parse_next_chunk in X. revert X. rewrite at_end_sst. replace (e <=? p) with false by lia.
      cbn [app curr_byte_unchecked sst s_rest bind]. change (38 =? 38) with true. cbv iota zeta.
      fold (sst e p (38 :: n ++ 59 :: E.r_epieces rest ++ more)).
      pose proof (cref_entity text Hascii e p n (E.r_epieces rest ++ more) HW Hn Hpre ltac:(lia) Hle) as Ec. cbn [app] in Ec. rewrite Ec. cbn [bind].
      pose proof (W_cons _ _ _ _ HW) as HW1'. cbn [app] in HW1'. rewrite (W_slice _ _ _ _ HW1'), Efind. intros X. injection X as X. exact X. }
    unfold decl_ok in Hdok. rewrite Hval in Hdok. destruct Hdok as [Hvok Hvn3].
    rewrite Hval in Eval, HWv. cbn [E.r_value] in Eval, HWv.
    destruct fuel as [|fu]; [lia|].
    erewrite text_loop_entity_step; [|rewrite at_end_sst; lia|rewrite Hes; exact Epnc].
    (* flush *)
    destruct (finish_emit_r m acc r c0 c frs Hacc HR I (fun Z0 Z1 => R Z0 ltac:(intros Z2; apply app_eq_nil in Z2; destruct Z2; contradiction)) Hat) as (c1 & E0 & HR1 & L1 & L2 & L3).
    set (G0 := emitG m acc r) in *. pose proof (emitG_bytes text m acc r) as HG0. fold G0 in HG0.
    rewrite E0. cbn [bind].
    (* the detector *)
    cbn [ld_run] in Hld. destruct (ld_enter (c_ld c)) as [ld1|] eqn:Eenter; [|discriminate].
    rewrite ld_run_app in Hld. destruct (ld_run ld1 trv) as [ld1'|] eqn:Erun1; [|discriminate]. cbn [ld_run] in Hld.
    rewrite L1. destruct (enter_model text (sst e (p + 2 + blen n) (E.r_epieces rest ++ more)) _ _ Eenter) as (l0 & Ei1 & Ei2).
    rewrite Ei1. cbn [bind]. rewrite Ei2. cbn [bind]. cbv zeta.
    assert (Hd1 : ld_depth ld1 = ld_depth (c_ld c) + 1 /\ ld_depth (c_ld c) < 10).
    { rewrite (mk_eta (c_ld c)) in Eenter. apply ld_enter_some in Eenter. destruct Eenter as [Hlt [[H0 ->]|[H0 [_ ->]]]].
      - unfold DetectorProofs.mk. cbn. rewrite H0. split; [reflexivity|lia].
      - unfold DetectorProofs.mk. cbn. split; [reflexivity|exact Hlt]. }
    destruct Hd1 as [Hd1 Hd10].
    (* the value *)
    rewrite Eval. cbn [sl sl_start sl_end].
    rewrite (stream_from_substr_W text vs (E.r_epieces vps) tail HWv). cbn [bind].
    destruct lvl as [|lvl']; [lia|].
    assert (Epc : forall s0 cc, parse_content_lvl text (S lvl') s0 cc =
              parse_content_loop text context (token_with text (process_text_with text (parse_content_lvl text lvl')))
                (S (length (s_rest s0))) 0 s0 cc) by reflexivity.
    rewrite Epc. cbn [sst s_rest].
    set (ve := vs + blen (E.r_epieces vps)) in *.
    set (c2 := set_entity_floor (set_tag_name (set_ld c1 ld1) tag_name_null) (len_N (c_parent_prefixes (set_ld c1 ld1)))).
    assert (HR2 : RunR c0 c2 (frs ++ G0)) by (eapply RunR_frame; [exact HR1|unfold c2; repeat split]).
    pose proof (W_le _ _ _ (W_app _ _ _ _ HWv)) as Hlev. fold ve in Hlev.
    pose proof (ep_bytes true vps Hvok) as Hvb.
    assert (Hinner : exists c2' Gv,
              parse_content_loop text context (token_with text (process_text_with text (parse_content_lvl text lvl')))
                (S (length (E.r_epieces vps ++ tail))) 0 (sst ve vs (E.r_epieces vps ++ tail)) c2 = Ok (sst ve ve tail, c2') /\
              RunR c0 c2' ((frs ++ G0) ++ Gv) /\ map (cow_bytes text) (map fst Gv) = Fv /\ ValG vps (en_value en) Gv /\
              c_ld c2' = ld1' /\ ld_depth ld1' = ld_depth ld1 /\
              c_tag_name c2' = c_tag_name c2 /\ c_entity_floor c2' = c_entity_floor c2).
    { destruct (list_eq_dec N.eq_dec (E.r_epieces vps) []) as [Ex|Hne].
      - (* an empty value: no token *)
        assert (Evps : vps = []).
        { destruct vps as [|[qq|nn] vr]; [reflexivity| |discriminate Ex].
          apply Forall_cons_iff in Hvok. destruct Hvok as [Hq0 _]. cbn [ep_ok] in Hq0. destruct Hq0 as [Hq _].
          destruct (r_piece_ne 60 qq Hq) as (x1 & r1 & E1).
          cbn [E.r_epieces flat_map E.r_epiece] in Ex. rewrite E1 in Ex. discriminate. }
        subst vps. inversion Hv; subst. cbn [E.r_epieces flat_map app length] in *.
        cbn [parse_content_loop]. rewrite at_end_sst. unfold ve. rewrite blen_nil, N.add_0_r.
        replace (vs <=? vs) with true by lia.
        exists c2, []. rewrite app_nil_r. cbn [ld_run] in Erun1. injection Erun1 as <-.
        split; [reflexivity|]. split; [exact HR2|]. split; [reflexivity|]. split; [apply VG_empty; reflexivity|]. repeat split; auto.
      - assert (Hlen : (1 <= length (E.r_epieces vps ++ tail))%nat).
        { rewrite app_length. destruct (E.r_epieces vps); [congruence|cbn; lia]. }
        destruct (length (E.r_epieces vps ++ tail)) as [|len'] eqn:El; [lia|].
        rewrite (content_loop_text_ne text Hascii context _ ve vs (E.r_epieces vps) tail c2 len' HWv eq_refl Hlev Hvb Hvn3 Hne).
        cbn [token_with].
        rewrite process_text_with_unfold. unfold slice_bytes at 1. cbn [sl sl_start sl_end].
        unfold ve. rewrite (W_sub _ _ _ _ HWv). fold ve.
        destruct (existsb (fun x => (x =? 38) || (x =? 13)) (E.r_epieces vps)) eqn:Efast; cbn [negb].
        + (* through the buffer *)
          cbn [fst snd]. unfold ve. rewrite (stream_from_substr_W text vs (E.r_epieces vps) tail HWv). fold ve. cbn [bind].
          destruct (IHv ve vs tail c0 c2 (frs ++ G0) (S (length (s_rest (sst ve vs (E.r_epieces vps ++ tail))))) lvl' (vs, ve) ld1')
            as (c2' & Gv & Ev & HRv & HGv & HXv & Lv1 & Lv2 & Lv3 & Lv4); try assumption; try reflexivity.
          * unfold c2. cbn. rewrite Hd1. replace (0 <? ld_depth (c_ld c) + 1) with true by lia. reflexivity.
          * constructor.
          * rewrite (RunR_entities _ _ _ HR2). rewrite <- Hes. symmetry. apply (RunR_entities _ _ _ HR).
          * unfold c2. cbn. lia.
          * intros Z0 Z1. apply app_eq_nil in Z0. destruct Z0 as [Z0 _]. apply (R Z0). intros Z2.
            apply app_eq_nil in Z2. destruct Z2 as [_ Z2]. apply app_eq_nil in Z2. destruct Z2 as [Z2 _]. contradiction.
          * cbn [sst s_rest]. rewrite app_length. lia.
          * cbn [push_text_chunks sst s_rest] in Ev |- *. rewrite Ev. cbn [bind]. exists c2', Gv. unfold c2 in Lv2 |- *. cbn in Lv2.
            split; [reflexivity|]. split; [exact HRv|]. split; [exact HGv|]. split.
            { apply VG_slow; [exact Hne|exact Efast|]. rewrite Eval. cbn [sl sl_start sl_end]. exact HXv. }
            repeat split; auto.
        + (* the fast path: the value is appended as it is *)
          destruct (existsb_or_false _ _ _ Efast) as [E38 E13].
          destruct (exp_plain decls true vps [] qv trv Fv Hv Hvok E38) as [-> ->]. cbn [app].
          assert (Hemit : emit true ([] ++ map CLit (E.r_epieces vps)) = [E.r_epieces vps]).
          { cbn [app]. unfold emit. rewrite text_chunks_in_entity.
            replace (concat (map chunk_bytes (map CLit (E.r_epieces vps)))) with (E.r_epieces vps)
              by (clear; induction (E.r_epieces vps) as [|z l IHl]; [reflexivity|cbn; rewrite <- IHl; reflexivity]).
            rewrite norm_eol_nocr by exact E13. destruct (E.r_epieces vps); [congruence|reflexivity]. }
          destruct (run_append_r (CowBorrowed (sl vs ve)) (vs, ve) c0 c2 (frs ++ G0) HR2 I
                      (fun Z0 => R (proj1 (app_eq_nil _ _ Z0)) ltac:(rewrite Hemit; intros Z2; apply app_eq_nil in Z2; destruct Z2 as [_ Z2]; discriminate)) Hat)
            as (c2' & Ea & HRa & La1 & La2 & La3).
          rewrite Ea. cbn [bind]. exists c2', [(CowBorrowed (sl vs ve), (vs, ve))]. cbn [ld_run] in Erun1. injection Erun1 as <-.
          split; [reflexivity|]. split; [exact HRa|]. split; [|split; [rewrite Eval; apply VG_fast; [exact Hne|exact Efast]|]].
          { cbn [map cow_bytes fst]. unfold slice_bytes, ve. cbn [sl sl_start sl_end]. rewrite (W_sub _ _ _ _ HWv).
            cbn [app] in Hemit. rewrite Hemit. reflexivity. }
          unfold c2 in La1 |- *. cbn in La1. repeat split; auto. }
    destruct Hinner as (c2' & Gv & Ein & HRv & HGv & HXv & Lv1 & Lv2 & Lv3 & Lv4).
    rewrite Ein. cbn [bind].
    (* back from the value *)
    rewrite (RunR_pp _ _ _ HRv), Lv4. unfold c2 at 1. cbn [c_entity_floor set_entity_floor c_parent_prefixes set_tag_name set_ld].
    rewrite (RunR_pp _ _ _ HR1), N.eqb_refl. cbn [negb].
    set (c3 := set_ld (set_entity_floor (set_tag_name c2' (c_tag_name (set_ld c1 ld1))) (c_entity_floor (set_ld c1 ld1)))
                      (dec_depth (c_ld (set_entity_floor (set_tag_name c2' (c_tag_name (set_ld c1 ld1))) (c_entity_floor (set_ld c1 ld1)))))).
    assert (HR3 : RunR c0 c3 (frs ++ G0 ++ Gv)).
    { rewrite app_assoc. eapply RunR_frame; [exact HRv|unfold c3; repeat split]. }
    assert (Eld3 : c_ld c3 = dec_depth ld1') by (unfold c3; cbn; rewrite Lv1; reflexivity).
    assert (Hdd : ld_depth (dec_depth ld1') = ld_depth (c_ld c)).
    { unfold dec_depth. cbn [ld_depth]. rewrite Lv2, Hd1. replace (0 <? ld_depth (c_ld c) + 1) with true by lia. lia. }
    destruct (IHr e (p + 2 + blen n) more c0 c3 (frs ++ G0 ++ Gv) fu (S lvl') r ld')
      as (c' & G & E' & HR' & HG & HX & K1 & K2 & K3 & K4); try assumption.
    + pose proof (W_app _ _ _ _ (W_cons _ _ _ _ HW)) as X. change (blen [59]) with 1 in X.
      pose proof (W_app _ _ (n) _ (W_cons _ _ _ _ HW)) as Y. apply W_cons in Y.
      replace (p + 2 + blen n) with (p + 1 + blen n + 1) by lia. exact Y.
    + lia.
    + rewrite Eld3, Hdd. exact Hm.
    + constructor.
    + rewrite (RunR_entities _ _ _ HR3). rewrite <- Hes. symmetry. apply (RunR_entities _ _ _ HR).
    + rewrite Eld3. exact Hld.
    + rewrite Eld3, Hdd. exact Hlvl.
    + intros Z0 Z1. apply app_eq_nil in Z0. destruct Z0 as [Z0 _]. apply (R Z0). intros Z2.
      apply app_eq_nil in Z2. destruct Z2 as [_ Z2]. apply app_eq_nil in Z2. destruct Z2 as [_ Z2]. contradiction.
    + rewrite !app_length in Hfu. cbn [length] in Hfu. lia.
    + exists c', (G0 ++ Gv ++ G). split; [exact E'|].
      split; [rewrite <- !app_assoc in HR'; exact HR'|].
      split; [rewrite !map_app, HG0, HGv, HG; reflexivity|].
      split; [apply (EG_ref m acc n rest r d vps en0 Gv G Hfd Hval Efind); [rewrite Eenv; exact HXv|exact HX]|].
      split; [exact K1|]. split; [rewrite K2, Eld3; exact Hdd|].
      unfold c3 in K3, K4. cbn in K3, K4. rewrite K3, K4, L2, L3. split; reflexivity.
Qed.


End EntR.

Print Assumptions TL_r.
