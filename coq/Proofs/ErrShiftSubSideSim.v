(* Proofs/ErrShiftSubSideSim.v -- C14 (inside the internal subset), part 8.  COPY of
   ErrShiftEntSideSim.v over the ErrShiftSub files; entering / leaving the value of an entity is
   generalised to either side ([U_enter_any], [U_leave_any]).  Original header:
   Proofs/ErrShiftSubSideSim.v -- C14 (entities), part 10: the unary invariant [U] of
   ErrShiftEntSide.v rides along the simulation of ErrShiftSubBuild.v.  Consequences: every token
   handled behind the point keeps [U]; at the end the map by START ([mid_doc]) and the
   componentwise map ([x_doc]) of the document coincide. *)
From Coq Require Import Ascii String.
From Coq Require Import List Arith NArith Bool Lia ZifyBool ZifyN ZifyNat.
Import ListNotations.
From RX Require Import Generated.
From RX.Model Require Import Base CharClass Stream Tokenizer Doc Builder Parse.
From RX.Proofs Require Import Tactics NoPanicUtf8 NoPanicStream PositionProofs BorrowLocal BorrowParse
  RangeArena RangeShiftBase RangeShiftStream RangeShiftTokenizer RangeShiftBuilder
  ErrShiftBase ErrShiftBuilder ErrShiftMidCore ErrShiftMidProlog
  ErrShiftSubBase ErrShiftSubStream ErrShiftSubTok ErrShiftSubBuild ErrShiftEntSide.
Open Scope N_scope.

(* ---- the two maps of a document ---- *)
Lemma SSr_rng P k r : SSr P r -> m_rng P k r = x_rng P k r.
Proof.
  unfold SSr, below, m_rng, x_rng, ErrShiftSubBuild.mS, sh_rng. destruct r as [a e]. cbn [fst snd].
  destruct (a <? P), (e <? P); intros H; first [reflexivity|discriminate H].
Qed.

Lemma mid_x_doc P k d : Forall (NodeOK P) (d_nodes d) -> Forall (fun a => SSr P (ad_range a)) (d_attrs d) ->
  mid_doc P k d = x_doc P k d.
Proof.
  intros HN HA. unfold mid_doc, x_doc. f_equal.
  - apply map_ext_in. intros nd Hin. rewrite Forall_forall in HN. specialize (HN nd Hin).
    unfold m_node, x_node. f_equal. unfold NodeOK in HN. destruct (is_root_kind (nd_kind nd)).
    + destruct HN as (A & B & _). unfold x_rng, ErrShiftSubBuild.mS.
      replace (fst (nd_range nd) <? P) with true by lia. replace (snd (nd_range nd) <? P) with false by lia. reflexivity.
    + apply SSr_rng. exact HN.
  - apply map_ext_in. intros a Hin. rewrite Forall_forall in HA. specialize (HA a Hin).
    unfold m_attr, x_attr. f_equal. apply SSr_rng. exact HA.
Qed.

Lemma U_mid_x P k hi base fl nodes0 c : U P hi base fl nodes0 c -> mid_doc P k (c_doc c) = x_doc P k (c_doc c).
Proof. intros HU. apply mid_x_doc; [apply (u_nodes _ _ _ _ _ _ HU)|apply (u_attrs _ _ _ _ _ _ HU)]. Qed.

(* ---- the neutral context at the point ---- *)
Lemma U_neutral P T q c lenU E : 0 < P -> PS T q c -> c_entity_floor c = 0 ->
  let cN := set_entities (sh_ctx P (uctx lenU c)) E in
  U P true 0 0 (d_nodes (c_doc cN)) cN.
Proof.
  intros HP0 [P1 P2 P3 P4 P5 P6 P7 P8 [(root & R1 & R2) Hold]] Hfl cN.
  destruct (d_nodes (c_doc c)) as [|r0 rest] eqn:En; [discriminate|]. injection R1 as ->.
  assert (Enodes : d_nodes (c_doc cN) = map (sh_node P) (map (unode lenU) (root :: rest))).
  { unfold cN. cbn [set_entities sh_ctx uctx set_doc set_nodes c_doc sh_doc d_nodes]. rewrite En. reflexivity. }
  destruct R2 as (K1 & K2 & K3).
  assert (Eroot : nth_N (d_nodes (c_doc cN)) 0 = Some (sh_node P (unode lenU root))).
  { rewrite Enodes. reflexivity. }
  constructor.
  - rewrite Enodes. cbn [map]. constructor.
    + unfold NodeOK, sh_node, unode. cbn [nd_kind nd_range nd_parent]. rewrite K1. cbn [is_root_kind sh_kind fst snd].
      split; [lia|]. split; [lia|exact K3].
    + rewrite map_map. apply Forall_forall. intros x Hx. apply in_map_iff in Hx. destruct Hx as (nd & <- & Hnd).
      apply In_nth_error in Hnd. destruct Hnd as [i Hi]. destruct (Hold (S i) nd ltac:(lia) Hi) as (_ & Hk & _).
      unfold NodeOK, sh_node, unode. cbn [nd_kind nd_range].
      replace (is_root_kind (nd_kind nd)) with false by (destruct (nd_kind nd); cbn in Hk; try contradiction; reflexivity).
      cbn [sh_kind is_root_kind]. unfold SSr, below, sh_rng. cbn [fst snd]. reflexivity.
  - unfold cN. cbn [set_entities sh_ctx uctx set_doc set_nodes c_doc sh_doc d_attrs]. rewrite P7. constructor.
  - unfold cN. cbn [set_entities sh_ctx c_cur_attrs uctx set_doc]. rewrite P1. constructor.
  - unfold cN. cbn [set_entities sh_ctx c_tag_name uctx set_doc]. rewrite P6. intros Hne. exfalso. apply Hne. reflexivity.
  - exact Hfl.
  - unfold cN. cbn [set_entities sh_ctx c_parent_prefixes uctx set_doc]. rewrite P2. cbn. lia.
  - unfold cN at 1. cbn [set_entities sh_ctx c_parent_id uctx set_doc]. rewrite P5. eapply nth_N_lt. exact Eroot.
  - unfold cN at 2 3. cbn [set_entities sh_ctx c_parent_id c_parent_prefixes uctx set_doc]. rewrite P2, P5. cbn. reflexivity.
  - apply Ext_refl.
  - exists (sh_node P (unode lenU root)). split; [exact Eroot|]. intros _. unfold sh_node, unode. cbn [nd_kind]. rewrite K1. reflexivity.
Qed.

(* ---- entering and leaving the value of an entity, on either side ---- *)
Lemma U_enter_any P hv hi base fl nodes0 c ld : U P hi base fl nodes0 c ->
  U P hv (c_parent_id c) (len_N (c_parent_prefixes c)) (d_nodes (c_doc c))
    (set_entity_floor (set_tag_name (set_ld c ld) tag_name_null) (len_N (c_parent_prefixes c))).
Proof.
  intros [G1 G2 G3 G4 G5 G6 G7 G8 G9 G10].
  constructor; cbn [set_entity_floor set_tag_name set_ld c_doc c_cur_attrs c_tag_name c_entity_floor c_parent_prefixes c_parent_id];
    try assumption.
  - intros Hne. exfalso. apply Hne. reflexivity.
  - reflexivity.
  - lia.
  - replace (N.to_nat _) with O by lia. reflexivity.
  - apply Ext_refl.
  - destruct (nth_N_some _ _ G7) as [nb Hnb]. exists nb. split; [exact Hnb|]. intros E0. exfalso. lia.
Qed.

Lemma U_leave_any P hv hi base fl nodes0 c1 ld c2 ld' : U P hi base fl nodes0 c1 ->
  U P hv (c_parent_id c1) (len_N (c_parent_prefixes c1)) (d_nodes (c_doc c1)) c2 ->
  len_N (c_parent_prefixes c2) = c_entity_floor c2 ->
  U P hi base fl nodes0
    (set_ld (set_entity_floor (set_tag_name c2 (c_tag_name (set_ld c1 ld))) (c_entity_floor (set_ld c1 ld))) ld').
Proof.
  intros [G1 G2 G3 G4 G5 G6 G7 G8 G9 G10] [K1 K2 K3 K4 K5 K6 K7 K8 K9 K10] Hlen.
  rewrite K5 in Hlen.
  constructor; cbn [set_entity_floor set_tag_name set_ld c_doc c_cur_attrs c_tag_name c_entity_floor c_parent_prefixes c_parent_id];
    try assumption.
  - rewrite Hlen. exact G6.
  - rewrite Hlen in *. replace (N.to_nat (len_N (c_parent_prefixes c1) - N.max (len_N (c_parent_prefixes c1)) 1)) with O in K8 by lia.
    cbn [AncTo] in K8. rewrite K8. eapply AncTo_ext.
    + exact K9.
    + exact G8.
  - eapply Ext_trans; eassumption.
Qed.

(* ---- simulation and a unary fact about the first run ---- *)
Section Ent.
Variable S : setting.
Notation pre := (st_pre S).
Notation ws := (st_ws S).
Notation post := (st_post S).
Notation T1 := (pre ++ post).
Notation T2 := (pre ++ ws ++ post).
Notation P := (blen pre).
Notation k := (blen ws).
Hypothesis HP0 : 0 < P.
Notation psim := (psim S).
Notation F := (F S).
Notation SI := (SI S).
Notation LS := (LS S).
Notation NS := (NS S).
Notation dd := (dd S).
Notation xrng := (x_rng P k).
Notation xc := (x_ctx P k).
Notation CI := (CI P).
Notation U := (U P).

Ltac cproj :=
  cbn [x_ctx x_doc c_opt c_ns_start_idx c_cur_attrs c_awaiting c_parent_prefixes c_entities c_after_text
       c_parent_id c_tag_name c_entity_floor c_ld c_doc
       set_doc set_ns_start_idx set_cur_attrs set_awaiting set_parent_prefixes set_entities
       set_after_text set_parent_id set_tag_name set_entity_floor set_ld
       d_nodes d_attrs d_ns_values d_ns_tree set_nodes set_attrs fst snd pmap] in *; unfold idf in *.
Ltac nopos := apply psim_same_err; reflexivity.
Ltac idp := eapply psim_weaken; [apply id_psim; np|intros ? _; split; [exact I|reflexivity]].

Lemma psim_okP {A B} (I Q : A -> Prop) (g : A -> B) r1 r2 :
  psim I g r1 r2 -> (forall a, r1 = Ok a -> Q a) -> psim (fun a => I a /\ Q a) g r1 r2.
Proof.
  intros H HQ. destruct r1; cbn [ErrShiftSubBase.psim psim0] in *; auto.
  destruct H as [Ha ->]. split; [split; [exact Ha|apply HQ; reflexivity]|reflexivity].
Qed.

Lemma psim_ok {A B} (I : A -> Prop) (g : A -> B) r1 r2 a : psim I g r1 r2 -> r1 = Ok a -> I a.
Proof. intros H ->. apply H. Qed.

Lemma NS_side hi p : NS hi p -> side P hi p.
Proof. unfold side, below. destruct hi; cbn [ErrShiftSubBase.NS negb]; lia. Qed.

Lemma RI_side hi r : RI S hi r -> side P hi (fst r) /\ side P hi (snd r).
Proof. intros [H1 H2]. split; apply NS_side; [exact H1|apply (NS4_NS S); exact H2]. Qed.

Lemma RI_SSr hi r : RI S hi r -> SSr P r.
Proof. intros H. destruct (RI_side hi r H). eapply side_SSr; eassumption. Qed.

Lemma TokI_TokS hi tok : TokI S hi tok -> TokS P hi tok.
Proof.
  destruct tok as [tgt content r | t r | name value | prefix local start | r ql el prefix local value
                  | e r | t r | t r]; cbn [TokI TokS]; intros H.
  - apply (RI_SSr hi). tauto.
  - apply (RI_SSr hi). tauto.
  - exact I.
  - apply NS_side. tauto.
  - apply (RI_SSr hi). tauto.
  - apply (RI_side hi). tauto.
  - apply (RI_SSr hi). tauto.
  - apply (RI_SSr hi). tauto.
Qed.

Definition CU (hi : bool) (base fl : N) (nodes0 : list node_data) (c : context) : Prop :=
  CI c /\ U hi base fl nodes0 c.
Definition CUp (hi : bool) (base fl : N) (nodes0 : list node_data) (x : stream * context) : Prop :=
  CU hi base fl nodes0 (snd x).
Definition shq (hi : bool) (x : stream * context) : stream * context := (F hi (fst x), xc (snd x)).

Lemma ptext_loop_xU hi base fl nodes0 pc1 pc2 r :
  (forall hv b f n0 es c, SI hv es -> CI c -> U hv b f n0 c ->
     psim (CUp hv b f n0) (shq hv) (pc1 es c) (pc2 (F hv es) (xc c))) ->
  SSr P r ->
  forall fu1 fu2 s buf c, (fu1 <= fu2)%nat -> SI hi s -> CI c -> U hi base fl nodes0 c ->
    psim (fun x => CU hi base fl nodes0 (snd x)) (pmap idf xc) (ptext_loop T1 pc1 r fu1 s buf c)
         (ptext_loop T2 pc2 (xrng r) fu2 (F hi s) buf (xc c)).
Proof.
  intros Hpc Hr. induction fu1 as [|fu IH]; intros fu2 s buf c Hle H Hc HU; [exact I|].
  destruct fu2 as [|fu2]; [lia|]. cbn [ptext_loop].
  rewrite (at_end_F S). destruct (at_end s); [apply psim_ret; [split; assumption|reflexivity]|]. cproj.
  eapply psim_bind; [apply (parse_next_chunk_x S HP0 hi); [exact H|apply (ci_ent _ _ Hc)]|]. intros [ch s1] [H1 Hch].
  cbn [pmap fst snd] in *. cbv beta iota. destruct ch as [x|cp|value]; cbn [x_chunk].
  - apply IH; [lia|assumption..].
  - apply IH; [lia|assumption..].
  - destruct Hch as [hv Hlv]. rewrite (proj1 (xsl_side S HP0 hv value Hlv)). cbn [sh_sl sl_start sl_end].
    eapply psim_bind with (I := CU hi base fl nodes0) (g := xc).
    { destruct (negb (tb_is_empty buf)); [|apply psim_ret; [split; assumption|reflexivity]].
      eapply psim_bind; [idp|]. intros bs _. unfold idf. apply (psim_okP CI (U hi base fl nodes0)).
      - apply (append_text_x S (CowOwned bs)); [exact Hc|exact I].
      - intros c' Hc'. eapply append_text_U; eassumption. }
    intros c1 [Hc1 HU1]. cbv beta. cproj.
    eapply psim_bind; [apply (inc_references_x S hi); exact H1|]. intros ld1 _. unfold idf.
    eapply psim_bind; [apply (inc_depth_x S hi); exact H1|]. intros ld2 _. unfold idf. cbv zeta.
    destruct (LS_stream S HP0 hv value Hlv) as [A1 A2].
    eapply psim_bind; [apply (stream_from_substr_ps S hv); assumption|]. intros es Hes. cbv beta. cproj. rewrite len_N_map.
    eapply psim_bind.
    { match goal with |- ErrShiftSubBase.psim _ _ _ _ (pc2 _ ?c2) =>
        replace c2 with (xc (set_entity_floor (set_tag_name (set_ld c1 ld2) tag_name_null)
                                              (len_N (c_parent_prefixes c1))))
          by (unfold x_ctx; cproj; rewrite (x_tn_null S HP0); reflexivity)
      end.
      apply (Hpc hv (c_parent_id c1) (len_N (c_parent_prefixes c1)) (d_nodes (c_doc c1))); [exact Hes| |apply (U_enter_any P hv hi base fl nodes0); exact HU1].
      apply CI_floor. apply CI_tn; [apply CI_ld; exact Hc1|].
      split; unfold OKs, tag_name_null, empty_slice; cbn; lia. }
    intros [s2 c2] [Hc2 HU2]. cbn [shq fst snd] in *. cbv beta iota. cproj. rewrite len_N_map.
    destruct (len_N (c_parent_prefixes c2) =? c_entity_floor c2) eqn:El; cbn [negb]; [|nopos].
    match goal with |- ErrShiftSubBase.psim _ _ _ (ptext_loop _ _ _ _ _ _ ?ca) (ptext_loop _ _ _ _ _ _ ?cb) =>
      change cb with (xc ca)
    end.
    apply IH; [lia|exact H1| |].
    + apply CI_ld. apply CI_floor. apply CI_tn; [exact Hc2|]. apply (ci_tn _ _ Hc1).
    + apply (U_leave_any P hv hi base fl nodes0 c1 ld2 c2 _ HU1 HU2). lia.
Qed.

Lemma process_text_with_xU hi base fl nodes0 pc1 pc2 :
  (forall hv b f n0 es c, SI hv es -> CI c -> U hv b f n0 c ->
     psim (CUp hv b f n0) (shq hv) (pc1 es c) (pc2 (F hv es) (xc c))) ->
  forall t r c, CI c -> U hi base fl nodes0 c -> LS hi t -> RI S hi r ->
    psim (CU hi base fl nodes0) xc (process_text_with T1 pc1 t r c)
         (process_text_with T2 pc2 (sh_sl (dd hi) t) (sh_rng (dd hi) r) (xc c)).
Proof.
  intros Hpc t r c Hc HU Ht Hr. rewrite !process_text_with_eq. cbv zeta. rewrite (slice_bytes_s S hi) by exact Ht.
  destruct (xsl_side S HP0 hi t Ht) as [Et Hto]. pose proof (RI_SSr hi r Hr) as Hss.
  destruct (negb _).
  { rewrite <- Et, <- (xrng_side S HP0 hi r Hr). apply (psim_okP CI (U hi base fl nodes0)).
    - apply (append_text_x S (CowBorrowed t)); [exact Hc|exact Hto].
    - intros c' Hc'. eapply append_text_U; eassumption. }
  pose proof Hr as Hr0. cbn [sh_rng fst snd]. destruct Hr as [Hr1 Hr2].
  eapply psim_bind.
  { apply (stream_from_substr_ps S hi); [exact Hr1|]. intros ->. exact Hr2. }
  intros s0 H0. cbv beta.
  change (fst r + dd hi, snd r + dd hi) with (sh_rng (dd hi) r). rewrite <- (xrng_side S HP0 hi r Hr0).
  eapply psim_bind.
  { apply (ptext_loop_xU hi base fl nodes0 pc1 pc2 r Hpc Hss); [|exact H0|exact Hc|exact HU].
    pose proof (rest_len_le S hi s0 H0). lia. }
  intros [buf c1] [Hc1 HU1]. cbn [pmap fst snd] in *. unfold idf. cbv beta iota.
  destruct (negb _); [|apply psim_ret; [split; assumption|reflexivity]].
  eapply psim_bind; [idp|]. intros bs _. unfold idf. apply (psim_okP CI (U hi base fl nodes0)).
  - apply (append_text_x S (CowOwned bs)); [exact Hc1|exact I].
  - intros c' Hc'. eapply append_text_U; eassumption.
Qed.

Lemma token_with_xU hi base fl nodes0 ptext1 ptext2 :
  (forall t r c, CI c -> U hi base fl nodes0 c -> LS hi t -> RI S hi r ->
     psim (CU hi base fl nodes0) xc (ptext1 t r c) (ptext2 (sh_sl (dd hi) t) (sh_rng (dd hi) r) (xc c))) ->
  forall tok c, TokI S hi tok -> CI c -> U hi base fl nodes0 c ->
    psim (CU hi base fl nodes0) xc (token_with T1 ptext1 tok c) (token_with T2 ptext2 (sh_tok (dd hi) tok) (xc c)).
Proof.
  intros Hp tok c Ht Hc HU.
  set (dm := fun (_ : slice) (_ : range) (c0 : context) => Ok c0).
  assert (Hcase : (exists t r, tok = TText t r) \/
            ((forall t r, tok <> TText t r) /\ token_with T1 ptext1 tok c = token_with T1 dm tok c /\
             token_with T2 ptext2 (sh_tok (dd hi) tok) (xc c) = token_with T2 dm (sh_tok (dd hi) tok) (xc c))).
  { destruct tok; first [left; eexists; eexists; reflexivity
                        |right; split; [intros; discriminate|split; reflexivity]]. }
  destruct Hcase as [(t & r & ->)|(Hnt & -> & ->)].
  - cbn [sh_tok token_with]. destruct Ht as [Ht Hr]. apply Hp; assumption.
  - apply (psim_okP CI (U hi base fl nodes0)).
    + apply (token_with_x S HP0 hi dm dm); [|exact Ht|exact Hc].
      intros t r c0 Hc0 _ _. apply psim_ret; [exact Hc0|reflexivity].
    + intros c' Hc'. eapply token_with_U; [|apply TokI_TokS; exact Ht|exact HU|exact Hc'].
      intros t r E. exfalso. exact (Hnt t r E).
Qed.

Lemma parse_content_lvl_xU : forall lvl hi base fl nodes0 es c, SI hi es -> CI c -> U hi base fl nodes0 c ->
  psim (PI S hi context (CU hi base fl nodes0)) (shp S hi context xc)
       (parse_content_lvl T1 lvl es c) (parse_content_lvl T2 lvl (F hi es) (xc c)).
Proof.
  induction lvl as [|lvl IH]; intros hi base fl nodes0 es c Hs Hc HU; cbn [parse_content_lvl]; [exact I|].
  apply (parse_content_ps S hi context _ _ xc (CU hi base fl nodes0)); [|exact Hs|split; assumption].
  intros tok c0 Ht [Hc0 HU0]. apply token_with_xU; [|exact Ht|exact Hc0|exact HU0].
  intros t r c1 Hc1 HU1 Ht1 Hr1. apply process_text_with_xU; [|assumption..].
  intros hv b f n0 es0 c2 Hes0 Hc2 HU2. eapply psim_weaken; [apply (IH hv b f n0); assumption|].
  intros [s' c'] [_ H']. split; [exact H'|reflexivity].
Qed.

Theorem token_xU hi base fl nodes0 tok c : TokI S hi tok -> CI c -> U hi base fl nodes0 c ->
  psim (CU hi base fl nodes0) xc (Parse.token T1 tok c) (Parse.token T2 (sh_tok (dd hi) tok) (xc c)).
Proof.
  intros Ht Hc HU. unfold Parse.token, process_text. apply token_with_xU; [|exact Ht|exact Hc|exact HU].
  intros t r c1 Hc1 HU1 Ht1 Hr1. apply process_text_with_xU; [|assumption..].
  intros hv b f n0 es0 c2 Hes0 Hc2 HU2. eapply psim_weaken; [apply (parse_content_lvl_xU entity_levels hv b f n0); assumption|].
  intros [s' c'] [_ H']. split; [exact H'|reflexivity].
Qed.

(* the unary reading *)
Corollary token_U hi base fl nodes0 tok c c' : TokI S hi tok -> CI c -> U hi base fl nodes0 c ->
  Parse.token T1 tok c = Ok c' -> U hi base fl nodes0 c'.
Proof.
  intros Ht Hc HU H. pose proof (token_xU hi base fl nodes0 tok c Ht Hc HU) as Sim.
  apply (psim_ok _ _ _ _ _ Sim H).
Qed.

End Ent.

Print Assumptions token_xU.
