(* BudgetStream.v -- C09, part 1: positions.  Every Stream primitive only moves forward,
   keeps the end, and keeps the cached rest equal to the text from the position on.
   Successful runs only (forward reasoning from [f s = Ok ..]); no UTF-8 assumption. *)
From Coq Require Import Ascii String.
From Coq Require Import Lia ZifyBool ZifyN ZifyNat.
From RX Require Import Generated.
From RX.Model Require Import Base CharClass Stream Tokenizer.
From RX.Proofs Require Import Tactics OptionsParam.

(* symbolic execution of [H : e = Ok y]; like [usteps], but keeps the equation of a
   destructed non-variable pair (try_consume_byte) *)
Ltac bstep1 :=
  match goal with
  | H : Ok _ = Ok _ |- _ => inversion H; subst; clear H
  | H : Err _ = Ok _ |- _ => discriminate H
  | H : Panic _ = Ok _ |- _ => discriminate H
  | H : OutOfFuel = Ok _ |- _ => discriminate H
  | H : err_at _ _ _ = Ok _ |- _ => exfalso; exact (err_at_not_ok _ _ _ _ H)
  | H : err_from _ _ _ = Ok _ |- _ => exfalso; exact (err_from_not_ok _ _ _ _ H)
  | H : bind _ _ = Ok _ |- _ =>
    let a := fresh "a" in let H1 := fresh "Hb" in
    apply bind_ok in H; destruct H as [a [H1 H]]; cbv beta in H
  | H : (let '(_, _) := ?x in _) = Ok _ |- _ =>
    tryif is_var x then destruct x else destruct x eqn:?
  | H : (if ?b then _ else _) = Ok _ |- _ => destruct b eqn:?
  | H : match ?x with _ => _ end = Ok _ |- _ => destruct x eqn:?
  end.
Ltac bsteps := repeat bstep1.

Lemma skipn_skipn2 {A} n : forall k (l : list A), skipn n (skipn k l) = skipn (k + n) l.
Proof.
  induction k; intros l; [reflexivity|].
  destruct l; cbn [skipn plus]; [destruct n; reflexivity|]. apply IHk.
Qed.

Lemma scan_le f : forall l r, (scan f l r <= r)%nat.
Proof.
  induction l; intros r; destruct r; cbn [scan]; try lia.
  destruct (f a); [|lia]. specialize (IHl r). lia.
Qed.

Lemma decode1_len l c n : decode1 l = Some (c, n) -> 1 <= n.
Proof.
  unfold decode1. destruct l as [|b0 r]; [discriminate|].
  repeat match goal with
  | |- (if ?b then _ else _) = _ -> _ => destruct b
  | |- match ?x with _ => _ end = _ -> _ => destruct x
  end; intros H; inversion H; lia.
Qed.

Section WithText.
Variable text : bytes.
Notation stream := Stream.stream.

(* the stream invariant: the cached rest is the text from pos on; pos <= end <= len *)
Definition wfl (s : stream) : Prop :=
  s_rest s = skipn (N.to_nat (s_pos s)) text /\ s_pos s <= s_end s /\ s_end s <= tlen text.

(* s' is s moved forward by at least k *)
Definition mvk (k : N) (s s' : stream) : Prop :=
  wfl s' /\ s_end s' = s_end s /\ s_pos s + k <= s_pos s'.

Lemma mvk_refl s : wfl s -> mvk 0 s s.
Proof. unfold mvk. intros. split; [assumption | split; [reflexivity | lia]]. Qed.

Lemma wfl_new : wfl (stream_new text).
Proof. unfold wfl, stream_new. cbn [s_pos s_end s_rest]. repeat split; try reflexivity; lia. Qed.

Lemma wfl_from_substr a e s : stream_from_substr text a e = Ok s ->
  wfl s /\ s_pos s = a /\ s_end s = e.
Proof.
  unfold stream_from_substr. intros H. bsteps. unfold wfl. cbn [s_pos s_end s_rest].
  repeat split; try reflexivity; lia.
Qed.

Lemma wfl_shift s k : wfl s -> s_pos s + N.of_nat k <= s_end s ->
  wfl {| s_pos := s_pos s + N.of_nat k; s_end := s_end s; s_rest := skipn k (s_rest s) |}.
Proof.
  intros (Hr & Hp & He) Hk. unfold wfl. cbn [s_pos s_end s_rest]. rewrite Hr, skipn_skipn2.
  repeat split; try lia. f_equal. lia.
Qed.

Lemma mv_advance n s s' : advance n s = Ok s' -> wfl s ->
  wfl s' /\ s_end s' = s_end s /\ s_pos s' = s_pos s + n.
Proof.
  unfold advance. intros H W. bsteps. cbn [s_pos s_end s_rest].
  pose proof (wfl_shift s (N.to_nat n) W) as Hs. rewrite N2Nat.id in Hs.
  repeat split; try lia. apply Hs. lia.
Qed.

Lemma mv_skip_bytes f s : wfl s -> mvk 0 s (skip_bytes f s).
Proof.
  intros W. unfold skip_bytes, mvk. cbn [s_pos s_end s_rest].
  pose proof (scan_le f (s_rest s) (N.to_nat (s_end s - s_pos s))).
  repeat split; try lia. apply wfl_shift; [assumption|]. destruct W as (_ & ? & _). lia.
Qed.

Lemma mv_skip_spaces s : wfl s -> mvk 0 s (skip_spaces s).
Proof. apply mv_skip_bytes. Qed.

(* the byte under the cursor is a byte of the text *)
Lemma wfl_curr s x : wfl s -> curr_byte_unchecked s = Ok x ->
  exists r, skipn (N.to_nat (s_pos s)) text = x :: r.
Proof.
  intros (Hr & _) H. unfold curr_byte_unchecked in H. rewrite Hr in H.
  destruct (skipn _ text) as [|y r]; [discriminate|]. inversion H; subst. eauto.
Qed.

End WithText.

(* ---- forward chaining over the hypotheses of a symbolic run ---- *)

(* replace skip_spaces / skip_bytes terms (whose argument is known to be wfl) by fresh streams *)
Ltac gen_skips :=
  repeat match goal with
  | W : wfl ?t ?s |- _ =>
    match goal with
    | |- context [skip_spaces s] => idtac
    | _ : context [skip_spaces s] |- _ => idtac
    end;
    let z := fresh "sk" in let Hz := fresh "Hsk" in
    pose proof (mv_skip_spaces t s W) as Hz;
    set (z := skip_spaces s) in *; clearbody z; destruct Hz as (? & ? & ?)
  | W : wfl ?t ?s |- _ =>
    match goal with
    | |- context [skip_bytes ?f s] =>
      let z := fresh "sk" in let Hz := fresh "Hsk" in
      pose proof (mv_skip_bytes t f s W) as Hz;
      set (z := skip_bytes f s) in *; clearbody z; destruct Hz as (? & ? & ?)
    | _ : context [skip_bytes ?f s] |- _ =>
      let z := fresh "sk" in let Hz := fresh "Hsk" in
      pose proof (mv_skip_bytes t f s W) as Hz;
      set (z := skip_bytes f s) in *; clearbody z; destruct Hz as (? & ? & ?)
    end
  end.

(* [lem : f .. s = Ok r -> wfl s -> (A /\ B /\ C)] *)
Ltac fwd H lem :=
  apply lem in H; [ | assumption ];
  repeat match type of H with _ /\ _ => let H' := fresh "Hm" in destruct H as [H' H] end.
