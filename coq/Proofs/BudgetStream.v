(* BudgetStream.v -- C09, part 1: positions.  Every Stream primitive only moves forward,
   keeps the end, and keeps the cached rest equal to the text from the position on.
   Successful runs only (forward reasoning from [f s = Ok ..]); no UTF-8 assumption. *)
From Coq Require Import Ascii String.
From Coq Require Import Lia ZifyBool ZifyN ZifyNat.
From RX Require Import Generated.
From RX.Model Require Import Base CharClass Stream Tokenizer.
From RX.Proofs Require Import Tactics OptionsParam.

(* symbolic execution of [H : e = Ok y]; like [usteps], but keeps the equation of a
   destructed non-variable pair (try_consume_byte) *)
Ltac bstep1 :=
  match goal with
  | H : Ok _ = Ok _ |- _ => inversion H; subst; clear H
  | H : Err _ = Ok _ |- _ => discriminate H
  | H : Panic _ = Ok _ |- _ => discriminate H
  | H : OutOfFuel = Ok _ |- _ => discriminate H
  | H : err_at _ _ _ = Ok _ |- _ => exfalso; exact (err_at_not_ok _ _ _ _ H)
  | H : err_from _ _ _ = Ok _ |- _ => exfalso; exact (err_from_not_ok _ _ _ _ H)
  | H : bind _ _ = Ok _ |- _ =>
    let a := fresh "a" in let H1 := fresh "Hb" in
    apply bind_ok in H; destruct H as [a [H1 H]]; cbv beta in H
  | H : (let '(_, _) := ?x in _) = Ok _ |- _ =>
    tryif is_var x then destruct x else destruct x eqn:?
  | H : (if ?b then _ else _) = Ok _ |- _ => destruct b eqn:?
  | H : match ?x with _ => _ end = Ok _ |- _ => destruct x eqn:?
  end.
Ltac bsteps := repeat bstep1.

Lemma skipn_skipn2 {A} n : forall k (l : list A), skipn n (skipn k l) = skipn (k + n) l.
Proof.
  induction k; intros l; [reflexivity|].
  destruct l; cbn [skipn plus]; [destruct n; reflexivity|]. apply IHk.
Qed.

Lemma scan_le f : forall l r, (scan f l r <= r)%nat.
Proof.
  induction l; intros r; destruct r; cbn [scan]; try lia.
  destruct (f a); [|lia]. specialize (IHl r). lia.
Qed.

Lemma decode1_len l c n : decode1 l = Some (c, n) -> 1 <= n.
Proof.
  unfold decode1. destruct l as [|b0 r]; [discriminate|].
  repeat match goal with
  | |- (if ?b then _ else _) = _ -> _ => destruct b
  | |- match ?x with _ => _ end = _ -> _ => destruct x
  end; intros H; inversion H; lia.
Qed.

Section WithText.
Variable text : bytes.
Notation stream := Stream.stream.

(* the stream invariant: the cached rest is the text from pos on; pos <= end <= len *)
Definition wfl (s : stream) : Prop :=
  s_rest s = skipn (N.to_nat (s_pos s)) text /\ s_pos s <= s_end s /\ s_end s <= tlen text.

(* s' is s moved forward by at least k *)
Definition mvk (k : N) (s s' : stream) : Prop :=
  wfl s' /\ s_end s' = s_end s /\ s_pos s + k <= s_pos s'.

Lemma mvk_refl s : wfl s -> mvk 0 s s.
Proof. unfold mvk. intros. split; [assumption | split; [reflexivity | lia]]. Qed.

Lemma wfl_new : wfl (stream_new text).
Proof. unfold wfl, stream_new. cbn [s_pos s_end s_rest]. repeat split; try reflexivity; lia. Qed.

Lemma wfl_from_substr a e s : stream_from_substr text a e = Ok s ->
  wfl s /\ s_pos s = a /\ s_end s = e.
Proof.
  unfold stream_from_substr. intros H. bsteps. unfold wfl. cbn [s_pos s_end s_rest].
  repeat split; try reflexivity; lia.
Qed.

Lemma wfl_shift s k : wfl s -> s_pos s + N.of_nat k <= s_end s ->
  wfl {| s_pos := s_pos s + N.of_nat k; s_end := s_end s; s_rest := skipn k (s_rest s) |}.
Proof.
  intros (Hr & Hp & He) Hk. unfold wfl. cbn [s_pos s_end s_rest]. rewrite Hr, skipn_skipn2.
  repeat split; try lia. f_equal. lia.
Qed.

Lemma mv_advance n s s' : advance n s = Ok s' -> wfl s ->
  wfl s' /\ s_end s' = s_end s /\ s_pos s' = s_pos s + n.
Proof.
  unfold advance. intros H W. bsteps. cbn [s_pos s_end s_rest].
  pose proof (wfl_shift s (N.to_nat n) W) as Hs. rewrite N2Nat.id in Hs.
  split; [apply Hs; lia | split; reflexivity].
Qed.

Lemma mv_skip_bytes f s : wfl s -> mvk 0 s (skip_bytes f s).
Proof.
  intros W. unfold skip_bytes, mvk. cbn [s_pos s_end s_rest].
  pose proof (scan_le f (s_rest s) (N.to_nat (s_end s - s_pos s))).
  split; [|split; [reflexivity|lia]].
  apply wfl_shift; [assumption|]. destruct W as (_ & ? & _). lia.
Qed.

Lemma mv_skip_spaces s : wfl s -> mvk 0 s (skip_spaces s).
Proof. apply mv_skip_bytes. Qed.

(* the byte under the cursor is a byte of the text *)
Lemma wfl_curr s x : wfl s -> curr_byte_unchecked s = Ok x ->
  exists r, skipn (N.to_nat (s_pos s)) text = x :: r.
Proof.
  intros (Hr & _) H. unfold curr_byte_unchecked in H. rewrite Hr in H.
  destruct (skipn _ text) as [|y r]; [discriminate|]. inversion H; subst. eauto.
Qed.

End WithText.

(* ---- forward chaining over the hypotheses of a symbolic run ---- *)

(* replace skip_spaces / skip_bytes terms (whose argument is known to be wfl) by fresh streams *)
Ltac gen_skips :=
  repeat match goal with
  | W : wfl ?t ?s |- _ =>
    match goal with
    | |- context [skip_spaces s] => idtac
    | _ : context [skip_spaces s] |- _ => idtac
    end;
    let z := fresh "sk" in let Hz := fresh "Hsk" in
    pose proof (mv_skip_spaces t s W) as Hz;
    set (z := skip_spaces s) in *; clearbody z; destruct Hz as (? & ? & ?)
  | W : wfl ?t ?s |- _ =>
    match goal with
    | |- context [skip_bytes ?f s] =>
      let z := fresh "sk" in let Hz := fresh "Hsk" in
      pose proof (mv_skip_bytes t f s W) as Hz;
      set (z := skip_bytes f s) in *; clearbody z; destruct Hz as (? & ? & ?)
    | _ : context [skip_bytes ?f s] |- _ =>
      let z := fresh "sk" in let Hz := fresh "Hsk" in
      pose proof (mv_skip_bytes t f s W) as Hz;
      set (z := skip_bytes f s) in *; clearbody z; destruct Hz as (? & ? & ?)
    end
  end.

(* [lem : f .. s = Ok r -> wfl s -> (A /\ B /\ C)] *)
Ltac fwd H lem :=
  eapply lem in H; [ | eassumption ];
  repeat match type of H with _ /\ _ => let H' := fresh "Hm" in destruct H as [H' H] end.

Ltac mvfin := unfold mvk in *; split; [assumption | split; lia].

Ltac fwdm H lem :=
  eapply lem in H; [ | eassumption ]; unfold mvk in H;
  repeat match type of H with _ /\ _ => let H' := fresh "Hm" in destruct H as [H' H] end.

Ltac pfw0 :=
  idtac; match goal with
  | W : wfl _ ?s, H : advance _ ?s = Ok _ |- _ => fwdm H mv_advance
  end.

Ltac run_with p := bsteps; repeat first [progress gen_skips | p]; try mvfin.


Lemma mv_consume_byte text c s s' : consume_byte text c s = Ok s' -> wfl text s -> mvk text 1 s s'.
Proof. unfold consume_byte. intros H W. run_with pfw0. Qed.

Lemma mv_try_consume_byte text c s b s' : try_consume_byte c s = (b, s') -> wfl text s ->
  mvk text (if b then 1 else 0) s s'.
Proof.
  unfold try_consume_byte. intros H W.
  destruct (curr_byte_opt s); [|inversion H; subst; apply mvk_refl; assumption].
  destruct (n =? c); [|inversion H; subst; apply mvk_refl; assumption].
  destruct (advance 1 s) eqn:E; inversion H; subst; try (apply mvk_refl; assumption).
  fwdm E mv_advance. mvfin.
Qed.

Lemma mv_skip_string text p s s' : skip_string text p s = Ok s' -> wfl text s -> mvk text 0 s s'.
Proof. unfold skip_string. intros H W. run_with pfw0. Qed.

Lemma mv_consume_bytes text f s sl s' : consume_bytes text f s = Ok (sl, s') -> wfl text s -> mvk text 0 s s'.
Proof. unfold consume_bytes. intros H W. run_with pfw0. Qed.

Lemma mv_consume_spaces text s s' : consume_spaces text s = Ok s' -> wfl text s -> mvk text 0 s s'.
Proof. unfold consume_spaces. intros H W. run_with pfw0. Qed.

Lemma mv_advance_until2 text a b s s' : advance_until2 a b s = Ok s' -> wfl text s -> mvk text 0 s s'.
Proof. unfold advance_until2. intros H W. run_with pfw0. Qed.

Lemma next_char_len s c n : next_char s = Ok (Some (c, n)) -> 1 <= n.
Proof. unfold next_char. intros H. bsteps. eapply decode1_len; eauto. Qed.

Lemma mv_skip_chars_loop text fuel : forall f s s', skip_chars_loop text fuel f s = Ok s' -> wfl text s ->
  mvk text 0 s s' /\ (s' = s \/ s_pos s < s_pos s').
Proof.
  induction fuel; intros f s s' H W; [discriminate|].
  cbn [skip_chars_loop] in H. bsteps; try (split; [apply mvk_refl; assumption | left; reflexivity]).
  apply next_char_len in Hb. fwdm Hb0 mv_advance.
  apply IHfuel in H; [|assumption]. destruct H as [(? & ? & ?) _].
  split; [mvfin | right; lia].
Qed.

Lemma mv_skip_chars text f s s' : skip_chars text f s = Ok s' -> wfl text s ->
  mvk text 0 s s' /\ (s' = s \/ s_pos s < s_pos s').
Proof. unfold skip_chars. apply mv_skip_chars_loop. Qed.

Lemma mv_skip_chars0 text f s s' : skip_chars text f s = Ok s' -> wfl text s -> mvk text 0 s s'.
Proof. intros H W. eapply mv_skip_chars in H; [|eassumption]; tauto. Qed.

Lemma mv_consume_chars text f s sl s' : consume_chars text f s = Ok (sl, s') -> wfl text s ->
  mvk text 0 s s' /\ (s' = s \/ s_pos s < s_pos s').
Proof.
  unfold consume_chars. intros H W. bsteps. eapply mv_skip_chars in Hb; eassumption.
Qed.

Lemma mv_consume_chars0 text f s sl s' : consume_chars text f s = Ok (sl, s') -> wfl text s -> mvk text 0 s s'.
Proof. intros H W. eapply mv_consume_chars in H; [|eassumption]; tauto. Qed.

Lemma mv_skip_name_loop text fuel : forall s s', skip_name_loop fuel s = Ok s' -> wfl text s -> mvk text 0 s s'.
Proof.
  induction fuel; intros s s' H W; [discriminate|].
  cbn [skip_name_loop] in H. bsteps; try (apply mvk_refl; assumption).
  fwdm Hb0 mv_advance. apply IHfuel in H; [|assumption]. destruct H as (? & ? & ?). mvfin.
Qed.

Lemma mv_skip_name text s s' : skip_name text s = Ok s' -> wfl text s -> mvk text 0 s s'.
Proof.
  unfold skip_name. intros H W. bsteps; try (apply mvk_refl; assumption).
  fwdm Hb0 mv_advance. eapply mv_skip_name_loop in H; [|eassumption]. destruct H as (? & ? & ?). mvfin.
Qed.

Ltac pfw1 :=
  idtac; first [ pfw0 |
  match goal with
  | W : wfl _ ?s, H : consume_byte _ _ ?s = Ok _ |- _ => fwdm H mv_consume_byte
  | W : wfl _ ?s, H : try_consume_byte _ ?s = (_, _) |- _ => fwdm H mv_try_consume_byte
  | W : wfl _ ?s, H : skip_string _ _ ?s = Ok _ |- _ => fwdm H mv_skip_string
  | W : wfl _ ?s, H : consume_bytes _ _ ?s = Ok _ |- _ => fwdm H mv_consume_bytes
  | W : wfl _ ?s, H : consume_spaces _ ?s = Ok _ |- _ => fwdm H mv_consume_spaces
  | W : wfl _ ?s, H : advance_until2 _ _ ?s = Ok _ |- _ => fwdm H mv_advance_until2
  | W : wfl _ ?s, H : skip_chars _ _ ?s = Ok _ |- _ => fwdm H mv_skip_chars0
  | W : wfl _ ?s, H : consume_chars _ _ ?s = Ok _ |- _ => fwdm H mv_consume_chars0
  | W : wfl _ ?s, H : skip_name _ ?s = Ok _ |- _ => fwdm H mv_skip_name
  end ].

Lemma mv_consume_name text s sl s' : consume_name text s = Ok (sl, s') -> wfl text s -> mvk text 0 s s'.
Proof. unfold consume_name. intros H W. run_with pfw1. Qed.

Lemma mv_consume_qname_loop text fuel : forall st sp s sp' s',
  consume_qname_loop text fuel st sp s = Ok (sp', s') -> wfl text s -> mvk text 0 s s'.
Proof.
  induction fuel; intros st sp s sp' s' H W; [discriminate|].
  cbn [consume_qname_loop] in H. bsteps; try (apply mvk_refl; assumption);
  repeat pfw1;
  (apply IHfuel in H; [|assumption]); destruct H as (? & ? & ?); mvfin.
Qed.

Lemma mv_consume_qname text s p l s' : consume_qname text s = Ok (p, l, s') -> wfl text s -> mvk text 0 s s'.
Proof.
  unfold consume_qname. intros H W. bsteps;
  (eapply mv_consume_qname_loop in Hb; [|eassumption]); exact Hb.
Qed.

Lemma mv_consume_eq text s s' : consume_eq text s = Ok s' -> wfl text s -> mvk text 0 s s'.
Proof. unfold consume_eq. intros H W. run_with pfw1. Qed.

Lemma mv_consume_quote text s q s' : consume_quote text s = Ok (q, s') -> wfl text s -> mvk text 0 s s'.
Proof. unfold consume_quote. intros H W. run_with pfw1. Qed.

Ltac pfw2 :=
  idtac; first [ pfw1 |
  match goal with
  | W : wfl _ ?s, H : consume_name _ ?s = Ok _ |- _ => fwdm H mv_consume_name
  | W : wfl _ ?s, H : consume_qname _ ?s = Ok _ |- _ => fwdm H mv_consume_qname
  | W : wfl _ ?s, H : consume_eq _ ?s = Ok _ |- _ => fwdm H mv_consume_eq
  | W : wfl _ ?s, H : consume_quote _ ?s = Ok _ |- _ => fwdm H mv_consume_quote
  end ].

(* a successful reference consumed at least "&" and ";" *)
Lemma mv_consume_reference text s r s' : consume_reference text s = Ok (Some (r, s')) -> wfl text s ->
  mvk text 2 s s'.
Proof.
  unfold consume_reference. intros H W. run_with pfw2;
  repeat match goal with b : bool |- _ => destruct b end; try discriminate; mvfin.
Qed.



Lemma mv_parse_attribute text s p l s' : parse_attribute text s = Ok (p, l, s') -> wfl text s -> mvk text 0 s s'.
Proof. unfold parse_attribute. intros H W. run_with pfw2. Qed.

Lemma mv_parse_pseudo_attribute text name s s' : parse_pseudo_attribute text name s = Ok s' -> wfl text s ->
  mvk text 0 s s'.
Proof.
  unfold parse_pseudo_attribute. intros H W. bsteps. eapply mv_parse_attribute; eassumption.
Qed.

Lemma mv_parse_external_literal text s s' : parse_external_literal text s = Ok s' -> wfl text s -> mvk text 0 s s'.
Proof. unfold parse_external_literal. intros H W. run_with pfw2. Qed.

Lemma mv_parse_pubid_literal text s s' : parse_pubid_literal text s = Ok s' -> wfl text s -> mvk text 0 s s'.
Proof. unfold parse_pubid_literal. intros H W. run_with pfw2. Qed.

Lemma mv_decl_consume_spaces text s s' : decl_consume_spaces text s = Ok s' -> wfl text s -> mvk text 0 s s'.
Proof. unfold decl_consume_spaces. intros H W. run_with pfw2; apply mvk_refl; assumption. Qed.

Ltac pfw3 :=
  idtac; first [ pfw2 |
  match goal with
  | W : wfl _ ?s, H : parse_attribute _ ?s = Ok _ |- _ => fwdm H mv_parse_attribute
  | W : wfl _ ?s, H : parse_pseudo_attribute _ _ ?s = Ok _ |- _ => fwdm H mv_parse_pseudo_attribute
  | W : wfl _ ?s, H : parse_external_literal _ ?s = Ok _ |- _ => fwdm H mv_parse_external_literal
  | W : wfl _ ?s, H : parse_pubid_literal _ ?s = Ok _ |- _ => fwdm H mv_parse_pubid_literal
  | W : wfl _ ?s, H : decl_consume_spaces _ ?s = Ok _ |- _ => fwdm H mv_decl_consume_spaces
  end ].

Lemma mv_parse_declaration text s s' : parse_declaration text s = Ok s' -> wfl text s -> mvk text 0 s s'.
Proof. unfold parse_declaration. intros H W. run_with pfw3. Qed.

Lemma mv_parse_external_id text s b s' : parse_external_id text s = Ok (b, s') -> wfl text s -> mvk text 0 s s'.
Proof. unfold parse_external_id. intros H W. run_with pfw3; apply mvk_refl; assumption. Qed.

Ltac pfw4 :=
  idtac; first [ pfw3 |
  match goal with
  | W : wfl _ ?s, H : parse_external_id _ ?s = Ok _ |- _ => fwdm H mv_parse_external_id
  end ].

Lemma mv_parse_entity_def text s g o s' : parse_entity_def text s g = Ok (o, s') -> wfl text s -> mvk text 0 s s'.
Proof. unfold parse_entity_def. intros H W. run_with pfw4. Qed.

Lemma mv_consume_decl_loop text fuel : forall s s', consume_decl_loop text fuel s = Ok s' -> wfl text s ->
  mvk text 0 s s'.
Proof.
  induction fuel; intros s s' H W; [discriminate|].
  cbn [consume_decl_loop] in H. run_with pfw4.
  apply IHfuel in H; [|assumption]. destruct H as (? & ? & ?). mvfin.
Qed.

Lemma mv_consume_decl text s s' : consume_decl text s = Ok s' -> wfl text s -> mvk text 0 s s'.
Proof. unfold consume_decl. apply mv_consume_decl_loop. Qed.

Lemma mv_parse_doctype_start text s s' : parse_doctype_start text s = Ok s' -> wfl text s -> mvk text 0 s s'.
Proof. unfold parse_doctype_start. intros H W. run_with pfw4. Qed.


Ltac pfw :=
  idtac; first [ pfw2 |
  match goal with
  | W : wfl _ ?s, H : parse_attribute _ ?s = Ok _ |- _ => fwdm H mv_parse_attribute
  | W : wfl _ ?s, H : parse_pseudo_attribute _ _ ?s = Ok _ |- _ => fwdm H mv_parse_pseudo_attribute
  | W : wfl _ ?s, H : parse_external_literal _ ?s = Ok _ |- _ => fwdm H mv_parse_external_literal
  | W : wfl _ ?s, H : parse_pubid_literal _ ?s = Ok _ |- _ => fwdm H mv_parse_pubid_literal
  | W : wfl _ ?s, H : decl_consume_spaces _ ?s = Ok _ |- _ => fwdm H mv_decl_consume_spaces
  | W : wfl _ ?s, H : parse_declaration _ ?s = Ok _ |- _ => fwdm H mv_parse_declaration
  | W : wfl _ ?s, H : parse_external_id _ ?s = Ok _ |- _ => fwdm H mv_parse_external_id
  | W : wfl _ ?s, H : parse_entity_def _ ?s _ = Ok _ |- _ => fwdm H mv_parse_entity_def
  | W : wfl _ ?s, H : consume_decl _ ?s = Ok _ |- _ => fwdm H mv_consume_decl
  | W : wfl _ ?s, H : parse_doctype_start _ ?s = Ok _ |- _ => fwdm H mv_parse_doctype_start
  | W : wfl _ ?s, H : consume_reference _ ?s = Ok (Some _) |- _ => fwdm H mv_consume_reference
  end ].
