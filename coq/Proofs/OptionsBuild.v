(* OptionsBuild.v -- the builder (Context) side of the option theorems:
   unary facts (options never change, the node count only grows and stays under the limit)
   and the binary relation between two runs that differ only in their options. *)
From Coq Require Import Ascii String.
From Coq Require Import Lia ZifyBool ZifyN ZifyNat.
From RX Require Import Generated.
From RX.Model Require Import Base CharClass Stream Tokenizer Doc Builder Parse.
From RX.Proofs Require Import Tactics OptionsParam.

Definition set_opt (o : options) (c : context) : context :=
  {| c_opt := o; c_ns_start_idx := c_ns_start_idx c; c_cur_attrs := c_cur_attrs c;
     c_awaiting := c_awaiting c; c_parent_prefixes := c_parent_prefixes c;
     c_entities := c_entities c; c_after_text := c_after_text c; c_parent_id := c_parent_id c;
     c_tag_name := c_tag_name c; c_entity_floor := c_entity_floor c; c_ld := c_ld c;
     c_doc := c_doc c |}.

Definition cnt (c : context) : N := len_N (d_nodes (c_doc c)).

(* what every successful builder step does to (options, node count) *)
Definition step_ok (c c' : context) : Prop :=
  c_opt c' = c_opt c /\ cnt c <= cnt c' /\ cnt c' <= N.max (cnt c) (nodes_limit (c_opt c)).

Lemma step_ok_refl c : step_ok c c.
Proof. unfold step_ok. repeat split; lia. Qed.

Lemma step_ok_trans c1 c2 c3 : step_ok c1 c2 -> step_ok c2 c3 -> step_ok c1 c3.
Proof.
  unfold step_ok. intros (H1 & H2 & H3) (H4 & H5 & H6). rewrite H1 in *.
  repeat split; try congruence; lia.
Qed.

Ltac cproj :=
  cbn [c_opt c_ns_start_idx c_cur_attrs c_awaiting c_parent_prefixes c_entities c_after_text
       c_parent_id c_tag_name c_entity_floor c_ld c_doc set_doc set_ns_start_idx set_cur_attrs
       set_awaiting set_parent_prefixes set_entities set_after_text set_parent_id set_tag_name
       set_entity_floor set_ld set_opt d_nodes d_attrs d_ns_values d_ns_tree set_nodes
       set_attrs] in *.

Ltac fw1 lem := match goal with H : _ = Ok _ |- _ => apply lem in H end.

(* close a goal [step_ok c c'] from [step_ok] / length / [d_nodes] facts *)
Ltac so_solve :=
  unfold step_ok, cnt, len_N in *; cproj;
  repeat match goal with H : _ /\ _ |- _ => destruct H end;
  repeat match goal with H : d_nodes _ = d_nodes _ |- _ => rewrite H in *; clear H end;
  repeat match goal with H : c_opt _ = c_opt _ |- _ => rewrite H in *; clear H end;
  repeat split; try reflexivity; try lia.

Lemma list_upd_len {A} (l : list A) i f l' : list_upd l i f = Some l' -> length l' = length l.
Proof.
  revert i l'. induction l; intros i l' H; destruct i; cbn in H; try discriminate.
  - inversion H; reflexivity.
  - destruct (list_upd l i f) eqn:E; [|discriminate]. inversion H. cbn. f_equal. eauto.
Qed.

Lemma upd_node_len nodes i f l : upd_node nodes i f = Ok l -> length l = length nodes.
Proof.
  unfold upd_node. destruct (list_upd nodes (N.to_nat i) f) eqn:E; [|discriminate].
  intros H; inversion H; subst. eapply list_upd_len; eauto.
Qed.

Lemma set_next_subtree_all_len ids : forall nodes v l,
  set_next_subtree_all nodes ids v = Ok l -> length l = length nodes.
Proof.
  induction ids; intros nodes v l H; cbn [set_next_subtree_all] in H.
  - inversion H; reflexivity.
  - usteps. apply IHids in H. apply upd_node_len in Hb. lia.
Qed.

Section WithText.
Variable text : bytes.

Lemma push_ns_nodes n u d d' : push_ns text n u d = Ok d' -> d_nodes d' = d_nodes d.
Proof. unfold push_ns. intros H. usteps; reflexivity. Qed.

Lemma push_ref_nodes i d d' : push_ref i d = Ok d' -> d_nodes d' = d_nodes d.
Proof. unfold push_ref. intros H. usteps; reflexivity. Qed.

Lemma resolve_ns_loop_nodes st is : forall d d',
  resolve_ns_loop text st is d = Ok d' -> d_nodes d' = d_nodes d.
Proof.
  induction is; intros d d' H; cbn [resolve_ns_loop] in H.
  - inversion H; reflexivity.
  - usteps; apply IHis in H; try apply push_ref_nodes in Hb2; congruence.
Qed.

Lemma resolve_attrs_loop_nodes nss st l : forall d d',
  resolve_attrs_loop text nss st l d = Ok d' -> d_nodes d' = d_nodes d.
Proof.
  induction l; intros d d' H; cbn [resolve_attrs_loop] in H.
  - inversion H; reflexivity.
  - usteps; apply IHl in H; exact H.
Qed.

Lemma append_node_spec k r c id c' :
  append_node k r c = Ok (id, c') ->
  c_opt c' = c_opt c /\ cnt c' = cnt c + 1 /\ cnt c < nodes_limit (c_opt c).
Proof.
  unfold append_node. intros H. usteps.
  apply upd_node_len in Hb1, Hb2. apply set_next_subtree_all_len in Hb3.
  unfold cnt, len_N in *. cproj. rewrite app_length in *. cbn [length] in *.
  repeat split; lia.
Qed.

Lemma so_append_node k r c id c' : append_node k r c = Ok (id, c') -> step_ok c c'.
Proof. intros H. apply append_node_spec in H. unfold step_ok. destruct H as (? & ? & ?).
  repeat split; try assumption; lia. Qed.

Lemma so_append_text t r c c' : append_text t r c = Ok c' -> step_ok c c'.
Proof. unfold append_text. intros H. usteps; repeat fw1 so_append_node; so_solve. Qed.

Lemma so_merge_text c c' : merge_text text c = Ok c' -> step_ok c c'.
Proof.
  unfold merge_text. intros H. usteps. apply upd_node_len in Hb. so_solve.
Qed.

Lemma so_reset_after_text c c' : reset_after_text text c = Ok c' -> step_ok c c'.
Proof.
  unfold reset_after_text. intros H. usteps; repeat fw1 so_merge_text; so_solve.
Qed.

Lemma so_resolve_namespaces c x c' : resolve_namespaces text c = Ok (x, c') -> step_ok c c'.
Proof.
  unfold resolve_namespaces. intros H. usteps;
  repeat fw1 resolve_ns_loop_nodes; so_solve.
Qed.

Lemma so_resolve_attributes nss c x c' :
  resolve_attributes text nss c = Ok (x, c') -> step_ok c c'.
Proof.
  unfold resolve_attributes. intros H. usteps;
  repeat fw1 resolve_attrs_loop_nodes; so_solve.
Qed.

Lemma so_normalize_attribute v c x c' :
  normalize_attribute text v c = Ok (x, c') -> step_ok c c'.
Proof. unfold normalize_attribute. intros H. usteps; so_solve. Qed.

Lemma so_process_attribute r q e p l v c c' :
  process_attribute text r q e p l v c = Ok c' -> step_ok c c'.
Proof.
  unfold process_attribute. intros H. usteps;
  repeat first [fw1 so_normalize_attribute | fw1 push_ns_nodes]; so_solve.
Qed.

Lemma so_process_element e r c c' : process_element text e r c = Ok c' -> step_ok c c'.
Proof.
  unfold process_element. intros H. usteps;
  repeat first [fw1 so_resolve_namespaces | fw1 so_resolve_attributes | fw1 so_append_node
               | fw1 upd_node_len ]; so_solve.
Qed.

Lemma so_process_cdata t r c c' : process_cdata text t r c = Ok c' -> step_ok c c'.
Proof. unfold process_cdata. intros H. usteps; fw1 so_append_text; assumption. Qed.


(* the loop of process_text, named *)
Definition pt_loop (pc : stream -> context -> res (stream * context)) (r : range) :=
  fix loop (fuel : nat) (s : stream) (buf : text_buffer) (c : context) {struct fuel}
    : res (text_buffer * context) :=
    match fuel with
    | O => OutOfFuel
    | S fu =>
      if at_end s then Ok (buf, c) else
      let! (ch, s) := parse_next_chunk text s (c_entities c) in
      match ch with
      | ChByte x => loop fu s (tb_push_from_text x buf) c
      | ChChar cp =>
        loop fu s (push_char_bytes_text (encode_utf8 cp) (0 <? ld_depth (c_ld c)) buf) c
      | ChText value =>
        let! c := if negb (tb_is_empty buf)
                  then let! bs := tb_finish buf in append_text (CowOwned bs) r c
                  else Ok c in
        let! ld := inc_references text s (c_ld c) in
        let! ld := inc_depth text s ld in
        let c := set_ld c ld in
        let! es := stream_from_substr text (sl_start value) (sl_end value) in
        let prev_tag_name := c_tag_name c in
        let prev_floor := c_entity_floor c in
        let c := set_entity_floor (set_tag_name c tag_name_null) (len_N (c_parent_prefixes c)) in
        let! (_, c) := pc es c in
        if negb (len_N (c_parent_prefixes c) =? c_entity_floor c) then Err UnexpectedEndOfStream
        else
          let c := set_entity_floor (set_tag_name c prev_tag_name) prev_floor in
          let c := set_ld c (dec_depth (c_ld c)) in
          loop fu s tb_new c
      end
    end.

Lemma process_text_with_eq pc t r c :
  process_text_with text pc t r c =
  if negb (existsb (fun x => (x =? 38) || (x =? 13)) (slice_bytes text t))
  then append_text (CowBorrowed t) r c
  else
    let! s0 := stream_from_substr text (fst r) (snd r) in
    let! (buf, c) := pt_loop pc r (S (length (s_rest s0))) s0 tb_new c in
    if negb (tb_is_empty buf)
    then let! bs := tb_finish buf in append_text (CowOwned bs) r c
    else Ok c.
Proof. reflexivity. Qed.

Section PT.
Variable pc : stream -> context -> res (stream * context).
Hypothesis Hpc : forall s c x c', pc s c = Ok (x, c') -> step_ok c c'.

Lemma so_pt_loop r fuel : forall s buf c buf' c',
  pt_loop pc r fuel s buf c = Ok (buf', c') -> step_ok c c'.
Proof.
  induction fuel; intros s buf c buf' c' H; [discriminate|].
  cbn [pt_loop] in H. usteps;
  repeat first [fw1 so_append_text | fw1 Hpc | fw1 IHfuel]; so_solve.
Qed.

Lemma so_process_text_with t r c c' :
  process_text_with text pc t r c = Ok c' -> step_ok c c'.
Proof.
  rewrite process_text_with_eq. intros H. usteps;
  repeat first [fw1 so_append_text | fw1 so_pt_loop]; so_solve.
Qed.
End PT.

Lemma so_token_with ptext tk c c' :
  (forall t r c c', ptext t r c = Ok c' -> step_ok c c') ->
  token_with text ptext tk c = Ok c' -> step_ok c c'.
Proof.
  intros Hpt H. destruct tk; cbn [token_with] in H; usteps;
  repeat first [fw1 so_reset_after_text | fw1 so_append_node | fw1 so_process_attribute
               | fw1 so_process_element | fw1 so_process_cdata | fw1 Hpt]; so_solve.
Qed.

Lemma so_parse_content_lvl lvl : forall s c x c',
  parse_content_lvl text lvl s c = Ok (x, c') -> step_ok c c'.
Proof.
  induction lvl; intros s c x c' H; [discriminate|].
  cbn [parse_content_lvl] in H.
  eapply (u_parse_content text context _ (step_ok c)); [ | exact H | apply step_ok_refl].
  intros tok c1 c1' Hev Hs. eapply step_ok_trans; [exact Hs|].
  eapply so_token_with; [|exact Hev].
  intros t r c2 c2'. apply so_process_text_with. exact IHlvl.
Qed.

Lemma so_token tk c c' : token text tk c = Ok c' -> step_ok c c'.
Proof.
  apply so_token_with. intros t r c2 c2'. apply so_process_text_with.
  apply so_parse_content_lvl.
Qed.

End WithText.

(** * Two runs that differ only in their options *)

Section BinB.
Variable text : bytes.
Variables o1 o2 : options.
Hypothesis Hle : nodes_limit o1 <= nodes_limit o2.

Definition Ro (c1 c2 : context) : Prop := exists c, c1 = set_opt o1 c /\ c2 = set_opt o2 c.
Definition Qo (c2 : context) : Prop := nodes_limit o1 < cnt c2.

Lemma Ro_intro c1 c2 : c1 = set_opt o1 c2 -> c2 = set_opt o2 c2 -> Ro c1 c2.
Proof. intros H1 H2. exists c2. auto. Qed.

Lemma Qo_step c c' : step_ok c c' -> Qo c -> Qo c'.
Proof. unfold Qo, step_ok. intros (_ & H & _) Hq. lia. Qed.

Notation EN := (nodes_limit o1 < nodes_limit o2).
Notation GB := (grel EN NodesLimitReached (prel Ro) (psnd Qo)).
Notation GC := (grel EN NodesLimitReached Ro Qo).

Ltac destructR :=
  repeat match goal with H : Ro _ _ |- _ =>
    let c := fresh "c" in destruct H as [c [-> ->]] end; cproj.

Ltac finR :=
  try (apply Ro_intro; reflexivity);
  try (split; [reflexivity | apply Ro_intro; reflexivity]).

(* side conditions: turn the successful calls into step_ok facts, then arithmetic *)
Ltac qfin := unfold Qo in *; so_solve.

Ltac bcallR lem :=
  eapply grel_bind;
  [ eapply lem; first [eassumption | (apply Ro_intro; reflexivity)]
  | let x1 := fresh "x" in let x2 := fresh "x" in let HP := fresh "HP" in
    intros x1 x2 HP;
    try (match type of x1 with (_ * _)%type => idtac end;
         destruct x1 as [? ?], x2 as [? ?], HP as [? ?]; cbn [fst snd] in *; subst);
    destructR; cbv beta iota
  | ].

Lemma bb_append_node k r c1 c2 : Ro c1 c2 -> GB (append_node k r c1) (append_node k r c2).
Proof.
  intros HR. destructR. unfold append_node. cproj.
  destruct (nodes_limit o1 <=? len_N (d_nodes (c_doc c))) eqn:E1.
  - destruct (nodes_limit o2 <=? len_N (d_nodes (c_doc c))) eqn:E2; [apply gr_err|].
    apply gr_early; [lia|]. intros [id c'] H. unfold psnd, Qo. cbn [snd].
    assert (H' : append_node k r (set_opt o2 c) = Ok (id, c')).
    { unfold append_node. cproj. rewrite E2. exact H. }
    apply append_node_spec in H'. unfold cnt in *. cproj. lia.
  - assert (E2 : nodes_limit o2 <=? len_N (d_nodes (c_doc c)) = false) by lia.
    rewrite E2. repeat bstep. finR.
Qed.

Ltac bgoB callt ih sidet :=
  repeat first [ bstep | ih
               | (callt; [ | side_intro; usteps; sidet; qfin ])
               | progress cproj ].
Ltac noih := fail.
Ltac nocall := fail.
Ltac noside := idtac.

Lemma bb_append_text t r c1 c2 : Ro c1 c2 -> GC (append_text t r c1) (append_text t r c2).
Proof.
  intros HR. destructR. unfold append_text. cproj.
  bgoB ltac:(bcallR bb_append_node) noih noside; finR.
Qed.

Lemma bb_merge_text c1 c2 : Ro c1 c2 -> GC (merge_text text c1) (merge_text text c2).
Proof.
  intros HR. destructR. unfold merge_text. cproj. bgoB nocall noih noside; finR.
Qed.

Lemma bb_reset_after_text c1 c2 :
  Ro c1 c2 -> GC (reset_after_text text c1) (reset_after_text text c2).
Proof.
  intros HR. unfold reset_after_text.
  assert (HR' := HR). destruct HR' as [c [-> ->]]. cproj.
  bgoB ltac:(bcallR bb_merge_text) noih noside; finR.
Qed.

Lemma bb_resolve_namespaces c1 c2 :
  Ro c1 c2 -> GB (resolve_namespaces text c1) (resolve_namespaces text c2).
Proof.
  intros HR. destructR. unfold resolve_namespaces. cproj. bgoB nocall noih noside; finR.
Qed.

Lemma bb_resolve_attributes nss c1 c2 :
  Ro c1 c2 -> GB (resolve_attributes text nss c1) (resolve_attributes text nss c2).
Proof.
  intros HR. destructR. unfold resolve_attributes. cproj. bgoB nocall noih noside; finR.
Qed.

Lemma bb_normalize_attribute v c1 c2 :
  Ro c1 c2 -> GB (normalize_attribute text v c1) (normalize_attribute text v c2).
Proof.
  intros HR. destructR. unfold normalize_attribute. cproj. bgoB nocall noih noside; finR.
Qed.

Lemma bb_process_attribute r q e p l v c1 c2 :
  Ro c1 c2 ->
  GC (process_attribute text r q e p l v c1) (process_attribute text r q e p l v c2).
Proof.
  intros HR. unfold process_attribute.
  bgoB ltac:(bcallR bb_normalize_attribute) noih ltac:(repeat fw1 push_ns_nodes); finR.
Qed.

Ltac so_elem := repeat first [fw1 so_resolve_namespaces | fw1 so_resolve_attributes
                             | fw1 so_append_node | fw1 upd_node_len ].

Lemma bb_process_element e r c1 c2 :
  Ro c1 c2 -> GC (process_element text e r c1) (process_element text e r c2).
Proof.
  intros HR. unfold process_element.
  assert (HR' := HR). destruct HR' as [c [-> ->]]. cproj.
  bgoB ltac:(first [bcallR bb_resolve_namespaces | bcallR bb_resolve_attributes
                   | bcallR bb_append_node]) noih so_elem; finR.
Qed.

Lemma bb_process_cdata t r c1 c2 :
  Ro c1 c2 -> GC (process_cdata text t r c1) (process_cdata text t r c2).
Proof.
  intros HR. unfold process_cdata. destruct (mem_b 13 (slice_bytes text t));
  apply bb_append_text; assumption.
Qed.

Section PTB.
Variable pc : stream -> context -> res (stream * context).
Hypothesis Hpc : forall s c1 c2, Ro c1 c2 -> GB (pc s c1) (pc s c2).
Hypothesis Hpcu : forall s c x c', pc s c = Ok (x, c') -> step_ok c c'.

Ltac so_pt := repeat first [fw1 so_append_text | fw1 Hpcu | fw1 (so_pt_loop text pc Hpcu)].

Lemma bb_pt_loop r fuel : forall s buf c1 c2, Ro c1 c2 ->
  GB (pt_loop text pc r fuel s buf c1) (pt_loop text pc r fuel s buf c2).
Proof.
  induction fuel; intros s buf c1 c2 HR; [apply gr_fuel|].
  destructR. cbn [pt_loop]. cproj.
  bgoB ltac:(first [bcallR bb_append_text | bcallR Hpc])
       ltac:(apply IHfuel; apply Ro_intro; reflexivity) so_pt; finR.
Qed.

Lemma bb_process_text_with t r c1 c2 : Ro c1 c2 ->
  GC (process_text_with text pc t r c1) (process_text_with text pc t r c2).
Proof.
  intros HR. rewrite !process_text_with_eq.
  bgoB ltac:(first [bcallR bb_append_text | bcallR bb_pt_loop])
       ltac:(apply bb_append_text; first [assumption | apply Ro_intro; reflexivity]) so_pt; finR.
Qed.
End PTB.

Lemma bb_token_with ptext tk c1 c2 :
  (forall t r c1 c2, Ro c1 c2 -> GC (ptext t r c1) (ptext t r c2)) ->
  Ro c1 c2 -> GC (token_with text ptext tk c1) (token_with text ptext tk c2).
Proof.
  intros Hpt HR. destruct tk; cbn [token_with];
  try (apply bb_process_attribute; assumption);
  try (apply bb_process_cdata; assumption);
  try (apply Hpt; assumption).
  - bgoB ltac:(first [bcallR bb_reset_after_text | bcallR bb_append_node]) noih
         ltac:(repeat fw1 so_append_node); finR.
  - bgoB ltac:(first [bcallR bb_reset_after_text | bcallR bb_append_node]) noih
         ltac:(repeat fw1 so_append_node); finR.
  - destructR. apply gr_ok. finR.
  - bgoB ltac:(bcallR bb_reset_after_text) noih noside; finR.
  - bgoB ltac:(bcallR bb_reset_after_text)
         ltac:(apply bb_process_element; apply Ro_intro; reflexivity)
         ltac:(repeat fw1 so_process_element); finR.
Qed.

Lemma bb_parse_content_lvl lvl : forall s c1 c2, Ro c1 c2 ->
  GB (parse_content_lvl text lvl s c1) (parse_content_lvl text lvl s c2).
Proof.
  induction lvl; intros s c1 c2 HR; [apply gr_fuel|].
  cbn [parse_content_lvl].
  apply b_parse_content; [ | | exact HR].
  - intros tok d1 d2 Hd. apply bb_token_with; [|exact Hd].
    intros t r e1 e2 He. apply bb_process_text_with; auto.
    apply so_parse_content_lvl.
  - intros tok d d' Hd Hq. eapply Qo_step; [|exact Hq].
    eapply so_token_with; [|exact Hd].
    intros t r e e'. apply so_process_text_with. apply so_parse_content_lvl.
Qed.

Lemma bb_token tk c1 c2 : Ro c1 c2 -> GC (token text tk c1) (token text tk c2).
Proof.
  intros HR. apply bb_token_with; [|exact HR].
  intros t r e1 e2 He. apply bb_process_text_with; auto.
  - apply bb_parse_content_lvl.
  - apply so_parse_content_lvl.
Qed.

Lemma Qo_token tk c c' : token text tk c = Ok c' -> Qo c -> Qo c'.
Proof. intros H. apply Qo_step. eapply so_token; eauto. Qed.

(* the whole tokenizer run on two contexts that differ in their options only *)
Lemma bb_parse_document dtd c1 c2 : Ro c1 c2 ->
  GC (parse_document text context (token text) dtd c1)
     (parse_document text context (token text) dtd c2).
Proof.
  apply b_parse_document.
  - intros tok d1 d2. apply bb_token.
  - intros tok d d'. apply Qo_token.
Qed.

End BinB.
