(* Proofs/CstBuild.v -- C03, builder completeness: the effect of the real callback [Parse.token]
   on the tokens of the productions of Spec/Cst.v.  Every lemma says that the callback succeeds
   and describes the new context: which (parent, kind) rows and which attributes were appended. *)
From Coq Require Import Ascii String.
From Coq Require Import List NArith PeanoNat Bool Lia ZifyBool ZifyN ZifyNat.
Import ListNotations.
From RX Require Import Generated.
From RX.Model Require Import Base CharClass Stream Tokenizer Doc Builder Parse.
From RX.Spec Require Cst.
From RX.Proofs Require Import CstLex.
Open Scope N_scope.

(* ------------------------------------------------------------------------------------------ *)
(* rows: what [view] looks at is the parent and the kind of every node                         *)
(* ------------------------------------------------------------------------------------------ *)

Definition row := (option N * node_kind)%type.
Definition abs_nd (nd : node_data) : row := (nd_parent nd, nd_kind nd).
Definition absn (d : document) : list row := map abs_nd (d_nodes d).

Lemma len_N_app {A} (l r : list A) : len_N (l ++ r) = len_N l + len_N r.
Proof. unfold len_N. rewrite app_length. lia. Qed.

Lemma len_N_map {A B} (f : A -> B) l : len_N (map f l) = len_N l.
Proof. unfold len_N. rewrite map_length. reflexivity. Qed.

Lemma absn_len d : len_N (absn d) = len_N (d_nodes d).
Proof. apply len_N_map. Qed.

Lemma nth_N_lt {A} (l : list A) i : i < len_N l -> nth_N l i = nth_error l (N.to_nat i).
Proof. intros H. unfold nth_N. replace (len_N l <=? i) with false by lia. reflexivity. Qed.

Lemma nth_error_map_inv {A B} (f : A -> B) l i y :
  nth_error (map f l) i = Some y -> exists x, nth_error l i = Some x /\ f x = y.
Proof.
  revert i. induction l as [|a l IH]; intros [|i] H; cbn in H; try discriminate.
  - injection H as <-. exists a. auto.
  - apply IH. exact H.
Qed.

Lemma list_upd_ok {A B} (g : A -> B) (f : A -> A) : (forall x, g (f x) = g x) ->
  forall l i, (i < length l)%nat -> exists l', list_upd l i f = Some l' /\ map g l' = map g l.
Proof.
  intros Hg. induction l as [|x l IH]; intros i Hi; cbn [length] in Hi; [lia|].
  destruct i as [|i]; cbn [list_upd].
  - eexists. split; [reflexivity|]. cbn [map]. rewrite Hg. reflexivity.
  - destruct (IH i) as (l' & E & M); [lia|]. rewrite E. eexists. split; [reflexivity|].
    cbn [map]. rewrite M. reflexivity.
Qed.

Lemma upd_node_ok nodes i f : i < len_N nodes -> (forall nd, abs_nd (f nd) = abs_nd nd) ->
  exists nodes', upd_node nodes i f = Ok nodes' /\ map abs_nd nodes' = map abs_nd nodes.
Proof.
  intros Hi Hf. unfold upd_node.
  destruct (list_upd_ok abs_nd f Hf nodes (N.to_nat i)) as (l' & E & M); [unfold len_N in Hi; lia|].
  rewrite E. eauto.
Qed.

Lemma map_len_N {A B} (f : A -> B) l l' : map f l' = map f l -> len_N l' = len_N l.
Proof. intros H. apply (f_equal (@length B)) in H. rewrite !map_length in H. unfold len_N. lia. Qed.

Lemma set_next_all_ok : forall ids nodes v, Forall (fun i => i < len_N nodes) ids ->
  exists nodes', set_next_subtree_all nodes ids v = Ok nodes' /\ map abs_nd nodes' = map abs_nd nodes.
Proof.
  induction ids as [|i ids IH]; intros nodes v H; cbn [set_next_subtree_all].
  - eauto.
  - inversion H as [|? ? Hi Hr]; subst.
    destruct (upd_node_ok nodes i (fun nd => nd_set_next_subtree nd (Some v)) Hi) as (n1 & E1 & M1);
      [intros nd; reflexivity|].
    rewrite E1. cbn [bind].
    destruct (IH n1 v) as (n2 & E2 & M2).
    { rewrite (map_len_N _ _ _ M1). exact Hr. }
    rewrite E2. exists n2. split; [reflexivity|congruence].
Qed.

Definition room (c : context) : Prop :=
  len_N (d_nodes (c_doc c)) < nodes_limit (c_opt c) /\ len_N (d_nodes (c_doc c)) < u32_max.

Lemma append_node_ok kind r c :
  c_parent_id c < len_N (d_nodes (c_doc c)) ->
  Forall (fun i => i < len_N (d_nodes (c_doc c))) (c_awaiting c) ->
  room c ->
  exists nodes',
    append_node kind r c =
      Ok (len_N (d_nodes (c_doc c)),
          set_awaiting (set_doc c (set_nodes (c_doc c) nodes'))
                       (if is_element_kind kind then [] else [len_N (d_nodes (c_doc c))])) /\
    map abs_nd nodes' = absn (c_doc c) ++ [(Some (c_parent_id c), kind)] /\
    len_N nodes' = len_N (d_nodes (c_doc c)) + 1.
Proof.
  intros Hp Ha [R1 R2]. unfold append_node. cbv zeta.
  replace (nodes_limit (c_opt c) <=? len_N (d_nodes (c_doc c))) with false by lia.
  unfold node_id_new. replace (u32_max <=? len_N (d_nodes (c_doc c))) with false by lia. cbn [bind].
  set (new := {| nd_parent := Some (c_parent_id c); nd_prev_sibling := None; nd_next_subtree := None;
                 nd_last_child := None; nd_kind := kind; nd_range := r |}).
  set (n0 := d_nodes (c_doc c) ++ [new]).
  assert (L0 : len_N n0 = len_N (d_nodes (c_doc c)) + 1) by (unfold n0; rewrite len_N_app; reflexivity).
  assert (M0 : map abs_nd n0 = absn (c_doc c) ++ [(Some (c_parent_id c), kind)]).
  { unfold n0. rewrite map_app. reflexivity. }
  rewrite nth_N_lt by lia.
  destruct (nth_error n0 (N.to_nat (c_parent_id c))) as [pnd|] eqn:Ep.
  2:{ apply nth_error_None in Ep. unfold len_N in *. lia. }
  cbn [bind].
  destruct (upd_node_ok n0 (len_N (d_nodes (c_doc c))) (fun nd => nd_set_prev nd (nd_last_child pnd)))
    as (n1 & E1 & M1); [lia|intros nd; reflexivity|].
  rewrite E1. cbn [bind].
  destruct (upd_node_ok n1 (c_parent_id c) (fun nd => nd_set_last_child nd (Some (len_N (d_nodes (c_doc c))))))
    as (n2 & E2 & M2); [rewrite (map_len_N _ _ _ M1); lia|intros nd; reflexivity|].
  rewrite E2. cbn [bind].
  destruct (set_next_all_ok (c_awaiting c) n2 (len_N (d_nodes (c_doc c)))) as (n3 & E3 & M3).
  { rewrite (map_len_N _ _ _ M2), (map_len_N _ _ _ M1), L0.
    eapply Forall_impl; [|exact Ha]. cbv beta. intros; lia. }
  rewrite E3. cbn [bind]. exists n3. split; [reflexivity|]. split; [congruence|].
  rewrite (map_len_N _ _ _ M3), (map_len_N _ _ _ M2), (map_len_N _ _ _ M1). exact L0.
Qed.

(* ------------------------------------------------------------------------------------------ *)
(* the invariant of the context between two tokens, outside a tag                              *)
(* ------------------------------------------------------------------------------------------ *)

Definition par_kind_ok (k : node_kind) : Prop :=
  match k with KRoot => True | KElement _ _ _ nss => nss = (1, 1) | _ => False end.

Record CI (c : context) : Prop := {
  ci_ns : c_ns_start_idx c = 1;
  ci_tree : len_N (d_ns_tree (c_doc c)) = 1;
  ci_floor : c_entity_floor c = 0;
  ci_cur : c_cur_attrs c = [];
  ci_pp : c_parent_prefixes c <> [];
  ci_pid : c_parent_id c < len_N (d_nodes (c_doc c));
  ci_aw : Forall (fun i => i < len_N (d_nodes (c_doc c))) (c_awaiting c);
  ci_par : exists par k, nth_error (absn (c_doc c)) (N.to_nat (c_parent_id c)) = Some (par, k) /\ par_kind_ok k;
  ci_at : (length (c_after_text c) <= 1)%nat;
  ci_attrs : Forall (fun a => ad_ns_idx a = None) (d_attrs (c_doc c))
}.

(* fields that no token of the fragment changes *)
Definition Keep (c c' : context) : Prop :=
  c_opt c' = c_opt c /\ c_ns_start_idx c' = c_ns_start_idx c /\ c_entities c' = c_entities c /\
  c_entity_floor c' = c_entity_floor c /\ c_ld c' = c_ld c /\
  d_ns_values (c_doc c') = d_ns_values (c_doc c) /\ d_ns_tree (c_doc c') = d_ns_tree (c_doc c).

Lemma Keep_refl c : Keep c c.
Proof. repeat split. Qed.

Lemma Keep_trans c1 c2 c3 : Keep c1 c2 -> Keep c2 c3 -> Keep c1 c3.
Proof. unfold Keep. intuition congruence. Qed.

(* c' is c with rows K and attributes ext appended; awaiting, after_text, tag_name are free *)
Record Step0 (c c' : context) (K : list row) (ext : list attr_data) : Prop := {
  s_keep : Keep c c';
  s_cur : c_cur_attrs c' = c_cur_attrs c;
  s_nodes : absn (c_doc c') = absn (c_doc c) ++ K;
  s_attrs : d_attrs (c_doc c') = d_attrs (c_doc c) ++ ext;
  s_ext : Forall (fun a => ad_ns_idx a = None) ext
}.
Definition Step (c c' : context) (K : list row) (ext : list attr_data) : Prop :=
  Step0 c c' K ext /\ c_parent_id c' = c_parent_id c /\ c_parent_prefixes c' = c_parent_prefixes c.

Lemma Step0_refl c : Step0 c c [] [].
Proof. constructor; try reflexivity; try (rewrite app_nil_r; reflexivity); [apply Keep_refl|constructor]. Qed.

Lemma Step0_trans c1 c2 c3 K1 K2 e1 e2 : Step0 c1 c2 K1 e1 -> Step0 c2 c3 K2 e2 -> Step0 c1 c3 (K1 ++ K2) (e1 ++ e2).
Proof.
  intros [A1 A2 A3 A4 A5] [B1 B2 B3 B4 B5]. constructor.
  - eapply Keep_trans; eassumption.
  - congruence.
  - rewrite B3, A3, app_assoc. reflexivity.
  - rewrite B4, A4, app_assoc. reflexivity.
  - apply Forall_app. auto.
Qed.

Lemma Step_refl c : Step c c [] [].
Proof. split; [apply Step0_refl|auto]. Qed.

Lemma Step_trans c1 c2 c3 K1 K2 e1 e2 : Step c1 c2 K1 e1 -> Step c2 c3 K2 e2 -> Step c1 c3 (K1 ++ K2) (e1 ++ e2).
Proof.
  intros [A [A1 A2]] [B [B1 B2]]. split; [eapply Step0_trans; eassumption|]. split; congruence.
Qed.

Lemma Step0_len c c' K ext : Step0 c c' K ext ->
  len_N (d_nodes (c_doc c')) = len_N (d_nodes (c_doc c)) + len_N K.
Proof. intros H. rewrite <- !absn_len, (s_nodes _ _ _ _ H), len_N_app. reflexivity. Qed.

(* the invariant after a step that keeps the parent *)
Lemma CI_step c c' K ext : CI c -> Step c c' K ext ->
  Forall (fun i => i < len_N (d_nodes (c_doc c'))) (c_awaiting c') ->
  (length (c_after_text c') <= 1)%nat -> CI c'.
Proof.
  intros I [S [P1 P2]] Haw Hat. pose proof (Step0_len _ _ _ _ S) as L.
  destruct (s_keep _ _ _ _ S) as (K1 & K2 & K3 & K4 & K5 & K6 & K7).
  constructor.
  - rewrite K2. apply (ci_ns _ I).
  - rewrite K7. apply (ci_tree _ I).
  - rewrite K4. apply (ci_floor _ I).
  - rewrite (s_cur _ _ _ _ S). apply (ci_cur _ I).
  - rewrite P2. apply (ci_pp _ I).
  - rewrite P1, L. pose proof (ci_pid _ I). lia.
  - exact Haw.
  - destruct (ci_par _ I) as (par & k & E & Hk). exists par, k. split; [|exact Hk].
    rewrite P1, (s_nodes _ _ _ _ S). rewrite nth_error_app1; [exact E|].
    pose proof (ci_pid _ I) as Hp. rewrite <- absn_len in Hp. unfold len_N in Hp. lia.
  - exact Hat.
  - rewrite (s_attrs _ _ _ _ S). apply Forall_app. split; [apply (ci_attrs _ I)|apply (s_ext _ _ _ _ S)].
Qed.

(* ------------------------------------------------------------------------------------------ *)
(* leaves: comments, processing instructions, text                                            *)
(* ------------------------------------------------------------------------------------------ *)

Section Build.
Variable text : bytes.
Hypothesis Hascii : Forall (fun x => x < 128) text.

Lemma reset_after_text_ok c : (length (c_after_text c) <= 1)%nat ->
  reset_after_text text c = Ok (set_after_text c []).
Proof.
  intros H. unfold reset_after_text. destruct c as [o n ca aw pp en at_ pid tn fl ld d].
  cbn [c_after_text] in *. destruct at_ as [|t [|t2 r]]; [reflexivity|reflexivity|cbn [length] in H; lia].
Qed.

Definition tok_ev := Parse.token text.

Lemma leaf_ok kind r c : CI c -> room c -> is_element_kind kind = false ->
  exists c',
    (let! c1 := reset_after_text text c in let! (_, c2) := append_node kind r c1 in Ok c2) = Ok c' /\
    Step c c' [(Some (c_parent_id c), kind)] [] /\ CI c' /\
    c_after_text c' = [] /\ c_tag_name c' = c_tag_name c.
Proof.
  intros I R Hk. rewrite reset_after_text_ok by apply (ci_at _ I). cbn [bind].
  destruct (append_node_ok kind r (set_after_text c [])) as (nodes' & E & M & Ln);
    [apply (ci_pid _ I)|apply (ci_aw _ I)|exact R|].
  rewrite E. cbn [bind]. eexists. split; [reflexivity|].
  assert (S : Step c (set_awaiting (set_doc (set_after_text c [])
                        (set_nodes (c_doc (set_after_text c [])) nodes'))
                        (if is_element_kind kind then [] else [len_N (d_nodes (c_doc (set_after_text c [])))]))
                   [(Some (c_parent_id c), kind)] []).
  { split; [|split; reflexivity]. constructor.
    - repeat split.
    - reflexivity.
    - exact M.
    - cbn. rewrite app_nil_r. reflexivity.
    - constructor. }
  split; [exact S|]. split; [|split; reflexivity].
  eapply CI_step; [exact I|exact S| |cbn; lia].
  rewrite Hk. cbn [c_awaiting set_awaiting c_doc set_doc d_nodes set_nodes].
  constructor; [|constructor]. rewrite Ln. cbn. lia.
Qed.

Lemma tok_comment s r c : CI c -> room c ->
  exists c', tok_ev (TComment s r) c = Ok c' /\ Step c c' [(Some (c_parent_id c), KComment s)] [] /\ CI c' /\
             c_after_text c' = [] /\ c_tag_name c' = c_tag_name c.
Proof. intros I R. apply (leaf_ok (KComment s) r c I R). reflexivity. Qed.

Lemma tok_pi t v r c : CI c -> room c ->
  exists c', tok_ev (TPI t v r) c = Ok c' /\ Step c c' [(Some (c_parent_id c), KPI t v)] [] /\ CI c' /\
             c_after_text c' = [] /\ c_tag_name c' = c_tag_name c.
Proof. intros I R. apply (leaf_ok (KPI t v) r c I R). reflexivity. Qed.

Lemma tok_text t r c : CI c -> room c -> c_after_text c = [] ->
  existsb (fun x => (x =? 38) || (x =? 13)) (slice_bytes text t) = false ->
  exists c', tok_ev (TText t r) c = Ok c' /\
             Step c c' [(Some (c_parent_id c), KText (Borrowed (SIn t)))] [] /\ CI c' /\
             c_tag_name c' = c_tag_name c.
Proof.
  intros I R Hat Hb. unfold tok_ev, Parse.token. cbn [token_with]. unfold process_text, process_text_with.
  cbv zeta. rewrite Hb. cbn [negb]. unfold append_text. rewrite Hat.
  destruct (append_node_ok (KText (Borrowed (SIn t))) r c) as (nodes' & E & M & Ln);
    [apply (ci_pid _ I)|apply (ci_aw _ I)|exact R|].
  rewrite E. cbn [bind]. eexists. split; [reflexivity|].
  match goal with |- Step c ?c' _ _ /\ _ => assert (S : Step c c' [(Some (c_parent_id c), KText (Borrowed (SIn t)))] []) end.
  { split; [|split; reflexivity]. constructor.
    - repeat split.
    - reflexivity.
    - exact M.
    - cbn. rewrite app_nil_r. reflexivity.
    - constructor. }
  split; [exact S|]. split; [|reflexivity].
  eapply CI_step; [exact I|exact S| |cbn; rewrite Hat; cbn; lia].
  cbn [c_awaiting set_awaiting set_after_text c_doc set_doc d_nodes set_nodes is_element_kind].
  constructor; [|constructor]. rewrite Ln. cbn. lia.
Qed.


(* ------------------------------------------------------------------------------------------ *)
(* attributes                                                                                 *)
(* ------------------------------------------------------------------------------------------ *)

Definition ta_of (q : N) (a : Cst.attr) : temp_attr :=
  let start := q + blen (Cst.a_ws a) in
  let ne := start + blen (Cst.a_name a) in
  let eqe := ne + blen (Cst.a_ws1 a) + 1 + blen (Cst.a_ws2 a) in
  let vs := eqe + 1 in
  let ve := vs + blen (Cst.a_value a) in
  {| ta_prefix := sl start start; ta_local := sl start ne; ta_value := Borrowed (SIn (sl vs ve));
     ta_range := (start, ve + 1); ta_qname_len := N.min (ne - start) qname_len_sat;
     ta_eq_len := N.min (eqe - ne) eq_len_sat |}.

Fixpoint tas (q : N) (attrs : list Cst.attr) : list temp_attr :=
  match attrs with [] => [] | a :: r => ta_of q a :: tas (q + blen (Cst.r_attr a)) r end.

Lemma slice_empty a : slice_bytes text (sl a a) = [].
Proof. unfold slice_bytes, sl, sub. cbn [sl_start sl_end]. rewrite N.sub_diag. reflexivity. Qed.

Lemma attr_slices q a more : W text q (Cst.r_attr a ++ more) ->
  let start := q + blen (Cst.a_ws a) in
  let ne := start + blen (Cst.a_name a) in
  let eqe := ne + blen (Cst.a_ws1 a) + 1 + blen (Cst.a_ws2 a) in
  let vs := eqe + 1 in
  let ve := vs + blen (Cst.a_value a) in
  slice_bytes text (sl start ne) = Cst.a_name a /\ slice_bytes text (sl vs ve) = Cst.a_value a.
Proof.
  intros HW. cbv zeta. unfold Cst.r_attr in HW. rewrite <- !app_assoc in HW.
  pose proof (W_app _ _ _ _ HW) as H1. pose proof (W_app _ _ _ _ H1) as H2.
  pose proof (W_app _ _ _ _ H2) as H3. pose proof (W_app _ _ _ _ H3) as H4.
  pose proof (W_app _ _ _ _ H4) as H5. pose proof (W_app _ _ _ _ H5) as H6.
  change (blen [61]) with 1 in *. change (blen [Cst.a_quote a]) with 1 in *.
  split; [apply (W_slice _ _ _ _ H1)|apply (W_slice _ _ _ _ H6)].
Qed.

Lemma bytes_eqb_neq : forall x y, x <> y -> bytes_eqb x y = false.
Proof.
  induction x as [|a x IH]; intros [|c y] H; cbn [bytes_eqb]; try reflexivity; [congruence|].
  destruct (a =? c) eqn:E; [|reflexivity]. apply N.eqb_eq in E. subst c. cbn [andb].
  apply IH. congruence.
Qed.

Lemma bytes_eqb_refl : forall x, bytes_eqb x x = true.
Proof. induction x as [|a x IH]; cbn [bytes_eqb]; [reflexivity|]. rewrite N.eqb_refl. exact IH. Qed.

Definition not_xmlns (a : Cst.attr) : bool :=
  negb (if list_eq_dec N.eq_dec (Cst.a_name a) [120; 109; 108; 110; 115] then true else false).

Lemma tok_attr q a more c : W text q (Cst.r_attr a ++ more) -> Cst.wf_attr a = true -> not_xmlns a = true ->
  tok_ev (attr_tok q a) c = Ok (set_cur_attrs c (c_cur_attrs c ++ [ta_of q a])).
Proof.
  intros HW Hwf Hx. destruct (attr_slices _ _ _ HW) as [S1 S2]. cbv zeta in S1, S2.
  destruct (wf_attr_parts _ Hwf) as (_ & _ & _ & _ & _ & _ & Hv).
  unfold tok_ev, Parse.token, attr_tok. cbv zeta. cbn [token_with].
  unfold process_attribute, normalize_attribute. cbv zeta. rewrite S2.
  replace (existsb (fun x => (x =? 38) || (x =? 9) || (x =? 10) || (x =? 13)) (Cst.a_value a)) with false.
  2:{ symmetry. clear - Hv. induction (Cst.a_value a) as [|x v IH]; [reflexivity|].
      cbn [forallb existsb] in *. apply andb_true_iff in Hv. destruct Hv as [H1 H2]. rewrite IH by exact H2.
      assert (Hp : Cst.is_plain x = true) by lia. destruct (plain_char _ Hp) as (_ & _ & H13). lia. }
  cbn [bind]. rewrite slice_empty, S1.
  change (bytes_eqb [] xmlns_str) with false. cbv iota.
  rewrite bytes_eqb_neq.
  2:{ unfold not_xmlns in Hx. destruct (list_eq_dec N.eq_dec (Cst.a_name a) [120; 109; 108; 110; 115]); [discriminate|].
      exact n. }
  rewrite ?andb_false_r. reflexivity.
Qed.

Lemma attrs_evs more : forall attrs q c,
  W text q (flat_map Cst.r_attr attrs ++ more) -> forallb Cst.wf_attr attrs = true ->
  forallb not_xmlns attrs = true ->
  evs context tok_ev (attr_toks q attrs) c = Ok (set_cur_attrs c (c_cur_attrs c ++ tas q attrs)).
Proof.
  induction attrs as [|a attrs IH]; intros q c HW Hwf Hx; cbn [attr_toks evs tas].
  - rewrite app_nil_r. destruct c; reflexivity.
  - cbn [forallb] in Hwf, Hx. apply andb_true_iff in Hwf. destruct Hwf as [Hw1 Hw2].
    apply andb_true_iff in Hx. destruct Hx as [Hx1 Hx2].
    cbn [flat_map] in HW. rewrite <- app_assoc in HW.
    rewrite (tok_attr q a _ c HW Hw1 Hx1). cbn [bind].
    rewrite IH; [|apply (W_app _ _ _ _ HW)|exact Hw2|exact Hx2].
    cbn [c_cur_attrs set_cur_attrs]. rewrite <- app_assoc. reflexivity.
Qed.

Lemma tas_names more : forall attrs q, W text q (flat_map Cst.r_attr attrs ++ more) ->
  map (fun t => slice_bytes text (ta_local t)) (tas q attrs) = map Cst.a_name attrs /\
  map (fun t => storage_bytes text (ta_value t)) (tas q attrs) = map Cst.a_value attrs /\
  Forall (fun t => slice_bytes text (ta_prefix t) = []) (tas q attrs).
Proof.
  induction attrs as [|a attrs IH]; intros q HW; cbn [tas map]; [repeat split; constructor|].
  cbn [flat_map] in HW. rewrite <- app_assoc in HW.
  destruct (attr_slices _ _ _ HW) as [S1 S2]. cbv zeta in S1, S2.
  destruct (IH _ (W_app _ _ _ _ HW)) as (I1 & I2 & I3).
  unfold ta_of. cbv zeta. cbn [ta_local ta_value ta_prefix storage_bytes str_bytes].
  rewrite S1, S2, I1, I2. repeat split. constructor; [apply slice_empty|exact I3].
Qed.

(* ---- resolve_attributes ---- *)

Definition ad_of (t : temp_attr) : attr_data :=
  {| ad_ns_idx := None; ad_local := ta_local t; ad_value := ta_value t; ad_range := ta_range t;
     ad_qname_len := ta_qname_len t; ad_eq_len := ta_eq_len t |}.

Lemma any_same_name_none d nm : forall L, Forall (fun a => ad_ns_idx a = None) L ->
  ~ In nm (map (fun a => slice_bytes text (ad_local a)) L) ->
  any_same_name text d L (None, nm) = Ok false.
Proof.
  induction L as [|a L IH]; intros HF Hn; cbn [any_same_name]; [reflexivity|].
  inversion HF as [|? ? Ha HF']; subst. rewrite Ha. cbn [attr_expanded_name bind fst snd opt_str_eqb andb].
  cbn [map In] in Hn. rewrite bytes_eqb_neq by (intros E; apply Hn; left; exact E).
  apply IH; [exact HF'|]. intros K. apply Hn. right. exact K.
Qed.

Lemma skipn_base {A} (base acc : list A) n : n = length base -> skipn n (base ++ acc) = acc.
Proof. intros ->. apply skipn_len_app. Qed.

Lemma resolve_attrs_loop_ok nss start base : N.to_nat start = length base ->
  forall l acc d, d_attrs d = base ++ acc ->
  Forall (fun t => slice_bytes text (ta_prefix t) = []) l ->
  Forall (fun a => ad_ns_idx a = None) acc ->
  NoDup (map (fun a => slice_bytes text (ad_local a)) acc ++ map (fun t => slice_bytes text (ta_local t)) l) ->
  resolve_attrs_loop text nss start l d = Ok (set_attrs d (base ++ acc ++ map ad_of l)).
Proof.
  intros Hs. induction l as [|t l IH]; intros acc d Hd Hp Ha Hnd; cbn [resolve_attrs_loop map].
  - rewrite app_nil_r, <- Hd. destruct d; reflexivity.
  - inversion Hp as [|? ? Hp1 Hp2]; subst. rewrite Hp1.
    change (bytes_eqb [] ns_xml_prefix) with false. cbv iota. cbn [bind attr_expanded_name].
    rewrite Hd, (skipn_base base acc) by exact Hs.
    rewrite any_same_name_none; [|exact Ha|].
    2:{ apply NoDup_remove_2 in Hnd. intros K. apply Hnd. apply in_or_app. left. exact K. }
    cbn [bind]. rewrite <- Hd.
    rewrite (IH (acc ++ [ad_of t])).
    + cbn [set_attrs d_nodes d_attrs d_ns_values d_ns_tree]. rewrite <- !app_assoc. reflexivity.
    + cbn [set_attrs d_attrs]. rewrite Hd, <- app_assoc. reflexivity.
    + exact Hp2.
    + apply Forall_app. split; [exact Ha|]. constructor; [reflexivity|constructor].
    + rewrite map_app. cbn [map ad_of ad_local]. rewrite <- app_assoc. cbn [app].
      apply NoDup_remove_1 in Hnd as Hnd1. apply NoDup_remove_2 in Hnd as Hnd2.
      clear - Hnd Hnd1 Hnd2.
      set (X := map (fun a => slice_bytes text (ad_local a)) acc) in *.
      set (Y := map (fun t0 => slice_bytes text (ta_local t0)) l) in *.
      set (x := slice_bytes text (ta_local t)) in *.
      (* NoDup (X ++ x :: Y) is the hypothesis itself *)
      exact Hnd.
Qed.

Definition attr_range (A : list attr_data) (l : list temp_attr) : range :=
  match l with [] => (0, 0) | _ => (len_N A, len_N A + len_N l) end.

Lemma resolve_attributes_ok nss c : Forall (fun t => slice_bytes text (ta_prefix t) = []) (c_cur_attrs c) ->
  NoDup (map (fun t => slice_bytes text (ta_local t)) (c_cur_attrs c)) ->
  len_N (d_attrs (c_doc c)) + len_N (c_cur_attrs c) < u32_max ->
  resolve_attributes text nss c =
    Ok (attr_range (d_attrs (c_doc c)) (c_cur_attrs c),
        set_doc (set_cur_attrs c []) (set_attrs (c_doc c) (d_attrs (c_doc c) ++ map ad_of (c_cur_attrs c)))).
Proof.
  intros Hp Hnd Hlim. unfold resolve_attributes.
  destruct (c_cur_attrs c) as [|t l] eqn:El.
  - cbn [attr_range map]. rewrite app_nil_r.
    destruct c as [o n ca aw pp en at_ pid tn fl ld d]. cbn [c_cur_attrs] in El. subst ca.
    destruct d; reflexivity.
  - replace (u32_max <=? len_N (d_attrs (c_doc c)) + len_N (t :: l)) with false by lia.
    rewrite (resolve_attrs_loop_ok nss (len_N (d_attrs (c_doc c))) (d_attrs (c_doc c)) ltac:(unfold len_N; lia)
               (t :: l) [] (c_doc c)).
    + cbn [bind app]. unfold short_range. cbn [set_attrs d_attrs].
      rewrite len_N_app, len_N_map.
      replace ((u32_max <? len_N (d_attrs (c_doc c))) || (u32_max <? len_N (d_attrs (c_doc c)) + len_N (t :: l)))
        with false by lia.
      cbn [bind attr_range]. reflexivity.
    + cbn. rewrite app_nil_r. reflexivity.
    + exact Hp.
    + constructor.
    + exact Hnd.
Qed.


Lemma resolve_attributes_nil nss c : c_cur_attrs c = [] -> resolve_attributes text nss c = Ok ((0, 0), c).
Proof. intros H. unfold resolve_attributes. rewrite H. reflexivity. Qed.

Lemma tas_len : forall attrs q, len_N (tas q attrs) = len_N attrs.
Proof. induction attrs as [|a attrs IH]; intros q; [reflexivity|]. cbn [tas]. unfold len_N in *. cbn [length]. specialize (IH (q + blen (Cst.r_attr a))). lia. Qed.

Lemma names_distinct_NoDup : forall l, Cst.names_distinct l = true -> NoDup l.
Proof.
  induction l as [|n r IH]; intros H; [constructor|]. cbn [Cst.names_distinct] in H.
  apply andb_true_iff in H. destruct H as [H1 H2]. constructor; [|apply IH; exact H2].
  intros Hin. apply negb_true_iff in H1.
  assert (E : existsb (fun m => if list_eq_dec N.eq_dec n m then true else false) r = true).
  { apply existsb_exists. exists n. split; [exact Hin|]. destruct (list_eq_dec N.eq_dec n n); congruence. }
  congruence.
Qed.

(* ------------------------------------------------------------------------------------------ *)
(* the view of a row                                                                          *)
(* ------------------------------------------------------------------------------------------ *)

Definition attrs_list (A : list attr_data) (r : range) : list (bytes * bytes) :=
  map (fun a => (slice_bytes text (ad_local a), storage_bytes text (ad_value a)))
      (firstn (N.to_nat (snd r - fst r)) (skipn (N.to_nat (fst r)) A)).

Lemma attrs_list_ext A r ext : fst r <= snd r -> snd r <= len_N A ->
  attrs_list (A ++ ext) r = attrs_list A r.
Proof.
  intros H1 H2. unfold attrs_list. f_equal. unfold len_N in H2.
  rewrite skipn_app. rewrite firstn_app.
  replace (N.to_nat (snd r - fst r) - length (skipn (N.to_nat (fst r)) A))%nat with O
    by (rewrite skipn_length; lia).
  cbn [firstn]. rewrite app_nil_r. reflexivity.
Qed.

Lemma attrs_list_new A l :
  attrs_list (A ++ map ad_of l) (attr_range A l) =
  map (fun t => (slice_bytes text (ta_local t), storage_bytes text (ta_value t))) l.
Proof.
  unfold attrs_list, attr_range. destruct l as [|t l]; [reflexivity|].
  cbn [fst snd]. replace (N.to_nat (len_N A)) with (length A) by (unfold len_N; lia).
  rewrite skipn_len_app.
  replace (N.to_nat (len_N A + len_N (t :: l) - len_N A)) with (length (map ad_of (t :: l)))
    by (rewrite map_length; unfold len_N; lia).
  rewrite firstn_len. rewrite map_map. reflexivity.
Qed.

Definition km (A : list attr_data) (rw : row) (tv : N * Cst.vnode) : Prop :=
  fst rw = Some (fst tv) /\
  match snd rw, snd tv with
  | KElement ns local ar nss, Cst.VElem name attrs _ =>
    ns = None /\ slice_bytes text local = name /\ attrs_list A ar = attrs /\
    fst ar <= snd ar /\ snd ar <= len_N A
  | KText s, Cst.VText bs => storage_bytes text s = bs
  | KComment s, Cst.VComment bs => slice_bytes text s = bs
  | KPI t v, Cst.VPI tb vb =>
    slice_bytes text t = tb /\
    match v, vb with
    | Some x, Some y => slice_bytes text x = y
    | None, None => True
    | _, _ => False
    end
  | _, _ => False
  end.

Lemma km_ext A ext rw tv : km A rw tv -> km (A ++ ext) rw tv.
Proof.
  unfold km. intros [H1 H2]. split; [exact H1|].
  destruct (snd rw), (snd tv); try exact H2.
  destruct H2 as (E1 & E2 & E3 & E4 & E5). repeat split; try assumption.
  - rewrite attrs_list_ext by assumption. exact E3.
  - rewrite len_N_app. lia.
Qed.

(* ------------------------------------------------------------------------------------------ *)
(* tags                                                                                       *)
(* ------------------------------------------------------------------------------------------ *)

Lemma CI_intro c c' K ext : CI c -> Step0 c c' K ext -> c_parent_prefixes c' <> [] ->
  c_parent_id c' < len_N (d_nodes (c_doc c')) ->
  (exists par k, nth_error (absn (c_doc c')) (N.to_nat (c_parent_id c')) = Some (par, k) /\ par_kind_ok k) ->
  Forall (fun i => i < len_N (d_nodes (c_doc c'))) (c_awaiting c') ->
  (length (c_after_text c') <= 1)%nat -> CI c'.
Proof.
  intros I S Hpp Hpid Hpar Haw Hat.
  destruct (s_keep _ _ _ _ S) as (K1 & K2 & K3 & K4 & K5 & K6 & K7).
  constructor; try assumption.
  - rewrite K2. apply (ci_ns _ I).
  - rewrite K7. apply (ci_tree _ I).
  - rewrite K4. apply (ci_floor _ I).
  - rewrite (s_cur _ _ _ _ S). apply (ci_cur _ I).
  - rewrite (s_attrs _ _ _ _ S). apply Forall_app. split; [apply (ci_attrs _ I)|apply (s_ext _ _ _ _ S)].
Qed.

Lemma resolve_namespaces_ok c : c_ns_start_idx c = 1 -> len_N (d_ns_tree (c_doc c)) = 1 ->
  c_parent_id c < len_N (d_nodes (c_doc c)) ->
  (exists par k, nth_error (absn (c_doc c)) (N.to_nat (c_parent_id c)) = Some (par, k) /\ par_kind_ok k) ->
  resolve_namespaces text c = Ok ((1, 1), c).
Proof.
  intros H1 H2 H3 (par & k & E & Hk). unfold resolve_namespaces. cbv zeta.
  rewrite nth_N_lt by exact H3.
  apply nth_error_map_inv in E. destruct E as (pnd & E & Ea). rewrite E. cbn [bind].
  unfold abs_nd in Ea. injection Ea as _ Ek. rewrite Ek.
  destruct k; cbn [par_kind_ok] in Hk; try contradiction.
  - unfold ns_range_checked. rewrite H1, H2. reflexivity.
  - rewrite H1, H2. subst nss. reflexivity.
Qed.

Lemma get_ns_ok pos pfx d : len_N (d_ns_tree d) = 1 -> slice_bytes text pfx = [] ->
  get_ns_idx_by_prefix text (1, 1) pos pfx d = Ok None.
Proof.
  intros H1 H2. unfold get_ns_idx_by_prefix. cbv zeta. rewrite H2.
  change (bytes_eqb [] ns_xml_prefix) with false. cbv iota.
  unfold ns_range_slice. rewrite H1. reflexivity.
Qed.

Definition tn_of (p : N) (name : bytes) : tag_name_span :=
  {| tn_prefix := sl (p + 1) (p + 1); tn_name := sl (p + 1) (p + 1 + blen name); tn_pos := p;
     tn_prefix_pos := p + 1 |}.

Definition tn_set (c : context) : Prop := slice_len (tn_name (c_tag_name c)) <> 0.

Lemma start_tag_ok p name attrs ws_end empty post c :
  W text p ([60] ++ name ++ flat_map Cst.r_attr attrs ++ ws_end ++ tag_tail empty ++ post) ->
  name <> [] -> forallb Cst.wf_attr attrs = true -> forallb not_xmlns attrs = true ->
  Cst.names_distinct (map Cst.a_name attrs) = true ->
  CI c -> room c -> len_N (d_attrs (c_doc c)) + len_N attrs < u32_max ->
  let q' := p + 1 + blen name + blen (flat_map Cst.r_attr attrs) + blen ws_end in
  let id := len_N (d_nodes (c_doc c)) in
  exists c' ar,
    (let! c1 := evs context tok_ev (start_toks p name attrs) c in tok_ev (end_tok q' empty) c1) = Ok c' /\
    Step0 c c' [(Some (c_parent_id c), KElement None (sl (p + 1) (p + 1 + blen name)) ar (1, 1))]
          (map ad_of (tas (p + 1 + blen name) attrs)) /\
    (forall m, km (d_attrs (c_doc c')) (Some (c_parent_id c), KElement None (sl (p + 1) (p + 1 + blen name)) ar (1, 1))
       (c_parent_id c, Cst.VElem name (map (fun a => (Cst.a_name a, Cst.a_value a)) attrs) m)) /\
    CI c' /\ c_after_text c' = [] /\ tn_set c' /\
    if empty
    then c_parent_id c' = c_parent_id c /\ c_parent_prefixes c' = c_parent_prefixes c
    else c_parent_id c' = id /\ c_parent_prefixes c' = c_parent_prefixes c ++ [sl (p + 1) (p + 1)] /\
         c_awaiting c' = [].
Proof.
  intros HW Hne Hwf Hx Hnd I R Hlim q' id.
  pose proof (W_app _ _ _ _ HW) as HW1. change (blen [60]) with 1 in HW1.
  pose proof (W_app _ _ _ _ HW1) as HW2.
  destruct (tas_names _ _ _ HW2) as (Tn & Tv & Tp).
  unfold start_toks. cbn [evs].
  (* ElementStart *)
  unfold tok_ev at 1, Parse.token at 1. cbn [token_with].
  rewrite reset_after_text_ok by apply (ci_at _ I). cbn [bind].
  rewrite slice_empty. change (bytes_eqb [] xmlns_str) with false. cbv iota. cbn [bind].
  fold tok_ev. fold (tn_of p name).
  (* attributes *)
  rewrite (attrs_evs _ attrs _ _ HW2 Hwf Hx). cbn [bind].
  cbn [c_cur_attrs set_tag_name set_after_text]. rewrite (ci_cur _ I). cbn [app].
  (* ElementEnd *)
  unfold tok_ev, Parse.token, end_tok. cbn [token_with].
  rewrite reset_after_text_ok by (cbn; lia). cbn [bind].
  unfold process_element.
  cbn [c_tag_name set_after_text set_cur_attrs set_tag_name tn_name tn_of].
  unfold slice_len at 1. cbn [sl sl_start sl_end].
  replace (p + 1 + blen name - (p + 1) =? 0) with false
    by (destruct name; [congruence|rewrite blen_cons; lia]).
  rewrite resolve_namespaces_ok; [|apply (ci_ns _ I)|apply (ci_tree _ I)|apply (ci_pid _ I)|apply (ci_par _ I)].
  cbn [bind].
  rewrite resolve_attributes_ok.
  2:{ cbn. exact Tp. }
  2:{ cbn. rewrite Tn. apply names_distinct_NoDup. exact Hnd. }
  2:{ cbn. rewrite tas_len. exact Hlim. }
  cbn [bind].
  cbn [c_cur_attrs c_doc set_ns_start_idx set_after_text set_cur_attrs set_tag_name set_doc c_tag_name tn_of
       tn_prefix tn_prefix_pos tn_name tn_pos].
  rewrite get_ns_ok; [|cbn; apply (ci_tree _ I)|apply slice_empty].
  set (A := d_attrs (c_doc c)). set (T := tas (p + 1 + blen name) attrs).
  set (ar := attr_range A T).
  set (kind := KElement None (sl (p + 1) (p + 1 + blen name)) ar (1, 1)).
  assert (Hkm : forall m ext, km ((A ++ map ad_of T) ++ ext) (Some (c_parent_id c), kind)
                 (c_parent_id c, Cst.VElem name (map (fun a => (Cst.a_name a, Cst.a_value a)) attrs) m)).
  { intros m ext. apply km_ext. split; [reflexivity|]. cbn [snd kind].
    split; [reflexivity|]. split; [apply (W_slice _ _ _ _ HW1)|]. split.
    - unfold ar. rewrite attrs_list_new. unfold T.
      clear - Tn Tv. revert Tn Tv. generalize (tas (p + 1 + blen name) attrs). intros L. revert L.
      induction attrs as [|a attrs IH]; intros [|t L] Tn Tv; cbn [map] in *; try discriminate; [reflexivity|].
      injection Tn as Tn1 Tn2. injection Tv as Tv1 Tv2. rewrite Tn1, Tv1. f_equal. apply IH; assumption.
    - unfold ar, attr_range. rewrite len_N_app, len_N_map. destruct T; cbn [fst snd]; lia. }
  destruct empty; cbv iota; cbn [bind]; fold kind;
  (match goal with |- context [append_node kind ?r ?cc] =>
    destruct (append_node_ok kind r cc) as (nodes' & E & M & Ln);
      [apply (ci_pid _ I)|apply (ci_aw _ I)|exact R|]; rewrite E; clear E end);
  cbn [bind]; cbn in M, Ln.
  - eexists. exists ar. split; [reflexivity|].
    match goal with |- Step0 c ?c' _ _ /\ _ => assert (S : Step0 c c' [(Some (c_parent_id c), kind)] (map ad_of T)) end.
    { constructor.
      - repeat split; cbn; try reflexivity. rewrite (ci_ns _ I). apply (ci_tree _ I).
      - cbn. symmetry. apply (ci_cur _ I).
      - exact M.
      - reflexivity.
      - clear. induction T; constructor; [reflexivity|assumption]. }
    split; [exact S|]. split.
    { intros m. cbn. rewrite <- (app_nil_r (A ++ map ad_of T)). apply Hkm. }
    split.
    { eapply CI_intro; [exact I|exact S| | | | |].
      - cbn. apply (ci_pp _ I).
      - cbn. rewrite Ln. pose proof (ci_pid _ I). lia.
      - cbn. destruct (ci_par _ I) as (par & k & Ep & Hk). exists par, k. split; [|exact Hk].
        unfold absn. cbn. rewrite M. rewrite nth_error_app1; [exact Ep|].
        pose proof (ci_pid _ I) as Hp. rewrite <- absn_len in Hp. unfold len_N, absn in Hp. lia.
      - cbn. constructor; [|constructor]. rewrite Ln. lia.
      - cbn. lia. }
    split; [reflexivity|]. split.
    { unfold tn_set. cbn. unfold slice_len. cbn. destruct name; [congruence|rewrite blen_cons; lia]. }
    split; reflexivity.
  - eexists. exists ar. split; [reflexivity|].
    match goal with |- Step0 c ?c' _ _ /\ _ => assert (S : Step0 c c' [(Some (c_parent_id c), kind)] (map ad_of T)) end.
    { constructor.
      - repeat split; cbn; try reflexivity. rewrite (ci_ns _ I). apply (ci_tree _ I).
      - cbn. symmetry. apply (ci_cur _ I).
      - exact M.
      - reflexivity.
      - clear. induction T; constructor; [reflexivity|assumption]. }
    split; [exact S|]. split.
    { intros m. cbn. rewrite <- (app_nil_r (A ++ map ad_of T)). apply Hkm. }
    split.
    { eapply CI_intro; [exact I|exact S| | | | |].
      - cbn. destruct (c_parent_prefixes c); discriminate.
      - cbn. rewrite Ln. lia.
      - cbn. exists (Some (c_parent_id c)), kind. split; [|reflexivity].
        unfold absn. cbn. rewrite M.
        replace (N.to_nat (len_N (d_nodes (c_doc c)))) with (length (map abs_nd (d_nodes (c_doc c))))
          by (unfold len_N; rewrite map_length; lia).
        rewrite nth_error_app2 by lia. rewrite Nat.sub_diag. reflexivity.
      - cbn. constructor.
      - cbn. lia. }
    split; [reflexivity|]. split.
    { unfold tn_set. cbn. unfold slice_len. cbn. destruct name; [congruence|rewrite blen_cons; lia]. }
    repeat split.
Qed.

Lemma removelast_snoc {A} (l : list A) x : removelast (l ++ [x]) = l.
Proof. apply removelast_last. Qed.

Lemma close_tag_ok pfx loc r c opid ns lsl ar nss name pp px :
  CI c ->
  nth_error (absn (c_doc c)) (N.to_nat (c_parent_id c)) = Some (Some opid, KElement ns lsl ar nss) ->
  slice_bytes text lsl = name -> slice_bytes text loc = name -> slice_bytes text pfx = [] ->
  c_parent_prefixes c = pp ++ [px] -> pp <> [] -> slice_bytes text px = [] ->
  tn_set c ->
  opid < len_N (d_nodes (c_doc c)) ->
  (exists par k, nth_error (absn (c_doc c)) (N.to_nat opid) = Some (par, k) /\ par_kind_ok k) ->
  exists c', tok_ev (TElementEnd (EClose pfx loc) r) c = Ok c' /\
    Step0 c c' [] [] /\ CI c' /\ c_parent_id c' = opid /\ c_parent_prefixes c' = pp /\
    c_after_text c' = [] /\ c_tag_name c' = c_tag_name c.
Proof.
  intros I Erow Hl Hloc Hpfx Hpp Hppne Hpx Htn Hop Hopar.
  unfold tok_ev, Parse.token. cbn [token_with].
  rewrite reset_after_text_ok by apply (ci_at _ I). cbn [bind].
  unfold process_element. cbn [c_tag_name set_after_text].
  unfold tn_set in Htn. apply N.eqb_neq in Htn. rewrite Htn.
  rewrite resolve_namespaces_ok; [|apply (ci_ns _ I)|apply (ci_tree _ I)|apply (ci_pid _ I)|apply (ci_par _ I)].
  cbn [bind]. rewrite resolve_attributes_nil by (cbn; apply (ci_cur _ I)). cbn [bind].
  cbn [c_parent_prefixes c_entity_floor set_ns_start_idx set_after_text c_doc c_parent_id].
  rewrite (ci_floor _ I), Hpp.
  replace (len_N (pp ++ [px]) <=? 0) with false by (rewrite len_N_app; unfold len_N; cbn; lia).
  rewrite nth_N_lt by apply (ci_pid _ I).
  pose proof Erow as Erow'. apply nth_error_map_inv in Erow'. destruct Erow' as (pnd & Epnd & Eabs).
  rewrite Epnd. cbn [bind]. rewrite rev_unit. cbn [bind].
  destruct (upd_node_ok (d_nodes (c_doc c)) (c_parent_id c) (fun nd => nd_set_range_end nd (snd r)))
    as (nodes' & E & M); [apply (ci_pid _ I)|intros nd; reflexivity|].
  rewrite E. cbn [bind]. unfold abs_nd in Eabs. injection Eabs as Epar Ekind.
  rewrite Ekind, Hpx, Hpfx, Hloc, Hl. cbn [bytes_eqb]. rewrite bytes_eqb_refl. cbn [negb orb bind].
  rewrite Epar. cbn [c_parent_prefixes set_awaiting set_doc set_ns_start_idx set_after_text c_awaiting c_parent_id].
  rewrite Hpp, removelast_snoc.
  destruct pp as [|p0 pp0]; [congruence|].
  eexists. split; [reflexivity|].
  match goal with |- Step0 c ?c' _ _ /\ _ => assert (S : Step0 c c' [] []) end.
  { constructor.
    - repeat split; cbn; try reflexivity. rewrite (ci_ns _ I). apply (ci_tree _ I).
    - reflexivity.
    - unfold absn. cbn. rewrite M, app_nil_r. reflexivity.
    - cbn. rewrite app_nil_r. reflexivity.
    - constructor. }
  split; [exact S|]. split.
  { eapply CI_intro; [exact I|exact S| | | | |].
    - cbn. discriminate.
    - cbn. rewrite (map_len_N _ _ _ M). exact Hop.
    - cbn. unfold absn. cbn. rewrite M. exact Hopar.
    - cbn. rewrite (map_len_N _ _ _ M). apply Forall_app. split; [apply (ci_aw _ I)|].
      constructor; [apply (ci_pid _ I)|constructor].
    - cbn. lia. }
  repeat split.
Qed.

End Build.

Print Assumptions tok_comment.
Print Assumptions tok_pi.
Print Assumptions tok_text.
Print Assumptions start_tag_ok.
Print Assumptions close_tag_ok.
