(* Proofs/StrictApi.v -- the hidden panic sites of the read API are not reached:
   Descendants::{next, nth, next_back} (NodeId::from(self.from + idx)) and the Debug printer
   (print_children: depth - 2). *)
From Coq Require Import Ascii String.
From Coq Require Import List Arith NArith Bool Lia ZifyBool ZifyN ZifyNat.
Import ListNotations.
From RX Require Import Generated.
From RX.Model Require Import Base CharClass Stream Tokenizer Doc Builder Parse Api Debug.
From RX.Spec Require Import Tree.
From RX.Proofs Require Import NavEnc NavLinks.
From RX.Proofs Require Import Tactics NoPanicBuilder ApiTotal.
From RX.Proofs Require Import StrictModel.
Open Scope N_scope.

(* ---------------------------------------------------------------------------------------- *)
(* Debug: depth - 2 is only evaluated for iterators that were pushed with depth + 2          *)
(* ---------------------------------------------------------------------------------------- *)

(* every frame but the bottom one has depth >= 2 *)
Fixpoint DepthOk (l : list (children_it * N)) : Prop :=
  match l with
  | [] => True
  | x :: r => match r with [] => True | _ => 2 <= snd x /\ DepthOk r end
  end.

Lemma DepthOk_top it it' depth rest : DepthOk ((it, depth) :: rest) -> DepthOk ((it', depth) :: rest).
Proof. cbn. destruct rest; auto. Qed.

Lemma DepthOk_tl x rest : DepthOk (x :: rest) -> DepthOk rest.
Proof. cbn. destruct rest; [intros; exact I|intros [_ H]; exact H]. Qed.

Lemma len_N_map_fst {A B} (l : list (A * B)) : len_N (map fst l) = len_N l.
Proof. unfold len_N. rewrite map_length. reflexivity. Qed.

Lemma print_loop_s_eq d : forall fuel stack lines maxh, DepthOk stack ->
  print_loop_s d fuel stack lines maxh = print_loop d fuel (map fst stack) lines maxh.
Proof.
  induction fuel as [|fu IH]; intros stack lines maxh Hd; [reflexivity|].
  cbn [print_loop_s print_loop]. destruct stack as [|[it depth] rest]; [reflexivity|].
  cbn [map fst].
  destruct (children_next d it) as [[o it']| | |]; cbn [bind]; try reflexivity.
  destruct o as [child|].
  - destruct (print_node_lines d child) as [[n descend]| | |]; cbn [bind]; try reflexivity.
    destruct descend.
    + destruct (children d child) as [cit| | |]; cbn [bind]; try reflexivity. cbv zeta.
      rewrite IH.
      * cbn [map fst]. rewrite <- (len_N_map_fst ((cit, depth + 2) :: (it', depth) :: rest)).
        reflexivity.
      * cbn [DepthOk snd]. split; [lia|]. apply (DepthOk_top it it'). exact Hd.
    + rewrite IH; [reflexivity|]. apply (DepthOk_top it it'). exact Hd.
  - destruct rest as [|y r]; cbn [map].
    + apply IH. exact I.
    + cbn [DepthOk snd] in Hd. destruct Hd as [Hd1 Hd2].
      destruct (depth <? 2) eqn:E; [lia|]. apply (IH (y :: r)). exact Hd2.
Qed.

(* site: print_children `depth - 2` -- on every document (parsed or not) *)
Theorem debug_document_s_eq : forall d, debug_document_s d = debug_document d.
Proof.
  intros d. unfold debug_document_s, debug_document.
  destruct (has_children d 0) as [hc| | |]; cbn [bind]; try reflexivity.
  destruct (negb hc); [reflexivity|].
  destruct (children d 0) as [it| | |]; cbn [bind]; try reflexivity.
  rewrite print_loop_s_eq; [reflexivity|exact I].
Qed.
Print Assumptions debug_document_s_eq.

(* ---------------------------------------------------------------------------------------- *)
(* Descendants: the ids given out are smaller than the number of nodes                       *)
(* ---------------------------------------------------------------------------------------- *)

Definition DescInv (d : document) (it : slice_it) : Prop := it_hi it <= len_N (d_nodes d).

Section Desc.
Variable d : document.
Hypothesis Hlen : len_N (d_nodes d) <= u32_max.

Lemma node_id_from_lt k : k < len_N (d_nodes d) -> node_id_from k = Ok k.
Proof.
  intros H. unfold node_id_from, node_id_new.
  destruct (u32_max <? k) eqn:E; [lia|]. destruct (u32_max <=? k) eqn:E2; [lia|]. reflexivity.
Qed.

Lemma desc_item_eq r : (forall k, fst r = Some k -> k < len_N (d_nodes d)) -> desc_item r = Ok r.
Proof.
  intros H. unfold desc_item. destruct r as [[k|] it']; cbn [fst snd] in *; [|reflexivity].
  rewrite node_id_from_lt by auto. reflexivity.
Qed.

Lemma desc_next_s_eq it : DescInv d it ->
  desc_next_s it = Ok (sit_next it) /\ DescInv d (snd (sit_next it)).
Proof.
  unfold DescInv, desc_next_s, sit_next. intros H.
  destruct (it_lo it <? it_hi it) eqn:E; cbn [snd it_hi]; split; auto; apply desc_item_eq;
    cbn [fst]; intros k Hk; inversion Hk; subst; lia.
Qed.

Lemma desc_next_back_s_eq it : DescInv d it ->
  desc_next_back_s it = Ok (sit_next_back it) /\ DescInv d (snd (sit_next_back it)).
Proof.
  unfold DescInv, desc_next_back_s, sit_next_back. intros H.
  destruct (it_lo it <? it_hi it) eqn:E; cbn [snd it_hi]; split; auto; try lia; apply desc_item_eq;
    cbn [fst]; intros k Hk; inversion Hk; subst; lia.
Qed.

Lemma desc_nth_s_eq n it : DescInv d it ->
  desc_nth_s n it = Ok (sit_nth n it) /\ DescInv d (snd (sit_nth n it)).
Proof.
  unfold DescInv, desc_nth_s, sit_nth, sit_len. intros H.
  destruct (n <? it_hi it - it_lo it) eqn:E; cbn [snd it_hi]; split; auto; apply desc_item_eq;
    cbn [fst]; intros k Hk; inversion Hk; subst; lia.
Qed.

Lemma descendants_DescInv id it : descendants d id = Ok it -> DescInv d it.
Proof.
  unfold descendants, DescInv. intros H. apply bind_ok in H as (nd & _ & H).
  destruct (_ || _) eqn:E; [discriminate|]. inversion H; subst. cbn. lia.
Qed.
End Desc.

(* site: Descendants::{next, nth, next_back} -- on a parsed document, from the iterator that
   Node::descendants returns and through any sequence of the three operations *)
Theorem site_descendants_unreachable : forall text opt d id it0,
  valid_utf8_b text = true -> nodes_limit opt <= u32_max -> parse text opt = Ok d ->
  descendants d id = Ok it0 ->
  DescInv d it0 /\
  forall it, DescInv d it ->
    (desc_next_s it = Ok (sit_next it) /\ DescInv d (snd (sit_next it))) /\
    (desc_next_back_s it = Ok (sit_next_back it) /\ DescInv d (snd (sit_next_back it))) /\
    (forall n, desc_nth_s n it = Ok (sit_nth n it) /\ DescInv d (snd (sit_nth n it))).
Proof.
  intros text opt d id it0 Hvalid Hl Hp Hd.
  destruct (parse_facts text opt d Hvalid Hl Hp) as (t & HA & _ & _).
  assert (Hlen : len_N (d_nodes d) <= u32_max).
  { rewrite (arena_len d t HA). destruct HA as [_ H]. unfold u32_max. exact H. }
  split; [eapply descendants_DescInv; eauto|].
  intros it Hit. split; [apply desc_next_s_eq; auto|]. split; [apply desc_next_back_s_eq; auto|].
  intros n. apply desc_nth_s_eq; auto.
Qed.
Print Assumptions site_descendants_unreachable.
