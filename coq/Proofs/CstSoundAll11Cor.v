(* Proofs/CstSoundAll11Cor.v -- the accounting on the UNION [in_fragment_all11] of Proofs/CstSoundAll11.v
   (= in_fragment_11 || in_fragment_8cr2): the two namespace resources of the witness are within the limits, so the tree the
   parser returns is the meaning of the witness under the node / attribute count bounds only.
   - half [in_fragment_11]: [parse_sound_fragment_11_res] of Proofs/CstSound11eCor.v;
   - half [in_fragment_8cr2] (CR inside comments / PI values, no DOCTYPE): [parse_sound_fragment_8cr2_res] of
     Proofs/CstSoundAllCor.v (witness in S8); [s8_in_s11] moves it to S11 (same document: the resources, defined on the S6
     core, are the same). *)
From Coq Require Import String.
From Coq Require Import List NArith Bool Lia ZifyBool ZifyN ZifyNat.
Import ListNotations.
From RX Require Import Generated.
From RX.Model Require Import Base CharClass Stream Tokenizer Doc Builder Parse.
From RX.Spec Require Import CstFull CstFullS4 CstFullS5 CstFullS6 CstFullS7 CstFullS8 CstFullS9 CstFullS10 CstFullS11.
From RX.Proofs Require CstNsView CstSound10Final CstSound11Final CstSound11eCor CstSoundCrFinal CstSoundAllCor.
From RX.Proofs Require Import CstSound CstSoundT CstSoundN CstSoundP CstSound6 CstSound6Sanity CstSound6U.
From RX.Proofs Require Import CstSound7 CstSound8 CstSound9 CstSound10 CstSound11 CstSoundAll CstSoundAll11.
Open Scope N_scope.

Theorem parse_sound_all11_res : forall text opt d,
  in_fragment_all11 text = true -> allow_dtd opt = true -> parse text opt = Ok d ->
  exists c : S6.doc, S11.wf_doc c = true /\ S11.render c = text /\
    S11.distinct_decls_le c (N.to_nat 65535) /\ 1 + N.of_nat (S11.ns_cost c) <= u32_max.
Proof.
  intros text opt d HF Hallow H. unfold in_fragment_all11 in HF. apply orb_true_iff in HF. destruct HF as [HF|HF].
  - exact (CstSound11eCor.parse_sound_fragment_11_res text opt d HF Hallow H).
  - destruct (CstSoundAllCor.parse_sound_fragment_8cr2_res text opt d HF Hallow H) as (c & Hwf & Hr & Hd & Hc).
    destruct (s8_in_s11 c Hwf) as (H11 & R11 & _ & _).
    exists c. split; [exact H11|]. split; [exact (eq_trans R11 Hr)|]. split; [exact Hd|exact Hc].
Qed.
Print Assumptions parse_sound_all11_res.

(* [parse_sound_all11] (Proofs/CstSoundAll11.v) is a corollary *)
Corollary parse_sound_all11_again : forall text opt d,
  in_fragment_all11 text = true -> allow_dtd opt = true -> parse text opt = Ok d ->
  exists c : S6.doc, S11.wf_doc c = true /\ S11.render c = text.
Proof.
  intros text opt d HF Ha H. destruct (parse_sound_all11_res text opt d HF Ha H) as (c & Hwf & Hr & _).
  exists c. split; assumption.
Qed.

Theorem parse_sound_and_complete_all11 : forall text opt d,
  in_fragment_all11 text = true -> allow_dtd opt = true -> parse text opt = Ok d ->
  exists c : S6.doc, S11.wf_doc c = true /\ S11.render c = text /\
    (N.of_nat (length (S11.sem c)) < nodes_limit opt -> N.of_nat (length (S11.sem c)) < u32_max -> N.of_nat (S11.nattrs c) < u32_max ->
     CstNsView.view text d = Some (S11.sem c)).
Proof.
  intros text opt d HF Ha H.
  destruct (parse_sound_all11_res text opt d HF Ha H) as (c & Hwf & Hr & Hd & Hc).
  exists c. split; [exact Hwf|]. split; [exact Hr|]. intros _ L2 L3.
  exact (CstSound11Final.parse_view_of_witness_11 text opt d c H Hwf Hr (fun _ => Ha) L2 L3 Hd Hc).
Qed.
Print Assumptions parse_sound_and_complete_all11.

Theorem parse_sound_and_complete_all11_nl : forall text opt d,
  in_fragment_all11 text = true -> allow_dtd opt = true -> parse text opt = Ok d ->
  exists c : S6.doc, S11.wf_doc c = true /\ S11.render c = text /\
    S11.distinct_decls_le c (N.to_nat 65535) /\ 1 + N.of_nat (S11.ns_cost c) <= u32_max /\
    (N.of_nat (length (S11.sem c)) < u32_max -> N.of_nat (S11.nattrs c) < u32_max -> CstNsView.view text d = Some (S11.sem c)).
Proof.
  intros text opt d HF Ha H.
  destruct (parse_sound_all11_res text opt d HF Ha H) as (c & Hwf & Hr & Hd & Hc).
  exists c. split; [exact Hwf|]. split; [exact Hr|]. split; [exact Hd|]. split; [exact Hc|]. intros L2 L3.
  exact (CstSound11Final.parse_view_of_witness_11 text opt d c H Hwf Hr (fun _ => Ha) L2 L3 Hd Hc).
Qed.
Print Assumptions parse_sound_and_complete_all11_nl.

(* [parse_sound_and_complete_all11_hyp] (Proofs/CstSoundAll11.v) is a corollary *)
Corollary parse_sound_and_complete_all11_hyp_again : forall text opt d,
  in_fragment_all11 text = true -> allow_dtd opt = true -> parse text opt = Ok d ->
  exists c : S6.doc, S11.wf_doc c = true /\ S11.render c = text /\
    (N.of_nat (length (S11.sem c)) < u32_max -> N.of_nat (S11.nattrs c) < u32_max ->
     S11.distinct_decls_le c (N.to_nat 65535) -> 1 + N.of_nat (S11.ns_cost c) <= u32_max ->
     CstNsView.view text d = Some (S11.sem c)).
Proof.
  intros text opt d HF Ha H.
  destruct (parse_sound_and_complete_all11_nl text opt d HF Ha H) as (c & Hwf & Hr & _ & _ & Hv).
  exists c. split; [exact Hwf|]. split; [exact Hr|]. intros L2 L3 _ _. exact (Hv L2 L3).
Qed.

(* ---- the three examples of Proofs/CstSoundAll11.v, with the tree ---- *)
Example exall11_cor_applied :
  forall t, In t [CstSound11Final.ex11_text; CstSoundCrFinal.excr_text; CstSound10Final.ex10_text] ->
  forall d, parse t od = Ok d ->
     exists c : S6.doc, S11.wf_doc c = true /\ S11.render c = t /\
       S11.distinct_decls_le c (N.to_nat 65535) /\ 1 + N.of_nat (S11.ns_cost c) <= u32_max /\
       (N.of_nat (length (S11.sem c)) < u32_max -> N.of_nat (S11.nattrs c) < u32_max ->
        CstNsView.view t d = Some (S11.sem c)).
Proof.
  destruct exall11_nonvacuous as (F1 & _ & F2 & _ & F3 & _).
  intros t [<-|[<-|[<-|[]]]] d Hd.
  - exact (parse_sound_and_complete_all11_nl _ od d F1 eq_refl Hd).
  - exact (parse_sound_and_complete_all11_nl _ od d F2 eq_refl Hd).
  - exact (parse_sound_and_complete_all11_nl _ od d F3 eq_refl Hd).
Qed.
Print Assumptions exall11_cor_applied.
