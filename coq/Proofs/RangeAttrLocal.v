(* Proofs/RangeAttrLocal.v -- C13 (attribute sub-ranges), part 1: what the pieces of an attribute
   token are, and the facts about the Stream primitives that produce them. *)
From Coq Require Import List Arith NArith Bool Lia ZifyBool ZifyN ZifyNat.
Import ListNotations.
From RX Require Import Generated.
From RX.Model Require Import Base CharClass Stream Tokenizer.
From RX.Proofs Require Import Tactics NoPanicUtf8 NoPanicStream BorrowLocal.
From RX.Proofs Require LexerProofs.
Open Scope N_scope.

(* the relations between the range, the two saturating lengths, the local name and the value of
   an attribute; [Pv] says what is known of the value, given the place between the quotes *)
Definition ARel (text : bytes) (r : range) (ql el : N) (local : slice) (Pv : slice -> Prop) : Prop :=
  exists q qpos, (q = 39 \/ q = 34) /\
    fst r <= sl_start local /\ sl_start local <= sl_end local /\ sl_end local <= qpos /\
    ql = N.min (sl_end local - fst r) qname_len_sat /\
    el = N.min (qpos - sl_end local) eq_len_sat /\
    nth_N text qpos = Some q /\ nth_N text (snd r - 1) = Some q /\
    Pv {| sl_start := qpos + 1; sl_end := snd r - 1 |} /\ qpos + 1 <= snd r - 1 /\ 1 <= snd r /\
    exists w1 w2, sub text (sl_end local) qpos = w1 ++ [61] ++ w2 /\
                  forallb byte_is_space w1 = true /\ forallb byte_is_space w2 = true.

Lemma ARel_impl text r ql el local (P Q : slice -> Prop) :
  (forall v, P v -> Q v) -> ARel text r ql el local P -> ARel text r ql el local Q.
Proof.
  intros HPQ (q & qpos & H1 & H2 & H3 & H4 & H5 & H6 & H7 & H8 & H9 & H10).
  exists q, qpos. repeat (split; [assumption|]). split; [apply HPQ; exact H9|exact H10].
Qed.

Definition AttrTok (text : bytes) (tok : token) : Prop :=
  match tok with
  | TAttribute r ql el _ local value => ARel text r ql el local (fun v => value = v)
  | _ => True
  end.

Section Stream.
Variable text : bytes.
Hypothesis Hvalid : valid_utf8_b text = true.
Notation SInv := (SInv text).
Notation Ext := (Ext text).

Lemma SInv_L s : SInv s -> LexerProofs.SInv text s.
Proof.
  clear Hvalid. intros [(H1 & H2 & H3 & _) _]. unfold LexerProofs.SInv, tlen. auto.
Qed.

Lemma SInv_nth s x r : SInv s -> s_rest s = x :: r -> nth_N text (s_pos s) = Some x.
Proof.
  clear Hvalid. intros [(H1 & _) _] Hr. rewrite H1 in Hr. pose proof (skipn_nth_error _ _ _ _ Hr) as Hn.
  unfold nth_N. assert (N.to_nat (s_pos s) < length text)%nat by (apply nth_error_Some; congruence).
  destruct (len_N text <=? s_pos s) eqn:E; [unfold len_N in E; lia|exact Hn].
Qed.

Lemma curr_byte_rest (s : stream) x : curr_byte s = Ok x -> exists r, s_rest s = x :: r.
Proof.
  clear Hvalid. unfold curr_byte, curr_byte_unchecked. destruct (at_end s); [discriminate|].
  destruct (s_rest s) as [|y r]; [discriminate|]. intros [= <-]. eauto.
Qed.

Lemma consume_quote_inv s q s' : consume_quote text s = Ok (q, s') ->
  (q = 39 \/ q = 34) /\ (exists r, s_rest s = q :: r) /\ s_pos s' = s_pos s + 1.
Proof.
  clear Hvalid. unfold consume_quote. intros H. apply bind_ok in H. destruct H as [c [Hc H]].
  destruct ((c =? 39) || (c =? 34)) eqn:E.
  - apply bind_ok in H. destruct H as [s1 [Ha H]]. injection H as <- <-.
    split; [lia|]. split; [eapply curr_byte_rest; eauto|]. apply advance_pos in Ha. tauto.
  - exfalso. exact (okP_err_at text s _ (fun _ => False) _ H).
Qed.

Lemma consume_byte_inv c s s' : consume_byte text c s = Ok s' ->
  (exists r, s_rest s = c :: r) /\ s_pos s' = s_pos s + 1.
Proof.
  clear Hvalid. unfold consume_byte. intros H. apply bind_ok in H. destruct H as [x [Hx H]].
  destruct (x =? c) eqn:E; cbn [negb] in H.
  - assert (x = c) by lia. subst x. split; [eapply curr_byte_rest; eauto|].
    apply advance_pos in H. tauto.
  - exfalso. exact (okP_err_at text s _ (fun _ => False) _ H).
Qed.

(* between the name and the quote: spaces, '=', spaces *)
Lemma consume_eq_inv s s' : SInv s -> consume_eq text s = Ok s' ->
  s_pos s <= s_pos s' /\
  exists w1 w2, sub text (s_pos s) (s_pos s') = w1 ++ [61] ++ w2 /\
                forallb byte_is_space w1 = true /\ forallb byte_is_space w2 = true.
Proof.
  clear Hvalid. intros Hs H. apply SInv_L in Hs. unfold consume_eq in H. cbv zeta in H.
  apply bind_ok in H. destruct H as [s1 [H1 H]]. injection H as <-.
  destruct (LexerProofs.skip_bytes_adv text byte_is_space s Hs) as (A0 & F0 & _).
  fold (skip_spaces s) in *.
  destruct (LexerProofs.consume_byte_adv text _ _ _ (LexerProofs.Adv_inv text _ _ A0) H1) as (A1 & P1 & S1).
  destruct (LexerProofs.skip_bytes_adv text byte_is_space s1 (LexerProofs.Adv_inv text _ _ A1)) as (A2 & F2 & _).
  fold (skip_spaces s1) in *.
  destruct A0 as (_ & L0 & _). destruct A1 as (_ & L1 & _). destruct A2 as (_ & L2 & _).
  split; [lia|].
  exists (sub text (s_pos s) (s_pos (skip_spaces s))), (sub text (s_pos s1) (s_pos (skip_spaces s1))).
  split; [|split; assumption].
  rewrite (LexerProofs.sub_app text (s_pos s) (s_pos (skip_spaces s)) (s_pos (skip_spaces s1))) by lia.
  rewrite (LexerProofs.sub_app text (s_pos (skip_spaces s)) (s_pos s1) (s_pos (skip_spaces s1))) by lia.
  rewrite S1. reflexivity.
Qed.

(* the local part of a qualified name ends where the stream stops *)
Lemma consume_qname_local s p l s' : SInv s -> consume_qname text s = Ok (p, l, s') ->
  sl_end l = s_pos s' /\ s_pos s <= sl_start l /\ sl_start l <= sl_end l.
Proof.
  intros Hs H. unfold consume_qname in H.
  apply bind_ok in H. destruct H as [[spl s1] [H1 H]]. cbv beta iota in H.
  pose proof (safe_ok_inv _ _ _ (consume_qname_loop_safe text Hvalid (s_pos s) _ None s Hs I (N.le_refl _)) H1)
    as [HE Hspl]. cbv beta iota in HE, Hspl.
  apply bind_ok in H. destruct H as [[p0 l0] [H2 H]]. cbv beta iota in H.
  assert (Hl : sl_end l0 = s_pos s1 /\ s_pos s <= sl_start l0 /\ sl_start l0 <= sl_end l0).
  { destruct spl as [sp|].
    - apply bind_ok in H2. destruct H2 as [pp [_ H2]]. apply bind_ok in H2. destruct H2 as [ll [Hll H2]].
      injection H2 as <- <-. apply mk_slice_valid in Hll. destruct Hll as [(V1 & _) [E1 E2]].
      destruct Hspl as (_ & _ & G1 & G2). rewrite E1, E2 in *. repeat split; lia.
    - apply bind_ok in H2. destruct H2 as [ll [Hll H2]]. apply bind_ok in H2. destruct H2 as [pp [_ H2]].
      injection H2 as <- <-. apply mk_slice_valid in Hll. destruct Hll as [(V1 & _) [E1 E2]].
      rewrite E1, E2 in *. repeat split; lia. }
  destruct (negb (slice_len p0 =? 0) && negb (str_is_name_start (slice_bytes text p0))).
  { exfalso. exact (okP_err_from text _ _ (fun _ => False) _ H). }
  destruct (negb (str_is_name_start (slice_bytes text l0))).
  { exfalso. exact (okP_err_from text _ _ (fun _ => False) _ H). }
  injection H as <- <- <-. exact Hl.
Qed.

End Stream.
