(* Proofs/CstSound6eCor0.v -- C08 on the FULL fragment [in_fragment_6]: soundness and completeness combined, with the two
   namespace resource bounds of the witness as explicit hypotheses.  Direct from [parse_sound_fragment_6]
   (Proofs/CstSound6dFinal.v) and the fragment-independent [parse_view_of_witness] (Proofs/CstSound6rCor.v).
   The version in which the two bounds are DERIVED from acceptance is Proofs/CstSound6eCor.v. *)
From Coq Require Import String.
From Coq Require Import List NArith Bool Lia.
Import ListNotations.
From RX Require Import Generated.
From RX.Model Require Import Base CharClass Stream Tokenizer Doc Builder Parse.
From RX.Spec Require Import CstFull CstFullS5 CstFullS6.
From RX.Proofs Require CstNsView CstSound6rCor CstSound6dFinal.
From RX.Proofs Require Import CstSound CstSoundT CstSoundN CstSoundP CstSound6.
Open Scope N_scope.

Theorem parse_sound_and_complete_6_hyp : forall text opt d,
  in_fragment_6 text = true -> allow_dtd opt = true -> parse text opt = Ok d ->
  exists c : S6.doc, S6.wf_doc c = true /\ S6.render c = text /\
    (N.of_nat (length (S6.sem c)) < u32_max -> N.of_nat (S6.nattrs c) < u32_max ->
     S6.distinct_decls_le c (N.to_nat 65535) -> 1 + N.of_nat (S6.ns_cost c) <= u32_max ->
     CstNsView.view text d = Some (S6.sem c)).
Proof.
  intros text opt d HF Ha H.
  destruct (CstSound6dFinal.parse_sound_fragment_6 text opt d HF Ha H) as (c & Hwf & Hr).
  exists c. split; [exact Hwf|]. split; [exact Hr|]. intros L2 L3 Hd Hc.
  exact (CstSound6rCor.parse_view_of_witness text opt d c H Hwf Hr (fun _ => Ha) L2 L3 Hd Hc).
Qed.
Print Assumptions parse_sound_and_complete_6_hyp.
