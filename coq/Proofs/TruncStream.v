(* TruncStream.v -- C08, truncation, part 1: the Stream primitives on a prefix of the text.
   [text] is the full input, [p] its first n bytes (n a char boundary of text).  A stream of the
   run on p and a stream of the run on text are in sync when they are at the same position.
   Every primitive that succeeds on the truncated stream either does exactly the same on the
   full stream, or leaves the truncated stream where no '>' remains before its end. *)
From Coq Require Import Ascii String.
From Coq Require Import PeanoNat Lia ZifyBool ZifyN ZifyNat.
From RX Require Import Generated.
From RX.Model Require Import Base CharClass Stream Tokenizer.
From RX.Proofs Require Import Tactics OptionsParam BudgetStream.

Lemma decode1_app l r c k : decode1 l = Some (c, k) -> decode1 (l ++ r) = Some (c, k).
Proof.
  unfold decode1. destruct l as [|b0 l]; [discriminate|]. cbn [app].
  destruct (b0 <? 128); [auto|]. destruct (b0 <? 192); [auto|].
  destruct (b0 <? 224).
  { destruct l as [|b1 l]; [discriminate|]. cbn [app]. auto. }
  destruct (b0 <? 240).
  { destruct l as [|b1 [|b2 l]]; try discriminate. cbn [app]. auto. }
  destruct (b0 <? 248); [|auto].
  destruct l as [|b1 [|b2 [|b3 l]]]; try discriminate. cbn [app]. auto.
Qed.

Lemma decode1_len_le l c k : decode1 l = Some (c, k) -> (N.to_nat k <= length l)%nat.
Proof.
  unfold decode1. destruct l as [|b0 l]; [discriminate|].
  destruct (b0 <? 128); [intros H; inversion H; cbn; lia|]. destruct (b0 <? 192); [discriminate|].
  destruct (b0 <? 224).
  { destruct l as [|b1 l]; [discriminate|]. destruct (is_cont b1); [|discriminate].
    intros H; inversion H; cbn; lia. }
  destruct (b0 <? 240).
  { destruct l as [|b1 [|b2 l]]; try discriminate. destruct (_ && _); [|discriminate].
    intros H; inversion H; cbn; lia. }
  destruct (b0 <? 248); [|discriminate].
  destruct l as [|b1 [|b2 [|b3 l]]]; try discriminate. destruct (_ && _); [|discriminate].
  intros H; inversion H; cbn; lia.
Qed.

Lemma prefix_b_true_app pat : forall l r, prefix_b pat l = true -> prefix_b pat (l ++ r) = true.
Proof.
  induction pat as [|a pat IH]; intros l r H; [reflexivity|].
  destruct l as [|x l]; [discriminate|]. cbn [app prefix_b] in *.
  apply andb_true_iff in H. destruct H as [H1 H2]. rewrite H1, (IH _ _ H2). reflexivity.
Qed.

(* a negative test on a prefix of the list: the same on the list, or the prefix is a proper
   prefix of the pattern *)
Lemma prefix_b_false_firstn pat : forall k l, prefix_b pat (firstn k l) = false ->
  prefix_b pat l = false \/ ((k < length pat)%nat /\ firstn k l = firstn (length (firstn k l)) pat).
Proof.
  induction pat as [|a pat IH]; intros k l H; [discriminate|].
  destruct k as [|k]; [right; cbn; split; [lia|reflexivity]|].
  destruct l as [|x l]; [left; reflexivity|]. cbn [firstn prefix_b length] in *.
  destruct (a =? x) eqn:E; cbn [andb] in *; [|left; reflexivity].
  destruct (IH k l H) as [H1|[H1 H2]]; [left; exact H1|right].
  split; [lia|]. assert (a = x) by lia. subst x. f_equal. exact H2.
Qed.

Definition keep (P : Prop) : Prop := P.
Lemma mk_keep (P : Prop) : P -> keep P. Proof. exact (fun x => x). Qed.

(* duplicate every equation [_ = Ok _] into a protected copy *)
Ltac dup_eqs :=
  repeat match goal with
  | H : ?l = Ok ?r |- _ =>
    lazymatch goal with
    | _ : keep (l = Ok r) |- _ => fail
    | _ => pose proof (mk_keep _ H)
    end
  end.

(* facts about skip_spaces / skip_bytes terms, without generalising them *)
Ltac skipfacts :=
  match goal with
  | W : wfl ?t ?s |- _ =>
    match goal with
    | |- context [skip_spaces s] => idtac
    | _ : context [skip_spaces s] |- _ => idtac
    end;
    lazymatch goal with
    | _ : wfl t (skip_spaces s) |- _ => fail
    | _ => let Hz := fresh "Hsk" in
           pose proof (mv_skip_spaces t s W) as Hz; destruct Hz as (? & ? & ?)
    end
  | W : wfl ?t ?s |- _ =>
    match goal with
    | |- context [skip_bytes ?f s] =>
      lazymatch goal with
      | _ : wfl t (skip_bytes f s) |- _ => fail
      | _ => let Hz := fresh "Hsk" in
             pose proof (mv_skip_bytes t f s W) as Hz; destruct Hz as (? & ? & ?)
      end
    | _ : context [skip_bytes ?f s] |- _ =>
      lazymatch goal with
      | _ : wfl t (skip_bytes f s) |- _ => fail
      | _ => let Hz := fresh "Hsk" in
             pose proof (mv_skip_bytes t f s W) as Hz; destruct Hz as (? & ? & ?)
      end
    end
  end.

(* all the position facts of the truncated run, keeping its equations *)
Ltac posfacts := dup_eqs; repeat first [skipfacts | pfw]; unfold keep in *.


(* the slices of a successful qname / attribute end inside the text *)
Lemma mk_slice_end t a e sl : mk_slice t a e = Ok sl -> sl_end sl <= tlen t.
Proof.
  unfold mk_slice. intros H. destruct ((e <? a) || (tlen t <? e)) eqn:E; [discriminate|].
  destruct (_ && _); [|discriminate]. inversion H; subst. cbn [sl_end]. lia.
Qed.

Lemma consume_qname_local_end t s pr lo s' : consume_qname t s = Ok (pr, lo, s') -> sl_end lo <= tlen t.
Proof.
  unfold consume_qname. intros H. bsteps; unfold slice_back in *;
  match goal with Hm : mk_slice t _ _ = Ok lo |- _ => exact (mk_slice_end _ _ _ _ Hm) end.
Qed.

Lemma parse_attribute_local_end t s pr lo s' : parse_attribute t s = Ok (pr, lo, s') -> sl_end lo <= tlen t.
Proof.
  unfold parse_attribute. intros H. bsteps. eapply consume_qname_local_end; eauto.
Qed.

Section Trunc.
Variable text : bytes.
Variable n : N.
Hypothesis Hn : n <= tlen text.
Hypothesis Hbn : is_boundary text n = true.

Definition p : bytes := firstn (N.to_nat n) text.

Lemma tlen_p : tlen p = n.
Proof. unfold tlen, blen, p in *. rewrite firstn_length. lia. Qed.

Lemma skipn_p q : skipn q p = firstn (N.to_nat n - q) (skipn q text).
Proof. unfold p. apply skipn_firstn_comm. Qed.

Lemma in_skipn {A} (x : A) : forall k l, In x (skipn k l) -> In x l.
Proof. induction k; intros l H; [exact H|]. destruct l; [exact H|]. right. apply IHk. exact H. Qed.

(* the two runs are at the same place *)
Definition sync (s1 s2 : stream) : Prop :=
  wfl text s1 /\ wfl p s2 /\ s_pos s1 = s_pos s2 /\ s_end s1 = tlen text /\ s_end s2 = n.

(* no '>' in p from position q on *)
Definition NG (q : N) : Prop := ~ In 62 (skipn (N.to_nat q) p).

Lemma NG_mono q q' : q <= q' -> NG q -> NG q'.
Proof.
  unfold NG. intros Hq H Hin. apply H.
  replace (N.to_nat q') with (N.to_nat q + (N.to_nat q' - N.to_nat q))%nat in Hin by lia.
  rewrite <- skipn_skipn2 in Hin. eapply in_skipn; eauto.
Qed.

Lemma NG_end q : n <= q -> NG q.
Proof.
  intros H. unfold NG. rewrite skipn_all2; [intros []|].
  pose proof tlen_p. unfold tlen, blen in *. lia.
Qed.

Lemma sync_rest s1 s2 : sync s1 s2 ->
  s_rest s2 = firstn (N.to_nat (n - s_pos s2)) (s_rest s1) /\ s_pos s2 <= n.
Proof.
  intros ((R1 & _) & (R2 & P2 & _) & E & _ & E2). rewrite R2, R1, skipn_p, E.
  split; [f_equal; lia|lia].
Qed.

Lemma sync_len2 s1 s2 : sync s1 s2 -> length (s_rest s2) = N.to_nat (n - s_pos s2).
Proof.
  intros ((R1 & _) & (R2 & P2 & _) & E & _ & E2). rewrite R2. rewrite skipn_length.
  pose proof tlen_p. unfold tlen, blen in *. lia.
Qed.

Lemma sync_len1 s1 s2 : sync s1 s2 -> length (s_rest s1) = N.to_nat (tlen text - s_pos s1).
Proof.
  intros ((R1 & _) & _). rewrite R1, skipn_length. unfold tlen, blen. lia.
Qed.

Lemma sync_avail2 s1 s2 : sync s1 s2 -> avail s2 = s_rest s2.
Proof.
  intros Hs. unfold avail. pose proof (sync_len2 _ _ Hs). destruct Hs as (_ & _ & _ & _ & E2).
  rewrite E2. apply firstn_all2. lia.
Qed.

Lemma sync_avail1 s1 s2 : sync s1 s2 -> avail s1 = s_rest s1.
Proof.
  intros Hs. unfold avail. pose proof (sync_len1 _ _ Hs). destruct Hs as (_ & _ & _ & E1 & _).
  rewrite E1. apply firstn_all2. lia.
Qed.

Lemma NG_rest s1 s2 : sync s1 s2 -> ~ In 62 (s_rest s2) -> NG (s_pos s2).
Proof. intros (_ & (R2 & _) & _) H. unfold NG. rewrite <- R2. exact H. Qed.

(* ---- tests ---- *)
Lemma T_at_end_false s1 s2 : sync s1 s2 -> at_end s2 = false -> at_end s1 = false /\ s_pos s2 < n.
Proof. intros (_ & _ & E & E1 & E2) H. unfold at_end in *. rewrite E1, E, E2 in *. lia. Qed.

Lemma T_at_end_true s1 s2 : sync s1 s2 -> at_end s2 = true -> s_pos s2 = n.
Proof. intros (_ & (_ & P & _) & _ & _ & E2) H. unfold at_end in H. lia. Qed.

Lemma T_cbu s1 s2 x : sync s1 s2 -> curr_byte_unchecked s2 = Ok x -> curr_byte_unchecked s1 = Ok x.
Proof.
  intros Hs H. destruct (sync_rest _ _ Hs) as [R _]. unfold curr_byte_unchecked in *.
  rewrite R in H. destruct (N.to_nat (n - s_pos s2)); [discriminate|].
  destruct (s_rest s1); [discriminate|]. exact H.
Qed.

Lemma T_cb s1 s2 x : sync s1 s2 -> curr_byte s2 = Ok x -> curr_byte s1 = Ok x.
Proof.
  intros Hs H. unfold curr_byte in *. destruct (at_end s2) eqn:E; [discriminate|].
  destruct (T_at_end_false _ _ Hs E) as [-> _]. eapply T_cbu; eauto.
Qed.

Lemma T_cbo_some s1 s2 x : sync s1 s2 -> curr_byte_opt s2 = Some x -> curr_byte_opt s1 = Some x.
Proof.
  intros Hs H. unfold curr_byte_opt in *. destruct (at_end s2) eqn:E; [discriminate|].
  destruct (T_at_end_false _ _ Hs E) as [-> _].
  destruct (sync_rest _ _ Hs) as [R _]. rewrite R in H.
  destruct (N.to_nat (n - s_pos s2)); [discriminate|]. destruct (s_rest s1); [discriminate|]. exact H.
Qed.

Lemma T_cbo_none s1 s2 : sync s1 s2 -> curr_byte_opt s2 = None -> s_pos s2 = n.
Proof.
  intros Hs H. unfold curr_byte_opt in H. destruct (at_end s2) eqn:E.
  - eapply T_at_end_true; eauto.
  - destruct (T_at_end_false _ _ Hs E) as [_ Hlt]. pose proof (sync_len2 _ _ Hs).
    destruct (s_rest s2); [cbn in *; lia|discriminate].
Qed.

Lemma T_next_byte s1 s2 y : sync s1 s2 -> next_byte s2 = Ok y -> next_byte s1 = Ok y.
Proof.
  intros Hs H. destruct (sync_rest _ _ Hs) as [R _]. pose proof Hs as (_ & _ & E & E1 & E2).
  unfold next_byte in *. rewrite E2 in H. destruct (n <=? s_pos s2 + 1) eqn:Ec; [discriminate|].
  rewrite E1, E. replace (tlen text <=? s_pos s2 + 1) with false by lia.
  rewrite R in H. destruct (N.to_nat (n - s_pos s2)) as [|[|k]]; cbn [firstn] in H.
  - discriminate.
  - destruct (s_rest s1) as [|? [|? ?]]; discriminate.
  - destruct (s_rest s1) as [|? [|? ?]]; try discriminate. exact H.
Qed.

Lemma T_advance k s1 s2 s2' : sync s1 s2 -> advance k s2 = Ok s2' ->
  exists s1', advance k s1 = Ok s1' /\ sync s1' s2'.
Proof.
  intros Hs H. pose proof Hs as (W1 & W2 & E & E1 & E2).
  pose proof (mv_advance _ _ _ _ H W2) as (W2' & E2' & P2').
  assert (Hle : s_pos s2 + k <= n).
  { unfold advance in H. rewrite E2 in H. destruct (n <? s_pos s2 + k) eqn:Ec; [discriminate|lia]. }
  destruct (advance k s1) as [s1'| | |] eqn:Ea;
    try (unfold advance in Ea; destruct (s_end s1 <? s_pos s1 + k) eqn:Ec; [lia|discriminate]).
  exists s1'. split; [reflexivity|].
  pose proof (mv_advance _ _ _ _ Ea W1) as (W1' & E1' & P1').
  unfold sync. split; [assumption|]. split; [assumption|]. split; [lia|]. split; lia.
Qed.

Lemma T_sw_true s1 s2 pat : sync s1 s2 -> starts_with s2 pat = true -> starts_with s1 pat = true.
Proof.
  intros Hs H. unfold starts_with in *. rewrite (sync_avail1 _ _ Hs). rewrite (sync_avail2 _ _ Hs) in H.
  destruct (sync_rest _ _ Hs) as [R _]. rewrite R in H.
  rewrite <- (firstn_skipn (N.to_nat (n - s_pos s2)) (s_rest s1)). apply prefix_b_true_app. exact H.
Qed.

(* the proper prefixes of the pattern hold no '>' *)
Definition pat_ok (pat : bytes) : Prop := ~ In 62 (removelast pat).

Lemma in_firstn_removelast {A} (x : A) : forall k l, (k < length l)%nat -> In x (firstn k l) -> In x (removelast l).
Proof.
  induction k; intros l Hk H; [destruct H|].
  destruct l as [|a l]; [cbn in Hk; lia|]. cbn [firstn] in H.
  destruct l as [|a' l]; [cbn in Hk; lia|].
  change (removelast (a :: a' :: l)) with (a :: removelast (a' :: l)).
  destruct H as [->|H]; [left; reflexivity|right]. apply IHk; [cbn [length] in *; lia|exact H].
Qed.

Lemma T_sw_false s1 s2 pat : sync s1 s2 -> pat_ok pat -> starts_with s2 pat = false ->
  starts_with s1 pat = false \/ NG (s_pos s2).
Proof.
  intros Hs Hp H. unfold starts_with in *. rewrite (sync_avail1 _ _ Hs). rewrite (sync_avail2 _ _ Hs) in H.
  destruct (sync_rest _ _ Hs) as [R _]. rewrite R in H.
  destruct (prefix_b_false_firstn _ _ _ H) as [H1|[Hk Hf]]; [left; exact H1|right].
  apply (NG_rest _ _ Hs). rewrite R, Hf. intros Hin. apply Hp.
  eapply in_firstn_removelast; [|exact Hin]. rewrite firstn_length. lia.
Qed.

(* ---- skip_bytes ---- *)
Lemma scan_firstn f : forall l k room, (k <= room)%nat ->
  scan f (firstn k l) room = scan f l room \/ scan f (firstn k l) room = k.
Proof.
  induction l as [|x l IH]; intros k room Hk.
  - rewrite firstn_nil. left. reflexivity.
  - destruct k as [|k]; [right; destruct room; reflexivity|].
    destruct room as [|room]; [lia|]. cbn [firstn scan]. destruct (f x); [|left; reflexivity].
    destruct (IH k room ltac:(lia)) as [H|H]; rewrite H; auto.
Qed.

Lemma scan_room f : forall l room room', (length l <= room)%nat -> (length l <= room')%nat ->
  scan f l room = scan f l room'.
Proof.
  induction l as [|x l IH]; intros room room' H1 H2; [destruct room, room'; reflexivity|].
  cbn [length] in *. destruct room as [|room]; [lia|]. destruct room' as [|room']; [lia|].
  cbn [scan]. destruct (f x); [|reflexivity]. f_equal. apply IH; lia.
Qed.

Lemma scan_stable f : forall l a b, (scan f l a < a)%nat -> (a <= b)%nat -> scan f l b = scan f l a.
Proof.
  induction l as [|x l IH]; intros a b Ha Hab; [destruct a, b; reflexivity|].
  destruct a as [|a]; [lia|]. destruct b as [|b]; [lia|]. cbn [scan] in *.
  destruct (f x); [|reflexivity]. f_equal. apply IH; lia.
Qed.

Lemma T_skip_bytes f s1 s2 : sync s1 s2 ->
  sync (skip_bytes f s1) (skip_bytes f s2) \/ s_pos (skip_bytes f s2) = n.
Proof.
  intros Hs. pose proof Hs as (W1 & W2 & E & E1 & E2).
  pose proof (mv_skip_bytes _ f s1 W1) as (W1' & E1' & _).
  pose proof (mv_skip_bytes _ f s2 W2) as (W2' & E2' & _).
  destruct (sync_rest _ _ Hs) as [R Hp]. pose proof (sync_len1 _ _ Hs) as L1.
  set (c1 := scan f (s_rest s1) (N.to_nat (s_end s1 - s_pos s1))).
  set (c2 := scan f (s_rest s2) (N.to_nat (s_end s2 - s_pos s2))).
  assert (P1 : s_pos (skip_bytes f s1) = s_pos s1 + N.of_nat c1) by reflexivity.
  assert (P2 : s_pos (skip_bytes f s2) = s_pos s2 + N.of_nat c2) by reflexivity.
  set (k := N.to_nat (n - s_pos s2)).
  assert (Hc : c2 = c1 \/ c2 = k).
  { unfold c1, c2. rewrite R, E2, E1. fold k.
    destruct (scan_firstn f (s_rest s1) k k (le_n _)) as [Hsc|Hsc]; [|right; exact Hsc].
    pose proof (scan_le f (s_rest s1) k) as Hle.
    destruct (Nat.eq_dec (scan f (s_rest s1) k) k) as [Heq|Hne]; [right; lia|left].
    rewrite Hsc. symmetry. apply scan_stable; [lia|]. unfold k. lia. }
  destruct Hc as [Hc|Hc].
  - left. unfold sync. split; [assumption|]. split; [assumption|]. split; [lia|]. split; lia.
  - right. rewrite P2, Hc. unfold k. lia.
Qed.

Lemma T_skip_spaces s1 s2 : sync s1 s2 ->
  sync (skip_spaces s1) (skip_spaces s2) \/ s_pos (skip_spaces s2) = n.
Proof. apply T_skip_bytes. Qed.

(* ---- chars, slices ---- *)
Lemma T_next_char_some s1 s2 c k : sync s1 s2 -> next_char s2 = Ok (Some (c, k)) ->
  next_char s1 = Ok (Some (c, k)).
Proof.
  intros Hs H. pose proof Hs as (_ & _ & E & E1 & E2). destruct (sync_rest _ _ Hs) as [R _].
  unfold next_char in *. destruct (at_end s2) eqn:Ea; [discriminate|].
  destruct (T_at_end_false _ _ Hs Ea) as [-> Hlt].
  destruct (decode1 (s_rest s2)) as [[c' k']|] eqn:Ed; [|discriminate].
  rewrite E2 in H. destruct (n <? s_pos s2 + k') eqn:Ec; [discriminate|]. inversion H; subst c' k'.
  rewrite R in Ed. rewrite <- (firstn_skipn (N.to_nat (n - s_pos s2)) (s_rest s1)).
  rewrite (decode1_app _ _ _ _ Ed). rewrite E1, E. replace (tlen text <? s_pos s2 + k) with false by lia.
  reflexivity.
Qed.

Lemma T_next_char_none s1 s2 : sync s1 s2 -> next_char s2 = Ok None -> s_pos s2 = n.
Proof.
  intros Hs H. unfold next_char in H. destruct (at_end s2) eqn:Ea; [eapply T_at_end_true; eauto|].
  destruct (decode1 (s_rest s2)) as [[c' k']|]; [|discriminate].
  destruct (_ <? _); discriminate.
Qed.

Lemma nth_error_firstn_lt {A} : forall k (l : list A) q, (q < k)%nat -> nth_error (firstn k l) q = nth_error l q.
Proof.
  induction k; intros l q H; [lia|]. destruct l; [destruct q; reflexivity|].
  destruct q; [reflexivity|]. cbn. apply IHk. lia.
Qed.

Lemma bnd_p q : q <= n -> is_boundary p q = true -> is_boundary text q = true.
Proof.
  intros Hq H. destruct (N.eq_dec q n) as [->|Hne]; [exact Hbn|].
  unfold is_boundary in *. destruct (q =? 0); [reflexivity|].
  unfold p in H. rewrite nth_error_firstn_lt in H by lia.
  destruct (nth_error text (N.to_nat q)) eqn:En; [exact H|].
  apply nth_error_None in En. unfold tlen, blen in Hn. lia.
Qed.

Lemma T_mk_slice a e sl : mk_slice p a e = Ok sl -> mk_slice text a e = Ok sl /\ e <= n.
Proof.
  unfold mk_slice. rewrite tlen_p. intros H.
  destruct ((e <? a) || (n <? e)) eqn:E1; [discriminate|].
  destruct (is_boundary p a && is_boundary p e) eqn:E2; [|discriminate].
  apply andb_true_iff in E2. destruct E2 as [B1 B2].
  replace ((e <? a) || (tlen text <? e)) with false by lia.
  rewrite (bnd_p a), (bnd_p e) by (assumption || lia). split; [exact H|lia].
Qed.

Lemma T_slice_back st s1 s2 sl : sync s1 s2 -> slice_back p st s2 = Ok sl ->
  slice_back text st s1 = Ok sl /\ sl_end sl <= n.
Proof.
  intros (_ & _ & E & _) H. unfold slice_back in *. rewrite E.
  destruct (T_mk_slice _ _ _ H) as [H1 H2]. split; [exact H1|].
  unfold mk_slice in H. destruct (_ || _); [discriminate|]. destruct (_ && _); [|discriminate].
  inversion H; subst. exact H2.
Qed.

Lemma sub_p a e : e <= n -> sub p a e = sub text a e.
Proof.
  intros He. unfold sub. rewrite skipn_p, firstn_firstn. f_equal. lia.
Qed.

Lemma T_slice_bytes sl : sl_end sl <= n -> slice_bytes p sl = slice_bytes text sl.
Proof. intros H. unfold slice_bytes. apply sub_p. exact H. Qed.

Lemma T_xml_ascii l : forall i, is_xml_str_ascii p l i = Ok tt -> is_xml_str_ascii text l i = Ok tt.
Proof.
  induction l as [|x l IH]; intros i H; [reflexivity|]. cbn [is_xml_str_ascii] in *.
  destruct (negb (byte_is_char x)); [exfalso; eapply err_from_not_ok; eauto|]. auto.
Qed.

Lemma T_xml_unicode fuel : forall l i, is_xml_str_unicode p fuel l i = Ok tt ->
  is_xml_str_unicode text fuel l i = Ok tt.
Proof.
  induction fuel; intros l i H; [discriminate|]. cbn [is_xml_str_unicode] in *.
  destruct l as [|x l]; [reflexivity|]. destruct (decode1 (x :: l)) as [[c k]|]; [|discriminate].
  destruct (negb (char_is_char c)); [exfalso; eapply err_from_not_ok; eauto|]. auto.
Qed.

Lemma T_is_xml_str sl vs : sl_end sl <= n -> is_xml_str p sl vs = Ok tt -> is_xml_str text sl vs = Ok tt.
Proof.
  intros He H. unfold is_xml_str in *. rewrite (T_slice_bytes _ He) in H.
  destruct (forallb _ _); [apply T_xml_ascii|apply T_xml_unicode]; exact H.
Qed.

(** * The three-way outcome of the composite primitives *)

Ltac ng_done := first [ eapply NG_mono; [ | eassumption ]; lia | apply NG_end; lia ].

(* one step of the truncated run through a primitive whose spec is [lem] *)
Ltac tb lem :=
  match goal with
  | Hs : sync _ _ |- _ =>
    match goal with
    | H : _ = Ok _ |- _ =>
      let H' := fresh "Hw" in
      pose proof H as H'; eapply lem in H'; [ | exact Hs ];
      let s1' := fresh "t" in let Hf := fresh "Hf" in let Hs' := fresh "Hs" in
      let Hng := fresh "Hng" in
      destruct H' as [(s1' & Hf & Hs') | Hng];
      [ rewrite Hf; cbn [bind]; clear Hs | right; ng_done ]
    end
  end.

(* skip_spaces / skip_bytes of the current stream *)
Ltac tsk :=
  match goal with
  | Hs : sync ?s1 ?s2 |- context [skip_spaces ?s1] =>
    let Hs' := fresh "Hs" in let He := fresh "Hend" in
    destruct (T_skip_spaces _ _ Hs) as [Hs' | He]; [ clear Hs | right; ng_done ]
  | Hs : sync ?s1 ?s2 |- context [skip_bytes ?f ?s1] =>
    let Hs' := fresh "Hs" in let He := fresh "Hend" in
    destruct (T_skip_bytes f _ _ Hs) as [Hs' | He]; [ clear Hs | right; ng_done ]
  end.

Ltac pat_ok_tac := unfold pat_ok; let Hin := fresh in intros Hin; vm_compute in Hin; intuition discriminate.

(* a starts_with test of the current stream *)
Ltac tsw :=
  match goal with
  | Hs : sync ?s1 ?s2, H : starts_with ?s2 ?pat = true |- context [starts_with ?s1 ?pat] =>
    rewrite (T_sw_true _ _ _ Hs H)
  | Hs : sync ?s1 ?s2, H : starts_with ?s2 ?pat = false |- context [starts_with ?s1 ?pat] =>
    let Hf := fresh "Hf" in let Hng := fresh "Hng" in
    destruct (T_sw_false _ _ pat Hs ltac:(pat_ok_tac) H) as [Hf | Hng];
    [ rewrite Hf | right; ng_done ]
  end.

Ltac tfin := left; eexists; split; [reflexivity | assumption].

Lemma T_consume_byte c s1 s2 s2' : sync s1 s2 -> consume_byte p c s2 = Ok s2' ->
  (exists s1', consume_byte text c s1 = Ok s1' /\ sync s1' s2') \/ NG (s_pos s2').
Proof.
  intros Hs H. left. unfold consume_byte in *. bsteps. rewrite (T_cb _ _ _ Hs Hb). cbn [bind].
  rewrite Heqb. eapply T_advance; eauto.
Qed.

Lemma E_consume_byte0 c s1 s2 s2' : sync s1 s2 -> consume_byte p c s2 = Ok s2' ->
  exists s1', consume_byte text c s1 = Ok s1' /\ sync s1' s2'.
Proof.
  intros Hs H. unfold consume_byte in *. bsteps. rewrite (T_cb _ _ _ Hs Hb). cbn [bind].
  rewrite Heqb. eapply T_advance; eauto.
Qed.

Lemma T_advance' k s1 s2 s2' : sync s1 s2 -> advance k s2 = Ok s2' ->
  (exists s1', advance k s1 = Ok s1' /\ sync s1' s2') \/ NG (s_pos s2').
Proof. intros Hs H. left. eapply T_advance; eauto. Qed.

Lemma T_skip_string pat s1 s2 s2' : sync s1 s2 -> skip_string p pat s2 = Ok s2' ->
  (exists s1', skip_string text pat s1 = Ok s1' /\ sync s1' s2') \/ NG (s_pos s2').
Proof.
  intros Hs H. left. unfold skip_string in *. bsteps.
  assert (E : starts_with s2 pat = true) by (destruct (starts_with s2 pat); [reflexivity|discriminate]).
  rewrite (T_sw_true _ _ _ Hs E). cbn [negb]. eapply T_advance; eauto.
Qed.

Lemma T_starts_with_space s1 s2 : sync s1 s2 -> starts_with_space s2 = true -> starts_with_space s1 = true.
Proof.
  intros Hs H. unfold starts_with_space in *. destruct (curr_byte_opt s2) eqn:E; [|discriminate].
  rewrite (T_cbo_some _ _ _ Hs E). exact H.
Qed.

Lemma T_consume_spaces s1 s2 s2' : sync s1 s2 -> consume_spaces p s2 = Ok s2' ->
  (exists s1', consume_spaces text s1 = Ok s1' /\ sync s1' s2') \/ NG (s_pos s2').
Proof.
  intros Hs H. unfold consume_spaces in *. bsteps.
  destruct (T_at_end_false _ _ Hs Heqb) as [Ea _]. rewrite Ea.
  assert (E : starts_with_space s2 = true) by (destruct (starts_with_space s2); [reflexivity|discriminate]).
  rewrite (T_starts_with_space _ _ Hs E). cbn [negb].
  tsk. tfin.
Qed.

Lemma find_idx_app g : forall l r i, find_idx g l = Some i -> find_idx g (l ++ r) = Some i.
Proof.
  induction l as [|x l IH]; intros r i H; [discriminate|]. cbn [app find_idx] in *.
  destruct (g x); [exact H|]. destruct (find_idx g l) eqn:E; [|discriminate].
  rewrite (IH r _ eq_refl). exact H.
Qed.

Lemma T_advance_until2 a b0 s1 s2 s2' : sync s1 s2 -> advance_until2 a b0 s2 = Ok s2' ->
  (exists s1', advance_until2 a b0 s1 = Ok s1' /\ sync s1' s2') \/ NG (s_pos s2').
Proof.
  intros Hs H. left. unfold advance_until2 in *. rewrite (sync_avail1 _ _ Hs).
  rewrite (sync_avail2 _ _ Hs) in H. destruct (sync_rest _ _ Hs) as [R _]. rewrite R in H.
  destruct (find_idx _ (firstn _ _)) eqn:E; [|discriminate].
  rewrite <- (firstn_skipn (N.to_nat (n - s_pos s2)) (s_rest s1)). rewrite (find_idx_app _ _ _ _ E).
  eapply T_advance; eauto.
Qed.

(* the stream-dependent predicates of consume_chars agree, or no '>' is left *)
Definition f_ok (f : stream -> N -> bool) : Prop :=
  forall t1 t2 ch, sync t1 t2 -> f t2 ch = f t1 ch \/ NG (s_pos t2).

Lemma T_skip_chars_loop f : f_ok f -> forall fuel2 fuel1 s1 s2 s2', (fuel2 <= fuel1)%nat ->
  sync s1 s2 -> skip_chars_loop p fuel2 f s2 = Ok s2' ->
  (exists s1', skip_chars_loop text fuel1 f s1 = Ok s1' /\ sync s1' s2') \/ NG (s_pos s2').
Proof.
  intros Hf. induction fuel2; intros fuel1 s1 s2 s2' Hfu Hs H; [discriminate|].
  destruct fuel1 as [|fuel1]; [lia|].
  pose proof Hs as (_ & W2 & _).
  pose proof (mv_skip_chars_loop _ _ _ _ _ H W2) as [(_ & _ & Hpos) _].
  cbn [skip_chars_loop] in *.
  destruct (next_char s2) as [[[c k]|]| | |] eqn:En; cbn [bind] in H; try discriminate.
  - rewrite (T_next_char_some _ _ _ _ Hs En). cbn [bind].
    destruct (negb (char_is_char c)); [exfalso; eapply err_at_not_ok; eauto|].
    destruct (Hf s1 s2 c Hs) as [E|Hng]; [|right; eapply NG_mono; [|exact Hng]; lia].
    rewrite <- E. destruct (f s2 c).
    + apply bind_ok in H. destruct H as [s2a [Ha H]].
      destruct (T_advance _ _ _ _ Hs Ha) as (s1a & Ha1 & Hsa). rewrite Ha1. cbn [bind].
      eapply IHfuel2; eauto. lia.
    + inversion H; subst. left. eauto.
  - inversion H; subst. right. apply NG_end. rewrite (T_next_char_none _ _ Hs En). lia.
Qed.

Lemma T_skip_chars f s1 s2 s2' : f_ok f -> sync s1 s2 -> skip_chars p f s2 = Ok s2' ->
  (exists s1', skip_chars text f s1 = Ok s1' /\ sync s1' s2') \/ NG (s_pos s2').
Proof.
  intros Hf Hs H. unfold skip_chars in *.
  eapply (T_skip_chars_loop f Hf _ _ s1 s2 s2'); [|exact Hs|exact H].
  destruct (sync_rest _ _ Hs) as [R _]. rewrite R, firstn_length. lia.
Qed.

Lemma T_consume_chars f s1 s2 sl s2' : f_ok f -> sync s1 s2 -> consume_chars p f s2 = Ok (sl, s2') ->
  (exists s1', consume_chars text f s1 = Ok (sl, s1') /\ sync s1' s2') \/ NG (s_pos s2').
Proof.
  intros Hf Hs H. unfold consume_chars in *. bsteps.
  destruct (T_skip_chars _ _ _ _ Hf Hs Hb) as [(s1' & Hf1 & Hs')|Hng]; [|right; exact Hng].
  rewrite Hf1. cbn [bind]. destruct (T_slice_back _ _ _ _ Hs' Hb0) as [Hsl _].
  destruct Hs as (_ & _ & E & _). rewrite E, Hsl. cbn [bind]. left. eauto.
Qed.

(* the predicates that occur *)
Lemma f_ok_const (g : N -> bool) : f_ok (fun _ ch => g ch).
Proof. intros t1 t2 ch _. left. reflexivity. Qed.

Lemma f_ok_pat x pat : pat_ok pat -> f_ok (fun s ch => negb ((ch =? x) && starts_with s pat)).
Proof.
  intros Hp t1 t2 ch Hs. destruct (starts_with t2 pat) eqn:E.
  - rewrite (T_sw_true _ _ _ Hs E). left. reflexivity.
  - destruct (T_sw_false _ _ _ Hs Hp E) as [E1|Hng]; [rewrite E1; left; reflexivity|right; exact Hng].
Qed.

Lemma T_skip_name_loop : forall fuel2 fuel1 s1 s2 s2', (fuel2 <= fuel1)%nat ->
  sync s1 s2 -> skip_name_loop fuel2 s2 = Ok s2' ->
  (exists s1', skip_name_loop fuel1 s1 = Ok s1' /\ sync s1' s2') \/ NG (s_pos s2').
Proof.
  induction fuel2; intros fuel1 s1 s2 s2' Hfu Hs H; [discriminate|].
  destruct fuel1 as [|fuel1]; [lia|]. cbn [skip_name_loop] in *.
  destruct (next_char s2) as [[[c k]|]| | |] eqn:En; cbn [bind] in H; try discriminate.
  - rewrite (T_next_char_some _ _ _ _ Hs En). cbn [bind]. destruct (char_is_name c).
    + apply bind_ok in H. destruct H as [s2a [Ha H]].
      destruct (T_advance _ _ _ _ Hs Ha) as (s1a & Ha1 & Hsa). rewrite Ha1. cbn [bind].
      eapply IHfuel2; eauto. lia.
    + inversion H; subst. left. eauto.
  - inversion H; subst. right. apply NG_end. rewrite (T_next_char_none _ _ Hs En). lia.
Qed.

Lemma T_skip_name s1 s2 s2' : sync s1 s2 -> skip_name p s2 = Ok s2' ->
  (exists s1', skip_name text s1 = Ok s1' /\ sync s1' s2') \/ NG (s_pos s2').
Proof.
  intros Hs H. unfold skip_name in *.
  destruct (next_char s2) as [[[c k]|]| | |] eqn:En; cbn [bind] in H; try discriminate.
  - rewrite (T_next_char_some _ _ _ _ Hs En). cbn [bind].
    destruct (char_is_name_start c); [|exfalso; eapply err_from_not_ok; eauto].
    apply bind_ok in H. destruct H as [s2a [Ha H]].
    destruct (T_advance _ _ _ _ Hs Ha) as (s1a & Ha1 & Hsa). rewrite Ha1. cbn [bind].
    eapply (T_skip_name_loop _ _ s1a s2a s2'); [|exact Hsa|exact H].
    destruct (sync_rest _ _ Hsa) as [R _]. rewrite R, firstn_length. lia.
  - inversion H; subst. right. apply NG_end. rewrite (T_next_char_none _ _ Hs En). lia.
Qed.

Lemma T_consume_name s1 s2 sl s2' : sync s1 s2 -> consume_name p s2 = Ok (sl, s2') ->
  (exists s1', consume_name text s1 = Ok (sl, s1') /\ sync s1' s2') \/ NG (s_pos s2').
Proof.
  intros Hs H. unfold consume_name in *. bsteps.
  destruct (T_skip_name _ _ _ Hs Hb) as [(s1' & Hf1 & Hs')|Hng]; [|right; exact Hng].
  rewrite Hf1. cbn [bind]. destruct (T_slice_back _ _ _ _ Hs' Hb0) as [Hsl _].
  destruct Hs as (_ & _ & E & _). rewrite E, Hsl. cbn [bind]. rewrite Heqb. left. eauto.
Qed.

Lemma T_consume_qname_loop : forall fuel2 fuel1 st sp s1 s2 sp' s2', (fuel2 <= fuel1)%nat ->
  sync s1 s2 -> consume_qname_loop p fuel2 st sp s2 = Ok (sp', s2') ->
  (exists s1', consume_qname_loop text fuel1 st sp s1 = Ok (sp', s1') /\ sync s1' s2')
  \/ NG (s_pos s2').
Proof.
  induction fuel2; intros fuel1 st sp s1 s2 sp' s2' Hfu Hs H; [discriminate|].
  destruct fuel1 as [|fuel1]; [lia|]. cbn [consume_qname_loop] in *.
  destruct (at_end s2) eqn:Ea.
  { inversion H; subst. right. apply NG_end. rewrite (T_at_end_true _ _ Hs Ea). lia. }
  destruct (T_at_end_false _ _ Hs Ea) as [-> _].
  apply bind_ok in H. destruct H as [x [Hx H]]. cbv beta in H.
  rewrite (T_cbu _ _ _ Hs Hx). cbn [bind].
  assert (Estep : forall k sp0, (let! s' := advance k s2 in consume_qname_loop p fuel2 st sp0 s') = Ok (sp', s2') ->
     (exists s1', (let! s' := advance k s1 in consume_qname_loop text fuel1 st sp0 s') = Ok (sp', s1') /\ sync s1' s2')
     \/ NG (s_pos s2')).
  { intros k sp0 Hk. apply bind_ok in Hk. destruct Hk as [s2a [Ha Hk]].
    destruct (T_advance _ _ _ _ Hs Ha) as (s1a & Ha1 & Hsa). rewrite Ha1. cbn [bind].
    eapply IHfuel2; eauto. lia. }
  destruct (x <? 128).
  - destruct (x =? 58).
    + destruct sp; [exfalso; eapply err_from_not_ok; eauto|].
      destruct Hs as (? & ? & E & ?). rewrite E. apply Estep. exact H.
    + destruct (byte_is_name x); [apply Estep; exact H|]. inversion H; subst. left. eauto.
  - destruct (next_char s2) as [[[c k]|]| | |] eqn:En; cbn [bind] in H; try discriminate.
    + rewrite (T_next_char_some _ _ _ _ Hs En). cbn [bind].
      destruct (char_is_name c); [apply Estep; exact H|]. inversion H; subst. left. eauto.
    + inversion H; subst. right. apply NG_end. rewrite (T_next_char_none _ _ Hs En). lia.
Qed.

Lemma T_consume_qname s1 s2 pr lo s2' : sync s1 s2 -> consume_qname p s2 = Ok (pr, lo, s2') ->
  (exists s1', consume_qname text s1 = Ok (pr, lo, s1') /\ sync s1' s2') \/ NG (s_pos s2').
Proof.
  intros Hs H. unfold consume_qname in *.
  apply bind_ok in H. destruct H as [[sp s2a] [Hl H]]. cbv beta iota in H.
  pose proof Hs as (_ & _ & E & _).
  eapply (T_consume_qname_loop _ (S (length (s_rest s1)))) in Hl; [ | | exact Hs].
  2: { destruct (sync_rest _ _ Hs) as [R _]. rewrite R, firstn_length. lia. }
  destruct Hl as [(s1a & Hl1 & Hsa)|Hng].
  2: { right. apply bind_ok in H. destruct H as [[? ?] [_ H]]. cbv beta iota in H.
       repeat match type of H with (if ?b then _ else _) = _ => destruct b end;
       try (exfalso; eapply err_from_not_ok; eauto; fail). inversion H; subst. exact Hng. }
  rewrite E, Hl1. cbn [bind].
  apply bind_ok in H. destruct H as [[pr0 lo0] [Hsl H]]. cbv beta iota in H.
  assert (Hsl1 : (match sp with
                  | Some spv => let! p0 := mk_slice text (s_pos s2) spv in
                                let! l := slice_back text (spv + 1) s1a in Ok (p0, l)
                  | None => let! l := slice_back text (s_pos s2) s1a in
                            let! p0 := mk_slice text (s_pos s2) (s_pos s2) in Ok (p0, l)
                  end) = Ok (pr0, lo0) /\ sl_end pr0 <= n /\ sl_end lo0 <= n).
  { destruct sp as [spv|].
    - apply bind_ok in Hsl. destruct Hsl as [p0 [Hp0 Hsl]]. apply bind_ok in Hsl. destruct Hsl as [l0 [Hl0 Hsl]].
      inversion Hsl; subst. destruct (T_mk_slice _ _ _ Hp0) as [Hp1 Hpe].
      destruct (T_slice_back _ _ _ _ Hsa Hl0) as [Hl1' Hle]. rewrite Hp1. cbn [bind]. rewrite Hl1'. cbn [bind].
      split; [reflexivity|]. split; [|exact Hle].
      unfold mk_slice in Hp0. destruct (_ || _); [discriminate|]. destruct (_ && _); [|discriminate].
      inversion Hp0; subst. exact Hpe.
    - apply bind_ok in Hsl. destruct Hsl as [l0 [Hl0 Hsl]]. apply bind_ok in Hsl. destruct Hsl as [p0 [Hp0 Hsl]].
      inversion Hsl; subst. destruct (T_mk_slice _ _ _ Hp0) as [Hp1 Hpe].
      destruct (T_slice_back _ _ _ _ Hsa Hl0) as [Hl1' Hle]. rewrite Hl1'. cbn [bind]. rewrite Hp1. cbn [bind].
      split; [reflexivity|]. split; [|exact Hle].
      unfold mk_slice in Hp0. destruct (_ || _); [discriminate|]. destruct (_ && _); [|discriminate].
      inversion Hp0; subst. exact Hpe. }
  destruct Hsl1 as (Hsl1 & Hpe & Hle). rewrite Hsl1. cbn [bind].
  rewrite <- (T_slice_bytes _ Hpe), <- (T_slice_bytes _ Hle).
  repeat match type of H with (if ?b then _ else _) = _ => destruct b end;
    try (exfalso; eapply err_from_not_ok; eauto; fail).
  inversion H; subst. left. eauto.
Qed.

Lemma T_consume_eq s1 s2 s2' : sync s1 s2 -> consume_eq p s2 = Ok s2' ->
  (exists s1', consume_eq text s1 = Ok s1' /\ sync s1' s2') \/ NG (s_pos s2').
Proof.
  intros Hs H. pose proof Hs as (_ & W2 & _). unfold consume_eq in *. bsteps. posfacts.
  tsk. tb T_consume_byte. tsk. tfin.
Qed.

Lemma T_consume_quote s1 s2 q s2' : sync s1 s2 -> consume_quote p s2 = Ok (q, s2') ->
  (exists s1', consume_quote text s1 = Ok (q, s1') /\ sync s1' s2') \/ NG (s_pos s2').
Proof.
  intros Hs H. unfold consume_quote in *. bsteps. rewrite (T_cb _ _ _ Hs Hb). cbn [bind].
  rewrite Heqb. tb T_advance'. tfin.
Qed.

Lemma T_parse_attribute s1 s2 pr lo s2' : sync s1 s2 -> parse_attribute p s2 = Ok (pr, lo, s2') ->
  (exists s1', parse_attribute text s1 = Ok (pr, lo, s1') /\ sync s1' s2') \/ NG (s_pos s2').
Proof.
  intros Hs H. pose proof Hs as (_ & W2 & _). unfold parse_attribute in *. bsteps. posfacts.
  tb T_consume_qname. tb T_consume_eq. tb T_consume_quote.
  match goal with Hs : sync _ _, Hc : skip_chars p _ _ = Ok _ |- _ =>
    destruct (T_skip_chars _ _ _ _ (f_ok_const _) Hs Hc) as [(t2 & Hf2 & Hs2)|Hng];
    [rewrite Hf2; cbn [bind]; clear Hs | right; ng_done] end.
  match goal with Hs : sync _ _, Hc : slice_back p _ _ = Ok _ |- _ =>
    destruct (T_slice_back _ _ _ _ Hs Hc) as [Hsl _] end.
  match goal with Hc : consume_byte p _ _ = Ok _ |- _ =>
    eapply E_consume_byte0 in Hc; [|exact Hs2]; destruct Hc as (t3 & Hf3 & Hs3) end.
  destruct Hs2 as (? & ? & E & ?).
  rewrite E, Hsl. cbn [bind]. rewrite Hf3. cbn [bind]. left. eauto.
Qed.

Lemma T_parse_pseudo_attribute name s1 s2 s2' : sync s1 s2 -> parse_pseudo_attribute p name s2 = Ok s2' ->
  (exists s1', parse_pseudo_attribute text name s1 = Ok s1' /\ sync s1' s2') \/ NG (s_pos s2').
Proof.
  intros Hs H. unfold parse_pseudo_attribute in *. cbv zeta in *.
  apply bind_ok in H. destruct H as [[[pr lo] s2a] [Ha H]]. cbv beta iota in H.
  pose proof (parse_attribute_local_end _ _ _ _ _ Ha) as Hle. rewrite tlen_p in Hle.
  destruct (negb (slice_len pr =? 0) || negb (bytes_eqb (slice_bytes p lo) name)) eqn:Ec;
    [exfalso; eapply err_from_not_ok; eauto|].
  inversion H; subst s2a.
  destruct (T_parse_attribute _ _ _ _ _ Hs Ha) as [(s1' & Hf & Hs')|Hng]; [|right; exact Hng].
  rewrite Hf. cbn [bind]. rewrite <- (T_slice_bytes _ Hle), Ec. left. eauto.
Qed.

Lemma T_starts_with_space_false s1 s2 : sync s1 s2 -> starts_with_space s2 = false ->
  starts_with_space s1 = false \/ s_pos s2 = n.
Proof.
  intros Hs H. unfold starts_with_space in *. destruct (curr_byte_opt s2) eqn:E.
  - left. rewrite (T_cbo_some _ _ _ Hs E). exact H.
  - right. eapply T_cbo_none; eauto.
Qed.

Lemma T_decl_consume_spaces s1 s2 s2' : sync s1 s2 -> decl_consume_spaces p s2 = Ok s2' ->
  (exists s1', decl_consume_spaces text s1 = Ok s1' /\ sync s1' s2') \/ NG (s_pos s2').
Proof.
  intros Hs H. unfold decl_consume_spaces in *. destruct (starts_with_space s2) eqn:Esp.
  - rewrite (T_starts_with_space _ _ Hs Esp). inversion H; subst. tsk. tfin.
  - destruct (T_starts_with_space_false _ _ Hs Esp) as [E1|Hend].
    + rewrite E1. destruct (starts_with s2 (b "?>")) eqn:Esw.
      * rewrite (T_sw_true _ _ _ Hs Esw). cbn [negb andb] in *. inversion H; subst. left. eauto.
      * cbn [negb andb] in H. destruct (at_end s2) eqn:Ea; cbn [negb] in H.
        -- inversion H; subst. right. apply NG_end. rewrite (T_at_end_true _ _ Hs Ea). lia.
        -- bsteps.
    + assert (s2' = s2).
      { destruct (negb (starts_with s2 (b "?>")) && negb (at_end s2)); [bsteps|inversion H; reflexivity]. }
      subst. right. apply NG_end. lia.
Qed.

(* the primitives that cannot lose the full run *)
Lemma E_consume_byte c s1 s2 s2' : sync s1 s2 -> consume_byte p c s2 = Ok s2' ->
  exists s1', consume_byte text c s1 = Ok s1' /\ sync s1' s2'.
Proof.
  intros Hs H. unfold consume_byte in *. bsteps. rewrite (T_cb _ _ _ Hs Hb). cbn [bind].
  rewrite Heqb. eapply T_advance; eauto.
Qed.

Lemma E_skip_string pat s1 s2 s2' : sync s1 s2 -> skip_string p pat s2 = Ok s2' ->
  exists s1', skip_string text pat s1 = Ok s1' /\ sync s1' s2'.
Proof.
  intros Hs H. unfold skip_string in *. bsteps.
  assert (E : starts_with s2 pat = true) by (destruct (starts_with s2 pat); [reflexivity|discriminate]).
  rewrite (T_sw_true _ _ _ Hs E). cbn [negb]. eapply T_advance; eauto.
Qed.

Lemma E_advance_until2 a b0 s1 s2 s2' : sync s1 s2 -> advance_until2 a b0 s2 = Ok s2' ->
  exists s1', advance_until2 a b0 s1 = Ok s1' /\ sync s1' s2'.
Proof.
  intros Hs H. unfold advance_until2 in *. rewrite (sync_avail1 _ _ Hs).
  rewrite (sync_avail2 _ _ Hs) in H. destruct (sync_rest _ _ Hs) as [R _]. rewrite R in H.
  destruct (find_idx _ (firstn _ _)) eqn:E; [|discriminate].
  rewrite <- (firstn_skipn (N.to_nat (n - s_pos s2)) (s_rest s1)). rewrite (find_idx_app _ _ _ _ E).
  eapply T_advance; eauto.
Qed.

Lemma E_consume_quote s1 s2 q s2' : sync s1 s2 -> consume_quote p s2 = Ok (q, s2') ->
  exists s1', consume_quote text s1 = Ok (q, s1') /\ sync s1' s2'.
Proof.
  intros Hs H. unfold consume_quote in *. bsteps. rewrite (T_cb _ _ _ Hs Hb). cbn [bind].
  rewrite Heqb. destruct (T_advance _ _ _ _ Hs Hb0) as (t & Hf & Hs'). rewrite Hf. cbn [bind]. eauto.
Qed.

(* drive the full side by the shape of its next operation *)
Ltac twstep_s :=
  match goal with
  | |- (exists _, ?F = _ /\ _) \/ _ =>
    match F with
    | bind (Ok _) _ => cbn [bind]
    | bind (bind _ _) _ => rewrite bind_assoc
    | bind (advance _ _) _ => tb T_advance'
    | bind (consume_byte _ _ _) _ => tb T_consume_byte
    | bind (skip_string _ _ _) _ => tb T_skip_string
    | bind (consume_spaces _ _) _ => tb T_consume_spaces
    | bind (advance_until2 _ _ _) _ => tb T_advance_until2
    | bind (consume_name _ _) _ => tb T_consume_name
    | bind (consume_qname _ _) _ => tb T_consume_qname
    | bind (consume_eq _ _) _ => tb T_consume_eq
    | bind (consume_quote _ _) _ => tb T_consume_quote
    | bind (parse_pseudo_attribute _ _ _) _ => tb T_parse_pseudo_attribute
    | bind (decl_consume_spaces _ _) _ => tb T_decl_consume_spaces
    | skip_string _ _ _ => tb T_skip_string
    | consume_byte _ _ _ => tb T_consume_byte
    | context [starts_with _ _] => tsw; cbn [negb]; cbv iota
    | context [skip_spaces _] => tsk
    | context [skip_bytes _ _] => tsk
    end
  end.

Lemma T_parse_declaration s1 s2 s2' : sync s1 s2 -> parse_declaration p s2 = Ok s2' ->
  (exists s1', parse_declaration text s1 = Ok s1' /\ sync s1' s2') \/ NG (s_pos s2').
Proof.
  intros Hs H. pose proof Hs as (_ & W2 & _). unfold parse_declaration in *.
  apply bind_ok in H. destruct H as [sa [Ha H]]. cbv beta in H.
  apply bind_ok in H. destruct H as [sb [Hb H]]. cbv beta in H.
  destruct (starts_with sb (b "version")) eqn:Ev; cbn [negb] in H.
  2: { unfold skip_string in H. rewrite Ev in H. cbn [negb] in H. exfalso. eapply err_at_not_ok; eauto. }
  bsteps; posfacts; cbv zeta; repeat twstep_s; try tfin.
Qed.

Lemma T_swd_true s1 s2 : sync s1 s2 -> starts_with_declaration s2 = true -> starts_with_declaration s1 = true.
Proof.
  intros Hs H. unfold starts_with_declaration in *. apply andb_true_iff in H. destruct H as [H1 H2].
  rewrite (T_sw_true _ _ _ Hs H1). cbn [andb].
  rewrite (sync_avail1 _ _ Hs). rewrite (sync_avail2 _ _ Hs) in H2. destruct (sync_rest _ _ Hs) as [R _].
  rewrite R in H2. destruct (nth_error (firstn _ _) 5) eqn:E; [|discriminate].
  assert (nth_error (s_rest s1) 5 = Some n0).
  { rewrite <- (firstn_skipn (N.to_nat (n - s_pos s2)) (s_rest s1)). rewrite nth_error_app1; [exact E|].
    apply nth_error_Some. congruence. }
  rewrite H. exact H2.
Qed.

Lemma prefix_b_eq pat : forall l, prefix_b pat l = true -> (length l <= length pat)%nat -> l = pat.
Proof.
  induction pat as [|a pat IH]; intros l H Hl; [destruct l; [reflexivity|cbn in Hl; lia]|].
  destruct l as [|x l]; [discriminate|]. cbn [prefix_b length] in *.
  apply andb_true_iff in H. destruct H as [H1 H2]. assert (a = x) by lia. subst. f_equal.
  apply IH; [exact H2|lia].
Qed.

Lemma T_swd_false s1 s2 : sync s1 s2 -> starts_with_declaration s2 = false ->
  starts_with_declaration s1 = false \/ NG (s_pos s2).
Proof.
  intros Hs H. unfold starts_with_declaration in *.
  destruct (starts_with s2 (b "<?xml")) eqn:E1; cbn [andb] in H.
  - rewrite (T_sw_true _ _ _ Hs E1). cbn [andb].
    rewrite (sync_avail1 _ _ Hs). rewrite (sync_avail2 _ _ Hs) in H. destruct (sync_rest _ _ Hs) as [R _].
    destruct (nth_error (s_rest s2) 5) eqn:E.
    + left. rewrite R in E.
      assert (Hx : nth_error (s_rest s1) 5 = Some n0).
      { rewrite <- (firstn_skipn (N.to_nat (n - s_pos s2)) (s_rest s1)). rewrite nth_error_app1; [exact E|].
        apply nth_error_Some. congruence. }
      rewrite Hx. exact H.
    + right. apply (NG_rest _ _ Hs). apply nth_error_None in E.
      unfold starts_with in E1. rewrite (sync_avail2 _ _ Hs) in E1.
      rewrite (prefix_b_eq _ _ E1) by (replace (length (b "<?xml")) with 5%nat by reflexivity; lia). intros Hin; vm_compute in Hin; intuition discriminate.
  - destruct (T_sw_false _ _ (b "<?xml") Hs ltac:(pat_ok_tac) E1) as [Hf|Hng]; [left; rewrite Hf; reflexivity|right; exact Hng].
Qed.

End Trunc.

Ltac ng_done :=
  first [ eapply NG_mono; [ assumption | assumption | | eassumption ]; lia
        | apply NG_end; [ assumption | assumption | lia ] ].
