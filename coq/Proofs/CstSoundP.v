(* Proofs/CstSoundP.v -- C08, soundness half WITH A PROLOG AND ENTITIES, on stage S5 of
   Spec/CstFullS5.v (S3 = Unicode + namespaces + pieces + internal DTD subset with character-data
   general entities, plus BOM, XML declaration, DOCTYPE with external id, parameter / external /
   unparsed entity declarations, ELEMENT / ATTLIST / NOTATION, comments / PIs in the subset): the
   fragment, the statements and sanity examples.

   [in_fragment_p text] (all computed from the bytes of the input; the conditions marked (scan)
   look at every place where a keyword occurs, so they are over-approximations: the keyword may
   occur inside a comment, a CDATA section or a value):
     P0  valid_utf8_b text
     P1  no CR byte (as CstSoundN.v N1; S5 allows CR in markup white space and in character data,
         but not in comment / PI bodies, and its line-end proviso for entities (crlf_split_ok)
         would need more conditions; left for a later refinement)
     P2  [charrefs_scalar text]                                   (T4 of CstSoundT.v)
     P3  [no_colon_start text], [pi_targets_nc text]              (N4, N5 of CstSoundN.v)
     P4  [xml_pi_ok text]: no processing instruction named exactly "xml" (the documented leniency
         <?xml?>): "<?xml" is followed by a name byte or by SP ("<?xml " is refused by the crate
         wherever a PI may stand: a misplaced XML declaration), except at the very beginning (after
         a BOM), where it may be followed by any white space: the XML declaration
     P5  [decl_names_ok text]: in the XML declaration the pseudo-attribute names are exactly
         version / encoding / standalone.  FORMER FINDING: the crate tested starts_with "version"
         (resp. "encoding", "standalone") and then read a qualified name, so <?xml versionX='1.0'?>,
         <?xml version:x='1.0'?>, <?xml version='1.0' encodingX='u'?> were accepted.
         FIXED in the crate (D23): now rejected (InvalidString, parse_pseudo_attribute); the
         condition is kept, it is now redundant
     P6  [names_nc text] (scan): the name after "<!DOCTYPE", after "<!ENTITY" (and "%"), after "NDATA"
         contains no ':'.  FINDING (as N5): Namespaces in XML forbid colons in entity and notation
         names; the crate accepts <!ENTITY a:b 'v'> and &a:b; , NDATA n:m, <!DOCTYPE a:b> (the last
         one is fine for XML but S5 has CstU.wf_name for it)
     P7  [ndata_sp text]: "NDATA" is not glued to the closing quote of the system literal.
         FORMER FINDING: <!ENTITY e SYSTEM 'x'NDATA n> was accepted (skip_spaces instead of S).
         FIXED in the crate (D23): now rejected (InvalidChar2 "a whitespace"); the condition is
         kept, it is now redundant
     (D23) the crate now also checks the external identifiers: the system literal consists of
     Chars (NonXmlChar otherwise), the public literal of PubidChars (InvalidExternalID otherwise);
     no condition of the fragment is needed for S5.wf_syslit / S5.wf_publit.
     P8  [ge_values_ok text] (scan): the literal of every general entity declaration is character
         data in the sense of S5 (CstFull.wf_uepieces q false true true): no '<' (markup-valued
         entities are the documents of S4, not of S5), no '%', no "]]>", every '&' starts a
         character reference to a Char other than TAB LF CR '&' '<' or a reference &n; with an ASCII
         NCName n.  This is the documented leniency "never-referenced entity values": the crate
         does not look at the value of an entity that is not referenced (<!ENTITY e '&x'>,
         <!ENTITY e ']]>'> are accepted; <!ENTITY e '&u;'> with u undeclared is accepted too, but
         that one IS well formed for S5 as long as e is not used), and it reads
         character references when the entity is USED (so &#38; &#60; &#13; inside a value are
         accepted but mean something else than in XML: (F) of Spec/CstEnt.v)
   ':' "xmlns" "<!D" "<?xml" and the BOM are allowed.
   [in_fragment_p0 text] adds
     P9  [no_ge_refs text]: every '&' is followed by '#' or by a predefined name and ';': no reference
         to a declared entity is used anywhere (first milestone: the prolog alone). *)
From Coq Require Import String.
From Coq Require Import List NArith Bool Lia.
Import ListNotations.
From RX Require Import Generated.
From RX.Model Require Import Base CharClass Stream Tokenizer Doc Builder Parse.
From RX.Spec Require Cst Chars CstU CstNs CstText CstEnt Scope.
From RX.Spec Require Import CstFull CstFullS5.
From RX.Proofs Require Import CstSound CstSoundT CstSoundN.
Open Scope N_scope.

(* ---- scanning ---- *)
Fixpoint all_suffixes (P : bytes -> bool) (l : bytes) : bool :=
  match l with [] => P [] | x :: r => P l && all_suffixes P r end.
Definition is_sp (x : N) : bool := (x =? 32) || (x =? 9) || (x =? 10) || (x =? 13).
Fixpoint skip_ws (l : bytes) : bytes := match l with x :: r => if is_sp x then skip_ws r else l | [] => [] end.
Fixpoint take_until (q : N) (l : bytes) : bytes := match l with x :: r => if x =? q then [] else x :: take_until q r | [] => [] end.
Definition drop_name (l : bytes) : bytes := skipn (length (name_run l)) l.
Definition nc_name (l : bytes) : bool := negb (mem_b 58 (name_run l)).
Definition strip_bom (l : bytes) : bytes := if prefix_b [239; 187; 191] l then skipn 3 l else l.

(* P4 *)
Definition starts_decl (l : bytes) : bool :=
  prefix_b [60; 63; 120; 109; 108] l && match nth_error l 5 with Some x => is_sp x | None => false end.
Definition xml_at (l : bytes) : bool :=
  match l with 60 :: 63 :: 120 :: 109 :: 108 :: r => match r with x :: _ => name_byte x || (x =? 32) | [] => false end | _ => true end.
Definition xml_pi_ok (text : bytes) : bool :=
  let l := strip_bom text in (starts_decl l || xml_at l) && all_suffixes xml_at (tl l).

(* P5: the declaration lies between the first byte and the next '<' *)
Definition kw_end_ok (kw l : bytes) : bool :=
  if prefix_b kw l then match skipn (length kw) l with x :: _ => negb (name_byte x) | [] => true end else true.
Definition decl_names_ok (text : bytes) : bool :=
  let l := strip_bom text in
  if starts_decl l then
    all_suffixes (fun s => kw_end_ok kw_version s && kw_end_ok kw_encoding s && kw_end_ok kw_standalone s)
                 (take_until 60 (tl l))
  else true.

(* P6 *)
Definition is_pe (r : bytes) : bool := match r with x :: _ => x =? 37 | [] => false end.
Definition names_nc (text : bytes) : bool :=
  all_suffixes (fun s =>
    (if prefix_b (b "<!DOCTYPE") s then nc_name (skip_ws (skipn 9 s)) else true) &&
    (if prefix_b (b "<!ENTITY") s then
       let r := skip_ws (skipn 8 s) in nc_name (if is_pe r then skip_ws (tl r) else r)
     else true) &&
    (if prefix_b (b "NDATA") s then nc_name (skip_ws (skipn 5 s)) else true)) text.

(* P7 *)
Definition ndata_sp (text : bytes) : bool :=
  negb (contains_b (39 :: b "NDATA") text) && negb (contains_b (34 :: b "NDATA") text).

(* P8 *)
(* [l] is what follows "&#" *)
Definition charref_val_ok (l : bytes) : bool :=
  let '(hex, r) := match l with 120 :: r => (true, r) | _ => (false, l) end in
  let '(ds, r') := span (T.is_digit hex) r in
  match ds, r' with
  | _ :: _, 59 :: _ =>
    let c := T.ref_val hex ds in
    Chars.xml_Char c && negb ((c =? 9) || (c =? 10) || (c =? 13) || (c =? 38) || (c =? 60))
  | _, _ => false
  end.
(* [l] is what follows '&' *)
Definition ref_name_ok (l : bytes) : bool :=
  let n := name_run l in
  match n with
  | x :: _ => byte_is_name_start x && forallb (fun y => y <? 128) n && negb (mem_b 58 n) &&
              match skipn (length n) l with 59 :: _ => true | _ => false end
  | [] => false
  end.
Definition amp_ok (l : bytes) : bool :=
  match l with 38 :: 35 :: r => charref_val_ok r | 38 :: r => ref_name_ok r | _ => true end.
Definition ge_value_ok (v : bytes) : bool :=
  negb (mem_b 60 v) && negb (mem_b 37 v) && negb (contains_b [93; 93; 62] v) && all_suffixes amp_ok v.
Definition lit_ok (l : bytes) : bool :=
  match l with
  | q :: v => if (q =? 39) || (q =? 34) then ge_value_ok (take_until q v) else true
  | [] => true
  end.
Definition ge_decl_ok (s : bytes) : bool :=
  if prefix_b (b "<!ENTITY") s then
    let r := skip_ws (skipn 8 s) in if is_pe r then true else lit_ok (skip_ws (drop_name r))
  else true.
Definition ge_values_ok (text : bytes) : bool := all_suffixes ge_decl_ok text.

(* P9 *)
Definition predef_at (l : bytes) : bool :=
  existsb (fun n => prefix_b (n ++ [59]) l) [b "amp"; b "lt"; b "gt"; b "apos"; b "quot"].
Definition is_hash (l : bytes) : bool := match l with x :: _ => x =? 35 | [] => false end.
Definition no_ge_refs (text : bytes) : bool :=
  all_suffixes (fun s => match s with x :: r => if x =? 38 then is_hash r || predef_at r else true | [] => true end) text.

Definition in_fragment_p (text : bytes) : bool :=
  valid_utf8_b text && negb (mem_b 13 text) && charrefs_scalar text &&
  no_colon_start text && pi_targets_nc text &&
  xml_pi_ok text && decl_names_ok text && names_nc text && ndata_sp text && ge_values_ok text.
Definition in_fragment_p0 (text : bytes) : bool := in_fragment_p text && no_ge_refs text.

Definition parse_sound_fragment_p_stmt : Prop :=
  forall text opt d, in_fragment_p text = true -> allow_dtd opt = true -> parse text opt = Ok d ->
  exists c : S5.doc, S5.wf_doc c = true /\ S5.render c = text.
Definition parse_sound_fragment_p0_stmt : Prop :=
  forall text opt d, in_fragment_p0 text = true -> allow_dtd opt = true -> parse text opt = Ok d ->
  exists c : S5.doc, S5.wf_doc c = true /\ S5.render c = text.

(* ---- sanity examples ---- *)
Definition od : options := {| allow_dtd := true; nodes_limit := 100000 |}.
Definition acc (text : bytes) : bool := match parse text od with Ok _ => true | _ => false end.
Definition witness_p (c : S5.doc) : bool := let text := S5.render c in in_fragment_p text && acc text && S5.wf_doc c.
Definition witness_p0 (c : S5.doc) : bool := let text := S5.render c in in_fragment_p0 text && acc text && S5.wf_doc c.

Definition elay ws w1 w2 q := {| CstNs.l_ws := b ws; CstNs.l_ws1 := b w1; CstNs.l_ws2 := b w2; CstNs.l_quote := q |}.
Definition eat p l v : entry epieces := EAttr (elay " " "" "" 34) (qn p l) v.
Definition edc p u : entry epieces := EDecl (elay " " "" "" 39) p u.
Definition eel p l es cs : item epieces := IElem (qn p l) es [] (Some (cs, [])).
Definition eem p l es : item epieces := IElem (qn p l) es [] None.
Definition etx (r : list E.epiece) : item epieces := @IText epieces r.
Definition elit (x : string) := E.EP (T.PLit (b x)).
Definition gdecl n v : E.edecl :=
  {| E.e_ws0 := [10]; E.e_ws1 := [32]; E.e_name := n; E.e_ws2 := [32]; E.e_quote := 34; E.e_value := E.EText v; E.e_ws3 := [] |}.
Definition pse ws w1 w2 q v : pseudo := {| p_ws := b ws; p_ws1 := b w1; p_ws2 := b w2; p_quote := q; p_value := b v |}.
Definition mkp (bom : bool) (xd : option xmldecl) (g : option S5.dtd_part) (root : item epieces) : S5.doc :=
  {| S5.x_bom := bom; S5.x_decl := xd; S5.x_dtd := g;
     S5.x_main := {| d_before := [(IComment (b " c "), [10])]; d_ws0 := [10]; d_root := root;
                     d_after := [([10], IPI (b "xml-stylesheet") [32] (b "href='a:b'"))]; d_ws_end := [10] |} |}.

Definition xd1 : xmldecl :=
  {| xd_version := pse " " "" " " 39 "1.0"; xd_encoding := Some (pse "	" "" "" 34 "UTF-8 & 'anything' > goes");
     xd_standalone := Some (pse " " " " "" 39 "maybe"); xd_ws := b " " |}.
Definition sub1 : subset :=
  {| u_decls :=
       [ SMisc [10] (IComment (b " in the subset "));
         SParam [10] [32] [32] (b "u") [32] (PLiteral 39 (b "a <b> & %c; ""d""")) [32];
         SExternal [10] [9] (b "u") [32] (XPublic [32] 39 (b "-//X//Y") [10] 34 (b "u'.ent")) None [32];
         SExternal [10] [32] (b "pic") [32] (XSystem [32] 34 (b "p>.gif")) (Some ([32], [9], b "gif")) [];
         SEntity (gdecl (b "u") [elit "urn:"; E.ERef (b "n")]);
         SMarkup [10] MElement (b " r (#PCDATA|c)*");
         SMarkup [] MAttlist (b " r a CDATA ""<&'"" xmlns:p CDATA #FIXED 'urn:x'");
         SMarkup [32] MElement [];
         SMarkup [10] MNotation (b " gt SYSTEM '>""' ""]>'""");      (* '>' and the other quote inside a literal *)
         SEntity (gdecl (b "n") [elit "v"; E.EP (T.PCharRef true (b "41")); E.EP (T.PPredef T.Gt)]);
         SMisc [10] (IPI (b "pi") [32] (b "in the subset"));
         SEntity (gdecl (b "u") [elit "ignored"]) ];
     u_ws3 := [10]; u_ws4 := [32] |}.
Definition dt1 : doctype :=
  {| t_ws1 := [32]; t_name := [21517]; t_ws2 := [32; 10];
     t_ext := Some (XPublic [32] 34 (b "-//A//B 'C'//EN") [10] 39 (b "http://x/""r"".dtd"), [10]);
     t_subset := Some sub1 |}.
Definition g1 : S5.dtd_part := {| S5.g_ws0 := [10]; S5.g_before := [(IComment (b "before"), [10]); (IPI (b "p") [] [], [])]; S5.g_dtd := dt1 |}.

(* an accepted document with everything, references to declared entities in text, in an attribute
   value and in the URI of a namespace declaration *)
Example exp_ok1 : witness_p (mkp true (Some xd1) (Some g1)
  (eel (b "p") [21517] [edc (b "p") [E.ERef (b "u")]; eat [] (b "a") [E.ERef (b "n"); elit "x"]]
       [etx [E.ERef (b "u"); elit " t "]; eem [] (b "c") []])) = true.
Proof. vm_compute. reflexivity. Qed.
(* the same prolog without references in the body: the first milestone *)
Definition xd0 : xmldecl :=
  {| xd_version := pse " " "" "" 39 "1.0"; xd_encoding := Some (pse " " "" "" 34 "UTF-8"); xd_standalone := Some (pse " " "" "" 39 "yes"); xd_ws := [] |}.
Example exp_ok0 : witness_p0 (mkp true (Some xd0)
  (Some {| S5.g_ws0 := [10]; S5.g_before := []; S5.g_dtd :=
           {| t_ws1 := [32]; t_name := b "r"; t_ws2 := [32]; t_ext := Some (XSystem [32] 39 (b "r.dtd"), []);
              t_subset := Some {| u_decls := [SEntity (gdecl (b "e") [elit "v"; E.EP (T.PPredef T.Amp)]);
                                              SParam [10] [32] [32] (b "u") [32] (PExternal (XSystem [32] 34 (b "pe.ent"))) [];
                                              SMarkup [10] MNotation (b " gif PUBLIC ""image/gif""")];
                                  u_ws3 := []; u_ws4 := [] |} |} |})
  (eel [] (b "r") [eat [] (b "a") [elit "x"; E.EP (T.PPredef T.Lt)]] [etx [elit "t"; E.EP (T.PCharRef false (b "38"))]])) = true.
Proof. vm_compute. reflexivity. Qed.
Example exp_ok2 : forallb witness_p0
  [ mkp false None None (eem [] (b "r") []);
    mkp true None None (eem [] (b "r") []);
    mkp false (Some {| xd_version := pse " " "" "" 34 "1.1"; xd_encoding := None; xd_standalone := None; xd_ws := [] |}) None (eem [] (b "r") []);
    mkp false None (Some {| S5.g_ws0 := []; S5.g_before := []; S5.g_dtd := {| t_ws1 := [32]; t_name := b "r"; t_ws2 := []; t_ext := None; t_subset := None |} |})
        (eem [] (b "r") []) ] = true.
Proof. vm_compute. reflexivity. Qed.

(* inputs of the fragment that are rejected: the remaining clauses of C08 *)
Example exp_rej : forallb (fun t => in_fragment_p (b t) && negb (acc (b t)))
  [ " <?xml version='1.0'?><r/>"; "<!--c--><?xml version='1.0'?><r/>"; "<?xml version='1.0'?><?xml version='1.0'?><r/>";
    "<r/><?xml version='1.0'?>"; "<r><?xml version='1.0'?></r>";                       (* misplaced / repeated XML declaration *)
    "<?xml encoding='x' version='1.0'?><r/>"; "<?xml version='1.0' standalone='yes' encoding='x'?><r/>";
    "<?xml version='1.0'encoding='x'?><r/>"; "<?xml ?><r/>"; "<?xml version='1<0'?><r/>";
    "<r>&e;</r>"; "<!DOCTYPE r><r>&e;</r>"; "<!DOCTYPE r [<!ENTITY e 'v'>]><r>&f;</r>";   (* undefined entity references *)
    "<!DOCTYPE r [<!ENTITY % e 'v'>]><r>&e;</r>"; "<!DOCTYPE r [<!ENTITY e SYSTEM 'x'>]><r>&e;</r>";
    "<!DOCTYPE r [<!ENTITY e '&f;'><!ENTITY f 'v'>]><r>&e;&g;</r>";
    "<!DOCTYPE r [<!ENTITY e '&e;'>]><r>&e;</r>";                                         (* recursion *)
    "<!DOCTYPE r [<!ENTITY e '&f;'><!ENTITY f '&e;'>]><r a='&f;'/>";
    "<!DOCTYPE r [<!ENTITY e '&lt;'>]><r a='&e;'/>";                                      (* '<' into a value through an entity *)
    "<!DOCTYPE r><!DOCTYPE r><r/>"; "<r/><!DOCTYPE r>"; "<!DOCTYPE r [<!ENTITY % p 'x'> %p;]><r/>";   (* the DTD syntax *)
    "<!DOCTYPE r PUBLIC 'p'><r/>"; "<!DOCTYPE r [<r/>]><r/>"; "<!DOCTYPE r [<!ELEMENT r ANY]><r/>";
    "<!DOCTYPE r [<![CDATA[x]]>]><r/>"; "<!DOCTYPE r [] ]><r/>"; "<!DOCTYPE [<!ENTITY e 'v'>]><r/>"; "<!DOCTYPE r SYSTEM><r/>";
    "<!DOCTYPE r [<!ENTITY e SYSTEM 'x' NDATA>]><r/>"; "<!DOCTYPE r [<!ENTITY %e 'v'>]><r/>"; "<!DOCTYPE r>";
    "<!DOCTYPE r [<!ATTLIST r a CDATA '>]><r/>"; "<!DOCTYPE r [<!ELEMENT r (a"")>]><r/>";   (* an unclosed literal in a skipped declaration *)
    "<!DOCTYPE r SYSTEM'x'><r/>" ]%string = true.
Proof. vm_compute. reflexivity. Qed.

(* FINDINGS and documented leniencies: accepted, not renderings of S5 documents; each is excluded by
   exactly the condition named *)
Example cexp_xml_pi : forallb (fun t => acc (b t) && negb (xml_pi_ok (b t)))       (* P4: documented, <?xml?> *)
  [ "<?xml?><r/>"; "<r/><?xml?>"; "<r><?xml	v?></r>"; "<!DOCTYPE r [<?xml?>]><r/>" ]%string = true.
Proof. vm_compute. reflexivity. Qed.
(* (D23) formerly accepted (P5 was a FINDING): now rejected by the crate, and still outside P5 *)
Example cexp_decl_names : forallb (fun t => negb (acc (b t)) && negb (decl_names_ok (b t)))
  [ "<?xml versionX='1.0'?><r/>"; "<?xml version:x='1.0'?><r/>"; "<?xml version='1.0' encodingX='u'?><r/>";
    "<?xml version='1.0' standalone.='u'?><r/>" ]%string = true.
Proof. vm_compute. reflexivity. Qed.
Example cexp_names_nc : forallb (fun t => acc (b t) && negb (names_nc (b t)))       (* P6: FINDING (entity / notation names) *)
  [ "<!DOCTYPE r [<!ENTITY a:b 'v'>]><r>&a:b;</r>"; "<!DOCTYPE r [<!ENTITY % a:b 'v'>]><r/>";
    "<!DOCTYPE r [<!ENTITY e SYSTEM 'x' NDATA n:m>]><r/>"; "<!DOCTYPE a:b><a:b xmlns:a='u'/>" ]%string = true.
Proof. vm_compute. reflexivity. Qed.
(* (D23) formerly accepted (P7 was a FINDING): now rejected by the crate, and still outside P7 *)
Example cexp_ndata : forallb (fun t => negb (acc (b t)) && negb (ndata_sp (b t)))
  [ "<!DOCTYPE r [<!ENTITY e SYSTEM 'x'NDATA n>]><r/>"; "<!DOCTYPE r [<!ENTITY e PUBLIC 'p' ""x""NDATA n>]><r/>" ]%string = true.
Proof. vm_compute. reflexivity. Qed.
Example cexp_ge_values : forallb (fun t => acc (b t) && negb (ge_values_ok (b t)))   (* P8: documented; S4 for markup values *)
  [ "<!DOCTYPE r [<!ENTITY e '<b/>'>]><r>&e;</r>";          (* a markup-valued entity: a document of S4 *)
    "<!DOCTYPE r [<!ENTITY e '<b>'>]><r/>"; "<!DOCTYPE r [<!ENTITY e '&x'>]><r/>"; "<!DOCTYPE r [<!ENTITY e '&:u;'>]><r/>";
    "<!DOCTYPE r [<!ENTITY e ']]>'>]><r/>"; "<!DOCTYPE r [<!ENTITY e '%'>]><r>&e;</r>";
    "<!DOCTYPE r [<!ENTITY e '&#38;'>]><r>&e;</r>"; "<!DOCTYPE r [<!ENTITY e '&#60;'>]><r>&e;</r>";
    "<!DOCTYPE r [<!ENTITY e 'x&#10;'>]><r>&e;</r>"; "<!DOCTYPE r [<!ENTITY e '&#0;'>]><r/>" ]%string = true.
Proof. vm_compute. reflexivity. Qed.
(* an unused entity whose value refers to an undeclared entity is inside the fragment and well formed for S5 *)
Example exp_unused_undeclared : witness_p (mkp false None
  (Some {| S5.g_ws0 := []; S5.g_before := []; S5.g_dtd :=
           {| t_ws1 := [32]; t_name := b "r"; t_ws2 := []; t_ext := None;
              t_subset := Some {| u_decls := [SEntity (gdecl (b "e") [E.ERef (b "u")])]; u_ws3 := []; u_ws4 := [] |} |} |})
  (eem [] (b "r") [])) = true.
Proof. vm_compute. reflexivity. Qed.
