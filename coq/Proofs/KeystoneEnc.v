(* Proofs/KeystoneEnc.v -- algebra of the arena encoding of Spec/Tree.v:
   unfolding lemmas, lengths, dependence of [enc] on the arena size, the zipper
   decomposition of [encode], and indexed list maps. *)
From Coq Require Import List NArith Bool Lia ZifyBool ZifyN ZifyNat.
From RX.Model Require Import Base.
From RX.Spec Require Import Tree.
Import ListNotations.
Open Scope N_scope.

(* ------------------------------------------------------------------ *)
(** * Induction on trees *)

Section TreeInd.
  Variable P : tree -> Prop.
  Variable Q : list tree -> Prop.
  Hypothesis HT : forall k cs, Q cs -> P (T k cs).
  Hypothesis HN : Q [].
  Hypothesis HC : forall c r, P c -> Q r -> Q (c :: r).

  Fixpoint tree_mut (t : tree) : P t :=
    match t with
    | T k cs =>
      HT k cs ((fix go (l : list tree) : Q l :=
                  match l with
                  | [] => HN
                  | c :: r => HC c r (tree_mut c) (go r)
                  end) cs)
    end.

  Fixpoint trees_mut (l : list tree) : Q l :=
    match l with
    | [] => HN
    | c :: r => HC c r (tree_mut c) (trees_mut r)
    end.

  Lemma tree_mutind : (forall t, P t) /\ (forall l, Q l).
  Proof. split; [exact tree_mut | exact trees_mut]. Qed.
End TreeInd.

(* ------------------------------------------------------------------ *)
(** * len_N *)

Lemma len_N_nil {A} : len_N (@nil A) = 0.
Proof. reflexivity. Qed.

Lemma len_N_cons {A} (x : A) l : len_N (x :: l) = 1 + len_N l.
Proof. unfold len_N. cbn [length]. lia. Qed.

Lemma len_N_app {A} (l1 l2 : list A) : len_N (l1 ++ l2) = len_N l1 + len_N l2.
Proof. unfold len_N. rewrite app_length. lia. Qed.

Lemma len_N_map {A B} (f : A -> B) l : len_N (map f l) = len_N l.
Proof. unfold len_N. rewrite map_length. reflexivity. Qed.

(* ------------------------------------------------------------------ *)
(** * size, sizes *)

Lemma size_T k cs : size (T k cs) = 1 + sizes cs.
Proof. reflexivity. Qed.

Lemma sizes_nil : sizes [] = 0.
Proof. reflexivity. Qed.

Lemma sizes_cons c r : sizes (c :: r) = size c + sizes r.
Proof. reflexivity. Qed.

Lemma sizes_app l1 l2 : sizes (l1 ++ l2) = sizes l1 + sizes l2.
Proof.
  induction l1 as [|c r IH]; cbn [app].
  - rewrite sizes_nil. lia.
  - rewrite !sizes_cons, IH. lia.
Qed.

Lemma size_pos t : 1 <= size t.
Proof. destruct t as [k cs]. rewrite size_T. lia. Qed.

(* ------------------------------------------------------------------ *)
(** * enc, enc_children *)

Definition row_of (n : N) (par prev : option N) (id : N) (k : kind) (cs : list tree) : links :=
  {| l_kind := k; l_parent := par; l_prev := prev;
     l_last := last_child_id (id + 1) cs;
     l_next_subtree := if id + (1 + sizes cs) <? n then Some (id + (1 + sizes cs)) else None |}.

Lemma enc_T n par prev id k cs :
  enc n par prev id (T k cs) =
  row_of n par prev id k cs :: enc_children n (Some id) None (id + 1) cs.
Proof.
  cbn [enc]. unfold row_of. rewrite size_T. f_equal.
  generalize (@None N) (id + 1).
  induction cs as [|c r IH]; intros pv cid; [reflexivity|].
  cbn [enc_children]. rewrite <- IH. reflexivity.
Qed.

Lemma enc_children_nil n par prev cid : enc_children n par prev cid [] = [].
Proof. reflexivity. Qed.

Lemma enc_children_cons n par prev cid c r :
  enc_children n par prev cid (c :: r) =
  enc n par prev cid c ++ enc_children n par (Some cid) (cid + size c) r.
Proof. reflexivity. Qed.

Lemma last_child_id_cons_ne first c r :
  r <> [] -> last_child_id first (c :: r) = last_child_id (first + size c) r.
Proof. destruct r; [congruence|reflexivity]. Qed.

Lemma last_child_id_app_one cs : forall first c,
  last_child_id first (cs ++ [c]) = Some (first + sizes cs).
Proof.
  induction cs as [|a r IH]; intros first c.
  - cbn [app last_child_id]. rewrite sizes_nil. f_equal. lia.
  - cbn [app]. rewrite last_child_id_cons_ne.
    + rewrite IH, sizes_cons. f_equal. lia.
    + destruct r; discriminate.
Qed.

(* the prev link of the node that follows the children [l] (first of them at [cid]) *)
Fixpoint prev_after (prev : option N) (cid : N) (l : list tree) : option N :=
  match l with
  | [] => prev
  | c :: r => prev_after (Some cid) (cid + size c) r
  end.

Lemma prev_after_last l : forall prev cid,
  prev_after prev cid l = match l with [] => prev | _ => last_child_id cid l end.
Proof.
  induction l as [|c r IH]; intros prev cid; [reflexivity|].
  cbn [prev_after]. rewrite IH. destruct r; reflexivity.
Qed.

Lemma prev_after_None cid l : prev_after None cid l = last_child_id cid l.
Proof. rewrite prev_after_last. destruct l; reflexivity. Qed.

Lemma enc_children_app n par l1 : forall prev cid l2,
  enc_children n par prev cid (l1 ++ l2) =
  enc_children n par prev cid l1 ++
  enc_children n par (prev_after prev cid l1) (cid + sizes l1) l2.
Proof.
  induction l1 as [|c r IH]; intros prev cid l2.
  - cbn [app enc_children prev_after]. rewrite sizes_nil. f_equal. lia.
  - cbn [app prev_after]. rewrite !enc_children_cons, IH, <- app_assoc.
    replace (cid + sizes (c :: r)) with (cid + size c + sizes r) by (rewrite sizes_cons; lia).
    reflexivity.
Qed.

Lemma enc_children_snoc n par prev cid cs c :
  enc_children n par prev cid (cs ++ [c]) =
  enc_children n par prev cid cs ++ enc n par (prev_after prev cid cs) (cid + sizes cs) c.
Proof.
  rewrite enc_children_app, enc_children_cons, enc_children_nil, app_nil_r. reflexivity.
Qed.

(* ------------------------------------------------------------------ *)
(** * Lengths *)

Lemma enc_len_both n :
  (forall t par prev id, len_N (enc n par prev id t) = size t) /\
  (forall l par prev cid, len_N (enc_children n par prev cid l) = sizes l).
Proof.
  apply tree_mutind.
  - intros k cs IH par prev id. rewrite enc_T, len_N_cons, IH, size_T. reflexivity.
  - intros. reflexivity.
  - intros c r IHc IHr par prev cid.
    rewrite enc_children_cons, len_N_app, IHc, IHr, sizes_cons. reflexivity.
Qed.

Lemma enc_len n par prev id t : len_N (enc n par prev id t) = size t.
Proof. apply enc_len_both. Qed.

Lemma enc_children_len n par prev cid l : len_N (enc_children n par prev cid l) = sizes l.
Proof. apply enc_len_both. Qed.

(* ------------------------------------------------------------------ *)
(** * Dependence on the arena size *)

Lemma enc_ext_both n n' :
  (forall t par prev id, id + size t < n -> id + size t < n' ->
     enc n par prev id t = enc n' par prev id t) /\
  (forall l par prev cid, cid + sizes l < n -> cid + sizes l < n' ->
     enc_children n par prev cid l = enc_children n' par prev cid l).
Proof.
  apply tree_mutind.
  - intros k cs IH par prev id H1 H2. rewrite size_T in H1, H2.
    rewrite !enc_T. f_equal.
    + unfold row_of. f_equal.
      destruct (id + (1 + sizes cs) <? n) eqn:E1; destruct (id + (1 + sizes cs) <? n') eqn:E2;
        try reflexivity; lia.
    + apply IH; lia.
  - intros. reflexivity.
  - intros c r IHc IHr par prev cid H1 H2. rewrite sizes_cons in H1, H2.
    rewrite !enc_children_cons. f_equal.
    + apply IHc; lia.
    + apply IHr; lia.
Qed.

Lemma enc_ext n n' t par prev id :
  id + size t < n -> id + size t < n' -> enc n par prev id t = enc n' par prev id t.
Proof. apply enc_ext_both. Qed.

Lemma enc_children_ext n n' l par prev cid :
  cid + sizes l < n -> cid + sizes l < n' ->
  enc_children n par prev cid l = enc_children n' par prev cid l.
Proof. apply enc_ext_both. Qed.

(* rows without a next subtree get [v] *)
Definition bump (v : N) (r : links) : links :=
  match l_next_subtree r with
  | None => {| l_kind := l_kind r; l_parent := l_parent r; l_prev := l_prev r;
               l_last := l_last r; l_next_subtree := Some v |}
  | Some _ => r
  end.

Lemma enc_bump_both n :
  (forall t par prev id, id + size t <= n ->
     enc (n + 1) par prev id t = map (bump n) (enc n par prev id t)) /\
  (forall l par prev cid, cid + sizes l <= n ->
     enc_children (n + 1) par prev cid l = map (bump n) (enc_children n par prev cid l)).
Proof.
  apply tree_mutind.
  - intros k cs IH par prev id H1. rewrite size_T in H1.
    rewrite !enc_T. cbn [map]. f_equal.
    + unfold row_of, bump. cbn [l_next_subtree l_kind l_parent l_prev l_last].
      destruct (id + (1 + sizes cs) <? n + 1) eqn:E1; [|lia].
      destruct (id + (1 + sizes cs) <? n) eqn:E2; [reflexivity|].
      f_equal. f_equal. lia.
    + apply IH. lia.
  - intros. reflexivity.
  - intros c r IHc IHr par prev cid H1. rewrite sizes_cons in H1.
    rewrite !enc_children_cons, map_app. f_equal.
    + apply IHc. lia.
    + apply IHr. lia.
Qed.

Lemma enc_children_bump n l par prev cid :
  cid + sizes l <= n ->
  enc_children (n + 1) par prev cid l = map (bump n) (enc_children n par prev cid l).
Proof. apply enc_bump_both. Qed.

(* ------------------------------------------------------------------ *)
(** * Rows without next subtree *)

Definition has_next (r : links) : bool :=
  match l_next_subtree r with Some _ => true | None => false end.

Lemma enc_all_next_both n :
  (forall t par prev id, id + size t < n -> forallb has_next (enc n par prev id t) = true) /\
  (forall l par prev cid, cid + sizes l < n ->
     forallb has_next (enc_children n par prev cid l) = true).
Proof.
  apply tree_mutind.
  - intros k cs IH par prev id H1. rewrite size_T in H1.
    rewrite enc_T. cbn [forallb]. rewrite IH by lia.
    unfold row_of, has_next. cbn [l_next_subtree].
    destruct (id + (1 + sizes cs) <? n) eqn:E; [reflexivity|lia].
  - intros. reflexivity.
  - intros c r IHc IHr par prev cid H1. rewrite sizes_cons in H1.
    rewrite enc_children_cons, forallb_app, IHc, IHr by lia. reflexivity.
Qed.

Lemma enc_children_all_next n l par prev cid :
  cid + sizes l < n -> forallb has_next (enc_children n par prev cid l) = true.
Proof. apply enc_all_next_both. Qed.

(* ids (offset + position) of the rows whose next subtree is None *)
Fixpoint none_ids (off : N) (rows : list links) : list N :=
  match rows with
  | [] => []
  | r :: rs => (if has_next r then [] else [off]) ++ none_ids (off + 1) rs
  end.

Lemma none_ids_app rows1 : forall off rows2,
  none_ids off (rows1 ++ rows2) = none_ids off rows1 ++ none_ids (off + len_N rows1) rows2.
Proof.
  induction rows1 as [|r rs IH]; intros off rows2.
  - cbn [app none_ids]. rewrite len_N_nil. f_equal. lia.
  - cbn [app none_ids]. rewrite IH, <- app_assoc, len_N_cons. do 3 f_equal. lia.
Qed.

Lemma none_ids_all_next rows : forall off,
  forallb has_next rows = true -> none_ids off rows = [].
Proof.
  induction rows as [|r rs IH]; intros off H; [reflexivity|].
  cbn [forallb] in H. apply andb_true_iff in H. destruct H as [H1 H2].
  cbn [none_ids]. rewrite H1, IH by assumption. reflexivity.
Qed.

Lemma has_next_bump v r : has_next (bump v r) = true.
Proof. unfold has_next, bump. destruct (l_next_subtree r) eqn:E; cbn; [rewrite E|]; reflexivity. Qed.

Lemma forallb_has_next_bump v rows : forallb has_next (map (bump v) rows) = true.
Proof.
  induction rows as [|r rs IH]; [reflexivity|].
  cbn [map forallb]. rewrite has_next_bump, IH. reflexivity.
Qed.

Lemma none_ids_ge rows : forall off i, In i (none_ids off rows) -> off <= i < off + len_N rows.
Proof.
  induction rows as [|r rs IH]; intros off i H; [destruct H|].
  cbn [none_ids] in H. rewrite len_N_cons. apply in_app_or in H. destruct H as [H|H].
  - destruct (has_next r); [destruct H|]. destruct H as [H|[]]. lia.
  - apply IH in H. lia.
Qed.

Lemma none_ids_nth rows : forall off j r,
  nth_error rows j = Some r ->
  (In (off + N.of_nat j) (none_ids off rows) <-> has_next r = false).
Proof.
  induction rows as [|x rs IH]; intros off j r Hn.
  - destruct j; discriminate.
  - destruct j as [|j]; cbn [nth_error] in Hn.
    + injection Hn as ->. cbn [none_ids]. rewrite N.add_0_r. split.
      * intros H. apply in_app_or in H. destruct H as [H|H].
        -- destruct (has_next r); [destruct H|reflexivity].
        -- apply none_ids_ge in H. lia.
      * intros H. rewrite H. left. reflexivity.
    + cbn [none_ids]. specialize (IH (off + 1) j r Hn).
      replace (off + N.of_nat (S j)) with (off + 1 + N.of_nat j) by lia.
      rewrite <- IH. split.
      * intros H. apply in_app_or in H. destruct H as [H|H]; [|exact H].
        destruct (has_next x); [destruct H|]. destruct H as [H|[]]. lia.
      * intros H. apply in_or_app. right. exact H.
Qed.

(* ------------------------------------------------------------------ *)
(** * Zipper: frames innermost first *)

Definition frame := (kind * list tree)%type.

(* the tree around a hole filled with [t]; [outer] is innermost first *)
Fixpoint plug (outer : list frame) (t : tree) : tree :=
  match outer with
  | [] => t
  | (k, cs) :: o => plug o (T k (cs ++ [t]))
  end.

(* id of the node in the hole = number of rows before it *)
Fixpoint zoff (outer : list frame) : N :=
  match outer with
  | [] => 0
  | (k, cs) :: o => zoff o + 1 + sizes cs
  end.

Definition zpar (outer : list frame) : option N :=
  match outer with
  | [] => None
  | _ :: o => Some (zoff o)
  end.

Definition zprev (outer : list frame) : option N :=
  match outer with
  | [] => None
  | (k, cs) :: o => last_child_id (zoff o + 1) cs
  end.

(* the row of an open node: last child given, no next subtree *)
Definition open_row (k : kind) (par prev last : option N) : links :=
  {| l_kind := k; l_parent := par; l_prev := prev; l_last := last; l_next_subtree := None |}.

(* the rows before the hole *)
Fixpoint zpre (n : N) (outer : list frame) : list links :=
  match outer with
  | [] => []
  | (k, cs) :: o =>
    zpre n o ++
    open_row k (zpar o) (zprev o) (Some (zoff o + 1 + sizes cs))
    :: enc_children n (Some (zoff o)) None (zoff o + 1) cs
  end.

Lemma size_plug outer : forall t, size (plug outer t) = zoff outer + size t.
Proof.
  induction outer as [|[k cs] o IH]; intros t; cbn [plug zoff].
  - lia.
  - rewrite IH, size_T, sizes_app, sizes_cons, sizes_nil. lia.
Qed.

Lemma zpre_len n outer : len_N (zpre n outer) = zoff outer.
Proof.
  induction outer as [|[k cs] o IH]; cbn [zpre zoff]; [reflexivity|].
  rewrite len_N_app, len_N_cons, IH, enc_children_len. lia.
Qed.

Lemma zpre_ext n n' outer :
  zoff outer < n -> zoff outer < n' -> zpre n outer = zpre n' outer.
Proof.
  induction outer as [|[k cs] o IH]; intros H1 H2; cbn [zpre zoff] in *; [reflexivity|].
  rewrite IH by lia. f_equal. f_equal. apply enc_children_ext; lia.
Qed.

Lemma enc_plug n outer : forall t,
  n = zoff outer + size t ->
  enc n None None 0 (plug outer t) =
  zpre n outer ++ enc n (zpar outer) (zprev outer) (zoff outer) t.
Proof.
  induction outer as [|[k cs] o IH]; intros t Hn; cbn [plug zpre zoff zpar zprev].
  - reflexivity.
  - cbn [zoff] in Hn. rewrite IH.
    2:{ rewrite size_T, sizes_app, sizes_cons, sizes_nil. lia. }
    rewrite <- app_assoc. f_equal.
    rewrite enc_T, enc_children_snoc. cbn [app]. f_equal.
    + unfold row_of, open_row. rewrite last_child_id_app_one.
      rewrite sizes_app, sizes_cons, sizes_nil.
      destruct (zoff o + (1 + (sizes cs + (size t + 0))) <? n) eqn:E; [lia|].
      reflexivity.
    + rewrite prev_after_None. reflexivity.
Qed.

(* the tree of a zipper whose innermost open node is [T k cs] *)
Definition ztree (k : kind) (cs : list tree) (outer : list frame) : tree := plug outer (T k cs).

Lemma encode_ztree k cs outer :
  let pid := zoff outer in
  let n := pid + 1 + sizes cs in
  encode (ztree k cs outer) =
  zpre n outer ++
  open_row k (zpar outer) (zprev outer) (last_child_id (pid + 1) cs)
  :: enc_children n (Some pid) None (pid + 1) cs.
Proof.
  intros pid n. unfold encode, ztree. rewrite size_plug, size_T.
  replace (zoff outer + (1 + sizes cs)) with n by (unfold n, pid; lia).
  rewrite enc_plug by (rewrite size_T; unfold n, pid; lia).
  f_equal. rewrite enc_T. f_equal.
  unfold row_of, open_row. fold pid.
  destruct (pid + (1 + sizes cs) <? n) eqn:E; [unfold n in E; lia|reflexivity].
Qed.

(* ------------------------------------------------------------------ *)
(** * Indexed maps *)

Fixpoint mapi_N {A} (off : N) (g : N -> A -> A) (l : list A) : list A :=
  match l with
  | [] => []
  | x :: r => g off x :: mapi_N (off + 1) g r
  end.

Lemma mapi_N_app {A} (g : N -> A -> A) l1 : forall off l2,
  mapi_N off g (l1 ++ l2) = mapi_N off g l1 ++ mapi_N (off + len_N l1) g l2.
Proof.
  induction l1 as [|x r IH]; intros off l2.
  - cbn [app mapi_N]. rewrite len_N_nil. f_equal. lia.
  - cbn [app mapi_N]. rewrite IH, len_N_cons. do 3 f_equal. lia.
Qed.

Lemma mapi_N_ext {A} (g h : N -> A -> A) l : forall off,
  (forall i x, off <= i -> i < off + len_N l -> g i x = h i x) ->
  mapi_N off g l = mapi_N off h l.
Proof.
  induction l as [|x r IH]; intros off H; [reflexivity|].
  cbn [mapi_N]. rewrite len_N_cons in H. f_equal.
  - apply H; lia.
  - apply IH. intros i y H1 H2. apply H; lia.
Qed.

Lemma mapi_N_id {A} (g : N -> A -> A) l : forall off,
  (forall i x, off <= i -> i < off + len_N l -> g i x = x) ->
  mapi_N off g l = l.
Proof.
  induction l as [|x r IH]; intros off H; [reflexivity|].
  cbn [mapi_N]. rewrite len_N_cons in H. f_equal.
  - apply H; lia.
  - apply IH. intros i y H1 H2. apply H; lia.
Qed.

Lemma mapi_N_comp {A} (g h : N -> A -> A) l : forall off,
  mapi_N off g (mapi_N off h l) = mapi_N off (fun i x => g i (h i x)) l.
Proof.
  induction l as [|x r IH]; intros off; [reflexivity|].
  cbn [mapi_N]. rewrite IH. reflexivity.
Qed.

Lemma map_mapi_N {A B} (f : A -> B) (g : N -> A -> A) (g' : N -> B -> B) l : forall off,
  (forall i x, f (g i x) = g' i (f x)) ->
  map f (mapi_N off g l) = mapi_N off g' (map f l).
Proof.
  induction l as [|x r IH]; intros off H; [reflexivity|].
  cbn [mapi_N map]. rewrite H, IH by assumption. reflexivity.
Qed.

Lemma mapi_N_len {A} (g : N -> A -> A) l : forall off, len_N (mapi_N off g l) = len_N l.
Proof.
  induction l as [|x r IH]; intros off; [reflexivity|].
  cbn [mapi_N]. rewrite !len_N_cons, IH. reflexivity.
Qed.

Lemma list_upd_mapi_N {A} (f : A -> A) l : forall i off l',
  list_upd l i f = Some l' ->
  l' = mapi_N off (fun j x => if j =? off + N.of_nat i then f x else x) l /\
  N.of_nat i < len_N l.
Proof.
  induction l as [|x r IH]; intros i off l' H.
  - destruct i; discriminate.
  - destruct i as [|i]; cbn [list_upd] in H.
    + injection H as <-. cbn [mapi_N]. rewrite len_N_cons. split; [|lia].
      replace (off =? off + N.of_nat 0) with true by lia. f_equal.
      symmetry. apply mapi_N_id. intros j y H1 H2.
      replace (j =? off + N.of_nat 0) with false by lia. reflexivity.
    + destruct (list_upd r i f) as [r'|] eqn:E; [|discriminate].
      injection H as <-. apply (IH i (off + 1)) in E. destruct E as [E1 E2].
      rewrite len_N_cons. split; [|lia].
      cbn [mapi_N]. replace (off =? off + N.of_nat (S i)) with false by lia. f_equal.
      rewrite E1. apply mapi_N_ext. intros j y H1 H2.
      replace (off + 1 + N.of_nat i) with (off + N.of_nat (S i)) by lia. reflexivity.
Qed.

