(* Proofs/CstSoundTMain.v -- C08 soundness on the fragment of Spec/CstText.v: start tags and the
   content loop with the real callback, inverted.  New w.r.t. CstSoundMain.v: attribute values and
   text tokens come with their pieces (CstSoundTText.v), CDATA tokens, and consecutive text / CDATA
   tokens are gathered in ONE run (T.IText). *)
From Coq Require Import String.
From Coq Require Import List Arith NArith Bool Lia ZifyBool ZifyN ZifyNat.
Import ListNotations.
From RX Require Import Generated.
From RX.Model Require Import Base CharClass Stream Tokenizer Doc Builder Parse.
From RX.Spec Require Cst.
From RX.Spec Require CstText.
From RX.Proofs Require Import Tactics CstLex CstTextLex.
From RX.Proofs Require CstBuild RejectProofs CstTextItems CstSoundMain.
From RX.Proofs Require Import CstSound CstSoundT CstSoundTLex CstSoundBuild CstSoundTBuild CstSoundTText.
Open Scope N_scope.

Notation tr_items := CstTextItems.tr_items.
Notation twf_items := CstTextItems.twf_items.

Definition levels_t := list (list T.item * bytes).

Fixpoint r_levels_t (names : list bytes) (lv : levels_t) : bytes :=
  match names, lv with
  | n :: ns, (cs, w) :: lv' => tr_items cs ++ [60; 47] ++ n ++ w ++ [62] ++ r_levels_t ns lv'
  | _, _ => []
  end.

Definition lv_wf_t (lv : levels_t) : Prop :=
  Forall (fun cw => twf_items (fst cw) = true /\ T.no_adjacent_text (fst cw) = true /\
                    Cst.wf_ws (snd cw) = true) lv.

(* the run at the head of the innermost level, if any, does not start with a literal *)
Definition head_ok (lv : levels_t) : Prop :=
  match lv with (T.IText (p :: _) :: _, _) :: _ => T.is_lit p = false | _ => True end.

(* ---- gathering text fragments into runs ---- *)
Definition cons_text (ps : list T.piece) (cs : list T.item) : list T.item :=
  match cs with T.IText qs :: r => T.IText (ps ++ qs) :: r | _ => T.IText ps :: cs end.

Lemma r_pieces_app a c : T.r_pieces (a ++ c) = T.r_pieces a ++ T.r_pieces c.
Proof. unfold T.r_pieces. apply flat_map_app. Qed.

Lemma tr_cons_text ps cs : tr_items (cons_text ps cs) = T.r_pieces ps ++ tr_items cs.
Proof.
  destruct cs as [|[n a w bd|qs|bs|t s v] r]; cbn [cons_text CstTextItems.tr_items]; try reflexivity.
  cbn [T.r_item]. rewrite r_pieces_app, <- app_assoc. reflexivity.
Qed.

Lemma no_adj_lit_app : forall ps qs, T.no_adjacent_lit ps = true -> T.no_adjacent_lit qs = true ->
  match qs with q :: _ => T.is_lit q = false | [] => True end -> T.no_adjacent_lit (ps ++ qs) = true.
Proof.
  induction ps as [|a ps IH]; intros qs H1 H2 Hq; [exact H2|].
  destruct ps as [|c r].
  - cbn [app]. destruct qs as [|q qs']; [reflexivity|].
    change (negb (T.is_lit a && T.is_lit q) && T.no_adjacent_lit (q :: qs') = true). rewrite Hq, andb_false_r. exact H2.
  - change (negb (T.is_lit a && T.is_lit c) && T.no_adjacent_lit (c :: r) = true) in H1.
    apply andb_true_iff in H1. destruct H1 as [A B].
    change (negb (T.is_lit a && T.is_lit c) && T.no_adjacent_lit ((c :: r) ++ qs) = true).
    rewrite A. apply IH; assumption.
Qed.

Definition tparts_ok (ps : list T.piece) : Prop :=
  forallb T.wf_tpiece ps = true /\ T.no_adjacent_lit ps = true /\ ps <> [].

Lemma wf_text_intro ps : tparts_ok ps -> T.wf_text ps = true.
Proof. intros (A & B & D). unfold T.wf_text. rewrite A, B. destruct ps; [congruence|reflexivity]. Qed.

Lemma wf_text_merge ps qs : tparts_ok ps -> T.wf_text qs = true ->
  T.no_adjacent_lit (ps ++ qs) = true -> T.wf_text (ps ++ qs) = true.
Proof.
  intros (A & B & D) Hq Hn. unfold T.wf_text in *. apply andb_true_iff in Hq. destruct Hq as [Hq Q3].
  apply andb_true_iff in Hq. destruct Hq as [_ Q2].
  rewrite forallb_app, A, Q2, Hn. destruct ps; [congruence|reflexivity].
Qed.

Lemma no_adj_text_cons_text ps cs : T.no_adjacent_text cs = true -> T.no_adjacent_text (cons_text ps cs) = true.
Proof.
  intros H. destruct cs as [|[n a w bd|qs|bs|t s v] r]; cbn [cons_text]; try reflexivity.
  - change (negb (true && false) && T.no_adjacent_text (T.IElem n a w bd :: r) = true). exact H.
  - destruct r as [|c0 r']; [reflexivity|]. exact H.
  - change (negb (true && false) && T.no_adjacent_text (T.IComment bs :: r) = true). exact H.
  - change (negb (true && false) && T.no_adjacent_text (T.IPI t s v :: r) = true). exact H.
Qed.

Lemma twf_cons_text ps cs : tparts_ok ps -> twf_items cs = true ->
  (forall qs r, cs = T.IText qs :: r -> T.wf_text qs = true -> T.no_adjacent_lit (ps ++ qs) = true) ->
  twf_items (cons_text ps cs) = true.
Proof.
  intros Hp Hc Hh. destruct cs as [|[n a w bd|qs|bs|t s v] r]; cbn [cons_text CstTextItems.twf_items] in *.
  - cbn [T.wf_item]. rewrite (wf_text_intro _ Hp). reflexivity.
  - cbn [T.wf_item] in *. rewrite (wf_text_intro _ Hp). exact Hc.
  - apply andb_true_iff in Hc. destruct Hc as [Hq Hr]. cbn [T.wf_item] in *. rewrite Hr, andb_true_r.
    apply wf_text_merge; [exact Hp|exact Hq|]. apply (Hh qs r eq_refl Hq).
  - cbn [T.wf_item] in *. rewrite (wf_text_intro _ Hp). exact Hc.
  - cbn [T.wf_item] in *. rewrite (wf_text_intro _ Hp). exact Hc.
Qed.

Lemma wf_text_no_adj qs : T.wf_text qs = true -> T.no_adjacent_lit qs = true.
Proof. unfold T.wf_text. intros H. apply andb_true_iff in H. tauto. Qed.

Section MainT.
Variable text : bytes.
Hypothesis HF : FragT text.
Notation T_ := (Parse.token text).
Notation st := (CstLex.st text).
Notation W := (CstLex.W text).
Notation sb := (slice_bytes text).
Notation SimT := (SimT text).
Notation InTagT := (InTagT text).
Notation evs := (CstLex.evs context T_).

Lemma not_xmlns_at_t p x l : W p (x ++ l) -> x <> xmlns_bytes.
Proof.
  intros HW ->. pose proof (W_noprefix text _ _ _ HW (fr_xmlns _ HF) ltac:(discriminate)) as H.
  unfold xmlns_bytes in H. rewrite prefix_b_app_same in H. discriminate.
Qed.

(* a raw attribute with the pieces of its value *)
Definition with_pieces (a : Cst.attr) (ps : list T.piece) : T.attr :=
  {| T.a_ws := Cst.a_ws a; T.a_name := Cst.a_name a; T.a_ws1 := Cst.a_ws1 a; T.a_ws2 := Cst.a_ws2 a;
     T.a_quote := Cst.a_quote a; T.a_value := ps |}.

Lemma with_pieces_ok a ps : attr_raw_ok a = true -> Cst.a_value a = T.r_pieces ps -> pieces_ok ps ->
  T.r_attr (with_pieces a ps) = Cst.r_attr a /\ T.wf_attr (with_pieces a ps) = true.
Proof.
  intros Hraw Ev Hps. split.
  - unfold T.r_attr, Cst.r_attr, with_pieces. cbn [T.a_ws T.a_name T.a_ws1 T.a_ws2 T.a_quote T.a_value]. rewrite Ev. reflexivity.
  - unfold attr_raw_ok in Hraw. repeat (apply andb_true_iff in Hraw; destruct Hraw as [Hraw ?]).
    assert (Hv : T.wf_value (Cst.a_quote a) ps = true).
    { eapply pieces_wf_value; [exact Hps|symmetry; exact Ev|assumption]. }
    unfold T.wf_attr, with_pieces. cbn [T.a_ws T.a_name T.a_ws1 T.a_ws2 T.a_quote T.a_value].
    rewrite Hv. repeat (apply andb_true_iff; split); auto.
Qed.

Lemma attrs_steps_t : forall raws q rest c1 c2 stk tp tn cur,
  W q (flat_map Cst.r_attr raws ++ rest) -> forallb attr_raw_ok raws = true -> InTagT c1 stk tp tn cur ->
  evs (attr_toks q raws) c1 = Ok c2 ->
  InTagT c2 stk tp tn (cur ++ map Cst.a_name raws) /\ erows c2 = erows c1 /\ attrs_of c2 = attrs_of c1 /\
  exists tas, flat_map T.r_attr tas = flat_map Cst.r_attr raws /\ map T.a_name tas = map Cst.a_name raws /\
              forallb T.wf_attr tas = true /\ Forall (fun a => T.a_name a <> xmlns_bytes) tas.
Proof.
  induction raws as [|a raws IH]; intros q rest c1 c2 stk tp tn cur HW Hraw HI H.
  - cbn [attr_toks CstLex.evs] in H. inversion H; subst. cbn [map]. rewrite app_nil_r.
    split; [exact HI|]. split; [reflexivity|]. split; [reflexivity|]. exists []. repeat split; constructor.
  - cbn [attr_toks CstLex.evs] in H. ib H c1' H1. cbn [flat_map] in HW. rewrite <- app_assoc in HW.
    cbn [forallb] in Hraw. apply andb_true_iff in Hraw. destruct Hraw as [Hra Hraws].
    (* the windows of the name and of the value *)
    pose proof HW as HWa. unfold Cst.r_attr in HWa. rewrite <- !app_assoc in HWa.
    pose proof (W_app text _ _ _ HWa) as Hn. pose proof (W_app text _ _ _ Hn) as H2.
    pose proof (W_app text _ _ _ H2) as H3. pose proof (W_app text _ _ _ H3) as H4.
    pose proof (W_app text _ _ _ H4) as H5. pose proof (W_app text _ _ _ H5) as Hv.
    change (blen [61]) with 1 in *. change (blen [Cst.a_quote a]) with 1 in *.
    assert (Hnx : Cst.a_name a <> xmlns_bytes) by (eapply not_xmlns_at_t; exact Hn).
    unfold attr_tok in H1. cbv zeta in H1.
    destruct (step_attr_t text HF _ _ _ _ _ _ _ _ _ _ _ _ _ _ _ _ HI Hn Hv Hnx H1) as (HI' & R1 & A1 & ps & Eps & Hps).
    destruct (IH _ _ _ _ _ _ _ _ (W_app text _ _ _ HW) Hraws HI' H) as (HI2 & R2 & A2 & tas & T1 & T2 & T3 & T4).
    rewrite <- app_assoc in HI2. split; [exact HI2|]. split; [congruence|]. split; [congruence|].
    destruct (with_pieces_ok a ps Hra Eps Hps) as (W1 & W2).
    exists (with_pieces a ps :: tas). cbn [flat_map map forallb]. rewrite W1, T1, T2, W2, T3.
    repeat split. constructor; [exact Hnx|exact T4].
Qed.

Definition elem_ok_t (name : bytes) (attrs : list T.attr) (ws_end : bytes) : Prop :=
  Cst.wf_name name = true /\ name <> xmlns_bytes /\ forallb T.wf_attr attrs = true /\
  Forall (fun a => T.a_name a <> xmlns_bytes) attrs /\
  Cst.names_distinct (map T.a_name attrs) = true /\ Cst.wf_ws ws_end = true.

Lemma tag_sound_t p name raws ws_end open l' c c1 c2 c' stk :
  W p ([60] ++ name ++ flat_map Cst.r_attr raws ++ ws_end ++ tag_tail (negb open) ++ l') ->
  Cst.wf_name name = true -> forallb attr_raw_ok raws = true -> Cst.wf_ws ws_end = true -> SimT c stk ->
  T_ (TElementStart (sl (p + 1) (p + 1)) (sl (p + 1) (p + 1 + blen name)) p) c = Ok c1 ->
  evs (attr_toks (p + 1 + blen name) raws) c1 = Ok c2 ->
  T_ (end_tok (p + 1 + blen name + blen (flat_map Cst.r_attr raws) + blen ws_end) (negb open)) c2 = Ok c' ->
  SimT c' (if open then name :: stk else stk) /\
  (exists ns ar nss pid sl0 K0, erows c' = erows c ++ K0 ++ [(Some pid, KElement ns sl0 ar nss)]) /\
  exists tas, flat_map T.r_attr tas = flat_map Cst.r_attr raws /\ elem_ok_t name tas ws_end.
Proof.
  intros HW Hname Hraw Hwe HS H1 H2 H3.
  pose proof (W_app text _ _ _ HW) as HW1. change (blen [60]) with 1 in HW1.
  pose proof (W_slice text _ _ _ HW1) as Sname.
  pose proof (W_app text _ _ _ HW1) as HW2.
  destruct (step_start_t text _ _ _ _ _ _ HS (CstBuild.slice_empty text _) H1) as (HI & R1 & A1).
  destruct (attrs_steps_t _ _ _ _ _ _ _ _ _ HW2 Hraw HI H2) as (HI2 & R2 & A2 & tas & T1 & T2 & T3 & T4).
  cbn [app] in HI2. unfold end_tok in H3.
  destruct (step_tagend_t text (if negb open then EEmpty else EOpen) _ _ _ _ _ _ _ HI2 (CstBuild.slice_empty text _)
              ltac:(destruct open; auto) H3) as (Hnd & HS' & (ns & ar & nss & Hrows) & A3 & Hat).
  rewrite Sname in HS'.
  split; [destruct open; exact HS'|]. split.
  { exists ns, ar, nss, (c_parent_id c2), (sl (p + 1) (p + 1 + blen name)), []. rewrite Hrows, R2, R1. reflexivity. }
  exists tas. split; [exact T1|]. split; [exact Hname|]. split; [eapply not_xmlns_at_t; exact HW1|].
  split; [exact T3|]. split; [exact T4|]. split; [rewrite T2; apply CstSoundMain.NoDup_names_distinct; exact Hnd|exact Hwe].
Qed.

Lemma wf_elem_intro_t name attrs ws_end body : elem_ok_t name attrs ws_end ->
  match body with
  | None => True
  | Some (cs, ws2) => Cst.wf_ws ws2 = true /\ T.no_adjacent_text cs = true /\ twf_items cs = true
  end -> T.wf_item (T.IElem name attrs ws_end body) = true.
Proof.
  intros (H1 & H2 & H3 & H4 & H5 & H6) Hb. rewrite CstTextItems.twf_item_elem. rewrite H1, H3, H5, H6.
  unfold T.is_xmlns.
  destruct (list_eq_dec N.eq_dec name [120; 109; 108; 110; 115]) as [E|_]; [exfalso; apply H2; exact E|]. cbn [negb andb].
  assert (Hx : forallb (fun a => negb (if list_eq_dec N.eq_dec (T.a_name a) [120; 109; 108; 110; 115] then true else false)) attrs = true).
  { apply forallb_forall. intros a Ha. rewrite Forall_forall in H4. specialize (H4 a Ha).
    destruct (list_eq_dec N.eq_dec (T.a_name a) [120; 109; 108; 110; 115]) as [E|_]; [exfalso; apply H4; exact E|reflexivity]. }
  rewrite Hx. cbn [andb]. destruct body as [[cs ws2]|]; [|reflexivity].
  destruct Hb as (B1 & B2 & B3). rewrite B1, B2, B3. reflexivity.
Qed.

(* ---- the content loop ---- *)
Definition Closed_t (depth : N) (l : bytes) (stk : list bytes) (s' : stream) (c' : context) : Prop :=
  exists lv l' p' opn rest,
    stk = opn ++ rest /\ length opn = length lv /\ N.of_nat (length lv) = depth + 1 /\
    l = r_levels_t opn lv ++ l' /\ s' = st p' l' /\ W p' l' /\ SimT c' rest /\
    (text_stop l -> head_ok lv) /\ lv_wf_t lv.

(* a non-text item in front *)
Lemma Closed_prepend_t depth i l1 stk s' c' :
  Closed_t depth l1 stk s' c' -> T.wf_item i = true -> T.is_text i = false ->
  Closed_t depth (T.r_item i ++ l1) stk s' c'.
Proof.
  intros (lv & l' & p' & opn & rest & E1 & E2 & E3 & E4 & E5 & E6 & E7 & E9 & E10) Hwf Htx.
  destruct lv as [|[cs w] lv']; [cbn [length] in E3; lia|].
  destruct opn as [|n opn']; [cbn [length] in E2; lia|].
  exists ((i :: cs, w) :: lv'), l', p', (n :: opn'), rest.
  split; [exact E1|]. split; [exact E2|]. split; [exact E3|]. split.
  { rewrite E4. cbn [r_levels_t CstTextItems.tr_items]. rewrite <- !app_assoc. reflexivity. }
  split; [exact E5|]. split; [exact E6|]. split; [exact E7|]. split.
  { intros _. destruct i; try exact I. discriminate. }
  inversion E10 as [|? ? (A1 & A2 & A3) Hr]; subst. cbn [fst snd] in *.
  constructor; [|exact Hr]. cbn [fst snd CstTextItems.twf_items]. rewrite Hwf, A1. split; [reflexivity|]. split; [|exact A3].
  destruct cs as [|c0 r]; [reflexivity|].
  change (T.no_adjacent_text (i :: c0 :: r)) with
    (negb (T.is_text i && T.is_text c0) && T.no_adjacent_text (c0 :: r)).
  rewrite A2, Htx. reflexivity.
Qed.

(* a text fragment in front: it joins the run at the head, if there is one *)
Lemma Closed_prepend_frag depth ps l1 stk s' c' :
  Closed_t depth l1 stk s' c' -> tparts_ok ps ->
  (forall lv qs r w lv', lv = (T.IText qs :: r, w) :: lv' -> (text_stop l1 -> head_ok lv) -> T.wf_text qs = true ->
     T.no_adjacent_lit (ps ++ qs) = true) ->
  (text_stop (T.r_pieces ps ++ l1) -> match ps with q :: _ => T.is_lit q = false | [] => True end) ->
  Closed_t depth (T.r_pieces ps ++ l1) stk s' c'.
Proof.
  intros (lv & l' & p' & opn & rest & E1 & E2 & E3 & E4 & E5 & E6 & E7 & E9 & E10) Hps Hmerge Hhd.
  destruct lv as [|[cs w] lv']; [cbn [length] in E3; lia|].
  destruct opn as [|n opn']; [cbn [length] in E2; lia|].
  exists ((cons_text ps cs, w) :: lv'), l', p', (n :: opn'), rest.
  split; [exact E1|]. split; [exact E2|]. split; [exact E3|]. split.
  { rewrite E4. cbn [r_levels_t]. rewrite tr_cons_text, <- !app_assoc. reflexivity. }
  split; [exact E5|]. split; [exact E6|]. split; [exact E7|]. split.
  { intros Hs. specialize (Hhd Hs). destruct Hps as (_ & _ & Hne). destruct ps as [|q ps']; [congruence|].
    destruct cs as [|[n0 a0 w0 bd|qs|bs|t s v] r]; cbn [cons_text head_ok app]; exact Hhd. }
  inversion E10 as [|? ? (A1 & A2 & A3) Hr]; subst. cbn [fst snd] in *.
  constructor; [|exact Hr]. cbn [fst snd]. split; [|split; [apply no_adj_text_cons_text; exact A2|exact A3]].
  apply twf_cons_text; [exact Hps|exact A1|].
  intros qs r -> Hq. eapply Hmerge; [reflexivity|exact E9|exact Hq].
Qed.

(* the pieces of a text token: what follows starts with '<' *)
Lemma Closed_prepend_text depth ps l1 stk s' c' :
  Closed_t depth l1 stk s' c' -> tparts_ok ps -> text_stop l1 ->
  (text_stop (T.r_pieces ps ++ l1) -> match ps with q :: _ => T.is_lit q = false | [] => True end) ->
  Closed_t depth (T.r_pieces ps ++ l1) stk s' c'.
Proof.
  intros HC Hps Hst Hhd. apply Closed_prepend_frag; [exact HC|exact Hps| |exact Hhd].
  intros lv qs r w lv' -> Hh Hq. specialize (Hh Hst). cbn [head_ok] in Hh.
  apply no_adj_lit_app; [apply Hps|apply wf_text_no_adj; exact Hq|]. destruct qs; [exact I|exact Hh].
Qed.

(* one CDATA section *)
Lemma Closed_prepend_cdata depth bs l1 stk s' c' :
  Closed_t depth l1 stk s' c' -> T.wf_tpiece (T.PCData bs) = true ->
  Closed_t depth (T.cdata_open ++ bs ++ T.cdata_close ++ l1) stk s' c'.
Proof.
  intros HC Hwf.
  pose proof (Closed_prepend_frag depth [T.PCData bs] l1 stk s' c' HC) as H.
  cbn [T.r_pieces flat_map T.r_piece] in H. rewrite app_nil_r, <- !app_assoc in H. apply H.
  - split; [cbn [forallb]; rewrite Hwf; reflexivity|]. split; [reflexivity|discriminate].
  - intros lv qs r w lv' _ _ Hq. cbn [app]. destruct qs as [|q qs']; [reflexivity|].
    change (negb (false && T.is_lit q) && T.no_adjacent_lit (q :: qs') = true). apply wf_text_no_adj. exact Hq.
  - intros _. reflexivity.
Qed.

Lemma Closed_nest_t depth name attrs ws_end l1 stk s' c' :
  Closed_t (depth + 1) l1 (name :: stk) s' c' -> elem_ok_t name attrs ws_end ->
  Closed_t depth ([60] ++ name ++ flat_map T.r_attr attrs ++ ws_end ++ [62] ++ l1) stk s' c'.
Proof.
  intros (lv & l' & p' & opn & rest & E1 & E2 & E3 & E4 & E5 & E6 & E7 & E9 & E10) Hok.
  destruct lv as [|[cs_in w_in] [|[cs w] lv']]; [cbn [length] in E3; lia|cbn [length] in E3; lia|].
  destruct opn as [|n0 [|n1 opn']]; [cbn [length] in E2; lia|cbn [length] in E2; lia|].
  cbn [app] in E1. injection E1 as En Estk. subst n0.
  set (item := T.IElem name attrs ws_end (Some (cs_in, w_in))).
  exists ((item :: cs, w) :: lv'), l', p', (n1 :: opn'), rest.
  split; [exact Estk|]. split; [cbn [length] in *; lia|]. split; [cbn [length] in *; lia|]. split.
  { rewrite E4. cbn [r_levels_t CstTextItems.tr_items]. unfold item. rewrite CstTextItems.tr_item_elem.
    rewrite <- !app_assoc. cbn [app]. rewrite <- ?app_assoc. reflexivity. }
  split; [exact E5|]. split; [exact E6|]. split; [exact E7|]. split; [intros _; exact I|].
  inversion E10 as [|? ? (A1 & A2 & A3) Hr]; subst.
  inversion Hr as [|? ? (B1 & B2 & B3) Hr']; subst. cbn [fst snd] in *.
  constructor; [|exact Hr']. cbn [fst snd CstTextItems.twf_items]. split; [|split; [|exact B3]].
  - rewrite B1, andb_true_r. unfold item. apply wf_elem_intro_t; [exact Hok|]. auto.
  - destruct cs as [|c0 r]; [reflexivity|].
    change (T.no_adjacent_text (item :: c0 :: r)) with
      (negb (T.is_text item && T.is_text c0) && T.no_adjacent_text (c0 :: r)).
    rewrite B2. reflexivity.
Qed.

Lemma Closed_prepend_empty_t depth name attrs ws_end l1 stk s' c' :
  Closed_t depth l1 stk s' c' -> elem_ok_t name attrs ws_end ->
  Closed_t depth ([60] ++ name ++ flat_map T.r_attr attrs ++ ws_end ++ [47; 62] ++ l1) stk s' c'.
Proof.
  intros HC Hok.
  pose proof (Closed_prepend_t depth (T.IElem name attrs ws_end None) l1 stk s' c' HC) as H.
  rewrite CstTextItems.tr_item_elem in H. rewrite <- !app_assoc in H. apply H.
  - apply wf_elem_intro_t; [exact Hok|exact I].
  - reflexivity.
Qed.

Lemma Closed_close_t depth name ws2 l1 stk' s' c' :
  Closed_t (depth - 1) l1 stk' s' c' -> 0 < depth -> Cst.wf_ws ws2 = true ->
  Closed_t depth ([60; 47] ++ name ++ ws2 ++ [62] ++ l1) (name :: stk') s' c'.
Proof.
  intros (lv & l' & p' & opn & rest & E1 & E2 & E3 & E4 & E5 & E6 & E7 & E9 & E10) Hd Hw.
  exists (([], ws2) :: lv), l', p', (name :: opn), rest.
  split; [rewrite E1; reflexivity|]. split; [cbn [length]; lia|]. split; [cbn [length]; lia|]. split.
  { rewrite E4. cbn [r_levels_t CstTextItems.tr_items app]. rewrite <- !app_assoc. reflexivity. }
  split; [exact E5|]. split; [exact E6|]. split; [exact E7|]. split; [intros _; exact I|].
  constructor; [cbn; auto|exact E10].
Qed.

Lemma Closed_base_t name ws2 l' p' stk' c' : W p' l' -> SimT c' stk' -> Cst.wf_ws ws2 = true ->
  Closed_t 0 ([60; 47] ++ name ++ ws2 ++ [62] ++ l') (name :: stk') (st p' l') c'.
Proof.
  intros HW HS Hw. exists [([], ws2)], l', p', [name], stk'.
  split; [reflexivity|]. split; [reflexivity|]. split; [reflexivity|]. split.
  { cbn [r_levels_t CstTextItems.tr_items app]. rewrite <- !app_assoc. reflexivity. }
  split; [reflexivity|]. split; [exact HW|]. split; [exact HS|]. split; [intros _; exact I|].
  constructor; [cbn; auto|constructor].
Qed.

Lemma content_sound_t : forall fuel depth p l c s' c' stk,
  W p l -> SimT c stk -> N.of_nat (length stk) = depth + 1 ->
  parse_content_loop text context T_ fuel depth (st p l) c = Ok (s', c') ->
  Closed_t depth l stk s' c' \/ exists stk2 p2 l2, s' = st p2 l2 /\ W p2 l2 /\ SimT c' stk2 /\ stk2 <> [].
Proof.
  induction fuel as [|fu IH]; intros depth p l c s' c' stk HW HS Hlen H;
    cbn [parse_content_loop] in H; [noerr|].
  rewrite (at_end_st text) in H by exact HW.
  destruct l as [|x l0].
  { inversion H; subst. right. exists stk, p, [].
    split; [reflexivity|]. split; [exact HW|]. split; [exact HS|].
    destruct stk; [cbn [length] in Hlen; lia|discriminate]. }
  cbn [curr_byte_unchecked CstLex.st s_rest bind] in H. fold (st p (x :: l0)) in H.
  destruct (x =? 60) eqn:E60.
  2:{ (* a text token *)
    ib H q Hq. destruct q as [s1 c1].
    destruct (inv_text text HF context T_ _ _ _ _ _ _ HW ltac:(lia) Hq) as (bs & l1 & El & Hraw & Hstop & -> & HW1 & Hev).
    rewrite El in HW.
    destruct (step_text_t text HF _ _ _ _ _ _ HW Hraw HS Hev) as (HS1 & _ & _ & ps & Eps & P1 & P2 & P3 & P4).
    destruct (IH _ _ _ _ _ _ _ HW1 HS1 Hlen H) as [HC|HU]; [left|right; exact HU].
    rewrite El, Eps. apply Closed_prepend_text; [exact HC|split; [exact P1|split; [exact P2|exact P3]]|exact Hstop|].
    intros Hs. exfalso. rewrite <- Eps, <- El in Hs. cbn [text_stop] in Hs. lia. }
  assert (x = 60) by lia. subst x.
  destruct l0 as [|y l1].
  { unfold next_byte in H. cbn [CstLex.st s_pos s_end s_rest] in H. destruct HW as [_ HW].
    unfold blen in HW. cbn [length] in HW. replace (tlen text <=? p + 1) with true in H by lia. noerr. }
  rewrite (next_byte_st text) in H by exact HW.
  destruct (y =? 33) eqn:E33.
  { assert (y = 33) by lia. subst y. rewrite !(starts_with_st text) in H by exact HW.
    destruct (prefix_b (b "<!--") (60 :: 33 :: l1)) eqn:Ec.
    - change (b "<!--") with [60; 33; 45; 45] in Ec. destruct (prefix_b_split _ _ Ec) as (l2 & El).
      rewrite El in H, HW. ib H q Hq. destruct q as [s1 c1].
      destruct (inv_comment text HF context T_ _ _ _ _ _ HW Hq) as (bs & l3 & -> & Hwf & -> & HW1 & Hev).
      destruct (step_comment_t text _ _ _ _ _ HS Hev) as (HS1 & _).
      destruct (IH _ _ _ _ _ _ _ HW1 HS1 Hlen H) as [HC|HU]; [left|right; exact HU].
      rewrite El. pose proof (Closed_prepend_t depth (T.IComment bs) l3 stk s' c' HC) as HP.
      cbn [T.r_item Cst.r_item] in HP. rewrite <- !app_assoc in HP. apply HP; [exact Hwf|reflexivity].
    - destruct (prefix_b (b "<![CDATA[") (60 :: 33 :: l1)) eqn:Ed; [|noerr].
      change (b "<![CDATA[") with [60; 33; 91; 67; 68; 65; 84; 65; 91] in Ed. destruct (prefix_b_split _ _ Ed) as (l2 & El).
      rewrite El in H, HW. ib H q Hq. destruct q as [s1 c1].
      destruct (inv_cdata text HF context T_ _ _ _ _ _ HW Hq) as (bs & l3 & -> & Hpl & Hnc & -> & HW1 & Hev).
      unfold cdata_tok in Hev.
      destruct (step_cdata_t text _ _ _ _ _ HS Hev) as (HS1 & _).
      destruct (IH _ _ _ _ _ _ _ HW1 HS1 Hlen H) as [HC|HU]; [left|right; exact HU].
      rewrite El. apply (Closed_prepend_cdata depth bs l3 stk s' c' HC).
      cbn [T.wf_tpiece]. rewrite contains_eq. change T.cdata_close with [93; 93; 62]. rewrite Hnc, andb_true_r.
      apply forallb_forall. intros z Hz. rewrite forallb_forall in Hpl. apply plain_tplain. exact (Hpl z Hz). }
  destruct (y =? 63) eqn:E63.
  { assert (y = 63) by lia. subst y. ib H q Hq. destruct q as [s1 c1].
    change (60 :: 63 :: l1) with ([60; 63] ++ l1) in *.
    destruct (inv_pi text HF context T_ _ _ _ _ _ HW Hq) as (tg & sep & v & l3 & -> & Hwf & -> & HW1 & Hev).
    unfold pi_tok in Hev. cbv zeta in Hev.
    destruct (step_pi_t text _ _ _ _ _ _ HS Hev) as (HS1 & _).
    destruct (IH _ _ _ _ _ _ _ HW1 HS1 Hlen H) as [HC|HU]; [left|right; exact HU].
    pose proof (Closed_prepend_t depth (T.IPI tg sep v) l3 stk s' c' HC) as HP.
    cbn [T.r_item Cst.r_item] in HP. rewrite <- !app_assoc in HP. apply HP; [exact Hwf|reflexivity]. }
  destruct (y =? 47) eqn:E47.
  { assert (y = 47) by lia. subst y. ib H q Hq. destruct q as [s1 c1].
    change (60 :: 47 :: l1) with ([60; 47] ++ l1) in *.
    destruct (inv_close text HF context T_ _ _ _ _ _ HW Hq) as (name & ws2 & l3 & -> & Hname & Hws & -> & HW1 & Hev).
    unfold close_tok in Hev.
    destruct (step_close_t text _ _ _ _ _ _ HS (CstBuild.slice_empty text _) Hev) as (stk' & Estk & HS1 & _).
    pose proof (W_app text _ _ _ HW) as HWn. change (blen [60; 47]) with 2 in HWn.
    rewrite (W_slice text _ _ _ HWn) in Estk. subst stk.
    destruct (depth =? 0) eqn:Ed.
    - inversion H; subst. assert (depth = 0) by lia. subst depth. left. apply Closed_base_t; assumption.
    - assert (Hlen' : N.of_nat (length stk') = depth - 1 + 1) by (cbn [length] in Hlen; lia).
      destruct (IH _ _ _ _ _ _ _ HW1 HS1 Hlen' H) as [HC|HU]; [left|right; exact HU].
      apply Closed_close_t; [exact HC|lia|exact Hws]. }
  (* a start tag *)
  ib H q Hq. destruct q as [[open s1] c1].
  change (60 :: y :: l1) with ([60] ++ (y :: l1)) in *.
  destruct (inv_element text HF context T_ _ _ _ _ _ _ HW Hq)
    as (name & raws & ws_end & l3 & ca & cb & El & Hname & Hraw & Hwe & Hev1 & Hev2 & Hev3 & -> & HW1).
  rewrite El in HW.
  destruct (tag_sound_t _ _ _ _ _ _ _ _ _ _ _ HW Hname Hraw Hwe HS Hev1 Hev2 Hev3) as (HS1 & _ & tas & Etas & Hok).
  rewrite El, <- Etas. destruct open.
  - assert (Hlen' : N.of_nat (length (name :: stk)) = depth + 1 + 1).
    { cbn [length]. rewrite Nat2N.inj_succ. etransitivity; [apply f_equal; exact Hlen|lia]. }
    destruct (IH _ _ _ _ _ _ _ HW1 HS1 Hlen' H) as [HC|HU]; [left|right; exact HU].
    cbn [negb tag_tail] in *. apply Closed_nest_t; assumption.
  - destruct (IH _ _ _ _ _ _ _ HW1 HS1 Hlen H) as [HC|HU]; [left|right; exact HU].
    cbn [negb tag_tail] in *. apply Closed_prepend_empty_t; assumption.
Qed.

End MainT.
