(* Proofs/CstRangeG6TText.v -- C13 / C18 on the capstone fragment, stage S6 (declarations whose value may be markup),
   part 1: CstFullS4TText.TL_u once more, observing the fragments exactly (CstRangeEText.v ported to
   UTF-8 texts and the namespace invariant): each fragment appended by [process_text_with] on a text
   token with general entity references, with the range it is appended with. *)
From Coq Require Import Ascii String.
From Coq Require Import List NArith PeanoNat Bool Lia ZifyBool ZifyN ZifyNat.
Import ListNotations.
From RX Require Import Generated.
From RX.Model Require Import Base CharClass Stream Tokenizer Doc Builder Parse.
From RX.Spec Require Cst CstText CstEnt Detector Scope CstU.
From RX.Spec Require Import Text CstFull.
From RX.Proofs Require Import Tactics CstLex CstBuild CstULex TextMachine TextMerge HoistProofs NoPanicUtf8 DetectorProofs.
From RX.Proofs Require Import CstTextSem CstTextLex CstTextBuild CstEntSem CstNsBuild CstFullLex.
From RX.Proofs Require Import CstFullS2Sem CstFullS2Lex CstFullS2Build CstFullS3Sem CstFullS3Text CstFullS4TSem.
From RX.Proofs Require CstEntText.
From RX.Proofs Require Import CstEntRun.
From RX.Proofs Require Import CstRangeBuild CstRangeTBuild CstRangeEText.
From RX.Proofs Require CstRangeGText.
Open Scope N_scope.

Section EntG.
Variable text : bytes.
Variable D : list Scope.binding.
Hypothesis HD : forall l, NoDup l -> incl l D -> N.of_nat (length l) <= 65535.
Variable decls : list E.edecl.
Variable es : list entity.

Notation W := (CstLex.W text).
Notation WV := (CstULex.WV text).
Notation CIn := (CstNsBuild.CIn text D).
Notation uent_ok := (CstFullS3Text.uent_ok text).
Hypothesis Henv : Forall2 uent_ok decls es.
Hypothesis Hdecls : Forall udecl_okc decls.

Notation find_first_u := (CstFullS3Text.find_first_u text decls es Henv).
Notation cref_entity_u := (CstFullS3Text.cref_entity_u text D HD).
Notation pnc_entity_u := (CstFullS3Text.pnc_entity_u text D HD decls es Henv).
Notation loop_piece_u := (CstFullS3Text.loop_piece_u text D HD).
Notation chunks_le_piece_u := (CstFullS3Text.chunks_le_piece_u D HD).
Notation ExpG := (CstRangeEText.ExpG text decls es).
Notation ValG := (CstRangeEText.ValG text decls es).

Notation run_append_n_r := (CstRangeGText.run_append_n_r text D).
Notation finish_emit_u_r := (CstRangeGText.finish_emit_u_r text D).

Lemma TL_u_r : forall m acc ps q tr F, Exp decls m acc ps q tr F ->
  forall inh e p more c0 c (frs : list (cow * range)) fuel lvl r ld',
  Forall (uep_ok m) ps -> WV p (E.r_epieces ps ++ more) -> p + blen (E.r_epieces ps) = e -> e <= tlen text ->
  m = (0 <? ld_depth (c_ld c)) -> acc_ok m acc ->
  c_entities c = es -> ld_run (c_ld c) tr = Some ld' -> N.of_nat lvl + ld_depth (c_ld c) = 12 ->
  CIn inh c0 -> (frs = [] -> F <> [] -> room c0) -> c_after_text c0 = [] -> RunR c0 c frs ->
  (length (E.r_epieces ps) < fuel)%nat ->
  exists c' G,
    (let! (b0, c1) := text_loop text (parse_content_lvl text lvl) r fuel (sst e p (E.r_epieces ps ++ more))
                        (push_text_chunks m acc tb_new) c in finish_text r b0 c1) = Ok c' /\
    RunR c0 c' (frs ++ G) /\ map (cow_bytes text) (map fst G) = F /\ ExpG m acc ps r G /\
    c_ld c' = ld' /\ ld_depth ld' = ld_depth (c_ld c) /\
    c_tag_name c' = c_tag_name c /\ c_entity_floor c' = c_entity_floor c.
Proof.
  intros m acc ps q tr F H.
  induction H as [m acc|m acc pc0 rest q tr F _ IH|m acc n rest d vps qv trv Fv q tr F Hfd Hval Hv IHv Hr IHr];
    intros inh e p more c0 c frs fuel lvl r ld' Hok HW He Hle Hm Hacc Hes Hld Hlvl I R Hat HR Hfu.
  - (* end of the token *)
    cbn [E.r_epieces flat_map app] in *. rewrite blen_nil, N.add_0_r in He. subst p.
    destruct fuel as [|fu]; [lia|]. cbn [text_loop]. rewrite at_end_sst. replace (e <=? e) with true by lia.
    cbn [bind]. cbn [ld_run] in Hld. injection Hld as <-.
    destruct (finish_emit_u_r inh m acc r c0 c frs Hacc HR I R Hat) as (c' & E & HR' & L1 & L2 & L3).
    exists c', (emitG m acc r). split; [exact E|]. split; [exact HR'|]. split; [apply emitG_bytes|].
    split; [constructor|]. repeat split; assumption.
  - (* a piece *)
    apply Forall_cons_iff in Hok. destruct Hok as [Hp Hrest]. cbn [E.r_epieces flat_map E.r_epiece] in *. fold (E.r_epieces rest) in *.
    rewrite <- app_assoc in HW |- *. rewrite blen_app in He.
    pose proof Hp as [Hvp _]. pose proof (chunks_le_piece_u pc0 Hvp) as Hcl. rewrite app_length in Hfu.
    replace fuel with (length (T.piece_chunks pc0) + (fuel - length (T.piece_chunks pc0)))%nat by lia.
    rewrite loop_piece_u by (try assumption; lia). rewrite <- Hm.
    rewrite <- push_text_chunks_app.
    destruct (IH inh e (p + blen (T.r_piece pc0)) more c0 c frs (fuel - length (T.piece_chunks pc0))%nat lvl r ld')
      as (c' & G & E' & HR' & HG & HX & K); try assumption; try lia.
    + apply (WV_app _ _ _ _ HW (vpiece_valid 60 pc0 Hvp)).
    + apply acc_app; [exact Hacc|apply uep_chunks; exact Hp].
    + exists c', G. split; [exact E'|]. split; [exact HR'|]. split; [exact HG|]. split; [constructor; exact HX|exact K].
  - (* a reference *)
    apply Forall_cons_iff in Hok. destruct Hok as [Hp Hrest]. destruct Hp as [Hn Hpre].
    cbn [E.r_epieces flat_map E.r_epiece] in *. fold (E.r_epieces rest) in *.
    rewrite <- !app_assoc in HW |- *. rewrite !blen_app in He. change (blen [38]) with 1 in He. change (blen [59]) with 1 in He.
    destruct (find_first_u n d Hfd) as (en0 & Efind & _).
    destruct (pnc_entity_u e p n (E.r_epieces rest ++ more) d HW Hn Hpre ltac:(lia) Hle Hfd) as (en & Epnc & (Hen & vs & tail & Eval & HWv)).
    assert (Eenv : en_value en0 = en_value en).
    { pose proof Epnc as X. unfold parse_next_chunk in X. revert X. rewrite at_end_sst. replace (e <=? p) with false by lia.
      cbn [app curr_byte_unchecked sst s_rest bind]. change (38 =? 38) with true. cbv iota zeta.
      fold (sst e p (38 :: n ++ 59 :: E.r_epieces rest ++ more)).
      pose proof (cref_entity_u e p n (E.r_epieces rest ++ more) HW Hn Hpre ltac:(lia) Hle) as Ec. cbn [app] in Ec. rewrite Ec. cbn [bind].
      pose proof (W_cons _ _ _ _ (WV_W _ _ _ HW)) as HW1'. cbn [app] in HW1'. rewrite (W_slice _ _ _ _ HW1'), Efind. intros X. injection X as X. exact X. }
    destruct (first_decl_u decls Hdecls n d vps Hfd Hval) as (Hvok & Hvn3 & _).
    rewrite Hval in Eval, HWv. cbn [E.r_value] in Eval, HWv.
    destruct fuel as [|fu]; [lia|].
    erewrite text_loop_entity_step; [|rewrite at_end_sst; lia|rewrite Hes; exact Epnc].
    (* flush *)
    destruct (finish_emit_u_r inh m acc r c0 c frs Hacc HR I (fun Z0 Z1 => R Z0 ltac:(intros Z2; apply app_eq_nil in Z2; destruct Z2; contradiction)) Hat) as (c1 & E0 & HR1 & L1 & L2 & L3).
    set (G0 := emitG m acc r) in *. pose proof (emitG_bytes text m acc r) as HG0. fold G0 in HG0.
    rewrite E0. cbn [bind].
    (* the detector *)
    cbn [ld_run] in Hld. destruct (ld_enter (c_ld c)) as [ld1|] eqn:Eenter; [|discriminate].
    rewrite ld_run_app in Hld. destruct (ld_run ld1 trv) as [ld1'|] eqn:Erun1; [|discriminate]. cbn [ld_run] in Hld.
    rewrite L1. destruct (CstEntText.enter_model text (sst e (p + 2 + blen n) (E.r_epieces rest ++ more)) _ _ Eenter) as (l0 & Ei1 & Ei2).
    rewrite Ei1. cbn [bind]. rewrite Ei2. cbn [bind]. cbv zeta.
    assert (Hd1 : ld_depth ld1 = ld_depth (c_ld c) + 1 /\ ld_depth (c_ld c) < 10).
    { rewrite (mk_eta (c_ld c)) in Eenter. apply ld_enter_some in Eenter. destruct Eenter as [Hlt [[H0 ->]|[H0 [_ ->]]]].
      - unfold DetectorProofs.mk. cbn. rewrite H0. split; [reflexivity|lia].
      - unfold DetectorProofs.mk. cbn. split; [reflexivity|exact Hlt]. }
    destruct Hd1 as [Hd1 Hd10].
    (* the value *)
    rewrite Eval. cbn [sl sl_start sl_end].
    rewrite (stream_from_substr_W text vs (E.r_epieces vps) tail (WV_W _ _ _ HWv)). cbn [bind].
    destruct lvl as [|lvl']; [lia|].
    assert (Epc : forall s0 cc, parse_content_lvl text (S lvl') s0 cc =
              parse_content_loop text context (token_with text (process_text_with text (parse_content_lvl text lvl')))
                (S (length (s_rest s0))) 0 s0 cc) by reflexivity.
    rewrite Epc. cbn [sst s_rest].
    set (ve := vs + blen (E.r_epieces vps)) in *.
    set (c2 := set_entity_floor (set_tag_name (set_ld c1 ld1) tag_name_null) (len_N (c_parent_prefixes (set_ld c1 ld1)))).
    assert (HR2 : RunR c0 c2 (frs ++ G0)) by (eapply RunR_frame; [exact HR1|unfold c2; repeat split]).
    destruct (uep_bytes true vps Hvok) as [Hvu Hvb].
    pose proof (W_le _ _ _ (W_app _ _ _ _ (WV_W _ _ _ HWv))) as Hlev. fold ve in Hlev.
    assert (Hinner : exists c2' Gv,
              parse_content_loop text context (token_with text (process_text_with text (parse_content_lvl text lvl')))
                (S (length (E.r_epieces vps ++ tail))) 0 (sst ve vs (E.r_epieces vps ++ tail)) c2 = Ok (sst ve ve tail, c2') /\
              RunR c0 c2' ((frs ++ G0) ++ Gv) /\ map (cow_bytes text) (map fst Gv) = Fv /\ ValG vps (en_value en) Gv /\
              c_ld c2' = ld1' /\ ld_depth ld1' = ld_depth ld1 /\
              c_tag_name c2' = c_tag_name c2 /\ c_entity_floor c2' = c_entity_floor c2).
    { destruct (list_eq_dec N.eq_dec (E.r_epieces vps) []) as [Ex|Hne].
      - (* an empty value: no token *)
        assert (Evps : vps = []).
        { destruct vps as [|pp vr]; [reflexivity|].
          apply Forall_cons_iff in Hvok. destruct Hvok as [Hq0 _].
          destruct (uep_piece_ne true pp Hq0) as (x1 & r1 & E1).
          rewrite r_epieces_cons, E1 in Ex. discriminate. }
        subst vps. inversion Hv; subst. cbn [E.r_epieces flat_map app length] in *.
        cbn [parse_content_loop]. rewrite at_end_sst. unfold ve. rewrite blen_nil, N.add_0_r.
        replace (vs <=? vs) with true by lia.
        exists c2, []. rewrite app_nil_r. cbn [ld_run] in Erun1. injection Erun1 as <-.
        split; [reflexivity|]. split; [exact HR2|]. split; [reflexivity|]. split; [apply VG_empty; reflexivity|]. repeat split; auto.
      - assert (Hlen : (1 <= length (E.r_epieces vps ++ tail))%nat).
        { rewrite app_length. destruct (E.r_epieces vps); [congruence|cbn; lia]. }
        destruct (length (E.r_epieces vps ++ tail)) as [|len'] eqn:El; [lia|].
        rewrite (content_loop_text_ne_u text context _ ve vs (E.r_epieces vps) tail c2 len' HWv eq_refl Hlev Hvu Hvb Hvn3 Hne).
        cbn [token_with].
        rewrite process_text_with_unfold. unfold slice_bytes at 1. cbn [sl sl_start sl_end].
        unfold ve. rewrite (W_sub _ _ _ _ (WV_W _ _ _ HWv)). fold ve.
        destruct (existsb (fun x => (x =? 38) || (x =? 13)) (E.r_epieces vps)) eqn:Efast; cbn [negb].
        + (* through the buffer *)
          cbn [fst snd]. unfold ve. rewrite (stream_from_substr_W text vs (E.r_epieces vps) tail (WV_W _ _ _ HWv)). fold ve. cbn [bind].
          destruct (IHv inh ve vs tail c0 c2 (frs ++ G0) (S (length (s_rest (sst ve vs (E.r_epieces vps ++ tail))))) lvl' (vs, ve) ld1')
            as (c2' & Gv & Ev & HRv & HGv & HXv & Lv1 & Lv2 & Lv3 & Lv4); try assumption; try reflexivity.
          * unfold c2. cbn. rewrite Hd1. replace (0 <? ld_depth (c_ld c) + 1) with true by lia. reflexivity.
          * apply acc_nil.
          * rewrite (RunR_entities _ _ _ HR2). rewrite <- Hes. symmetry. apply (RunR_entities _ _ _ HR).
          * unfold c2. cbn. lia.
          * intros Z0 Z1. apply app_eq_nil in Z0. destruct Z0 as [Z0 _]. apply (R Z0). intros Z2.
            apply app_eq_nil in Z2. destruct Z2 as [_ Z2]. apply app_eq_nil in Z2. destruct Z2 as [Z2 _]. contradiction.
          * cbn [sst s_rest]. rewrite app_length. lia.
          * cbn [push_text_chunks sst s_rest] in Ev |- *. rewrite Ev. cbn [bind]. exists c2', Gv. unfold c2 in Lv2 |- *. cbn in Lv2.
            split; [reflexivity|]. split; [exact HRv|]. split; [exact HGv|]. split.
            { apply VG_slow; [exact Hne|exact Efast|]. rewrite Eval. cbn [sl sl_start sl_end]. exact HXv. }
            repeat split; auto.
        + (* the fast path: the value is appended as it is *)
          destruct (existsb_or_false _ _ _ Efast) as [E38 E13].
          destruct (exp_plain_u decls true vps [] qv trv Fv Hv Hvok E38) as [-> ->]. cbn [app].
          assert (Hemit : emit true ([] ++ map CLit (E.r_epieces vps)) = [E.r_epieces vps]).
          { cbn [app]. unfold emit. rewrite text_chunks_in_entity.
            replace (concat (map chunk_bytes (map CLit (E.r_epieces vps)))) with (E.r_epieces vps)
              by (clear; induction (E.r_epieces vps) as [|z l IHl]; [reflexivity|cbn; rewrite <- IHl; reflexivity]).
            rewrite norm_eol_nocr by exact E13. destruct (E.r_epieces vps); [congruence|reflexivity]. }
          destruct (run_append_n_r inh (CowBorrowed (sl vs ve)) (vs, ve) c0 c2 (frs ++ G0) HR2 I
                      (fun Z0 => R (proj1 (app_eq_nil _ _ Z0)) ltac:(rewrite Hemit; intros Z2; apply app_eq_nil in Z2; destruct Z2 as [_ Z2]; discriminate)) Hat)
            as (c2' & Ea & HRa & La1 & La2 & La3).
          rewrite Ea. cbn [bind]. exists c2', [(CowBorrowed (sl vs ve), (vs, ve))]. cbn [ld_run] in Erun1. injection Erun1 as <-.
          split; [reflexivity|]. split; [exact HRa|]. split; [|split; [rewrite Eval; apply VG_fast; [exact Hne|exact Efast]|]].
          { cbn [map cow_bytes fst]. unfold slice_bytes, ve. cbn [sl sl_start sl_end]. rewrite (W_sub _ _ _ _ (WV_W _ _ _ HWv)).
            cbn [app] in Hemit. rewrite Hemit. reflexivity. }
          unfold c2 in La1 |- *. cbn in La1. repeat split; auto. }
    destruct Hinner as (c2' & Gv & Ein & HRv & HGv & HXv & Lv1 & Lv2 & Lv3 & Lv4).
    rewrite Ein. cbn [bind].
    (* back from the value *)
    rewrite (RunR_pp _ _ _ HRv), Lv4. unfold c2 at 1. cbn [c_entity_floor set_entity_floor c_parent_prefixes set_tag_name set_ld].
    rewrite (RunR_pp _ _ _ HR1), N.eqb_refl. cbn [negb].
    set (c3 := set_ld (set_entity_floor (set_tag_name c2' (c_tag_name (set_ld c1 ld1))) (c_entity_floor (set_ld c1 ld1)))
                      (dec_depth (c_ld (set_entity_floor (set_tag_name c2' (c_tag_name (set_ld c1 ld1))) (c_entity_floor (set_ld c1 ld1)))))).
    assert (HR3 : RunR c0 c3 (frs ++ G0 ++ Gv)).
    { rewrite app_assoc. eapply RunR_frame; [exact HRv|unfold c3; repeat split]. }
    assert (Eld3 : c_ld c3 = dec_depth ld1') by (unfold c3; cbn; rewrite Lv1; reflexivity).
    assert (Hdd : ld_depth (dec_depth ld1') = ld_depth (c_ld c)).
    { unfold dec_depth. cbn [ld_depth]. rewrite Lv2, Hd1. replace (0 <? ld_depth (c_ld c) + 1) with true by lia. lia. }
    assert (HWn : WV (p + 2 + blen n) (E.r_epieces rest ++ more)).
    { pose proof (WV_cons _ _ _ _ HW ltac:(lia)) as X1. cbn [app] in X1.
      destruct (uname_bytes n Hn) as (Hun & _). pose proof (WV_app _ _ _ _ X1 (ustr_valid _ Hun)) as X2.
      pose proof (WV_cons _ _ _ _ X2 ltac:(lia)) as X3.
      replace (p + 2 + blen n) with (p + 1 + blen n + 1) by lia. exact X3. }
    destruct (IHr inh e (p + 2 + blen n) more c0 c3 (frs ++ G0 ++ Gv) fu (S lvl') r ld')
      as (c' & G & E' & HR' & HG & HX & K1 & K2 & K3 & K4); try assumption.
    + lia.
    + rewrite Eld3, Hdd. exact Hm.
    + apply acc_nil.
    + rewrite (RunR_entities _ _ _ HR3). rewrite <- Hes. symmetry. apply (RunR_entities _ _ _ HR).
    + rewrite Eld3. exact Hld.
    + rewrite Eld3, Hdd. exact Hlvl.
    + intros Z0 Z1. apply app_eq_nil in Z0. destruct Z0 as [Z0 _]. apply (R Z0). intros Z2.
      apply app_eq_nil in Z2. destruct Z2 as [_ Z2]. apply app_eq_nil in Z2. destruct Z2 as [_ Z2]. contradiction.
    + rewrite !app_length in Hfu. cbn [length] in Hfu. lia.
    + exists c', (G0 ++ Gv ++ G). split; [exact E'|].
      split; [rewrite <- !app_assoc in HR'; exact HR'|].
      split; [rewrite !map_app, HG0, HGv, HG; reflexivity|].
      split; [apply (EG_ref text decls es m acc n rest r d vps en0 Gv G Hfd Hval Efind); [rewrite Eenv; exact HXv|exact HX]|].
      split; [exact K1|]. split; [rewrite K2, Eld3; exact Hdd|].
      unfold c3 in K3, K4. cbn in K3, K4. rewrite K3, K4, L2, L3. split; reflexivity.
Qed.

End EntG.

Print Assumptions TL_u_r.
