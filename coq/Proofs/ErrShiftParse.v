(* Proofs/ErrShiftParse.v -- C14, part 5: the callback, the recursion through entity expansion and
   parse under the shift, with related errors. *)
From Coq Require Import Ascii String.
From Coq Require Import List Arith NArith Bool Lia ZifyBool ZifyN ZifyNat.
Import ListNotations.
From RX Require Import Generated.
From RX.Model Require Import Base CharClass Stream Tokenizer Doc Builder Parse.
From RX.Proofs Require Import Tactics NoPanicUtf8 NoPanicStream BorrowLocal BorrowParse RangeBuilder
  RangeShiftBase RangeShiftStream RangeShiftTokenizer RangeShiftBuilder RangeShiftParse
  ErrShiftBase ErrShiftStream ErrShiftTokenizer ErrShiftBuilder.
Open Scope N_scope.

Section Shift.
Variable ws text : bytes.
Hypothesis Hvalid : valid_utf8_b text = true.
Hypothesis Hws : forallb byte_is_space ws = true.
Notation text2 := (ws ++ text).
Notation k := (blen ws).
Notation shs := (sh_s k).
Notation shl := (sh_sl k).
Notation shc := (sh_ctx k).
Notation shd := (sh_doc k).
Notation rsimE := (rsimE ws text).
Notation shpc := (RangeShiftParse.shpc ws).
Notation sh_chunk := (RangeShiftBuilder.sh_chunk ws).

Ltac cproj :=
  cbn [sh_ctx sh_doc c_opt c_ns_start_idx c_cur_attrs c_awaiting c_parent_prefixes c_entities c_after_text
       c_parent_id c_tag_name c_entity_floor c_ld c_doc
       set_doc set_ns_start_idx set_cur_attrs set_awaiting set_parent_prefixes set_entities
       set_after_text set_parent_id set_tag_name set_entity_floor set_ld
       d_nodes d_attrs d_ns_values d_ns_tree set_nodes set_attrs fst snd pmap] in *; unfold idf in *.

Ltac eat := apply (err_at_shE ws text Hvalid); pc.
Ltac efr := apply (err_from_shE ws text Hvalid); [pc|first [reflexivity|cbn [sh_rng fst snd]; lia]].

Lemma token_with_shE ptext1 ptext2 :
  (forall t r c, rsimE shc (ptext1 t r c) (ptext2 (shl t) (sh_rng k r) (shc c))) ->
  forall tok c, tok_wf tok ->
    rsimE shc (token_with text ptext1 tok c) (token_with text2 ptext2 (sh_tok k tok) (shc c)).
Proof.
  intros Hp tok c Hwf. unfold token_with.
  destruct tok as [tgt content r | t r | name value | prefix local start | r ql el prefix local value
                  | e r | t r | t r]; cbn [sh_tok].
  - eapply rsimE_bind; [apply (reset_after_text_shE ws text)|]. intros c1 _. cbv beta.
    eapply rsimE_bind; [apply (append_node_shE ws text (KPI tgt content) r c1); reflexivity|].
    intros [id c2] _. reflexivity.
  - eapply rsimE_bind; [apply (reset_after_text_shE ws text)|]. intros c1 _. cbv beta.
    eapply rsimE_bind; [apply (append_node_shE ws text (KComment t) r c1); reflexivity|].
    intros [id c2] _. reflexivity.
  - apply rsimE_ret. unfold sh_ctx. cproj. rewrite map_app. reflexivity.
  - cbn [tok_wf] in Hwf. destruct Hwf as [Hl Hp0].
    eapply rsimE_bind; [apply (reset_after_text_shE ws text)|]. intros c1 _. cbv beta.
    rewrite (slice_bytes_shift ws). destruct (bytes_eqb _ _); [efr|].
    replace (start + k + 1) with (start + 1 + k) by lia.
    apply rsimE_ret. unfold sh_ctx, set_tag_name, sh_tn. cproj. cbn [tn_name tn_prefix tn_pos tn_prefix_pos].
    destruct (slice_len local =? 0) eqn:E; [lia|]. rewrite (sh_sl0_real ws text _ Hp0). reflexivity.
  - apply (process_attribute_shE ws text Hvalid Hws).
  - eapply rsimE_bind; [apply (reset_after_text_shE ws text)|]. intros c1 _. cbv beta.
    apply (process_element_shE ws text Hvalid).
  - apply Hp.
  - apply (process_cdata_shE ws text).
Qed.

Lemma ptext_loop_shE pc1 pc2 r :
  (forall es c, rsimE shpc (pc1 es c) (pc2 (shs es) (shc c))) ->
  forall fuel s buf c,
    rsimE (pmap idf shc) (ptext_loop text pc1 r fuel s buf c)
          (ptext_loop text2 pc2 (sh_rng k r) fuel (shs s) buf (shc c)).
Proof.
  intros Hpc. induction fuel as [|fu IH]; intros s buf c; cbn [ptext_loop]; [reflexivity|].
  rewrite (at_end_sh ws). destruct (at_end s); [reflexivity|]. cproj.
  eapply rsimE_bind; [apply (parse_next_chunk_shE ws text Hvalid Hws)|]. intros [ch s1] _.
  cbn [pmap fst snd]. cbv beta iota. destruct ch as [x|cp|value]; cbn [sh_chunk].
  - apply IH.
  - apply IH.
  - eapply rsimE_bind with (f := shc).
    { destruct (negb (tb_is_empty buf)); [|reflexivity].
      eapply rsimE_bind; [apply id_simE; np|]. intros bs _. apply (append_text_shE ws text (CowOwned bs)). }
    intros c1 _. cbv beta. cproj.
    eapply rsimE_bind; [apply (inc_references_shE ws text Hvalid)|]. intros ld1 _. unfold idf.
    eapply rsimE_bind; [apply (inc_depth_shE ws text Hvalid)|]. intros ld2 _. unfold idf. cbv zeta.
    cbn [sh_sl sl_start sl_end].
    eapply rsimE_bind; [apply (stream_from_substr_shE ws text)|]. intros es _. cbv beta. cproj.
    rewrite len_N_map.
    eapply rsimE_bind.
    { match goal with |- rsimE _ _ (pc2 _ ?c2) =>
        change c2 with (shc (set_entity_floor (set_tag_name (set_ld c1 ld2) tag_name_null)
                                              (len_N (c_parent_prefixes c1))))
      end. apply Hpc. }
    intros [s2 c2] _. cbn [shpc fst snd]. cbv beta iota. cproj. rewrite len_N_map.
    destruct (negb _); [apply rsimE_same_err; reflexivity|].
    match goal with |- rsimE _ (ptext_loop _ _ _ _ _ _ ?ca) (ptext_loop _ _ _ _ _ _ ?cb) =>
      change cb with (shc ca)
    end. apply IH.
Qed.

Lemma process_text_with_shE pc1 pc2 :
  (forall es c, rsimE shpc (pc1 es c) (pc2 (shs es) (shc c))) ->
  forall t r c, rsimE shc (process_text_with text pc1 t r c)
                      (process_text_with text2 pc2 (shl t) (sh_rng k r) (shc c)).
Proof.
  intros Hpc t r c. rewrite !process_text_with_eq. cbv zeta. rewrite (slice_bytes_shift ws).
  destruct (negb _); [apply (append_text_shE ws text (CowBorrowed t))|].
  cbn [sh_rng fst snd].
  eapply rsimE_bind; [apply (stream_from_substr_shE ws text)|]. intros s0 _. cbv beta. rewrite s_rest_sh.
  eapply rsimE_bind; [apply (ptext_loop_shE pc1 pc2 r Hpc)|]. intros [buf c1] _. cbn [pmap fst snd idf]. cbv beta iota.
  destruct (negb _); [|reflexivity].
  eapply rsimE_bind; [apply id_simE; np|]. intros bs _. apply (append_text_shE ws text (CowOwned bs)).
Qed.

Lemma parse_content_lvl_shE : forall lvl es c,
  rsimE shpc (parse_content_lvl text lvl es c) (parse_content_lvl text2 lvl (shs es) (shc c)).
Proof.
  induction lvl as [|lvl IH]; intros es c; cbn [parse_content_lvl]; [reflexivity|].
  apply (parse_content_shE ws text Hvalid context _ _ shc).
  intros tok c0 Hwf. apply token_with_shE; [|exact Hwf].
  intros t r c1. apply process_text_with_shE. exact IH.
Qed.

Lemma token_shE tok c : tok_wf tok ->
  rsimE shc (Parse.token text tok c) (Parse.token text2 (sh_tok k tok) (shc c)).
Proof.
  intros Hwf. unfold Parse.token, process_text. apply token_with_shE; [|exact Hwf].
  intros t r c1. apply process_text_with_shE. apply parse_content_lvl_shE.
Qed.

Lemma init_context_shE opt : rsimE shc (init_context text opt) (init_context text2 opt).
Proof.
  unfold init_context.
  eapply rsimE_bind.
  { match goal with |- rsimE _ _ (push_ns _ _ _ ?d2) =>
      replace d2 with (shd {| d_nodes := [{| nd_parent := None; nd_prev_sibling := None; nd_next_subtree := None;
                                            nd_last_child := None; nd_kind := KRoot; nd_range := (0, tlen text) |}];
                              d_attrs := []; d_ns_values := []; d_ns_tree := [] |})
    end.
    - apply (push_ns_shE ws text (ns_name xml_ns) (ns_uri xml_ns)).
    - unfold sh_doc, sh_node. cbn. rewrite (tlen_shift ws). reflexivity. }
  intros d _. reflexivity.
Qed.

End Shift.
