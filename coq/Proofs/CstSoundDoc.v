(* Proofs/CstSoundDoc.v -- C08 soundness on the Cst fragment: the prolog, the root element, the
   epilog and the final checks of [parse]; the main theorem [parse_sound_fragment] and, with the
   completeness theorem of CstMain.v, [parse_sound_and_complete]. *)
From Coq Require Import String.
From Coq Require Import List Arith NArith Bool Lia ZifyBool ZifyN ZifyNat.
Import ListNotations.
From RX Require Import Generated.
From RX.Model Require Import Base CharClass Stream Tokenizer Doc Builder Parse.
From RX.Spec Require Cst.
From RX.Proofs Require Import Tactics CstLex CstTree.
From RX.Proofs Require CstBuild RejectProofs.
From RX.Proofs Require Import CstSound CstSoundLex CstSoundBuild CstSoundMain.
Open Scope N_scope.

Definition pairs := list (bytes * Cst.item).
Definition r_pairs (l : pairs) : bytes := flat_map (fun x => fst x ++ Cst.r_item (snd x)) l.
Definition wf_pairs (l : pairs) : bool :=
  forallb (fun x => Cst.wf_ws (fst x) && Cst.is_misc (snd x) && Cst.wf_item (snd x)) l.

(* [(w1,i1); ...; (wk,ik)] followed by w  ==>  w1, [(i1,w2); ...; (ik,w)] *)
Fixpoint shift (l : pairs) (w : bytes) : bytes * list (Cst.item * bytes) :=
  match l with
  | [] => (w, [])
  | (w1, i1) :: r => let '(w0, b0) := shift r w in (w1, (i1, w0) :: b0)
  end.

Lemma shift_render : forall l w,
  fst (shift l w) ++ flat_map (fun p => Cst.r_item (fst p) ++ snd p) (snd (shift l w)) = r_pairs l ++ w.
Proof.
  induction l as [|[w1 i1] r IH]; intros w.
  - cbn. rewrite app_nil_r. reflexivity.
  - cbn [shift]. specialize (IH w). destruct (shift r w) as [w0 b0]. cbn [fst snd] in *.
    unfold r_pairs in *. cbn [flat_map fst snd]. rewrite <- !app_assoc. rewrite <- IH. reflexivity.
Qed.

Lemma shift_wf : forall l w, wf_pairs l = true -> Cst.wf_ws w = true ->
  Cst.wf_ws (fst (shift l w)) = true /\
  forallb (fun p => Cst.is_misc (fst p) && Cst.wf_item (fst p) && Cst.wf_ws (snd p)) (snd (shift l w)) = true.
Proof.
  induction l as [|[w1 i1] r IH]; intros w Hl Hw; cbn [shift fst snd forallb]; [auto|].
  cbn [wf_pairs forallb fst snd] in Hl. apply andb_true_iff in Hl. destruct Hl as [H1 H2].
  apply andb_true_iff in H1. destruct H1 as [H1 H3]. apply andb_true_iff in H1. destruct H1 as [H0 H1].
  destruct (IH w H2 Hw) as [A B]. destruct (shift r w) as [w0 b0]. cbn [fst snd forallb] in *.
  split; [exact H0|]. rewrite H1, H3, A, B. reflexivity.
Qed.

Lemma wf_ws_app a c : Cst.wf_ws a = true -> Cst.wf_ws c = true -> Cst.wf_ws (a ++ c) = true.
Proof. unfold Cst.wf_ws. intros H1 H2. rewrite forallb_app, H1, H2. reflexivity. Qed.

Section Doc.
Variable text : bytes.
Hypothesis HF : Frag text.
Notation T := (Parse.token text).
Notation st := (CstLex.st text).
Notation W := (CstLex.W text).
Notation Sim := (Sim text).

Lemma bom_no : prefix_b [239; 187; 191] text = false.
Proof.
  pose proof (Hascii text HF) as Ha. destruct text as [|x l]; [reflexivity|].
  inversion Ha; subst. cbn [prefix_b]. replace (239 =? x) with false by lia. reflexivity.
Qed.

Lemma curr_byte_opt_st_any p l : W p l ->
  curr_byte_opt (st p l) = match l with x :: _ => Some x | [] => None end.
Proof. intros HW. unfold curr_byte_opt. rewrite (at_end_st text) by exact HW. destruct l; reflexivity. Qed.

Definition nonelem (K : list row) : Prop := Forall (fun r => is_element_kind (snd r) = false) K.

(* ---- Misc* ---- *)
Lemma misc_sound : forall fuel p l c s' c' stk,
  W p l -> Sim c stk ->
  parse_misc_loop text context T fuel (st p l) c = Ok (s', c') ->
  exists items wend l' p' K,
    l = r_pairs items ++ wend ++ l' /\ s' = st p' l' /\ W p' l' /\
    wf_pairs items = true /\ Cst.wf_ws wend = true /\
    Sim c' stk /\ Ext c c' /\ rows c' = rows c ++ K /\ nonelem K.
Proof.
  induction fuel as [|fu IH]; intros p l c s' c' stk HW HS H; cbn [parse_misc_loop] in H; [noerr|].
  rewrite (at_end_st text) in H by exact HW.
  destruct l as [|x l0].
  { inversion H; subst. exists [], [], [], p, []. rewrite app_nil_r.
    split; [reflexivity|]. split; [reflexivity|]. split; [exact HW|]. split; [reflexivity|].
    split; [reflexivity|]. split; [exact HS|]. split; [apply Ext_refl|]. split; [first [rewrite app_nil_r; reflexivity|reflexivity]|constructor]. }
  cbv zeta in H.
  destruct (skip_spaces_inv text HF p (x :: l0) HW) as (w & l1 & El & Hw & Hst & E1 & HW1).
  rewrite E1 in H. rewrite !(starts_with_st text) in H by exact HW1.
  destruct (prefix_b (b "<!--") l1) eqn:Ec.
  { change (b "<!--") with [60; 33; 45; 45] in Ec. destruct (prefix_b_split _ _ Ec) as (l2 & ->).
    ib H q Hq. destruct q as [s1 c1].
    destruct (inv_comment text HF context T _ _ _ _ _ HW1 Hq) as (bs & l3 & -> & Hwf & -> & HW2 & Hev).
    destruct (step_comment text _ _ _ _ _ HS Hev) as (HS1 & R1 & A1 & _ & _).
    destruct (IH _ _ _ _ _ _ HW2 HS1 H) as (items & wend & l' & p' & K & -> & -> & HW3 & Hi & Hwe & HS2 & HE & R2 & HK).
    exists ((w, Cst.IComment bs) :: items), wend, l', p', ((Some (c_parent_id c), KComment (sl (p + blen w + 4) (p + blen w + 4 + blen bs))) :: K).
    split. { rewrite El. cbn [r_pairs flat_map fst snd Cst.r_item]. rewrite <- !app_assoc. reflexivity. }
    split; [reflexivity|]. split; [exact HW3|]. split.
    { cbn [wf_pairs forallb fst snd Cst.is_misc]. rewrite Hw, Hwf. exact Hi. }
    split; [exact Hwe|]. split; [exact HS2|]. split; [eapply Ext_trans; [apply Ext_eq; exact A1|exact HE]|].
    split; [rewrite R2, R1, <- app_assoc; reflexivity|]. constructor; [reflexivity|exact HK]. }
  destruct (prefix_b (b "<?") l1) eqn:Ep.
  { change (b "<?") with [60; 63] in Ep. destruct (prefix_b_split _ _ Ep) as (l2 & ->).
    ib H q Hq. destruct q as [s1 c1].
    destruct (inv_pi text HF context T _ _ _ _ _ HW1 Hq) as (tg & sep & v & l3 & -> & Hwf & -> & HW2 & Hev).
    unfold pi_tok in Hev. cbv zeta in Hev.
    destruct (step_pi text _ _ _ _ _ _ HS Hev) as (HS1 & R1 & A1 & _ & _).
    destruct (IH _ _ _ _ _ _ HW2 HS1 H) as (items & wend & l' & p' & K & -> & -> & HW3 & Hi & Hwe & HS2 & HE & R2 & HK).
    eexists ((w, Cst.IPI tg sep v) :: items), wend, l', p', (_ :: K).
    split. { rewrite El. cbn [r_pairs flat_map fst snd Cst.r_item]. rewrite <- !app_assoc. reflexivity. }
    split; [reflexivity|]. split; [exact HW3|]. split.
    { cbn [wf_pairs forallb fst snd Cst.is_misc]. rewrite Hw, Hwf. exact Hi. }
    split; [exact Hwe|]. split; [exact HS2|]. split; [eapply Ext_trans; [apply Ext_eq; exact A1|exact HE]|].
    split; [rewrite R2, R1, <- app_assoc; reflexivity|]. constructor; [reflexivity|exact HK]. }
  inversion H; subst. exists [], w, l1, (p + blen w), []. cbn [r_pairs flat_map app]. rewrite app_nil_r.
  split; [exact El|]. split; [reflexivity|]. split; [exact HW1|]. split; [reflexivity|].
  split; [exact Hw|]. split; [exact HS|]. split; [apply Ext_refl|]. split; [first [rewrite app_nil_r; reflexivity|reflexivity]|constructor].
Qed.

(* ---- the final check: some child of the root is an element ---- *)
Lemma any_element_row d : forall fuel it,
  children_any_element fuel d it = Ok true ->
  exists nd, In nd (d_nodes d) /\ is_element_kind (nd_kind nd) = true.
Proof.
  induction fuel as [|fu IH]; intros it H; cbn [children_any_element] in H; [discriminate|].
  ib H q Hq. destruct q as [o it']. destruct o as [n|]; [|discriminate].
  ib H e He. unfold node_is_element in He. ib He nd Hnd. injection He as He.
  destruct e; [|eapply IH; exact H]. exists nd. split; [|exact He].
  unfold node_data_of, get_node in Hnd. destruct (nth_N (d_nodes d) n) eqn:E; [|discriminate].
  inversion Hnd; subst. apply nth_N_nth in E. eapply nth_error_In; exact E.
Qed.

Lemma Sim_unique c s1 s2 : Sim c s1 -> Sim c s2 -> length s1 = length s2.
Proof. intros [_ A _ _ _] [_ B _ _ _]. lia. Qed.

(* ---- the whole document ---- *)
Theorem parse_sound_fragment_ctx : forall opt d,
  parse text opt = Ok d -> attrs_raw d ->
  exists c : Cst.doc, Cst.wf_doc c = true /\ Cst.render c = text.
Proof.
  intros opt d H Hraw. unfold parse in H. ib H c0 H0. ib H cF HD.
  (* the initial context *)
  assert (S0 : Sim c0 [] /\ nonelem (rows c0)).
  { unfold init_context in H0. cbn in H0. inversion H0; subst c0. clear H0. split.
    - constructor; cbn; try reflexivity; try lia.
      + eapply ch_root. reflexivity.
      + constructor; [reflexivity|constructor].
    - cbn. constructor; [reflexivity|constructor]. }
  destruct S0 as [S0 N0].
  (* the final checks *)
  cbv zeta in H. ib H it Hit. ib H he Hhe. destruct he; cbn [negb] in H; [|discriminate].
  destruct (1 <? len_N (c_parent_prefixes cF)) eqn:Epp; [discriminate|]. inversion H; subst d. clear H.
  destruct (any_element_row _ _ _ Hhe) as (ndE & HinE & HkE).
  (* the run of the tokenizer *)
  unfold parse_document in HD. rewrite st_new in HD.
  pose proof (W_new text) as HW0.
  rewrite (starts_with_st text) in HD by exact HW0.
  rewrite bom_no in HD. cbn [bind] in HD.
  assert (Hdecl : starts_with_declaration (st 0 text) = false).
  { unfold starts_with_declaration. rewrite (starts_with_st text) by exact HW0.
    change (b "<?xml") with [60; 63; 120; 109; 108].
    rewrite (W_noprefix text _ _ _ HW0 (fr_decl _ HF) ltac:(discriminate)). reflexivity. }
  rewrite Hdecl in HD. cbn [bind] in HD.
  ib HD q1 Hm1. destruct q1 as [s1 c1]. unfold parse_misc in Hm1.
  destruct (misc_sound _ _ _ _ _ _ _ HW0 S0 Hm1)
    as (pre & w1 & l1 & p1 & K1 & Et & -> & HW1 & Hpre & Hw1 & S1 & E1 & R1 & NK1).
  destruct (skip_spaces_inv text HF _ _ HW1) as (w2 & l2 & -> & Hw2 & Hst2 & Es2 & HW2).
  rewrite Es2 in HD. rewrite (starts_with_st text) in HD by exact HW2.
  change (b "<!DOCTYPE") with ([60; 33; 68] ++ [79; 67; 84; 89; 80; 69]) in HD.
  assert (Hnd : prefix_b ([60; 33; 68] ++ [79; 67; 84; 89; 80; 69]) l2 = false).
  { destruct (prefix_b _ l2) eqn:E; [|reflexivity]. apply prefix_b_app_l in E.
    rewrite (W_noprefix text _ _ _ HW2 (fr_doctype _ HF) ltac:(discriminate)) in E. discriminate. }
  rewrite Hnd in HD. cbn [bind] in HD.
  destruct (skip_spaces_inv text HF _ _ HW2) as (w3 & l3 & -> & Hw3 & Hst3 & Es3 & HW3).
  rewrite Es3 in HD.
  ib HD q2 Hroot. destruct q2 as [s2 c2]. ib HD q3 Hm2. destruct q3 as [s3 c3].
  (* the prolog whitespace *)
  set (wpre := w1 ++ w2 ++ w3).
  assert (Hwpre : Cst.wf_ws wpre = true) by (unfold wpre; repeat apply wf_ws_app; assumption).
  (* root or not *)
  assert (ROOT : exists root l4 p4,
            l3 = Cst.r_item root ++ l4 /\ s2 = st p4 l4 /\ W p4 l4 /\ Sim c2 [] /\ Ext c1 c2 /\
            (AttrRaw c2 -> Cst.wf_item root = true) /\
            match root with Cst.IElem _ _ _ _ => True | _ => False end).
  { destruct (match curr_byte_opt (st (p1 + blen w2 + blen w3) l3) with Some x => x =? 60 | None => false end) eqn:Ecb.
    2:{ (* no root element: no element node can exist *)
      exfalso. inversion Hroot; subst s2 c2. unfold parse_misc in Hm2.
      destruct (misc_sound _ _ _ _ _ _ _ HW3 S1 Hm2) as (post & w4 & l4 & p4 & K2 & _ & _ & _ & _ & _ & _ & _ & R2 & NK2).
      assert (NE : nonelem (rows cF)).
      { assert (cF = c3) by (destruct (negb (at_end s3)); [noerr|inversion HD; reflexivity]). subst cF.
        rewrite R2, R1. unfold nonelem. repeat (apply Forall_app; split); assumption. }
      unfold nonelem, rows in NE. rewrite Forall_forall in NE.
      specialize (NE (rowof ndE) (in_map rowof _ _ HinE)). cbn [rowof snd] in NE. congruence. }
    rewrite curr_byte_opt_st_any in Ecb by exact HW3.
    destruct l3 as [|x l3']; [discriminate|]. assert (x = 60) by lia. subst x.
    ib Hroot q Hq. destruct q as [[open sE] cE].
    change (60 :: l3') with ([60] ++ l3') in *.
    destruct (inv_element text HF context T _ _ _ _ _ _ HW3 Hq)
      as (name & attrs & ws_end & l4 & ca & cb & El & Hname & Hrw & Hwe & Hev1 & Hev2 & Hev3 & -> & HW4).
    rewrite El in HW3.
    destruct (tag_sound text HF _ _ _ _ _ _ _ _ _ _ _ HW3 Hrw S1 Hev1 Hev2 Hev3)
      as (HS1 & HE1 & Hat1 & Hnx & Hax & Hnd2 & Hwa & _).
    assert (Hok : forall cf, Ext cE cf -> AttrRaw cf -> elem_ok name attrs ws_end).
    { intros cf HEf HA. repeat split; auto. apply Hwa. eapply AttrRaw_ext; eauto. }
    destruct open.
    - unfold parse_content in Hroot.
      assert (Hl1 : N.of_nat (length [name]) = 0 + 1) by reflexivity.
      assert (Hat2 : c_after_text cE <> [] -> text_stop l4) by (intros Hn; congruence).
      destruct (content_sound text HF _ 0 _ _ _ _ _ [name] HW4 HS1 Hl1 Hat2 Hroot) as (HE2 & [HC|HU]).
      + destruct HC as (lv & l5 & p5 & opn & rest & E1' & E2' & E3' & E4' & E5' & E6' & E7' & E8' & E9' & E10').
        destruct lv as [|[cs w] [|? ?]]; cbn [length] in E3'; try (exfalso; clear - E3'; lia).
        destruct opn as [|n0 [|? ?]]; cbn [length] in E2'; try (exfalso; clear - E2'; lia).
        cbn [app] in E1'. injection E1' as En Er. subst n0 rest.
        exists (Cst.IElem name attrs ws_end (Some (cs, w))), l5, p5.
        split. { rewrite El, E4', r_item_elem. cbn [negb tag_tail r_levels]. rewrite <- !app_assoc. cbn [app].
                 rewrite <- ?app_assoc. rewrite ?app_nil_r. reflexivity. }
        split; [exact E5'|]. split; [exact E6'|]. split; [exact E7'|]. split; [eapply Ext_trans; eauto|].
        split; [|exact I]. intros HA. specialize (E10' HA). inversion E10' as [|? ? (A1 & A2 & A3) _]; subst.
        apply wf_elem_intro; [eapply Hok; [exact HE2|exact HA]|]. cbn [fst snd] in *. auto.
      + (* the root element was never closed: refused by the final check *)
        exfalso. destruct HU as (stk2 & pz & lz & -> & HWz & HS2 & Hne). unfold parse_misc in Hm2.
        destruct (misc_sound _ _ _ _ _ _ _ HWz HS2 Hm2) as (post & w4 & l5 & p5 & K2 & _ & _ & _ & _ & _ & S3 & _ & _ & _).
        assert (cF = c3) by (destruct (negb (at_end s3)); [noerr|inversion HD; reflexivity]). subst cF.
        destruct S3 as [_ Hl _ _ _]. unfold len_N in Epp. destruct stk2; [congruence|]. cbn [length] in Hl.
        clear - Hl Epp. lia.
    - inversion Hroot; subst s2 c2.
      exists (Cst.IElem name attrs ws_end None), l4, (p1 + blen w2 + blen w3 + 1 + blen name + blen (flat_map Cst.r_attr attrs) + blen ws_end + blen (tag_tail (negb false))).
      split. { rewrite El, r_item_elem. cbn [negb tag_tail]. rewrite <- !app_assoc. reflexivity. }
      split; [reflexivity|]. split; [exact HW4|]. split; [exact HS1|]. split; [exact HE1|].
      split; [|exact I]. intros HA. apply wf_elem_intro; [eapply Hok; [apply Ext_refl|exact HA]|exact I]. }
  destruct ROOT as (root & l4 & p4 & -> & -> & HW4 & S2 & E2 & Hrwf & Hrk).
  unfold parse_misc in Hm2.
  destruct (misc_sound _ _ _ _ _ _ _ HW4 S2 Hm2) as (post & w4 & l5 & p5 & K2 & -> & -> & HW5 & Hpost & Hw4 & S3 & E3 & _ & _).
  rewrite (at_end_st text) in HD by exact HW5. destruct l5 as [|? ?]; cbn [negb] in HD; [|noerr].
  inversion HD; subst cF. clear HD.
  assert (HA3 : AttrRaw c3).
  { unfold AttrRaw, attrs_of. apply Forall_forall. intros a Ha. exact (Hraw a Ha). }
  assert (HA2 : AttrRaw c2) by (eapply AttrRaw_ext; eauto).
  (* the abstract document *)
  exists {| Cst.d_before := snd (shift pre wpre); Cst.d_ws0 := fst (shift pre wpre);
            Cst.d_root := root; Cst.d_after := post; Cst.d_ws_end := w4 |}.
  destruct (shift_wf pre wpre Hpre Hwpre) as (B1 & B2).
  split.
  - unfold Cst.wf_doc. cbn [Cst.d_ws0 Cst.d_ws_end Cst.d_before Cst.d_root Cst.d_after].
    rewrite B1, Hw4, B2. cbn [andb]. unfold wf_pairs in Hpost. rewrite Hpost, andb_true_r.
    destruct root; try contradiction. apply Hrwf. exact HA2.
  - unfold Cst.render. cbn [Cst.d_ws0 Cst.d_ws_end Cst.d_before Cst.d_root Cst.d_after].
    rewrite app_assoc, shift_render. rewrite Et. unfold wpre, r_pairs. rewrite app_nil_r, <- !app_assoc. reflexivity.
Qed.

End Doc.

(* ------------------------------------------------------------------------------------------ *)
(* Main theorem: on the fragment, an accepted input IS the rendering of a well-formed abstract
   document -- the parser accepts nothing outside the grammar of Spec/Cst.v there. *)
Theorem parse_sound_fragment : forall text opt d,
  in_fragment text = true -> parse text opt = Ok d -> attrs_raw d ->
  exists c : Cst.doc, Cst.wf_doc c = true /\ Cst.render c = text.
Proof.
  intros text opt d Hf H Hraw. eapply parse_sound_fragment_ctx; [apply in_fragment_Frag; exact Hf|exact H|exact Hraw].
Qed.
Print Assumptions parse_sound_fragment.

(* the statement announced in CstSound.v *)
Theorem parse_sound_fragment_holds : parse_sound_fragment_stmt.
Proof. exact parse_sound_fragment. Qed.
Print Assumptions parse_sound_fragment_holds.
