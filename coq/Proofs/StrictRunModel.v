(* Proofs/StrictRunModel.v -- the strict variants of StrictModel.v lifted through all of their
   callers: Stream functions, the whole tokenizer, the loops of the builder that read a stream,
   the callback and parse.  [parse_strict] returns [Panic site] exactly where the source would
   panic at one of the sites of the audit list.  Definitions only (theorems: StrictRun*.v). *)
From Coq Require Import Ascii String.
From Coq Require Import List NArith Bool.
Import ListNotations.
From RX Require Import Generated.
From RX.Model Require Import Base CharClass Stream Tokenizer Doc Builder Parse.
From RX.Proofs Require Import StrictModel StrictStream.
Open Scope N_scope.

Section Stream.
Variable text : bytes.
Notation stream := Stream.stream.

(* `if self.starts_with(p) { A } else { B }` *)
Definition ifsw {X} (s : stream) (p : bytes) (A B : res X) : res X :=
  let! sw := starts_with_s text s p in if sw then A else B.

(* the closures `|s, c| !(c == k && s.starts_with(p))` of consume_chars *)
Definition until_r (k : N) (p : bytes) (s : stream) (ch : N) : res bool :=
  if ch =? k then let! sw := starts_with_s text s p in Ok (negb sw) else Ok true.

(* skip_chars with a closure that may panic *)
Fixpoint skip_chars_loop_r (fuel : nat) (f : stream -> N -> res bool) (s : stream) : res stream :=
  match fuel with
  | O => OutOfFuel
  | S fu =>
    let! oc := next_char_s text s in
    match oc with
    | None => Ok s
    | Some (c, n) =>
      if negb (char_is_char c) then err_at text s (NonXmlChar c)
      else
        let! go := f s c in
        if go then let! s' := advance n s in skip_chars_loop_r fu f s'
        else Ok s
    end
  end.
Definition skip_chars_r (f : stream -> N -> res bool) (s : stream) : res stream :=
  skip_chars_loop_r (S (length (s_rest s))) f s.
Definition consume_chars_r (f : stream -> N -> res bool) (s : stream) : res (slice * stream) :=
  let! s' := skip_chars_r f s in
  let! sl := slice_back text (s_pos s) s' in Ok (sl, s').

Definition consume_name_s (s : stream) : res (slice * stream) :=
  let start := s_pos s in
  let! s' := skip_name_s text s in
  let! name := slice_back text start s' in
  if slice_len name =? 0 then err_from text start InvalidName
  else Ok (name, s').

Definition consume_qname_s (s : stream) : res (slice * slice * stream) :=
  let start := s_pos s in
  let! (splitter, s') := consume_qname_loop_s text (S (length (s_rest s))) start None s in
  let! (prefix, local) :=
    match splitter with
    | Some sp =>
      let! p := mk_slice text start sp in
      let! l := slice_back text (sp + 1) s' in Ok (p, l)
    | None =>
      let! l := slice_back text start s' in
      let! p := mk_slice text start start in Ok (p, l)
    end in
  if negb (slice_len prefix =? 0) && negb (str_is_name_start (slice_bytes text prefix))
  then err_from text start InvalidName
  else if negb (str_is_name_start (slice_bytes text local)) then err_from text start InvalidName
  else Ok (prefix, local, s').

Definition consume_reference_s (s : stream) : res (option (reference * stream)) :=
  let! (ok, s) := try_consume_byte_s 38 s in
  if negb ok then Ok None else
  let! (is_num, s) := try_consume_byte_s 35 s in
  let! r :=
    if is_num then
      let! (is_hex, s) := try_consume_byte_s 120 s in
      let! (value, s) := consume_bytes text (if is_hex then is_ascii_hexdigit else is_ascii_digit) s in
      let digits := slice_bytes text value in
      match digits with
      | [] => Ok None
      | _ =>
        let n := digits_val (if is_hex then 16 else 10) digits 0 in
        if u32_max <? n then Ok None
        else
          let c := if is_scalar n then n else 65533 in
          if negb (char_is_char c) then Ok None else Ok (Some (RefChar c, s))
      end
    else
      match consume_name_s s with
      | Ok (name, s) =>
        let nb := slice_bytes text name in
        let r := if bytes_eqb nb (b "quot") then RefChar 34
                 else if bytes_eqb nb (b "amp") then RefChar 38
                 else if bytes_eqb nb (b "apos") then RefChar 39
                 else if bytes_eqb nb (b "lt") then RefChar 60
                 else if bytes_eqb nb (b "gt") then RefChar 62
                 else RefEntity name in
        Ok (Some (r, s))
      | Err _ => Ok None
      | Panic p => Panic p
      | OutOfFuel => OutOfFuel
      end in
  match r with
  | None => Ok None
  | Some (r, s) =>
    match consume_byte text 59 s with
    | Ok s' => Ok (Some (r, s'))
    | Err _ => Ok None
    | Panic p => Panic p
    | OutOfFuel => OutOfFuel
    end
  end.
End Stream.

(* ---------------------------------------------------------------------------------------- *)
(* the tokenizer                                                                            *)
(* ---------------------------------------------------------------------------------------- *)

Section Tok.
Variable text : bytes.
Variable C : Type.
Variable ev : Tokenizer.token -> C -> res C.
Notation stream := Stream.stream.
Notation ifsw := (ifsw text).

Definition parse_comment_s (s : stream) (c : C) : res (stream * C) :=
  let start := s_pos s in
  let! s := advance 4 s in
  let! (txt, s) := consume_chars_r text (until_r text 45 (b "-->")) s in
  let! s := skip_string_s text (b "-->") s in
  let tb := slice_bytes text txt in
  if contains_b (b "--") tb then err_from text start InvalidComment
  else if ends_with_byte 45 tb then err_from text start InvalidComment
  else
    let! c := ev (TComment txt (start, s_pos s)) c in Ok (s, c).

Definition parse_pi_s (s : stream) (c : C) : res (stream * C) :=
  ifsw s (b "<?xml ") (err_at text s UnexpectedDeclaration) (
  let start := s_pos s in
  let! s := advance 2 s in
  let! (target, s) := consume_name_s text s in
  let! s := ifsw s (b "?>") (Ok s) (consume_spaces text s) in
  let! (content, s) := consume_chars_r text (until_r text 63 (b "?>")) s in
  let content := if slice_len content =? 0 then None else Some content in
  let! s := skip_string_s text (b "?>") s in
  let! c := ev (TPI target content (start, s_pos s)) c in Ok (s, c)).

Fixpoint parse_misc_loop_s (fuel : nat) (s : stream) (c : C) : res (stream * C) :=
  match fuel with
  | O => OutOfFuel
  | S fu =>
    if at_end s then Ok (s, c) else
    let s := skip_spaces s in
    ifsw s (b "<!--")
      (let! (s, c) := parse_comment_s s c in parse_misc_loop_s fu s c)
      (ifsw s (b "<?")
         (let! (s, c) := parse_pi_s s c in parse_misc_loop_s fu s c)
         (Ok (s, c)))
  end.
Definition parse_misc_s (s : stream) (c : C) : res (stream * C) :=
  parse_misc_loop_s (S (length (s_rest s))) s c.

Definition parse_attribute_s (s : stream) : res (slice * slice * stream) :=
  let! (prefix, local, s) := consume_qname_s text s in
  let! s := consume_eq text s in
  let! (quote, s) := consume_quote text s in
  let! s := skip_chars_r text (fun _ ch => Ok (negb (ch =? quote) && negb (ch =? 60))) s in
  let! _ := slice_back text (s_pos s) s in
  let! s := consume_byte text quote s in
  Ok (prefix, local, s).

Definition parse_pseudo_attribute_s (name : bytes) (s : stream) : res stream :=
  let start := s_pos s in
  let! (prefix, local, s) := parse_attribute_s s in
  if negb (slice_len prefix =? 0) || negb (bytes_eqb (slice_bytes text local) name)
  then err_from text start (InvalidString name)
  else Ok s.

Definition decl_consume_spaces_s (s : stream) : res stream :=
  if starts_with_space s then Ok (skip_spaces s)
  else
    let! sw := starts_with_s text s (b "?>") in
    if negb sw && negb (at_end s) then
      let! x := curr_byte_unchecked s in err_at text s (InvalidChar2 (b "a whitespace") x)
    else Ok s.

Definition parse_declaration_s (s : stream) : res stream :=
  let! s := advance 5 s in
  let! s := decl_consume_spaces_s s in
  ifsw s (b "version") (
    let! s := parse_pseudo_attribute_s (b "version") s in
    let! s := decl_consume_spaces_s s in
    let! s := ifsw s (b "encoding")
                (let! s := parse_pseudo_attribute_s (b "encoding") s in decl_consume_spaces_s s)
                (Ok s) in
    let! s := ifsw s (b "standalone") (parse_pseudo_attribute_s (b "standalone") s) (Ok s) in
    let s := skip_spaces s in
    skip_string_s text (b "?>") s)
  (skip_string_s text (b "version") s).

(* the literals of an external id: no strict callee (consume_bytes, is_xml_str slice at the
   same sites as the quoted branch of parse_entity_def_s) *)
Definition parse_external_literal_s (s : stream) : res stream :=
  let! (quote, s) := consume_quote text s in
  let start := s_pos s in
  let! (value, s) := consume_bytes text (fun x => negb (x =? quote)) s in
  let! _ := is_xml_str text value start in
  consume_byte text quote s.

Definition parse_pubid_literal_s (s : stream) : res stream :=
  let! (quote, s) := consume_quote text s in
  let s := skip_bytes (fun x => negb (x =? quote) && pubid_char x) s in
  let! x := curr_byte s in
  if negb (x =? quote) then err_at text s InvalidExternalID
  else advance 1 s.

Definition parse_external_id_s (s : stream) : res (bool * stream) :=
  let! sw1 := starts_with_s text s (b "SYSTEM") in
  let! sw2 := if sw1 then Ok true else starts_with_s text s (b "PUBLIC") in
  if sw2 then
    let start := s_pos s in
    let! s := advance 6 s in
    let! id := slice_back text start s in
    let! s := consume_spaces text s in
    if bytes_eqb (slice_bytes text id) (b "SYSTEM") then
      let! s := parse_external_literal_s s in
      Ok (true, s)
    else
      let! s := parse_pubid_literal_s s in
      let! s := consume_spaces text s in
      let! s := parse_external_literal_s s in
      Ok (true, s)
  else Ok (false, s).

Definition parse_entity_def_s (s : stream) (is_ge : bool) : res (option slice * stream) :=
  let! x := curr_byte s in
  if (x =? 34) || (x =? 39) then
    let! (quote, s) := consume_quote text s in
    let start := s_pos s in
    let s := skip_bytes (fun y => negb (y =? quote)) s in
    let! value := slice_back text start s in
    let! _ := is_xml_str text value start in
    let! s := consume_byte text quote s in
    Ok (Some value, s)
  else if (x =? 83) || (x =? 80) then
    let! (found, s) := parse_external_id_s s in
    if found then
      if is_ge then
        let has_space := starts_with_space s in
        let s := skip_spaces s in
        ifsw s (b "NDATA")
          (if negb has_space then err_at text s (InvalidChar2 (b "a whitespace") 78) else
           let! s := advance 5 s in
           let! s := consume_spaces text s in
           let! s := skip_name_s text s in
           Ok (None, s))
          (Ok (None, s))
      else Ok (None, s)
    else err_at text s InvalidExternalID
  else err_at text s (InvalidChar2 (b "a quote, SYSTEM or PUBLIC") x).

Definition parse_entity_decl_s (s : stream) (c : C) : res (stream * C) :=
  let! s := advance 8 s in
  let! s := consume_spaces text s in
  let! (pe, s) := try_consume_byte_s 37 s in
  let! s := if pe then consume_spaces text s else Ok s in
  let is_ge := negb pe in
  let! (name, s) := consume_name_s text s in
  let! s := consume_spaces text s in
  let! (def, s) := parse_entity_def_s s is_ge in
  let! c := match def with
            | Some d => if is_ge then ev (TEntityDecl name d) c else Ok c
            | None => Ok c
            end in
  let s := skip_spaces s in
  let! s := consume_byte text 62 s in
  Ok (s, c).

Definition parse_doctype_start_s (s : stream) : res stream :=
  let! s := advance 9 s in
  let! s := consume_spaces text s in
  let! s := skip_name_s text s in
  let s := skip_spaces s in
  let! (_, s) := parse_external_id_s s in
  let s := skip_spaces s in
  let! x := curr_byte s in
  if negb (x =? 91) && negb (x =? 62) then err_at text s (InvalidChar2 (b "'[' or '>'") x)
  else Ok s.

Fixpoint parse_doctype_loop_s (fuel : nat) (start : N) (s : stream) (c : C) : res (stream * C) :=
  match fuel with
  | O => OutOfFuel
  | S fu =>
    if at_end s then Ok (s, c) else
    let s := skip_spaces s in
    ifsw s (b "<!ENTITY")
      (let! (s, c) := parse_entity_decl_s s c in parse_doctype_loop_s fu start s c)
    (ifsw s (b "<!--")
      (let! (s, c) := parse_comment_s s c in parse_doctype_loop_s fu start s c)
    (ifsw s (b "<?")
      (let! (s, c) := parse_pi_s s c in parse_doctype_loop_s fu start s c)
    (ifsw s (b "]")
      (let! s := advance 1 s in
       let s := skip_spaces s in
       match curr_byte_opt s with
       | Some x => if x =? 62 then let! s := advance 1 s in Ok (s, c)
                   else err_at text s (InvalidChar2 (b "'>'") x)
       | None => Err UnexpectedEndOfStream
       end)
    (let! sw1 := starts_with_s text s (b "<!ELEMENT") in
     let! sw2 := if sw1 then Ok true else starts_with_s text s (b "<!ATTLIST") in
     let! sw3 := if sw2 then Ok true else starts_with_s text s (b "<!NOTATION") in
     if sw3 then
       match consume_decl text s with
       | Ok s => parse_doctype_loop_s fu start s c
       | Err _ => err_from text start UnknownToken
       | Panic p => Panic p
       | OutOfFuel => OutOfFuel
       end
     else err_at text s UnknownToken))))
  end.

Definition parse_doctype_s (s : stream) (c : C) : res (stream * C) :=
  let start := s_pos s in
  let! s := parse_doctype_start_s s in
  let s := skip_spaces s in
  if match curr_byte_opt s with Some x => x =? 62 | None => false end then
    let! s := advance 1 s in Ok (s, c)
  else
    let! s := advance 1 s in
    parse_doctype_loop_s (S (length (s_rest s))) start s c.

Fixpoint parse_element_loop_s (fuel : nat) (tag_start : N) (s : stream) (c : C)
  : res (bool * stream * C) :=
  match fuel with
  | O => OutOfFuel
  | S fu =>
    if at_end s then Err UnexpectedEndOfStream
    else
      let has_space := starts_with_space s in
      let s := skip_spaces s in
      let start := s_pos s in
      let! x := curr_byte s in
      if x =? 47 then
        let! s := advance 1 s in
        let! s := consume_byte text 62 s in
        let! c := ev (TElementEnd EEmpty (start, s_pos s)) c in
        Ok (false, s, c)
      else if x =? 62 then
        let! s := advance 1 s in
        let! c := ev (TElementEnd EOpen (start, s_pos s)) c in
        Ok (true, s, c)
      else
        let! s := if has_space then Ok s else consume_spaces text s in
        let! (prefix, local, s) := consume_qname_s text s in
        let qname_end := s_pos s in
        let qname_len := N.min (qname_end - start) qname_len_sat in
        let! s := consume_eq text s in
        let eq_len := N.min (s_pos s - qname_end) eq_len_sat in
        let! (quote, s) := consume_quote text s in
        let value_start := s_pos s in
        let! s := advance_until2_s text quote 60 s in
        let! value := slice_back text value_start s in
        let! _ := is_xml_str text value value_start in
        let! s := consume_byte text quote s in
        let! c := ev (TAttribute (start, s_pos s) qname_len eq_len prefix local value) c in
        parse_element_loop_s fu tag_start s c
  end.

Definition parse_element_s (s : stream) (c : C) : res (bool * stream * C) :=
  let start := s_pos s in
  let! s := advance 1 s in
  let! (prefix, local, s) := consume_qname_s text s in
  let! c := ev (TElementStart prefix local start) c in
  parse_element_loop_s (S (length (s_rest s))) start s c.

Definition parse_cdata_s (s : stream) (c : C) : res (stream * C) :=
  let start := s_pos s in
  let! s := advance 9 s in
  let! (txt, s) := consume_chars_r text (until_r text 93 (b "]]>")) s in
  let! s := skip_string_s text (b "]]>") s in
  let! c := ev (TCdata txt (start, s_pos s)) c in Ok (s, c).

Definition parse_close_element_s (s : stream) (c : C) : res (stream * C) :=
  let start := s_pos s in
  let! s := advance 2 s in
  let! (prefix, local, s) := consume_qname_s text s in
  let s := skip_spaces s in
  let! s := consume_byte text 62 s in
  let! c := ev (TElementEnd (EClose prefix local) (start, s_pos s)) c in Ok (s, c).

Definition parse_text_s (s : stream) (c : C) : res (stream * C) :=
  let start := s_pos s in
  let! (txt, s) := consume_chars_r text (fun _ ch => Ok (negb (ch =? 60))) s in
  let tb := slice_bytes text txt in
  if mem_b 62 tb && contains_b (b "]]>") tb then err_at text s InvalidCharacterData
  else let! c := ev (TText txt (start, s_pos s)) c in Ok (s, c).

Fixpoint parse_content_loop_s (fuel : nat) (depth : N) (s : stream) (c : C) : res (stream * C) :=
  match fuel with
  | O => OutOfFuel
  | S fu =>
    if at_end s then Ok (s, c) else
    let! x := curr_byte_unchecked s in
    if x =? 60 then
      match next_byte s with
      | Ok y =>
        if y =? 33 then
          ifsw s (b "<!--")
            (let! (s, c) := parse_comment_s s c in parse_content_loop_s fu depth s c)
            (ifsw s (b "<![CDATA[")
               (let! (s, c) := parse_cdata_s s c in parse_content_loop_s fu depth s c)
               (err_at text s UnknownToken))
        else if y =? 63 then
          let! (s, c) := parse_pi_s s c in parse_content_loop_s fu depth s c
        else if y =? 47 then
          let! (s, c) := parse_close_element_s s c in
          if depth =? 0 then Ok (s, c) else parse_content_loop_s fu (depth - 1) s c
        else
          let! (open, s, c) := parse_element_s s c in
          parse_content_loop_s fu (if open then depth + 1 else depth) s c
      | Err _ => err_at text s UnknownToken
      | Panic p => Panic p
      | OutOfFuel => OutOfFuel
      end
    else
      let! (s, c) := parse_text_s s c in parse_content_loop_s fu depth s c
  end.

Definition parse_content_s (s : stream) (c : C) : res (stream * C) :=
  parse_content_loop_s (S (length (s_rest s))) 0 s c.

(* starts_with(b"<?xml") && as_bytes().get(5) is a space *)
Definition starts_with_declaration_s (s : stream) : res bool :=
  let! sw := starts_with_s text s (b "<?xml") in
  if sw then
    let! a := avail_s text s in
    Ok (match nth_error a 5 with Some x => byte_is_space x | None => false end)
  else Ok false.

Definition parse_document_s (allow_dtd : bool) (c : C) : res C :=
  let s := stream_new text in
  let! s := ifsw s [239; 187; 191] (advance 3 s) (Ok s) in
  let! sd := starts_with_declaration_s s in
  let! s := if sd then parse_declaration_s s else Ok s in
  let! (s, c) := parse_misc_s s c in
  let s := skip_spaces s in
  let! (s, c) :=
    ifsw s (b "<!DOCTYPE")
      (if negb allow_dtd then Err DtdDetected
       else
         let! (s, c) := parse_doctype_s s c in
         parse_misc_s s c)
      (Ok (s, c)) in
  let s := skip_spaces s in
  let! (s, c) :=
    if match curr_byte_opt s with Some x => x =? 60 | None => false end then
      let! (open, s, c) := parse_element_s s c in
      if open then parse_content_s s c else Ok (s, c)
    else Ok (s, c) in
  let! (s, c) := parse_misc_s s c in
  if negb (at_end s) then err_at text s UnknownToken
  else Ok c.

End Tok.

(* ---------------------------------------------------------------------------------------- *)
(* the loops of the builder that read a stream                                              *)
(* ---------------------------------------------------------------------------------------- *)

Section AttrLoopS.
Variable text : bytes.
Variable norm_lvl : list entity -> slice -> text_buffer -> loop_detector -> res (text_buffer * loop_detector).
Variable entities : list entity.
Notation stream := Stream.stream.
Fixpoint attr_loop_s (fuel : nat) (s : stream) (t : text_buffer) (ld : loop_detector) {struct fuel}
  : res (text_buffer * loop_detector) :=
  match fuel with
  | O => OutOfFuel
  | S fu =>
    if at_end s then Ok (t, ld) else
    let! x := curr_byte_unchecked s in
    if negb (x =? 38) then
      if (x =? 60) && (0 <? ld_depth ld) then err_at text s InvalidAttributeValue
      else
        let! s := advance 1 s in
        attr_loop_s fu s (tb_push_from_attr x (curr_byte_opt s) t) ld
    else
      let start := s_pos s in
      let! r := consume_reference_s text s in
      match r with
      | Some (RefChar ch, s) =>
        match push_char_bytes_attr (encode_utf8 ch) (0 <? ld_depth ld) t with
        | Some t => attr_loop_s fu s t ld
        | None => err_from text start InvalidAttributeValue
        end
      | Some (RefEntity name, s) =>
        match find_entity text entities (slice_bytes text name) with
        | Some e =>
          let! ld := inc_references text s ld in
          let! ld := inc_depth text s ld in
          let! (t, ld) := norm_lvl entities (en_value e) t ld in
          attr_loop_s fu s t (dec_depth ld)
        | None => err_from text start (UnknownEntityReference (slice_bytes text name))
        end
      | None => err_from text start MalformedEntityReference
      end
  end.
End AttrLoopS.

Section Builder.
Variable text : bytes.
Notation stream := Stream.stream.

Fixpoint norm_attr_lvl_s (lvl : nat) (entities : list entity) (value : slice)
         (t : text_buffer) (ld : loop_detector) {struct lvl} : res (text_buffer * loop_detector) :=
  match lvl with
  | O => OutOfFuel
  | S lvl' =>
    let! s0 := stream_from_substr text (sl_start value) (sl_end value) in
    attr_loop_s text (norm_attr_lvl_s lvl') entities (S (length (s_rest s0))) s0 t ld
  end.

Definition normalize_attribute_s (value : slice) (c : context) : res (storage * context) :=
  let vb := slice_bytes text value in
  if existsb (fun x => (x =? 38) || (x =? 9) || (x =? 10) || (x =? 13)) vb then
    let! (t, ld) := norm_attr_lvl_s entity_levels (c_entities c) value tb_new (c_ld c) in
    let! bs := tb_finish t in
    Ok (Owned bs, set_ld c ld)
  else Ok (Borrowed (SIn value), c).

(* process_attribute: the strict normalize_attribute as a monitor (it is pure), then the
   strict-push_ns version of StrictModel.v *)
Definition process_attribute_ss (r : range) (qname_len eq_len : N) (prefix local value : slice)
           (c : context) : res context :=
  match normalize_attribute_s value c with
  | Panic p => Panic p
  | _ => process_attribute_s text r qname_len eq_len prefix local value c
  end.

Definition parse_next_chunk_s (s : stream) (entities : list entity) : res (next_chunk * stream) :=
  if at_end s then Panic P_debug_assert else
  let! x := curr_byte_unchecked s in
  if x =? 38 then
    let start := s_pos s in
    let! r := consume_reference_s text s in
    match r with
    | Some (RefChar ch, s) => Ok (ChChar ch, s)
    | Some (RefEntity name, s) =>
      match find_entity text entities (slice_bytes text name) with
      | Some e => Ok (ChText (en_value e), s)
      | None => err_from text start (UnknownEntityReference (slice_bytes text name))
      end
    | None => err_from text start MalformedEntityReference
    end
  else let! s := advance 1 s in Ok (ChByte x, s).

Section TextLoopS.
Variable pc : stream -> context -> res (stream * context).
Variable r : range.
Fixpoint text_loop_s (fuel : nat) (s : stream) (buf : text_buffer) (c : context) {struct fuel}
  : res (text_buffer * context) :=
  match fuel with
  | O => OutOfFuel
  | S fu =>
    if at_end s then Ok (buf, c) else
    let! (ch, s) := parse_next_chunk_s s (c_entities c) in
    match ch with
    | ChByte x => text_loop_s fu s (tb_push_from_text x buf) c
    | ChChar cp =>
      text_loop_s fu s (push_char_bytes_text (encode_utf8 cp) (0 <? ld_depth (c_ld c)) buf) c
    | ChText value =>
      let! c := if negb (tb_is_empty buf)
                then let! bs := tb_finish buf in append_text (CowOwned bs) r c
                else Ok c in
      let! ld := inc_references text s (c_ld c) in
      let! ld := inc_depth text s ld in
      let c := set_ld c ld in
      let! es := stream_from_substr text (sl_start value) (sl_end value) in
      let prev_tag_name := c_tag_name c in
      let prev_floor := c_entity_floor c in
      let c := set_entity_floor (set_tag_name c tag_name_null) (len_N (c_parent_prefixes c)) in
      let! (_, c) := pc es c in
      if negb (len_N (c_parent_prefixes c) =? c_entity_floor c) then Err UnexpectedEndOfStream
      else
        let c := set_entity_floor (set_tag_name c prev_tag_name) prev_floor in
        let c := set_ld c (dec_depth (c_ld c)) in
        text_loop_s fu s tb_new c
    end
  end.
End TextLoopS.

Definition process_text_with_s (pc : stream -> context -> res (stream * context))
           (t : slice) (r : range) (c : context) : res context :=
  let tb := slice_bytes text t in
  if negb (existsb (fun x => (x =? 38) || (x =? 13)) tb) then append_text (CowBorrowed t) r c
  else
    let! s0 := stream_from_substr text (fst r) (snd r) in
    let! (buf, c) := text_loop_s pc r (S (length (s_rest s0))) s0 tb_new c in
    if negb (tb_is_empty buf)
    then let! bs := tb_finish buf in append_text (CowOwned bs) r c
    else Ok c.

(* the callback: strict attribute normalisation on top of the strict builder callback *)
Definition token_with_ss (ptext : slice -> range -> context -> res context) (tk : Tokenizer.token)
           (c : context) : res context :=
  match tk with
  | TAttribute r qname_len eq_len prefix local value =>
    process_attribute_ss r qname_len eq_len prefix local value c
  | _ => token_with_s text ptext tk c
  end.

Fixpoint parse_content_lvl_ss (lvl : nat) (s : stream) (c : context) {struct lvl}
  : res (stream * context) :=
  match lvl with
  | O => OutOfFuel
  | S lvl' =>
    parse_content_s text context
      (token_with_ss (process_text_with_s (parse_content_lvl_ss lvl'))) s c
  end.

Definition process_text_ss := process_text_with_s (parse_content_lvl_ss entity_levels).
Definition token_ss := token_with_ss process_text_ss.

(* parse with every strict function *)
Definition parse_strict (opt : options) : res document :=
  let! c := init_context_s text opt in
  let! c := parse_document_s text context token_ss (allow_dtd opt) c in
  let d := c_doc c in
  let! it := children d 0 in
  let! has_elem := children_any_element (S (length (d_nodes d))) d it in
  if negb has_elem then Err NoRootNode
  else if 1 <? len_N (c_parent_prefixes c) then Err UnclosedRootNode
  else Ok d.

End Builder.
