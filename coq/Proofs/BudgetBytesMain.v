(* BudgetBytesMain.v -- C09, bytes: a successful parse stores at most
   len + 256 * len * (number of '&')  bytes of text and attribute values. *)
From Coq Require Import Ascii String.
From Coq Require Import Lia ZifyBool ZifyN ZifyNat.
From RX Require Import Generated.
From RX.Model Require Import Base CharClass Stream Tokenizer Doc Builder Parse.
From RX.Proofs Require Import Tactics OptionsParam OptionsBuild OptionsMain
  BudgetStream BudgetBuild BudgetAcct BudgetMain BudgetBytesBuild BudgetBytesTok BudgetBytesAcct.

Section Main.
Variable text : bytes.
Notation T := (tlen text).

Lemma nested_bytes lvl : forall s c s' c',
  parse_content_lvl text lvl s c = Ok (s', c') ->
  wfl text s -> 1 <= dp c -> ldok (c_ld c) ->
  mvk text 0 s s' /\ BIB text 0 (s_pos s) c (s_pos s') c'.
Proof.
  induction lvl; intros s c s' c' H W Hd Hok; [discriminate|].
  cbn [parse_content_lvl] in H.
  eapply (tp_parse_content text context _ (BIB text 0 (s_pos s) c)); [ | | | exact H | exact W | ].
  - intros p p' d. apply BIB_mono.
  - intros tok r d d' p. apply (token_bytes_r text _ IHlvl). lia.
  - intros tok d d' p. apply (token_bytes_0 text _ IHlvl).
  - apply BIB_refl. exact Hok.
Qed.

Lemma document_bytes dtd c0 c' :
  parse_document text context (token text) dtd c0 = Ok c' ->
  dp c0 = 0 -> ldok (c_ld c0) ->
  B text c' <= B text c0 + T + 256 * T * amp_count text.
Proof.
  intros H Hd Hok.
  eapply (tp_parse_document text context (token text) (BIB text (256 * T) 0 c0)) in H.
  - destruct H as [p [Hp (_ & Hd' & _ & Hok' & Hn)]].
    rewrite A_0 in Hn.
    assert (Hr0 : rf c0 = 0) by (apply Hok; exact Hd).
    assert (Hr' : rf c' = 0) by (apply Hok'; unfold dp in *; lia).
    rewrite Hr0, Hr' in Hn.
    pose proof (A_le_amp text p) as HA. fold (amp_count text) in HA.
    assert (256 * T * A text p <= 256 * T * amp_count text) by (apply N.mul_le_mono_l; exact HA).
    lia.
  - intros p p' d. apply BIB_mono.
  - intros tok r d d' p Hr Hk Ht. rewrite token_eq in Ht. revert Hr Hk Ht.
    apply (token_bytes_r text _ (nested_bytes entity_levels)). lia.
  - intros tok d d' p Hr Ht. rewrite token_eq in Ht. revert Hr Ht.
    apply (token_bytes_0 text _ (nested_bytes entity_levels)).
  - apply BIB_refl. exact Hok.
Qed.

End Main.

Theorem expansion_budget_bytes_tight : forall text opt d, parse text opt = Ok d ->
  text_len text d + value_len text d <= tlen text + 256 * tlen text * amp_count text.
Proof.
  intros text opt d H. rewrite parse_prun in H. unfold prun in H.
  apply bind_ok in H. destruct H as [c0 [H0 H]].
  apply bind_ok in H. destruct H as [c [Hpd H]].
  apply fin_doc in H. subst d.
  pose proof (final_le_B text c) as Hfin.
  assert (Hc0 : B text c0 = 0 /\ c_ld c0 = ld_init).
  { unfold init_context in H0. usteps. split; [|reflexivity].
    pose proof (push_ns_nodes _ _ _ _ _ Hb) as E1. pose proof (push_ns_attrs _ _ _ _ _ Hb) as E2.
    unfold B, Pt, Va, kinds. cbn [c_doc c_after_text c_cur_attrs]. rewrite E1, E2. reflexivity. }
  destruct Hc0 as [HB Hl].
  apply document_bytes in Hpd.
  - lia.
  - unfold dp. rewrite Hl. reflexivity.
  - rewrite Hl. unfold ldok, ld_init. cbn [ld_depth ld_references]. lia.
Qed.
Print Assumptions expansion_budget_bytes_tight.

Theorem expansion_budget_bytes : forall text opt d, parse text opt = Ok d ->
  text_len text d + value_len text d <= 256 * (tlen text + 1) * (amp_count text + 1).
Proof.
  intros text opt d H. apply expansion_budget_bytes_tight in H. lia.
Qed.
Print Assumptions expansion_budget_bytes.
