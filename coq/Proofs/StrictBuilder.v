(* Proofs/StrictBuilder.v -- the hidden panic sites of the tree builder are not reached:
   push_ns (debug_assert_ne!(name, Some(""))), resolve_namespaces ((start..len).into()),
   process_cdata (split_at / &rest[2..] / &rest[1..]).
   The strict builder functions of StrictModel.v coincide with the model on every state that
   satisfies the builder invariant [Core] and every token that the tokenizer can deliver
   ([TokOk2], StrictTok.v); run through the (generic) tokenizer, they never panic. *)
From Coq Require Import Ascii String.
From Coq Require Import List Arith NArith Bool Lia ZifyBool ZifyN ZifyNat.
Import ListNotations.
From RX Require Import Generated.
From RX.Model Require Import Base CharClass Stream Tokenizer Doc Builder Parse.
From RX.Proofs Require Import Tactics NoPanicUtf8 NoPanicStream NoPanicTokenizer NoPanicBuilder
     NoPanicBuilderCtx NoPanicText NoPanicParse NoPanicFinal.
From RX.Proofs Require KeystoneBuilder KeystoneParse.
From RX.Proofs Require Import StrictModel StrictTok.
Open Scope N_scope.

(* ---------------------------------------------------------------------------------------- *)
(* push_ns                                                                                  *)
(* ---------------------------------------------------------------------------------------- *)

Lemma push_ns_s_eq text name uri d :
  match name with Some s => str_bytes text s <> [] | None => True end ->
  push_ns_s text name uri d = push_ns text name uri d.
Proof.
  unfold push_ns_s. destruct name as [s|]; auto. intros H.
  destruct (str_bytes text s); [contradiction|reflexivity].
Qed.

(* ---------------------------------------------------------------------------------------- *)
(* process_cdata                                                                            *)
(* ---------------------------------------------------------------------------------------- *)

Lemma cdata_norm_no_cr : forall l, find_idx (fun x => x =? 13) l = None -> cdata_norm l = l.
Proof.
  induction l as [|x r IH]; cbn [find_idx cdata_norm]; auto.
  destruct (x =? 13) eqn:E; [discriminate|].
  destruct (find_idx _ r); [discriminate|]. intros _. f_equal. auto.
Qed.

Lemma find_idx_split : forall l i, find_idx (fun x => x =? 13) l = Some i ->
  exists line rest, l = line ++ 13 :: rest /\ N.to_nat i = length line /\
                    find_idx (fun x => x =? 13) line = None.
Proof.
  induction l as [|x r IH]; intros i; cbn [find_idx]; [discriminate|].
  destruct (x =? 13) eqn:E.
  - intros H; inversion H; subst. exists [], r. assert (x = 13) by lia. subst. auto.
  - destruct (find_idx _ r) as [j|] eqn:Ej; [|discriminate]. intros H; inversion H; subst.
    destruct (IH j eq_refl) as (line & rest & -> & Hl & Hn). exists (x :: line), rest.
    repeat split; cbn [app length find_idx]; try lia. rewrite E, Hn. reflexivity.
Qed.

Lemma cdata_norm_app_line : forall line r, find_idx (fun x => x =? 13) line = None ->
  cdata_norm (line ++ r) = line ++ cdata_norm r.
Proof.
  induction line as [|x line IH]; intros r H; cbn [app]; auto.
  cbn [find_idx] in H. destruct (x =? 13) eqn:E; [discriminate|].
  destruct (find_idx _ line) eqn:E2; [discriminate|].
  change (cdata_norm (x :: line ++ r)) with
    (if x =? 13 then match line ++ r with
                     | y :: r' => if y =? 10 then 10 :: cdata_norm r' else 10 :: cdata_norm (line ++ r)
                     | [] => [10] end
     else x :: cdata_norm (line ++ r)).
  rewrite E, IH; auto.
Qed.

Lemma Valid_tail_ascii x r : Valid (x :: r) -> ascii x = true -> Valid r.
Proof.
  intros H Hx. inversion H as [|c r' Hc Hr' E]; subst.
  destruct (c <? 128) eqn:Ec.
  - rewrite encode_ascii in E by auto. cbn in E. inversion E; subst. exact Hr'.
  - pose proof (encode_high c Ec) as Hh. pose proof (encode_nonempty c) as Hne.
    destruct (encode_utf8 c) as [|y ys]; [cbn in Hne; lia|]. cbn in E. inversion E; subst.
    cbn in Hh. apply andb_true_iff in Hh as [Hh _]. unfold ascii in Hx. lia.
Qed.

Lemma Valid_head_noncont x r : Valid (x :: r) -> is_cont x = false.
Proof. intros H. apply valid_iff_Valid in H. apply valid_WF in H. eapply WF_head_noncont; eauto. Qed.

(* the position after an ASCII byte at the head of a valid string is a char boundary *)
Lemma boundary_after_ascii x r : Valid (x :: r) -> ascii x = true -> is_boundary (x :: r) 1 = true.
Proof.
  intros H Hx. apply Valid_tail_ascii in H; auto. unfold is_boundary.
  change (1 =? 0) with false. change (N.to_nat 1) with 1%nat. cbn [nth_error].
  destruct r as [|y r']; [reflexivity|]. cbn [nth_error]. rewrite (Valid_head_noncont _ _ H). reflexivity.
Qed.

Lemma boundary_after_ascii2 x y r : Valid (x :: y :: r) -> ascii x = true -> ascii y = true ->
  is_boundary (x :: y :: r) 2 = true.
Proof.
  intros H Hx Hy. apply Valid_tail_ascii in H; auto. apply Valid_tail_ascii in H; auto.
  unfold is_boundary. change (2 =? 0) with false. change (N.to_nat 2) with 2%nat. cbn [nth_error].
  destruct r as [|z r']; [reflexivity|]. cbn [nth_error].
  rewrite (Valid_head_noncont _ _ H). reflexivity.
Qed.

Lemma Valid_app_r : forall line r, find_idx (fun x => x =? 13) line = None ->
  Valid (line ++ 13 :: r) -> Valid (13 :: r).
Proof.
  (* cut the valid string at the boundary in front of the CR *)
  intros line r _ H. apply valid_iff_Valid in H.
  set (l := line ++ 13 :: r) in *.
  assert (Hb : Boundary l (N.of_nat (length line))).
  { eapply Boundary_noncont with (x := 13) (r := r); [|reflexivity].
    rewrite Nat2N.id. unfold l. apply skipn_len_app. }
  pose proof (Valid_sub' l H _ _ Hb (Boundary_len l) ltac:(apply Hb)) as Hv.
  unfold sub in Hv. rewrite Nat2N.id in Hv. unfold l in Hv at 2. rewrite skipn_len_app in Hv.
  rewrite firstn_all2 in Hv; auto.
  unfold blen, l. rewrite app_length. cbn [length]. lia.
Qed.

Lemma cdata_loop_s_eq : forall fuel l buf, Valid l -> (length l < fuel)%nat ->
  cdata_loop_s fuel l buf = Ok (buf ++ cdata_norm l).
Proof.
  induction fuel as [|fu IH]; intros l buf Hv Hf; [lia|]. cbn [cdata_loop_s].
  destruct (find_idx (fun x => x =? 13) l) as [pos1|] eqn:Ef.
  2:{ rewrite cdata_norm_no_cr; auto. }
  destruct (find_idx_split l pos1 Ef) as (line & rest & -> & Hl & Hn).
  assert (Hb : is_boundary (line ++ 13 :: rest) pos1 = true).
  { unfold is_boundary. destruct (pos1 =? 0); auto. rewrite Hl.
    rewrite nth_error_app2 by lia. rewrite Nat.sub_diag. reflexivity. }
  rewrite Hb. cbn [negb]. rewrite Hl, firstn_len_app, skipn_len_app.
  pose proof (Valid_app_r line rest Hn Hv) as Hv1.
  rewrite cdata_norm_app_line by auto.
  destruct rest as [|y rest'].
  - assert (is_boundary [13] 1 = true) as -> by reflexivity. cbn [negb].
    rewrite IH.
    + cbn [skipn N.to_nat Pos.to_nat Pos.iter_op Init.Nat.add cdata_norm]. cbn.
      rewrite <- !app_assoc. reflexivity.
    + cbn. constructor.
    + change (skipn (N.to_nat 1) [13]) with (@nil N). rewrite app_length in Hf. cbn [length] in *. lia.
  - destruct (y =? 10) eqn:Ey.
    + assert (y = 10) by lia. subst y.
      rewrite (boundary_after_ascii2 13 10 rest' Hv1 eq_refl eq_refl). cbn [negb].
      rewrite IH.
      * change (skipn (N.to_nat 2) (13 :: 10 :: rest')) with rest'.
        change (cdata_norm (13 :: 10 :: rest')) with (10 :: cdata_norm rest').
        rewrite <- !app_assoc. reflexivity.
      * change (skipn (N.to_nat 2) (13 :: 10 :: rest')) with rest'.
        apply Valid_tail_ascii in Hv1; auto. apply Valid_tail_ascii in Hv1; auto.
      * change (skipn (N.to_nat 2) (13 :: 10 :: rest')) with rest'.
        rewrite app_length in Hf. cbn [length] in Hf. lia.
    + rewrite (boundary_after_ascii 13 (y :: rest') Hv1 eq_refl). cbn [negb].
      rewrite IH.
      * change (skipn (N.to_nat 1) (13 :: y :: rest')) with (y :: rest').
        change (cdata_norm (13 :: y :: rest')) with
          (if 13 =? 13 then (if y =? 10 then 10 :: cdata_norm rest' else 10 :: cdata_norm (y :: rest'))
           else 13 :: cdata_norm (y :: rest')).
        rewrite Ey. change (13 =? 13) with true. cbv iota.
        rewrite <- !app_assoc. reflexivity.
      * change (skipn (N.to_nat 1) (13 :: y :: rest')) with (y :: rest').
        apply Valid_tail_ascii in Hv1; auto.
      * change (skipn (N.to_nat 1) (13 :: y :: rest')) with (y :: rest').
        rewrite app_length in Hf. cbn [length] in *. lia.
Qed.

(* site: process_cdata split_at / &rest[..]: not reached on any valid &str *)
Theorem cdata_norm_s_eq : forall l, valid_utf8_b l = true -> cdata_norm_s l = Ok (cdata_norm l).
Proof.
  intros l H. unfold cdata_norm_s. rewrite cdata_loop_s_eq; auto. apply valid_iff_Valid; auto.
Qed.
Print Assumptions cdata_norm_s_eq.


(* whenever the strict loop returns a value, it is the model's value (any byte string) *)
Lemma cdata_loop_s_ok : forall fuel l buf x,
  cdata_loop_s fuel l buf = Ok x -> x = buf ++ cdata_norm l.
Proof.
  induction fuel as [|fu IH]; intros l buf x H; [discriminate|]. cbn [cdata_loop_s] in H.
  destruct (find_idx (fun x => x =? 13) l) as [pos1|] eqn:Ef.
  2:{ inversion H; subst. rewrite cdata_norm_no_cr; auto. }
  destruct (find_idx_split l pos1 Ef) as (line & rest & -> & Hl & Hn).
  destruct (negb (is_boundary (line ++ 13 :: rest) pos1)); [discriminate|].
  rewrite Hl, firstn_len_app, skipn_len_app in H.
  rewrite cdata_norm_app_line by auto.
  destruct rest as [|y rest'].
  - destruct (negb (is_boundary [13] 1)); [discriminate|]. apply IH in H. subst x.
    cbn. rewrite <- !app_assoc. reflexivity.
  - destruct (y =? 10) eqn:Ey.
    + destruct (negb (is_boundary (13 :: y :: rest') 2)); [discriminate|]. apply IH in H. subst x.
      change (skipn (N.to_nat 2) (13 :: y :: rest')) with rest'.
      change (cdata_norm (13 :: y :: rest')) with
        (if 13 =? 13 then (if y =? 10 then 10 :: cdata_norm rest' else 10 :: cdata_norm (y :: rest'))
         else 13 :: cdata_norm (y :: rest')).
      rewrite Ey. change (13 =? 13) with true. cbv iota. rewrite <- !app_assoc. reflexivity.
    + destruct (negb (is_boundary (13 :: y :: rest') 1)); [discriminate|]. apply IH in H. subst x.
      change (skipn (N.to_nat 1) (13 :: y :: rest')) with (y :: rest').
      change (cdata_norm (13 :: y :: rest')) with
        (if 13 =? 13 then (if y =? 10 then 10 :: cdata_norm rest' else 10 :: cdata_norm (y :: rest'))
         else 13 :: cdata_norm (y :: rest')).
      rewrite Ey. change (13 =? 13) with true. cbv iota. rewrite <- !app_assoc. reflexivity.
Qed.

Lemma push_ns_s_cases text name uri d :
  push_ns_s text name uri d = push_ns text name uri d \/
  push_ns_s text name uri d = Panic P_debug_assert.
Proof. unfold push_ns_s. destruct name as [s|]; auto. destruct (str_bytes text s); auto. Qed.

Lemma bind_push_ns_s_ok {B} text name uri d (k : document -> res B) y :
  bind (push_ns_s text name uri d) k = Ok y -> bind (push_ns text name uri d) k = Ok y.
Proof. destruct (push_ns_s_cases text name uri d) as [->| ->]; [auto|discriminate]. Qed.

Section WithText.
Variable text : bytes.
Hypothesis Hvalid : valid_utf8_b text = true.

Notation Core := (Core text).
Notation SInv := (SInv text).

Lemma process_cdata_s_eq txt r c : SliceOk text txt ->
  process_cdata_s text txt r c = process_cdata text txt r c.
Proof.
  intros (Ha & He & Hae). unfold process_cdata_s, process_cdata. cbv zeta.
  destruct (mem_b 13 _); [|reflexivity].
  rewrite cdata_norm_s_eq; [reflexivity|].
  apply valid_iff_Valid. apply (Valid_sub' text Hvalid); auto.
Qed.

(* ---------------------------------------------------------------------------------------- *)
(* resolve_namespaces                                                                       *)
(* ---------------------------------------------------------------------------------------- *)

Lemma ns_range_s_eq a e : a <= e -> ns_range_s a e = ns_range_checked a e.
Proof.
  clear Hvalid. intros H. unfold ns_range_s, ns_range_checked.
  destruct (u32_max <? e) eqn:E; [reflexivity|].
  destruct (u32_max <? a) eqn:E2; [lia|reflexivity].
Qed.

Lemma resolve_namespaces_s_eq c : Core c -> resolve_namespaces_s text c = resolve_namespaces text c.
Proof.
  clear Hvalid.
  intros Hc. unfold resolve_namespaces_s, resolve_namespaces. cbv zeta.
  pose proof (core_ns_start text c Hc) as Hns. pose proof (core_doc text c Hc) as Hd.
  destruct (nth_N (d_nodes (c_doc c)) (c_parent_id c)) as [pnd|] eqn:Epnd; [|reflexivity].
  cbn [bind].
  destruct (nd_kind pnd) as [|nsi loc at_r [pa pe]| | |] eqn:Ek;
    try (rewrite ns_range_s_eq by exact Hns; reflexivity).
  destruct (c_ns_start_idx c =? len_N (d_ns_tree (c_doc c))); [reflexivity|].
  pose proof (Forall_nth_N _ _ _ _ (dok_nodes _ Hd) Epnd) as Hk. cbn in Hk. rewrite Ek in Hk.
  destruct Hk as ([Hk1 Hk2] & _). cbn [fst snd] in Hk1, Hk2.
  pose proof (resolve_ns_loop_safe text (c_ns_start_idx c) (N_range pa (N.to_nat (pe - pa)))
                (c_doc c) Hd Hns) as Hl.
  destruct (resolve_ns_loop text (c_ns_start_idx c) (N_range pa (N.to_nat (pe - pa))) (c_doc c))
    as [d'| | |]; cbn [bind]; try reflexivity.
  destruct Hl as (_ & _ & L1 & _). { apply N_range_lt. rewrite N2Nat.id. lia. }
  rewrite ns_range_s_eq by lia. reflexivity.
Qed.

Lemma process_element_s_eq e r c : Core c -> process_element_s text e r c = process_element text e r c.
Proof.
  clear Hvalid.
  intros Hc. unfold process_element_s.
  destruct (slice_len (tn_name (c_tag_name c)) =? 0) eqn:E0; [reflexivity|].
  rewrite resolve_namespaces_s_eq by auto.
  destruct (resolve_namespaces text c) as [x|e0|p|] eqn:E; try reflexivity.
  unfold process_element. rewrite E0, E. reflexivity.
Qed.

(* ---------------------------------------------------------------------------------------- *)
(* process_attribute                                                                        *)
(* ---------------------------------------------------------------------------------------- *)

Lemma process_attribute_s_eq r qn eq prefix local value c : slice_bytes text local <> [] ->
  process_attribute_s text r qn eq prefix local value c =
  process_attribute text r qn eq prefix local value c.
Proof.
  clear Hvalid.
  intros Hl. unfold process_attribute_s, process_attribute.
  destruct (normalize_attribute text value c) as [[v c1]| | |]; cbn [bind]; try reflexivity.
  cbv zeta. rewrite !push_ns_s_eq; [reflexivity|exact I|exact Hl].
Qed.

(* ---------------------------------------------------------------------------------------- *)
(* the callback                                                                             *)
(* ---------------------------------------------------------------------------------------- *)

Lemma token_with_s_eq ptext tok c : TokOk2 text tok -> Core c ->
  token_with_s text ptext tok c = token_with text ptext tok c.
Proof.
  intros [Hok Hok2] Hc. destruct tok; cbn [token_with_s token_with]; try reflexivity.
  - apply process_attribute_s_eq. exact Hok2.
  - pose proof (reset_after_text_safe text c Hc) as Hr.
    destruct (reset_after_text text c) as [c1| | |]; cbn [bind]; try reflexivity.
    apply process_element_s_eq. apply Hr.
  - apply process_cdata_s_eq. exact Hok2.
Qed.

Lemma TokOk2_TokOk tok : TokOk2 text tok -> TokOk text tok.
Proof. intros [H _]. exact H. Qed.

Lemma callback_s_ok ptext :
  (forall t r c, TokOk text (TText t r) -> Core c ->
     safeP allowD (ptext t r c) (fun c' => Core c' /\ c_tag_name c' = c_tag_name c)) ->
  forall tok c, TokOk2 text tok -> NoPanicTokenizer.St context (Iout text) (Iin text) (tok_pre tok) c ->
    safeP allowD (token_with_s text ptext tok c)
          (NoPanicTokenizer.St context (Iout text) (Iin text) (tok_post tok)).
Proof.
  intros Hptext tok c Htok Hst.
  assert (Hc : Core c) by (destruct (tok_pre tok); [apply Hst|exact Hst]).
  rewrite token_with_s_eq by auto.
  apply (callback_ok text Hvalid ptext Hptext tok c (TokOk2_TokOk tok Htok) Hst).
Qed.

Lemma parse_content_lvl_s_safe : forall lvl, PcOk text allowD (parse_content_lvl_s text lvl).
Proof.
  induction lvl as [|lvl IH]; intros s c Hs Hc; [exact I|].
  cbn [parse_content_lvl_s].
  apply (StrictTok.parse_content_safe text Hvalid context _ allowD (Iout text) (Iin text)); auto.
  apply callback_s_ok. intros t r c0 Htok Hc0. apply process_text_with_safe; auto.
Qed.

Lemma process_text_s_safe t r c : TokOk text (TText t r) -> Core c ->
  safeP allowD (process_text_s text t r c) (fun c' => Core c' /\ c_tag_name c' = c_tag_name c).
Proof.
  intros. unfold process_text_s. apply process_text_with_safe; auto. apply parse_content_lvl_s_safe.
Qed.

(* every token the tokenizer can deliver, in every state of the builder invariant: the strict
   callback is the model callback (applied to the same text handler) *)
Lemma token_s_eq tok c : TokOk2 text tok -> Core c ->
  token_s text tok c = token_with text (process_text_s text) tok c.
Proof. intros. unfold token_s. apply token_with_s_eq; auto. Qed.

Lemma init_context_s_eq opt : init_context_s text opt = init_context text opt.
Proof.
  clear Hvalid. unfold init_context_s, init_context. rewrite push_ns_s_eq; [reflexivity|].
  cbn. discriminate.
Qed.

(* the tokenizer run with the strict callback *)
Lemma parse_document_token_s_safe dtd c : Core c ->
  safe (parse_document text context (token_s text) dtd c) Core.
Proof.
  intros Hc. apply safeP_noP.
  apply (StrictTok.parse_document_safe text Hvalid context (token_s text) allowD (Iout text) (Iin text)); auto.
  apply (callback_s_ok (process_text_s text)). apply process_text_s_safe.
Qed.

(* ---- whenever the strict callback returns a value, it is the model's value (any token) ---- *)

Lemma process_attribute_s_ok r qn eq prefix local value c c' :
  process_attribute_s text r qn eq prefix local value c = Ok c' ->
  process_attribute text r qn eq prefix local value c = Ok c'.
Proof.
  clear Hvalid.
  unfold process_attribute_s, process_attribute.
  destruct (normalize_attribute text value c) as [[v c1]| | |]; cbn [bind]; auto.
  cbv zeta.
  repeat match goal with
         | |- context [bind (ns_exists ?a ?b ?c ?d) _] =>
           destruct (ns_exists a b c d) as [[|]| | |]; cbn [bind]
         | |- context [if ?b then _ else _] => destruct b
         end; auto; apply bind_push_ns_s_ok.
Qed.

Lemma process_element_s_ok e r c c' :
  process_element_s text e r c = Ok c' -> process_element text e r c = Ok c'.
Proof.
  clear Hvalid. unfold process_element_s. destruct (_ =? 0); auto.
  destruct (resolve_namespaces_s text c); auto; discriminate.
Qed.

Lemma process_cdata_s_ok txt r c c' :
  process_cdata_s text txt r c = Ok c' -> process_cdata text txt r c = Ok c'.
Proof.
  clear Hvalid. unfold process_cdata_s, process_cdata. cbv zeta. destruct (mem_b 13 _); auto.
  intros H. apply bind_ok in H as (nb & Hn & H). unfold cdata_norm_s in Hn.
  apply cdata_loop_s_ok in Hn. cbn [app] in Hn. subst nb. exact H.
Qed.

Lemma token_with_s_ok ptext tok c c' :
  token_with_s text ptext tok c = Ok c' -> token_with text ptext tok c = Ok c'.
Proof.
  clear Hvalid. destruct tok; cbn [token_with_s token_with]; auto.
  - apply process_attribute_s_ok.
  - intros H. apply bind_ok in H as (c1 & H1 & H). rewrite H1. cbn [bind].
    apply process_element_s_ok; auto.
  - apply process_cdata_s_ok.
Qed.

(* the arena invariant of KeystoneBuilder.v is kept by the strict callback as well *)
Lemma parse_content_lvl_s_P : forall lvl s c s' c',
  KeystoneBuilder.P c -> parse_content_lvl_s text lvl s c = Ok (s', c') -> KeystoneBuilder.P c'.
Proof.
  clear Hvalid.
  induction lvl as [|lvl IH]; intros s c s' c' HP H; cbn [parse_content_lvl_s] in H; [discriminate|].
  eapply (KeystoneParse.parse_content_Q text context _ KeystoneBuilder.P); [|exact HP|exact H].
  intros tok x x' Hx Hev. apply token_with_s_ok in Hev.
  eapply (KeystoneParse.token_with_P text); [|exact Hx|exact Hev].
  apply KeystoneParse.process_text_with_P. exact IH.
Qed.

Lemma token_s_P tok c c' : KeystoneBuilder.P c -> token_s text tok c = Ok c' -> KeystoneBuilder.P c'.
Proof.
  clear Hvalid. intros HP H. unfold token_s in H. apply token_with_s_ok in H.
  eapply (KeystoneParse.token_with_P text); [|exact HP|exact H].
  apply KeystoneParse.process_text_with_P. apply parse_content_lvl_s_P.
Qed.

End WithText.

(* the whole parse with the strict builder never panics: none of the three sites is reached,
   at any nesting level of entity expansion *)
Theorem parse_builder_strict_no_panic : forall text opt p,
  valid_utf8_b text = true -> nodes_limit opt <= u32_max -> parse_builder_strict text opt <> Panic p.
Proof.
  intros text opt p Hvalid Hl. eapply safe_no_panic with (Q := fun _ => True).
  unfold parse_builder_strict. rewrite init_context_s_eq.
  destruct (init_context text opt) as [c0| | |] eqn:Hi; cbn [bind safe]; auto.
  2:{ revert Hi. unfold init_context, push_ns. cbn [d_ns_values find_ns ns_name xml_ns ns_uri].
      change (ns_values_limit <? len_N []) with false. cbn. discriminate. }
  eapply safe_bind_eq; [apply parse_document_token_s_safe; auto; eapply init_core; eauto|].
  intros c Hc _. cbv beta zeta.
  assert (HP : KeystoneBuilder.P c).
  { eapply (KeystoneParse.parse_document_Q text context (token_s text) KeystoneBuilder.P);
      [|exists Tree.KdRoot, [], []; apply (KeystoneParse.init_context_Inv text opt); exact Hi|exact Hc].
    intros tok x x'. apply token_s_P. }
  destruct HP as [k [cs [outer HI]]].
  pose proof (KeystoneBuilder.inv_rows _ _ _ _ HI) as Hrows. unfold KeystoneEnc.ztree in Hrows.
  destruct (plug_root outer k cs (KeystoneBuilder.inv_kinds _ _ _ _ HI)) as [cs' Ecs]. rewrite Ecs in Hrows.
  eapply safe_bind; [apply (children_safe (c_doc c) cs' Hrows)|]. intros it Hit. cbv beta.
  eapply safe_bind; [apply (children_any_element_safe (c_doc c) cs' Hrows); exact Hit|].
  intros he _. destruct (negb he); [exact I|]. destruct (_ <? _); exact I.
Qed.
Print Assumptions parse_builder_strict_no_panic.
