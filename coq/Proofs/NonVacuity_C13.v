(* Proofs/NonVacuity_C13.v -- non-vacuity of the hypotheses of the model-level theorems pinned under
   C13 (RangeParse, RangeAttrParse, RangeShiftFinal, RangeTokenizer, LexerProofs), on the document of
   NonVacuity_Doc.v.  (The whole-document theorems on the Cst fragments are instantiated by the
   examples of CstRangeMain / TMain / EMain / FS2 / GS3 / G5 / G6: wf_doc of a concrete document and
   observed = expected ranges by computation.) *)
From Coq Require Import Ascii String List NArith Bool Lia.
Import ListNotations.
From RX Require Import Generated.
From RX.Model Require Import Base CharClass Stream Tokenizer Doc Builder Parse Api.
From RX.Proofs Require Import NoPanicUtf8 LexerProofs NoPanicTokenizer RangeTokenizer RangeParse RangeAttrParse RangeShiftFinal
     NonVacuity_Doc NonVacuity_C09.
Open Scope N_scope.

(* parse_attr_ranges_inside: the attribute b of node 2 *)
Example nv_parse_attr_ranges_inside :
  exists nd ns local ar nss a,
    nth_N (d_nodes d0) 2 = Some nd /\ nd_kind nd = KElement ns local ar nss /\
    fst ar <= 1 /\ 1 < snd ar /\ nth_N (d_attrs d0) 1 = Some a.
Proof. do 6 eexists. split; [vm_compute; reflexivity|]. split; [reflexivity|]. repeat split; vm_compute; reflexivity || discriminate. Qed.

(* parse_ranges_nest / parse_ranges_siblings: a document without DOCTYPE (text_nodtd of NonVacuity_C09) *)
Example nv_parse_ranges_nest :
  contains_b (b "<!DOCTYPE") text_nodtd = false /\ valid_utf8_b text_nodtd = true /\
  exists d nd pnd qnd, parse text_nodtd opt0 = Ok d /\
    nth_N (d_nodes d) 4 = Some nd /\ nd_parent nd = Some 2 /\ nth_N (d_nodes d) 2 = Some pnd /\
    nd_prev_sibling nd = Some 3 /\ nth_N (d_nodes d) 3 = Some qnd.
Proof.
  split; [vm_compute; reflexivity|]. split; [vm_compute; reflexivity|].
  do 4 eexists. split; [vm_compute; reflexivity|].
  split; [vm_compute; reflexivity|]. split; [reflexivity|]. split; [vm_compute; reflexivity|].
  split; [reflexivity|vm_compute; reflexivity].
Qed.

(* parse_attr_subranges: below the saturation limits *)
Example nv_parse_attr_subranges :
  exists a, In a (d_attrs d0) /\ ad_qname_len a < qname_len_sat /\ ad_eq_len a < eq_len_sat /\
            ad_value a = Owned (b "xv").
Proof.
  eexists. split; [right; left; reflexivity|]. repeat split; vm_compute; reflexivity.
Qed.

(* parse_shift_whitespace_partial *)
Example nv_parse_shift_whitespace_partial :
  forallb byte_is_space [10; 32; 9] = true /\
  starts_with (stream_new text0) [239; 187; 191] = false /\ starts_with_declaration (stream_new text0) = false.
Proof. split; [vm_compute; reflexivity|]. split; vm_compute; reflexivity. Qed.

(* tokenizer_token_ranges: the callback records the start of the last token; the invariant says it
   never exceeds the position reached *)
Definition ev_start (tok : Tokenizer.token) (c : N) : res N :=
  Ok (match tok with
      | TPI _ _ r | TComment _ r | TCdata _ r | TText _ r | TAttribute r _ _ _ _ _ | TElementEnd _ r => fst r
      | TElementStart _ _ st => st
      | TEntityDecl _ _ => c
      end).
Definition Jstart (_ : bool) (p : N) (c : N) : Prop := c <= p.

Example nv_tokenizer_token_ranges :
  (forall tok c0 c1 p0 p1, Jstart (tok_pre tok) p0 c0 -> TokAt text0 p0 p1 tok ->
                           ev_start tok c0 = Ok c1 -> Jstart (tok_post tok) p1 c1) /\
  Jstart false 0 0 /\ exists c', parse_document text0 N ev_start true 0 = Ok c'.
Proof.
  split; [|split; [unfold Jstart; lia|eexists; vm_compute; reflexivity]].
  unfold Jstart. intros tok c0 c1 p0 p1 HJ HT E. destruct tok; cbn in E; inversion E; subst; cbn in HT; lia.
Qed.

(* the lexer post-conditions: streams positioned at the comment, the PI, the text, the start tag
   <p:c ...>, the end tag </p:c> of the shared document *)
Definition st_at (p : N) : stream := {| s_pos := p; s_end := 99; s_rest := skipn (N.to_nat p) text0 |}.

Example nv_lexer_SInv : forall p, p <= 99 -> LexerProofs.SInv text0 (st_at p).
Proof. intros p H. split; [reflexivity|]. split; [exact H|vm_compute; discriminate]. Qed.

Example nv_parse_comment_post :
  starts_with (st_at 69) (b "<!--") = true /\
  exists s' acc', parse_comment text0 (list Tokenizer.token) rec_ev (st_at 69) [] = Ok (s', acc').
Proof. split; [vm_compute; reflexivity|]. do 2 eexists. vm_compute. reflexivity. Qed.

Example nv_parse_pi_post :
  starts_with (st_at 83) (b "<?") = true /\
  exists s' acc', parse_pi text0 (list Tokenizer.token) rec_ev (st_at 83) [] = Ok (s', acc').
Proof. split; [vm_compute; reflexivity|]. do 2 eexists. vm_compute. reflexivity. Qed.

Example nv_parse_text_post :
  exists s' acc', parse_text text0 (list Tokenizer.token) rec_ev (st_at 65) [] = Ok (s', acc').
Proof. do 2 eexists. vm_compute. reflexivity. Qed.

Example nv_parse_element_tokens :
  starts_with (st_at 51) (b "<") = true /\
  exists o s' acc', parse_element text0 (list Tokenizer.token) rec_ev (st_at 51) [] = Ok (o, s', acc') /\ length acc' = 3%nat.
Proof. split; [vm_compute; reflexivity|]. do 3 eexists. split; vm_compute; reflexivity. Qed.

Example nv_parse_close_element_post :
  starts_with (st_at 77) (b "</") = true /\
  exists s' acc', parse_close_element text0 (list Tokenizer.token) rec_ev (st_at 77) [] = Ok (s', acc').
Proof. split; [vm_compute; reflexivity|]. do 2 eexists. vm_compute. reflexivity. Qed.

Definition text_cd : bytes := b "<r><![CDATA[a<b]]></r>".
Example nv_parse_cdata_post :
  LexerProofs.SInv text_cd {| s_pos := 3; s_end := 22; s_rest := skipn 3 text_cd |} /\
  starts_with {| s_pos := 3; s_end := 22; s_rest := skipn 3 text_cd |} (b "<![CDATA[") = true /\
  exists s' acc', parse_cdata text_cd (list Tokenizer.token) rec_ev {| s_pos := 3; s_end := 22; s_rest := skipn 3 text_cd |} [] = Ok (s', acc').
Proof.
  split; [split; [reflexivity|split; vm_compute; discriminate]|].
  split; [vm_compute; reflexivity|]. do 2 eexists. vm_compute. reflexivity.
Qed.

(* one of them applied: the comment token and its source text *)
Example nv_parse_comment_post_applied :
  exists s' txt, sub text0 69 (s_pos s') = b "<!--" ++ slice_bytes text0 txt ++ b "-->".
Proof.
  destruct nv_parse_comment_post as (H1 & s' & acc' & H2).
  destruct (parse_comment_post text0 (st_at 69) [] s' acc' (nv_lexer_SInv 69 ltac:(vm_compute; discriminate)) H1 H2)
    as (txt & _ & _ & E & _).
  exists s', txt. exact E.
Qed.
