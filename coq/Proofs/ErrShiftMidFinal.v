(* Proofs/ErrShiftMidFinal.v -- C14 (whitespace inserted inside the prolog), part 8: the theorems.

   text = pre ++ post,  text' = pre ++ ws ++ post,  ws whitespace,  post valid UTF-8, and pre ends at
   an INSERTION POINT of the prolog: the loop of the first parse_misc of parse_document (the one that
   runs after the XML declaration and before the DOCTYPE / the root element) stands, after n rounds
   (n comments / processing instructions), at a position Q <= blen pre, and pre has only whitespace
   from Q on.  (Restriction -- hence "_partial": the insertion points after a DOCTYPE declaration and
   inside its internal subset are not covered.)

   Then the two parses agree up to the shift of everything that lies at or behind the insertion
   point. *)
From Coq Require Import Ascii String.
From Coq Require Import List Arith NArith Bool Lia ZifyBool ZifyN ZifyNat.
Import ListNotations.
From RX Require Import Generated.
From RX.Model Require Import Base CharClass Stream Tokenizer Doc Builder Parse.
From RX.Proofs Require Import Tactics NoPanicUtf8 PositionProofs
  RangeShiftBase RangeShiftTokenizer RangeShiftBuilder
  ErrShiftBase ErrShiftFinal
  ErrShiftMidFrame ErrShiftMidCont ErrShiftMidPos ErrShiftMidCore ErrShiftMidLocal ErrShiftMidProlog.
Open Scope N_scope.

(* ------------------------------------------------------------------ *)
(* the state of the prolog after n rounds of the first parse_misc *)
Definition prolog_state (text : bytes) (opt : options) (n : nat) : option (stream * context) :=
  match init_context text opt, doc_start text with
  | Ok ci, Ok s2 => misc_steps text context (Parse.token text) n s2 ci
  | _, _ => None
  end.

Definition insertion_point_at (pre post : bytes) (opt : options) (n : nat) : Prop :=
  exists sQ cQ, prolog_state (pre ++ post) opt n = Some (sQ, cQ) /\ s_pos sQ <= blen pre /\
    forallb byte_is_space (skipn (N.to_nat (s_pos sQ)) pre) = true.

Definition insertion_point (pre post : bytes) (opt : options) : Prop :=
  exists n, insertion_point_at pre post opt n.

(* the same, as a test *)
Definition insertion_point_b (pre post : bytes) (opt : options) (n : nat) : bool :=
  match prolog_state (pre ++ post) opt n with
  | Some (sQ, _) => (s_pos sQ <=? blen pre) && forallb byte_is_space (skipn (N.to_nat (s_pos sQ)) pre)
  | None => false
  end.

Lemma insertion_point_b_ok pre post opt n : insertion_point_b pre post opt n = true -> insertion_point pre post opt.
Proof.
  unfold insertion_point_b. destruct (prolog_state (pre ++ post) opt n) as [[sQ cQ]|] eqn:E; [|discriminate].
  intros H. apply andb_true_iff in H. destruct H as [H1 H2]. exists n, sQ, cQ. split; [exact E|]. split; [lia|exact H2].
Qed.

(* ------------------------------------------------------------------ *)
Lemma init_rr T1 T2 opt ci : init_context T1 opt = Ok ci -> init_context T2 opt = Ok (rr (tlen T2) ci).
Proof. unfold init_context, push_ns. cbn. intros [= <-]. reflexivity. Qed.

Lemma PS_mono T q q' c : q <= q' -> PS T q c -> PS T q' c.
Proof.
  intros Hq [P1 P2 P3 P4 P5 P6 P7 P8 [HR Hold]]. split; try assumption. split; [exact HR|].
  intros i n Hi Hn. eapply isold_mono; [exact Hq|]. eapply Hold; eassumption.
Qed.

Lemma firstn_blen (l : bytes) q : q <= blen l -> blen (firstn (N.to_nat q) l) = q.
Proof. intros H. unfold blen in *. rewrite firstn_length. lia. Qed.

Lemma text_pos_at_0 U : text_pos_at U 0 = Ok (1, 1).
Proof. rewrite text_pos_on_boundary; [reflexivity|lia|reflexivity]. Qed.

(* ------------------------------------------------------------------ *)
(* the main lemma, for a non-empty insertion *)
Lemma mid_main pre ws post opt n sQ cQ :
  ws <> [] -> forallb byte_is_space ws = true -> valid_utf8_b post = true ->
  prolog_state (pre ++ post) opt n = Some (sQ, cQ) -> s_pos sQ <= blen pre ->
  forallb byte_is_space (skipn (N.to_nat (s_pos sQ)) pre) = true ->
  (forall e, parse (pre ++ post) opt = Err e ->
     exists e', parse (pre ++ ws ++ post) opt = Err e' /\ MidErr pre (pre ++ ws) post e e') /\
  (forall d, parse (pre ++ post) opt = Ok d ->
     parse (pre ++ ws ++ post) opt = Ok (mid_doc (blen pre) (blen ws) d)).
Proof.
  intros Hne Hws Hv Hst HQ HW.
  set (X2 := ws ++ post).
  assert (HX1 : head_ok post) by (apply valid_head_ok; exact Hv).
  assert (HX2 : exists w r, X2 = w :: r /\ byte_is_space w = true).
  { unfold X2. destruct ws as [|w ws']; [congruence|]. exists w, (ws' ++ post). split; [reflexivity|].
    cbn [forallb] in Hws. apply andb_true_iff in Hws. tauto. }
  assert (HL : blen post <= blen X2) by (unfold X2, blen; rewrite app_length; lia).
  unfold prolog_state in Hst.
  destruct (init_context (pre ++ post) opt) as [ci| | |] eqn:Ei; try discriminate.
  destruct (doc_start (pre ++ post)) as [s2| | |] eqn:Es; try discriminate.
  destruct (doc_start_loc pre post X2 HX1 HX2 HL s2 Es) as (p2 & -> & Lp2 & Hds).
  (* the rounds of the loop in the two texts *)
  set (R := fun (q : N) (c1 c2 : context) => PS (pre ++ post) q c1 /\ c2 = rr (tlen (pre ++ X2)) c1).
  assert (Htok : forall a e tok c1 c2 c1' q, q <= a -> tok_in a e tok -> R q c1 c2 ->
            Parse.token (pre ++ post) tok c1 = Ok c1' ->
            exists c2', Parse.token (pre ++ X2) tok c2 = Ok c2' /\ R e c1' c2').
  { intros a e tok c1 c2 c1' q Hqa Ht [HP ->] Hev. exists (rr (tlen (pre ++ X2)) c1'). split.
    - eapply token_rr; eassumption.
    - split; [|reflexivity]. eapply token_PS; eassumption. }
  assert (HR0 : R p2 ci (rr (tlen (pre ++ X2)) ci)).
  { split; [|reflexivity]. apply (PS_mono _ 0); [lia|]. eapply init_PS. exact Ei. }
  destruct (misc_steps_loc pre post X2 HX1 HX2 HL context context (Parse.token (pre ++ post)) (Parse.token (pre ++ X2))
              R Htok n p2 ci _ sQ cQ Lp2 HR0 Hst) as (Q & -> & M1 & M2 & M3 & M4).
  cbn [cs s_pos] in HQ, HW.
  destruct (M4 HQ) as (cQ2 & Hst2 & [HPS ->]).
  (* the corner "<?xml" *)
  assert (NC : starts_with (cs (pre ++ post) p2) (b "<?xml") = true -> p2 + 5 <> blen pre).
  { intros Hx Hp. destruct n as [|n].
    - cbn [misc_steps] in Hst.
      assert (EQ : s_pos (cs (pre ++ post) p2) = s_pos (cs (pre ++ post) Q)) by congruence.
      cbn [cs s_pos] in EQ. subst Q.
      unfold starts_with in Hx. rewrite cs_avail in Hx. rewrite skipn_app_le in Hx by (unfold blen in *; lia).
      destruct (skipn (N.to_nat p2) pre) as [|d D'] eqn:ED.
      + assert (length (skipn (N.to_nat p2) pre) = 5%nat) by (rewrite skipn_length; unfold blen in *; lia).
        rewrite ED in H. discriminate.
      + cbn [app] in Hx. change (b "<?xml") with (60 :: b "?xml") in Hx. cbn [prefix_b] in Hx.
        apply andb_true_iff in Hx. destruct Hx as [Hd _]. cbn [forallb] in HW. apply andb_true_iff in HW.
        destruct HW as [Hsp _]. assert (d = 60) by lia. subst d. discriminate.
    - eapply (misc_first_clash pre post X2 HX1 HX2 HL context (Parse.token (pre ++ post)) n p2 ci _ _ Lp2 Hst Hx). cbn [cs s_pos]. lia. }
  specialize (Hds ltac:(lia) NC).
  (* the pieces *)
  set (A0 := firstn (N.to_nat Q) pre). set (W := skipn (N.to_nat Q) pre).
  assert (Epre : pre = A0 ++ W) by (symmetry; apply firstn_skipn).
  assert (EA0 : blen A0 = Q) by (apply firstn_blen; exact HQ).
  assert (ET2 : pre ++ X2 = (A0 ++ (W ++ ws)) ++ post).
  { unfold X2. rewrite Epre at 1. rewrite <- !app_assoc. reflexivity. }
  assert (ES1 : cs (pre ++ post) Q = sQ A0 W post).
  { unfold cs, sQ. rewrite EA0, <- Epre. f_equal. apply skipn_app_le. unfold blen in HQ. lia. }
  assert (ES2 : cs (pre ++ X2) Q = sQ A0 (W ++ ws) post).
  { unfold cs, sQ. rewrite EA0, <- ET2. f_equal. unfold X2. rewrite skipn_app_le by (unfold blen in HQ; lia).
    fold W. apply app_assoc. }
  (* the contexts *)
  assert (HT1 : tlen (pre ++ post) = blen post + blen pre) by (unfold tlen, blen; rewrite app_length; lia).
  assert (HT2 : tlen (pre ++ X2) = blen post + blen (A0 ++ (W ++ ws))).
  { rewrite ET2. unfold tlen, blen. rewrite !app_length. lia. }
  destruct (PS_decomp _ _ _ (blen pre) (blen post) HPS HT1) as (D1 & D2 & D3 & D4).
  pose proof (PS_rr (pre ++ post) (pre ++ X2) Q cQ HPS) as HPS2.
  destruct (PS_decomp _ _ _ (blen (A0 ++ (W ++ ws))) (blen post) HPS2 HT2) as (F1 & _ & _ & _).
  rewrite olds_rr, uctx_rr in F1.
  set (olds := olds_of cQ) in *. set (c0 := uctx (blen post) cQ) in *.
  assert (EP' : blen (A0 ++ (W ++ ws)) = blen pre + blen ws).
  { rewrite Epre. unfold blen. rewrite !app_length. lia. }
  (* the hypotheses of the core theorems *)
  pose proof (init_rr (pre ++ post) (pre ++ X2) opt ci Ei) as Ei2.
  rewrite F1, ES2 in Hst2. rewrite ES1 in Hst. rewrite D1 in Hst.
  assert (Elen : (length (s_rest (cs (pre ++ post) p2)) <= length (s_rest (cs (pre ++ X2) p2)))%nat).
  { cbn [cs s_rest]. unfold X2. rewrite !skipn_length, !app_length. lia. }
  rewrite ET2 in Hst2, Hds, Ei2, Elen.
  assert (HWsp : forallb byte_is_space W = true) by exact HW.
  assert (EA : pre ++ ws = A0 ++ (W ++ ws)) by (rewrite Epre at 1; rewrite app_assoc; reflexivity).
  assert (HB : Forall (old_below (blen pre) (blen ws)) olds) by (apply D4; exact HQ).
  clearbody olds c0 A0 W. subst pre.
  split.
  - intros e He.
    destruct (core_err A0 W ws post HWsp Hws Hv olds D3 opt n ci _ c0 _ _ D2 Ei Es Hst Ei2 Hds Hst2 Elen e He)
      as (e' & He' & HM).
    exists e'. split; [rewrite ET2; exact He'|]. rewrite EA. exact HM.
  - intros d Hd.
    destruct (core_ok A0 W ws post HWsp Hws Hv olds D3 opt n ci _ c0 _ _ D2 Ei Es Hst Ei2 Hds Hst2 Elen d Hd)
      as (dU & -> & Hd').
    rewrite ET2, Hd'. f_equal.
    rewrite (mid_doc_pd (blen (A0 ++ W)) (blen ws) olds D3 HB).
    rewrite mid_doc_sh. rewrite EP'. reflexivity.
Qed.

(* ------------------------------------------------------------------ *)
(* inserting nothing *)
Lemma sh_sl_0 sl : sh_sl 0 sl = sl.
Proof. destruct sl. unfold sh_sl. cbn. rewrite !N.add_0_r. reflexivity. Qed.
Lemma m_sl_0 P sl : m_sl P 0 sl = sl.
Proof. unfold m_sl. destruct (_ <? _); [reflexivity|apply sh_sl_0]. Qed.
Lemma m_rng_0 P r : m_rng P 0 r = r.
Proof. unfold m_rng, sh_rng. destruct r. cbn [fst snd]. destruct (_ <? _); [reflexivity|]. rewrite !N.add_0_r. reflexivity. Qed.
Lemma m_str_0 P s : m_str P 0 s = s.
Proof. destruct s; cbn [m_str]; [rewrite m_sl_0|]; reflexivity. Qed.
Lemma m_sto_0 P s : m_sto P 0 s = s.
Proof. destruct s; cbn [m_sto]; [rewrite m_str_0|]; reflexivity. Qed.
Lemma m_kind_0 P kd : m_kind P 0 kd = kd.
Proof.
  destruct kd as [|ns local ar nss|t v|s|st]; cbn [m_kind]; rewrite ?m_sl_0, ?m_sto_0; try reflexivity.
  destruct v; cbn [option_map]; [rewrite m_sl_0|]; reflexivity.
Qed.
Lemma m_node_0 P nd : m_node P 0 nd = nd.
Proof.
  destruct nd as [pa pr nx lc kd rg]. unfold m_node. cbn. rewrite m_kind_0. f_equal.
  destruct (is_root_kind kd); [destruct rg; cbn; rewrite N.add_0_r; reflexivity|apply m_rng_0].
Qed.
Lemma m_attr_0 P a : m_attr P 0 a = a.
Proof. destruct a. unfold m_attr. cbn. rewrite m_sl_0, m_sto_0, m_rng_0. reflexivity. Qed.
Lemma m_ns_0 P v : m_ns P 0 v = v.
Proof. destruct v as [nm uri]. unfold m_ns. cbn. rewrite m_sto_0. destruct nm; cbn [option_map]; [rewrite m_str_0|]; reflexivity. Qed.
Lemma map_id' {A} (f : A -> A) l : (forall x, f x = x) -> map f l = l.
Proof. intros H. induction l as [|x l IH]; cbn [map]; [reflexivity|]. rewrite H, IH. reflexivity. Qed.
Lemma mid_doc_0 P d : mid_doc P 0 d = d.
Proof.
  destruct d. unfold mid_doc. cbn.
  rewrite (map_id' _ _ (m_node_0 P)), (map_id' _ _ (m_attr_0 P)), (map_id' _ _ (m_ns_0 P)). reflexivity.
Qed.

(* ------------------------------------------------------------------ *)
(* the relation of the errors with the (row, column) of the error in post made explicit *)
Lemma parse_err_shift_mid_explicit : forall pre ws post opt e,
  forallb byte_is_space ws = true -> valid_utf8_b post = true -> insertion_point pre post opt ->
  parse (pre ++ post) opt = Err e ->
  exists e', parse (pre ++ ws ++ post) opt = Err e' /\ MidErr pre (pre ++ ws) post e e'.
Proof.
  intros pre ws post opt e Hws Hv (n & sQ & cQ & Hst & HQ & HW) He.
  destruct ws as [|w ws'] eqn:Ews.
  - (* nothing is inserted: the data about the position come from the run with one space *)
    cbn [app]. exists e. split; [exact He|].
    destruct (mid_main pre [32] post opt n sQ cQ ltac:(discriminate) eq_refl Hv Hst HQ HW) as [H1 _].
    destruct (H1 e He) as (e1 & _ & (K1 & K2 & K3)).
    split; [reflexivity|]. split; [reflexivity|]. intros Hp.
    destruct (K3 Hp) as (q & tp & L1 & L2 & L3 & L4 & _ & L6 & _).
    exists q, tp. rewrite app_nil_r. auto 10.
  - rewrite <- Ews in *. assert (Hne : ws <> []) by (rewrite Ews; discriminate).
    destruct (mid_main pre ws post opt n sQ cQ Hne Hws Hv Hst HQ HW) as [H1 _]. exact (H1 e He).
Qed.
Print Assumptions parse_err_shift_mid_explicit.

(* ------------------------------------------------------------------ *)
(** * The theorems *)

(* errors: same variant and payload; a position-less error is unchanged; the position of an error
   is that of an offset [off] at or behind the insertion point, which becomes [off + blen ws] *)
Theorem parse_err_shift_mid_partial : forall pre ws post opt e,
  forallb byte_is_space ws = true -> valid_utf8_b post = true ->
  insertion_point pre post opt ->
  parse (pre ++ post) opt = Err e ->
  exists e', parse (pre ++ ws ++ post) opt = Err e' /\
    err_kind e = err_kind e' /\
    (has_pos e = false -> e' = e) /\
    (has_pos e = true -> exists off, blen pre <= off /\ off <= tlen (pre ++ post) /\
        is_boundary (pre ++ post) off = true /\
        text_pos_at (pre ++ post) off = Ok (error_pos e) /\
        text_pos_at (pre ++ ws ++ post) (off + blen ws) = Ok (error_pos e')).
Proof.
  intros pre ws post opt e Hws Hv Hip He.
  destruct (parse_err_shift_mid_explicit pre ws post opt e Hws Hv Hip He) as (e' & He' & (K1 & K2 & K3)).
  exists e'. split; [exact He'|]. split; [exact K1|]. split; [exact K2|]. intros Hp.
  destruct (K3 Hp) as (q & tp & L1 & L2 & L3 & L4 & L5 & L6 & L7).
  exists (blen pre + q). split; [lia|]. split.
  { unfold tlen in *. rewrite PositionProofs.blen_app. lia. }
  split. { apply is_boundary_app; [exact L1|exact L2|]. intros _. apply valid_head_ok. exact Hv. }
  split; [exact L6|].
  rewrite app_assoc. rewrite PositionProofs.blen_app in L7.
  replace (blen pre + q + blen ws) with (blen pre + blen ws + q) by lia. exact L7.
Qed.
Print Assumptions parse_err_shift_mid_partial.

(* documents: every stored offset of what begins at or behind the insertion point moves by
   blen ws ([mid_doc]); the end of the range of the root moves as well *)
Theorem parse_ok_shift_mid_partial : forall pre ws post opt d,
  forallb byte_is_space ws = true -> valid_utf8_b post = true ->
  insertion_point pre post opt ->
  parse (pre ++ post) opt = Ok d ->
  parse (pre ++ ws ++ post) opt = Ok (mid_doc (blen pre) (blen ws) d).
Proof.
  intros pre ws post opt d Hws Hv (n & sQ & cQ & Hst & HQ & HW) Hd.
  destruct ws as [|w ws'] eqn:Ews.
  - cbn [app]. change (blen []) with 0. rewrite mid_doc_0. exact Hd.
  - rewrite <- Ews in *. assert (Hne : ws <> []) by (rewrite Ews; discriminate).
    destruct (mid_main pre ws post opt n sQ cQ Hne Hws Hv Hst HQ HW) as [_ H2]. exact (H2 d Hd).
Qed.
Print Assumptions parse_ok_shift_mid_partial.

(* ---- rows and columns ---- *)
Lemma forallb_space_repeat x n : byte_is_space x = true -> forallb byte_is_space (repeat x n) = true.
Proof. intros H. induction n; cbn [repeat forallb]; [reflexivity|]. rewrite H, IHn. reflexivity. Qed.

(* the (row, column) of the insertion point itself *)
Lemma ins_pos pre post : valid_utf8_b post = true ->
  text_pos_at (pre ++ post) (blen pre) = Ok (pos_app pre (1, 1)).
Proof.
  intros Hv. rewrite <- (N.add_0_r (blen pre)).
  apply text_pos_at_concat; [lia|reflexivity| |apply text_pos_at_0]. intros _. apply valid_head_ok. exact Hv.
Qed.

(* (a) k spaces at the insertion point: the row of the error does not change; its column moves by k
   exactly when the error is on the row of the insertion point *)
Corollary parse_err_shift_mid_spaces : forall k pre post opt e,
  valid_utf8_b post = true -> insertion_point pre post opt ->
  parse (pre ++ post) opt = Err e -> has_pos e = true ->
  exists e' rP cP, parse (pre ++ repeat 32 k ++ post) opt = Err e' /\ err_kind e = err_kind e' /\
    text_pos_at (pre ++ post) (blen pre) = Ok (rP, cP) /\
    error_pos e' = (fst (error_pos e),
                    if fst (error_pos e) =? rP then N.of_nat k + snd (error_pos e) else snd (error_pos e)).
Proof.
  intros k pre post opt e Hv Hip He Hp.
  destruct (parse_err_shift_mid_explicit pre (repeat 32 k) post opt e (forallb_space_repeat 32 k eq_refl) Hv Hip He)
    as (e' & He' & (K1 & K2 & K3)).
  destruct (K3 Hp) as (q & tp & L1 & L2 & L3 & L4 & L5 & _ & _).
  exists e', (fst (pos_app pre (1, 1))), (snd (pos_app pre (1, 1))).
  split; [exact He'|]. split; [exact K1|]. split.
  { rewrite (ins_pos pre post Hv). destruct (pos_app pre (1, 1)); reflexivity. }
  rewrite L5, pos_app_spaces, <- L4. f_equal.
  rewrite L4. unfold pos_app. cbn [fst snd].
  destruct (fst tp =? 1) eqn:E1.
  - replace (count_byte 10 pre + fst tp =? count_byte 10 pre + 1) with true by lia. reflexivity.
  - replace (count_byte 10 pre + fst tp =? count_byte 10 pre + 1) with false by lia. reflexivity.
Qed.
Print Assumptions parse_err_shift_mid_spaces.

(* (b) k >= 1 line breaks at the insertion point: the row of the error moves by k; its column does not
   change, except on the row of the insertion point, where the columns before the insertion point
   (cP - 1 of them) are no longer in front of the error *)
Corollary parse_err_shift_mid_lines : forall k pre post opt e, (0 < k)%nat ->
  valid_utf8_b post = true -> insertion_point pre post opt ->
  parse (pre ++ post) opt = Err e -> has_pos e = true ->
  exists e' rP cP, parse (pre ++ repeat 10 k ++ post) opt = Err e' /\ err_kind e = err_kind e' /\
    text_pos_at (pre ++ post) (blen pre) = Ok (rP, cP) /\
    error_pos e' = (N.of_nat k + fst (error_pos e),
                    if fst (error_pos e) =? rP then snd (error_pos e) - (cP - 1) else snd (error_pos e)).
Proof.
  intros k pre post opt e Hk Hv Hip He Hp.
  destruct (parse_err_shift_mid_explicit pre (repeat 10 k) post opt e (forallb_space_repeat 10 k eq_refl) Hv Hip He)
    as (e' & He' & (K1 & K2 & K3)).
  destruct (K3 Hp) as (q & tp & L1 & L2 & L3 & L4 & L5 & _ & _).
  exists e', (fst (pos_app pre (1, 1))), (snd (pos_app pre (1, 1))).
  split; [exact He'|]. split; [exact K1|]. split.
  { rewrite (ins_pos pre post Hv). destruct (pos_app pre (1, 1)); reflexivity. }
  rewrite L5, (pos_app_lines pre k tp Hk), <- L4. f_equal.
  rewrite L4. unfold pos_app. cbn [fst snd].
  destruct (fst tp =? 1) eqn:E1.
  - replace (count_byte 10 pre + fst tp =? count_byte 10 pre + 1) with true by lia. change (1 =? 1) with true. cbv iota. lia.
  - replace (count_byte 10 pre + fst tp =? count_byte 10 pre + 1) with false by lia. reflexivity.
Qed.
Print Assumptions parse_err_shift_mid_lines.

(* ------------------------------------------------------------------ *)
(** * Examples: the test [insertion_point_b] decides insertion points by computation *)

(* after the XML declaration, a comment, a processing instruction and a line break *)
Definition ex_pre : bytes := b "<?xml version='1.0'?><!-- c --><?p q?>" ++ [10].
Definition ex_post : bytes := b "  <a><b></a>".

Example ex_point : insertion_point ex_pre ex_post default_options.
Proof. apply (insertion_point_b_ok _ _ _ 2). vm_compute. reflexivity. Qed.

(* ... and also right after the comment, or right after the declaration *)
Example ex_point1 : insertion_point (b "<?xml version='1.0'?><!-- c -->") (b "<?p q?>" ++ [10] ++ ex_post) default_options.
Proof. apply (insertion_point_b_ok _ _ _ 1). vm_compute. reflexivity. Qed.
Example ex_point0 : insertion_point (b "<?xml version='1.0'?>") (b "<!-- c --><?p q?>" ++ [10] ++ ex_post) default_options.
Proof. apply (insertion_point_b_ok _ _ _ 0). vm_compute. reflexivity. Qed.

(* the middle of a comment is not one (for any number of rounds up to the length of the text) *)
Example ex_no_point : forallb (fun n => negb (insertion_point_b (b "<!-- c") (b " --><a/>") default_options n))
                              (seq 0 20) = true.
Proof. vm_compute. reflexivity. Qed.

Example ex_err : exists e, parse (ex_pre ++ ex_post) default_options = Err e /\ has_pos e = true /\ error_pos e = (2, 9).
Proof. eexists. split; [vm_compute; reflexivity|]. split; reflexivity. Qed.

(* three spaces at the insertion point: the error is on the row of the insertion point, column + 3 *)
Example ex_spaces : exists e', parse (ex_pre ++ repeat 32 3 ++ ex_post) default_options = Err e' /\ error_pos e' = (2, 12).
Proof. eexists. split; [vm_compute; reflexivity|reflexivity]. Qed.

(* two line breaks: row + 2, and the column loses the 0 columns in front of the insertion point *)
Example ex_lines : exists e', parse (ex_pre ++ repeat 10 2 ++ ex_post) default_options = Err e' /\ error_pos e' = (4, 9).
Proof. eexists. split; [vm_compute; reflexivity|reflexivity]. Qed.

(* ------------------------------------------------------------------ *)
(* "post is valid UTF-8" follows from: the text is valid UTF-8 and the insertion point is a character
   boundary of it (it is: it follows a complete token or a whitespace) *)
Lemma valid_suffix pre post : valid_utf8_b (pre ++ post) = true ->
  is_boundary (pre ++ post) (blen pre) = true -> valid_utf8_b post = true.
Proof.
  intros Hv Hb. apply valid_iff_Valid.
  assert (E : sub (pre ++ post) (blen pre) (blen (pre ++ post)) = post).
  { unfold sub, blen. rewrite app_length.
    replace (N.to_nat (N.of_nat (length pre))) with (length pre) by lia. rewrite skipn_len_app.
    apply firstn_all2. lia. }
  rewrite <- E. apply (Valid_sub' (pre ++ post) Hv).
  - apply Boundary_of. exact Hb.
  - apply Boundary_len.
  - unfold blen. rewrite app_length. lia.
Qed.

Corollary parse_err_shift_mid_partial_text : forall pre ws post opt e,
  forallb byte_is_space ws = true -> valid_utf8_b (pre ++ post) = true ->
  is_boundary (pre ++ post) (blen pre) = true ->
  insertion_point pre post opt ->
  parse (pre ++ post) opt = Err e ->
  exists e', parse (pre ++ ws ++ post) opt = Err e' /\
    err_kind e = err_kind e' /\
    (has_pos e = false -> e' = e) /\
    (has_pos e = true -> exists off, blen pre <= off /\ off <= tlen (pre ++ post) /\
        is_boundary (pre ++ post) off = true /\
        text_pos_at (pre ++ post) off = Ok (error_pos e) /\
        text_pos_at (pre ++ ws ++ post) (off + blen ws) = Ok (error_pos e')).
Proof.
  intros pre ws post opt e Hws Hv Hb. apply parse_err_shift_mid_partial; [exact Hws|].
  apply (valid_suffix pre post Hv Hb).
Qed.
Print Assumptions parse_err_shift_mid_partial_text.

(* the Ok side on a well-formed document: the comment and the processing instruction in front of the
   insertion point keep their offsets, the element, its attribute and its text move by 3 *)
Definition ex_post2 : bytes := b "  <a x='1'>t</a>".
Example ex_point2 : insertion_point ex_pre ex_post2 default_options.
Proof. apply (insertion_point_b_ok _ _ _ 2). vm_compute. reflexivity. Qed.
Example ex_ok :
  match parse (ex_pre ++ ex_post2) default_options with
  | Ok d => parse (ex_pre ++ repeat 32 3 ++ ex_post2) default_options = Ok (mid_doc (blen ex_pre) 3 d)
            /\ mid_doc (blen ex_pre) 3 d <> d
  | _ => False
  end.
Proof. vm_compute. split; [reflexivity|discriminate]. Qed.
