(* Proofs/ErrShiftEntSanity.v -- C14 (entities): instances, by computation, of the theorems of
   ErrShiftEntFinal.v.  A DOCTYPE that declares general entities; the inserted whitespace stands
   right behind it.  The values of the entities are referenced from character data (one of them
   holds markup) and from an attribute value. *)
From Coq Require Import Ascii String.
From Coq Require Import List NArith Bool Lia.
Import ListNotations.
From RX Require Import Generated.
From RX.Model Require Import Base CharClass Stream Tokenizer Doc Builder Parse.
From RX.Proofs Require Import ErrShiftBase ErrShiftMidCore ErrShiftDtdFinal ErrShiftEntFinal.
Open Scope N_scope.

Definition exe_pre : bytes :=
  b "<!DOCTYPE r [<!ENTITY a 'xy'><!ENTITY e '<b>t&a;</b>'>]><!-- c -->".
Definition exe_post : bytes := b " <r k='1&a;2'>u&e;v</r>".

(* the point: behind the DOCTYPE and one comment *)
Example exe_point : dtd_point exe_pre exe_post dtd_opt.
Proof. apply (dtd_point_b_ok _ _ _ 1). vm_compute. reflexivity. Qed.
Example exe_point0 : dtd_point (b "<!DOCTYPE r [<!ENTITY a 'xy'>]>") (b "<r>&a;</r>") dtd_opt.
Proof. apply (dtd_point_b_ok _ _ _ 0). vm_compute. reflexivity. Qed.
(* the test of ErrShiftDtdFinal.v says no here: this is the case it leaves out *)
Example exe_not_noent : dtd_point_noent_b exe_pre exe_post dtd_opt 1 = false.
Proof. vm_compute. reflexivity. Qed.

(* the document: both sides of the theorem, computed *)
Example exe_ok :
  match parse (exe_pre ++ exe_post) dtd_opt with
  | Ok d => parse (exe_pre ++ [32; 10; 9] ++ exe_post) dtd_opt = Ok (mid_doc (blen exe_pre) 3 d)
            /\ mid_doc (blen exe_pre) 3 d <> d
  | _ => False
  end.
Proof. vm_compute. split; [reflexivity|discriminate]. Qed.

(* the same through the theorem *)
Example exe_ok_thm : forall d, parse (exe_pre ++ exe_post) dtd_opt = Ok d ->
  parse (exe_pre ++ [32; 10; 9] ++ exe_post) dtd_opt = Ok (mid_doc (blen exe_pre) 3 d).
Proof.
  intros d H. apply (parse_ok_shift_ent exe_pre [32; 10; 9] exe_post dtd_opt d); try reflexivity;
    [discriminate|exact exe_point|exact H].
Qed.

(* an error raised inside the value of an entity keeps its position; an error of the main text moves *)
Definition exe_pre_bad : bytes := b "<!DOCTYPE r [<!ENTITY e '<b>t</c>'>]>".
Example exe_point_bad : dtd_point exe_pre_bad (b "<r>&e;</r>") dtd_opt.
Proof. apply (dtd_point_b_ok _ _ _ 0). vm_compute. reflexivity. Qed.

Example exe_err_inside :
  exists tp, parse (exe_pre_bad ++ b "<r>&e;</r>") dtd_opt = Err (UnexpectedCloseTag [98] [99] tp)
          /\ parse (exe_pre_bad ++ repeat 32 5 ++ b "<r>&e;</r>") dtd_opt = Err (UnexpectedCloseTag [98] [99] tp)
          /\ parse (exe_pre_bad ++ repeat 10 2 ++ b "<r>&e;</r>") dtd_opt = Err (UnexpectedCloseTag [98] [99] tp)
          /\ snd tp < blen exe_pre_bad.
Proof. eexists. split; [vm_compute; reflexivity|]. split; [vm_compute; reflexivity|]. split; [vm_compute; reflexivity|]. vm_compute. reflexivity. Qed.

Example exe_err_outside :
  parse (exe_pre ++ b "<r>&e;</x>") dtd_opt = Err (UnexpectedCloseTag [114] [120] (1, 73))
  /\ parse (exe_pre ++ repeat 32 5 ++ b "<r>&e;</x>") dtd_opt = Err (UnexpectedCloseTag [114] [120] (1, 78))
  /\ parse (exe_pre ++ repeat 10 2 ++ b "<r>&e;</x>") dtd_opt = Err (UnexpectedCloseTag [114] [120] (3, 7)).
Proof. split; [vm_compute; reflexivity|]. split; vm_compute; reflexivity. Qed.

(* an unknown reference in an attribute value: an error of the main text *)
Example exe_err_attr :
  exists e e', parse (exe_pre ++ b "<r k='&zz;'/>") dtd_opt = Err e
          /\ parse (exe_pre ++ repeat 32 4 ++ b "<r k='&zz;'/>") dtd_opt = Err e'
          /\ err_kind e = err_kind e' /\ error_pos e' = (fst (error_pos e), snd (error_pos e) + 4).
Proof. eexists. eexists. split; [vm_compute; reflexivity|]. split; [vm_compute; reflexivity|]. split; reflexivity. Qed.
