(* Proofs/CstEntAttr.v -- C07, attribute values with references to character-data entities: what
   [norm_attr_lvl] does on a value whose pieces contain general entity references, by induction on
   an expansion derivation (nested references included). *)
From Coq Require Import Ascii String.
From Coq Require Import List NArith PeanoNat Bool Lia ZifyBool ZifyN ZifyNat.
Import ListNotations.
From RX Require Import Generated.
From RX.Model Require Import Base CharClass Stream Tokenizer Doc Builder Parse.
From RX.Spec Require Cst CstText CstEnt Detector.
From RX.Spec Require Import Text.
From RX.Proofs Require Import Tactics CstLex CstBuild TextMachine TextMerge HoistProofs NoPanicUtf8 DetectorProofs.
From RX.Proofs Require Import CstTextSem CstTextLex CstTextBuild CstEntSem CstEntText.
Open Scope N_scope.

Section Decls.
Variable decls : list E.edecl.

(* AExp m ps t q tr t': normalising the pieces ps in mode m (true: inside an entity value) from
   the buffer t gives the inlined pieces q, the trace tr and the buffer t' *)
Inductive AExp : bool -> list E.epiece -> text_buffer -> list T.piece -> list Detector.lop -> text_buffer -> Prop :=
| AExp_nil : forall m t, AExp m [] t [] [] t
| AExp_piece : forall m p r t t1 q tr t',
    (m = true -> E.is_lt_ref p = false) ->
    push_attr_chunks m (T.piece_chunks p) t = Some t1 ->
    AExp m r t1 q tr t' -> AExp m (E.EP p :: r) t (p :: q) tr t'
| AExp_ref : forall m n r d vps t qv trv t1 q tr t',
    first_decl decls n = Some d -> E.e_value d = E.EText vps ->
    AExp true vps t qv trv t1 -> AExp m r t1 q tr t' ->
    AExp m (E.ERef n :: r) t (E.mark :: qv ++ E.mark :: q)
         (Detector.Enter :: trv ++ Detector.Exit :: tr) t'.
End Decls.

Section Attr.
Variable text : bytes.
Hypothesis Hascii : Forall (fun x => x < 128) text.
Variable decls : list E.edecl.
Variable es : list entity.
Hypothesis Henv : Forall2 (ent_ok text) decls es.
Hypothesis Hdecls : Forall decl_ok decls.

Notation W := (CstLex.W text).

Lemma push_attr_next x y t : y <> 10 -> tb_push_from_attr x (Some y) t = tb_push_from_attr x None t.
Proof. intros H. unfold tb_push_from_attr. replace (y =? 10) with false by lia. reflexivity. Qed.

(* literal bytes: the byte after the literal is the end of the range or a '&' *)
Lemma aloop_lit lvl' ld e : forall bs p R t f,
  forallb (fun x => negb (x =? 38) && negb (x =? 60)) bs = true ->
  p + blen bs <= e -> (p + blen bs = e \/ exists R', R = 38 :: R') ->
  exists t1, push_attr_chunks (0 <? ld_depth ld) (map CLit bs) t = Some t1 /\
  attr_loop text lvl' es (length bs + f) (sst e p (bs ++ R)) t ld =
  attr_loop text lvl' es f (sst e (p + blen bs) R) t1 ld.
Proof.
  induction bs as [|x bs IH]; intros p R t f Hb He Hn.
  - exists t. split; [reflexivity|]. cbn [app length Nat.add]. rewrite blen_nil, N.add_0_r. reflexivity.
  - cbn [forallb] in Hb. apply andb_true_iff in Hb. destruct Hb as [Hx Hb]. rewrite blen_cons in *.
    cbn [map push_attr_chunks app length Nat.add].
    set (nx := curr_byte_opt (sst e (p + 1) (bs ++ R))).
    assert (Enx : tb_push_from_attr x nx t = tb_push_from_attr x (next_src (map CLit bs)) t).
    { unfold nx. destruct bs as [|y bs'].
      - cbn [map next_src app]. destruct Hn as [Hn|[R' ->]].
        + rewrite blen_nil in Hn. rewrite curr_byte_opt_end by lia. reflexivity.
        + rewrite blen_nil in He. destruct (e <=? p + 1) eqn:El.
          * rewrite curr_byte_opt_end by lia. reflexivity.
          * rewrite curr_byte_opt_sst by lia. apply push_attr_next. lia.
      - cbn [map next_src app]. rewrite blen_cons in He. rewrite curr_byte_opt_sst by lia. reflexivity. }
    destruct (IH (p + 1) R (tb_push_from_attr x nx t) f Hb ltac:(lia)) as (t1 & E1 & E2).
    { destruct Hn as [Hn|Hn]; [left; lia|right; exact Hn]. }
    exists t1. split; [rewrite <- Enx; exact E1|].
    cbn [attr_loop]. rewrite at_end_sst. replace (e <=? p) with false by lia.
    cbn [curr_byte_unchecked sst s_rest bind]. replace (x =? 38) with false by lia. cbn [negb].
    replace (x =? 60) with false by lia. cbn [andb].
    fold (sst e p (x :: bs ++ R)). rewrite advance1_sst by lia. cbn [bind]. fold nx.
    rewrite E2. replace (p + 1 + blen bs) with (p + (1 + blen bs)) by lia. reflexivity.
Qed.

(* a reference to a character *)
Lemma aloop_ref lvl' ld e p R ch s' t t1 f : p < e ->
  consume_reference text (sst e p (38 :: R)) = Ok (Some (RefChar ch, s')) ->
  push_char_bytes_attr (encode_utf8 ch) (0 <? ld_depth ld) t = Some t1 ->
  attr_loop text lvl' es (S f) (sst e p (38 :: R)) t ld = attr_loop text lvl' es f s' t1 ld.
Proof.
  intros Hlt Ec Ep. cbn [attr_loop]. rewrite at_end_sst. replace (e <=? p) with false by lia.
  cbn [curr_byte_unchecked sst s_rest bind]. change (38 =? 38) with true. cbn [negb]. cbv zeta.
  fold (sst e p (38 :: R)). rewrite Ec. cbn [bind]. rewrite Ep. reflexivity.
Qed.

Lemma is_elit_next p r : E.no_adjacent_elit (E.EP (T.PLit p) :: r) = true -> Forall (ep_ok true) r \/ True ->
  forall m, Forall (ep_ok m) r -> r = [] \/ exists R', E.r_epieces r = 38 :: R'.
Proof.
  intros Hadj _ m Hok. destruct r as [|c r']; [left; reflexivity|right].
  cbn [E.no_adjacent_elit E.is_elit andb] in Hadj. apply andb_true_iff in Hadj. destruct Hadj as [Hc _].
  apply Forall_cons_iff in Hok. destruct Hok as [Hc0 _].
  destruct c as [[bs|hex ds|pe|bs]|n]; cbn [E.is_elit negb] in Hc; try discriminate;
    cbn [E.r_epieces flat_map E.r_epiece T.r_piece app]; try (eexists; reflexivity).
  destruct Hc0 as [Hv _]. discriminate.
Qed.

Lemma no_adj_etail p ps : E.no_adjacent_elit (p :: ps) = true -> E.no_adjacent_elit ps = true.
Proof. destruct ps as [|d r]; [reflexivity|]. cbn [E.no_adjacent_elit]. intros H. apply andb_true_iff in H. apply H. Qed.

Definition decl_adj (d : E.edecl) : Prop :=
  match E.e_value d with E.EText vps => E.no_adjacent_elit vps = true | _ => True end.
Hypothesis Hadjs : Forall decl_adj decls.

Lemma first_decl_in n d : first_decl decls n = Some d -> In d decls.
Proof. unfold first_decl. intros H. apply find_some in H. apply H. Qed.

Lemma AL : forall m ps t q tr t', AExp decls m ps t q tr t' ->
  forall e p more ld ld' lvl' fuel,
  Forall (ep_ok m) ps -> E.no_adjacent_elit ps = true ->
  W p (E.r_epieces ps ++ more) -> p + blen (E.r_epieces ps) = e -> e <= tlen text ->
  m = (0 <? ld_depth ld) -> ld_run ld tr = Some ld' -> N.of_nat lvl' + ld_depth ld = 11 ->
  (length (E.r_epieces ps) < fuel)%nat ->
  attr_loop text lvl' es fuel (sst e p (E.r_epieces ps ++ more)) t ld = Ok (t', ld') /\
  ld_depth ld' = ld_depth ld.
Proof.
  intros m ps t q tr t' H.
  induction H as [m t|m pc0 rest t t1 q tr t' _ Hpush _ IH|m n rest d vps t qv trv t1 q tr t' Hfd Hval Hv IHv Hr IHr];
    intros e p more ld ld' lvl' fuel Hok Hadj HW He Hle Hm Hld Hlvl Hfu.
  - cbn [E.r_epieces flat_map app] in *. rewrite blen_nil, N.add_0_r in He.
    destruct fuel as [|fu]; [lia|]. cbn [attr_loop]. rewrite at_end_sst. replace (e <=? p) with true by lia.
    cbn [ld_run] in Hld. injection Hld as <-. auto.
  - apply Forall_cons_iff in Hok. destruct Hok as [Hp Hrest]. destruct Hp as [Hvp Hcv].
    pose proof (no_adj_etail _ _ Hadj) as Hadj'.
    cbn [E.r_epieces flat_map E.r_epiece] in *. fold (E.r_epieces rest) in *.
    rewrite <- app_assoc in HW |- *. rewrite blen_app in He. rewrite app_length in Hfu.
    pose proof (chunks_le_piece pc0 Hvp) as Hcl.
    assert (Hstep : attr_loop text lvl' es fuel (sst e p (T.r_piece pc0 ++ E.r_epieces rest ++ more)) t ld =
                    attr_loop text lvl' es (fuel - length (T.piece_chunks pc0))
                      (sst e (p + blen (T.r_piece pc0)) (E.r_epieces rest ++ more)) t1 ld).
    { destruct pc0 as [bs|hex ds|pe|bs]; cbn [T.wf_vpiece] in Hvp; try discriminate.
      - cbn [T.r_piece T.piece_chunks] in *. rewrite map_length in *.
        destruct (aloop_lit lvl' ld e bs p (E.r_epieces rest ++ more) t (fuel - length bs) (lit_not_amp _ _ Hvp) ltac:(lia))
          as (t1' & E1 & E2).
        { destruct (is_elit_next bs rest Hadj (or_intror I) m Hrest) as [->|[R' ER]].
          - left. cbn [E.r_epieces flat_map] in He. rewrite blen_nil in He. lia.
          - right. rewrite ER. eexists. reflexivity. }
        rewrite <- Hm in E1. rewrite Hpush in E1. injection E1 as <-.
        replace fuel with (length bs + (fuel - length bs))%nat at 1 by lia. exact E2.
      - cbn [T.piece_chunks push_attr_chunks] in Hpush.
        destruct (push_char_bytes_attr (T.utf8 (T.ref_val hex ds)) m t) as [t1'|] eqn:Ep; [|discriminate].
        cbn [push_attr_chunks] in Hpush. injection Hpush as <-.
        pose proof (cref_charref text Hascii e p hex ds (E.r_epieces rest ++ more) HW Hvp ltac:(lia) Hle) as Ec.
        assert (Hlt : p < e) by (cbn [T.r_piece app] in He; rewrite !blen_cons in He; lia).
        cbn [T.r_piece] in Ec, HW |- *. rewrite <- !app_assoc in *. cbn [app] in Ec |- *.
        cbn [T.piece_chunks length].
        replace fuel with (S (fuel - 1)) at 1 by (cbn [length] in Hcl; lia).
        rewrite (aloop_ref lvl' ld e p _ _ _ t t1' (fuel - 1) Hlt Ec); [reflexivity|].
        rewrite <- Hm. exact Ep.
      - cbn [T.piece_chunks push_attr_chunks] in Hpush.
        destruct (push_char_bytes_attr [T.predef_char pe] m t) as [t1'|] eqn:Ep; [|discriminate].
        cbn [push_attr_chunks] in Hpush. injection Hpush as <-.
        pose proof (cref_predef text Hascii e p pe (E.r_epieces rest ++ more) HW ltac:(lia) Hle) as Ec.
        assert (Hlt : p < e) by (cbn [T.r_piece app] in He; rewrite !blen_cons in He; lia).
        cbn [T.r_piece] in Ec, HW |- *. rewrite <- !app_assoc in *. cbn [app] in Ec |- *.
        cbn [T.piece_chunks length].
        replace fuel with (S (fuel - 1)) at 1 by (cbn [length] in Hcl; lia).
        rewrite (aloop_ref lvl' ld e p _ _ _ t t1' (fuel - 1) Hlt Ec); [reflexivity|].
        rewrite <- Hm. replace (encode_utf8 (T.predef_char pe)) with [T.predef_char pe] by (destruct pe; reflexivity).
        exact Ep. }
    rewrite Hstep. apply (IH e _ more ld ld' lvl'); try assumption; try lia.
    apply (W_app _ _ _ _ HW).
  - apply Forall_cons_iff in Hok. destruct Hok as [Hp Hrest]. destruct Hp as [Hn Hpre].
    pose proof (no_adj_etail _ _ Hadj) as Hadj'.
    cbn [E.r_epieces flat_map E.r_epiece] in *. fold (E.r_epieces rest) in *.
    rewrite <- !app_assoc in HW |- *. rewrite !blen_app in He. change (blen [38]) with 1 in He. change (blen [59]) with 1 in He.
    destruct (find_first text decls es Henv Hdecls n d Hfd) as (en & Efind & (Hen & vs & tail & Eval & HWv) & Hdok).
    unfold decl_ok in Hdok. rewrite Hval in Hdok. destruct Hdok as [Hvok _].
    rewrite Hval in Eval, HWv. cbn [E.r_value] in Eval, HWv.
    assert (Hvadj : E.no_adjacent_elit vps = true).
    { pose proof (first_decl_in _ _ Hfd) as Hin. rewrite Forall_forall in Hadjs. specialize (Hadjs _ Hin).
      unfold decl_adj in Hadjs. rewrite Hval in Hadjs. exact Hadjs. }
    destruct fuel as [|fu]; [lia|].
    cbn [ld_run] in Hld. destruct (ld_enter ld) as [ld1|] eqn:Eenter; [|discriminate].
    rewrite ld_run_app in Hld. destruct (ld_run ld1 trv) as [ld1'|] eqn:Erun1; [|discriminate]. cbn [ld_run] in Hld.
    destruct (enter_model text (sst e (p + 2 + blen n) (E.r_epieces rest ++ more)) _ _ Eenter) as (l0 & Ei1 & Ei2).
    assert (Hd1 : ld_depth ld1 = ld_depth ld + 1 /\ ld_depth ld < 10).
    { rewrite (mk_eta ld) in Eenter. apply ld_enter_some in Eenter. destruct Eenter as [Hlt [[H0 ->]|[H0 [_ ->]]]].
      - unfold DetectorProofs.mk. cbn. rewrite H0. split; [reflexivity|lia].
      - unfold DetectorProofs.mk. cbn. split; [reflexivity|exact Hlt]. }
    destruct Hd1 as [Hd1 Hd10].
    pose proof (cref_entity text Hascii e p n (E.r_epieces rest ++ more) HW Hn Hpre ltac:(lia) Hle) as Ec.
    cbn [app] in Ec, HW |- *.
    erewrite norm_attr_entity_step;
      [|rewrite at_end_sst; lia|reflexivity|exact Ec| |exact Ei1|exact Ei2].
    2:{ pose proof (W_cons _ _ _ _ HW) as HW1. rewrite (W_slice _ _ _ _ HW1). exact Efind. }
    destruct lvl' as [|lvl'']; [lia|].
    rewrite norm_attr_lvl_unfold, Eval. cbn [sl sl_start sl_end].
    rewrite (stream_from_substr_W text vs (E.r_epieces vps) tail HWv). cbn [bind].
    pose proof (W_le _ _ _ (W_app _ _ _ _ HWv)) as Hlev.
    destruct (IHv (vs + blen (E.r_epieces vps)) vs tail ld1 ld1' lvl''
                (S (length (s_rest (sst (vs + blen (E.r_epieces vps)) vs (E.r_epieces vps ++ tail))))))
      as [Ev Hdv]; try assumption; try reflexivity.
    { rewrite Hd1. replace (0 <? ld_depth ld + 1) with true by lia. reflexivity. }
    { lia. }
    { cbn [sst s_rest]. rewrite app_length. lia. }
    rewrite Ev. cbn [bind].
    assert (Hdd : ld_depth (dec_depth ld1') = ld_depth ld).
    { unfold dec_depth. cbn [ld_depth]. rewrite Hdv, Hd1. replace (0 <? ld_depth ld + 1) with true by lia. lia. }
    destruct (IHr e (p + 2 + blen n) more (dec_depth ld1') ld' (S lvl'') fu) as [Er Hdr]; try assumption.
    + pose proof (W_app _ _ n _ (W_cons _ _ _ _ HW)) as Y. apply W_cons in Y.
      replace (p + 2 + blen n) with (p + 1 + blen n + 1) by lia. exact Y.
    + lia.
    + rewrite Hdd. exact Hm.
    + rewrite Hdd. exact Hlvl.
    + rewrite !app_length in Hfu. cbn [length] in Hfu. lia.
    + split; [exact Er|rewrite Hdr; exact Hdd].
Qed.

End Attr.

Print Assumptions AL.
