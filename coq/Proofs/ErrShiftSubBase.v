(* Proofs/ErrShiftSubBase.v -- C14 (whitespace inserted INSIDE the internal subset), part 3.
   COPY of ErrShiftEntBase.v (registered; not edited) with ONE change: the margin of a stream /
   slice of the side "below" is 2 bytes instead of 4 (an entity declared before a point inside the
   subset is followed by its quote and by ">" only).  What made 4 necessary there -- [next_char]
   decoding up to 4 bytes -- is replaced by [decode1_agree]: a successful decoding reads the bytes
   of the char only, and a char that does not fit into the stream is a panic on both sides
   ([next_char_F]).  Original header:
   Proofs/ErrShiftSubBase.v -- C14 (whitespace inserted after a DOCTYPE that declares general
   entities), part 1: the two texts  T1 = pre ++ post  and  T2 = pre ++ ws ++ post , the piecewise
   relation of the two runs and the Stream primitives.

   A stream of the first run lies either wholly BELOW the insertion point P = |pre| (a sub-stream
   over the value of an entity: [hi = false]; its end is at least 4 bytes before P, because the
   value is followed by its quote and by ">" and "]>" ) or wholly AT / ABOVE it (the main stream
   behind the point and its sub-streams: [hi = true]).  The stream of the second run is [F hi s]:
   the same stream for hi = false, the stream moved by k = |ws| for hi = true; its cached rest is
   that of T2 (for hi = false the two rests differ behind P, where no primitive looks).

   Results are related by [psim I g]: the value of the first run satisfies the invariant I and the
   value of the second run is its image under g; errors are related by [ER]: same variant and
   payload, and the position is that of an offset of T1 which either lies below P (then the
   position is unchanged) or not (then it is the position of the offset + k in T2).  The fuel of
   a loop may differ in the two runs (it is the length of a cached rest), so nothing is said
   when the first run is out of fuel. *)
From Coq Require Import List Arith NArith Bool Lia ZifyBool ZifyN ZifyNat.
Import ListNotations.
From RX Require Import Generated.
From RX.Model Require Import Base CharClass Stream.
From RX.Proofs Require Import Tactics NoPanicUtf8 NoPanicStream PositionProofs RangeShiftBase RangeShiftStream ErrShiftBase.
Open Scope N_scope.

(* ---- lists ---- *)
Lemma skipn_add {A} (x y : nat) (l : list A) : skipn x (skipn y l) = skipn (y + x) l.
Proof.
  revert l. induction y as [|y IH]; intros l; [reflexivity|]. destruct l as [|a l]; [destruct x; reflexivity|].
  cbn [skipn Nat.add]. apply IH.
Qed.

Lemma skipn_app_lo {A} (n : nat) (l1 l2 : list A) : (n <= length l1)%nat -> skipn n (l1 ++ l2) = skipn n l1 ++ l2.
Proof. intros H. rewrite skipn_app. replace (n - length l1)%nat with O by lia. reflexivity. Qed.

Lemma skipn_app_hi {A} (n : nat) (l1 l2 : list A) : (length l1 <= n)%nat -> skipn n (l1 ++ l2) = skipn (n - length l1) l2.
Proof. intros H. rewrite skipn_app. rewrite skipn_all2 by lia. reflexivity. Qed.

Lemma firstn_app_lo {A} (n : nat) (l1 l2 : list A) : (n <= length l1)%nat -> firstn n (l1 ++ l2) = firstn n l1.
Proof. intros H. rewrite firstn_app. replace (n - length l1)%nat with O by lia. cbn [firstn]. apply app_nil_r. Qed.

Lemma firstn_le_eq {A} (n m : nat) (l1 l2 : list A) : (m <= n)%nat -> firstn n l1 = firstn n l2 -> firstn m l1 = firstn m l2.
Proof.
  intros H E. rewrite <- (Nat.min_l m n H), <- !firstn_firstn, E. reflexivity.
Qed.

Lemma nth_error_app_lo {A} (n : nat) (l1 l2 : list A) : (n < length l1)%nat -> nth_error (l1 ++ l2) n = nth_error l1 n.
Proof. apply nth_error_app1. Qed.

Lemma nth_skipn {A} : forall (n : nat) (l : list A), nth_error l n = match skipn n l with x :: _ => Some x | [] => None end.
Proof. induction n as [|n IH]; intros l; destruct l as [|a l]; try reflexivity. cbn [nth_error skipn]. apply IH. Qed.

(* ---- the relation of results ---- *)
Definition psim0 {A B} (ER : error -> error -> Prop) (I : A -> Prop) (g : A -> B) (r1 : res A) (r2 : res B) : Prop :=
  match r1 with
  | Ok a => I a /\ r2 = Ok (g a)
  | Err e => exists e', r2 = Err e' /\ ER e e'
  | Panic p => r2 = Panic p
  | OutOfFuel => True
  end.

(* the setting: the three pieces of the two texts *)
Record setting := { st_pre : bytes; st_ws : bytes; st_post : bytes;
                    st_Hws : forallb byte_is_space st_ws = true;
                    st_Hv : valid_utf8_b st_post = true }.

Section Ent.
Variable S : setting.
Notation pre := (st_pre S).
Notation ws := (st_ws S).
Notation post := (st_post S).
Notation Hws := (st_Hws S).
Notation Hv := (st_Hv S).
Notation T1 := (pre ++ post).
Notation T2 := (pre ++ ws ++ post).
Notation P := (blen pre).
Notation k := (blen ws).

Definition dd (hi : bool) : N := if hi then k else 0.

(* an offset on the side hi *)
Definition NS (hi : bool) (p : N) : Prop := if hi then P <= p else p < P.

(* ---- positions and errors ---- *)
Definition PosRelP (tp tp' : textpos) : Prop :=
  exists off, gen_text_pos_at T1 off = Ok tp /\
    ((off < P /\ tp' = tp) \/ (P <= off /\ gen_text_pos_at T2 (off + k) = Ok tp')).

Inductive ER : error -> error -> Prop :=
| ER_same e : has_pos e = false -> ER e e
| ER_pos e e' : has_pos e = true -> err_kind e = err_kind e' ->
                PosRelP (error_pos e) (error_pos e') -> ER e e'.

Lemma ER_mk mk tp tp' : pos_ctor mk -> PosRelP tp tp' -> ER (mk tp) (mk tp').
Proof. intros (H1 & H2 & H3) HP. apply ER_pos; [apply H3|apply H2|]. rewrite !H1. exact HP. Qed.

Definition psim {A B} := @psim0 A B ER.

Lemma psim_bind {A B A' B'} (I : A -> Prop) (g : A -> A') (I' : B -> Prop) (g' : B -> B') r1 r2 k1 k2 :
  psim I g r1 r2 -> (forall a, I a -> psim I' g' (k1 a) (k2 (g a))) ->
  psim I' g' (bind r1 k1) (bind r2 k2).
Proof.
  intros H Hk. destruct r1; cbn [psim psim0 bind] in *.
  - destruct H as [Ha ->]. cbn [bind]. apply Hk. exact Ha.
  - destruct H as [e' [-> He]]. cbn. eauto.
  - subst r2. reflexivity.
  - exact Logic.I.
Qed.

Lemma psim_ret {A B} (I : A -> Prop) (g : A -> B) a b : I a -> b = g a -> psim I g (Ok a) (Ok b).
Proof. intros H ->. split; [exact H|reflexivity]. Qed.
Lemma psim_same_err {A B} (I : A -> Prop) (g : A -> B) e : has_pos e = false -> psim I g (Err e) (Err e).
Proof. intros H. cbn. exists e. split; [reflexivity|apply ER_same; exact H]. Qed.
Lemma psim_panic {A B} (I : A -> Prop) (g : A -> B) p : psim I g (Panic p) (Panic p).
Proof. reflexivity. Qed.
Lemma psim_fuel {A B} (I : A -> Prop) (g : A -> B) r : psim I g OutOfFuel r.
Proof. exact Logic.I. Qed.

Lemma psim_weaken {A B} (I I' : A -> Prop) (g g' : A -> B) r1 r2 :
  psim I g r1 r2 -> (forall a, I a -> I' a /\ g a = g' a) -> psim I' g' r1 r2.
Proof.
  intros H HI. destruct r1; cbn [psim psim0] in *; auto. destruct H as [Ha ->].
  destruct (HI a Ha) as [H1 H2]. rewrite H2. auto.
Qed.

(* the same computation on both sides, which can only fail without a position *)
Lemma id_psim {A} (r : res A) : nopos_res r -> psim (fun _ => True) idf r r.
Proof. destruct r; cbn; eauto. intros H. exists e. split; [reflexivity|apply ER_same; exact H]. Qed.

(* both sides fail, with related errors *)
Definition both_failP {A B} (r1 : res A) (r2 : res B) : Prop :=
  match r1 with
  | Ok _ => False
  | Err e => exists e', r2 = Err e' /\ ER e e'
  | Panic p => r2 = Panic p
  | OutOfFuel => True
  end.
Lemma both_failP_sim {A' B'} (I : A' -> Prop) (g : A' -> B') (r1 : res A') (r2 : res B') :
  both_failP r1 r2 -> psim I g r1 r2.
Proof. destruct r1; cbn; auto; contradiction. Qed.

(* ---- the two texts ---- *)
Lemma tlen_T2 : tlen T2 = tlen T1 + k.
Proof. unfold tlen, blen. rewrite !app_length. lia. Qed.

Lemma P_le_tlen : P <= tlen T1.
Proof. unfold tlen, blen. rewrite app_length. lia. Qed.

(* at / above the point *)
Lemma skipn_hi p : P <= p -> skipn (N.to_nat (p + k)) T2 = skipn (N.to_nat p) T1.
Proof.
  intros H. unfold blen in *. rewrite !skipn_app_hi by lia. f_equal. lia.
Qed.

Lemma nth_hi p : P <= p -> nth_error T2 (N.to_nat (p + k)) = nth_error T1 (N.to_nat p).
Proof. intros H. rewrite !nth_skipn, (skipn_hi p H). reflexivity. Qed.

Lemma firstn_lo p : p <= P -> firstn (N.to_nat p) T2 = firstn (N.to_nat p) T1.
Proof. intros H. unfold blen in *. rewrite !firstn_app_lo by lia. reflexivity. Qed.

Lemma nth_lo p : p < P -> nth_error T2 (N.to_nat p) = nth_error T1 (N.to_nat p).
Proof. intros H. unfold blen in *. rewrite !nth_error_app1 by lia. reflexivity. Qed.

Lemma head_post_ok : head_ok post.
Proof. apply valid_head_ok. exact Hv. Qed.

Lemma ws_head_ok : head_ok (ws ++ post).
Proof.
  pose proof head_post_ok as Hh. pose proof Hws as Hw.
  destruct (st_ws S) as [|w r]; [exact Hh|]. cbn [app head_ok].
  cbn [forallb] in Hw. apply andb_true_iff in Hw. destruct Hw as [H _].
  apply NoPanicStream.byte_is_space_ascii in H. unfold NoPanicUtf8.ascii in H. unfold is_cont. lia.
Qed.

(* F2: boundaries *)
Lemma is_boundary_hi p : P <= p -> is_boundary T2 (p + k) = is_boundary T1 p.
Proof.
  intros H. unfold is_boundary. rewrite (nth_hi p H). pose proof tlen_T2 as Ht. unfold tlen in Ht. rewrite Ht.
  destruct (N.eqb_spec p 0) as [->|Hp].
  - destruct (N.eqb_spec (0 + k) 0) as [E|E]; [reflexivity|].
    assert (HP0 : P = 0) by lia. pose proof head_post_ok as Hh.
    destruct (st_pre S) as [|x r]; [|unfold blen in HP0; cbn [length] in HP0; lia].
    cbn [app N.to_nat nth_error]. destruct (st_post S) as [|y r]; cbn [nth_error].
    + unfold blen. cbn [length]. lia.
    + cbn [head_ok] in Hh. rewrite Hh. reflexivity.
  - destruct (N.eqb_spec (p + k) 0); [lia|].
    destruct (nth_error T1 (N.to_nat p)); [reflexivity|].
    destruct (N.eqb_spec p (blen T1)), (N.eqb_spec (p + k) (blen T1 + k)); try reflexivity; lia.
Qed.

Lemma is_boundary_lo p : p < P -> is_boundary T2 p = is_boundary T1 p.
Proof.
  intros H. unfold is_boundary. rewrite (nth_lo p H). destruct (p =? 0); [reflexivity|].
  assert (E : exists x, nth_error T1 (N.to_nat p) = Some x).
  { destruct (nth_error T1 (N.to_nat p)) eqn:E; [eauto|]. apply nth_error_None in E.
    pose proof P_le_tlen. unfold tlen, blen in *. lia. }
  destruct E as [x ->]. reflexivity.
Qed.

Lemma is_boundary_s hi p : NS hi p -> is_boundary T2 (p + dd hi) = is_boundary T1 p.
Proof.
  destruct hi; cbn [NS dd]; intros H; [apply is_boundary_hi; exact H|].
  rewrite N.add_0_r. apply is_boundary_lo. lia.
Qed.

(* F1: sub-strings *)
Lemma sub_hi a e : P <= a -> sub T2 (a + k) (e + k) = sub T1 a e.
Proof. intros H. unfold sub. rewrite (skipn_hi a H). f_equal. lia. Qed.

Lemma sub_lo a e : e <= P -> sub T2 a e = sub T1 a e.
Proof.
  intros H. unfold sub. destruct (N.le_gt_cases a e) as [Hae|Hae].
  - unfold blen in *. rewrite !skipn_app_lo by lia. rewrite !firstn_app_lo by (rewrite skipn_length; lia). reflexivity.
  - replace (N.to_nat (e - a)) with O by lia. reflexivity.
Qed.

(* a slice on the side hi *)
Definition LS (hi : bool) (sl : slice) : Prop :=
  sl_start sl <= sl_end sl /\ (if hi then P <= sl_start sl else sl_end sl + 2 <= P).

Lemma slice_bytes_s hi sl : LS hi sl -> slice_bytes T2 (sh_sl (dd hi) sl) = slice_bytes T1 sl.
Proof.
  unfold slice_bytes, sh_sl. cbn [sl_start sl_end]. destruct hi; cbn [dd]; intros [_ H].
  - apply sub_hi. exact H.
  - rewrite !N.add_0_r. apply sub_lo. lia.
Qed.

Lemma slice_len_s d sl : slice_len (sh_sl d sl) = slice_len sl.
Proof. unfold slice_len, sh_sl. cbn. lia. Qed.

(* ---- positions ---- *)
Lemma gen_pos_lo p : p < P -> gen_text_pos_at T2 p = gen_text_pos_at T1 p.
Proof.
  intros H. unfold gen_text_pos_at, calc_row, calc_col. rewrite tlen_T2, (is_boundary_lo p H), (firstn_lo p) by lia.
  pose proof P_le_tlen. replace (tlen T1 + k <? p) with false by lia. replace (tlen T1 <? p) with false by lia.
  reflexivity.
Qed.

Lemma gen_pos_hi p : P <= p ->
  match gen_text_pos_at T1 p with
  | Ok tp => exists tp', gen_text_pos_at T2 (p + k) = Ok tp' /\ PosRelP tp tp'
  | Panic x => gen_text_pos_at T2 (p + k) = Panic x
  | _ => False
  end.
Proof.
  intros H. destruct (gen_text_pos_at T1 p) as [tp| |x|] eqn:E.
  - assert (E2 : exists tp', gen_text_pos_at T2 (p + k) = Ok tp').
    { unfold gen_text_pos_at in *. rewrite tlen_T2, (is_boundary_hi p H).
      replace (tlen T1 + k <? p + k) with (tlen T1 <? p) by lia.
      destruct (_ || _); [discriminate|]. eauto. }
    destruct E2 as [tp' E2]. exists tp'. split; [exact E2|]. exists p. split; [exact E|]. right. auto.
  - unfold gen_text_pos_at in E. destruct (_ || _); discriminate.
  - unfold gen_text_pos_at in *. rewrite tlen_T2, (is_boundary_hi p H).
    replace (tlen T1 + k <? p + k) with (tlen T1 <? p) by lia.
    destruct (_ || _); [exact E|discriminate].
  - unfold gen_text_pos_at in E. destruct (_ || _); discriminate.
Qed.

Lemma gen_pos_both {A B} hi p mk : pos_ctor mk -> NS hi p ->
  both_failP (let! tp := gen_text_pos_at T1 p in @Err A (mk tp))
             (let! tp := gen_text_pos_at T2 (p + dd hi) in @Err B (mk tp)).
Proof.
  intros Hmk Hp. destruct hi; cbn [NS dd] in *.
  - pose proof (gen_pos_hi p Hp) as H. destruct (gen_text_pos_at T1 p) as [tp| |x|]; try contradiction; cbn [bind both_failP].
    + destruct H as (tp' & -> & HR). cbn [bind]. exists (mk tp'). split; [reflexivity|apply ER_mk; assumption].
    + rewrite H. reflexivity.
  - rewrite N.add_0_r, gen_pos_lo by lia.
    destruct (gen_text_pos_at T1 p) as [tp| |x|] eqn:E; cbn [bind both_failP]; auto.
    + exists (mk tp). split; [reflexivity|]. apply ER_mk; [exact Hmk|]. exists p. split; [exact E|]. left. split; [lia|reflexivity].
    + unfold gen_text_pos_at in E. destruct (_ || _); discriminate.
Qed.

Lemma floor_fuel_hi : forall fuel q, P <= q ->
  floor_boundary_fuel T2 fuel (q + k) = floor_boundary_fuel T1 fuel q + k /\ P <= floor_boundary_fuel T1 fuel q.
Proof.
  induction fuel as [|fu IH]; intros q Hq; cbn [floor_boundary_fuel]; [auto|].
  rewrite (is_boundary_hi q Hq). destruct (is_boundary T1 q) eqn:E; [auto|].
  assert (q <> P).
  { intros ->. unfold is_boundary in E. destruct (P =? 0); [discriminate|].
    unfold blen in E. rewrite nth_error_app2, Nat2N.id, Nat.sub_diag in E by lia.
    pose proof head_post_ok as Hh. destruct (st_post S) as [|y r]; cbn [nth_error] in E.
    - rewrite app_nil_r in E. unfold blen in E. rewrite N.eqb_refl in E. discriminate.
    - cbn [head_ok] in Hh. rewrite Hh in E. discriminate. }
  replace (q + k - 1) with (q - 1 + k) by lia. apply IH. lia.
Qed.

Lemma floor_fuel_lo : forall fuel q, q < P -> floor_boundary_fuel T2 fuel q = floor_boundary_fuel T1 fuel q /\ floor_boundary_fuel T1 fuel q < P.
Proof.
  induction fuel as [|fu IH]; intros q Hq; cbn [floor_boundary_fuel]; [auto|].
  rewrite (is_boundary_lo q Hq). destruct (is_boundary T1 q); [auto|]. apply IH. lia.
Qed.

Lemma err_from_both {A B} hi p mk : pos_ctor mk -> NS hi p ->
  both_failP (@err_from T1 A p mk) (@err_from T2 B (p + dd hi) mk).
Proof.
  intros Hmk Hp. unfold err_from, gen_text_pos_from, floor_boundary. rewrite tlen_T2. pose proof P_le_tlen as HP.
  destruct hi; cbn [NS dd] in *.
  - replace (N.min (p + k) (tlen T1 + k)) with (N.min p (tlen T1) + k) by lia.
    destruct (floor_fuel_hi 4 (N.min p (tlen T1)) ltac:(lia)) as [-> Hq].
    apply (gen_pos_both true _ mk Hmk Hq).
  - rewrite N.add_0_r. rewrite !N.min_l by lia.
    destruct (floor_fuel_lo 4 p ltac:(lia)) as [-> Hq].
    pose proof (@gen_pos_both A B false (floor_boundary_fuel T1 4 p) mk Hmk) as H. cbn [dd] in H.
    rewrite N.add_0_r in H. apply H. cbn [NS]. exact Hq.
Qed.

Lemma err_from_ps {A B} hi p p' mk (I : A -> Prop) (g : A -> B) : pos_ctor mk -> NS hi p -> p' = p + dd hi ->
  psim I g (@err_from T1 A p mk) (@err_from T2 B p' mk).
Proof. intros H Hp ->. apply both_failP_sim. apply err_from_both; assumption. Qed.

(* ---- streams ---- *)
Definition F (hi : bool) (s : stream) : stream :=
  {| s_pos := s_pos s + dd hi; s_end := s_end s + dd hi;
     s_rest := skipn (N.to_nat (s_pos s + dd hi)) T2 |}.

Definition SI (hi : bool) (s : stream) : Prop :=
  s_rest s = skipn (N.to_nat (s_pos s)) T1 /\ s_pos s <= s_end s /\ s_end s <= tlen T1 /\
  (if hi then P <= s_pos s else s_end s + 2 <= P).

(* an offset on the side hi, with the margin of a stream *)
Definition NS4 (hi : bool) (p : N) : Prop := if hi then P <= p else p + 2 <= P.

Lemma NS4_NS hi p : NS4 hi p -> NS hi p.
Proof. destruct hi; cbn [NS4 NS]; lia. Qed.

Lemma SI_NS4 hi s : SI hi s -> NS4 hi (s_pos s).
Proof. intros (_ & H1 & _ & H2). destruct hi; cbn [NS4]; lia. Qed.

Lemma SI_NS hi s : SI hi s -> NS hi (s_pos s).
Proof. intros (_ & H1 & _ & H2). destruct hi; cbn [NS]; lia. Qed.

Lemma SI_NS_le hi s p : SI hi s -> s_pos s <= p -> p <= s_end s -> NS hi p.
Proof. intros (_ & H1 & _ & H2) Ha Hb. destruct hi; cbn [NS]; lia. Qed.

Lemma s_pos_F hi s : s_pos (F hi s) = s_pos s + dd hi. Proof. reflexivity. Qed.
Lemma s_end_F hi s : s_end (F hi s) = s_end s + dd hi. Proof. reflexivity. Qed.

Lemma at_end_F hi s : at_end (F hi s) = at_end s.
Proof. unfold at_end, F. cbn [s_pos s_end]. lia. Qed.

(* the two cached rests agree on what lies inside the stream, and on 2 bytes more *)
Lemma rest_agree hi s : SI hi s ->
  firstn (N.to_nat (s_end s - s_pos s) + 2) (s_rest (F hi s)) = firstn (N.to_nat (s_end s - s_pos s) + 2) (s_rest s).
Proof.
  intros (Hr & H1 & H2 & H3). rewrite Hr. unfold F. cbn [s_rest]. destruct hi; cbn [dd].
  - rewrite skipn_hi by exact H3. reflexivity.
  - rewrite N.add_0_r. unfold blen in *. rewrite !skipn_app_lo by lia.
    rewrite !firstn_app_lo by (rewrite skipn_length; lia). reflexivity.
Qed.

Lemma rest_hi s : SI true s -> s_rest (F true s) = s_rest s.
Proof. intros (Hr & _ & _ & H3). rewrite Hr. unfold F. cbn [s_rest dd]. apply skipn_hi. exact H3. Qed.

Lemma rest_agree_n hi s n : SI hi s -> (n <= N.to_nat (s_end s - s_pos s) + 2)%nat ->
  firstn n (s_rest (F hi s)) = firstn n (s_rest s).
Proof. intros H Hn. eapply firstn_le_eq; [exact Hn|]. apply rest_agree. exact H. Qed.

Lemma avail_F hi s : SI hi s -> avail (F hi s) = avail s.
Proof.
  intros H. unfold avail. cbn [F s_pos s_end]. replace (s_end s + dd hi - (s_pos s + dd hi)) with (s_end s - s_pos s) by lia.
  apply rest_agree_n; [exact H|lia].
Qed.

Lemma starts_with_F hi s p : SI hi s -> starts_with (F hi s) p = starts_with s p.
Proof. intros H. unfold starts_with. rewrite avail_F by exact H. reflexivity. Qed.

Lemma hd_firstn {A} (l : list A) : match l with x :: _ => Some x | [] => None end = match firstn 1 l with x :: _ => Some x | [] => None end.
Proof. destruct l; reflexivity. Qed.

Lemma head_F hi s : SI hi s ->
  match s_rest (F hi s) with x :: _ => Some x | [] => None end = match s_rest s with x :: _ => Some x | [] => None end.
Proof. intros H. rewrite (hd_firstn (s_rest (F hi s))), (hd_firstn (s_rest s)), (rest_agree_n hi s 1 H) by lia. reflexivity. Qed.

Lemma curr_byte_unchecked_F hi s : SI hi s -> curr_byte_unchecked (F hi s) = curr_byte_unchecked s.
Proof.
  intros H. unfold curr_byte_unchecked. pose proof (head_F hi s H) as E.
  destruct (s_rest (F hi s)), (s_rest s); try discriminate; [reflexivity|]. injection E as ->. reflexivity.
Qed.

Lemma curr_byte_F hi s : SI hi s -> curr_byte (F hi s) = curr_byte s.
Proof. intros H. unfold curr_byte. rewrite at_end_F, curr_byte_unchecked_F by exact H. reflexivity. Qed.

Lemma curr_byte_opt_F hi s : SI hi s -> curr_byte_opt (F hi s) = curr_byte_opt s.
Proof.
  intros H. unfold curr_byte_opt. rewrite at_end_F. pose proof (head_F hi s H) as E.
  destruct (at_end s); [reflexivity|]. destruct (s_rest (F hi s)), (s_rest s); try discriminate; [reflexivity|exact E].
Qed.

Lemma starts_with_space_F hi s : SI hi s -> starts_with_space (F hi s) = starts_with_space s.
Proof. intros H. unfold starts_with_space. rewrite curr_byte_opt_F by exact H. reflexivity. Qed.

Lemma next_byte_F hi s : SI hi s -> next_byte (F hi s) = next_byte s.
Proof.
  intros H. unfold next_byte. cbn [F s_pos s_end].
  replace (s_end s + dd hi <=? s_pos s + dd hi + 1) with (s_end s <=? s_pos s + 1) by lia.
  destruct (s_end s <=? s_pos s + 1); [reflexivity|].
  pose proof (rest_agree_n hi s 2 H ltac:(lia)) as E. change (s_rest (F hi s)) with (skipn (N.to_nat (s_pos s + dd hi)) T2) in E |- *.
  destruct (skipn (N.to_nat (s_pos s + dd hi)) T2) as [|a [|b0 l]], (s_rest s) as [|a' [|b' l']]; cbn [firstn] in E; try discriminate; try reflexivity.
  inversion E; subst. reflexivity.
Qed.

Lemma scan_firstn f : forall room l, scan f l room = scan f (firstn room l) room.
Proof.
  induction room as [|r IH]; intros l; [destruct l; reflexivity|]. destruct l as [|x t]; [reflexivity|].
  cbn [scan firstn]. destruct (f x); [rewrite IH; reflexivity|reflexivity].
Qed.

Lemma scan_le f : forall room l, (scan f l room <= room)%nat.
Proof. induction room as [|r IH]; intros l; destruct l as [|x t]; cbn [scan]; try lia. destruct (f x); [specialize (IH t); lia|lia]. Qed.

Lemma SI_move hi s n : SI hi s -> s_pos s + n <= s_end s ->
  SI hi {| s_pos := s_pos s + n; s_end := s_end s; s_rest := skipn (N.to_nat n) (s_rest s) |}.
Proof.
  intros (Hr & H1 & H2 & H3) Hn. unfold SI. cbn [s_pos s_end s_rest]. rewrite Hr, skipn_add.
  split; [f_equal; lia|]. split; [lia|]. split; [lia|]. destruct hi; lia.
Qed.

Lemma F_move hi s n :
  F hi {| s_pos := s_pos s + n; s_end := s_end s; s_rest := skipn (N.to_nat n) (s_rest s) |} =
  {| s_pos := s_pos (F hi s) + n; s_end := s_end (F hi s); s_rest := skipn (N.to_nat n) (s_rest (F hi s)) |}.
Proof.
  unfold F. cbn [s_pos s_end s_rest]. rewrite skipn_add. f_equal; [lia|f_equal; lia].
Qed.

Lemma skip_bytes_F hi f s : SI hi s -> skip_bytes f (F hi s) = F hi (skip_bytes f s) /\ SI hi (skip_bytes f s).
Proof.
  intros H. unfold skip_bytes. cbv zeta.
  assert (E : scan f (s_rest (F hi s)) (N.to_nat (s_end (F hi s) - s_pos (F hi s))) =
              scan f (s_rest s) (N.to_nat (s_end s - s_pos s))).
  { cbn [F s_pos s_end]. replace (s_end s + dd hi - (s_pos s + dd hi)) with (s_end s - s_pos s) by lia.
    rewrite scan_firstn, (scan_firstn f _ (s_rest s)). rewrite (rest_agree_n hi s _ H) by lia. reflexivity. }
  rewrite E. set (n := scan f (s_rest s) (N.to_nat (s_end s - s_pos s))).
  pose proof (scan_le f (N.to_nat (s_end s - s_pos s)) (s_rest s)) as Hn. fold n in Hn.
  destruct H as (Hr & H1 & H2 & H3). split.
  - pose proof (F_move hi s (N.of_nat n)) as M. rewrite Nat2N.id in M. rewrite M. reflexivity.
  - pose proof (SI_move hi s (N.of_nat n) (conj Hr (conj H1 (conj H2 H3))) ltac:(lia)) as M. rewrite Nat2N.id in M. exact M.
Qed.

Lemma skip_spaces_F hi s : SI hi s -> skip_spaces (F hi s) = F hi (skip_spaces s) /\ SI hi (skip_spaces s).
Proof. apply skip_bytes_F. Qed.

Lemma SI_skip_bytes hi f s : SI hi s -> SI hi (skip_bytes f s).
Proof. intros H. apply (skip_bytes_F hi f s H). Qed.

Lemma advance_ps hi n s : SI hi s ->
  psim (fun s' => SI hi s' /\ s_pos s' = s_pos s + n /\ s_end s' = s_end s) (F hi) (advance n s) (advance n (F hi s)).
Proof.
  intros H. unfold advance. cbn [F s_pos s_end].
  replace (s_end s + dd hi <? s_pos s + dd hi + n) with (s_end s <? s_pos s + n) by lia.
  destruct (s_end s <? s_pos s + n) eqn:E; [reflexivity|]. split.
  - split; [apply SI_move; [exact H|lia]|]. cbn [s_pos s_end]. auto.
  - f_equal. rewrite (F_move hi s n). reflexivity.
Qed.

Lemma rest_len_le hi s : SI hi s -> (length (s_rest s) <= length (s_rest (F hi s)))%nat.
Proof.
  intros (Hr & H1 & H2 & H3). rewrite Hr. unfold F. cbn [s_rest]. rewrite !skipn_length.
  unfold tlen, blen in *. rewrite !app_length in *. destruct hi; cbn [dd]; unfold blen; lia.
Qed.

(* what advance keeps *)
Lemma advance_pos n s s' : advance n s = Ok s' -> s_pos s' = s_pos s + n /\ s_end s' = s_end s.
Proof. unfold advance. destruct (_ <? _); [discriminate|]. intros [= <-]. auto. Qed.

(* a successful decoding reads the bytes of the char only *)
Lemma decode1_app a r x : decode1 a = Some x -> decode1 (a ++ r) = Some x.
Proof.
  unfold decode1. destruct a as [|b0 [|b1 [|b2 [|b3 a]]]]; cbn [app]; try discriminate;
    destruct (b0 <? 128); try (intros H; exact H);
    destruct (b0 <? 192); try (intros H; exact H);
    destruct (b0 <? 224); try (intros H; exact H); try discriminate;
    destruct (b0 <? 240); try (intros H; exact H); try discriminate;
    destruct (b0 <? 248); try (intros H; exact H); try discriminate.
Qed.

Lemma decode1_prefix l c n : decode1 l = Some (c, n) -> decode1 (firstn (N.to_nat n) l) = Some (c, n).
Proof.
  unfold decode1. destruct l as [|b0 l]; [discriminate|].
  destruct (b0 <? 128) eqn:E1. { intros [= <- <-]. change (N.to_nat 1) with 1%nat. cbn [firstn]. rewrite E1. reflexivity. }
  destruct (b0 <? 192) eqn:E2; [discriminate|].
  destruct (b0 <? 224) eqn:E3.
  { destruct l as [|b1 l]; [discriminate|]. destruct (is_cont b1) eqn:C1; [|discriminate]. intros [= <- <-].
    change (N.to_nat 2) with 2%nat. cbn [firstn]. rewrite E1, E2, E3, C1. reflexivity. }
  destruct (b0 <? 240) eqn:E4.
  { destruct l as [|b1 [|b2 l]]; try discriminate. destruct (is_cont b1 && is_cont b2) eqn:C1; [|discriminate]. intros [= <- <-].
    change (N.to_nat 3) with 3%nat. cbn [firstn]. rewrite E1, E2, E3, E4, C1. reflexivity. }
  destruct (b0 <? 248) eqn:E5; [|discriminate].
  destruct l as [|b1 [|b2 [|b3 l]]]; try discriminate. destruct (is_cont b1 && is_cont b2 && is_cont b3) eqn:C1; [|discriminate].
  intros [= <- <-]. change (N.to_nat 4) with 4%nat. cbn [firstn]. rewrite E1, E2, E3, E4, E5, C1. reflexivity.
Qed.

Lemma decode1_agree l l' c n : decode1 l = Some (c, n) -> firstn (N.to_nat n) l' = firstn (N.to_nat n) l ->
  decode1 l' = Some (c, n).
Proof.
  intros H E. apply decode1_prefix in H. rewrite <- E in H.
  rewrite <- (firstn_skipn (N.to_nat n) l'). apply decode1_app. exact H.
Qed.

Lemma next_char_F hi s : SI hi s -> next_char (F hi s) = next_char s.
Proof.
  intros H. unfold next_char. rewrite at_end_F. destruct (at_end s) eqn:Ea; [reflexivity|].
  unfold at_end in Ea.
  assert (Hm : forall m, (m <= N.to_nat (s_end s - s_pos s))%nat -> firstn m (s_rest (F hi s)) = firstn m (s_rest s)).
  { intros m Hle. apply rest_agree_n; [exact H|lia]. }
  rewrite s_pos_F, s_end_F.
  assert (Hif : forall n, (s_end s + dd hi <? s_pos s + dd hi + n) = (s_end s <? s_pos s + n)) by (intros; lia).
  destruct (decode1 (s_rest s)) as [[c n]|] eqn:E.
  - destruct (s_end s <? s_pos s + n) eqn:En.
    + destruct (decode1 (s_rest (F hi s))) as [[c' n']|] eqn:E'; [|reflexivity]. rewrite Hif.
      destruct (s_end s <? s_pos s + n') eqn:En'; [reflexivity|]. exfalso.
      pose proof (decode1_agree _ (s_rest s) c' n' E' (eq_sym (Hm (N.to_nat n') ltac:(lia)))) as E2. rewrite E in E2.
      injection E2 as -> ->. lia.
    + rewrite (decode1_agree _ (s_rest (F hi s)) c n E (Hm (N.to_nat n) ltac:(lia))). rewrite Hif, En. reflexivity.
  - destruct (decode1 (s_rest (F hi s))) as [[c' n']|] eqn:E'; [|reflexivity]. rewrite Hif.
    destruct (s_end s <? s_pos s + n') eqn:En'; [reflexivity|]. exfalso.
    pose proof (decode1_agree _ (s_rest s) c' n' E' (eq_sym (Hm (N.to_nat n') ltac:(lia)))) as E2. rewrite E in E2. discriminate.
Qed.

Lemma next_char_n s c n : next_char s = Ok (Some (c, n)) -> s_pos s + n <= s_end s.
Proof.
  unfold next_char. destruct (at_end s); [discriminate|]. destruct (decode1 _) as [[c' n']|]; [|discriminate].
  destruct (s_end s <? s_pos s + n') eqn:E; [discriminate|]. intros [= <- <-]. lia.
Qed.

Lemma err_at_ps {A B} hi s mk (I : A -> Prop) (g : A -> B) : pos_ctor mk -> SI hi s ->
  psim I g (@err_at T1 A s mk) (@err_at T2 B (F hi s) mk).
Proof.
  intros Hmk H. apply both_failP_sim. unfold err_at, gen_text_pos. rewrite s_pos_F.
  apply gen_pos_both; [exact Hmk|].
  destruct H as (_ & H1 & _ & H3). destruct hi; cbn [NS]; lia.
Qed.

(* F3: slices *)
Lemma mk_slice_ps hi a e : NS hi a -> (hi = false -> e + 2 <= P) ->
  psim (fun sl => LS hi sl /\ sl_start sl = a /\ sl_end sl = e) (sh_sl (dd hi))
       (mk_slice T1 a e) (mk_slice T2 (a + dd hi) (e + dd hi)).
Proof.
  intros Ha He. unfold mk_slice. rewrite tlen_T2.
  replace (e + dd hi <? a + dd hi) with (e <? a) by lia.
  destruct (e <? a) eqn:Eea; cbn [orb]; [reflexivity|].
  assert (Ne : NS hi e) by (destruct hi; cbn [NS] in *; [lia|specialize (He eq_refl); lia]).
  rewrite !is_boundary_s by assumption.
  replace (tlen T1 + k <? e + dd hi) with (tlen T1 <? e).
  2:{ destruct hi; cbn [dd NS] in *; [lia|]. pose proof P_le_tlen. lia. }
  destruct (tlen T1 <? e); [reflexivity|]. destruct (_ && _); [|reflexivity].
  split; [|reflexivity]. cbn [sl_start sl_end]. split; [|auto]. unfold LS. cbn [sl_start sl_end].
  split; [lia|]. destruct hi; cbn [NS] in *; lia.
Qed.

Lemma slice_back_ps hi start s : NS hi start -> SI hi s ->
  psim (fun sl => LS hi sl /\ sl_start sl = start /\ sl_end sl = s_pos s) (sh_sl (dd hi))
       (slice_back T1 start s) (slice_back T2 (start + dd hi) (F hi s)).
Proof.
  intros Hst H. unfold slice_back. rewrite s_pos_F. apply mk_slice_ps; [exact Hst|].
  intros ->. destruct H as (_ & H1 & _ & H3). lia.
Qed.

Lemma stream_from_substr_ps hi a e : NS hi a -> (hi = false -> e + 2 <= P) ->
  psim (SI hi) (F hi) (stream_from_substr T1 a e) (stream_from_substr T2 (a + dd hi) (e + dd hi)).
Proof.
  intros Ha He. unfold stream_from_substr. rewrite tlen_T2.
  replace (e + dd hi <? a + dd hi) with (e <? a) by lia.
  destruct (e <? a) eqn:Eea; cbn [orb]; [reflexivity|].
  replace (tlen T1 + k <? e + dd hi) with (tlen T1 <? e).
  2:{ destruct hi; cbn [dd NS] in *; [lia|]. pose proof P_le_tlen. specialize (He eq_refl). lia. }
  destruct (tlen T1 <? e) eqn:El; [reflexivity|]. split; [|reflexivity].
  unfold SI. cbn [s_pos s_end s_rest]. split; [reflexivity|]. split; [lia|]. split; [lia|].
  destruct hi; cbn [NS] in *; [exact Ha|apply He; reflexivity].
Qed.

End Ent.
