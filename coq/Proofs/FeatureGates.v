(* Proofs/FeatureGates.v -- the premise of the `positions` non-interference theorem (C19), re-checked against the
   source on every run.  GeneratedFeatures.v is written by tools/gen_tables.py from every cfg(feature = ..) gate
   of src/*.rs; PositionsNonInterf.strip_node / strip_attr erase nd_range, ad_range, ad_qname_len, ad_eq_len.
   If the source gains a gated field, a gated statement that is not a write to a gated field, a gated branch, or a
   `std` gate on anything but `extern crate std` / `impl std::error::Error`, the translator reports the group as
   untied or one of these equations stops holding. *)
From Coq Require Import List String NArith.
Import ListNotations.
From RX Require Import GeneratedFeatures.
From RX.Model Require Import Base Doc.
From RX.Proofs Require Import PositionsNonInterf.
Open Scope string_scope.

(* the gated fields are exactly the fields of the model's records that strip_* erases *)
Definition stripped_fields : list string := ["eq_len"; "qname_len"; "range"].
Example gated_fields_are_the_stripped_ones : positions_gated_fields = stripped_fields.
Proof. reflexivity. Qed.

(* strip_* erases those and nothing else: two records that agree outside them have the same stripped form *)
Lemma strip_node_only_range : forall nd r, strip_node (Build_node_data (nd_parent nd) (nd_prev_sibling nd) (nd_next_subtree nd)
                                                      (nd_last_child nd) (nd_kind nd) r) = strip_node nd.
Proof. reflexivity. Qed.
Lemma strip_attr_only_positions : forall a r q e, strip_attr (Build_attr_data (ad_ns_idx a) (ad_local a) (ad_value a) r q e) = strip_attr a.
Proof. reflexivity. Qed.

(* the only gated statement is the write to range.end at an element's end tag; cfg(not(positions)) only drops values *)
Example gated_statements : positions_gated_field_writes = 1%nat /\ positions_ungated_drops = 2%nat.
Proof. split; reflexivity. Qed.

(* accessors that exist only with the feature: API surface, no parser behaviour *)
Example gated_accessors : positions_gated_accessors = ["position"; "range"; "range_qname"; "range_value"].
Proof. reflexivity. Qed.

(* `std` adds the Error impl and nothing else *)
Example std_gates : std_gated_items = ["extern crate std;"; "impl std::error::Error for Error"].
Proof. reflexivity. Qed.
