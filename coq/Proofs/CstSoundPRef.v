(* Proofs/CstSoundPRef.v -- C08 soundness WITH A PROLOG AND ENTITIES (stage S5), references to declared
   entities USED in the body: the facts that do not look at the model.
     A. a canonical list of pieces (E.epiece on bytes) is determined by its rendering;
     B. inlining (E.inline_ps) on concatenations, the for_attr flag, traces and the detector;
     C. decoding a canonical byte-level list of pieces into the Unicode pieces of Spec/CstFull.v
        (epieces), with their well-formedness;
     D. the declared entities: first declaration / find_entity. *)
From Coq Require Import String.
From Coq Require Import List Arith NArith Bool Lia ZifyBool ZifyN ZifyNat.
Import ListNotations.
From RX Require Import Generated.
From RX.Model Require Import Base CharClass Stream Tokenizer Doc Builder Parse.
From RX.Spec Require Cst Chars CstU CstNs CstText CstEnt Scope Detector.
From RX.Spec Require Import CstFull CstFullS5.
From RX.Proofs Require Import Tactics CstLex CstULex CstTextLex.
From RX.Proofs Require CstEntText CstEntBuild CstEntRun CstFullS2Sem.
From RX.Proofs Require Import DetectorProofs CstEntSem CstEntMeaning CstEntRejSem CstEntRejLevel CstFullS3Sem CstFullS3Text.
From RX.Proofs Require Import CstSound CstSoundT CstSoundTLex CstSoundULex CstSoundTText.
From RX.Proofs Require Import CstSoundN CstSoundNLex CstSoundNText.
From RX.Proofs Require Import CstSoundP CstSoundPEnt.
Open Scope N_scope.

(* ------------------------------------------------------------------------------------------ *)
(* A. canonical pieces                                                                         *)
(* ------------------------------------------------------------------------------------------ *)
Definition bep_ok (p : E.epiece) : Prop :=
  match p with
  | E.EP pc => piece_ok pc
  | E.ERef nm => uname nm /\ E.is_predef_name nm = false
  end.
Definition beps_ok (ps : list E.epiece) : Prop := Forall bep_ok ps /\ E.no_adjacent_elit ps = true.

Lemma beps_nil : beps_ok [].
Proof. split; [constructor|reflexivity]. Qed.

Lemma beps_tail p ps : beps_ok (p :: ps) -> beps_ok ps.
Proof.
  intros [HF HA]. inversion HF; subst. split; [assumption|].
  destruct ps as [|p2 r]; [reflexivity|].
  change (negb (E.is_elit p && E.is_elit p2) && E.no_adjacent_elit (p2 :: r) = true) in HA. apply andb_true_iff in HA. tauto.
Qed.

Lemma r_epieces_cons p ps : E.r_epieces (p :: ps) = E.r_epiece p ++ E.r_epieces ps.
Proof. reflexivity. Qed.
Lemma r_epieces_app a c : E.r_epieces (a ++ c) = E.r_epieces a ++ E.r_epieces c.
Proof. unfold E.r_epieces. apply flat_map_app. Qed.

(* what a piece that is not a literal looks like: '&' body ';' and the body has no ';' *)
Definition body_of (p : E.epiece) : bytes :=
  match p with
  | E.EP (T.PCharRef hex ds) => [35] ++ (if hex then [120] else []) ++ ds
  | E.EP (T.PPredef pe) => T.predef_name pe
  | E.ERef nm => nm
  | _ => []
  end.

Lemma digits_no59 hex ds : forallb (T.is_digit hex) ds = true -> Forall (fun y => y <> 59) ds.
Proof.
  intros H. apply Forall_forall. intros y Hy ->. rewrite forallb_forall in H. specialize (H _ Hy).
  destruct hex; vm_compute in H; discriminate.
Qed.

Lemma nonlit_shape p : bep_ok p -> E.is_elit p = false ->
  E.r_epiece p = [38] ++ body_of p ++ [59] /\ Forall (fun y => y <> 59) (body_of p) /\ body_of p <> [].
Proof.
  destruct p as [[bs|hex ds|pe|bs]|nm]; cbn [bep_ok piece_ok E.is_elit E.r_epiece T.r_piece body_of]; intros Hp Hl;
    try discriminate; try contradiction.
  - split; [rewrite <- !app_assoc; reflexivity|]. split; [|discriminate].
    unfold T.wf_charref in Hp. apply andb_true_iff in Hp. destruct Hp as [Hp _]. apply andb_true_iff in Hp. destruct Hp as [_ Hd].
    constructor; [lia|]. apply Forall_app. split; [destruct hex; repeat constructor; lia|apply (digits_no59 hex); exact Hd].
  - split; [reflexivity|]. split; destruct pe; cbn; try discriminate; repeat constructor; lia.
  - split; [reflexivity|]. destruct Hp as [Hn _]. destruct (uname_bytes nm Hn) as (_ & Hne & Hb). split; [|exact Hne].
    apply Forall_forall. intros y Hy ->. rewrite forallb_forall in Hb. specialize (Hb _ Hy). discriminate.
Qed.

Lemma HD0 : forall l : list Scope.binding, NoDup l -> incl l [] -> N.of_nat (length l) <= 65535.
Proof. intros l _ Hi. destruct l as [|x l]; [cbn; lia|]. destruct (Hi x (or_introl eq_refl)). Qed.
Lemma uname_first0 n : uname n -> exists x r, n = x :: r /\ x <> 35.
Proof. exact (uname_first [] HD0 n). Qed.

Lemma predef_is_predef pe : E.is_predef_name (T.predef_name pe) = true.
Proof. destruct pe; reflexivity. Qed.
Lemma predef_name_inj a c : T.predef_name a = T.predef_name c -> a = c.
Proof. destruct a, c; cbn; intros H; try reflexivity; discriminate. Qed.

(* the body determines the piece *)
Lemma body_inj p1 p2 : bep_ok p1 -> bep_ok p2 -> E.is_elit p1 = false -> E.is_elit p2 = false ->
  body_of p1 = body_of p2 -> p1 = p2.
Proof.
  intros H1 H2 L1 L2 E.
  assert (DIG : forall hex ds, T.wf_charref hex ds = true -> ds <> [] /\ forallb (T.is_digit hex) ds = true).
  { intros hex ds H. unfold T.wf_charref in H. apply andb_true_iff in H. destruct H as [H _]. apply andb_true_iff in H.
    destruct H as [Hn Hd]. split; [destruct ds; [discriminate|discriminate]|exact Hd]. }
  assert (NAME35 : forall nm, uname nm -> match nm with 35 :: _ => False | _ => True end).
  { intros nm Hn. destruct (uname_first0 nm Hn) as (x & r & -> & Hx). destruct x as [|pp]; [exact I|].
    destruct (N.eq_dec (N.pos pp) 35) as [E35|N35]; [congruence|].
    do 6 (try (destruct pp as [pp|pp|]; try exact I)). exfalso. apply N35. reflexivity. }
  destruct p1 as [[bs1|hex1 ds1|pe1|bs1]|nm1]; cbn [E.is_elit bep_ok piece_ok] in *; try discriminate; try contradiction;
  destruct p2 as [[bs2|hex2 ds2|pe2|bs2]|nm2]; cbn [E.is_elit bep_ok piece_ok body_of] in *; try discriminate; try contradiction.
  - (* two character references *)
    destruct (DIG _ _ H1) as [N1 D1]. destruct (DIG _ _ H2) as [N2 D2]. cbn [app] in E. injection E as E.
    destruct hex1, hex2; cbn [app] in E.
    + injection E as ->. reflexivity.
    + subst ds2. cbn [forallb] in D2. vm_compute in D2. discriminate.
    + subst ds1. cbn [forallb] in D1. vm_compute in D1. discriminate.
    + subst. reflexivity.
  - destruct pe2; discriminate.
  - destruct H2 as [Hn _]. specialize (NAME35 _ Hn). rewrite <- E in NAME35. destruct NAME35.
  - destruct pe1; discriminate.
  - apply predef_name_inj in E. subst. reflexivity.
  - destruct H2 as [_ Hp]. rewrite <- E, predef_is_predef in Hp. discriminate.
  - destruct H1 as [Hn _]. specialize (NAME35 _ Hn). rewrite E in NAME35. destruct NAME35.
  - destruct H1 as [_ Hp]. rewrite E, predef_is_predef in Hp. discriminate.
  - subst. reflexivity.
Qed.

Lemma split_unique0 (q : N) : forall (a c X Y : bytes), a ++ q :: X = c ++ q :: Y ->
  Forall (fun y => y <> q) a -> Forall (fun y => y <> q) c -> a = c.
Proof.
  induction a as [|x a IH]; intros c X Y E Ha Hc.
  - destruct c as [|y c]; [reflexivity|]. cbn [app] in E. injection E as <- _. inversion Hc; congruence.
  - destruct c as [|y c]; cbn [app] in E.
    + injection E as -> _. inversion Ha; congruence.
    + injection E as -> E. inversion Ha; subst. inversion Hc; subst. f_equal. eapply IH; eauto.
Qed.

Lemma lit_prefix_unique : forall (b1 b2 R1 R2 : bytes),
  Forall (fun y => y <> 38) b1 -> Forall (fun y => y <> 38) b2 ->
  (R1 = [] \/ exists t, R1 = 38 :: t) -> (R2 = [] \/ exists t, R2 = 38 :: t) ->
  b1 ++ R1 = b2 ++ R2 -> b1 = b2 /\ R1 = R2.
Proof.
  induction b1 as [|x b1 IH]; intros b2 R1 R2 H1 H2 T1 T2 E.
  - destruct b2 as [|y b2]; [auto|]. cbn [app] in E. inversion H2 as [|? ? Hy _].
    destruct T1 as [E1|(t & E1)]; rewrite E1 in E; [discriminate|]. injection E as E _. congruence.
  - destruct b2 as [|y b2]; cbn [app] in E.
    + inversion H1 as [|? ? Hx _]. destruct T2 as [E2|(t & E2)]; rewrite E2 in E; [discriminate|]. injection E as E _. congruence.
    + injection E as Exy E. inversion H1 as [|? ? _ Hb1]. inversion H2 as [|? ? _ Hb2].
      destruct (IH b2 R1 R2 Hb1 Hb2 T1 T2 E) as [Eb Er]. split; [congruence|exact Er].
Qed.

Lemma rest_shape ps : beps_ok ps -> (match ps with p :: _ => E.is_elit p = false | [] => True end) ->
  E.r_epieces ps = [] \/ exists t, E.r_epieces ps = 38 :: t.
Proof.
  intros [HF _] Hh. destruct ps as [|p r]; [left; reflexivity|right].
  inversion HF; subst. destruct (nonlit_shape p H1 Hh) as (E & _). rewrite r_epieces_cons, E. eexists. reflexivity.
Qed.

Lemma next_nonlit p r bs : p = E.EP (T.PLit bs) -> beps_ok (p :: r) -> match r with p2 :: _ => E.is_elit p2 = false | [] => True end.
Proof.
  intros -> [_ HA]. destruct r as [|p2 r2]; [exact I|].
  change (negb (true && E.is_elit p2) && E.no_adjacent_elit (p2 :: r2) = true) in HA. destruct (E.is_elit p2); [discriminate|reflexivity].
Qed.

Theorem beps_unique : forall ps1 ps2, beps_ok ps1 -> beps_ok ps2 -> E.r_epieces ps1 = E.r_epieces ps2 -> ps1 = ps2.
Proof.
  induction ps1 as [|p1 r1 IH]; intros ps2 H1 H2 E.
  - destruct ps2 as [|p2 r2]; [reflexivity|]. exfalso. destruct H2 as [HF _]. inversion HF; subst.
    rewrite r_epieces_cons in E. cbn in E.
    destruct (E.is_elit p2) eqn:L2.
    + destruct p2 as [[bs| | |]|]; try discriminate. destruct H2 as [Hne _]. cbn in E. destruct bs; [congruence|discriminate].
    + destruct (nonlit_shape p2 H2 L2) as (E2 & _). rewrite E2 in E. discriminate.
  - destruct ps2 as [|p2 r2].
    { exfalso. destruct H1 as [HF _]. inversion HF as [|? ? Hp1 _]; subst. rewrite r_epieces_cons in E. cbn in E.
      destruct (E.is_elit p1) eqn:L1.
      + destruct p1 as [[bs| | |]|]; try discriminate. destruct Hp1 as [Hne _]. cbn in E. destruct bs; [congruence|discriminate].
      + destruct (nonlit_shape p1 Hp1 L1) as (E1 & _). rewrite E1 in E. discriminate. }
    pose proof H1 as [HF1 _]. pose proof H2 as [HF2 _]. inversion HF1 as [|? ? Hp1 _]; subst. inversion HF2 as [|? ? Hp2 _]; subst.
    rewrite !r_epieces_cons in E.
    destruct (E.is_elit p1) eqn:L1; destruct (E.is_elit p2) eqn:L2.
    + destruct p1 as [[bs1| | |]|]; try discriminate. destruct p2 as [[bs2| | |]|]; try discriminate.
      cbn [E.r_epiece T.r_piece] in E. destruct Hp1 as [_ N1]. destruct Hp2 as [_ N2].
      destruct (lit_prefix_unique bs1 bs2 _ _ N1 N2
                  (rest_shape r1 (beps_tail _ _ H1) (next_nonlit _ _ _ eq_refl H1))
                  (rest_shape r2 (beps_tail _ _ H2) (next_nonlit _ _ _ eq_refl H2)) E) as [-> Er].
      f_equal. apply IH; [apply (beps_tail _ _ H1)|apply (beps_tail _ _ H2)|exact Er].
    + exfalso. destruct p1 as [[bs1| | |]|]; try discriminate. destruct Hp1 as [Hne N1].
      destruct (nonlit_shape p2 Hp2 L2) as (E2 & _). rewrite E2 in E. cbn in E. destruct bs1 as [|x t]; [congruence|].
      cbn in E. injection E as -> _. inversion N1; congruence.
    + exfalso. destruct p2 as [[bs2| | |]|]; try discriminate. destruct Hp2 as [Hne N2].
      destruct (nonlit_shape p1 Hp1 L1) as (E1 & _). rewrite E1 in E. cbn in E. destruct bs2 as [|x t]; [congruence|].
      cbn in E. injection E as <- _. inversion N2; congruence.
    + destruct (nonlit_shape p1 Hp1 L1) as (E1 & B1 & _). destruct (nonlit_shape p2 Hp2 L2) as (E2 & B2 & _).
      rewrite E1, E2 in E. rewrite <- !app_assoc in E. cbn [app] in E. injection E as E.
      pose proof (split_unique0 59 _ _ _ _ E B1 B2) as Eb.
      rewrite Eb in E. apply app_inv_head in E. injection E as Er.
      rewrite (body_inj p1 p2 Hp1 Hp2 L1 L2 Eb). f_equal.
      apply IH; [apply (beps_tail _ _ H1)|apply (beps_tail _ _ H2)|exact Er].
Qed.

(* ------------------------------------------------------------------------------------------ *)
(* B. inlining, traces, the detector                                                           *)
(* ------------------------------------------------------------------------------------------ *)
Definition nocr (Q : list T.piece) : Prop := forallb (fun p => negb (E.ends_cr p)) Q = true.

Lemma nocr_app a c : nocr a -> nocr c -> nocr (a ++ c).
Proof. unfold nocr. intros H1 H2. rewrite forallb_app, H1, H2. reflexivity. Qed.
Lemma nocr_mark Q : nocr Q -> nocr (E.mark :: Q).
Proof. unfold nocr. intros H. cbn [forallb]. rewrite H. reflexivity. Qed.

Lemma crlf_app_nocr : forall Q1 Q2, nocr Q1 -> E.crlf_split_ok (Q1 ++ Q2) = E.crlf_split_ok Q2.
Proof.
  induction Q1 as [|p Q1 IH]; intros Q2 H; [reflexivity|]. unfold nocr in H. cbn [forallb] in H. apply andb_true_iff in H.
  destruct H as [Hp H]. cbn [app E.crlf_split_ok]. apply negb_true_iff in Hp. rewrite Hp. cbn [andb]. apply IH. exact H.
Qed.
Lemma nocr_crlf Q : nocr Q -> E.crlf_split_ok Q = true.
Proof. intros H. rewrite <- (app_nil_r Q), (crlf_app_nocr Q [] H). reflexivity. Qed.

Lemma lit_nocr bs : Forall (fun y => y <> 13) bs -> E.ends_cr (T.PLit bs) = false.
Proof.
  intros H. cbn [E.ends_cr]. destruct (rev bs) as [|x t] eqn:Er; [reflexivity|].
  assert (Hin : In x bs) by (apply in_rev; rewrite Er; left; reflexivity).
  rewrite Forall_forall in H. specialize (H _ Hin). lia.
Qed.

Lemma inline_app tb fa ie : forall a c Q1 t1 Q2 t2,
  E.inline_ps tb fa ie a = Some (Q1, t1) -> E.inline_ps tb fa ie c = Some (Q2, t2) ->
  E.inline_ps tb fa ie (a ++ c) = Some (Q1 ++ Q2, t1 ++ t2).
Proof.
  induction a as [|p a IH]; intros c Q1 t1 Q2 t2 H1 H2.
  - cbn [E.inline_ps] in H1. injection H1 as <- <-. exact H2.
  - cbn [app E.inline_ps] in *. destruct p as [q|n].
    + destruct (fa && ie && E.is_lt_ref q); [discriminate|].
      destruct (E.inline_ps tb fa ie a) as [[qa ta]|] eqn:Ea; [|discriminate]. cbn [E.obind fst snd] in H1. injection H1 as <- <-.
      rewrite (IH c _ _ _ _ eq_refl H2). reflexivity.
    + destruct (E.lookup tb n) as [v|]; [|discriminate]. cbn [E.obind] in *.
      destruct (E.x_pieces v) as [qv|]; [|discriminate]. cbn [E.obind] in *.
      destruct (fa && existsb E.is_lt_ref qv); [discriminate|].
      destruct (E.inline_ps tb fa ie a) as [[qa ta]|] eqn:Ea; [|discriminate]. cbn [E.obind fst snd] in H1. injection H1 as <- <-.
      rewrite (IH c _ _ _ _ eq_refl H2). cbn [E.obind fst snd]. cbn [app]. rewrite <- !app_assoc. reflexivity.
Qed.

Lemma inline_false_ie tb ie ie' : forall ps, E.inline_ps tb false ie ps = E.inline_ps tb false ie' ps.
Proof.
  induction ps as [|p ps IH]; [reflexivity|]. cbn [E.inline_ps]. destruct p as [q|n]; cbn [andb]; rewrite IH; reflexivity.
Qed.

Lemma inline_weaken tb ie : forall ps Q tr, E.inline_ps tb true ie ps = Some (Q, tr) -> E.inline_ps tb false ie ps = Some (Q, tr).
Proof.
  induction ps as [|p ps IH]; intros Q tr H; [exact H|]. cbn [E.inline_ps] in *. destruct p as [q|n].
  - destruct (true && ie && E.is_lt_ref q); [discriminate|]. cbn [andb].
    destruct (E.inline_ps tb true ie ps) as [[qa ta]|]; [|discriminate]. rewrite (IH _ _ eq_refl). exact H.
  - destruct (E.lookup tb n) as [v|]; [|discriminate]. cbn [E.obind] in *.
    destruct (E.x_pieces v) as [qv|]; [|discriminate]. cbn [E.obind] in *.
    destruct (true && existsb E.is_lt_ref qv); [discriminate|]. cbn [andb].
    destruct (E.inline_ps tb true ie ps) as [[qa ta]|]; [|discriminate]. rewrite (IH _ _ eq_refl). exact H.
Qed.

Lemma inline_lt tb : forall ps Q tr, E.inline_ps tb true true ps = Some (Q, tr) -> existsb E.is_lt_ref Q = false.
Proof.
  induction ps as [|p ps IH]; intros Q tr H; cbn [E.inline_ps] in H.
  - injection H as <- _. reflexivity.
  - destruct p as [q|n].
    + cbn [andb] in H. destruct (E.is_lt_ref q) eqn:El; [discriminate|].
      destruct (E.inline_ps tb true true ps) as [[qa ta]|]; [|discriminate]. cbn [E.obind fst snd] in H. injection H as <- _.
      cbn [existsb]. rewrite El, (IH _ _ eq_refl). reflexivity.
    + destruct (E.lookup tb n) as [v|]; [|discriminate]. cbn [E.obind] in *.
      destruct (E.x_pieces v) as [qv|]; [|discriminate]. cbn [E.obind andb] in *.
      destruct (existsb E.is_lt_ref qv) eqn:El; [discriminate|].
      destruct (E.inline_ps tb true true ps) as [[qa ta]|]; [|discriminate]. cbn [E.obind fst snd] in H. injection H as <- _.
      cbn [existsb E.mark E.is_lt_ref]. rewrite existsb_app, El. cbn [existsb E.is_lt_ref orb]. apply (IH _ _ eq_refl).
Qed.

Lemma balT_level decls : forall k, BalT (E.level decls k).
Proof.
  induction k as [|k IH]; intros n v Hl; rewrite lookup_level in Hl; [discriminate|].
  destruct (first_decl decls n) as [d|]; [|discriminate]. apply (bal_value (E.level decls k) IH _ _ Hl).
Qed.

Lemma ld_run_bal tr : Bal tr -> forall ld ld', ld_run ld tr = Some ld' -> ld_depth ld' = ld_depth ld.
Proof.
  induction 1 as [|a c _ IHa _ IHc|t r _ IHt _ IHr]; intros ld ld' H.
  - cbn in H. injection H as <-. reflexivity.
  - rewrite ld_run_app in H. destruct (ld_run ld a) as [l1|] eqn:E1; [|discriminate].
    rewrite (IHc _ _ H). apply (IHa _ _ E1).
  - cbn [ld_run] in H. destruct (ld_enter ld) as [l1|] eqn:Ee; [|discriminate]. destruct (enter_d _ _ Ee) as [D1 _].
    rewrite ld_run_app in H. destruct (ld_run l1 t) as [l2|] eqn:E2; [|discriminate]. cbn [ld_run] in H.
    pose proof (IHt _ _ E2) as D2. rewrite (IHr _ _ H), dec_d by lia. lia.
Qed.

Lemma limits_of_run tr ld' : Bal tr -> ld_run ld_init tr = Some ld' -> limits_ok tr = true.
Proof.
  intros Hb H. unfold limits_ok. apply (detector_sound tr ld' H). rewrite (Bal_depth tr Hb). discriminate.
Qed.

Lemma run_of_limits tr : Bal tr -> limits_ok tr = true -> ld_run ld_init tr = Some ld_init.
Proof.
  intros Hb H. destruct (detector_complete tr H) as (st & Hr). rewrite Hr. f_equal.
  apply (CstEntBuild.ld_run_init tr st Hr). rewrite (ld_run_bal tr Hb _ _ Hr). reflexivity.
Qed.

Lemma limits_app t1 t2 : Bal t1 -> Bal t2 -> limits_ok t1 = true -> limits_ok t2 = true -> limits_ok (t1 ++ t2) = true.
Proof.
  intros B1 B2 L1 L2. apply (limits_of_run _ ld_init (Bal_app _ _ B1 B2)).
  rewrite ld_run_app, (run_of_limits t1 B1 L1). apply (run_of_limits t2 B2 L2).
Qed.

(* from a deeper table down to level 10, when the detector runs through the trace *)
Lemma lower decls fa ie ps Q tr ld ld' : forall n,
  E.inline_ps (E.level decls (n + 10)) fa ie ps = Some (Q, tr) -> ld_run ld tr = Some ld' ->
  E.inline_ps (E.level decls 10) fa ie ps = Some (Q, tr).
Proof.
  induction n as [|n IH]; intros H Hr; [exact H|]. apply IH; [|exact Hr].
  change (S n + 10)%nat with (S (n + 10)) in H.
  destruct (down_ps decls (n + 10) (IHdown decls (n + 10)) fa ie ps _ _ _ _ H Hr ltac:(lia)) as [E1 _]. exact E1.
Qed.

(* ------------------------------------------------------------------------------------------ *)
(* D. the declared entities                                                                    *)
(* ------------------------------------------------------------------------------------------ *)
Lemma find_entity_first text n en : forall decls es, Forall2 (uent_ok text) decls es ->
  find_entity text es n = Some en -> exists d, first_decl decls n = Some d /\ uent_ok text d en.
Proof.
  induction 1 as [|d0 e0 ds es' H0 _ IH]; intros Hf; [discriminate|].
  unfold first_decl in *. cbn [find find_entity] in *. destruct H0 as [Hn Hv].
  rewrite Hn, <- CstEntText.beq_bytes_eqb in Hf. destruct (E.beq (E.e_name d0) n).
  - injection Hf as <-. exists d0. split; [reflexivity|]. split; assumption.
  - apply IH. exact Hf.
Qed.

Lemma first_decl_in decls n d : first_decl decls n = Some d -> In d decls /\ E.e_name d = n.
Proof.
  unfold first_decl. intros H. apply find_some in H. destruct H as [Hin Hb]. split; [exact Hin|].
  unfold E.beq in Hb. destruct (list_eq_dec N.eq_dec (E.e_name d) n); [assumption|discriminate].
Qed.

(* ------------------------------------------------------------------------------------------ *)
(* C. decoding canonical byte pieces into the Unicode pieces of Spec/CstFull.v                 *)
(* ------------------------------------------------------------------------------------------ *)
Definition elit_in (cs : list N) (p : E.epiece) : Prop :=
  match p with E.EP q => lit_in cs q | E.ERef _ => True end.
Definition eref_ok (p : E.epiece) : Prop :=
  match p with E.ERef n => CstU.wf_name n = true /\ E.is_predef_name n = false | _ => True end.

Lemma elit_in_pre a cs p : elit_in cs p -> elit_in (a ++ cs) p.
Proof. destruct p; cbn [elit_in]; auto. apply lit_in_pre. Qed.

Lemma predef_name_ascii pe : Forall (fun y => y < 128) (T.predef_name pe).
Proof. destruct pe; cbn; repeat constructor; lia. Qed.

Lemma is_predef_dec n : E.is_predef_name n = true -> exists pe, n = T.predef_name pe.
Proof.
  unfold E.is_predef_name. intros H. apply existsb_exists in H. destruct H as (pe & _ & Hb). exists pe.
  unfold E.beq in Hb. destruct (list_eq_dec N.eq_dec (T.predef_name pe) n); [auto|discriminate].
Qed.

Lemma predef_unicode n : E.is_predef_name (utf8s n) = false -> E.is_predef_name n = false.
Proof.
  intros H. destruct (E.is_predef_name n) eqn:E; [|reflexivity]. destruct (is_predef_dec n E) as (pe & ->).
  rewrite (utf8s_ascii_id _ (predef_name_ascii pe)), predef_is_predef in H. discriminate.
Qed.

Lemma decode_epieces : forall ps cs, utf8s cs = E.r_epieces ps -> beps_ok ps ->
  exists ps', enc_epieces ps' = ps /\ Forall (elit_in cs) ps' /\ Forall eref_ok ps'.
Proof.
  induction ps as [|p ps IH]; intros cs E Hok; [exists []; split; [reflexivity|split; constructor]|].
  pose proof Hok as [HFo HA]. inversion HFo as [|? ? Hp Hps]; subst.
  pose proof (beps_tail _ _ Hok) as Hok'. rewrite r_epieces_cons in E.
  destruct (E.is_elit p) eqn:El.
  - destruct p as [[bs| | |]|]; try discriminate. cbn [E.r_epiece T.r_piece] in E. destruct Hp as [Hne H38].
    destruct (rest_shape ps Hok' (next_nonlit _ _ _ eq_refl Hok)) as [Er|(t & Er)].
    + rewrite Er, app_nil_r in E. assert (ps = []).
      { destruct ps as [|p2 r]; [reflexivity|]. exfalso. rewrite r_epieces_cons in Er. inversion Hps as [|? ? Hp2 _]; subst.
        pose proof (next_nonlit _ _ _ eq_refl Hok) as L2. cbn beta iota in L2.
        destruct (nonlit_shape p2 Hp2 L2) as (E2 & _). rewrite E2 in Er. discriminate. }
      subst ps. exists [E.EP (T.PLit cs)]. split; [cbn; rewrite E; reflexivity|]. split; [|constructor; [exact I|constructor]].
      constructor; [|constructor]. exists [], []. rewrite app_nil_r. reflexivity.
    + rewrite Er in E. destruct (utf8s_split_at 38 ltac:(lia) _ _ _ E H38) as (cs1 & cs2 & -> & E1 & E2).
      destruct (IH (38 :: cs2)) as (ps' & Eps & Hin & Hrf).
      { rewrite utf8s_cons, (utf8_ascii 38) by lia. cbn [app]. rewrite E2, Er. reflexivity. }
      { exact Hok'. }
      exists (E.EP (T.PLit cs1) :: ps'). split; [cbn [enc_epieces map enc_epiece enc_piece]; rewrite E1; f_equal; exact Eps|].
      split; [|constructor; [exact I|exact Hrf]].
      constructor; [exists [], (38 :: cs2); reflexivity|].
      eapply Forall_impl; [|exact Hin]. intros q0. apply elit_in_pre.
  - destruct p as [pc|nm].
    + cbn [bep_ok] in Hp. cbn [E.is_elit] in El.
      assert (Elp : T.is_lit pc = false) by (destruct pc; try reflexivity; discriminate).
      destruct (ref_piece_ascii pc Hp Elp) as (Hasc & _). cbn [E.r_epiece] in E.
      destruct (utf8s_ascii_prefix _ _ _ Hasc E) as (cs' & -> & E').
      destruct (IH cs' E' Hok') as (ps' & Eps & Hin & Hrf).
      exists (E.EP pc :: ps'). split.
      { cbn [enc_epieces map enc_epiece]. f_equal; [|exact Eps]. f_equal.
        destruct pc as [bs| | |bs]; cbn in Elp, Hp; try reflexivity; [discriminate|destruct Hp]. }
      split; [|constructor; [exact I|exact Hrf]].
      constructor; [destruct pc; cbn in Elp; try exact I; discriminate|].
      eapply Forall_impl; [|exact Hin]. intros q0. apply elit_in_pre.
    + destruct Hp as [Hn Hpd]. cbn [E.r_epiece] in E. rewrite <- !app_assoc in E. cbn [app] in E.
      destruct (utf8s_ascii_prefix [38] cs _ ltac:(repeat constructor; lia) E) as (cs0 & -> & E0).
      destruct (uname_bytes nm Hn) as (_ & _ & Hb).
      assert (H59 : Forall (fun y => y <> 59) nm).
      { apply Forall_forall. intros y Hy ->. rewrite forallb_forall in Hb. specialize (Hb _ Hy). discriminate. }
      destruct (utf8s_split_at 59 ltac:(lia) _ _ _ E0 H59) as (cs1 & cs2 & -> & E1 & E2).
      destruct (IH cs2 E2 Hok') as (ps' & Eps & Hin & Hrf).
      destruct Hn as (n' & -> & Hwf).
      exists (E.ERef n' :: ps'). split; [cbn [enc_epieces map enc_epiece]; f_equal; exact Eps|]. split.
      * constructor; [exact I|]. eapply Forall_impl; [|exact Hin]. intros q0 Hq0.
        change ([38] ++ cs1 ++ 59 :: cs2) with (([38] ++ cs1 ++ [59]) ++ cs2) || idtac.
        replace ([38] ++ cs1 ++ 59 :: cs2) with (([38] ++ cs1 ++ [59]) ++ cs2) by (rewrite <- !app_assoc; reflexivity).
        apply elit_in_pre. exact Hq0.
      * constructor; [|exact Hrf]. split; [exact Hwf|apply predef_unicode; exact Hpd].
Qed.

Lemma ulit_ok q cs l : q < 128 -> uchars cs -> Forall (fun x => x <> 60 /\ x <> q) cs ->
  (exists pre post, cs = pre ++ l ++ post) -> utf8s l <> [] -> Forall (fun y => y <> 38) (utf8s l) -> wf_ulit q l = true.
Proof.
  intros Hq Hu Hb (pre & post & ->) Hne H38. unfold wf_ulit.
  assert (Hlne : l <> []) by (eapply enc_lit_ne; [reflexivity|exact Hne]).
  destruct l as [|x0 l0]; [congruence|]. cbn [andb].
  pose proof (uchars_xml _ (uchars_sub _ _ _ Hu)) as Hx. pose proof (Forall_sub _ _ _ _ Hb) as Hb'.
  pose proof (scalars_ne 38 _ ltac:(lia) H38) as N38.
  apply forallb_forall. intros y Hy. rewrite forallb_forall in Hx. rewrite Forall_forall in Hb', N38.
  rewrite (Hx y Hy). destruct (Hb' y Hy). specialize (N38 y Hy). cbn [andb]. lia.
Qed.

Lemma enc_in ps' p : In p ps' -> In (enc_epiece p) (enc_epieces ps').
Proof. apply in_map. Qed.

Lemma decoded_evalue q v ps : q < 128 -> uchars v -> Forall (fun x => x <> 60 /\ x <> q) v ->
  utf8s v = E.r_epieces ps -> beps_ok ps ->
  exists ps', enc_epieces ps' = ps /\ wf_uepieces q false false false ps' = true.
Proof.
  intros Hq Hu Hb E Hok. destruct (decode_epieces ps v E Hok) as (ps' & Eps & Hin & Hrf).
  exists ps'. split; [exact Eps|]. subst ps. unfold wf_uepieces. apply andb_true_iff. split.
  - apply forallb_forall. intros pc Hpc. destruct Hok as [HFo _]. rewrite Forall_forall in HFo, Hin, Hrf.
    pose proof (HFo _ (enc_in _ _ Hpc)) as Hp. pose proof (Hin _ Hpc) as Hl. pose proof (Hrf _ Hpc) as Hr.
    destruct pc as [[l|hex ds|pe|l]|n]; cbn [wf_uepiece wf_uvpiece enc_epiece enc_piece bep_ok piece_ok elit_in lit_in eref_ok andb] in *.
    + destruct Hp as [Hne H38]. rewrite (ulit_ok q v l Hq Hu Hb Hl Hne H38). reflexivity.
    + rewrite Hp. reflexivity.
    + reflexivity.
    + destruct Hp.
    + destruct Hr as [-> ->]. reflexivity.
  - rewrite <- enc_no_adjacent_elit. apply Hok.
Qed.

Lemma decoded_etext cs ps : raw_text_ok_n cs -> utf8s cs = E.r_epieces ps -> beps_ok ps ->
  exists ps', enc_epieces ps' = ps /\ forallb (wf_uepiece 60 true true false) ps' = true /\
              E.no_adjacent_elit ps' = true /\ ps' <> [].
Proof.
  intros (Hne & Hu & H60 & Hc) E Hok. destruct (decode_epieces ps cs E Hok) as (ps' & Eps & Hin & Hrf).
  exists ps'. split; [exact Eps|]. subst ps. split; [|split].
  - apply forallb_forall. intros pc Hpc. destruct Hok as [HFo _]. rewrite Forall_forall in HFo, Hin, Hrf.
    pose proof (HFo _ (enc_in _ _ Hpc)) as Hp. pose proof (Hin _ Hpc) as Hl. pose proof (Hrf _ Hpc) as Hr.
    assert (Hb : Forall (fun x => x <> 60 /\ x <> 60) cs) by (eapply Forall_impl; [|exact H60]; cbv beta; auto).
    destruct pc as [[l|hex ds|pe|l]|n]; cbn [wf_uepiece wf_utpiece wf_uvpiece enc_epiece enc_piece bep_ok piece_ok elit_in lit_in eref_ok andb] in *.
    + destruct Hp as [Hn0 H38]. rewrite (ulit_ok 60 cs l ltac:(lia) Hu Hb Hl Hn0 H38). cbn [andb]. rewrite ?andb_true_r.
      apply negb_true_iff. destruct Hl as (pre & post & Ecs). rewrite contains_eq. rewrite Ecs in Hc.
      eapply contains_mid; [discriminate|exact Hc].
    + rewrite Hp. reflexivity.
    + reflexivity.
    + destruct Hp.
    + destruct Hr as [-> ->]. reflexivity.
  - rewrite <- enc_no_adjacent_elit. apply Hok.
  - intros ->. cbn in E. destruct cs as [|c0 cs0]; [congruence|]. rewrite utf8s_cons in E.
    destruct (utf8_nonempty c0 (utf8s cs0)) as (b0 & t & Eb). rewrite Eb in E. discriminate.
Qed.

(* the byte pieces of a decoded list are those of the completeness side *)
Lemma decoded_uep q cd ch ps' : q < 128 -> forallb (wf_uepiece q cd ch false) ps' = true ->
  Forall (fun p => CstEntRun.is_ecdata p = false) ps' -> Forall (uep_ok false) (enc_epieces ps').
Proof.
  intros Hq H Hc. apply Forall_forall. intros p Hp. unfold enc_epieces in Hp. apply in_map_iff in Hp. destruct Hp as (p' & <- & Hin).
  rewrite forallb_forall in H. rewrite Forall_forall in Hc.
  exact (proj1 (uepiece_ok q cd ch false p' Hq (H _ Hin) (Hc _ Hin))).
Qed.

(* ------------------------------------------------------------------------------------------ *)
(* E. the parts of a text run and its well-formedness                                          *)
(* ------------------------------------------------------------------------------------------ *)
Section Parts.
Variable decls : list E.edecl.
Notation tb := (E.level decls E.max_level).

Definition erun_parts (ps : list E.epiece) : Prop :=
  forallb (wf_uepiece 60 true true false) ps = true /\ E.no_adjacent_elit ps = true /\ ps <> [] /\
  exists Q tr, E.inline_ps tb false false (enc_epieces ps) = Some (Q, tr) /\ limits_ok tr = true /\ nocr Q.

Lemma wf_erun_intro ps : erun_parts ps -> wf_erun tb ps = true.
Proof.
  intros (A & B & C & Q & tr & Hi & Hl & Hn). unfold wf_erun, wf_uepieces. rewrite A, B, Hi, Hl, (nocr_crlf Q Hn).
  destruct ps; [congruence|reflexivity].
Qed.

Lemma wf_erun_no_adj qs : wf_erun tb qs = true -> E.no_adjacent_elit qs = true.
Proof.
  unfold wf_erun, wf_uepieces. intros H. apply andb_true_iff in H. destruct H as [H _]. apply andb_true_iff in H. destruct H as [_ H].
  apply andb_true_iff in H. tauto.
Qed.

Lemma enc_epieces_app a c : enc_epieces (a ++ c) = enc_epieces a ++ enc_epieces c.
Proof. unfold enc_epieces. apply map_app. Qed.

Lemma wf_erun_merge ps qs : erun_parts ps -> wf_erun tb qs = true -> E.no_adjacent_elit (ps ++ qs) = true ->
  wf_erun tb (ps ++ qs) = true.
Proof.
  intros (A & B & C & Q & tr & Hi & Hl & Hn) Hq Hadj. unfold wf_erun, wf_uepieces in *.
  apply andb_true_iff in Hq. destruct Hq as [Hq Q3]. apply andb_true_iff in Hq. destruct Hq as [_ Q2].
  apply andb_true_iff in Q2. destruct Q2 as [Q2 _].
  destruct (E.inline_ps tb false false (enc_epieces qs)) as [[Q' tr']|] eqn:Hi'; [|discriminate].
  apply andb_true_iff in Q3. destruct Q3 as [L2 C2].
  rewrite forallb_app, A, Q2, Hadj, enc_epieces_app, (inline_app _ _ _ _ _ _ _ _ _ Hi Hi').
  rewrite (limits_app tr tr' (bal_ps _ (balT_level decls _) _ _ _ _ _ Hi) (bal_ps _ (balT_level decls _) _ _ _ _ _ Hi') Hl L2).
  rewrite (crlf_app_nocr Q Q' Hn), C2. destruct ps; [congruence|reflexivity].
Qed.

Lemma erun_parts_cdata cs : wf_utpiece (T.PCData cs) = true -> erun_parts [E.EP (T.PCData cs)].
Proof.
  intros H. split; [cbn [forallb wf_uepiece]; rewrite H; reflexivity|]. split; [reflexivity|]. split; [discriminate|].
  exists [T.PCData (utf8s cs)], []. split; [reflexivity|]. split; reflexivity.
Qed.
End Parts.
