(* Proofs/CstFullD15Sanity.v -- the hypotheses of [d15_rejected] (Proofs/CstFullD15Main.v) are satisfiable: a boolean version
   ([hypsD]) holds, by computation, of the D15 input itself and of further documents (things read before the failure: siblings,
   entries of the same tag, a reference to a character-data entity in the same value; the offending element two entities
   deep; namespaces with prefixes bound at the place of the reference; the full prolog), so that their rejection with
   InvalidAttributeValue is an INSTANCE of the theorem. *)
From Coq Require Import Ascii String.
From Coq Require Import List NArith PeanoNat Bool Lia ZifyBool ZifyN ZifyNat.
Import ListNotations.
From RX Require Import Generated.
From RX.Model Require Import Base CharClass Stream Tokenizer Doc Builder Parse.
From RX.Spec Require Cst CstText CstEnt Detector CstNs CstU.
From RX.Spec Require Import Text CstFull CstFullS4 CstFullS6.
From RX.Proofs Require Import CstNsView CstFullMain CstFullS4Sem CstFullS6Sanity.
From RX.Proofs Require Import CstFullRejSem CstFullRejMain CstFullRejSanity KnownFindingsD15 CstFullD15Main.
From RX.Proofs Require CstFullS4Main.
Open Scope N_scope.

Definition hypsD (c : S6.doc) (opt : options) : bool :=
  wf_syntax6 c && (negb (S6.has_dtd c) || allow_dtd opt) && negb (is_some (S4.inline (S6.core c))) &&
  match ninline6 c with
  | Some (cN, tr) =>
    Detector.within_limits 10 255 0 0 tr && provisos_item (d_root cN) && forallb (ns_ok []) (den bmeaning (d_root cN)) &&
    (N.of_nat (length (usem6 c cN)) <? nodes_limit opt) && (N.of_nat (length (usem6 c cN)) <? u32_max) &&
    (N.of_nat (CstFullS4Main.vattrs (usem6 c cN)) <? u32_max) &&
    (length (doc_decls bmeaning cN) <=? N.to_nat 65535)%nat &&
    (1 + N.of_nat (CstFull.ns_cost bmeaning cN) <=? u32_max)
  | None => false
  end.

Theorem d15_rejected_b c opt : hypsD c opt = true -> exists pos, parse (S6.render c) opt = Err (InvalidAttributeValue pos).
Proof.
  unfold hypsD. intros H. destruct (ninline6 c) as [[cN tr]|] eqn:Hi; [|rewrite andb_false_r in H; discriminate].
  rewrite !andb_true_iff in H. destruct H as [[[H1 H2] H0] [[[[[[[H3 H4] H5] H6] H7] H8] H9] H10]].
  apply (d15_rejected c opt cN tr); try assumption; try lia.
  - destruct (S4.inline (S6.core c)); [discriminate|reflexivity].
  - intros Hd. rewrite Hd in H2. exact H2.
  - apply distinct_by_count. apply Nat.leb_le. exact H9.
Qed.

(* the input of the finding *)
Example d15_itself : S6.render d15_doc = d15_text /\ exists pos, parse d15_text opt_dtd = Err (InvalidAttributeValue pos).
Proof.
  assert (E : S6.render d15_doc = d15_text) by (vm_compute; reflexivity). split; [exact E|].
  rewrite <- E. apply d15_rejected_b. vm_compute. reflexivity.
Qed.

Example d15_family_instances :
  forallb (fun c => hypsD c opt_dtd)
    [d15_variant [E.EP (T.PPredef T.Lt)] false; d15_variant [lit (b "x"); E.EP (T.PPredef T.Lt); lit (b "y")] false;
     d15_variant [E.EP (T.PPredef T.Lt)] true] = true.
Proof. vm_compute. reflexivity. Qed.

(* things read before the failure *)
Definition XT n v := XEntity (xd n (X4.XText v)).
Definition XC n its := XEntity (xd n (X4.XContent its)).
Definition lt := E.EP (T.PPredef T.Lt).
Definition busy : S6.doc :=
  with_sub [XT (b "t") [lit (b "T"); E.EP (T.PPredef T.Amp)];
            XC (b "ok") [em p_ (b "fine") [at1 p_ (b "k") [rf (b "t")]]; tx [rf (b "t")]];
            XC (b "bad") [em [] (b "s") []; tx [lit (b "text")];
                          el p_ (b "x") [dc1 (b "q") [rf (b "t")]; at1 (b "q") (b "a") [lit (b "1")]; at1 [] (b "b") [rf (b "t"); lit (b "-"); lt; lit (b "z")]; at1 [] (b "c") [lt]]
                             [tx [rf (b "ok")]]]]
           (el [] (b "r") [dc1 p_ [lit (b "urn:p")]] [tx [rf (b "ok"); lit (b "mid")]; em [] (b "sib") [at2 [] (b "a") [lt]]; tx [rf (b "bad")]]).
Example busy_rejected : exists pos, parse (S6.render busy) opt_dtd = Err (InvalidAttributeValue pos).
Proof. apply d15_rejected_b. vm_compute. reflexivity. Qed.

(* the everything-at-once document ex1 of Proofs/CstFullS6Sanity.v with &lt; added to the attribute p:a of the element inside
   the markup entity m *)
Definition subset_d15 : subset6 :=
  {| zu_decls := map (fun s => match s with
                               | XEntity e => if list_eq_dec N.eq_dec (X4.x_name e) (b "m")
                                              then XEntity (xd (b "m") (X4.XContent [ em p_ (b "x") [dc1 p_ [lit (b "inner")]; at1 p_ (b "a") [rf (b "u"); lt]];
                                                                                       tx [lit (b " text ")];
                                                                                       el (b "q") (b "y") [] [tx [rf (b "u")]] ])) else s
                               | _ => s end) (zu_decls subset1);
     zu_ws3 := zu_ws3 subset1; zu_ws4 := zu_ws4 subset1 |}.
Definition ex1_d15 : S6.doc :=
  {| S6.x_bom := S6.x_bom ex1; S6.x_decl := S6.x_decl ex1;
     S6.x_dtd := match S6.x_dtd ex1 with
                 | Some g => Some {| S6.g_ws0 := S6.g_ws0 g; S6.g_before := S6.g_before g;
                                     S6.g_dtd := {| z_ws1 := z_ws1 (S6.g_dtd g); z_name := z_name (S6.g_dtd g); z_ws2 := z_ws2 (S6.g_dtd g);
                                                    z_ext := z_ext (S6.g_dtd g); z_subset := Some subset_d15 |} |}
                 | None => None end;
     S6.x_main := S6.x_main ex1 |}.
Example ex1_d15_rejected : exists pos, parse (S6.render ex1_d15) opt_dtd = Err (InvalidAttributeValue pos).
Proof. apply d15_rejected_b. vm_compute. reflexivity. Qed.

(* the same attribute in the document itself (not inside an entity value) is fine: the class is about entity values *)
Example lt_at_top_accepted :
  S6.wf_doc (with_sub [] (em [] (b "r") [at2 [] (b "a") [lt]])) = true /\ d15_class (with_sub [] (em [] (b "r") [at2 [] (b "a") [lt]])) = false.
Proof. split; vm_compute; reflexivity. Qed.

Print Assumptions d15_rejected_b.
Print Assumptions busy_rejected.
Print Assumptions ex1_d15_rejected.
