(* Proofs/ApiView.v -- what a USER of the crate observes of a parsed document: the view of Proofs/CstNsView.v (and the
   namespace-free one of Proofs/CstMain.v) computed with functions of the public API only (Model/Api.v, Model/Doc.v,
   and the two accessors of Proofs/ApiViewAcc.v) -- no field of the arena is read here.  The nodes are the items of
   Descendants of the root (document order), the Root itself is skipped; for an element: tag_name() (namespace URI
   through the API), the Attributes iterator with each attribute's (namespace, local name, value), the namespaces()
   iterator with each (prefix, URI), the number of items of children(); for the other kinds text() / pi().
   Definitions only. *)
From Coq Require Import List NArith Bool.
Import ListNotations.
From RX.Model Require Import Base Stream Tokenizer Doc Builder Api.
From RX.Spec Require Scope Cst CstNs.
From RX.Proofs Require Import ApiViewAcc.
Open Scope N_scope.

Definition res_opt {A} (r : res A) : option A := match r with Ok a => Some a | _ => None end.

(* for item in iterator { ... }? *)
Fixpoint mapM {A B} (f : A -> res B) (l : list A) : res (list B) :=
  match l with
  | [] => Ok []
  | x :: r => let! y := f x in let! ys := mapM f r in Ok (y :: ys)
  end.

Section WithText.
Variable text : bytes.
Variable d : document.

(* Attribute::namespace(), name(), value() of the attribute the iterator yields *)
Definition api_attr (i : N) : res (option bytes * bytes * bytes) :=
  let! a := attr_at d i in
  let! n := attr_ename text d a in
  Ok (fst n, snd n, storage_bytes text (ad_value a)).

(* Namespace::name(), uri() of the namespace the iterator yields *)
Definition api_binding (p : N) : res Scope.binding :=
  let! v := namespace_at d p in
  Ok (ns_name_bytes text v, storage_bytes text (ns_uri v)).

Definition api_text (id : N) : res bytes :=
  let! s := text_storage d id in
  match s with Some st => Ok (storage_bytes text st) | None => Panic P_unwrap end.

Definition api_pi (id : N) : res (bytes * option bytes) :=
  let! p := pi text d id in
  match p with Some x => Ok x | None => Panic P_unwrap end.

(* ---- the namespace-aware view ---- *)
Definition api_node (id : N) : res (option CstNs.vnode) :=
  let! ty := node_type d id in
  match ty with
  | NtRoot => Ok None
  | NtElement =>
    let! tn := tag_name text d id in
    let! ait := attributes d id in
    let! attrs := mapM api_attr (sit_list ait) in
    let! nit := namespaces d id in
    let! sc := mapM api_binding (sit_list nit) in
    let! ch := children_list d id in
    Ok (Some (CstNs.VElem (fst tn) (snd tn) attrs sc (length ch)))
  | NtPI => let! p := api_pi id in Ok (Some (CstNs.VPI (fst p) (snd p)))
  | NtComment => let! s := api_text id in Ok (Some (CstNs.VComment s))
  | NtText => let! s := api_text id in Ok (Some (CstNs.VText s))
  end.

Fixpoint api_nodes (ids : list N) : res (list CstNs.vnode) :=
  match ids with
  | [] => Ok []
  | id :: r =>
    let! o := api_node id in
    let! vs := api_nodes r in
    Ok (match o with Some v => v :: vs | None => vs end)
  end.

Definition api_view_res : res (list CstNs.vnode) :=
  let! it := descendants d 0 in api_nodes (sit_list it).

(* ---- the namespace-free view (local names only) ---- *)
Definition api_attr0 (i : N) : res (bytes * bytes) :=
  let! a := attr_at d i in
  let! n := attr_ename text d a in
  Ok (snd n, storage_bytes text (ad_value a)).

Definition api_node0 (id : N) : res (option Cst.vnode) :=
  let! ty := node_type d id in
  match ty with
  | NtRoot => Ok None
  | NtElement =>
    let! tn := tag_name text d id in
    let! ait := attributes d id in
    let! attrs := mapM api_attr0 (sit_list ait) in
    let! ch := children_list d id in
    Ok (Some (Cst.VElem (snd tn) attrs (length ch)))
  | NtPI => let! p := api_pi id in Ok (Some (Cst.VPI (fst p) (snd p)))
  | NtComment => let! s := api_text id in Ok (Some (Cst.VComment s))
  | NtText => let! s := api_text id in Ok (Some (Cst.VText s))
  end.

Fixpoint api_nodes0 (ids : list N) : res (list Cst.vnode) :=
  match ids with
  | [] => Ok []
  | id :: r =>
    let! o := api_node0 id in
    let! vs := api_nodes0 r in
    Ok (match o with Some v => v :: vs | None => vs end)
  end.

Definition api_view0_res : res (list Cst.vnode) :=
  let! it := descendants d 0 in api_nodes0 (sit_list it).

End WithText.

Definition api_view (text : bytes) (d : document) : option (list CstNs.vnode) := res_opt (api_view_res text d).
Definition api_view0 (text : bytes) (d : document) : option (list Cst.vnode) := res_opt (api_view0_res text d).
