(* Proofs/CstRangeG5Doc.v -- C13 / C18 on the capstone fragment, stage S5: the misc loop of CstFullS5Doc.v with the
   observations of CstRangeG5Items.v, and where the items of a document written at an offset are. *)
From Coq Require Import Ascii String.
From Coq Require Import List NArith PeanoNat Bool Lia ZifyBool ZifyN ZifyNat.
Import ListNotations.
From RX Require Import Generated.
From RX.Model Require Import Base CharClass Stream Tokenizer Doc Builder Parse.
From RX.Spec Require Cst Scope CstNs CstU Chars.
From RX.Spec Require Import CstFull CstFullS5.
From RX.Proofs Require Import Tactics CstLex CstBuild CstNsLex CstNsView CstNsBuild CstULex CstFullLex CstFullBuild CstFullTree CstFullDoc.
From RX.Proofs Require Import CstFullS5Ws CstFullS5Lex CstFullS5Items CstFullS5Doc.
From RX.Proofs Require CstItems CstNsItems CstNsDoc CstUItems CstUDoc CstDoc.
From RX.Proofs Require Import CstRangeDefs CstRangeBuild CstRangeTDefs CstRangeTBuild CstRangeFDefs CstRangeFBuild CstRangeFItems CstRangeFDoc CstRangeGDefs.
From RX.Proofs Require CstRangeG5Items.
Open Scope N_scope.

Ltac clia := repeat match goal with H : @eq bool _ true |- _ => clear H end; lia.

(* ---- where the items of a misc loop / of a document are (only "comment or PI" is used) ---- *)
Section Where.
Variable Sy : syntax.
Notation item := (CstFull.item Sy).
Notation fpairs_at := (CstRangeFDoc.fpairs_at Sy).

Lemma fpairs_at_regroup_m : forall (l : list (item * bytes)) p w0,
  forallb (fun x => is_misc Sy (fst x)) l = true ->
  fpairs_at p (regroup w0 l) = fbefore_at Sy (p + nlen w0) l.
Proof.
  induction l as [|[i w] r IH]; intros p w0 H; cbn [regroup CstRangeFDoc.fpairs_at fbefore_at]; [reflexivity|].
  cbn [forallb fst snd] in H. apply andb_true_iff in H. destruct H as [H1 H4].
  rewrite (CstRangeFDoc.misc_fitems_at Sy _ _ H1). cbn [app]. f_equal. rewrite (IH _ _ H4). reflexivity.
Qed.

Lemma fpairs_at_after_m : forall (l : pairs Sy) p, forallb (fun x => is_misc Sy (snd x)) l = true ->
  fpairs_at p l = fafter_at Sy p l.
Proof.
  induction l as [|[w i] r IH]; intros p H; cbn [CstRangeFDoc.fpairs_at fafter_at]; [reflexivity|].
  cbn [forallb fst snd] in H. apply andb_true_iff in H. destruct H as [H2 H4].
  rewrite (CstRangeFDoc.misc_fitems_at Sy _ _ H2). cbn [app]. f_equal. apply IH. exact H4.
Qed.

Lemma fpairs_misc_m : forall (l : pairs Sy) p, forallb (fun x => is_misc Sy (snd x)) l = true ->
  Forall (fun x => is_misc Sy (snd x) = true) (fpairs_at p l).
Proof.
  induction l as [|[w i] r IH]; intros p H; cbn [CstRangeFDoc.fpairs_at]; [constructor|].
  cbn [forallb fst snd] in H. apply andb_true_iff in H. destruct H as [H2 H4]. constructor; [exact H2|apply IH; exact H4].
Qed.

Lemma fdoc_items_from_eq_m (c : doc Sy) p0 :
  forallb (fun x => is_misc Sy (fst x)) (d_before c) = true -> forallb (fun x => is_misc Sy (snd x)) (d_after c) = true ->
  let B := regroup (d_ws0 c) (d_before c) in
  let p1 := p0 + blen (r_pairs B) + blen (last_ws (d_ws0 c) (d_before c)) in
  fdoc_items_from Sy p0 c =
  fpairs_at p0 B ++ fitems_at Sy p1 (d_root c) ++ fpairs_at (p1 + blen (r_item (d_root c))) (d_after c).
Proof.
  intros H3 H6 B p1.
  assert (Ero : p0 + froot_offset Sy c = p1).
  { unfold froot_offset, fbefore_len, p1, B.
    pose proof (f_equal (@length N) (regroup_render Sy (d_before c) (d_ws0 c))) as E.
    rewrite !app_length in E. unfold nlen, blen. lia. }
  unfold fdoc_items_from. rewrite Ero, <- (fpairs_at_regroup_m (d_before c) p0 (d_ws0 c) H3).
  rewrite <- (fpairs_at_after_m (d_after c) _ H6). reflexivity.
Qed.
End Where.

Section DocR5.
Variable Sy : syntax.
Variable M : meaning Sy.
Variable vstore : N -> val Sy -> tstore.
Variable run_nodes : N -> run Sy -> list ((N * N) * tstore).
Hypothesis Hval_lex : forall q v, wf_val M q v = true -> q = 39 \/ q = 34 -> uval_ok q (r_val Sy v).
Hypothesis Hrun_valid : forall r, wf_run M r = true -> U8.Valid (r_run Sy r).
Variable text : bytes.
Variable D : list Scope.binding.
Hypothesis HD : forall l, NoDup l -> incl l D -> N.of_nat (length l) <= 65535.
Variable es0 : list entity.
Hypothesis Hval_norm_r : forall q v p more, wf_val M q v = true -> q = 39 \/ q = 34 ->
  CstULex.WV text p (r_val Sy v ++ [q] ++ more) ->
  exists stor, norm_ok text es0 (sl p (p + blen (r_val Sy v))) stor /\ storage_bytes text stor = val_sem M v /\
               stored stor (vstore p v).

Notation item := (CstFull.item Sy).
Notation doc := (CstFull.doc Sy).
Notation dens := (CstFullTree.dens Sy M).
Notation ev := (tok_ev text).
Notation st := (CstLex.st text).
Notation W := (CstLex.W text).
Notation WV := (CstULex.WV text).
Notation CIn := (CstNsBuild.CIn text D).
Notation NC := (CstFullBuild.NC es0).
Notation kmn := (CstNsBuild.kmn text).
Notation node_room := CstNsItems.node_room.
Notation attr_room := CstNsItems.attr_room.
Notation ns_room := CstNsItems.ns_room.
Notation pairs := (CstFullDoc.pairs Sy).
Notation wf_pairs_s := (wf_pairs_s Sy M).
Notation fitem_valid := (CstFullS5Items.fitem_valid Sy M Hval_lex Hrun_valid).
Notation evf_comment_r := (CstRangeG5Items.evf_comment_r Sy M vstore run_nodes Hval_lex text D HD es0 Hval_norm_r).
Notation evf_pi_r := (CstRangeG5Items.evf_pi_r Sy M vstore run_nodes Hval_lex text D HD es0 Hval_norm_r).
Notation ExtraF := (CstRangeFItems.ExtraF Sy M vstore run_nodes text).
Notation ExtraF_app := (CstRangeFItems.ExtraF_app Sy M vstore run_nodes text).
Notation ExtraF_nil := (CstRangeFItems.ExtraF_nil Sy M vstore run_nodes text).
Notation kmn_Forall2_ext := (CstFullS5Items.kmn_Forall2_ext text D HD).
Notation fpairs_at := (CstRangeFDoc.fpairs_at Sy).

Lemma misc_loop_ok_s_r : forall (l : pairs) p wl rest c fuel,
  WV p (r_pairs l ++ wl ++ rest) -> wf_pairs_s l = true -> wf_s wl = true -> CstDoc.misc_stop rest ->
  (length l < fuel)%nat -> CIn [] c -> c_after_text c = [] -> node_room c (NT.nsizes (dens (map snd l))) ->
  exists c' K,
    parse_misc_loop text context ev fuel (st p (r_pairs l ++ wl ++ rest)) c =
    Ok (st (p + blen (r_pairs l) + blen wl) rest, c') /\
    Stepn c c' K [] /\ CIn [] c' /\ c_after_text c' = [] /\ d_ns_tree (c_doc c') = d_ns_tree (c_doc c) /\
    Forall2 (kmn (c_doc c')) K (NT.tag_list [] (c_parent_id c) (len_N (d_nodes (c_doc c))) (dens (map snd l))) /\
    ExtraF (fpairs_at p l) c c' K [].
Proof.
  induction l as [|[w i] l IH]; intros p wl rest c fuel HW Hwf Hwl (Hs1 & Hs2 & Hs3) Hf I Hat NR.
  - cbn [r_pairs flat_map app map CstFullTree.dens NT.tag_list] in *. change (blen []) with 0. rewrite N.add_0_r.
    destruct fuel as [|fu]; [cbn in Hf; lia|]. cbn [parse_misc_loop].
    exists c, []. split; [|split; [apply Stepn_refl|split; [exact I|split; [exact Hat|split; [reflexivity|split; [constructor|apply ExtraF_nil]]]]]].
    pose proof (WV_W _ _ _ HW) as HW0. rewrite at_end_st by exact HW0.
    destruct (wl ++ rest) as [|x0 l0] eqn:E0.
    + apply app_eq_nil in E0. destruct E0 as [-> ->]. change (blen []) with 0. rewrite N.add_0_r. reflexivity.
    + rewrite <- E0 in *. clear E0 x0 l0. cbv zeta.
      rewrite skip_spaces_st; [|exact HW0|apply s_spaces; exact Hwl|exact Hs1].
      pose proof (W_app _ _ _ _ HW0) as HW1.
      rewrite !starts_with_st by exact HW1.
      change (b "<!--") with [60; 33; 45; 45]. change (b "<?") with [60; 63]. rewrite Hs2, Hs3. reflexivity.
  - cbn [wf_pairs_s forallb fst snd] in Hwf. rewrite !andb_true_iff in Hwf. destruct Hwf as [[[H1 H2] H3] H4].
    cbn [r_pairs flat_map fst snd map CstFullTree.dens] in HW, NR |- *. fold (@r_pairs Sy l) in HW |- *.
    rewrite <- !app_assoc in HW |- *.
    rewrite nsizes_app in NR.
    cbn [length] in Hf. destruct fuel as [|fu]; [lia|]. cbn [parse_misc_loop].
    pose proof (WV_W _ _ _ HW) as HW0. rewrite at_end_st by exact HW0.
    destruct (misc_starts Sy i H2) as [l0 El0].
    replace (match w ++ r_item i ++ r_pairs l ++ wl ++ rest with [] => true | _ :: _ => false end) with false
      by (rewrite El0; destruct w; reflexivity).
    cbv zeta.
    rewrite skip_spaces_st; [|exact HW0|apply s_spaces; exact H1|rewrite El0; reflexivity].
    pose proof (WV_lit _ _ _ _ HW (s_lit _ H1)) as HW1. pose proof (WV_W _ _ _ HW1) as HW1'.
    pose proof (fitem_valid i H3) as Hvi.
    pose proof (WV_app _ _ _ _ HW1 Hvi) as HW2.
    destruct i as [? ? ? ?|?|bs|t s v]; try discriminate.
    + (* comment *)
      assert (R : room c).
      { apply (node_room_room _ _ NR). cbn [den]. rewrite nsizes_one. pose proof (NT.nsize_pos (CstNs.IComment (utf8s bs))). lia. }
      rewrite starts_with_st by exact HW1'. change (b "<!--") with [60; 33; 45; 45].
      replace (prefix_b [60; 33; 45; 45] (r_item (@IComment Sy bs) ++ r_pairs l ++ wl ++ rest)) with true
        by (cbn [r_item Cst.r_item]; rewrite <- !app_assoc; rewrite prefix_b_app_same; reflexivity).
      destruct (evf_comment_r [] bs (p + blen w) (r_pairs l ++ wl ++ rest) c H3 HW1 I R)
        as (c1 & K1 & E1 & S1 & I1 & A1 & _ & F1 & Tr1 & X1).
      rewrite E1. cbn [bind].
      pose proof (Stepn_nodes_len _ _ _ _ S1) as Ln1.
      rewrite (Forall2_len_N _ _ _ F1) in Ln1. unfold len_N at 3 in Ln1. rewrite NT.tag_list_len in Ln1.
      pose proof (Stepn_opt _ _ _ _ (proj1 S1)) as Lo1.
      destruct (IH _ wl rest c1 fu HW2 H4 Hwl (conj Hs1 (conj Hs2 Hs3)) ltac:(clia) I1 A1)
        as (c2 & K2 & E2 & S2 & I2 & A2 & Tr2 & F2 & X2).
      { unfold CstNsItems.node_room in *. rewrite Ln1, Lo1. clia. }
      rewrite E2. exists c2, (K1 ++ K2). split.
      { f_equal. f_equal. f_equal. rewrite !blen_app. clia. }
      split; [apply (Stepn_trans _ _ _ _ _ _ _ S1 S2)|]. split; [exact I2|]. split; [exact A2|].
      split; [rewrite Tr2, Tr1; reflexivity|]. split; [|cbn [fpairs_at fst snd]; exact (ExtraF_app _ _ _ _ _ _ _ _ _ X1 X2)].
      rewrite CstNsDoc.tag_list_app. apply Forall2_app.
      * apply (kmn_Forall2_ext (c_doc c1)); [apply (Step0n_DocExt _ _ _ _ (proj1 S2))|exact F1].
      * destruct S1 as (_ & P1 & _). rewrite P1, Ln1 in F2. exact F2.
    + (* processing instruction *)
      assert (R : room c).
      { apply (node_room_room _ _ NR). cbn [den]. rewrite nsizes_one. pose proof (NT.nsize_pos (CstNs.IPI (utf8s t) s (utf8s v))). lia. }
      rewrite !starts_with_st by exact HW1'. change (b "<!--") with [60; 33; 45; 45]. change (b "<?") with [60; 63].
      replace (prefix_b [60; 33; 45; 45] (r_item (@IPI Sy t s v) ++ r_pairs l ++ wl ++ rest)) with false
        by reflexivity.
      replace (prefix_b [60; 63] (r_item (@IPI Sy t s v) ++ r_pairs l ++ wl ++ rest)) with true
        by reflexivity.
      destruct (evf_pi_r [] t s v (p + blen w) (r_pairs l ++ wl ++ rest) c H3 HW1 I R)
        as (c1 & K1 & E1 & S1 & I1 & A1 & _ & F1 & Tr1 & X1).
      rewrite E1. cbn [bind].
      pose proof (Stepn_nodes_len _ _ _ _ S1) as Ln1.
      rewrite (Forall2_len_N _ _ _ F1) in Ln1. unfold len_N at 3 in Ln1. rewrite NT.tag_list_len in Ln1.
      pose proof (Stepn_opt _ _ _ _ (proj1 S1)) as Lo1.
      destruct (IH _ wl rest c1 fu HW2 H4 Hwl (conj Hs1 (conj Hs2 Hs3)) ltac:(clia) I1 A1)
        as (c2 & K2 & E2 & S2 & I2 & A2 & Tr2 & F2 & X2).
      { unfold CstNsItems.node_room in *. rewrite Ln1, Lo1. clia. }
      rewrite E2. exists c2, (K1 ++ K2). split.
      { f_equal. f_equal. f_equal. rewrite !blen_app. clia. }
      split; [apply (Stepn_trans _ _ _ _ _ _ _ S1 S2)|]. split; [exact I2|]. split; [exact A2|].
      split; [rewrite Tr2, Tr1; reflexivity|]. split; [|cbn [fpairs_at fst snd]; exact (ExtraF_app _ _ _ _ _ _ _ _ _ X1 X2)].
      rewrite CstNsDoc.tag_list_app. apply Forall2_app.
      * apply (kmn_Forall2_ext (c_doc c1)); [apply (Step0n_DocExt _ _ _ _ (proj1 S2))|exact F1].
      * destruct S1 as (_ & P1 & _). rewrite P1, Ln1 in F2. exact F2.
Qed.

End DocR5.

Print Assumptions misc_loop_ok_s_r.
