(* Proofs/CstEntDtd.v -- C07: the DOCTYPE of Spec/CstEnt.v is lexed and its entity declarations are
   recorded: after parse_doctype the context differs only by c_entities, which then satisfies the
   environment invariant of Proofs/CstEntText.v. *)
From Coq Require Import Ascii String.
From Coq Require Import List NArith PeanoNat Bool Lia ZifyBool ZifyN ZifyNat.
Import ListNotations.
From RX Require Import Generated.
From RX.Model Require Import Base CharClass Stream Tokenizer Doc Builder Parse.
From RX.Spec Require Cst CstText CstEnt.
From RX.Spec Require Import Text.
From RX.Proofs Require Import Tactics CstLex CstBuild CstTextSem CstTextLex CstEntSem CstEntText.
From RX.Proofs Require CstDoc.
Open Scope N_scope.

Section Dtd.
Variable text : bytes.
Hypothesis Hascii : Forall (fun x => x < 128) text.

Notation W := (CstLex.W text).
Notation st := (CstLex.st text).

Lemma consume_spaces_st p w l : W p (w ++ l) -> w <> [] -> Cst.wf_ws w = true -> stops byte_is_space l ->
  consume_spaces text (st p (w ++ l)) = Ok (st (p + blen w) l).
Proof.
  intros HW Hne Hw Hs. unfold consume_spaces. rewrite (at_end_st text) by exact HW.
  destruct w as [|x w]; [congruence|]. cbn [app] in HW |- *. unfold starts_with_space.
  rewrite (curr_byte_opt_st text) by exact HW.
  assert (Hx : byte_is_space x = true).
  { cbn [Cst.wf_ws forallb] in Hw. apply andb_true_iff in Hw. apply ws_space. apply Hw. }
  rewrite Hx. cbn [negb]. f_equal. change (x :: w ++ l) with ((x :: w) ++ l).
  apply (skip_spaces_st text); [exact HW|apply ws_spaces; exact Hw|exact Hs].
Qed.

Lemma ws1_parts w : Cst.wf_ws1 w = true -> w <> [] /\ Cst.wf_ws w = true.
Proof. unfold Cst.wf_ws1, Cst.wf_ws. destruct w; [discriminate|]. intros H. split; [discriminate|exact H]. Qed.

Lemma skip_name_st name p l : W p (name ++ l) -> Cst.wf_name name = true -> name_stop l ->
  skip_name text (st p (name ++ l)) = Ok (st (p + blen name) l).
Proof.
  intros HW Hn Hl. unfold skip_name. cbn [CstLex.st s_pos].
  destruct name as [|c x]; [discriminate|]. cbn [Cst.wf_name] in Hn.
  apply andb_true_iff in Hn. destruct Hn as [Hc Hx]. cbn [app] in *.
  fold (st p (c :: x ++ l)). rewrite (next_char_st text Hascii) by exact HW. cbn [bind].
  destruct (name_start_byte _ Hc) as (H1 & H2 & _).
  rewrite char_is_name_start_ascii by exact H1. rewrite H2.
  rewrite (advance1_st text) by exact HW. cbn [bind].
  rewrite (skip_name_loop_st text Hascii); [|apply (W_cons _ _ _ _ HW)|exact Hx|exact Hl|cbn [CstLex.st s_rest]; rewrite app_length; lia].
  rewrite blen_cons. f_equal. f_equal. lia.
Qed.

(* ---- one entity declaration ---- *)

Definition decl_entity (q : N) (e : E.edecl) : entity :=
  let ns := q + blen (E.e_ws0 e) + 8 + blen (E.e_ws1 e) in
  let vs := ns + blen (E.e_name e) + blen (E.e_ws2 e) + 1 in
  {| en_name := sl ns (ns + blen (E.e_name e)); en_value := sl vs (vs + blen (E.r_value (E.e_value e))) |}.

Definition value_bytes_ok (q : N) (V : bytes) : Prop :=
  forallb (fun y => negb (y =? q)) V = true /\ forallb (fun x => x <? 128) V = true /\ forallb byte_is_char V = true.

Record decl_lex_ok (e : E.edecl) : Prop := {
  dl_ws0 : Cst.wf_ws (E.e_ws0 e) = true;
  dl_ws1 : Cst.wf_ws1 (E.e_ws1 e) = true;
  dl_name : Cst.wf_name (E.e_name e) = true;
  dl_ws2 : Cst.wf_ws1 (E.e_ws2 e) = true;
  dl_quote : E.e_quote e = 39 \/ E.e_quote e = 34;
  dl_value : value_bytes_ok (E.e_quote e) (E.r_value (E.e_value e));
  dl_ws3 : Cst.wf_ws (E.e_ws3 e) = true
}.

Variable C : Type.
Variable ev : Tokenizer.token -> C -> res C.

Lemma quote_not_space q : q = 39 \/ q = 34 -> byte_is_space q = false.
Proof. intros [-> | ->]; reflexivity. Qed.

Lemma lex_entity_decl q e post c : W q (E.r_decl e ++ post) -> decl_lex_ok e ->
  parse_entity_decl text C ev (st (q + blen (E.e_ws0 e)) (skipn (length (E.e_ws0 e)) (E.r_decl e ++ post))) c =
  let! c' := ev (TEntityDecl (en_name (decl_entity q e)) (en_value (decl_entity q e))) c in
  Ok (st (q + blen (E.r_decl e)) post, c').
Proof.
  intros HW [H0 H1 Hn H2 Hq [Hv1 [Hv2 Hv3]] H3].
  destruct (ws1_parts _ H1) as [Hne1 Hw1]. destruct (ws1_parts _ H2) as [Hne2 Hw2].
  unfold E.r_decl in *. rewrite <- !app_assoc in *. rewrite skipn_len_app.
  pose proof (W_app _ _ _ _ HW) as HWa.
  set (p0 := q + blen (E.e_ws0 e)) in *.
  unfold parse_entity_decl.
  rewrite (advance_st text 8 p0 E.kw_entity) by (try reflexivity; exact HWa). cbn [bind].
  pose proof (W_app _ _ _ _ HWa) as HWb. change (blen E.kw_entity) with 8 in HWb.
  assert (Hn0 : exists n0 nr, E.e_name e = n0 :: nr /\ Cst.is_name_start n0 = true).
  { destruct (E.e_name e) as [|n0 nr]; [discriminate|]. cbn [Cst.wf_name] in Hn. apply andb_true_iff in Hn. destruct Hn as [Hn _]. eauto. }
  destruct Hn0 as (n0 & nr & En & Hns). destruct (name_start_byte _ Hns) as (_ & _ & Hnsp & _).
  rewrite consume_spaces_st; [|exact HWb|exact Hne1|exact Hw1|rewrite En; cbn [app stops]; exact Hnsp]. cbn [bind].
  pose proof (W_app _ _ _ _ HWb) as HWc.
  assert (Etry : try_consume_byte 37 (st (p0 + 8 + blen (E.e_ws1 e))
                   (E.e_name e ++ E.e_ws2 e ++ [E.e_quote e] ++ E.r_value (E.e_value e) ++ [E.e_quote e] ++ E.e_ws3 e ++ [62] ++ post)) =
                 (false, st (p0 + 8 + blen (E.e_ws1 e))
                   (E.e_name e ++ E.e_ws2 e ++ [E.e_quote e] ++ E.r_value (E.e_value e) ++ [E.e_quote e] ++ E.e_ws3 e ++ [62] ++ post))).
  { rewrite En. cbn [app]. unfold try_consume_byte. rewrite En in HWc. cbn [app] in HWc.
    rewrite (curr_byte_opt_st text) by exact HWc. unfold Cst.is_name_start in Hns. replace (n0 =? 37) with false by lia. reflexivity. }
  rewrite Etry. cbn [negb bind].
  destruct (E.e_ws2 e) as [|w2 ws2] eqn:Ew2; [congruence|]. rewrite <- Ew2 in *.
  assert (Hw2sp : byte_is_space w2 = true).
  { rewrite Ew2 in Hw2. cbn [Cst.wf_ws forallb] in Hw2. apply andb_true_iff in Hw2. apply ws_space. apply Hw2. }
  rewrite (consume_name_st text Hascii); [|exact HWc|exact Hn|].
  2:{ rewrite Ew2. cbn [app name_stop]. apply ws_not_name_byte.
      rewrite Ew2 in Hw2. cbn [Cst.wf_ws forallb] in Hw2. apply andb_true_iff in Hw2. apply Hw2. }
  cbn [bind]. pose proof (W_app _ _ _ _ HWc) as HWd.
  rewrite consume_spaces_st; [|exact HWd|exact Hne2|exact Hw2|cbn [app stops]; apply quote_not_space; exact Hq]. cbn [bind].
  pose proof (W_app _ _ _ _ HWd) as HWe. cbn [app] in HWe |- *.
  (* the definition *)
  unfold parse_entity_def. rewrite (curr_byte_st text) by exact HWe. cbn [bind].
  replace ((E.e_quote e =? 34) || (E.e_quote e =? 39)) with true by (destruct Hq as [-> | ->]; reflexivity).
  unfold consume_quote. rewrite (curr_byte_st text) by exact HWe. cbn [bind].
  replace ((E.e_quote e =? 39) || (E.e_quote e =? 34)) with true by (destruct Hq as [-> | ->]; reflexivity).
  rewrite (advance1_st text) by exact HWe. cbn [bind]. cbv zeta.
  pose proof (W_cons _ _ _ _ HWe) as HWf. cbn [CstLex.st s_pos].
  try match goal with |- context [skip_bytes ?f {| s_pos := ?a; s_end := tlen text; s_rest := ?r |}] => fold (st a r) end.
  change (E.r_value (E.e_value e) ++ E.e_quote e :: E.e_ws3 e ++ 62 :: post)
    with (E.r_value (E.e_value e) ++ (E.e_quote e :: E.e_ws3 e ++ 62 :: post)) in *.
  rewrite (skip_bytes_st text); [|exact HWf|exact Hv1|cbn [stops]; rewrite N.eqb_refl; reflexivity].
  pose proof (W_app _ _ _ _ HWf) as HWg.
  unfold slice_back. cbn [CstLex.st s_pos]. pose proof (W_le _ _ _ HWg) as Hle.
  rewrite (mk_slice_ok text Hascii) by lia. cbn [bind].
  unfold is_xml_str. rewrite (W_slice _ _ _ _ HWf). rewrite Hv2, is_xml_str_ascii_ok by exact Hv3. cbn [bind].
  try match goal with |- context [consume_byte text ?c0 {| s_pos := ?a; s_end := tlen text; s_rest := ?r |}] => fold (st a r) end.
  rewrite (consume_byte_st text) by exact HWg. cbn [bind negb].
  pose proof (W_cons _ _ _ _ HWg) as HWh.
  unfold decl_entity. cbv zeta. cbn [en_name en_value]. fold p0.
  replace (p0 + 8 + blen (E.e_ws1 e) + blen (E.e_name e) + blen (E.e_ws2 e) + 1) with
    (p0 + 8 + blen (E.e_ws1 e) + blen (E.e_name e) + blen (E.e_ws2 e) + 1) by reflexivity.
  destruct (ev _ c) as [c'| | |]; cbn [bind]; try reflexivity.
  change (E.e_ws3 e ++ 62 :: post) with (E.e_ws3 e ++ [62] ++ post) in *.
  rewrite (skip_spaces_st text); [|exact HWh|apply ws_spaces; exact H3|reflexivity].
  pose proof (W_app _ _ _ _ HWh) as HWi. cbn [app] in HWi |- *.
  rewrite (consume_byte_st text) by exact HWi. cbn [bind].
  f_equal. f_equal. f_equal. unfold p0. rewrite !blen_app. change (blen E.kw_entity) with 8.
  repeat rewrite ?blen_cons, ?blen_app, ?blen_nil. lia.
Qed.


(* ---- the declarations, then "]" ws ">" ---- *)

Fixpoint decl_ents (q : N) (ds : list E.edecl) : list entity :=
  match ds with [] => [] | e :: r => decl_entity q e :: decl_ents (q + blen (E.r_decl e)) r end.
Definition decl_toks (q : N) (ds : list E.edecl) : list Tokenizer.token :=
  map (fun en => TEntityDecl (en_name en) (en_value en)) (decl_ents q ds).

Lemma decl_starts e rest : exists l, skipn (length (E.e_ws0 e)) (E.r_decl e ++ rest) = E.kw_entity ++ l.
Proof. unfold E.r_decl. rewrite <- !app_assoc, skipn_len_app. eexists. reflexivity. Qed.

Lemma lex_doctype_loop start ws3 ws4 post : forall ds q c fuel,
  W q (flat_map E.r_decl ds ++ ws3 ++ [93] ++ ws4 ++ [62] ++ post) ->
  Forall decl_lex_ok ds -> Cst.wf_ws ws3 = true -> Cst.wf_ws ws4 = true -> (length ds < fuel)%nat ->
  parse_doctype_loop text C ev fuel start (st q (flat_map E.r_decl ds ++ ws3 ++ [93] ++ ws4 ++ [62] ++ post)) c =
  let! c' := evs C ev (decl_toks q ds) c in
  Ok (st (q + blen (flat_map E.r_decl ds) + blen ws3 + 1 + blen ws4 + 1) post, c').
Proof.
  induction ds as [|e ds IH]; intros q c fuel HW Hds H3 H4 Hf.
  - cbn [flat_map app decl_toks decl_ents map evs bind] in *. destruct fuel as [|fu]; [lia|].
    cbn [parse_doctype_loop]. rewrite (at_end_st text) by exact HW.
    replace (match ws3 ++ 93 :: ws4 ++ 62 :: post with [] => true | _ => false end) with false by (destruct ws3; reflexivity).
    cbv zeta. change (ws3 ++ 93 :: ws4 ++ 62 :: post) with (ws3 ++ [93] ++ ws4 ++ [62] ++ post) in *.
    rewrite (skip_spaces_st text); [|exact HW|apply ws_spaces; exact H3|reflexivity].
    pose proof (W_app _ _ _ _ HW) as HW1. cbn [app] in HW1 |- *.
    rewrite !(starts_with_st text) by exact HW1.
    change (prefix_b (b "<!ENTITY") (93 :: ws4 ++ 62 :: post)) with false.
    change (prefix_b (b "<!--") (93 :: ws4 ++ 62 :: post)) with false.
    change (prefix_b (b "<?") (93 :: ws4 ++ 62 :: post)) with false.
    change (prefix_b (b "]") (93 :: ws4 ++ 62 :: post)) with true. cbv iota.
    rewrite (advance1_st text) by exact HW1. cbn [bind].
    pose proof (W_cons _ _ _ _ HW1) as HW2.
    change (ws4 ++ 62 :: post) with (ws4 ++ [62] ++ post) in *.
    rewrite (skip_spaces_st text); [|exact HW2|apply ws_spaces; exact H4|reflexivity].
    pose proof (W_app _ _ _ _ HW2) as HW3. cbn [app] in HW3 |- *.
    rewrite (curr_byte_opt_st text) by exact HW3. change (62 =? 62) with true. cbv iota.
    rewrite (advance1_st text) by exact HW3. cbn [bind]. rewrite blen_nil, N.add_0_r. reflexivity.
  - apply Forall_cons_iff in Hds. destruct Hds as [He Hds].
    cbn [flat_map decl_toks decl_ents map evs] in *. rewrite <- app_assoc in HW |- *.
    destruct fuel as [|fu]; [lia|]. cbn [length] in Hf. cbn [parse_doctype_loop].
    rewrite (at_end_st text) by exact HW.
    destruct (decl_starts e (flat_map E.r_decl ds ++ ws3 ++ [93] ++ ws4 ++ [62] ++ post)) as [l El].
    assert (Esplit : E.r_decl e ++ flat_map E.r_decl ds ++ ws3 ++ [93] ++ ws4 ++ [62] ++ post =
                     E.e_ws0 e ++ E.kw_entity ++ l).
    { rewrite <- El. unfold E.r_decl. rewrite <- !app_assoc, skipn_len_app. reflexivity. }
    replace (match E.r_decl e ++ flat_map E.r_decl ds ++ ws3 ++ [93] ++ ws4 ++ [62] ++ post with [] => true | _ => false end)
      with false by (rewrite Esplit; destruct (E.e_ws0 e); reflexivity).
    cbv zeta. rewrite Esplit. rewrite Esplit in HW.
    rewrite (skip_spaces_st text); [|exact HW|apply ws_spaces; apply (dl_ws0 _ He)|reflexivity].
    pose proof (W_app _ _ _ _ HW) as HW1.
    rewrite (starts_with_st text) by exact HW1. change (b "<!ENTITY") with E.kw_entity. rewrite prefix_b_app_same.
    rewrite <- El. rewrite <- Esplit in HW.
    rewrite (lex_entity_decl q e _ c HW He).
    fold (decl_toks (q + blen (E.r_decl e)) ds).
    destruct (ev _ c) as [c'| | |]; cbn [bind]; try reflexivity.
    rewrite IH; [|apply (W_app _ _ _ _ HW)|exact Hds|exact H3|exact H4|lia].
    rewrite blen_app. destruct (evs C ev _ c'); cbn [bind]; try reflexivity. f_equal. f_equal. f_equal. lia.
Qed.

Lemma decls_len ds : Forall decl_lex_ok ds -> (length ds <= length (flat_map E.r_decl ds))%nat.
Proof.
  induction 1 as [|e ds He _ IH]; [cbn; lia|]. cbn [flat_map length]. rewrite app_length.
  unfold E.r_decl at 1. rewrite !app_length. cbn [length]. lia.
Qed.

Lemma not_name_91 : not_name_byte 91.
Proof. unfold not_name_byte. cls. lia. Qed.

Lemma lex_doctype p t post c : W p (E.r_dtd t ++ post) ->
  Cst.wf_ws1 (E.t_ws1 t) = true -> Cst.wf_name (E.t_name t) = true -> Cst.wf_ws (E.t_ws2 t) = true ->
  Forall decl_lex_ok (E.t_decls t) -> Cst.wf_ws (E.t_ws3 t) = true -> Cst.wf_ws (E.t_ws4 t) = true ->
  let q := p + 9 + blen (E.t_ws1 t) + blen (E.t_name t) + blen (E.t_ws2 t) + 1 in
  parse_doctype text C ev (st p (E.r_dtd t ++ post)) c =
  let! c' := evs C ev (decl_toks q (E.t_decls t)) c in Ok (st (p + blen (E.r_dtd t)) post, c').
Proof.
  intros HW H1 Hn H2 Hds H3 H4 q. destruct (ws1_parts _ H1) as [Hne1 Hw1].
  unfold E.r_dtd in *. rewrite <- !app_assoc in *.
  unfold parse_doctype, parse_doctype_start. cbv zeta.
  rewrite (advance_st text 9 p E.kw_doctype) by (try reflexivity; exact HW). cbn [bind].
  pose proof (W_app _ _ _ _ HW) as HWa. change (blen E.kw_doctype) with 9 in HWa.
  assert (Hn0 : exists n0 nr, E.t_name t = n0 :: nr /\ Cst.is_name_start n0 = true).
  { destruct (E.t_name t) as [|n0 nr]; [discriminate|]. cbn [Cst.wf_name] in Hn. apply andb_true_iff in Hn. destruct Hn as [Hn _]. eauto. }
  destruct Hn0 as (n0 & nr & En & Hns). destruct (name_start_byte _ Hns) as (_ & _ & Hnsp & _).
  rewrite consume_spaces_st; [|exact HWa|exact Hne1|exact Hw1|rewrite En; cbn [app stops]; exact Hnsp]. cbn [bind].
  pose proof (W_app _ _ _ _ HWa) as HWb.
  rewrite skip_name_st; [|exact HWb|exact Hn|apply ws_stop_name; [exact H2|cbn [app name_stop]; apply not_name_91]]. cbn [bind].
  pose proof (W_app _ _ _ _ HWb) as HWc.
  rewrite (skip_spaces_st text); [|exact HWc|apply ws_spaces; exact H2|reflexivity].
  pose proof (W_app _ _ _ _ HWc) as HWd. cbn [app] in HWd |- *.
  unfold parse_external_id. rewrite !(starts_with_st text) by exact HWd.
  change (prefix_b (b "SYSTEM") (91 :: ?l)) with false. change (prefix_b (b "PUBLIC") (91 :: ?l)) with false.
  cbn [orb bind].
  rewrite (CstDoc.skip_spaces_none text) by (try exact HWd; reflexivity).
  rewrite (curr_byte_st text) by exact HWd. cbn [bind]. change (91 =? 91) with true. cbn [negb andb bind].
  rewrite (CstDoc.skip_spaces_none text) by (try exact HWd; reflexivity).
  rewrite (curr_byte_opt_st text) by exact HWd. change (91 =? 62) with false. cbv iota.
  rewrite (advance1_st text) by exact HWd. cbn [bind].
  pose proof (W_cons _ _ _ _ HWd) as HWe. fold q in HWe |- *.
  cbn [CstLex.st s_rest s_pos].
  change (flat_map E.r_decl (E.t_decls t) ++ E.t_ws3 t ++ 93 :: E.t_ws4 t ++ 62 :: post)
    with (flat_map E.r_decl (E.t_decls t) ++ E.t_ws3 t ++ [93] ++ E.t_ws4 t ++ [62] ++ post) in *.
  rewrite lex_doctype_loop; [|exact HWe|exact Hds|exact H3|exact H4|].
  2:{ rewrite app_length. pose proof (decls_len _ Hds). lia. }
  destruct (evs C ev _ c); cbn [bind]; try reflexivity. f_equal. f_equal. f_equal. unfold q.
  repeat rewrite ?blen_cons, ?blen_app, ?blen_nil. change (blen E.kw_doctype) with 9. lia.
Qed.

End Dtd.

(* ---- the callback records the declarations; the recorded entities are where the values are ---- *)

Lemma entity_eta en : {| en_name := en_name en; en_value := en_value en |} = en.
Proof. destruct en; reflexivity. Qed.

Lemma decls_recorded text q ds : forall c,
  evs context (CstBuild.tok_ev text) (decl_toks q ds) c = Ok (set_entities c (c_entities c ++ decl_ents q ds)).
Proof.
  unfold decl_toks. induction (decl_ents q ds) as [|en l IH]; intros c; cbn [map evs].
  - rewrite app_nil_r. destruct c; reflexivity.
  - unfold CstBuild.tok_ev at 1, Parse.token at 1. cbn [token_with bind]. rewrite entity_eta.
    fold (CstBuild.tok_ev text). rewrite IH. cbn [c_entities set_entities]. rewrite <- app_assoc. reflexivity.
Qed.

Lemma decl_ents_ok text : forall ds q tail, CstLex.W text q (flat_map E.r_decl ds ++ tail) ->
  Forall2 (ent_ok text) ds (decl_ents q ds).
Proof.
  induction ds as [|e ds IH]; intros q tail HW; [constructor|].
  cbn [flat_map decl_ents] in *. rewrite <- app_assoc in HW. constructor; [|apply (IH _ tail); apply (W_app _ _ _ _ HW)].
  unfold E.r_decl in HW. rewrite <- !app_assoc in HW.
  pose proof (W_app _ _ _ _ HW) as H1. pose proof (W_app _ _ _ _ H1) as H2. change (blen E.kw_entity) with 8 in H2.
  pose proof (W_app _ _ _ _ H2) as H3. pose proof (W_app _ _ _ _ H3) as H4. pose proof (W_app _ _ _ _ H4) as H5.
  pose proof (W_app _ _ _ _ H5) as H6. change (blen [E.e_quote e]) with 1 in H6.
  unfold ent_ok, decl_entity. cbv zeta. cbn [en_name en_value]. split.
  - apply (W_slice _ _ _ _ H3).
  - eexists. eexists. split; [reflexivity|]. exact H6.
Qed.

Print Assumptions lex_doctype.
Print Assumptions decl_ents_ok.
