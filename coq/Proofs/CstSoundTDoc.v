(* Proofs/CstSoundTDoc.v -- C08 soundness on the fragment of Spec/CstText.v: prolog, root, epilog,
   final checks; the main theorem [parse_sound_fragment_t] (CstSoundDoc.v for references and CDATA). *)
From Coq Require Import String.
From Coq Require Import List Arith NArith Bool Lia ZifyBool ZifyN ZifyNat.
Import ListNotations.
From RX Require Import Generated.
From RX.Model Require Import Base CharClass Stream Tokenizer Doc Builder Parse.
From RX.Spec Require Cst.
From RX.Spec Require CstText.
From RX.Proofs Require Import Tactics CstLex CstTextLex.
From RX.Proofs Require CstBuild RejectProofs CstTextItems CstSoundDoc.
From RX.Proofs Require Import CstSound CstSoundT CstSoundTLex CstSoundBuild CstSoundTBuild CstSoundTText CstSoundTMain.
Open Scope N_scope.

Definition pairs_t := list (bytes * T.item).
Definition r_pairs_t (l : pairs_t) : bytes := flat_map (fun x => fst x ++ T.r_item (snd x)) l.
Definition wf_pairs_t (l : pairs_t) : bool :=
  forallb (fun x => Cst.wf_ws (fst x) && T.is_misc (snd x) && T.wf_item (snd x)) l.

Fixpoint shift_t (l : pairs_t) (w : bytes) : bytes * list (T.item * bytes) :=
  match l with
  | [] => (w, [])
  | (w1, i1) :: r => let '(w0, b0) := shift_t r w in (w1, (i1, w0) :: b0)
  end.

Lemma shift_render_t : forall l w,
  fst (shift_t l w) ++ flat_map (fun p => T.r_item (fst p) ++ snd p) (snd (shift_t l w)) = r_pairs_t l ++ w.
Proof.
  induction l as [|[w1 i1] r IH]; intros w.
  - cbn. rewrite app_nil_r. reflexivity.
  - cbn [shift_t]. specialize (IH w). destruct (shift_t r w) as [w0 b0]. cbn [fst snd] in *.
    unfold r_pairs_t in *. cbn [flat_map fst snd]. rewrite <- !app_assoc. rewrite <- IH. reflexivity.
Qed.

Lemma shift_wf_t : forall l w, wf_pairs_t l = true -> Cst.wf_ws w = true ->
  Cst.wf_ws (fst (shift_t l w)) = true /\
  forallb (fun p => T.is_misc (fst p) && T.wf_item (fst p) && Cst.wf_ws (snd p)) (snd (shift_t l w)) = true.
Proof.
  induction l as [|[w1 i1] r IH]; intros w Hl Hw; cbn [shift_t fst snd forallb]; [auto|].
  cbn [wf_pairs_t forallb fst snd] in Hl. apply andb_true_iff in Hl. destruct Hl as [H1 H2].
  apply andb_true_iff in H1. destruct H1 as [H1 H3]. apply andb_true_iff in H1. destruct H1 as [H0 H1].
  destruct (IH w H2 Hw) as [A B]. destruct (shift_t r w) as [w0 b0]. cbn [fst snd forallb] in *.
  split; [exact H0|]. rewrite H1, H3, A, B. reflexivity.
Qed.

Section DocT.
Variable text : bytes.
Hypothesis HF : FragT text.
Notation T_ := (Parse.token text).
Notation st := (CstLex.st text).
Notation W := (CstLex.W text).
Notation SimT := (SimT text).

Definition nonelem (K : list row) : Prop := Forall (fun r => is_element_kind (snd r) = false) K.

Lemma bom_no_t : prefix_b [239; 187; 191] text = false.
Proof.
  pose proof (Hascii text HF) as Ha. destruct text as [|x l]; [reflexivity|].
  inversion Ha; subst. cbn [prefix_b]. replace (239 =? x) with false by lia. reflexivity.
Qed.

Lemma curr_byte_opt_st_any_t p l : W p l ->
  curr_byte_opt (st p l) = match l with x :: _ => Some x | [] => None end.
Proof. intros HW. unfold curr_byte_opt. rewrite (at_end_st text) by exact HW. destruct l; reflexivity. Qed.

(* ---- Misc* ---- *)
Lemma misc_sound_t : forall fuel p l c s' c' stk,
  W p l -> SimT c stk ->
  parse_misc_loop text context T_ fuel (st p l) c = Ok (s', c') ->
  exists items wend l' p' K,
    l = r_pairs_t items ++ wend ++ l' /\ s' = st p' l' /\ W p' l' /\
    wf_pairs_t items = true /\ Cst.wf_ws wend = true /\
    SimT c' stk /\ erows c' = erows c ++ K /\ nonelem K.
Proof.
  induction fuel as [|fu IH]; intros p l c s' c' stk HW HS H; cbn [parse_misc_loop] in H; [noerr|].
  rewrite (at_end_st text) in H by exact HW.
  destruct l as [|x l0].
  { inversion H; subst. exists [], [], [], p, []. rewrite app_nil_r.
    split; [reflexivity|]. split; [reflexivity|]. split; [exact HW|]. split; [reflexivity|].
    split; [reflexivity|]. split; [exact HS|]. split; [first [rewrite app_nil_r; reflexivity|reflexivity]|constructor]. }
  cbv zeta in H.
  destruct (skip_spaces_inv text HF p (x :: l0) HW) as (w & l1 & El & Hw & Hst & E1 & HW1).
  rewrite E1 in H. rewrite !(starts_with_st text) in H by exact HW1.
  destruct (prefix_b (b "<!--") l1) eqn:Ec.
  { change (b "<!--") with [60; 33; 45; 45] in Ec. destruct (prefix_b_split _ _ Ec) as (l2 & ->).
    ib H q Hq. destruct q as [s1 c1].
    destruct (inv_comment text HF context T_ _ _ _ _ _ HW1 Hq) as (bs & l3 & -> & Hwf & -> & HW2 & Hev).
    destruct (step_comment_t text _ _ _ _ _ HS Hev) as (HS1 & R1 & _).
    destruct (IH _ _ _ _ _ _ HW2 HS1 H) as (items & wend & l' & p' & K & -> & -> & HW3 & Hi & Hwe & HS2 & R2 & HK).
    eexists ((w, T.IComment bs) :: items), wend, l', p', (_ :: K).
    split. { rewrite El. cbn [r_pairs_t flat_map fst snd T.r_item Cst.r_item]. rewrite <- !app_assoc. reflexivity. }
    split; [reflexivity|]. split; [exact HW3|]. split.
    { cbn [wf_pairs_t forallb fst snd T.is_misc T.wf_item]. rewrite Hw, Hwf. exact Hi. }
    split; [exact Hwe|]. split; [exact HS2|].
    split; [rewrite R2, R1, <- app_assoc; reflexivity|]. constructor; [reflexivity|exact HK]. }
  destruct (prefix_b (b "<?") l1) eqn:Ep.
  { change (b "<?") with [60; 63] in Ep. destruct (prefix_b_split _ _ Ep) as (l2 & ->).
    ib H q Hq. destruct q as [s1 c1].
    destruct (inv_pi text HF context T_ _ _ _ _ _ HW1 Hq) as (tg & sep & v & l3 & -> & Hwf & -> & HW2 & Hev).
    unfold pi_tok in Hev. cbv zeta in Hev.
    destruct (step_pi_t text _ _ _ _ _ _ HS Hev) as (HS1 & R1 & _).
    destruct (IH _ _ _ _ _ _ HW2 HS1 H) as (items & wend & l' & p' & K & -> & -> & HW3 & Hi & Hwe & HS2 & R2 & HK).
    eexists ((w, T.IPI tg sep v) :: items), wend, l', p', (_ :: K).
    split. { rewrite El. cbn [r_pairs_t flat_map fst snd T.r_item Cst.r_item]. rewrite <- !app_assoc. reflexivity. }
    split; [reflexivity|]. split; [exact HW3|]. split.
    { cbn [wf_pairs_t forallb fst snd T.is_misc T.wf_item]. rewrite Hw, Hwf. exact Hi. }
    split; [exact Hwe|]. split; [exact HS2|].
    split; [rewrite R2, R1, <- app_assoc; reflexivity|]. constructor; [reflexivity|exact HK]. }
  inversion H; subst. exists [], w, l1, (p + blen w), []. cbn [r_pairs_t flat_map app]. rewrite app_nil_r.
  split; [exact El|]. split; [reflexivity|]. split; [exact HW1|]. split; [reflexivity|].
  split; [exact Hw|]. split; [exact HS|]. split; [first [rewrite app_nil_r; reflexivity|reflexivity]|constructor].
Qed.

(* ---- the whole document ---- *)
Theorem parse_sound_fragment_t_ctx : forall opt d,
  parse text opt = Ok d -> exists c : T.doc, T.wf_doc c = true /\ T.render c = text.
Proof.
  intros opt d H. unfold parse in H. ib H c0 H0. ib H cF HD.
  assert (S0 : SimT c0 [] /\ nonelem (erows c0)).
  { unfold init_context in H0. cbn in H0. inversion H0; subst c0. clear H0. split.
    - constructor; cbn; try reflexivity; try lia.
      + eapply ch_root. reflexivity.
      + constructor; [reflexivity|constructor].
    - cbn. constructor; [reflexivity|constructor]. }
  destruct S0 as [S0 N0].
  cbv zeta in H. ib H it Hit. ib H he Hhe. destruct he; cbn [negb] in H; [|discriminate].
  destruct (1 <? len_N (c_parent_prefixes cF)) eqn:Epp; [discriminate|]. inversion H; subst d. clear H.
  destruct (CstSoundDoc.any_element_row _ _ _ Hhe) as (ndE & HinE & HkE).
  unfold parse_document in HD. rewrite st_new in HD.
  pose proof (W_new text) as HW0.
  rewrite (starts_with_st text) in HD by exact HW0.
  rewrite bom_no_t in HD. cbn [bind] in HD.
  assert (Hdecl : starts_with_declaration (st 0 text) = false).
  { unfold starts_with_declaration. rewrite (starts_with_st text) by exact HW0.
    change (b "<?xml") with [60; 63; 120; 109; 108].
    rewrite (W_noprefix text _ _ _ HW0 (fr_decl _ HF) ltac:(discriminate)). reflexivity. }
  rewrite Hdecl in HD. cbn [bind] in HD.
  ib HD q1 Hm1. destruct q1 as [s1 c1]. unfold parse_misc in Hm1.
  destruct (misc_sound_t _ _ _ _ _ _ _ HW0 S0 Hm1)
    as (pre & w1 & l1 & p1 & K1 & Et & -> & HW1 & Hpre & Hw1 & S1 & R1 & NK1).
  destruct (skip_spaces_inv text HF _ _ HW1) as (w2 & l2 & -> & Hw2 & Hst2 & Es2 & HW2).
  rewrite Es2 in HD. rewrite (starts_with_st text) in HD by exact HW2.
  change (b "<!DOCTYPE") with ([60; 33; 68] ++ [79; 67; 84; 89; 80; 69]) in HD.
  assert (Hnd : prefix_b ([60; 33; 68] ++ [79; 67; 84; 89; 80; 69]) l2 = false).
  { destruct (prefix_b _ l2) eqn:E; [|reflexivity]. apply prefix_b_app_l in E.
    rewrite (W_noprefix text _ _ _ HW2 (fr_doctype _ HF) ltac:(discriminate)) in E. discriminate. }
  rewrite Hnd in HD. cbn [bind] in HD.
  destruct (skip_spaces_inv text HF _ _ HW2) as (w3 & l3 & -> & Hw3 & Hst3 & Es3 & HW3).
  rewrite Es3 in HD.
  ib HD q2 Hroot. destruct q2 as [s2 c2]. ib HD q3 Hm2. destruct q3 as [s3 c3].
  set (wpre := w1 ++ w2 ++ w3).
  assert (Hwpre : Cst.wf_ws wpre = true) by (unfold wpre; repeat apply CstSoundDoc.wf_ws_app; assumption).
  assert (ROOT : exists root l4 p4,
            l3 = T.r_item root ++ l4 /\ s2 = st p4 l4 /\ W p4 l4 /\ SimT c2 [] /\
            T.wf_item root = true /\ match root with T.IElem _ _ _ _ => True | _ => False end).
  { destruct (match curr_byte_opt (st (p1 + blen w2 + blen w3) l3) with Some x => x =? 60 | None => false end) eqn:Ecb.
    2:{ exfalso. inversion Hroot; subst s2 c2. unfold parse_misc in Hm2.
      destruct (misc_sound_t _ _ _ _ _ _ _ HW3 S1 Hm2) as (post & w4 & l4 & p4 & K2 & _ & _ & _ & _ & _ & _ & R2 & NK2).
      assert (NE : nonelem (erows cF)).
      { assert (cF = c3) by (destruct (negb (at_end s3)); [noerr|inversion HD; reflexivity]). subst cF.
        rewrite R2, R1. unfold nonelem. repeat (apply Forall_app; split); assumption. }
      unfold nonelem, erows in NE. rewrite Forall_forall in NE.
      specialize (NE (erowof ndE) (in_map erowof _ _ HinE)). cbn [erowof snd] in NE.
      destruct (nd_kind ndE); cbn in NE, HkE; congruence. }
    rewrite curr_byte_opt_st_any_t in Ecb by exact HW3.
    destruct l3 as [|x l3']; [discriminate|]. assert (x = 60) by lia. subst x.
    ib Hroot q Hq. destruct q as [[open sE] cE].
    change (60 :: l3') with ([60] ++ l3') in *.
    destruct (inv_element text HF context T_ _ _ _ _ _ _ HW3 Hq)
      as (name & raws & ws_end & l4 & ca & cb & El & Hname & Hrw & Hwe & Hev1 & Hev2 & Hev3 & -> & HW4).
    rewrite El in HW3.
    destruct (tag_sound_t text HF _ _ _ _ _ _ _ _ _ _ _ HW3 Hname Hrw Hwe S1 Hev1 Hev2 Hev3) as (HS1 & _ & tas & Etas & Hok).
    destruct open.
    - unfold parse_content in Hroot.
      assert (Hl1 : N.of_nat (length [name]) = 0 + 1) by reflexivity.
      destruct (content_sound_t text HF _ 0 _ _ _ _ _ [name] HW4 HS1 Hl1 Hroot) as [HC|HU].
      + destruct HC as (lv & l5 & p5 & opn & rest & E1' & E2' & E3' & E4' & E5' & E6' & E7' & E9' & E10').
        destruct lv as [|[cs w] [|? ?]]; cbn [length] in E3'; try (exfalso; clear - E3'; lia).
        destruct opn as [|n0 [|? ?]]; cbn [length] in E2'; try (exfalso; clear - E2'; lia).
        cbn [app] in E1'. injection E1' as En Er. subst n0 rest.
        exists (T.IElem name tas ws_end (Some (cs, w))), l5, p5.
        split. { rewrite El, E4', CstTextItems.tr_item_elem, Etas. cbn [negb tag_tail r_levels_t]. rewrite <- !app_assoc. cbn [app].
                 rewrite <- ?app_assoc. rewrite ?app_nil_r. reflexivity. }
        split; [exact E5'|]. split; [exact E6'|]. split; [exact E7'|].
        split; [|exact I]. inversion E10' as [|? ? (A1 & A2 & A3) _]; subst.
        apply wf_elem_intro_t; [exact Hok|]. cbn [fst snd] in *. auto.
      + exfalso. destruct HU as (stk2 & pz & lz & -> & HWz & HS2 & Hne). unfold parse_misc in Hm2.
        destruct (misc_sound_t _ _ _ _ _ _ _ HWz HS2 Hm2) as (post & w4 & l5 & p5 & K2 & _ & _ & _ & _ & _ & S3 & _ & _).
        assert (cF = c3) by (destruct (negb (at_end s3)); [noerr|inversion HD; reflexivity]). subst cF.
        destruct S3 as [_ Hl _ _ _]. unfold len_N in Epp. destruct stk2; [congruence|]. cbn [length] in Hl.
        clear - Hl Epp. lia.
    - inversion Hroot; subst s2 c2.
      eexists (T.IElem name tas ws_end None), l4, _.
      split. { rewrite El, CstTextItems.tr_item_elem, Etas. cbn [negb tag_tail]. rewrite <- !app_assoc. reflexivity. }
      split; [reflexivity|]. split; [exact HW4|]. split; [exact HS1|].
      split; [|exact I]. apply wf_elem_intro_t; [exact Hok|exact I]. }
  destruct ROOT as (root & l4 & p4 & -> & -> & HW4 & S2 & Hrwf & Hrk).
  unfold parse_misc in Hm2.
  destruct (misc_sound_t _ _ _ _ _ _ _ HW4 S2 Hm2) as (post & w4 & l5 & p5 & K2 & -> & -> & HW5 & Hpost & Hw4 & S3 & _ & _).
  rewrite (at_end_st text) in HD by exact HW5. destruct l5 as [|? ?]; cbn [negb] in HD; [|noerr].
  inversion HD; subst cF. clear HD.
  exists {| T.d_before := snd (shift_t pre wpre); T.d_ws0 := fst (shift_t pre wpre);
            T.d_root := root; T.d_after := post; T.d_ws_end := w4 |}.
  destruct (shift_wf_t pre wpre Hpre Hwpre) as (B1 & B2).
  split.
  - unfold T.wf_doc. cbn [T.d_ws0 T.d_ws_end T.d_before T.d_root T.d_after].
    rewrite B1, Hw4, B2. cbn [andb]. unfold wf_pairs_t in Hpost. rewrite Hpost, andb_true_r.
    destruct root; try contradiction. exact Hrwf.
  - unfold T.render. cbn [T.d_ws0 T.d_ws_end T.d_before T.d_root T.d_after].
    rewrite app_assoc, shift_render_t. rewrite Et. unfold wpre, r_pairs_t. rewrite app_nil_r, <- !app_assoc. reflexivity.
Qed.

End DocT.

(* ------------------------------------------------------------------------------------------ *)
(* Main theorem (references and CDATA): no side condition on the result *)
Theorem parse_sound_fragment_t : forall text opt d,
  in_fragment_t text = true -> parse text opt = Ok d ->
  exists c : T.doc, T.wf_doc c = true /\ T.render c = text.
Proof.
  intros text opt d Hf H. eapply parse_sound_fragment_t_ctx; [apply in_fragment_t_FragT; exact Hf|exact H].
Qed.
Print Assumptions parse_sound_fragment_t.

Theorem parse_sound_fragment_t_holds : parse_sound_fragment_t_stmt.
Proof. exact parse_sound_fragment_t. Qed.
Print Assumptions parse_sound_fragment_t_holds.
