(* OptionsMain.v -- C15 / C16: the two parsing options.
   allow_dtd changes nothing but the DtdDetected error; nodes_limit is a hard, monotone cap. *)
From Coq Require Import Ascii String.
From Coq Require Import Lia ZifyBool ZifyN ZifyNat.
From RX Require Import Generated.
From RX.Model Require Import Base CharClass Stream Tokenizer Doc Builder Parse.
From RX.Proofs Require Import Tactics OptionsParam OptionsBuild.

Definition opts (dtd : bool) (lim : N) : options := {| allow_dtd := dtd; nodes_limit := lim |}.

Theorem default_options_are : default_options = opts false 4294967295.
Proof. reflexivity. Qed.
Print Assumptions default_options_are.

(** * parse, cut in three: init, tokenizer run, final checks *)

Definition fin (c : context) : res document :=
  let d := c_doc c in
  let! it := children d 0 in
  let! has_elem := children_any_element (S (length (d_nodes d))) d it in
  if negb has_elem then Err NoRootNode
  else if 1 <? len_N (c_parent_prefixes c) then Err UnclosedRootNode
  else Ok d.

(* the flag given to the tokenizer decoupled from the options stored in the context *)
Definition prun (text : bytes) (dtd : bool) (o : options) : res document :=
  let! c := init_context text o in
  let! c := parse_document text context (token text) dtd c in
  fin c.

Lemma parse_prun text o : parse text o = prun text (allow_dtd o) o.
Proof. reflexivity. Qed.

Lemma fin_doc c d : fin c = Ok d -> d = c_doc c.
Proof. unfold fin. intros H. usteps. reflexivity. Qed.

Lemma fin_Ro o1 o2 c1 c2 : Ro o1 o2 c1 c2 -> fin c1 = fin c2.
Proof. intros [c [-> ->]]. reflexivity. Qed.

Lemma grel_refl en e0 {X} (P : X -> X -> Prop) Q r :
  (forall x, P x x) -> grel en e0 P Q r r.
Proof. intros HP. destruct r; constructor; auto. Qed.

Lemma grel_noearly_eq (en : Prop) e0 {X} Q (r1 r2 : res X) :
  ~ en -> grel en e0 eq Q r1 r2 -> r1 = r2.
Proof. intros Hn H. destruct H; try reflexivity; [congruence | contradiction]. Qed.

Lemma grel_inv_ok_r (en : Prop) e0 {X} (Q : X -> Prop) (r1 : res X) d :
  grel en e0 eq Q r1 (Ok d) -> r1 = Ok d \/ (en /\ r1 = Err e0 /\ Q d).
Proof.
  intros H. remember (Ok d) as r2 eqn:E. destruct H; try discriminate.
  - left. congruence.
  - right. subst. auto.
Qed.

Lemma grel_inv_err_r (en : Prop) e0 {X} (Q : X -> Prop) (r1 : res X) e :
  grel en e0 eq Q r1 (Err e) -> r1 = Err e \/ r1 = Err e0.
Proof.
  intros H. remember (Err e) as r2 eqn:E. destruct H; try discriminate; auto.
Qed.

Definition Qd (lim : N) (d : document) : Prop := lim < len_N (d_nodes d).

Lemma prun_rel text dtd o1 o2 :
  nodes_limit o1 <= nodes_limit o2 ->
  grel (nodes_limit o1 < nodes_limit o2) NodesLimitReached eq (Qd (nodes_limit o1))
       (prun text dtd o1) (prun text dtd o2).
Proof.
  intros Hle. unfold prun, init_context.
  destruct (push_ns text _ _ _) as [d0| | |]; cbn [bind]; try (constructor; fail).
  eapply grel_bind.
  - apply bb_parse_document; [exact Hle|]. apply Ro_intro; reflexivity.
  - intros x1 x2 HR. rewrite (fin_Ro _ _ _ _ HR). apply grel_refl. reflexivity.
  - intros _ x2 y Hq Hy. apply fin_doc in Hy. subst y. exact Hq.
Qed.

Lemma prun_flag text o :
  prun text false o = Err DtdDetected \/ prun text false o = prun text true o.
Proof.
  unfold prun. destruct (init_context text o) as [c| | |]; cbn [bind]; auto.
  destruct (parse_document_flag text context (token text) c) as [E|E]; rewrite E; auto.
Qed.

(** * C16 *)

Theorem dtd_flag_relation : forall text lim,
  parse text (opts false lim) = Err DtdDetected \/
  parse text (opts false lim) = parse text (opts true lim).
Proof.
  intros text lim. rewrite !parse_prun. cbn [allow_dtd opts].
  destruct (prun_flag text (opts false lim)) as [E|E]; [left; exact E|right].
  rewrite E.
  assert (H := prun_rel text true (opts false lim) (opts true lim)).
  cbn [nodes_limit opts] in H. specialize (H (N.le_refl _)).
  eapply grel_noearly_eq; [|exact H]. lia.
Qed.
Print Assumptions dtd_flag_relation.

(** * C15 *)

(* with at most one node there is no element child of the root *)
Lemma fin_small c d : cnt c <= 1 -> fin c = Ok d -> False.
Proof.
  unfold fin, cnt. intros Hc H.
  apply bind_ok in H. destruct H as [it [Hit H]].
  apply bind_ok in H. destruct H as [has [Hhas H]].
  destruct has; cbn [negb] in H; [|discriminate]. clear H.
  unfold children, first_child, last_child, node_data_of, get_node in Hit.
  destruct (nth_N (d_nodes (c_doc c)) 0) as [nd|] eqn:E0; cbn [bind] in Hit; [|discriminate].
  destruct (nd_last_child nd) as [l|] eqn:El; cbn [bind opt_unwrap_node] in Hit.
  - unfold node_id_new in Hit.
    destruct (u32_max <=? 0 + 1); cbn [bind] in Hit; [discriminate|].
    unfold node_unwrap, get_node, nth_N in Hit.
    replace (len_N (d_nodes (c_doc c)) <=? 0 + 1) with true in Hit by lia.
    discriminate.
  - inversion Hit; subst it. cbn in Hhas. discriminate.
Qed.

Lemma init_cnt text o c : init_context text o = Ok c -> cnt c = 1 /\ c_opt c = o.
Proof.
  unfold init_context. intros H. usteps. apply push_ns_nodes in Hb.
  unfold cnt. cbn [c_doc c_opt]. rewrite Hb. split; reflexivity.
Qed.

Lemma prun_caps text dtd o d : prun text dtd o = Ok d -> len_N (d_nodes d) <= nodes_limit o.
Proof.
  unfold prun. intros H.
  apply bind_ok in H. destruct H as [c0 [H0 H]].
  apply bind_ok in H. destruct H as [c [Hpd H]].
  apply init_cnt in H0. destruct H0 as [Hc0 Ho].
  assert (Hs : step_ok c0 c).
  { eapply (u_parse_document text context (token text) (step_ok c0)); [|exact Hpd|apply step_ok_refl].
    intros tok a a' Ha Hs. eapply step_ok_trans; [exact Hs|]. eapply so_token; exact Ha. }
  destruct Hs as (_ & _ & Hs). rewrite Hc0, Ho in Hs.
  assert (Hd := fin_doc _ _ H). subst d. fold (cnt c).
  destruct (N.eq_dec (nodes_limit o) 0) as [Z|Z].
  - exfalso. apply (fin_small c (c_doc c)); [lia|exact H].
  - lia.
Qed.

Theorem limit_caps : forall text dtd lim d,
  parse text (opts dtd lim) = Ok d -> len_N (d_nodes d) <= lim.
Proof. intros text dtd lim d H. rewrite parse_prun in H. apply prun_caps in H. exact H. Qed.
Print Assumptions limit_caps.

Lemma opts_rel text dtd big lim : lim <= big ->
  grel (lim < big) NodesLimitReached eq (Qd lim)
       (parse text (opts dtd lim)) (parse text (opts dtd big)).
Proof. intros Hle. rewrite !parse_prun. apply (prun_rel text dtd (opts dtd lim) (opts dtd big)). exact Hle. Qed.

Theorem limit_above : forall text dtd big lim d,
  lim <= big ->
  parse text (opts dtd big) = Ok d -> len_N (d_nodes d) <= lim ->
  parse text (opts dtd lim) = Ok d.
Proof.
  intros text dtd big lim d Hle Hbig Hd.
  assert (H := opts_rel text dtd big lim Hle). rewrite Hbig in H.
  apply grel_inv_ok_r in H. destruct H as [H|(_ & _ & H)]; [exact H|].
  unfold Qd in H. lia.
Qed.
Print Assumptions limit_above.

Theorem limit_below : forall text dtd big lim d,
  lim <= big ->
  parse text (opts dtd big) = Ok d -> lim < len_N (d_nodes d) ->
  parse text (opts dtd lim) = Err NodesLimitReached.
Proof.
  intros text dtd big lim d Hle Hbig Hd.
  assert (H := opts_rel text dtd big lim Hle). rewrite Hbig in H.
  apply grel_inv_ok_r in H. destruct H as [H|(_ & H & _)]; [|exact H].
  apply limit_caps in H. lia.
Qed.
Print Assumptions limit_below.

Theorem limit_error_persists : forall text dtd big lim e,
  lim <= big ->
  parse text (opts dtd big) = Err e ->
  exists e', parse text (opts dtd lim) = Err e'.
Proof.
  intros text dtd big lim e Hle Hbig.
  assert (H := opts_rel text dtd big lim Hle). rewrite Hbig in H.
  apply grel_inv_err_r in H. destruct H as [H|H]; eauto.
Qed.
Print Assumptions limit_error_persists.
