(* Proofs/CstSoundAllCor.v -- the accounting on the UNION [in_fragment_all] of Proofs/CstSoundAll.v
   (= in_fragment_10 || in_fragment_8cr2): the two namespace resources of the witness are within the limits, so the tree the
   parser returns is the meaning of the witness under the node / attribute count bounds only.
   - half [in_fragment_10]: [parse_sound_fragment_10_res] of Proofs/CstSound10eCor.v;
   - half [in_fragment_8cr2] (CR inside comments / PI values, no DOCTYPE): the accounting variant of the upper layers of the CR
     chain, Proofs/CstSoundAllCr{BText,BMain,RDoc}.v (tools/port10e/portcre.py: tools/portcr/port3.py run on the accounting
     files Proofs/CstSound10eS8*.v of tools/port10e/port.py), gives [parse_sound_cr_init_res] / [parse_sound_fragment_8cr2_res]
     (witness in S8); [s8_in_s10] moves it to S10 (same document: the resources, defined on the S6 core, are the same).
   Also [parse_sound_fragment_8_res] / [parse_sound_and_complete_8] (witness in S8, from Proofs/CstSound10eS8RDoc.v). *)
From Coq Require Import String.
From Coq Require Import List NArith Bool Lia ZifyBool ZifyN ZifyNat.
Import ListNotations.
From RX Require Import Generated.
From RX.Model Require Import Base CharClass Stream Tokenizer Doc Builder Parse.
From RX.Spec Require Import CstFull CstFullS4 CstFullS5 CstFullS6 CstFullS7 CstFullS8 CstFullS9 CstFullS10.
From RX.Proofs Require CstNsView OptionsMain CstSound8Cor CstSound10eS8RDoc CstSound10Final CstSound10eCor.
From RX.Proofs Require CstSoundCrLex CstSoundCrLex2 CstSoundCrFinal CstSoundAllCrRDoc.
From RX.Proofs Require Import CstSound CstSoundT CstSoundN CstSoundP CstSound6 CstSound6Sanity CstSound6U.
From RX.Proofs Require Import CstSound7 CstSound8 CstSound8Lex CstSound8Val CstSound9 CstSound10 CstSoundAll.
Open Scope N_scope.

(* ---- stage 8 (by-product of the generator: the stage-8 intermediates of the pipeline) ---- *)
Theorem parse_sound_fragment_8_res : forall text opt d,
  in_fragment_8 text = true -> allow_dtd opt = true -> parse text opt = Ok d ->
  exists c : S6.doc, S8.wf_doc c = true /\ S8.render c = text /\
    S8.distinct_decls_le c (N.to_nat 65535) /\ 1 + N.of_nat (S8.ns_cost c) <= u32_max.
Proof.
  intros text opt d HF Ha H.
  exact (CstSound10eS8RDoc.parse_sound_fragment_8_val text opt d (val_ok8 text (in_fragment_8_Frag8 _ HF)) HF Ha H).
Qed.
Print Assumptions parse_sound_fragment_8_res.

Theorem parse_sound_and_complete_8 : forall text opt d,
  in_fragment_8 text = true -> allow_dtd opt = true -> parse text opt = Ok d ->
  exists c : S6.doc, S8.wf_doc c = true /\ S8.render c = text /\
    (N.of_nat (length (S8.sem c)) < nodes_limit opt -> N.of_nat (length (S8.sem c)) < u32_max -> N.of_nat (S8.nattrs c) < u32_max ->
     CstNsView.view text d = Some (S8.sem c)).
Proof.
  intros text opt d HF Ha H.
  destruct (parse_sound_fragment_8_res text opt d HF Ha H) as (c & Hwf & Hr & Hd & Hc).
  exists c. split; [exact Hwf|]. split; [exact Hr|]. intros _ L2 L3.
  exact (CstSound8Cor.parse_view_of_witness_8 text opt d c H Hwf Hr (fun _ => Ha) L2 L3 Hd Hc).
Qed.
Print Assumptions parse_sound_and_complete_8.

(* ---- CR inside comments / PI values, no DOCTYPE ---- *)
Theorem parse_sound_cr_init_res : forall text opt d,
  CstSoundCrLex.FragCr text -> contains_b (b "<!DOCTYPE") text = false -> CstSoundCrLex2.CrInit (strip_bom text) ->
  allow_dtd opt = true -> parse text opt = Ok d ->
  exists c : S6.doc, S8.wf_doc c = true /\ S8.render c = text /\
    S8.distinct_decls_le c (N.to_nat 65535) /\ 1 + N.of_nat (S8.ns_cost c) <= u32_max.
Proof.
  intros text opt d HF Hnd Hinit Hallow H. exact (CstSoundAllCrRDoc.parse_sound_cr_ctx text HF Hnd Hinit opt d Hallow H).
Qed.
Print Assumptions parse_sound_cr_init_res.

Theorem parse_sound_fragment_8cr2_res : forall text opt d,
  CstSoundCrFinal.in_fragment_8cr2 text = true -> allow_dtd opt = true -> parse text opt = Ok d ->
  exists c : S6.doc, S8.wf_doc c = true /\ S8.render c = text /\
    S8.distinct_decls_le c (N.to_nat 65535) /\ 1 + N.of_nat (S8.ns_cost c) <= u32_max.
Proof.
  intros text opt d HF Hallow H. unfold CstSoundCrFinal.in_fragment_8cr2 in HF. apply orb_true_iff in HF. destruct HF as [HF|HF].
  - exact (parse_sound_fragment_8_res text opt d HF Hallow H).
  - apply andb_true_iff in HF. destruct HF as [HF Hnd]. apply negb_true_iff in Hnd.
    destruct (CstSoundCrFinal.in_fragment_8_cr2_parts _ HF) as [HFr Hcr].
    exact (parse_sound_cr_init_res text opt d HFr Hnd (CstSoundCrLex2.good_init _ Hcr) Hallow H).
Qed.
Print Assumptions parse_sound_fragment_8cr2_res.

Theorem parse_sound_and_complete_8cr2 : forall text opt d,
  CstSoundCrFinal.in_fragment_8cr2 text = true -> allow_dtd opt = true -> parse text opt = Ok d ->
  exists c : S6.doc, S8.wf_doc c = true /\ S8.render c = text /\
    (N.of_nat (length (S8.sem c)) < nodes_limit opt -> N.of_nat (length (S8.sem c)) < u32_max -> N.of_nat (S8.nattrs c) < u32_max ->
     CstNsView.view text d = Some (S8.sem c)).
Proof.
  intros text opt d HF Ha H.
  destruct (parse_sound_fragment_8cr2_res text opt d HF Ha H) as (c & Hwf & Hr & Hd & Hc).
  exists c. split; [exact Hwf|]. split; [exact Hr|]. intros _ L2 L3.
  exact (CstSound8Cor.parse_view_of_witness_8 text opt d c H Hwf Hr (fun _ => Ha) L2 L3 Hd Hc).
Qed.
Print Assumptions parse_sound_and_complete_8cr2.

(* ---- the union ---- *)
Theorem parse_sound_all_res : forall text opt d,
  in_fragment_all text = true -> allow_dtd opt = true -> parse text opt = Ok d ->
  exists c : S6.doc, S10.wf_doc c = true /\ S10.render c = text /\
    S10.distinct_decls_le c (N.to_nat 65535) /\ 1 + N.of_nat (S10.ns_cost c) <= u32_max.
Proof.
  intros text opt d HF Hallow H. unfold in_fragment_all in HF. apply orb_true_iff in HF. destruct HF as [HF|HF].
  - exact (CstSound10eCor.parse_sound_fragment_10_res text opt d HF Hallow H).
  - destruct (parse_sound_fragment_8cr2_res text opt d HF Hallow H) as (c & Hwf & Hr & Hd & Hc).
    destruct (s8_in_s10 c Hwf) as (H10 & R10 & _ & _).
    exists c. split; [exact H10|]. split; [exact (eq_trans R10 Hr)|]. split; [exact Hd|exact Hc].
Qed.
Print Assumptions parse_sound_all_res.

Theorem parse_sound_and_complete_all : forall text opt d,
  in_fragment_all text = true -> allow_dtd opt = true -> parse text opt = Ok d ->
  exists c : S6.doc, S10.wf_doc c = true /\ S10.render c = text /\
    (N.of_nat (length (S10.sem c)) < nodes_limit opt -> N.of_nat (length (S10.sem c)) < u32_max -> N.of_nat (S10.nattrs c) < u32_max ->
     CstNsView.view text d = Some (S10.sem c)).
Proof.
  intros text opt d HF Ha H.
  destruct (parse_sound_all_res text opt d HF Ha H) as (c & Hwf & Hr & Hd & Hc).
  exists c. split; [exact Hwf|]. split; [exact Hr|]. intros _ L2 L3.
  exact (CstSound10Final.parse_view_of_witness_10 text opt d c H Hwf Hr (fun _ => Ha) L2 L3 Hd Hc).
Qed.
Print Assumptions parse_sound_and_complete_all.

Theorem parse_sound_and_complete_all_nl : forall text opt d,
  in_fragment_all text = true -> allow_dtd opt = true -> parse text opt = Ok d ->
  exists c : S6.doc, S10.wf_doc c = true /\ S10.render c = text /\
    S10.distinct_decls_le c (N.to_nat 65535) /\ 1 + N.of_nat (S10.ns_cost c) <= u32_max /\
    (N.of_nat (length (S10.sem c)) < u32_max -> N.of_nat (S10.nattrs c) < u32_max -> CstNsView.view text d = Some (S10.sem c)).
Proof.
  intros text opt d HF Ha H.
  destruct (parse_sound_all_res text opt d HF Ha H) as (c & Hwf & Hr & Hd & Hc).
  exists c. split; [exact Hwf|]. split; [exact Hr|]. split; [exact Hd|]. split; [exact Hc|]. intros L2 L3.
  exact (CstSound10Final.parse_view_of_witness_10 text opt d c H Hwf Hr (fun _ => Ha) L2 L3 Hd Hc).
Qed.
Print Assumptions parse_sound_and_complete_all_nl.

(* ---- the two examples of Proofs/CstSoundAll.v, with the tree ---- *)
Example exall_cor_applied :
  (forall d, parse CstSound10Final.ex10_text od = Ok d ->
     exists c : S6.doc, S10.wf_doc c = true /\ S10.render c = CstSound10Final.ex10_text /\
       S10.distinct_decls_le c (N.to_nat 65535) /\ 1 + N.of_nat (S10.ns_cost c) <= u32_max /\
       (N.of_nat (length (S10.sem c)) < u32_max -> N.of_nat (S10.nattrs c) < u32_max ->
        CstNsView.view CstSound10Final.ex10_text d = Some (S10.sem c))) /\
  (forall d, parse CstSoundCrFinal.excr_text od = Ok d ->
     exists c : S6.doc, S10.wf_doc c = true /\ S10.render c = CstSoundCrFinal.excr_text /\
       S10.distinct_decls_le c (N.to_nat 65535) /\ 1 + N.of_nat (S10.ns_cost c) <= u32_max /\
       (N.of_nat (length (S10.sem c)) < u32_max -> N.of_nat (S10.nattrs c) < u32_max ->
        CstNsView.view CstSoundCrFinal.excr_text d = Some (S10.sem c))).
Proof.
  destruct exall_nonvacuous as (F1 & _ & F2 & _).
  split; intros d Hd.
  - exact (parse_sound_and_complete_all_nl _ od d F1 eq_refl Hd).
  - exact (parse_sound_and_complete_all_nl _ od d F2 eq_refl Hd).
Qed.
Print Assumptions exall_cor_applied.
