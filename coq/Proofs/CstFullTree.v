(* Proofs/CstFullTree.v -- the capstone fragment (Spec/CstFull.v), combinatorial part: induction on the
   items of the frame, the list versions of the nested fixpoints, and how the sizes / tagged lists
   of Proofs/CstNsTree.v distribute over the concatenation of denotations. *)
From Coq Require Import List NArith PeanoNat Bool Lia ZifyBool ZifyN ZifyNat.
Import ListNotations.
From RX.Spec Require Cst CstNs CstU.
From RX.Spec Require Import Scope.
From RX.Spec Require Import CstFull.
From RX.Proofs Require CstNsTree CstNsDoc.
Open Scope N_scope.

Module NT := CstNsTree.

Section Tree.
Variable S : syntax.
Variable M : meaning S.

Notation item := (CstFull.item S).
Notation entry := (CstFull.entry S).

(* ---- induction on items ---- *)
Section ItemInd.
Variable P : item -> Prop.
Hypothesis Hempty : forall n a w, P (IElem n a w None).
Hypothesis Helem : forall n a w cs w2, Forall P cs -> P (IElem n a w (Some (cs, w2))).
Hypothesis Htext : forall r, P (IText r).
Hypothesis Hcomment : forall bs, P (IComment bs).
Hypothesis Hpi : forall t s v, P (IPI t s v).

Fixpoint fitem_ind (i : item) : P i :=
  match i with
  | IElem n a w None => Hempty n a w
  | IElem n a w (Some (cs, w2)) =>
    Helem n a w cs w2
      ((fix go (l : list item) : Forall P l :=
          match l with [] => Forall_nil P | c :: r => Forall_cons c (fitem_ind c) (go r) end) cs)
  | IText r => Htext r
  | IComment bs => Hcomment bs
  | IPI t s v => Hpi t s v
  end.
End ItemInd.

(* ---- the list versions of the nested fixpoints ---- *)
Fixpoint r_items (l : list item) : bytes :=
  match l with [] => [] | c :: r => r_item c ++ r_items r end.
Fixpoint wf_items (l : list item) : bool :=
  match l with [] => true | c :: r => wf_item M c && wf_items r end.
Fixpoint dens (l : list item) : list CstNs.item :=
  match l with [] => [] | c :: r => den M c ++ dens r end.
Fixpoint ns_oks (inh : list binding) (l : list CstNs.item) : bool :=
  match l with [] => true | c :: r => ns_ok inh c && ns_oks inh r end.

Lemma r_item_elem name es ws body :
  r_item (IElem name es ws body) =
  [60] ++ r_qname name ++ flat_map r_entry es ++ ws ++
  match body with
  | None => [47; 62]
  | Some (cs, ws2) => [62] ++ r_items cs ++ [60; 47] ++ r_qname name ++ ws2 ++ [62]
  end.
Proof.
  destruct body as [[cs ws2]|]; reflexivity.
Qed.

Lemma wf_item_elem name es ws body :
  wf_item M (IElem name es ws body) =
  wf_qname name && forallb (wf_entry M) es && Cst.wf_ws ws &&
  match body with
  | None => true
  | Some (cs, ws2) => Cst.wf_ws ws2 && no_adjacent_text S cs && wf_items cs
  end.
Proof.
  destruct body as [[cs ws2]|]; reflexivity.
Qed.

Lemma den_elem name es ws body :
  den M (IElem name es ws body) =
  [CstNs.IElem (x_qname name) (map (x_entry S (val_sem M)) es) ws
     (match body with None => None | Some (cs, ws2) => Some (dens cs, ws2) end)].
Proof.
  destruct body as [[cs ws2]|]; reflexivity.
Qed.

Lemma ns_oks_forallb inh l : forallb (ns_ok inh) l = ns_oks inh l.
Proof. induction l as [|c r IH]; [reflexivity|]. cbn [forallb ns_oks]. rewrite IH. reflexivity. Qed.

Lemma ns_oks_app inh l1 l2 : ns_oks inh (l1 ++ l2) = ns_oks inh l1 && ns_oks inh l2.
Proof. rewrite <- !ns_oks_forallb. apply forallb_app. Qed.

Lemma ns_oks_fix sc : forall cs,
  (fix all (l : list CstNs.item) : bool := match l with [] => true | c :: r => ns_ok sc c && all r end) cs = ns_oks sc cs.
Proof. induction cs as [|c r IH]; [reflexivity|]. cbn [ns_oks]. rewrite <- IH. reflexivity. Qed.

Lemma ns_ok_elem inh name es ws body :
  ns_ok inh (CstNs.IElem name es ws body) =
  let sc := NT.esc es inh in
  negb (bytes_eqb (CstNs.q_prefix name) CstNs.xmlns_b)
  && forallb ns_entry_ok es
  && prefixes_unique (CstNs.own_bindings es)
  && CstNs.is_bound (resolve_elem sc (CstNs.q_prefix name))
  && forallb (fun e => match e with
                       | CstNs.EAttr _ n _ => CstNs.is_bound (resolve_attr sc (CstNs.q_prefix n))
                       | CstNs.EDecl _ _ _ => true end) es
  && CstNs.enames_distinct (map (fun a => (fst (fst a), snd (fst a))) (CstNs.sem_attrs sc es))
  && match body with None => true | Some (cs, _) => ns_oks sc cs end.
Proof.
  destruct body as [[cs ws2]|]; [|reflexivity]. cbn [ns_ok]. cbv zeta. rewrite ns_oks_fix. reflexivity.
Qed.

End Tree.

Arguments r_items {S}. Arguments fitem_ind {S}.

(* ---- the CstNsTree functions on concatenations ---- *)
Lemma isizes_app l1 l2 : NT.isizes (l1 ++ l2) = (NT.isizes l1 + NT.isizes l2)%nat.
Proof. induction l1 as [|c r IH]; cbn [app NT.isizes]; [reflexivity|]. rewrite IH. lia. Qed.

Lemma nattrs_items_app l1 l2 : NT.nattrs_items (l1 ++ l2) = (NT.nattrs_items l1 + NT.nattrs_items l2)%nat.
Proof. induction l1 as [|c r IH]; cbn [app NT.nattrs_items]; [reflexivity|]. rewrite IH. lia. Qed.

Lemma ns_costs_app inh l1 l2 : NT.ns_costs inh (l1 ++ l2) = (NT.ns_costs inh l1 + NT.ns_costs inh l2)%nat.
Proof. induction l1 as [|c r IH]; cbn [app NT.ns_costs]; [reflexivity|]. rewrite IH. lia. Qed.

Lemma items_decls_app l1 l2 : NT.items_decls (l1 ++ l2) = NT.items_decls l1 ++ NT.items_decls l2.
Proof. induction l1 as [|c r IH]; cbn [app NT.items_decls]; [reflexivity|]. rewrite IH, app_assoc. reflexivity. Qed.

Lemma nsizes_app l1 l2 : NT.nsizes (l1 ++ l2) = NT.nsizes l1 + NT.nsizes l2.
Proof. unfold NT.nsizes. rewrite isizes_app. lia. Qed.

Lemma nsizes_one i : NT.nsizes [i] = NT.nsize i.
Proof. unfold NT.nsizes, NT.nsize. cbn [NT.isizes]. lia. Qed.
