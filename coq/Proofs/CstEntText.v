(* Proofs/CstEntText.v -- C07, character data with references to character-data entities: what
   [process_text_with] does on a text token whose pieces contain general entity references, by
   induction on the expansion derivation of Proofs/CstEntSem.v (nested references included). *)
From Coq Require Import Ascii String.
From Coq Require Import List NArith PeanoNat Bool Lia ZifyBool ZifyN ZifyNat.
Import ListNotations.
From RX Require Import Generated.
From RX.Model Require Import Base CharClass Stream Tokenizer Doc Builder Parse.
From RX.Spec Require Cst CstText CstEnt Detector.
From RX.Spec Require Import Text.
From RX.Proofs Require Import Tactics CstLex CstBuild TextMachine TextMerge HoistProofs NoPanicUtf8 DetectorProofs.
From RX.Proofs Require Import CstTextSem CstTextLex CstTextBuild CstEntSem.
Open Scope N_scope.

(* ------------------------------------------------------------------------------------------ *)
(* the context during a run of character data: only after_text, the node of the run, and the   *)
(* detector / tag name / entity floor (changed and restored around an expansion) vary          *)
(* ------------------------------------------------------------------------------------------ *)

Definition same_frame (a b : context) : Prop :=
  c_opt a = c_opt b /\ c_ns_start_idx a = c_ns_start_idx b /\ c_cur_attrs a = c_cur_attrs b /\
  c_awaiting a = c_awaiting b /\ c_parent_prefixes a = c_parent_prefixes b /\ c_entities a = c_entities b /\
  c_after_text a = c_after_text b /\ c_parent_id a = c_parent_id b /\ c_doc a = c_doc b.

Lemma same_frame_refl a : same_frame a a.
Proof. repeat split. Qed.

Lemma same_frame_trans a b c : same_frame a b -> same_frame b c -> same_frame a c.
Proof. unfold same_frame. intuition congruence. Qed.

Lemma same_frame_sym a b : same_frame a b -> same_frame b a.
Proof. unfold same_frame. intuition congruence. Qed.

Definition Run (c0 c : context) (frs : list cow) : Prop :=
  match frs with
  | [] => same_frame c0 c
  | t0 :: _ =>
    exists nodes', map abs_nd nodes' = absn (c_doc c0) ++ [(Some (c_parent_id c0), KText (cow_storage t0))] /\
                   same_frame (set_after_text (run_ctx c0 nodes') frs) c
  end.

Lemma Run_frame c0 c c' frs : Run c0 c frs -> same_frame c c' -> Run c0 c' frs.
Proof.
  unfold Run. destruct frs as [|t0 r]; [intros; eapply same_frame_trans; eassumption|].
  intros (nodes' & M & S) H. exists nodes'. split; [exact M|eapply same_frame_trans; eassumption].
Qed.

Lemma Run_entities c0 c frs : Run c0 c frs -> c_entities c = c_entities c0.
Proof.
  unfold Run. destruct frs as [|t0 r]; [intros H; symmetry; apply H|].
  intros (nodes' & _ & S). destruct S as (_ & _ & _ & _ & _ & E & _). symmetry. exact E.
Qed.

Lemma Run_pp c0 c frs : Run c0 c frs -> c_parent_prefixes c = c_parent_prefixes c0.
Proof.
  unfold Run. destruct frs as [|t0 r]; [intros H; symmetry; apply H|].
  intros (nodes' & _ & S). destruct S as (_ & _ & _ & _ & E & _). symmetry. exact E.
Qed.

Lemma append_node_frame kind r a b : same_frame a b ->
  match append_node kind r a, append_node kind r b with
  | Ok (i, a'), Ok (j, b') => i = j /\ same_frame a' b' /\ c_ld b' = c_ld b /\ c_tag_name b' = c_tag_name b /\
                              c_entity_floor b' = c_entity_floor b
  | Ok _, _ => False
  | _, _ => True
  end.
Proof.
  intros (H1 & H2 & H3 & H4 & H5 & H6 & H7 & H8 & H9). unfold append_node. cbv zeta.
  rewrite <- H1, <- H4, <- H8, <- H9.
  destruct (nodes_limit (c_opt a) <=? len_N (d_nodes (c_doc a))); [exact I|].
  destruct (node_id_new _) as [nid| | |]; cbn [bind]; try exact I.
  destruct (nth_N _ (c_parent_id a)) as [pnd|]; cbn [bind]; [|exact I].
  destruct (upd_node _ nid _) as [n1| | |]; cbn [bind]; try exact I.
  destruct (upd_node n1 _ _) as [n2| | |]; cbn [bind]; try exact I.
  destruct (set_next_subtree_all n2 _ nid) as [n3| | |]; cbn [bind]; try exact I.
  split; [reflexivity|]. split.
  { unfold same_frame. cbn. repeat split; assumption || reflexivity. }
  repeat split.
Qed.

Lemma Ok_inj {A} (a b : A) : Ok a = Ok b -> a = b.
Proof. intros H. injection H. auto. Qed.

(* one more fragment *)
Lemma run_append t r c0 c frs : Run c0 c frs -> CI c0 -> (frs = [] -> room c0) -> c_after_text c0 = [] ->
  exists c', append_text t r c = Ok c' /\ Run c0 c' (frs ++ [t]) /\
             c_ld c' = c_ld c /\ c_tag_name c' = c_tag_name c /\ c_entity_floor c' = c_entity_floor c.
Proof.
  intros HR I R0 Hat. destruct frs as [|t0 rest].
  - pose proof (R0 eq_refl) as R. cbn [Run app] in *. pose proof HR as (H1 & H2 & H3 & H4 & H5 & H6 & H7 & H8 & H9).
    destruct (first_frag t r c0 I R Hat) as (nodes' & E & M & Ln).
    assert (Hatc : c_after_text c = []) by (rewrite <- H7; exact Hat).
    unfold append_text in E |- *. rewrite Hat in E. rewrite Hatc. fold (cow_storage t) in E |- *.
    pose proof (append_node_frame (KText (cow_storage t)) r c0 c HR) as Hf.
    destruct (append_node (KText (cow_storage t)) r c0) as [[i a']| | |]; cbn [bind] in E; try discriminate.
    destruct (append_node (KText (cow_storage t)) r c) as [[j b']| | |]; try contradiction.
    destruct Hf as (_ & S & L1 & L2 & L3). cbn [bind]. eexists. split; [reflexivity|].
    apply Ok_inj in E. split.
    + exists nodes'. split; [exact M|]. rewrite <- E.
      destruct S as (S1 & S2 & S3 & S4 & S5 & S6 & S7 & S8 & S9).
      unfold same_frame. cbn. repeat split; try assumption. rewrite S7. reflexivity.
    + cbn. auto.
  - cbn [Run] in HR. destruct HR as (nodes' & M & S).
    assert (Hne : c_after_text c = t0 :: rest) by (destruct S as (_ & _ & _ & _ & _ & _ & S7 & _); rewrite <- S7; reflexivity).
    rewrite append_text_cont by (rewrite Hne; discriminate). eexists. split; [reflexivity|]. split; [|cbn; auto].
    cbn [app Run]. exists nodes'. split; [exact M|]. rewrite Hne.
    destruct S as (S1 & S2 & S3 & S4 & S5 & S6 & S7 & S8 & S9). unfold same_frame. cbn in *. repeat split; assumption.
Qed.

(* ------------------------------------------------------------------------------------------ *)
(* lexing on a sub-range: a text token that extends to the end of the range                    *)
(* ------------------------------------------------------------------------------------------ *)

Section Sub.
Variable text : bytes.
Hypothesis Hascii : Forall (fun x => x < 128) text.
Notation W := (CstLex.W text).

Lemma skip_chars_loop_sst f e : forall x p tail fuel,
  (forall s c, In c x -> f s c = true) -> forallb T.is_tplain x = true ->
  p + blen x = e -> (length x < fuel)%nat ->
  skip_chars_loop text fuel f (sst e p (x ++ tail)) = Ok (sst e e tail).
Proof.
  induction x as [|c x IH]; intros p tail fuel Hf Hx He Hfu.
  - cbn [app]. rewrite blen_nil, N.add_0_r in He. subst p. destruct fuel as [|fu]; [cbn in Hfu; lia|].
    cbn [skip_chars_loop]. unfold next_char. rewrite at_end_sst. replace (e <=? e) with true by lia. reflexivity.
  - destruct fuel as [|fu]; [cbn in Hfu; lia|]. cbn [length] in Hfu. cbn [app]. rewrite blen_cons in He.
    cbn [forallb] in Hx. apply andb_true_iff in Hx. destruct Hx as [Hc Hx].
    destruct (tplain_char _ Hc) as (L & K & _).
    cbn [skip_chars_loop]. rewrite next_char_sst by (try assumption; lia). cbn [bind]. rewrite K. cbn [negb].
    rewrite Hf by (left; reflexivity). rewrite advance1_sst by lia. cbn [bind].
    apply IH; [intros s c0 Hin; apply Hf; right; exact Hin|exact Hx|lia|lia].
Qed.

Variable C : Type.
Variable ev : Tokenizer.token -> C -> res C.

(* the whole range is one text token *)
Lemma parse_text_sst e p x tail c : W p (x ++ tail) -> p + blen x = e -> e <= tlen text ->
  forallb (fun y => T.is_tplain y && negb (y =? 60)) x = true -> contains_b n3 x = false ->
  parse_text text C ev (sst e p (x ++ tail)) c =
  let! c' := ev (TText (sl p e) (p, e)) c in Ok (sst e e tail, c').
Proof.
  intros HW He Hle Hx Hc. unfold parse_text. cbv zeta. unfold consume_chars, skip_chars.
  rewrite (skip_chars_loop_sst _ e x p tail); [| | |exact He|cbn [sst s_rest]; rewrite app_length; lia].
  2:{ intros s c0 Hin. rewrite forallb_forall in Hx. specialize (Hx _ Hin). apply andb_true_iff in Hx. apply Hx. }
  2:{ revert Hx. apply forallb_imp. intros y Hy. apply andb_true_iff in Hy. apply Hy. }
  cbn [bind]. unfold slice_back. cbn [sst s_pos].
  rewrite (mk_slice_ok text Hascii) by lia. cbn [bind].
  unfold slice_bytes. cbn [sl sl_start sl_end]. rewrite <- He. rewrite (W_sub _ _ _ _ HW).
  change (b "]]>") with n3. rewrite Hc, andb_false_r. cbn [sst s_pos]. reflexivity.
Qed.

End Sub.

(* the content parser on a range that is character data only: at most one text token *)
Lemma content_loop_text text (Hascii : Forall (fun x => x < 128) text) C ev e p x tail (c : C) fuel :
  CstLex.W text p (x ++ tail) -> p + blen x = e -> e <= tlen text ->
  forallb (fun y => T.is_tplain y && negb (y =? 60)) x = true -> contains_b n3 x = false ->
  parse_content_loop text C ev (S (S fuel)) 0 (sst e p (x ++ tail)) c =
  match x with
  | [] => Ok (sst e e tail, c)
  | _ => let! c' := ev (TText (sl p e) (p, e)) c in Ok (sst e e tail, c')
  end.
Proof.
  intros HW He Hle Hx Hc. destruct x as [|y x'].
  - cbn [app] in *. rewrite blen_nil, N.add_0_r in He. subst p. cbn [parse_content_loop]. rewrite at_end_sst.
    replace (e <=? e) with true by lia. reflexivity.
  - cbn [parse_content_loop]. rewrite at_end_sst. rewrite blen_cons in He. replace (e <=? p) with false by lia.
    cbn [app curr_byte_unchecked sst s_rest bind].
    cbn [forallb] in Hx. replace (y =? 60) with false by lia.
    change (sst e p (y :: x' ++ tail)) with (sst e p ((y :: x') ++ tail)).
    fold (sst e p ((y :: x') ++ tail)).
    rewrite (parse_text_sst text Hascii C ev e p (y :: x') tail c) by (try assumption; rewrite blen_cons; lia).
    destruct (ev _ c) as [c'| | |]; cbn [bind]; try reflexivity.
    rewrite at_end_sst. replace (e <=? e) with true by lia. reflexivity.
Qed.

Lemma content_loop_text_ne text (Hascii : Forall (fun x => x < 128) text) C ev e p x tail (c : C) fuel :
  CstLex.W text p (x ++ tail) -> p + blen x = e -> e <= tlen text ->
  forallb (fun y => T.is_tplain y && negb (y =? 60)) x = true -> contains_b n3 x = false -> x <> [] ->
  parse_content_loop text C ev (S (S fuel)) 0 (sst e p (x ++ tail)) c =
  let! c' := ev (TText (sl p e) (p, e)) c in Ok (sst e e tail, c').
Proof.
  intros HW He Hle Hx Hc Hne. rewrite (content_loop_text text Hascii C ev e p x tail c fuel) by assumption.
  destruct x; [congruence|reflexivity].
Qed.

(* ------------------------------------------------------------------------------------------ *)
(* the environment of declared entities and the pieces of their values                        *)
(* ------------------------------------------------------------------------------------------ *)

Lemma beq_bytes_eqb x y : E.beq x y = bytes_eqb x y.
Proof.
  unfold E.beq. destruct (list_eq_dec N.eq_dec x y) as [->|Hn].
  - symmetry. apply CstBuild.bytes_eqb_refl.
  - symmetry. apply bytes_eqb_neq. exact Hn.
Qed.

(* a chunk in mode m: valid, not an empty reference, and without referenced CR / LF in entity mode *)
Definition chunk_okm (m : bool) (c : chunk) : Prop :=
  chunk_ok c /\ c <> CRef [] /\ (m = true -> chunk_plain c).

Definition ep_ok (m : bool) (p : E.epiece) : Prop :=
  match p with
  | E.EP q => T.wf_vpiece 60 q = true /\ (m = true -> E.charref_ok_in_value q = true)
  | E.ERef n => Cst.wf_name n = true /\ E.is_predef_name n = false
  end.

Lemma ep_chunks m q : ep_ok m (E.EP q) -> Forall (chunk_okm m) (T.piece_chunks q).
Proof.
  intros [Hv Hc]. destruct (piece_chunks_ok 60 q (or_introl Hv)) as [H1 H2].
  destruct q as [bs|hex ds|e|bs]; cbn [T.wf_vpiece] in Hv; try discriminate; cbn [T.piece_chunks] in *.
  - apply Forall_forall. intros c Hin. rewrite Forall_forall in H1, H2.
    split; [apply H1; exact Hin|]. split; [apply H2; exact Hin|]. intros _.
    apply in_map_iff in Hin. destruct Hin as (x & <- & _). exact I.
  - inversion H1 as [|? ? Hc1 _]; subst. inversion H2 as [|? ? Hc2 _]; subst.
    constructor; [|constructor]. split; [exact Hc1|]. split; [exact Hc2|]. intros Hm. specialize (Hc Hm).
    cbn [chunk_plain]. split; [intros E0; apply Hc2; rewrite E0; reflexivity|].
    cbn [E.charref_ok_in_value] in Hc. cbv zeta in Hc.
    change (T.utf8 (T.ref_val hex ds)) with (encode_utf8 (T.ref_val hex ds)).
    destruct (T.ref_val hex ds <? 128) eqn:E128.
    + rewrite encode_ascii by exact E128. cbn [forallb]. lia.
    + pose proof (encode_high _ E128) as Hh. revert Hh. apply forallb_imp. intros x Hx. lia.
  - inversion H1 as [|? ? Hc1 _]; subst. constructor; [|constructor]. split; [exact Hc1|]. split; [discriminate|].
    intros _. cbn [chunk_plain]. split; [discriminate|]. destruct e; reflexivity.
Qed.

Lemma emit_valid m acc : Forall (chunk_okm m) acc ->
  run_text_chunks m acc = decode_chunks acc /\ Valid (decode_chunks acc).
Proof.
  intros H. split.
  - destruct m.
    + apply in_entity_decode. eapply Forall_impl; [|exact H]. intros c (_ & _ & Hc). apply Hc. reflexivity.
    + apply text_chunks_decode_partial. eapply Forall_impl; [|exact H]. intros c (_ & Hc & _). exact Hc.
  - apply Valid_decode. eapply Forall_impl; [|exact H]. intros c (Hc & _). exact Hc.
Qed.

Section Ent.
Variable text : bytes.
Hypothesis Hascii : Forall (fun x => x < 128) text.
Variable decls : list E.edecl.
Variable es : list entity.

Notation W := (CstLex.W text).

Definition ent_ok (d : E.edecl) (en : entity) : Prop :=
  slice_bytes text (en_name en) = E.e_name d /\
  exists vs tail, en_value en = sl vs (vs + blen (E.r_value (E.e_value d))) /\
                  W vs (E.r_value (E.e_value d) ++ tail).
Hypothesis Henv : Forall2 ent_ok decls es.

Definition decl_ok (d : E.edecl) : Prop :=
  match E.e_value d with
  | E.EText vps => Forall (ep_ok true) vps /\ contains_b n3 (E.r_epieces vps) = false
  | _ => True
  end.
Hypothesis Hdecls : Forall decl_ok decls.

Lemma find_first_gen n d : forall ds es', Forall2 ent_ok ds es' -> Forall decl_ok ds ->
  find (fun d0 => E.beq (E.e_name d0) n) ds = Some d ->
  exists en, find_entity text es' n = Some en /\ ent_ok d en /\ decl_ok d.
Proof.
  induction 1 as [|d0 e0 ds es' H0 _ IH]; intros HD Hf; [discriminate|].
  inversion HD as [|? ? Hd0 HDs]; subst. cbn [find find_entity] in *. destruct H0 as [Hn Hv].
  rewrite Hn, <- beq_bytes_eqb. destruct (E.beq (E.e_name d0) n).
  - injection Hf as <-. exists e0. split; [reflexivity|]. split; [split; assumption|exact Hd0].
  - apply IH; assumption.
Qed.

Lemma find_first n d : first_decl decls n = Some d ->
  exists en, find_entity text es n = Some en /\ ent_ok d en /\ decl_ok d.
Proof. apply find_first_gen; assumption. Qed.

(* ---- a reference to a declared entity ---- *)
Lemma predef_false n : E.is_predef_name n = false ->
  bytes_eqb n (b "quot") = false /\ bytes_eqb n (b "amp") = false /\ bytes_eqb n (b "apos") = false /\
  bytes_eqb n (b "lt") = false /\ bytes_eqb n (b "gt") = false.
Proof.
  unfold E.is_predef_name. cbn [existsb]. rewrite !orb_false_iff. intros (A & L & G & P & Q & _).
  rewrite !beq_bytes_eqb in *.
  assert (S : forall x, bytes_eqb x n = false -> bytes_eqb n x = false).
  { intros x Hx. destruct (bytes_eqb n x) eqn:E0; [|reflexivity]. apply bytes_eqb_eq in E0. subst x.
    rewrite CstBuild.bytes_eqb_refl in Hx. discriminate. }
  repeat split; apply S; assumption.
Qed.

Lemma cref_entity e p n more : W p ([38] ++ n ++ [59] ++ more) -> Cst.wf_name n = true ->
  E.is_predef_name n = false -> p + 2 + blen n <= e -> e <= tlen text ->
  consume_reference text (sst e p ([38] ++ n ++ [59] ++ more)) =
  Ok (Some (RefEntity (sl (p + 1) (p + 1 + blen n)), sst e (p + 2 + blen n) more)).
Proof.
  intros HW Hn Hp He Hle. cbn [app] in HW |- *.
  unfold consume_reference. rewrite try_yes by lia.
  assert (Hfirst : exists x r, n = x :: r /\ x <> 35).
  { destruct n as [|x r]; [discriminate|]. cbn [Cst.wf_name] in Hn. apply andb_true_iff in Hn. destruct Hn as [Hx _].
    exists x, r. split; [reflexivity|]. unfold Cst.is_name_start in Hx. lia. }
  destruct Hfirst as (x0 & r0 & Ex & Hx0).
  replace (try_consume_byte 35 (sst e (p + 1) (n ++ 59 :: more)))
    with (false, sst e (p + 1) (n ++ 59 :: more))
    by (rewrite Ex; cbn [app]; symmetry; apply try_no; exact Hx0).
  cbn [negb].
  pose proof (W_cons _ _ _ _ HW) as HW1.
  rewrite (consume_name_sst text Hascii e n (p + 1) (59 :: more)); try assumption; try lia.
  2:{ cbn [name_stop]. unfold not_name_byte. cls. lia. }
  2:{ discriminate. }
  rewrite (W_slice _ _ _ _ HW1). cbn [bind].
  destruct (predef_false n Hp) as (Q & A & P & L & G).
  rewrite Q, A, P, L, G. rewrite consume_byte_sst by lia.
  f_equal. f_equal. f_equal. f_equal. lia.
Qed.

Lemma pnc_entity e p n more d : W p ([38] ++ n ++ [59] ++ more) -> Cst.wf_name n = true ->
  E.is_predef_name n = false -> p + 2 + blen n <= e -> e <= tlen text ->
  first_decl decls n = Some d ->
  exists en, parse_next_chunk text (sst e p ([38] ++ n ++ [59] ++ more)) es =
             Ok (ChText (en_value en), sst e (p + 2 + blen n) more) /\ ent_ok d en /\ decl_ok d.
Proof.
  intros HW Hn Hp He Hle Hf. destruct (find_first n d Hf) as (en & Efind & Hok & Hd).
  exists en. split; [|split; assumption].
  unfold parse_next_chunk. rewrite at_end_sst. replace (e <=? p) with false by lia.
  cbn [app curr_byte_unchecked sst s_rest bind]. change (38 =? 38) with true. cbv iota zeta.
  fold (sst e p (38 :: n ++ 59 :: more)).
  pose proof (cref_entity e p n more HW Hn Hp He Hle) as Ec. cbn [app] in Ec. rewrite Ec. cbn [bind].
  pose proof (W_cons _ _ _ _ HW) as HW1. cbn [app] in HW1.
  rewrite (W_slice _ _ _ _ HW1), Efind. reflexivity.
Qed.

(* ---- the loop of process_text_with over one piece that is not a reference to an entity ---- *)
Lemma loop_piece pc r q e p more buf c f : T.wf_vpiece 60 q = true ->
  W p (T.r_piece q ++ more) -> p + blen (T.r_piece q) <= e -> e <= tlen text ->
  text_loop text pc r (length (T.piece_chunks q) + f) (sst e p (T.r_piece q ++ more)) buf c =
  text_loop text pc r f (sst e (p + blen (T.r_piece q)) more)
    (push_text_chunks (0 <? ld_depth (c_ld c)) (T.piece_chunks q) buf) c.
Proof.
  intros Hv HW He Hle. destruct q as [bs|hex ds|pe|bs]; cbn [T.wf_vpiece] in Hv; try discriminate.
  - apply lit_not_amp in Hv. cbn [T.r_piece T.piece_chunks] in *. rewrite map_length.
    revert p buf HW He. induction bs as [|x bs IH]; intros p buf HW He.
    + cbn [map app length Nat.add push_text_chunks]. rewrite blen_nil, N.add_0_r. reflexivity.
    + cbn [forallb] in Hv. apply andb_true_iff in Hv. destruct Hv as [Hx Hb].
      cbn [map app length Nat.add] in *. rewrite blen_cons in *. cbn [text_loop].
      rewrite at_end_sst. replace (e <=? p) with false by lia.
      rewrite (pnc_byte text) by lia. cbn [bind push_text_chunks].
      rewrite (IH Hb) by (try apply (W_cons _ _ _ _ HW); lia).
      replace (p + 1 + blen bs) with (p + (1 + blen bs)) by lia. reflexivity.
  - cbn [T.piece_chunks length Nat.add push_text_chunks]. cbn [text_loop].
    pose proof (cref_charref text Hascii e p hex ds more HW Hv He Hle) as Ec.
    assert (Hlt : p < e) by (cbn [T.r_piece app] in He; rewrite !blen_cons in He; lia).
    rewrite at_end_sst. replace (e <=? p) with false by lia.
    cbn [T.r_piece] in Ec, HW |- *. rewrite <- !app_assoc in *. cbn [app] in Ec |- *.
    rewrite (pnc_ref text _ e p _ _ _ Hlt Ec). cbn [bind]. reflexivity.
  - cbn [T.piece_chunks length Nat.add push_text_chunks]. cbn [text_loop].
    pose proof (cref_predef text Hascii e p pe more HW He Hle) as Ec.
    assert (Hlt : p < e) by (cbn [T.r_piece app] in He; rewrite !blen_cons in He; lia).
    rewrite at_end_sst. replace (e <=? p) with false by lia.
    cbn [T.r_piece] in Ec, HW |- *. rewrite <- !app_assoc in *. cbn [app] in Ec |- *.
    rewrite (pnc_ref text _ e p _ _ _ Hlt Ec). cbn [bind].
    replace (encode_utf8 (T.predef_char pe)) with [T.predef_char pe] by (destruct pe; reflexivity). reflexivity.
Qed.

Lemma chunks_le_piece q : T.wf_vpiece 60 q = true -> (length (T.piece_chunks q) <= length (T.r_piece q))%nat.
Proof.
  destruct q as [bs|hex ds|pe|bs]; cbn [T.wf_vpiece T.piece_chunks T.r_piece]; intros H; try discriminate;
    rewrite ?map_length, ?app_length; cbn [length]; lia.
Qed.

(* ---- finishing the buffer ---- *)
Lemma finish_emit m acc r c0 c frs : Forall (chunk_okm m) acc ->
  Run c0 c frs -> CI c0 -> (frs = [] -> emit m acc <> [] -> room c0) -> c_after_text c0 = [] ->
  exists c' G, finish_text r (push_text_chunks m acc tb_new) c = Ok c' /\ Run c0 c' (frs ++ G) /\
               map (cow_bytes text) G = emit m acc /\
               c_ld c' = c_ld c /\ c_tag_name c' = c_tag_name c /\ c_entity_floor c' = c_entity_floor c.
Proof.
  intros Hacc HR I R Hat. rewrite finish_text_spec.
  change (tb_buf (tb_flush (push_text_chunks m acc tb_new))) with (run_text_chunks m acc).
  destruct (emit_valid m acc Hacc) as [Eo Hv]. unfold emit, text_result.
  destruct (run_text_chunks m acc) as [|y out] eqn:Er.
  - exists c, []. rewrite app_nil_r. repeat split; auto.
  - rewrite <- Eo in Hv. apply valid_iff_Valid in Hv. rewrite Hv.
    destruct (run_append (CowOwned (y :: out)) r c0 c frs HR I (fun E0 => R E0 ltac:(unfold emit; rewrite Er; discriminate)) Hat) as (c' & E & HR' & L1 & L2 & L3).
    exists c', [CowOwned (y :: out)]. repeat split; auto.
Qed.

Lemma enter_model s ld ld1 : ld_enter ld = Some ld1 ->
  exists l0, inc_references text s ld = Ok l0 /\ inc_depth text s l0 = Ok ld1.
Proof.
  intros H. pose proof (enter_agrees_model text s ld) as A. rewrite H in A.
  apply bind_ok in A. exact A.
Qed.

(* rendered bytes of value pieces *)
Lemma ep_bytes m ps : Forall (ep_ok m) ps ->
  forallb (fun y => T.is_tplain y && negb (y =? 60)) (E.r_epieces ps) = true.
Proof.
  induction 1 as [|p ps Hp _ IH]; [reflexivity|]. cbn [E.r_epieces flat_map]. apply forallb_app'; [|exact IH].
  destruct p as [q|n]; cbn [ep_ok E.r_epiece] in *.
  - destruct Hp as [Hv _]. pose proof (vpiece_bytes 60 q ltac:(auto) Hv) as Hb. revert Hb. apply forallb_imp.
    intros x Hx. unfold vbyte in Hx. rewrite !andb_true_iff in Hx. destruct Hx as [[A B0] _]. rewrite A, B0. reflexivity.
  - destruct Hp as [Hn _]. apply forallb_app'; [reflexivity|]. apply forallb_app'; [|reflexivity].
    destruct n as [|x n]; [discriminate|]. cbn [Cst.wf_name] in Hn. apply andb_true_iff in Hn. destruct Hn as [H1 H2].
    cbn [forallb]. apply andb_true_iff. split.
    + unfold Cst.is_name_start, T.is_tplain in *. lia.
    + revert H2. apply forallb_imp. intros y Hy. unfold Cst.is_name_char, Cst.is_name_start, T.is_tplain in *. lia.
Qed.

(* a value without '&': no references, one fragment (the value itself) or none *)
Lemma exp_plain m : forall ps acc q tr F, Exp decls m acc ps q tr F -> Forall (ep_ok m) ps ->
  existsb (fun x => x =? 38) (E.r_epieces ps) = false ->
  tr = [] /\ F = emit m (acc ++ map CLit (E.r_epieces ps)).
Proof.
  intros ps acc q tr F H. induction H as [m acc|m acc p r q tr F _ IH|]; intros Hok Hn.
  - cbn [E.r_epieces flat_map map]. rewrite app_nil_r. auto.
  - inversion Hok as [|? ? Hp Hr]; subst. cbn [E.r_epieces flat_map E.r_epiece] in Hn |- *.
    rewrite existsb_app in Hn. apply orb_false_iff in Hn. destruct Hn as [Hn1 Hn2].
    destruct (IH Hr Hn2) as [-> ->]. split; [reflexivity|]. f_equal. rewrite <- app_assoc, map_app. f_equal. f_equal.
    destruct Hp as [Hv _]. destruct p as [bs|hex ds|e|bs]; cbn [T.wf_vpiece T.piece_chunks T.r_piece] in *; try reflexivity; discriminate.
  - cbn [E.r_epieces flat_map E.r_epiece app existsb] in Hn. discriminate.
Qed.

(* ------------------------------------------------------------------------------------------ *)
(* the loop of process_text_with on character data with references                            *)
(* ------------------------------------------------------------------------------------------ *)

Lemma TL : forall m acc ps q tr F, Exp decls m acc ps q tr F ->
  forall e p more c0 c frs fuel lvl r ld',
  Forall (ep_ok m) ps -> W p (E.r_epieces ps ++ more) -> p + blen (E.r_epieces ps) = e -> e <= tlen text ->
  m = (0 <? ld_depth (c_ld c)) -> Forall (chunk_okm m) acc ->
  c_entities c = es -> ld_run (c_ld c) tr = Some ld' -> N.of_nat lvl + ld_depth (c_ld c) = 12 ->
  CI c0 -> (frs = [] -> F <> [] -> room c0) -> c_after_text c0 = [] -> Run c0 c frs ->
  (length (E.r_epieces ps) < fuel)%nat ->
  exists c' G,
    (let! (b0, c1) := text_loop text (parse_content_lvl text lvl) r fuel (sst e p (E.r_epieces ps ++ more))
                        (push_text_chunks m acc tb_new) c in finish_text r b0 c1) = Ok c' /\
    Run c0 c' (frs ++ G) /\ map (cow_bytes text) G = F /\
    c_ld c' = ld' /\ ld_depth ld' = ld_depth (c_ld c) /\
    c_tag_name c' = c_tag_name c /\ c_entity_floor c' = c_entity_floor c.
Proof.
  intros m acc ps q tr F H.
  induction H as [m acc|m acc pc0 rest q tr F _ IH|m acc n rest d vps qv trv Fv q tr F Hfd Hval Hv IHv Hr IHr];
    intros e p more c0 c frs fuel lvl r ld' Hok HW He Hle Hm Hacc Hes Hld Hlvl I R Hat HR Hfu.
  - (* end of the token *)
    cbn [E.r_epieces flat_map app] in *. rewrite blen_nil, N.add_0_r in He. subst p.
    destruct fuel as [|fu]; [lia|]. cbn [text_loop]. rewrite at_end_sst. replace (e <=? e) with true by lia.
    cbn [bind]. cbn [ld_run] in Hld. injection Hld as <-.
    destruct (finish_emit m acc r c0 c frs Hacc HR I R Hat) as (c' & G & E & HR' & HG & L1 & L2 & L3).
    exists c', G. repeat split; auto.
  - (* a piece *)
    apply Forall_cons_iff in Hok. destruct Hok as [Hp Hrest]. cbn [E.r_epieces flat_map E.r_epiece] in *. fold (E.r_epieces rest) in *.
    rewrite <- app_assoc in HW |- *. rewrite blen_app in He.
    pose proof Hp as [Hvp _]. pose proof (chunks_le_piece pc0 Hvp) as Hcl. rewrite app_length in Hfu.
    replace fuel with (length (T.piece_chunks pc0) + (fuel - length (T.piece_chunks pc0)))%nat by lia.
    rewrite loop_piece by (try assumption; lia). rewrite <- Hm.
    rewrite <- push_text_chunks_app.
    apply (IH e _ more c0 c frs _ lvl r ld'); try assumption; try lia.
    + apply (W_app _ _ _ _ HW).
    + apply Forall_app. split; [exact Hacc|apply ep_chunks; exact Hp].
  - (* a reference *)
    apply Forall_cons_iff in Hok. destruct Hok as [Hp Hrest]. destruct Hp as [Hn Hpre].
    cbn [E.r_epieces flat_map E.r_epiece] in *. fold (E.r_epieces rest) in *.
    rewrite <- !app_assoc in HW |- *. rewrite !blen_app in He. change (blen [38]) with 1 in He. change (blen [59]) with 1 in He.
    destruct (pnc_entity e p n (E.r_epieces rest ++ more) d HW Hn Hpre ltac:(lia) Hle Hfd) as (en & Epnc & (Hen & vs & tail & Eval & HWv) & Hdok).
    unfold decl_ok in Hdok. rewrite Hval in Hdok. destruct Hdok as [Hvok Hvn3].
    rewrite Hval in Eval, HWv. cbn [E.r_value] in Eval, HWv.
    destruct fuel as [|fu]; [lia|].
    erewrite text_loop_entity_step; [|rewrite at_end_sst; lia|rewrite Hes; exact Epnc].
    (* flush *)
    destruct (finish_emit m acc r c0 c frs Hacc HR I (fun Z0 Z1 => R Z0 ltac:(intros Z2; apply app_eq_nil in Z2; destruct Z2; contradiction)) Hat) as (c1 & G0 & E0 & HR1 & HG0 & L1 & L2 & L3).
    rewrite E0. cbn [bind].
    (* the detector *)
    cbn [ld_run] in Hld. destruct (ld_enter (c_ld c)) as [ld1|] eqn:Eenter; [|discriminate].
    rewrite ld_run_app in Hld. destruct (ld_run ld1 trv) as [ld1'|] eqn:Erun1; [|discriminate]. cbn [ld_run] in Hld.
    rewrite L1. destruct (enter_model (sst e (p + 2 + blen n) (E.r_epieces rest ++ more)) _ _ Eenter) as (l0 & Ei1 & Ei2).
    rewrite Ei1. cbn [bind]. rewrite Ei2. cbn [bind]. cbv zeta.
    assert (Hd1 : ld_depth ld1 = ld_depth (c_ld c) + 1 /\ ld_depth (c_ld c) < 10).
    { rewrite (mk_eta (c_ld c)) in Eenter. apply ld_enter_some in Eenter. destruct Eenter as [Hlt [[H0 ->]|[H0 [_ ->]]]].
      - unfold DetectorProofs.mk. cbn. rewrite H0. split; [reflexivity|lia].
      - unfold DetectorProofs.mk. cbn. split; [reflexivity|exact Hlt]. }
    destruct Hd1 as [Hd1 Hd10].
    (* the value *)
    rewrite Eval. cbn [sl sl_start sl_end].
    rewrite (stream_from_substr_W text vs (E.r_epieces vps) tail HWv). cbn [bind].
    destruct lvl as [|lvl']; [lia|].
    assert (Epc : forall s0 cc, parse_content_lvl text (S lvl') s0 cc =
              parse_content_loop text context (token_with text (process_text_with text (parse_content_lvl text lvl')))
                (S (length (s_rest s0))) 0 s0 cc) by reflexivity.
    rewrite Epc. cbn [sst s_rest].
    set (ve := vs + blen (E.r_epieces vps)) in *.
    set (c2 := set_entity_floor (set_tag_name (set_ld c1 ld1) tag_name_null) (len_N (c_parent_prefixes (set_ld c1 ld1)))).
    assert (HR2 : Run c0 c2 (frs ++ G0)) by (eapply Run_frame; [exact HR1|unfold c2; repeat split]).
    pose proof (W_le _ _ _ (W_app _ _ _ _ HWv)) as Hlev. fold ve in Hlev.
    pose proof (ep_bytes true vps Hvok) as Hvb.
    assert (Hinner : exists c2' Gv,
              parse_content_loop text context (token_with text (process_text_with text (parse_content_lvl text lvl')))
                (S (length (E.r_epieces vps ++ tail))) 0 (sst ve vs (E.r_epieces vps ++ tail)) c2 = Ok (sst ve ve tail, c2') /\
              Run c0 c2' ((frs ++ G0) ++ Gv) /\ map (cow_bytes text) Gv = Fv /\
              c_ld c2' = ld1' /\ ld_depth ld1' = ld_depth ld1 /\
              c_tag_name c2' = c_tag_name c2 /\ c_entity_floor c2' = c_entity_floor c2).
    { destruct (list_eq_dec N.eq_dec (E.r_epieces vps) []) as [Ex|Hne].
      - (* an empty value: no token *)
        assert (Evps : vps = []).
        { destruct vps as [|[qq|nn] vr]; [reflexivity| |discriminate Ex].
          apply Forall_cons_iff in Hvok. destruct Hvok as [Hq0 _]. cbn [ep_ok] in Hq0. destruct Hq0 as [Hq _].
          destruct (r_piece_ne 60 qq Hq) as (x1 & r1 & E1).
          cbn [E.r_epieces flat_map E.r_epiece] in Ex. rewrite E1 in Ex. discriminate. }
        subst vps. inversion Hv; subst. cbn [E.r_epieces flat_map app length] in *.
        cbn [parse_content_loop]. rewrite at_end_sst. unfold ve. rewrite blen_nil, N.add_0_r.
        replace (vs <=? vs) with true by lia.
        exists c2, []. rewrite app_nil_r. cbn [ld_run] in Erun1. injection Erun1 as <-.
        repeat split; auto.
      - assert (Hlen : (1 <= length (E.r_epieces vps ++ tail))%nat).
        { rewrite app_length. destruct (E.r_epieces vps); [congruence|cbn; lia]. }
        destruct (length (E.r_epieces vps ++ tail)) as [|len'] eqn:El; [lia|].
        rewrite (content_loop_text_ne text Hascii context _ ve vs (E.r_epieces vps) tail c2 len' HWv eq_refl Hlev Hvb Hvn3 Hne).
        cbn [token_with].
        rewrite process_text_with_unfold. unfold slice_bytes at 1. cbn [sl sl_start sl_end].
        unfold ve. rewrite (W_sub _ _ _ _ HWv). fold ve.
        destruct (existsb (fun x => (x =? 38) || (x =? 13)) (E.r_epieces vps)) eqn:Efast; cbn [negb].
        + (* through the buffer *)
          cbn [fst snd]. unfold ve. rewrite (stream_from_substr_W text vs (E.r_epieces vps) tail HWv). fold ve. cbn [bind].
          destruct (IHv ve vs tail c0 c2 (frs ++ G0) (S (length (s_rest (sst ve vs (E.r_epieces vps ++ tail))))) lvl' (vs, ve) ld1')
            as (c2' & Gv & Ev & HRv & HGv & Lv1 & Lv2 & Lv3 & Lv4); try assumption; try reflexivity.
          * unfold c2. cbn. rewrite Hd1. replace (0 <? ld_depth (c_ld c) + 1) with true by lia. reflexivity.
          * constructor.
          * rewrite (Run_entities _ _ _ HR2). rewrite <- Hes. symmetry. apply (Run_entities _ _ _ HR).
          * unfold c2. cbn. lia.
          * intros Z0 Z1. apply app_eq_nil in Z0. destruct Z0 as [Z0 _]. apply (R Z0). intros Z2.
            apply app_eq_nil in Z2. destruct Z2 as [_ Z2]. apply app_eq_nil in Z2. destruct Z2 as [Z2 _]. contradiction.
          * cbn [sst s_rest]. rewrite app_length. lia.
          * cbn [push_text_chunks sst s_rest] in Ev |- *. rewrite Ev. cbn [bind]. exists c2', Gv. unfold c2 in Lv2 |- *. cbn in Lv2. repeat split; auto.
        + (* the fast path: the value is appended as it is *)
          destruct (existsb_or_false _ _ _ Efast) as [E38 E13].
          destruct (exp_plain true vps [] qv trv Fv Hv Hvok E38) as [-> ->]. cbn [app].
          assert (Hemit : emit true ([] ++ map CLit (E.r_epieces vps)) = [E.r_epieces vps]).
          { cbn [app]. unfold emit. rewrite text_chunks_in_entity.
            replace (concat (map chunk_bytes (map CLit (E.r_epieces vps)))) with (E.r_epieces vps)
              by (clear; induction (E.r_epieces vps) as [|z l IHl]; [reflexivity|cbn; rewrite <- IHl; reflexivity]).
            rewrite norm_eol_nocr by exact E13. destruct (E.r_epieces vps); [congruence|reflexivity]. }
          destruct (run_append (CowBorrowed (sl vs ve)) (vs, ve) c0 c2 (frs ++ G0) HR2 I
                      (fun Z0 => R (proj1 (app_eq_nil _ _ Z0)) ltac:(rewrite Hemit; intros Z2; apply app_eq_nil in Z2; destruct Z2 as [_ Z2]; discriminate)) Hat)
            as (c2' & Ea & HRa & La1 & La2 & La3).
          rewrite Ea. cbn [bind]. exists c2', [CowBorrowed (sl vs ve)]. cbn [ld_run] in Erun1. injection Erun1 as <-.
          split; [reflexivity|]. split; [exact HRa|]. split.
          { cbn [map cow_bytes]. unfold slice_bytes, ve. cbn [sl sl_start sl_end]. rewrite (W_sub _ _ _ _ HWv).
            cbn [app] in Hemit. rewrite Hemit. reflexivity. }
          unfold c2 in La1 |- *. cbn in La1. repeat split; auto. }
    destruct Hinner as (c2' & Gv & Ein & HRv & HGv & Lv1 & Lv2 & Lv3 & Lv4).
    rewrite Ein. cbn [bind].
    (* back from the value *)
    rewrite (Run_pp _ _ _ HRv), Lv4. unfold c2 at 1. cbn [c_entity_floor set_entity_floor c_parent_prefixes set_tag_name set_ld].
    rewrite (Run_pp _ _ _ HR1), N.eqb_refl. cbn [negb].
    set (c3 := set_ld (set_entity_floor (set_tag_name c2' (c_tag_name (set_ld c1 ld1))) (c_entity_floor (set_ld c1 ld1)))
                      (dec_depth (c_ld (set_entity_floor (set_tag_name c2' (c_tag_name (set_ld c1 ld1))) (c_entity_floor (set_ld c1 ld1)))))).
    assert (HR3 : Run c0 c3 (frs ++ G0 ++ Gv)).
    { rewrite app_assoc. eapply Run_frame; [exact HRv|unfold c3; repeat split]. }
    assert (Eld3 : c_ld c3 = dec_depth ld1') by (unfold c3; cbn; rewrite Lv1; reflexivity).
    assert (Hdd : ld_depth (dec_depth ld1') = ld_depth (c_ld c)).
    { unfold dec_depth. cbn [ld_depth]. rewrite Lv2, Hd1. replace (0 <? ld_depth (c_ld c) + 1) with true by lia. lia. }
    destruct (IHr e (p + 2 + blen n) more c0 c3 (frs ++ G0 ++ Gv) fu (S lvl') r ld')
      as (c' & G & E' & HR' & HG & K1 & K2 & K3 & K4); try assumption.
    + pose proof (W_app _ _ _ _ (W_cons _ _ _ _ HW)) as X. change (blen [59]) with 1 in X.
      pose proof (W_app _ _ (n) _ (W_cons _ _ _ _ HW)) as Y. apply W_cons in Y.
      replace (p + 2 + blen n) with (p + 1 + blen n + 1) by lia. exact Y.
    + lia.
    + rewrite Eld3, Hdd. exact Hm.
    + constructor.
    + rewrite (Run_entities _ _ _ HR3). rewrite <- Hes. symmetry. apply (Run_entities _ _ _ HR).
    + rewrite Eld3. exact Hld.
    + rewrite Eld3, Hdd. exact Hlvl.
    + intros Z0 Z1. apply app_eq_nil in Z0. destruct Z0 as [Z0 _]. apply (R Z0). intros Z2.
      apply app_eq_nil in Z2. destruct Z2 as [_ Z2]. apply app_eq_nil in Z2. destruct Z2 as [_ Z2]. contradiction.
    + rewrite !app_length in Hfu. cbn [length] in Hfu. lia.
    + exists c', (G0 ++ Gv ++ G). split; [exact E'|].
      split; [rewrite <- !app_assoc in HR'; exact HR'|].
      split; [rewrite !map_app, HG0, HGv, HG; reflexivity|].
      split; [exact K1|]. split; [rewrite K2, Eld3; exact Hdd|].
      unfold c3 in K3, K4. cbn in K3, K4. rewrite K3, K4, L2, L3. split; reflexivity.
Qed.

End Ent.

Print Assumptions TL.
