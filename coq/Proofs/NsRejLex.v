(* Proofs/NsRejLex.v -- C06/C08, rejection half: the lexer on start tags whose entries are only
   SYNTACTICALLY well formed ([NsRejDefs.syn_entry]: a declaration may violate N3-N5).  The lemmas
   of Proofs/CstNsLex.v ask for [wf_entry] but use only the facts of [syn_entry_lex]; their proofs
   are repeated here with the weaker hypothesis. *)
From Coq Require Import Ascii String.
From Coq Require Import List NArith PeanoNat Bool Lia ZifyBool ZifyN ZifyNat.
Import ListNotations.
From RX Require Import Generated.
From RX.Model Require Import Base CharClass Stream Tokenizer.
From RX.Spec Require Cst Scope CstNs.
From RX.Proofs Require Import CstLex CstNsLex NsRejDefs.
Open Scope N_scope.

Import CstNs.

Lemma syn_entry_lex e : syn_entry e = true ->
  l_ws (e_layout e) <> [] /\ Cst.wf_ws (l_ws (e_layout e)) = true /\
  Cst.wf_ws (l_ws1 (e_layout e)) = true /\ Cst.wf_ws (l_ws2 (e_layout e)) = true /\
  (l_quote (e_layout e) = 39 \/ l_quote (e_layout e) = 34) /\
  wf_value (l_quote (e_layout e)) (e_value e) = true /\ wf_qname (e_qname e) = true.
Proof.
  unfold syn_entry, wf_layout. rewrite !andb_true_iff. intros [[[[[H1 H2] H3] H4] H5] H6].
  assert (Hq : wf_qname (e_qname e) = true).
  { destruct e as [l n v|l [|x p] u]; cbn [e_qname] in *.
    - rewrite !andb_true_iff in H6. apply H6.
    - reflexivity.
    - unfold wf_qname. cbn [q_prefix q_local]. rewrite H6. reflexivity. }
  repeat split; try assumption.
  - unfold Cst.wf_ws1 in H1. destruct (l_ws (e_layout e)); [discriminate|discriminate].
  - unfold Cst.wf_ws1 in H1. unfold Cst.wf_ws. destruct (l_ws (e_layout e)); [reflexivity|exact H1].
  - lia.
Qed.

Section Lex.
Variable text : bytes.
Hypothesis Hascii : Forall (fun x => x < 128) text.

Notation st := (CstLex.st text).
Notation W := (CstLex.W text).

Variable C : Type.
Variable ev : token -> C -> res C.

Let consume_qname_ns := CstNsLex.consume_qname_ns text Hascii.

Lemma lex_entry_iter_syn fuel ts q e more c : W q (r_entry e ++ more) -> syn_entry e = true ->
  parse_element_loop text C ev (S fuel) ts (st q (r_entry e ++ more)) c =
  let! c' := ev (entry_tok q e) c in
  parse_element_loop text C ev fuel ts (st (q + blen (r_entry e)) more) c'.
Proof.
  intros HW Hwf. destruct (syn_entry_lex _ Hwf) as (Hne & Hws & Hw1 & Hw2 & Hq & Hv & Hn).
  unfold entry_tok. cbv zeta.
  assert (Elen : q + blen (r_entry e) = q + blen (l_ws (e_layout e)) + blen (r_qname (e_qname e))
                  + blen (l_ws1 (e_layout e)) + 1 + blen (l_ws2 (e_layout e)) + 1 + blen (e_value e) + 1).
  { clear. unfold r_entry. cbv zeta. rewrite e_name_qname, !blen_app, !blen_cons, blen_nil. lia. }
  rewrite Elen. clear Elen.
  unfold r_entry in *. cbv zeta in *. rewrite e_name_qname in *. rewrite <- !app_assoc in *. cbn [app] in *.
  set (qn := e_qname e) in *. clearbody qn.
  destruct (e_layout e) as [ws ws1 ws2 quote]. set (value := e_value e) in *. clearbody value.
  cbn [l_ws l_ws1 l_ws2 l_quote] in *. clear Hwf.
  destruct (attr_value_facts _ _ Hv) as (Hv1 & Hv2 & Hv3). clear Hv.
  assert (Hqq : (quote =? 39) || (quote =? 34) = true) by (clear - Hq; lia).
  assert (Hqsp : byte_is_space quote = false) by (clear - Hq; destruct Hq as [-> | ->]; reflexivity).
  clear Hq.
  destruct ws as [|w ws]; [congruence|]. clear Hne.
  destruct (qname_head _ Hn) as (n & nr & En & Hn0).
  destruct (name_start_byte _ Hn0) as (_ & _ & Hnsp & Hn47 & Hn62 & _).
  apply N.eqb_neq in Hn47, Hn62. clear Hn0.
  assert (Hwsp : byte_is_space w = true).
  { cbn [Cst.wf_ws forallb] in Hws. apply andb_true_iff in Hws. apply ws_space. apply Hws. }
  cbn [parse_element_loop]. rewrite at_end_st by exact HW. cbn [app].
  unfold starts_with_space. rewrite curr_byte_opt_st by exact HW.
  rewrite Hwsp. cbv zeta.
  change (w :: ws ++ ?l) with ((w :: ws) ++ l) in HW |- *.
  rewrite skip_spaces_st; [|exact HW|apply ws_spaces; exact Hws|rewrite En; cbn [app stops]; exact Hnsp].
  pose proof (W_app _ _ _ _ HW) as HW1. cbn [CstLex.st s_pos].
  assert (Ecb : curr_byte (st (q + blen (w :: ws)) (r_qname qn ++ ws1 ++ 61 :: ws2 ++ quote :: value ++ quote :: more)) = Ok n).
  { revert HW1. rewrite En. cbn [app]. intros HW1. apply curr_byte_st. exact HW1. }
  rewrite Ecb. cbn [bind]. rewrite Hn47, Hn62. clear Ecb En.
  rewrite consume_qname_ns; [|exact HW1|exact Hn|].
  2:{ apply ws_stop_name; [exact Hw1|]. cbn [name_stop]. apply not_name_byte_lit. auto. }
  cbn [bind]. pose proof (W_app _ _ _ _ HW1) as HW2.
  unfold consume_eq.
  rewrite skip_spaces_st; [|exact HW2|apply ws_spaces; exact Hw1|reflexivity].
  pose proof (W_app _ _ _ _ HW2) as HW3.
  rewrite consume_byte_st by (try exact Hascii; exact HW3). cbn [bind].
  pose proof (W_cons _ _ _ _ HW3) as HW4.
  rewrite skip_spaces_st; [|exact HW4|apply ws_spaces; exact Hw2|cbn [stops]; exact Hqsp].
  pose proof (W_app _ _ _ _ HW4) as HW5. cbn [CstLex.st s_pos].
  try match goal with |- context [ {| s_pos := ?a; s_end := tlen text; s_rest := ?r |} ] => fold (st a r) end.
  unfold consume_quote. rewrite curr_byte_st by exact HW5. cbn [bind].
  rewrite Hqq.
  rewrite advance1_st by exact HW5. cbn [bind].
  pose proof (W_cons _ _ _ _ HW5) as HW6. cbn [CstLex.st s_pos].
  try match goal with |- context [ {| s_pos := ?a; s_end := tlen text; s_rest := ?r |} ] => fold (st a r) end.
  unfold advance_until2. rewrite avail_st by exact HW6.
  rewrite find_idx_run; [|exact Hv1|rewrite N.eqb_refl; reflexivity].
  rewrite advance_st by (try reflexivity; exact HW6). cbn [bind].
  pose proof (W_app _ _ _ _ HW6) as HW7. unfold slice_back. cbn [CstLex.st s_pos].
  pose proof (W_le _ _ _ HW7) as Hle7.
  rewrite mk_slice_ok by (try exact Hascii; clear - Hle7; lia). cbn [bind].
  unfold is_xml_str. rewrite (W_slice _ _ _ _ HW6).
  rewrite Hv2. rewrite is_xml_str_ascii_ok by exact Hv3.
  cbn [bind].
  try match goal with |- context [ {| s_pos := ?a; s_end := tlen text; s_rest := ?r |} ] => fold (st a r) end.
  rewrite consume_byte_st by (try exact Hascii; exact HW7). cbn [bind]. cbn [CstLex.st s_pos].
  reflexivity.
Qed.

Lemma lex_entries_loop_syn ts ws_end empty post : forall es q c fuel,
  W q (flat_map r_entry es ++ ws_end ++ tag_tail empty ++ post) ->
  forallb syn_entry es = true -> Cst.wf_ws ws_end = true -> (length es < fuel)%nat ->
  parse_element_loop text C ev fuel ts (st q (flat_map r_entry es ++ ws_end ++ tag_tail empty ++ post)) c =
  let q' := q + blen (flat_map r_entry es) + blen ws_end in
  let! c1 := evs C ev (entry_toks q es) c in
  let! c2 := ev (end_tok q' empty) c1 in
  Ok (negb empty, st (q' + blen (tag_tail empty)) post, c2).
Proof.
  induction es as [|a es IH]; intros q c fuel HW Ha Hws Hf; cbv zeta.
  - cbn [flat_map app entry_toks evs bind] in *. rewrite blen_nil, N.add_0_r.
    destruct fuel as [|fu]; [cbn in Hf; lia|]. apply lex_elem_end; assumption.
  - cbn [forallb] in Ha. apply andb_true_iff in Ha. destruct Ha as [Ha1 Ha2].
    cbn [length] in Hf. destruct fuel as [|fu]; [lia|].
    cbn [flat_map entry_toks evs] in *. rewrite <- app_assoc in *.
    rewrite lex_entry_iter_syn by assumption.
    destruct (ev (entry_tok q a) c) as [c'| | |]; cbn [bind]; try reflexivity.
    rewrite IH; [|apply (W_app _ _ _ _ HW)|exact Ha2|exact Hws|lia]. cbv zeta.
    rewrite blen_app. rewrite !N.add_assoc. reflexivity.
Qed.

Lemma entries_name_stop_syn es ws_end empty post :
  forallb syn_entry es = true -> Cst.wf_ws ws_end = true ->
  name_stop (flat_map r_entry es ++ ws_end ++ tag_tail empty ++ post).
Proof.
  intros Ha Hws. destruct es as [|a es].
  - cbn [flat_map app]. apply ws_stop_name; [exact Hws|]. destruct empty; cbn [tag_tail app name_stop];
      apply not_name_byte_lit; auto.
  - cbn [forallb] in Ha. apply andb_true_iff in Ha. destruct Ha as [Ha _].
    destruct (syn_entry_lex _ Ha) as (Hne & Hw & _). cbn [flat_map]. unfold r_entry. cbv zeta.
    destruct (l_ws (e_layout a)) as [|w ws]; [congruence|]. cbn [app name_stop].
    cbn [Cst.wf_ws forallb] in Hw. apply andb_true_iff in Hw. apply ws_not_name_byte. apply Hw.
Qed.

Lemma lex_element_syn p name es ws_end empty post c :
  W p ([60] ++ r_qname name ++ flat_map r_entry es ++ ws_end ++ tag_tail empty ++ post) ->
  wf_qname name = true -> forallb syn_entry es = true -> Cst.wf_ws ws_end = true ->
  let q' := p + 1 + blen (r_qname name) + blen (flat_map r_entry es) + blen ws_end in
  parse_element text C ev (st p ([60] ++ r_qname name ++ flat_map r_entry es ++ ws_end ++ tag_tail empty ++ post)) c =
  let! c1 := evs C ev (start_toks_ns p name es) c in
  let! c2 := ev (end_tok q' empty) c1 in
  Ok (negb empty, st (q' + blen (tag_tail empty)) post, c2).
Proof.
  intros HW Hn Ha Hws q'. unfold parse_element. cbv zeta. cbn [CstLex.st s_pos].
  fold (st p ([60] ++ r_qname name ++ flat_map r_entry es ++ ws_end ++ tag_tail empty ++ post)).
  rewrite (advance_st text 1 p [60]) by (try reflexivity; exact HW). cbn [bind].
  pose proof (W_app _ _ _ _ HW) as HW1. change (blen [60]) with 1 in HW1.
  rewrite consume_qname_ns; [|exact HW1|exact Hn|apply entries_name_stop_syn; assumption]. cbn [bind].
  unfold start_toks_ns. cbn [evs].
  replace (p + 1 + (q_off name + blen (q_local name))) with (p + 1 + blen (r_qname name))
    by (rewrite r_qname_len; reflexivity).
  destruct (ev _ c) as [c0| | |]; cbn [bind]; try reflexivity.
  pose proof (W_app _ _ _ _ HW1) as HW2.
  rewrite lex_entries_loop_syn; [|exact HW2|exact Ha|exact Hws|].
  2:{ cbn [CstLex.st s_rest]. rewrite app_length. pose proof (flat_entry_len es). lia. }
  reflexivity.
Qed.

End Lex.

Print Assumptions lex_element_syn.
