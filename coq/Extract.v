(* Extract.v -- extraction of the executable model to OCaml.
   Directives: ExtrOcamlBasic only (bool, option, list, prod, unit, sumbool -> OCaml's own types);
   no Extract Constant; N, positive, nat, string, ascii stay inductive. *)
Require Extraction.
Require Import ExtrOcamlBasic.
From RX Require Import Generated.
From RX.Model Require Import Base CharClass Stream Tokenizer Doc Builder Parse Api Summary Debug ErrDisplay.
Extraction Language OCaml.
Set Extraction KeepSingleton.
Extraction "model.ml"
  Base.b Base.error_pos Base.encode_utf8 Base.valid_utf8_b
  Stream.text_pos_at Stream.slice_bytes
  Doc.parent Doc.prev_sibling Doc.next_sibling Doc.first_child Doc.last_child
  Doc.has_children Doc.has_siblings Doc.children Doc.children_next Doc.children_next_back
  Doc.children_list Doc.storage_bytes Doc.str_bytes
  Parse.parse Parse.parse_default Builder.ns_name_bytes
  Api.axis_list Api.parent_element Api.prev_sibling_element Api.next_sibling_element
  Api.first_element_child Api.last_element_child Api.root_element Api.text_storage Api.tail_storage
  Api.descendants Api.attributes Api.namespaces Api.namespace_at Api.attr_at Api.sit_next
  Api.sit_next_back Api.sit_nth Api.sit_len Api.sit_list Api.tag_name Api.has_tag_name
  Api.attribute_node Api.attribute Api.has_attribute Api.default_namespace Api.lookup_namespace_uri
  Api.lookup_prefix Api.attr_eqb Api.attr_range_qname Api.attr_range_value Api.node_eqb Api.node_cmp
  Api.get_node_id Api.attr_ename Api.ns_uri_at Summary.summary Debug.debug_document ErrDisplay.error_display.
