(* C20 -- the logic part only: the model's read operations are functions of an immutable
   document, so under every interleaving of N readers each reader observes a prefix of what it
   observes alone (trivial by construction, and labelled so).  Send / Sync and the unsafe ban
   are decided by rustc while the check builds harness/src/bin/autotraits.rs and compiles the
   crate with -F unsafe_code; the threads run compares 16 readers with the single-thread dump. *)
From Coq Require Import List Arith.
Import ListNotations.
From RX.Model Require Import Base Doc.
From RX.Proofs Require Import Readers.

Theorem C20_readers_schedule_independent :
  forall (Out : Type) (d : document) (sched : list nat) (readers : list (list (rop Out))) (r : nat)
         (ops : list (rop Out)),
    nth_error readers r = Some ops ->
    exists k, outputs_of Out r (run_schedule Out d readers sched) = map (fun o => o d) (firstn k ops).
Proof. exact readers_schedule_independent. Qed.
Print Assumptions C20_readers_schedule_independent.
