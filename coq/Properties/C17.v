(* C17 -- node identity, equality, ordering, hashing: a node is the key (document address, id).
   Statements are pinned here (copied verbatim from the proof files by tools/pin_props.py);
   each is re-proved by `exact` and followed by Print Assumptions. *)
From Coq Require Import Ascii String.
From Coq Require Import List NArith Bool PeanoNat Sorted.
Import ListNotations.
From RX Require Import Generated.
From RX.Model Require Import Base CharClass Stream Tokenizer Doc Builder Parse Api.
From RX.Proofs Require Import OrderProofs HashProofs.
Open Scope N_scope.

(* ---- Proofs/OrderProofs.v ---- *)
Theorem C17_node_eqb_iff :
  forall x y : node_key, node_eqb x y = true <-> x = y.
Proof. exact node_eqb_iff. Qed.
Print Assumptions C17_node_eqb_iff.

Theorem C17_node_cmp_eq_iff :
  forall x y, node_cmp x y = Eq <-> x = y.
Proof. exact node_cmp_eq_iff. Qed.
Print Assumptions C17_node_cmp_eq_iff.

Theorem C17_node_cmp_antisym :
  forall x y, node_cmp y x = CompOpp (node_cmp x y).
Proof. exact node_cmp_antisym. Qed.
Print Assumptions C17_node_cmp_antisym.

Theorem C17_node_cmp_trans :
  forall x y z, node_cmp x y = Lt -> node_cmp y z = Lt -> node_cmp x z = Lt.
Proof. exact node_cmp_trans. Qed.
Print Assumptions C17_node_cmp_trans.

Theorem C17_node_cmp_same_doc :
  forall a i j, node_cmp (a, i) (a, j) = (i ?= j).
Proof. exact node_cmp_same_doc. Qed.
Print Assumptions C17_node_cmp_same_doc.

Theorem C17_node_cmp_groups :
  forall a b i j k, a <> b ->
  node_cmp (a, i) (b, k) = Lt -> node_cmp (b, k) (a, j) = Lt -> False.
Proof. exact node_cmp_groups. Qed.
Print Assumptions C17_node_cmp_groups.

Theorem C17_get_node_id_spec :
  forall d k, k < 4294967295 ->
  get_node_id d k = Ok (if k <? len_N (d_nodes d) then Some k else None).
Proof. exact get_node_id_spec. Qed.
Print Assumptions C17_get_node_id_spec.

Theorem C17_sorted_groups_documents :
  forall (l : list node_key), Sorted key_le l ->
  forall l1 x l2 y l3 z l4, l = l1 ++ x :: l2 ++ y :: l3 ++ z :: l4 -> fst x = fst z -> fst y = fst x.
Proof. exact sorted_groups_documents. Qed.
Print Assumptions C17_sorted_groups_documents.


(* the Hash clause: the words impl Hash for Node feeds the hasher (id, document address, NodeData address) are a
   function of the node key and determine it, for any placement of the node vector (nodes_base) and any positive
   element size: equal nodes hash equally under every Hasher; Proofs/HashProofs.v *)
Theorem C17_equal_nodes_hash_equally :
  forall (nodes_base : N -> N) (node_size : N) (x y : node_key),
  node_eqb x y = true -> hash_words nodes_base node_size x = hash_words nodes_base node_size y.
Proof. exact equal_nodes_hash_equally. Qed.
Print Assumptions C17_equal_nodes_hash_equally.

Theorem C17_hash_words_determine_node :
  forall (nodes_base : N -> N) (node_size : N) (x y : node_key),
  hash_words nodes_base node_size x = hash_words nodes_base node_size y -> node_eqb x y = true.
Proof. exact hash_words_determine_node. Qed.
Print Assumptions C17_hash_words_determine_node.

Theorem C17_data_addr_injective_in_document :
  forall (nodes_base : N -> N) (node_size : N), 0 < node_size ->
  forall d i j : N, data_addr nodes_base node_size (d, i) = data_addr nodes_base node_size (d, j) -> i = j.
Proof. exact data_addr_injective_in_document. Qed.
Print Assumptions C17_data_addr_injective_in_document.
