(* C07 -- an entity reference is equivalent to its replacement text written in place.
   Machine level: processing pre ++ mid ++ post inline equals processing pre, then mid as an entity value
   (its own stream, entity mode), then post -- for attribute values and for character data -- provided no
   CR LF pair is split by a cut (XML 2.11 normalises line ends per entity; the two *_split_crlf lemmas show
   the proviso is necessary).  On the model: at an entity reference the loops really run the replacement
   text in place (norm_attr_entity_step, text_loop_entity_step); the first declaration of a name wins.
   Whole documents on the fragment of Spec/CstEnt.v (the CstText fragment plus an internal DTD subset declaring general
   entities, references in content and in attribute values, nested up to the documented limits, re-declarations):
   sem c is DEFINED as the meaning of the document with every reference replaced by its (first-declared) replacement
   text, computed on the abstract syntax; parse (render c) yields exactly that (parse_render_sem_ent_partial), so two
   documents that differ only in what is routed through entities (hoist_insensitive_partial), and a document and its
   fully inlined DOCTYPE-free version (inlined_equiv_partial), give identical trees.  The
   unrestricted theorems cover entities whose replacement text contains markup (elements with attributes, comments, PIs,
   CDATA, text, further references), with text merging across entity boundaries; their size hypotheses are on the meaning
   (an entity can multiply nodes).  The `_partial` variants (character-data entities) keep the input-length hypothesis.
   Excluded by wf_doc, each with its reason in Spec/CstEnt.v: the CR LF proviso, D15 (the known finding), character
   references to TAB / LF / CR / '&' / '<' inside entity values (declaration-time vs use-time reading).
   The same WITH NAMESPACES AND UNICODE (Spec/CstFullS4.v, on the CstFull frame): entity values are character data or
   items with qualified names, namespace declarations and attributes; the meaning inlines first and resolves namespaces
   afterwards, i.e. in the scope of the place of REFERENCE -- parse_render_sem_full_s4, hoist_insensitive_full_s4.
   With allow_dtd = false the same rendering gives Err DtdDetected (dtd_refused, markup entities included).
   Statements are pinned here (copied verbatim from the proof files by tools/pin_props.py);
   each is re-proved by `exact` and followed by Print Assumptions. *)
From Coq Require Import Ascii String.
From Coq Require Import List NArith Bool PeanoNat Sorted.
Import ListNotations.
From RX Require Import Generated.
From RX.Model Require Import Base CharClass Stream Tokenizer Doc Builder Parse Api.
From RX.Spec Require Import Text.
From RX.Spec Require Cst CstText CstEnt.
From RX.Proofs Require Import TextMachine HoistProofs RejectProofs CstMain CstTextSem CstEntSem CstEntDoc CstEntMain CstEntCMain.
From RX.Spec Require CstFull CstFullS4.
From RX.Proofs Require CstNsView CstFullS4Main.
From RX.Spec Require CstFull CstFullS4 CstFullS6.
From RX.Proofs Require CstNsView CstFullS6Main CstFullRejSem CstFullS6Sanity KnownFindingsD15 TextMachine KnownFindingsMore CstFullD15Main.
Open Scope N_scope.

(* ---- Proofs/KnownFindingsMore.v ---- *)
Module G0.
Import RX.Spec.CstFull. Import RX.Spec.CstFullS4. Import RX.Spec.CstFullS6. Import RX.Proofs.CstNsView. Import RX.Proofs.TextMachine. Import RX.Proofs.KnownFindingsMore.
Theorem C07_d15b_refuted :
  exists (pos : textpos) (x : document),
         parse d15b_text opts = Err (InvalidAttributeValue pos) /\
         parse d15b_inline opts = Ok x /\ view d15b_inline x = Some [elem "a" [(None, b "b", b "<")] 0].
Proof. exact d15b_refuted. Qed.
Print Assumptions C07_d15b_refuted.

Theorem C07_lt_at_depth_refused :
  forall text : bytes,
       valid_utf8_b text = true ->
       forall (vs : N) (bs rest more : bytes) (es : list entity) (lvl : nat) (t : text_buffer)
         (ld : loop_detector),
       CstULex.WV text vs (bs ++ [38; 108; 116; 59] ++ rest ++ more) ->
       forallb (fun x : N => negb (x =? 38) && negb (x =? 60)) bs = true ->
       CstULex.U8.Valid bs ->
       0 < ld_depth ld ->
       exists pos : textpos,
         norm_attr_lvl text (S lvl) es (CstLex.sl vs (vs + blen (bs ++ [38; 108; 116; 59] ++ rest))) t ld =
         Err (InvalidAttributeValue pos).
Proof. exact lt_at_depth_refused. Qed.
Print Assumptions C07_lt_at_depth_refused.

Theorem C07_d30_refuted :
  exists (v pre post : bytes) (d1 d2 : document),
         let hoisted := hoisted_of v pre post in
         let inline := inline_of v pre post in
         parse hoisted opts = Ok d1 /\
         parse inline opts = Ok d2 /\
         view hoisted d1 = Some [elem "a" [] 1; CstNs.VText [97; 10; 98]] /\
         view inline d2 = Some [elem "a" [] 1; CstNs.VText [97; 10; 10; 98]] /\
         view hoisted d1 <> view inline d2.
Proof. exact d30_refuted. Qed.
Print Assumptions C07_d30_refuted.

Theorem C07_d30_explained :
  run_text_chunks true d30_chunks = norm_eol (concat (map chunk_bytes d30_chunks)) /\
       run_text_chunks false d30_chunks = decode_chunks d30_chunks /\
       norm_eol (concat (map chunk_bytes d30_chunks)) <> decode_chunks d30_chunks.
Proof. exact d30_explained. Qed.
Print Assumptions C07_d30_explained.

Theorem C07_text_hoist_with_refs_refuted :
  ~
       (forall pre mid post : list chunk,
        Forall (fun c : chunk => c <> CRef []) pre ->
        Forall (fun c : chunk => c <> CRef []) mid ->
        Forall (fun c : chunk => c <> CRef []) post ->
        ~ (ends_cr pre /\ starts_lf (mid ++ post)) ->
        ~ (ends_cr mid /\ starts_lf post) ->
        run_text_chunks false pre ++ run_text_chunks true mid ++ run_text_chunks false post =
        run_text_chunks false (pre ++ mid ++ post)).
Proof. exact text_hoist_with_refs_refuted. Qed.
Print Assumptions C07_text_hoist_with_refs_refuted.

Theorem C07_d29_d30_outside_fragments :
  E.charref_ok_in_value (CstTextLex.T.PCharRef false (b "38")) = false /\
       E.charref_ok_in_value (CstTextLex.T.PCharRef false (b "10")) = false /\
       CstFullRejSem.wf_syntax6 (ent_doc [E.EP (CstTextLex.T.PCharRef false (b "38"))]) = false /\
       CstFullRejSem.wf_syntax6
         (ent_doc
            [CstFullS6Sanity.lit [97; 13]; E.EP (CstTextLex.T.PCharRef false (b "10"));
             CstFullS6Sanity.lit (b "b")]) = false /\
       CstFullRejSem.wf_syntax6 (ent_doc [CstFullS6Sanity.lit [97; 13; 98]]) = true /\
       CstFullRejSem.wf_syntax6
         (ent_doc
            [CstFullS6Sanity.lit [97; 13]; E.EP (CstTextLex.T.PCharRef false (b "65"));
             CstFullS6Sanity.lit (b "b")]) = true.
Proof. exact d29_d30_outside_fragments. Qed.
Print Assumptions C07_d29_d30_outside_fragments.

End G0.

(* ---- Proofs/CstFullD15Main.v ---- *)
Module G1.
Import RX.Spec.CstFull. Import RX.Spec.CstFullS4. Import RX.Spec.CstFullS6. Import RX.Proofs.CstNsView. Import RX.Proofs.CstFullS6Main. Import RX.Proofs.CstFullRejSem. Import RX.Proofs.KnownFindingsD15. Import RX.Proofs.CstFullD15Main.
Theorem C07_d15_rejected :
  forall (d : S6.doc) (opt : options) (cN : doc bpieces) (tr : list Detector.lop),
       wf_syntax6 d = true ->
       ninline6 d = Some (cN, tr) ->
       S4.inline (S6.core d) = None ->
       Detector.within_limits 10 255 0 0 tr = true ->
       provisos_item (d_root cN) = true ->
       forallb (ns_ok []) (den bmeaning (d_root cN)) = true ->
       (S6.has_dtd d = true -> allow_dtd opt = true) ->
       N.of_nat (Datatypes.length (CstFullRejMain.usem6 d cN)) < nodes_limit opt ->
       N.of_nat (Datatypes.length (CstFullRejMain.usem6 d cN)) < u32_max ->
       N.of_nat (vattrs (CstFullRejMain.usem6 d cN)) < u32_max ->
       distinct_decls_le bmeaning cN (N.to_nat 65535) ->
       1 + N.of_nat (ns_cost bmeaning cN) <= u32_max ->
       exists pos : textpos, parse (S6.render d) opt = Err (InvalidAttributeValue pos).
Proof. exact d15_rejected. Qed.
Print Assumptions C07_d15_rejected.

End G1.

(* ---- Proofs/KnownFindingsD15.v ---- *)
Module G2.
Import RX.Spec.CstFull. Import RX.Spec.CstFullS4. Import RX.Spec.CstFullS6. Import RX.Proofs.CstNsView. Import RX.Proofs.CstFullS6Main. Import RX.Proofs.CstFullRejSem. Import RX.Proofs.CstFullS6Sanity. Import RX.Proofs.KnownFindingsD15.
Theorem C07_d15_refuted :
  exists (c1 c2 : S6.doc) (x2 : document) (pos : textpos),
    S6.render c1 = d15_text /\ S6.render c2 = d15_inlined_text /\
    wf_syntax6 c1 = true /\ S6.wf_doc c2 = true /\
    nsem6 c1 = Some (S6.sem c2) /\                                                 (* the same (naively) inlined meaning *)
    parse (S6.render c2) opt_dtd = Ok x2 /\ view (S6.render c2) x2 = Some (S6.sem c2) /\
    parse (S6.render c1) opt_dtd = Err (InvalidAttributeValue pos) /\
    d15_class c1 = true.
Proof. exact d15_refuted. Qed.
Print Assumptions C07_d15_refuted.

Theorem C07_d15_outside_class :
  forall d : S6.doc, S6.wf_doc d = true -> d15_class d = false.
Proof. exact d15_outside_class. Qed.
Print Assumptions C07_d15_outside_class.

Theorem C07_hoist_outside_d15 :
  forall (d1 d2 : S6.doc) opt,
  S6.wf_doc d1 = true -> S6.wf_doc d2 = true -> allow_dtd opt = true -> S6.sem d1 = S6.sem d2 ->
  N.of_nat (length (S6.sem d1)) < nodes_limit opt -> N.of_nat (length (S6.sem d1)) < u32_max ->
  N.of_nat (S6.nattrs d1) < u32_max ->
  S6.distinct_decls_le d1 (N.to_nat 65535) -> S6.distinct_decls_le d2 (N.to_nat 65535) ->
  1 + N.of_nat (S6.ns_cost d1) <= u32_max -> 1 + N.of_nat (S6.ns_cost d2) <= u32_max ->
  d15_class d1 = false /\ d15_class d2 = false /\
  exists x1 x2, parse (S6.render d1) opt = Ok x1 /\ parse (S6.render d2) opt = Ok x2 /\
                view (S6.render d1) x1 = view (S6.render d2) x2.
Proof. exact hoist_outside_d15. Qed.
Print Assumptions C07_hoist_outside_d15.

Theorem C07_ninline_extends :
  forall (d : S6.doc) x, S4.inline (S6.core d) = Some x -> ninline6 d = Some x.
Proof. exact ninline_extends. Qed.
Print Assumptions C07_ninline_extends.

End G2.

(* ---- Proofs/CstFullS4Main.v ---- *)
Module G3.
Import RX.Spec.CstFull. Import RX.Spec.CstFullS4. Import RX.Proofs.CstNsView. Import RX.Proofs.CstFullS4Main.
Theorem C07_parse_render_sem_full_s4 :
  forall (d : S4.doc) (opt : options),
  S4.wf_doc d = true ->
  allow_dtd opt = true ->                                         (* the options allow a DOCTYPE *)
  N.of_nat (length (S4.sem d)) < nodes_limit opt ->               (* room for all nodes + the Root *)
  N.of_nat (length (S4.sem d)) < u32_max ->                        (* of the MEANING: entities add nodes *)
  N.of_nat (S4.nattrs d) < u32_max ->                              (* the attribute rows of the meaning *)
  S4.distinct_decls_le d (N.to_nat 65535) ->                       (* at most 65535 distinct declared bindings *)
  1 + N.of_nat (S4.ns_cost d) <= u32_max ->                        (* the namespace table fits *)
  exists doc, parse (S4.render d) opt = Ok doc /\ view (S4.render d) doc = Some (S4.sem d).
Proof. exact parse_render_sem_full_s4. Qed.
Print Assumptions C07_parse_render_sem_full_s4.

Theorem C07_hoist_insensitive_full_s4 :
  forall (d1 d2 : S4.doc) opt,
  S4.wf_doc d1 = true -> S4.wf_doc d2 = true -> allow_dtd opt = true -> S4.sem d1 = S4.sem d2 ->
  N.of_nat (length (S4.sem d1)) < nodes_limit opt -> N.of_nat (length (S4.sem d1)) < u32_max ->
  N.of_nat (S4.nattrs d1) < u32_max ->
  S4.distinct_decls_le d1 (N.to_nat 65535) -> S4.distinct_decls_le d2 (N.to_nat 65535) ->
  1 + N.of_nat (S4.ns_cost d1) <= u32_max -> 1 + N.of_nat (S4.ns_cost d2) <= u32_max ->
  exists x1 x2, parse (S4.render d1) opt = Ok x1 /\ parse (S4.render d2) opt = Ok x2 /\
                view (S4.render d1) x1 = view (S4.render d2) x2.
Proof. exact hoist_insensitive_full_s4. Qed.
Print Assumptions C07_hoist_insensitive_full_s4.

End G3.

(* ---- Proofs/CstEntCMain.v ---- *)
Module G4.
Module E := CstEnt.
Theorem C07_parse_render_sem_ent :
  forall (c : E.doc) (opt : options),
  E.wf_doc c = true -> allow_dtd opt = true ->
  N.of_nat (length (E.sem c)) < nodes_limit opt ->
  N.of_nat (length (E.sem c)) < u32_max ->
  N.of_nat (edoc_nattrs c) < u32_max ->
  exists d, parse (E.render c) opt = Ok d /\
            view (E.render c) d = E.sem c /\
            (forall nd ns local ar nss, In nd (d_nodes d) -> nd_kind nd = KElement ns local ar nss -> ns = None) /\
            (forall a, In a (d_attrs d) -> ad_ns_idx a = None).
Proof. exact parse_render_sem_ent. Qed.
Print Assumptions C07_parse_render_sem_ent.

Theorem C07_hoist_insensitive :
  forall c1 c2 opt,
  E.wf_doc c1 = true -> E.wf_doc c2 = true -> allow_dtd opt = true -> E.sem c1 = E.sem c2 ->
  N.of_nat (length (E.sem c1)) < nodes_limit opt -> N.of_nat (length (E.sem c1)) < u32_max ->
  N.of_nat (edoc_nattrs c1) < u32_max -> N.of_nat (edoc_nattrs c2) < u32_max ->
  exists d1 d2, parse (E.render c1) opt = Ok d1 /\ parse (E.render c2) opt = Ok d2 /\
                view (E.render c1) d1 = view (E.render c2) d2.
Proof. exact hoist_insensitive. Qed.
Print Assumptions C07_hoist_insensitive.

Theorem C07_inlined_equiv :
  forall (c : E.doc) (c' : T.doc) opt,
  E.wf_doc c = true -> allow_dtd opt = true -> T.wf_doc c' = true -> T.sem c' = E.sem c ->
  N.of_nat (length (E.sem c)) < nodes_limit opt -> N.of_nat (length (E.sem c)) < u32_max ->
  N.of_nat (edoc_nattrs c) < u32_max -> N.of_nat (length (T.render c')) <= u32_max ->
  exists d d', parse (E.render c) opt = Ok d /\ parse (T.render c') opt = Ok d' /\
               view (E.render c) d = view (T.render c') d'.
Proof. exact inlined_equiv. Qed.
Print Assumptions C07_inlined_equiv.

End G4.

(* ---- Proofs/CstEntMain.v ---- *)
Theorem C07_parse_render_sem_ent_partial :
  forall (c : E.doc) (opt : options),
  E.wf_doc c = true ->
  etext_only c = true ->                                       (* PARTIAL: every declared entity is character data *)
  allow_dtd opt = true ->
  N.of_nat (length (E.sem c)) < nodes_limit opt ->            (* room for all nodes + the Root *)
  N.of_nat (length (E.render c)) <= u32_max ->                 (* the input is at most u32::MAX bytes long *)
  exists d, parse (E.render c) opt = Ok d /\
            view (E.render c) d = E.sem c /\
            (forall nd ns local ar nss, In nd (d_nodes d) -> nd_kind nd = KElement ns local ar nss -> ns = None) /\
            (forall a, In a (d_attrs d) -> ad_ns_idx a = None).
Proof. exact parse_render_sem_ent_partial. Qed.
Print Assumptions C07_parse_render_sem_ent_partial.

Theorem C07_hoist_insensitive_partial :
  forall c1 c2 opt,
  E.wf_doc c1 = true -> E.wf_doc c2 = true -> etext_only c1 = true -> etext_only c2 = true ->
  allow_dtd opt = true -> E.sem c1 = E.sem c2 ->
  N.of_nat (length (E.sem c1)) < nodes_limit opt ->
  N.of_nat (length (E.render c1)) <= u32_max -> N.of_nat (length (E.render c2)) <= u32_max ->
  exists d1 d2, parse (E.render c1) opt = Ok d1 /\ parse (E.render c2) opt = Ok d2 /\
                view (E.render c1) d1 = view (E.render c2) d2.
Proof. exact hoist_insensitive_partial. Qed.
Print Assumptions C07_hoist_insensitive_partial.

Theorem C07_inlined_equiv_partial :
  forall (c : E.doc) (c' : T.doc) opt,
  E.wf_doc c = true -> etext_only c = true -> allow_dtd opt = true ->
  T.wf_doc c' = true -> T.sem c' = E.sem c ->
  N.of_nat (length (E.sem c)) < nodes_limit opt ->
  N.of_nat (length (E.render c)) <= u32_max -> N.of_nat (length (T.render c')) <= u32_max ->
  exists d d', parse (E.render c) opt = Ok d /\ parse (T.render c') opt = Ok d' /\
               view (E.render c) d = view (T.render c') d'.
Proof. exact inlined_equiv_partial. Qed.
Print Assumptions C07_inlined_equiv_partial.

Theorem C07_dtd_refused :
  forall (c : E.doc) (opt : options),
  E.wf_doc c = true -> allow_dtd opt = false ->
  N.of_nat (length (E.d_before c)) < nodes_limit opt ->      (* room for the comments and PIs before the DOCTYPE *)
  N.of_nat (length (E.d_before c)) < u32_max ->
  parse (E.render c) opt = Err DtdDetected.
Proof. exact dtd_refused. Qed.
Print Assumptions C07_dtd_refused.

(* ---- Proofs/HoistProofs.v ---- *)
Theorem C07_push_attr_chunks_app :
  forall d a b t,
  ~ (ends_cr a /\ starts_lf b) ->
  push_attr_chunks d (a ++ b) t = obind (push_attr_chunks d a t) (push_attr_chunks d b).
Proof. exact push_attr_chunks_app. Qed.
Print Assumptions C07_push_attr_chunks_app.

Theorem C07_push_attr_lits_depth :
  forall l t,
  push_attr_chunks true (lits l) t = push_attr_chunks false (lits l) t.
Proof. exact push_attr_lits_depth. Qed.
Print Assumptions C07_push_attr_lits_depth.

Theorem C07_attr_hoist_equiv :
  forall d pre mid post t,
  ~ (ends_cr pre /\ starts_lf (lits mid ++ post)) ->
  ~ (ends_cr (lits mid) /\ starts_lf post) ->
  push_attr_chunks d (pre ++ lits mid ++ post) t =
  obind (push_attr_chunks d pre t) (fun t1 =>
  obind (push_attr_chunks true (lits mid) t1) (fun t2 =>
  push_attr_chunks d post t2)).
Proof. exact attr_hoist_equiv. Qed.
Print Assumptions C07_attr_hoist_equiv.

Theorem C07_attr_hoist_normalise :
  forall pre mid post t',
  ~ (ends_cr pre /\ starts_lf (lits mid ++ post)) ->
  ~ (ends_cr (lits mid) /\ starts_lf post) ->
  obind (push_attr_chunks false pre tb_new) (fun t1 =>
  obind (push_attr_chunks true (lits mid) t1) (fun t2 =>
  push_attr_chunks false post t2)) = Some t' ->
  tb_buf (tb_flush t') = norm_attr_chunks (pre ++ lits mid ++ post).
Proof. exact attr_hoist_normalise. Qed.
Print Assumptions C07_attr_hoist_normalise.

Theorem C07_norm_attr_entity_step :
  forall text lvl' entities fu s t ld name s1 e ld1 ld2,
  at_end s = false ->
  curr_byte_unchecked s = Ok 38 ->
  consume_reference text s = Ok (Some (RefEntity name, s1)) ->
  find_entity text entities (slice_bytes text name) = Some e ->
  inc_references text s1 ld = Ok ld1 ->
  inc_depth text s1 ld1 = Ok ld2 ->
  attr_loop text lvl' entities (S fu) s t ld =
  let! (t', ld') := norm_attr_lvl text lvl' entities (en_value e) t ld2 in
  attr_loop text lvl' entities fu s1 t' (dec_depth ld').
Proof. exact norm_attr_entity_step. Qed.
Print Assumptions C07_norm_attr_entity_step.

Theorem C07_push_text_chunks_app :
  forall e a b t,
  push_text_chunks e (a ++ b) t = push_text_chunks e b (push_text_chunks e a t).
Proof. exact push_text_chunks_app. Qed.
Print Assumptions C07_push_text_chunks_app.

Theorem C07_text_boundary :
  forall cs t,
  Forall (fun c => c <> CRef []) cs ->
  ~ (tb_pending_cr t = true /\ starts_lf cs) ->
  tb_buf (tb_flush (push_text_chunks false cs t)) =
  tb_buf (tb_flush t) ++ run_text_chunks false cs.
Proof. exact text_boundary. Qed.
Print Assumptions C07_text_boundary.

Theorem C07_text_hoist_equiv :
  forall pre mid post,
  Forall (fun c => c <> CRef []) pre ->
  Forall (fun c => c <> CRef []) post ->
  ~ (ends_cr pre /\ starts_lf (lits mid ++ post)) ->
  ~ (ends_cr (lits mid) /\ starts_lf post) ->
  run_text_chunks false pre ++ run_text_chunks true (lits mid) ++ run_text_chunks false post =
  run_text_chunks false (pre ++ lits mid ++ post).
Proof. exact text_hoist_equiv. Qed.
Print Assumptions C07_text_hoist_equiv.

Theorem C07_text_hoist_decode :
  forall pre mid post,
  Forall (fun c => c <> CRef []) pre ->
  Forall (fun c => c <> CRef []) post ->
  ~ (ends_cr pre /\ starts_lf (lits mid ++ post)) ->
  ~ (ends_cr (lits mid) /\ starts_lf post) ->
  run_text_chunks false pre ++ run_text_chunks true (lits mid) ++ run_text_chunks false post =
  decode_chunks (pre ++ lits mid ++ post).
Proof. exact text_hoist_decode. Qed.
Print Assumptions C07_text_hoist_decode.

Theorem C07_text_loop_entity_step :
  forall text pc r fu s buf c value s1,
  at_end s = false ->
  parse_next_chunk text s (c_entities c) = Ok (ChText value, s1) ->
  text_loop text pc r (S fu) s buf c =
  let! c := finish_text r buf c in
  let! ld := inc_references text s1 (c_ld c) in
  let! ld := inc_depth text s1 ld in
  let c := set_ld c ld in
  let! es := stream_from_substr text (sl_start value) (sl_end value) in
  let prev_tag_name := c_tag_name c in
  let prev_floor := c_entity_floor c in
  let c := set_entity_floor (set_tag_name c tag_name_null) (len_N (c_parent_prefixes c)) in
  let! (_, c) := pc es c in
  if negb (len_N (c_parent_prefixes c) =? c_entity_floor c) then Err UnexpectedEndOfStream
  else
    let c := set_entity_floor (set_tag_name c prev_tag_name) prev_floor in
    let c := set_ld c (dec_depth (c_ld c)) in
    text_loop text pc r fu s1 tb_new c.
Proof. exact text_loop_entity_step. Qed.
Print Assumptions C07_text_loop_entity_step.

Theorem C07_entity_first_declaration_wins :
  forall text pre e post,
  (forall e', In e' pre ->
     bytes_eqb (slice_bytes text (en_name e')) (slice_bytes text (en_name e)) = false) ->
  find_entity text (pre ++ e :: post) (slice_bytes text (en_name e)) = Some e.
Proof. exact entity_first_declaration_wins. Qed.
Print Assumptions C07_entity_first_declaration_wins.

Theorem C07_text_hoist_split_crlf :
  run_text_chunks false ([CLit 13] ++ lits [10] ++ []) = [10] /\
  run_text_chunks false [CLit 13] ++ run_text_chunks true (lits [10]) ++ run_text_chunks false [] = [10; 10].
Proof. exact text_hoist_split_crlf. Qed.
Print Assumptions C07_text_hoist_split_crlf.

Theorem C07_attr_hoist_split_crlf :
  option_map (fun t => tb_buf (tb_flush t))
    (push_attr_chunks false ([CLit 13] ++ lits [10] ++ []) tb_new) = Some [32] /\
  option_map (fun t => tb_buf (tb_flush t))
    (obind (push_attr_chunks false [CLit 13] tb_new) (fun t1 =>
     obind (push_attr_chunks true (lits [10]) t1) (fun t2 =>
     push_attr_chunks false [] t2))) = Some [32; 32].
Proof. exact attr_hoist_split_crlf. Qed.
Print Assumptions C07_attr_hoist_split_crlf.

(* ---- Proofs/RejectProofs.v ---- *)
Module G7.
Local Notation token := Tokenizer.token.
Theorem C07_find_entity_first :
  forall text es name e, find_entity text es name = Some e ->
  exists pre post, es = pre ++ e :: post /\
    bytes_eqb (slice_bytes text (en_name e)) name = true /\
    forall e', In e' pre -> bytes_eqb (slice_bytes text (en_name e')) name = false.
Proof. exact find_entity_first. Qed.
Print Assumptions C07_find_entity_first.

Theorem C07_ok_refs_defined_first :
  forall text s es ch s',
  parse_next_chunk text s es = Ok (ChText ch, s') ->
  exists name s1 e pre post,
    consume_reference text s = Ok (Some (RefEntity name, s1)) /\ s' = s1 /\
    es = pre ++ e :: post /\ en_value e = ch /\
    bytes_eqb (slice_bytes text (en_name e)) (slice_bytes text name) = true /\
    forall e', In e' pre -> bytes_eqb (slice_bytes text (en_name e')) (slice_bytes text name) = false.
Proof. exact ok_refs_defined_first. Qed.
Print Assumptions C07_ok_refs_defined_first.

End G7.
