(* C08 -- ill-formed documents are rejected: the character classes are the Fifth Edition tables.
   The statement is pinned here; the proof is Proofs/CharTablesProofs.v.  The model's tables
   come from Generated.v, i.e. from /repo/src/tokenizer.rs as it is now. *)
From Coq Require Import NArith.
From RX.Model Require Import Base CharClass.
From RX.Spec Require Chars.
From RX.Proofs Require Import CharTablesProofs.
Open Scope N_scope.

Theorem C08_char_tables_conform : forall c : N, Chars.scalar c = true ->
  char_is_char c = Chars.xml_Char c /\
  char_is_name_start c = Chars.xml_NameStartChar c /\
  char_is_name c = Chars.xml_NameChar c.
Proof. exact char_tables_conform. Qed.
Print Assumptions C08_char_tables_conform.

Theorem C08_byte_tables_conform : forall x : N, x < 128 ->
  byte_is_char x = Chars.xml_Char x /\
  byte_is_name_start x = Chars.xml_NameStartChar x /\
  byte_is_name x = Chars.xml_NameChar x.
Proof. exact byte_tables_conform. Qed.
Print Assumptions C08_byte_tables_conform.

Theorem C08_byte_space_conform : forall x : N, byte_is_space x = Chars.xml_S x.
Proof. exact byte_space_conform. Qed.
Print Assumptions C08_byte_space_conform.

Theorem C08_byte_char_agree : forall x : N, x < 128 ->
  byte_is_char x = char_is_char x /\ byte_is_name_start x = char_is_name_start x /\
  byte_is_name x = char_is_name x.
Proof. exact byte_char_agree. Qed.
Print Assumptions C08_byte_char_agree.
