(* C08 -- ill-formed documents are rejected.  (1) the three character classes are the Fifth Edition
   productions for every scalar value (tables regenerated from the source on every run);
   (2) local rejection theorems, 'accepted implies constraint': comment bodies, ']]>' in text, misplaced
   declaration, '<' in attribute values, every consumed character is a Char, end tags match the open
   element and cannot close an element opened outside the current entity, reserved prefixes and URIs,
   entity references are declared (first declaration wins), and the document-level token shape: only
   comments / PIs (and entity declarations) before the root, at most one root element, only
   comments / PIs after it.  (3) Soundness against the grammar on the byte fragment that Spec/Cst.v covers
   (in_fragment, Proofs/CstSound.v: printable ASCII / TAB / LF, no '&', no ':', no '<!D' '<![' '<?xml' 'xmlns';
   attrs_raw: no attribute value was normalised): every ACCEPTED input is the rendering of a well-formed abstract
   document (parse_sound_fragment) -- the parser accepts nothing outside the grammar there -- and its tree is that
   document's meaning (parse_sound_and_complete).  (4) Truncation: for EVERY accepted document (DOCTYPE and entity expansion included) and
   every cut (on a character boundary) before the end of its root element, the prefix is rejected
   (truncation_rejected; root_element_end d and firstn_N are defined in Proofs/TruncMain.v).  (5) Soundness over
   Unicode (in_fragment_u, Proofs/CstSoundU.v: valid UTF-8, no CR, '&', ':', '<!D', '<![', '<?xml', 'xmlns', no leading
   BOM): every accepted input is the rendering of a well-formed document of Spec/CstU.v (parse_sound_fragment_u).
   (6) Soundness with references and CDATA (in_fragment_t, Proofs/CstSoundT.v: printable ASCII / TAB / LF, '&' and
   '<![' allowed, numeric references denote scalar values -- the documented U+FFFD leniency excluded): every accepted input
   is the rendering of a well-formed document of Spec/CstText.v, with NO condition on the result (parse_sound_fragment_t).
   (7) Namespace constraints at document level (Spec/CstNs.v): a syntactically well-formed document that violates one of
   N1-N7 (undeclared prefix, duplicate declaration, duplicate attribute by expanded name, misuse of xml / xmlns prefixes
   and URIs) is rejected with one of the namespace error variants (ns_violation_rejected).  (8) Soundness WITH NAMESPACES
   (in_fragment_n, Proofs/CstSoundN.v: valid UTF-8, qualified names and xmlns declarations allowed, references and CDATA
   allowed; no CR, DOCTYPE, XML declaration, BOM; numeric references scalar; no leading-colon names and no colon in PI
   targets -- two leniencies, each with its Example): every accepted input is the rendering of a well-formed document of
   Spec/CstFull.v stage S2, hence satisfies N1-N7 on normalised URIs; the resource bounds of the completeness theorem
   follow from acceptance (parse_sound_fragment_n_res), so the parsed tree IS the document's meaning
   (parse_sound_and_complete_n).  (9) Soundness WITH THE PROLOG AND ENTITIES (in_fragment_p, Proofs/CstSoundP.v: BOM, XML
   declaration, DOCTYPE with every kind of declaration, character-data general entities declared AND used; conditions P1-P8
   on the bytes, each leniency with its Example): every accepted input is the rendering of a well-formed document of
   Spec/CstFullS5.v (parse_sound_fragment_p) -- this covers misplaced / repeated XML declarations, undefined references,
   recursion, '<' reaching an attribute value through an entity, and the DTD syntax.
   Statements are pinned here (copied verbatim from the proof files by tools/pin_props.py);
   each is re-proved by `exact` and followed by Print Assumptions. *)
From Coq Require Import Ascii String.
From Coq Require Import List NArith Bool PeanoNat Sorted.
Import ListNotations.
From RX Require Import Generated.
From RX.Model Require Import Base CharClass Stream Tokenizer Doc Builder Parse Api.
From RX.Spec Require Chars.
From RX.Spec Require Cst.
From RX.Proofs Require Import CharTablesProofs RejectProofs WfParseTok WfParseChars WfParse CstSound CstSoundDoc CstSoundCor TruncMain TruncDtdMain CstSoundU CstSoundUDoc CstSoundUCor CstSoundT CstSoundTDoc CstSoundTCor NsRejDefs NsRejBuild NsRejMain CstNsView CstFullMain CstSoundN CstSoundNDoc CstSoundNCor.
From RX.Spec Require CstU CstText CstNs CstFull CstFullS5.
From RX.Proofs Require CstSoundP CstSoundPRDoc CstSoundPRCor.
From RX.Spec Require CstFullS4 CstFullS6.
From RX.Proofs Require KnownFindingsMore KnownFindingsD21 CstSound6P CstSound6 CstSound6U CstSound6uCor CstSound6a CstSound6aFinal CstSound6bFinal CstSound6rCor CstSound6c CstSound6cFinal CstSound6dFinal CstSound6eCor CstFullS6Main CstSound7 CstSound7Final CstSound8 CstSound8Final CstSound8Cor CstSound9 CstSound9Final CstSound10 CstSound10Final CstSound11 CstSound11Final CstSoundCr CstSoundCrLex2 CstSoundCrFinal CstSoundAll CstSound10eCor CstSoundAllCor CstSoundAll11 CstSoundAll11Cor CstFullRejSem CstFullRejTrace CstFullRejDoc CstFullRejMain CstFullNsRejMain.
From RX.Spec Require CstFullS11.
From RX.Proofs Require CstFullS11Main CstFullRejS11Sem CstFullRejS11Doc CstFullRejS11Main CstFullRejS11NsMain NsRejDefs NsRejBuild.
Open Scope N_scope.

(* ---- Proofs/CharTablesProofs.v ---- *)
Theorem C08_char_tables_conform :
  forall c : N, Chars.scalar c = true ->
  char_is_char c = Chars.xml_Char c /\
  char_is_name_start c = Chars.xml_NameStartChar c /\
  char_is_name c = Chars.xml_NameChar c.
Proof. exact char_tables_conform. Qed.
Print Assumptions C08_char_tables_conform.

Theorem C08_byte_tables_conform :
  forall x : N, x < 128 ->
  byte_is_char x = Chars.xml_Char x /\
  byte_is_name_start x = Chars.xml_NameStartChar x /\
  byte_is_name x = Chars.xml_NameChar x.
Proof. exact byte_tables_conform. Qed.
Print Assumptions C08_byte_tables_conform.

Theorem C08_byte_space_conform :
  forall x : N, byte_is_space x = Chars.xml_S x.
Proof. exact byte_space_conform. Qed.
Print Assumptions C08_byte_space_conform.

Theorem C08_byte_char_agree :
  forall x : N, x < 128 ->
  byte_is_char x = char_is_char x /\ byte_is_name_start x = char_is_name_start x /\ byte_is_name x = char_is_name x.
Proof. exact byte_char_agree. Qed.
Print Assumptions C08_byte_char_agree.

(* ---- Proofs/RejectProofs.v ---- *)
Module G1.
Local Notation token := Tokenizer.token.
Theorem C08_ok_comment_body :
  forall text s acc s' acc',
  parse_comment text (list token) rec_ev s acc = Ok (s', acc') ->
  exists txt r, acc' = acc ++ [TComment txt r] /\
    contains_b (b "--") (slice_bytes text txt) = false /\
    ends_with_byte 45 (slice_bytes text txt) = false.
Proof. exact ok_comment_body. Qed.
Print Assumptions C08_ok_comment_body.

Theorem C08_ok_text_no_cdata_end :
  forall text s acc s' acc',
  parse_text text (list token) rec_ev s acc = Ok (s', acc') ->
  exists txt r, acc' = acc ++ [TText txt r] /\
    contains_b (b "]]>") (slice_bytes text txt) = false.
Proof. exact ok_text_no_cdata_end. Qed.
Print Assumptions C08_ok_text_no_cdata_end.

Theorem C08_ok_pi_not_declaration :
  forall text s acc s' acc',
  parse_pi text (list token) rec_ev s acc = Ok (s', acc') ->
  starts_with s (b "<?xml ") = false.
Proof. exact ok_pi_not_declaration. Qed.
Print Assumptions C08_ok_pi_not_declaration.

Theorem C08_ok_no_lt_in_attr :
  forall text s acc open s' acc',
  s_rest s = skipn (N.to_nat (s_pos s)) text ->
  parse_element text (list token) rec_ev s acc = Ok (open, s', acc') ->
  forall r q e p l v, In (TAttribute r q e p l v) (skipn (length acc) acc') ->
    mem_b 60 (slice_bytes text v) = false.
Proof. exact ok_no_lt_in_attr. Qed.
Print Assumptions C08_ok_no_lt_in_attr.

Theorem C08_skip_chars_only_chars :
  forall text f s s', skip_chars text f s = Ok s' ->
  s_pos s <= s_pos s' /\ chars_upto (s_rest s) (s_pos s' - s_pos s).
Proof. exact skip_chars_only_chars. Qed.
Print Assumptions C08_skip_chars_only_chars.

Theorem C08_skip_chars_only_chars_text :
  forall text f s s',
  s_rest s = skipn (N.to_nat (s_pos s)) text ->
  skip_chars text f s = Ok s' ->
  all_chars (sub text (s_pos s) (s_pos s')).
Proof. exact skip_chars_only_chars_text. Qed.
Print Assumptions C08_skip_chars_only_chars_text.

Theorem C08_consume_chars_only_chars :
  forall text f s sl s',
  s_rest s = skipn (N.to_nat (s_pos s)) text ->
  consume_chars text f s = Ok (sl, s') ->
  all_chars (slice_bytes text sl).
Proof. exact consume_chars_only_chars. Qed.
Print Assumptions C08_consume_chars_only_chars.

Theorem C08_ok_tags_balanced :
  forall text prefix local r c c',
  process_element text (EClose prefix local) r c = Ok c' ->
  exists pnd ppref,
    nth_N (d_nodes (c_doc c)) (c_parent_id c) = Some pnd /\
    hd_error (rev (c_parent_prefixes c)) = Some ppref /\
    match nd_kind pnd with
    | KElement _ plocal _ _ =>
        bytes_eqb (slice_bytes text prefix) (slice_bytes text ppref) = true /\
        bytes_eqb (slice_bytes text local) (slice_bytes text plocal) = true
    | _ => True
    end /\
    c_entity_floor c < len_N (c_parent_prefixes c).
Proof. exact ok_tags_balanced. Qed.
Print Assumptions C08_ok_tags_balanced.

Theorem C08_ok_reserved_names :
  forall text r qn eq prefix local value c c',
  process_attribute text r qn eq prefix local value c = Ok c' ->
  exists v c1, normalize_attribute text value c = Ok (v, c1) /\
  let pb := slice_bytes text prefix in
  let lb := slice_bytes text local in
  let vb := storage_bytes text v in
  (* xmlns:p='v' *)
  (bytes_eqb pb xmlns_str = true ->
     bytes_eqb lb xmlns_str = false /\                              (* xmlns:xmlns refused *)
     bytes_eqb vb ns_xmlns_uri = false /\                           (* nothing bound to the xmlns URI *)
     bytes_eqb lb ns_xml_prefix = bytes_eqb vb ns_xml_uri) /\       (* p = xml <-> v = the xml URI *)
  (* xmlns='v' *)
  (bytes_eqb pb xmlns_str = false -> slice_len prefix = 0 -> bytes_eqb lb xmlns_str = true ->
     bytes_eqb vb ns_xml_uri = false /\ bytes_eqb vb ns_xmlns_uri = false).
Proof. exact ok_reserved_names. Qed.
Print Assumptions C08_ok_reserved_names.

Theorem C08_ok_element_prefix_not_xmlns :
  forall text ptext prefix local start c c',
  token_with text ptext (TElementStart prefix local start) c = Ok c' ->
  bytes_eqb (slice_bytes text prefix) xmlns_str = false.
Proof. exact ok_element_prefix_not_xmlns. Qed.
Print Assumptions C08_ok_element_prefix_not_xmlns.

Theorem C08_find_entity_first :
  forall text es name e, find_entity text es name = Some e ->
  exists pre post, es = pre ++ e :: post /\
    bytes_eqb (slice_bytes text (en_name e)) name = true /\
    forall e', In e' pre -> bytes_eqb (slice_bytes text (en_name e')) name = false.
Proof. exact find_entity_first. Qed.
Print Assumptions C08_find_entity_first.

Theorem C08_ok_refs_defined :
  forall text s es ch s',
  parse_next_chunk text s es = Ok (ChText ch, s') ->
  exists e, In e es /\ en_value e = ch.
Proof. exact ok_refs_defined. Qed.
Print Assumptions C08_ok_refs_defined.

Theorem C08_ok_refs_defined_first :
  forall text s es ch s',
  parse_next_chunk text s es = Ok (ChText ch, s') ->
  exists name s1 e pre post,
    consume_reference text s = Ok (Some (RefEntity name, s1)) /\ s' = s1 /\
    es = pre ++ e :: post /\ en_value e = ch /\
    bytes_eqb (slice_bytes text (en_name e)) (slice_bytes text name) = true /\
    forall e', In e' pre -> bytes_eqb (slice_bytes text (en_name e')) (slice_bytes text name) = false.
Proof. exact ok_refs_defined_first. Qed.
Print Assumptions C08_ok_refs_defined_first.

Theorem C08_ok_document_shape :
  forall text dtd toks,
  parse_document text (list token) rec_ev dtd [] = Ok toks ->
  exists pre root post,
    toks = pre ++ root ++ post /\
    Forall is_prolog_tok pre /\ (dtd = false -> Forall is_misc_tok pre) /\
    Forall is_misc_tok post /\
    root_shape root post.
Proof. exact ok_document_shape. Qed.
Print Assumptions C08_ok_document_shape.

Theorem C08_ok_no_text_before_root :
  forall text dtd toks,
  parse_document text (list token) rec_ev dtd [] = Ok toks ->
  exists pre post, toks = pre ++ post /\ Forall is_prolog_tok pre /\
    (post = [] \/ (exists p l st rest, post = TElementStart p l st :: rest) \/ Forall is_misc_tok post).
Proof. exact ok_no_text_before_root. Qed.
Print Assumptions C08_ok_no_text_before_root.

End G1.

(* ---- Proofs/WfParse.v ---- *)
Theorem C08_parse_comments_ok :
  forall text opt d nd s,
  parse text opt = Ok d -> In nd (d_nodes d) -> nd_kind nd = KComment s ->
  contains_b (b "--") (slice_bytes text s) = false /\ ends_with_byte 45 (slice_bytes text s) = false.
Proof. exact parse_comments_ok. Qed.
Print Assumptions C08_parse_comments_ok.

Theorem C08_parse_names_are_names :
  forall text opt d, valid_utf8_b text = true -> parse text opt = Ok d ->
  (forall nd ns local ar nss, In nd (d_nodes d) -> nd_kind nd = KElement ns local ar nss ->
     is_ncname (slice_bytes text local)) /\
  (forall a, In a (d_attrs d) -> is_ncname (slice_bytes text (ad_local a))) /\
  (forall nd t v, In nd (d_nodes d) -> nd_kind nd = KPI t v -> is_name (slice_bytes text t)).
Proof. exact parse_names_are_names. Qed.
Print Assumptions C08_parse_names_are_names.

Theorem C08_parse_all_chars :
  forall text opt d, valid_utf8_b text = true -> parse text opt = Ok d ->
  (forall nd st, In nd (d_nodes d) -> nd_kind nd = KText st -> all_chars (storage_bytes text st)) /\
  (forall nd s, In nd (d_nodes d) -> nd_kind nd = KComment s -> all_chars (slice_bytes text s)) /\
  (forall nd t v, In nd (d_nodes d) -> nd_kind nd = KPI t (Some v) -> all_chars (slice_bytes text v)) /\
  (forall a, In a (d_attrs d) -> all_chars (storage_bytes text (ad_value a))).
Proof. exact parse_all_chars. Qed.
Print Assumptions C08_parse_all_chars.

Theorem C08_parse_doc_wf :
  forall text opt d, parse text opt = Ok d -> doc_wf text d.
Proof. exact parse_doc_wf. Qed.
Print Assumptions C08_parse_doc_wf.

(* ---- Proofs/CstSoundDoc.v ---- *)
Theorem C08_parse_sound_fragment :
  forall text opt d,
  in_fragment text = true -> parse text opt = Ok d -> attrs_raw d ->
  exists c : Cst.doc, Cst.wf_doc c = true /\ Cst.render c = text.
Proof. exact parse_sound_fragment. Qed.
Print Assumptions C08_parse_sound_fragment.

(* ---- Proofs/CstSoundCor.v ---- *)
Theorem C08_parse_sound_and_complete :
  forall text opt d,
  in_fragment text = true -> parse text opt = Ok d -> attrs_raw d ->
  N.of_nat (length text) <= nodes_limit opt ->      (* room for all nodes *)
  N.of_nat (length text) <= u32_max ->              (* the input is at most u32::MAX bytes long *)
  exists c : Cst.doc,
    Cst.wf_doc c = true /\ Cst.render c = text /\ CstMain.view text d = Cst.sem c.
Proof. exact parse_sound_and_complete. Qed.
Print Assumptions C08_parse_sound_and_complete.

(* ---- Proofs/TruncMain.v ---- *)
Theorem C08_truncation_not_ok_partial :
  forall text opt d n,
  contains_b (b "<!DOCTYPE") text = false ->
  valid_utf8_b text = true -> parse text opt = Ok d -> n < root_element_end d ->
  valid_utf8_b (firstn_N n text) = true ->
  forall d', parse (firstn_N n text) opt <> Ok d'.
Proof. exact truncation_not_ok_partial. Qed.
Print Assumptions C08_truncation_not_ok_partial.

Theorem C08_truncation_rejected_partial :
  forall text opt d n,
  contains_b (b "<!DOCTYPE") text = false ->
  nodes_limit opt <= u32_max ->
  valid_utf8_b text = true -> parse text opt = Ok d -> n < root_element_end d ->
  valid_utf8_b (firstn_N n text) = true ->
  exists e, parse (firstn_N n text) opt = Err e.
Proof. exact truncation_rejected_partial. Qed.
Print Assumptions C08_truncation_rejected_partial.

(* ---- Proofs/TruncDtdMain.v ---- *)
Theorem C08_truncation_not_ok :
  forall text opt d n,
  valid_utf8_b text = true -> parse text opt = Ok d -> n < root_element_end d ->
  valid_utf8_b (firstn_N n text) = true ->
  forall d', parse (firstn_N n text) opt <> Ok d'.
Proof. exact truncation_not_ok. Qed.
Print Assumptions C08_truncation_not_ok.

Theorem C08_truncation_rejected :
  forall text opt d n,
  nodes_limit opt <= u32_max ->
  valid_utf8_b text = true -> parse text opt = Ok d -> n < root_element_end d ->
  valid_utf8_b (firstn_N n text) = true ->
  exists e, parse (firstn_N n text) opt = Err e.
Proof. exact truncation_rejected. Qed.
Print Assumptions C08_truncation_rejected.

(* ---- Proofs/CstSoundUDoc.v ---- *)
Theorem C08_parse_sound_fragment_u :
  forall text opt d,
  in_fragment_u text = true -> parse text opt = Ok d -> attrs_raw d ->
  exists c : Cst.doc, CstU.wf_doc c = true /\ CstU.render c = text.
Proof. exact parse_sound_fragment_u. Qed.
Print Assumptions C08_parse_sound_fragment_u.

(* ---- Proofs/CstSoundUCor.v ---- *)
Theorem C08_parse_sound_and_complete_u :
  forall text opt d,
  in_fragment_u text = true -> parse text opt = Ok d -> attrs_raw d ->
  N.of_nat (length text) <= nodes_limit opt ->      (* room for all nodes *)
  N.of_nat (length text) <= u32_max ->              (* the input is at most u32::MAX bytes long *)
  exists c : Cst.doc,
    CstU.wf_doc c = true /\ CstU.render c = text /\ CstMain.view text d = CstU.sem c.
Proof. exact parse_sound_and_complete_u. Qed.
Print Assumptions C08_parse_sound_and_complete_u.

(* ---- Proofs/CstSoundTDoc.v ---- *)
Theorem C08_parse_sound_fragment_t :
  forall text opt d,
  in_fragment_t text = true -> parse text opt = Ok d ->
  exists c : T.doc, T.wf_doc c = true /\ T.render c = text.
Proof. exact parse_sound_fragment_t. Qed.
Print Assumptions C08_parse_sound_fragment_t.

(* ---- Proofs/CstSoundTCor.v ---- *)
Theorem C08_parse_sound_and_complete_t :
  forall text opt d,
  in_fragment_t text = true -> parse text opt = Ok d ->
  N.of_nat (length text) <= nodes_limit opt ->      (* room for all nodes *)
  N.of_nat (length text) <= u32_max ->              (* the input is at most u32::MAX bytes long *)
  exists c : CstText.doc,
    CstText.wf_doc c = true /\ CstText.render c = text /\ CstMain.view text d = CstText.sem c.
Proof. exact parse_sound_and_complete_t. Qed.
Print Assumptions C08_parse_sound_and_complete_t.

(* ---- Proofs/CstSoundNDoc.v ---- *)
Module G11.
Import CstFull.
Theorem C08_parse_sound_fragment_n :
  forall text opt d,
  in_fragment_n text = true -> parse text opt = Ok d ->
  exists c : S2.doc, S2.wf_doc c = true /\ S2.render c = text.
Proof. exact parse_sound_fragment_n. Qed.
Print Assumptions C08_parse_sound_fragment_n.

Theorem C08_parse_sound_fragment_n_res :
  forall text opt d,
  in_fragment_n text = true -> parse text opt = Ok d ->
  exists c : S2.doc, S2.wf_doc c = true /\ S2.render c = text /\
    S2.distinct_decls_le c (N.to_nat 65535) /\ 1 + N.of_nat (S2.ns_cost c) <= u32_max.
Proof. exact parse_sound_fragment_n_res. Qed.
Print Assumptions C08_parse_sound_fragment_n_res.

End G11.

(* ---- Proofs/CstSoundNCor.v ---- *)
Module G12.
Import CstFull.
Theorem C08_parse_sound_and_complete_n :
  forall text opt d,
  in_fragment_n text = true -> parse text opt = Ok d ->
  N.of_nat (length text) <= nodes_limit opt ->      (* room for all nodes *)
  N.of_nat (length text) <= u32_max ->              (* the input is at most u32::MAX bytes long *)
  exists c : S2.doc,
    S2.wf_doc c = true /\ S2.render c = text /\ CstNsView.view text d = Some (S2.sem c).
Proof. exact parse_sound_and_complete_n. Qed.
Print Assumptions C08_parse_sound_and_complete_n.

End G12.

(* ---- Proofs/CstSoundPRDoc.v ---- *)
Module G13.
Import RX.Spec.CstFull. Import RX.Spec.CstFullS5. Import RX.Proofs.CstSoundP. Import RX.Proofs.CstSoundPRDoc.
Theorem C08_parse_sound_fragment_p :
  forall text opt d,
  in_fragment_p text = true -> allow_dtd opt = true ->
  parse text opt = Ok d ->
  exists c : S5.doc, S5.wf_doc c = true /\ S5.render c = text.
Proof. exact parse_sound_fragment_p. Qed.
Print Assumptions C08_parse_sound_fragment_p.

Theorem C08_parse_sound_fragment_p_res :
  forall text opt d,
  in_fragment_p text = true -> allow_dtd opt = true ->
  parse text opt = Ok d ->
  exists c : S5.doc, S5.wf_doc c = true /\ S5.render c = text /\
    S5.distinct_decls_le c (N.to_nat 65535) /\ 1 + N.of_nat (S5.ns_cost c) <= u32_max.
Proof. exact parse_sound_fragment_p_res. Qed.
Print Assumptions C08_parse_sound_fragment_p_res.

End G13.

(* ---- Proofs/CstSoundPRCor.v ---- *)
Module G14.
Import RX.Spec.CstFull. Import RX.Spec.CstFullS5. Import RX.Proofs.CstNsView. Import RX.Proofs.CstSoundP. Import RX.Proofs.CstSoundPRCor.
Theorem C08_parse_sound_and_complete_p :
  forall text opt d,
  in_fragment_p text = true -> allow_dtd opt = true -> parse text opt = Ok d ->
  N.of_nat (length text) <= nodes_limit opt ->      (* room for all nodes *)
  N.of_nat (length text) <= u32_max ->              (* the input is at most u32::MAX bytes long *)
  exists c : S5.doc,
    S5.wf_doc c = true /\ S5.render c = text /\ CstNsView.view text d = Some (S5.sem c).
Proof. exact parse_sound_and_complete_p. Qed.
Print Assumptions C08_parse_sound_and_complete_p.

End G14.

(* ---- Proofs/CstSound6P.v ---- *)
Module G15.
Import RX.Spec.CstFull. Import RX.Spec.CstFullS5. Import RX.Spec.CstFullS6. Import RX.Proofs.CstNsView. Import RX.Proofs.CstSoundP. Import RX.Proofs.CstSound6P.
Theorem C08_parse_sound_fragment_6_on_p :
  forall text opt d,
  in_fragment_p text = true -> allow_dtd opt = true -> parse text opt = Ok d ->
  exists c : S6.doc, S6.wf_doc c = true /\ S6.render c = text.
Proof. exact parse_sound_fragment_6_on_p. Qed.
Print Assumptions C08_parse_sound_fragment_6_on_p.

Theorem C08_parse_sound_and_complete_6_on_p :
  forall text opt d,
  in_fragment_p text = true -> allow_dtd opt = true -> parse text opt = Ok d ->
  N.of_nat (length text) <= nodes_limit opt -> N.of_nat (length text) <= u32_max ->
  exists c : S6.doc, S6.wf_doc c = true /\ S6.render c = text /\ CstNsView.view text d = Some (S6.sem c).
Proof. exact parse_sound_and_complete_6_on_p. Qed.
Print Assumptions C08_parse_sound_and_complete_6_on_p.

End G15.

(* ---- Proofs/CstSound6uCor.v ---- *)
Module G16.
Import RX.Spec.CstFull. Import RX.Spec.CstFullS5. Import RX.Spec.CstFullS6. Import RX.Proofs.CstNsView. Import RX.Proofs.CstSoundP. Import RX.Proofs.CstSound6. Import RX.Proofs.CstSound6U. Import RX.Proofs.CstSound6uCor.
Theorem C08_parse_sound_fragment_6u :
  forall text opt d,
  in_fragment_6u text = true -> allow_dtd opt = true -> parse text opt = Ok d ->
  exists c : S6.doc, S6.wf_doc c = true /\ S6.render c = text.
Proof. exact parse_sound_fragment_6u. Qed.
Print Assumptions C08_parse_sound_fragment_6u.

Theorem C08_parse_sound_and_complete_6u :
  forall text opt d,
  in_fragment_6u text = true -> allow_dtd opt = true -> parse text opt = Ok d ->
  exists c : S6.doc, S6.wf_doc c = true /\ S6.render c = text /\
    (N.of_nat (length (S6.sem c)) < nodes_limit opt -> N.of_nat (length (S6.sem c)) < u32_max -> N.of_nat (S6.nattrs c) < u32_max ->
     CstNsView.view text d = Some (S6.sem c)).
Proof. exact parse_sound_and_complete_6u. Qed.
Print Assumptions C08_parse_sound_and_complete_6u.

End G16.

(* ---- Proofs/CstSound6bFinal.v ---- *)
Module G17.
Import RX.Spec.CstFull. Import RX.Spec.CstFullS5. Import RX.Spec.CstFullS6. Import RX.Proofs.CstSoundP. Import RX.Proofs.CstSound6. Import RX.Proofs.CstSound6U. Import RX.Proofs.CstSound6a. Import RX.Proofs.CstSound6bFinal.
Theorem C08_parse_sound_fragment_6a :
  forall text opt d,
  in_fragment_6a text = true -> allow_dtd opt = true -> parse text opt = Ok d ->
  exists c : S6.doc, S6.wf_doc c = true /\ S6.render c = text.
Proof. exact parse_sound_fragment_6a. Qed.
Print Assumptions C08_parse_sound_fragment_6a.

End G17.

(* ---- Proofs/CstSound6rCor.v ---- *)
Module G18.
Import RX.Spec.CstFull. Import RX.Spec.CstFullS5. Import RX.Spec.CstFullS6. Import RX.Proofs.CstNsView. Import RX.Proofs.CstSoundP. Import RX.Proofs.CstSound6. Import RX.Proofs.CstSound6U. Import RX.Proofs.CstSound6a. Import RX.Proofs.CstSound6rCor.
Theorem C08_parse_sound_fragment_6a_res :
  forall text opt d,
  in_fragment_6a text = true -> allow_dtd opt = true -> parse text opt = Ok d ->
  exists c : S6.doc, S6.wf_doc c = true /\ S6.render c = text /\
    S6.distinct_decls_le c (N.to_nat 65535) /\ 1 + N.of_nat (S6.ns_cost c) <= u32_max.
Proof. exact parse_sound_fragment_6a_res. Qed.
Print Assumptions C08_parse_sound_fragment_6a_res.

Theorem C08_parse_sound_and_complete_6a :
  forall text opt d,
  in_fragment_6a text = true -> allow_dtd opt = true -> parse text opt = Ok d ->
  exists c : S6.doc, S6.wf_doc c = true /\ S6.render c = text /\
    (N.of_nat (length (S6.sem c)) < nodes_limit opt -> N.of_nat (length (S6.sem c)) < u32_max -> N.of_nat (S6.nattrs c) < u32_max ->
     CstNsView.view text d = Some (S6.sem c)).
Proof. exact parse_sound_and_complete_6a. Qed.
Print Assumptions C08_parse_sound_and_complete_6a.

Theorem C08_parse_sound_and_complete_6a_nl :
  forall text opt d,
  in_fragment_6a text = true -> allow_dtd opt = true -> parse text opt = Ok d ->
  exists c : S6.doc, S6.wf_doc c = true /\ S6.render c = text /\
    S6.distinct_decls_le c (N.to_nat 65535) /\ 1 + N.of_nat (S6.ns_cost c) <= u32_max /\
    (N.of_nat (length (S6.sem c)) < u32_max -> N.of_nat (S6.nattrs c) < u32_max -> CstNsView.view text d = Some (S6.sem c)).
Proof. exact parse_sound_and_complete_6a_nl. Qed.
Print Assumptions C08_parse_sound_and_complete_6a_nl.

Theorem C08_parse_view_of_witness :
  forall text opt d (c : S6.doc),
  parse text opt = Ok d -> S6.wf_doc c = true -> S6.render c = text ->
  (S6.has_dtd c = true -> allow_dtd opt = true) ->
  N.of_nat (length (S6.sem c)) < u32_max -> N.of_nat (S6.nattrs c) < u32_max ->
  S6.distinct_decls_le c (N.to_nat 65535) -> 1 + N.of_nat (S6.ns_cost c) <= u32_max ->
  CstNsView.view text d = Some (S6.sem c).
Proof. exact parse_view_of_witness. Qed.
Print Assumptions C08_parse_view_of_witness.

End G18.

(* ---- Proofs/CstSoundAll11Cor.v ---- *)
Module G19.
Import RX.Spec.CstFull. Import RX.Spec.CstFullS5. Import RX.Spec.CstFullS6. Import RX.Spec.CstFullS7. Import RX.Spec.CstFullS8. Import RX.Spec.CstFullS9. Import RX.Spec.CstFullS10. Import RX.Spec.CstFullS11. Import RX.Proofs.CstNsView. Import RX.Proofs.CstSoundP. Import RX.Proofs.CstSound6. Import RX.Proofs.CstSound6U. Import RX.Proofs.CstSound7. Import RX.Proofs.CstSound8. Import RX.Proofs.CstSound9. Import RX.Proofs.CstSound10. Import RX.Proofs.CstSound11. Import RX.Proofs.CstSoundCr. Import RX.Proofs.CstSoundCrFinal. Import RX.Proofs.CstSoundAll. Import RX.Proofs.CstSoundAll11. Import RX.Proofs.CstSoundAll11Cor.
Theorem C08_parse_sound_all11_res :
  forall text opt d,
  in_fragment_all11 text = true -> allow_dtd opt = true -> parse text opt = Ok d ->
  exists c : S6.doc, S11.wf_doc c = true /\ S11.render c = text /\
    S11.distinct_decls_le c (N.to_nat 65535) /\ 1 + N.of_nat (S11.ns_cost c) <= u32_max.
Proof. exact parse_sound_all11_res. Qed.
Print Assumptions C08_parse_sound_all11_res.

Theorem C08_parse_sound_and_complete_all11 :
  forall text opt d,
  in_fragment_all11 text = true -> allow_dtd opt = true -> parse text opt = Ok d ->
  exists c : S6.doc, S11.wf_doc c = true /\ S11.render c = text /\
    (N.of_nat (length (S11.sem c)) < nodes_limit opt -> N.of_nat (length (S11.sem c)) < u32_max -> N.of_nat (S11.nattrs c) < u32_max ->
     CstNsView.view text d = Some (S11.sem c)).
Proof. exact parse_sound_and_complete_all11. Qed.
Print Assumptions C08_parse_sound_and_complete_all11.

Theorem C08_parse_sound_and_complete_all11_nl :
  forall text opt d,
  in_fragment_all11 text = true -> allow_dtd opt = true -> parse text opt = Ok d ->
  exists c : S6.doc, S11.wf_doc c = true /\ S11.render c = text /\
    S11.distinct_decls_le c (N.to_nat 65535) /\ 1 + N.of_nat (S11.ns_cost c) <= u32_max /\
    (N.of_nat (length (S11.sem c)) < u32_max -> N.of_nat (S11.nattrs c) < u32_max -> CstNsView.view text d = Some (S11.sem c)).
Proof. exact parse_sound_and_complete_all11_nl. Qed.
Print Assumptions C08_parse_sound_and_complete_all11_nl.

End G19.

(* ---- Proofs/CstSoundAll11.v ---- *)
Module G20.
Import RX.Spec.CstFull. Import RX.Spec.CstFullS5. Import RX.Spec.CstFullS6. Import RX.Spec.CstFullS7. Import RX.Spec.CstFullS8. Import RX.Spec.CstFullS9. Import RX.Spec.CstFullS10. Import RX.Spec.CstFullS11. Import RX.Proofs.CstNsView. Import RX.Proofs.CstSoundP. Import RX.Proofs.CstSound6. Import RX.Proofs.CstSound6U. Import RX.Proofs.CstSound7. Import RX.Proofs.CstSound8. Import RX.Proofs.CstSound9. Import RX.Proofs.CstSound10. Import RX.Proofs.CstSound11. Import RX.Proofs.CstSoundCr. Import RX.Proofs.CstSoundCrFinal. Import RX.Proofs.CstSoundAll. Import RX.Proofs.CstSoundAll11. 
Theorem C08_parse_sound_all11 :
  forall text opt d,
  in_fragment_all11 text = true -> allow_dtd opt = true -> parse text opt = Ok d ->
  exists c : S6.doc, S11.wf_doc c = true /\ S11.render c = text.
Proof. exact parse_sound_all11. Qed.
Print Assumptions C08_parse_sound_all11.

End G20.

(* ---- Proofs/CstSoundAllCor.v ---- *)
Module G21.
Import RX.Spec.CstFull. Import RX.Spec.CstFullS5. Import RX.Spec.CstFullS6. Import RX.Spec.CstFullS7. Import RX.Spec.CstFullS8. Import RX.Spec.CstFullS9. Import RX.Spec.CstFullS10. Import RX.Proofs.CstNsView. Import RX.Proofs.CstSoundP. Import RX.Proofs.CstSound6. Import RX.Proofs.CstSound6U. Import RX.Proofs.CstSound7. Import RX.Proofs.CstSound8. Import RX.Proofs.CstSound9. Import RX.Proofs.CstSound10. Import RX.Proofs.CstSoundCr. Import RX.Proofs.CstSoundCrFinal. Import RX.Proofs.CstSoundAll. Import RX.Proofs.CstSoundAllCor.
Theorem C08_parse_sound_all_res :
  forall text opt d,
  in_fragment_all text = true -> allow_dtd opt = true -> parse text opt = Ok d ->
  exists c : S6.doc, S10.wf_doc c = true /\ S10.render c = text /\
    S10.distinct_decls_le c (N.to_nat 65535) /\ 1 + N.of_nat (S10.ns_cost c) <= u32_max.
Proof. exact parse_sound_all_res. Qed.
Print Assumptions C08_parse_sound_all_res.

Theorem C08_parse_sound_and_complete_all :
  forall text opt d,
  in_fragment_all text = true -> allow_dtd opt = true -> parse text opt = Ok d ->
  exists c : S6.doc, S10.wf_doc c = true /\ S10.render c = text /\
    (N.of_nat (length (S10.sem c)) < nodes_limit opt -> N.of_nat (length (S10.sem c)) < u32_max -> N.of_nat (S10.nattrs c) < u32_max ->
     CstNsView.view text d = Some (S10.sem c)).
Proof. exact parse_sound_and_complete_all. Qed.
Print Assumptions C08_parse_sound_and_complete_all.

Theorem C08_parse_sound_and_complete_all_nl :
  forall text opt d,
  in_fragment_all text = true -> allow_dtd opt = true -> parse text opt = Ok d ->
  exists c : S6.doc, S10.wf_doc c = true /\ S10.render c = text /\
    S10.distinct_decls_le c (N.to_nat 65535) /\ 1 + N.of_nat (S10.ns_cost c) <= u32_max /\
    (N.of_nat (length (S10.sem c)) < u32_max -> N.of_nat (S10.nattrs c) < u32_max -> CstNsView.view text d = Some (S10.sem c)).
Proof. exact parse_sound_and_complete_all_nl. Qed.
Print Assumptions C08_parse_sound_and_complete_all_nl.

End G21.

(* ---- Proofs/CstSoundAll.v ---- *)
Module G22.
Import RX.Spec.CstFull. Import RX.Spec.CstFullS5. Import RX.Spec.CstFullS6. Import RX.Spec.CstFullS7. Import RX.Spec.CstFullS8. Import RX.Spec.CstFullS9. Import RX.Spec.CstFullS10. Import RX.Proofs.CstNsView. Import RX.Proofs.CstSoundP. Import RX.Proofs.CstSound6. Import RX.Proofs.CstSound6U. Import RX.Proofs.CstSound7. Import RX.Proofs.CstSound8. Import RX.Proofs.CstSound9. Import RX.Proofs.CstSound10. Import RX.Proofs.CstSoundCr. Import RX.Proofs.CstSoundCrFinal. Import RX.Proofs.CstSoundAll. 
Theorem C08_parse_sound_all :
  forall text opt d,
  in_fragment_all text = true -> allow_dtd opt = true -> parse text opt = Ok d ->
  exists c : S6.doc, S10.wf_doc c = true /\ S10.render c = text.
Proof. exact parse_sound_all. Qed.
Print Assumptions C08_parse_sound_all.

End G22.

(* ---- Proofs/CstSound10eCor.v ---- *)
Module G23.
Import RX.Spec.CstFull. Import RX.Spec.CstFullS5. Import RX.Spec.CstFullS6. Import RX.Spec.CstFullS7. Import RX.Spec.CstFullS8. Import RX.Spec.CstFullS9. Import RX.Spec.CstFullS10. Import RX.Proofs.CstNsView. Import RX.Proofs.CstSoundP. Import RX.Proofs.CstSound6. Import RX.Proofs.CstSound6U. Import RX.Proofs.CstSound7. Import RX.Proofs.CstSound8. Import RX.Proofs.CstSound9. Import RX.Proofs.CstSound10. Import RX.Proofs.CstSoundCr. Import RX.Proofs.CstSoundCrFinal. Import RX.Proofs.CstSoundAll. Import RX.Proofs.CstSound10eCor.
Theorem C08_parse_sound_fragment_10_res :
  forall text opt d,
  in_fragment_10 text = true -> allow_dtd opt = true -> parse text opt = Ok d ->
  exists c : S6.doc, S10.wf_doc c = true /\ S10.render c = text /\
    S10.distinct_decls_le c (N.to_nat 65535) /\ 1 + N.of_nat (S10.ns_cost c) <= u32_max.
Proof. exact parse_sound_fragment_10_res. Qed.
Print Assumptions C08_parse_sound_fragment_10_res.

Theorem C08_parse_sound_and_complete_10 :
  forall text opt d,
  in_fragment_10 text = true -> allow_dtd opt = true -> parse text opt = Ok d ->
  exists c : S6.doc, S10.wf_doc c = true /\ S10.render c = text /\
    (N.of_nat (length (S10.sem c)) < nodes_limit opt -> N.of_nat (length (S10.sem c)) < u32_max -> N.of_nat (S10.nattrs c) < u32_max ->
     CstNsView.view text d = Some (S10.sem c)).
Proof. exact parse_sound_and_complete_10. Qed.
Print Assumptions C08_parse_sound_and_complete_10.

End G23.

(* ---- Proofs/CstSoundCrFinal.v ---- *)
Module G24.
Import RX.Spec.CstFull. Import RX.Spec.CstFullS5. Import RX.Spec.CstFullS6. Import RX.Spec.CstFullS7. Import RX.Spec.CstFullS8. Import RX.Proofs.CstSoundP. Import RX.Proofs.CstSound6. Import RX.Proofs.CstSound6U. Import RX.Proofs.CstSound7. Import RX.Proofs.CstSound8. Import RX.Proofs.CstSoundCr. Import RX.Proofs.CstSoundCrLex2. Import RX.Proofs.CstSoundCrFinal.
Theorem C08_parse_sound_fragment_8cr2 :
  forall text opt d,
  in_fragment_8cr2 text = true -> allow_dtd opt = true -> parse text opt = Ok d ->
  exists c : S6.doc, S8.wf_doc c = true /\ S8.render c = text.
Proof. exact parse_sound_fragment_8cr2. Qed.
Print Assumptions C08_parse_sound_fragment_8cr2.

End G24.

(* ---- Proofs/CstSound11Final.v ---- *)
Module G25.
Import RX.Spec.CstFull. Import RX.Spec.CstFullS5. Import RX.Spec.CstFullS6. Import RX.Spec.CstFullS7. Import RX.Spec.CstFullS8. Import RX.Spec.CstFullS9. Import RX.Spec.CstFullS10. Import RX.Spec.CstFullS11. Import RX.Proofs.CstNsView. Import RX.Proofs.CstSoundP. Import RX.Proofs.CstSound6. Import RX.Proofs.CstSound6U. Import RX.Proofs.CstSound7. Import RX.Proofs.CstSound8. Import RX.Proofs.CstSound9. Import RX.Proofs.CstSound10. Import RX.Proofs.CstSound11. Import RX.Proofs.CstSound11Final.
Theorem C08_parse_sound_fragment_11 :
  forall text opt d,
  in_fragment_11 text = true -> allow_dtd opt = true -> parse text opt = Ok d ->
  exists c : S6.doc, S11.wf_doc c = true /\ S11.render c = text.
Proof. exact parse_sound_fragment_11. Qed.
Print Assumptions C08_parse_sound_fragment_11.

Theorem C08_parse_sound_and_complete_11_hyp :
  forall text opt d,
  in_fragment_11 text = true -> allow_dtd opt = true -> parse text opt = Ok d ->
  exists c : S6.doc, S11.wf_doc c = true /\ S11.render c = text /\
    (N.of_nat (length (S11.sem c)) < u32_max -> N.of_nat (S11.nattrs c) < u32_max ->
     S11.distinct_decls_le c (N.to_nat 65535) -> 1 + N.of_nat (S11.ns_cost c) <= u32_max ->
     CstNsView.view text d = Some (S11.sem c)).
Proof. exact parse_sound_and_complete_11_hyp. Qed.
Print Assumptions C08_parse_sound_and_complete_11_hyp.

End G25.

(* ---- Proofs/CstSound10Final.v ---- *)
Module G26.
Import RX.Spec.CstFull. Import RX.Spec.CstFullS5. Import RX.Spec.CstFullS6. Import RX.Spec.CstFullS7. Import RX.Spec.CstFullS8. Import RX.Spec.CstFullS9. Import RX.Spec.CstFullS10. Import RX.Proofs.CstNsView. Import RX.Proofs.CstSoundP. Import RX.Proofs.CstSound6. Import RX.Proofs.CstSound6U. Import RX.Proofs.CstSound7. Import RX.Proofs.CstSound8. Import RX.Proofs.CstSound9. Import RX.Proofs.CstSound10. Import RX.Proofs.CstSound10Final.
Theorem C08_parse_sound_fragment_10 :
  forall text opt d,
  in_fragment_10 text = true -> allow_dtd opt = true -> parse text opt = Ok d ->
  exists c : S6.doc, S10.wf_doc c = true /\ S10.render c = text.
Proof. exact parse_sound_fragment_10. Qed.
Print Assumptions C08_parse_sound_fragment_10.

Theorem C08_parse_sound_and_complete_10_hyp :
  forall text opt d,
  in_fragment_10 text = true -> allow_dtd opt = true -> parse text opt = Ok d ->
  exists c : S6.doc, S10.wf_doc c = true /\ S10.render c = text /\
    (N.of_nat (length (S10.sem c)) < u32_max -> N.of_nat (S10.nattrs c) < u32_max ->
     S10.distinct_decls_le c (N.to_nat 65535) -> 1 + N.of_nat (S10.ns_cost c) <= u32_max ->
     CstNsView.view text d = Some (S10.sem c)).
Proof. exact parse_sound_and_complete_10_hyp. Qed.
Print Assumptions C08_parse_sound_and_complete_10_hyp.

End G26.

(* ---- Proofs/CstSound9Final.v ---- *)
Module G27.
Import RX.Spec.CstFull. Import RX.Spec.CstFullS5. Import RX.Spec.CstFullS6. Import RX.Spec.CstFullS7. Import RX.Spec.CstFullS8. Import RX.Spec.CstFullS9. Import RX.Proofs.CstNsView. Import RX.Proofs.CstSoundP. Import RX.Proofs.CstSound6. Import RX.Proofs.CstSound6U. Import RX.Proofs.CstSound7. Import RX.Proofs.CstSound8. Import RX.Proofs.CstSound9. Import RX.Proofs.CstSound9Final.
Theorem C08_parse_sound_fragment_9 :
  forall text opt d,
  in_fragment_9 text = true -> allow_dtd opt = true -> parse text opt = Ok d ->
  exists c : S6.doc, S9.wf_doc c = true /\ S9.render c = text.
Proof. exact parse_sound_fragment_9. Qed.
Print Assumptions C08_parse_sound_fragment_9.

Theorem C08_parse_sound_and_complete_9_hyp :
  forall text opt d,
  in_fragment_9 text = true -> allow_dtd opt = true -> parse text opt = Ok d ->
  exists c : S6.doc, S9.wf_doc c = true /\ S9.render c = text /\
    (N.of_nat (length (S9.sem c)) < u32_max -> N.of_nat (S9.nattrs c) < u32_max ->
     S9.distinct_decls_le c (N.to_nat 65535) -> 1 + N.of_nat (S9.ns_cost c) <= u32_max ->
     CstNsView.view text d = Some (S9.sem c)).
Proof. exact parse_sound_and_complete_9_hyp. Qed.
Print Assumptions C08_parse_sound_and_complete_9_hyp.

End G27.

(* ---- Proofs/CstSound8Cor.v ---- *)
Module G28.
Import RX.Spec.CstFull. Import RX.Spec.CstFullS5. Import RX.Spec.CstFullS6. Import RX.Spec.CstFullS7. Import RX.Spec.CstFullS8. Import RX.Spec.CstFullS9. Import RX.Proofs.CstNsView. Import RX.Proofs.CstSoundP. Import RX.Proofs.CstSound6. Import RX.Proofs.CstSound6U. Import RX.Proofs.CstSound7. Import RX.Proofs.CstSound8. Import RX.Proofs.CstSound8Cor.
Theorem C08_parse_sound_and_complete_8_hyp :
  forall text opt d,
  in_fragment_8 text = true -> allow_dtd opt = true -> parse text opt = Ok d ->
  exists c : S6.doc, S8.wf_doc c = true /\ S8.render c = text /\
    (N.of_nat (length (S8.sem c)) < u32_max -> N.of_nat (S8.nattrs c) < u32_max ->
     S8.distinct_decls_le c (N.to_nat 65535) -> 1 + N.of_nat (S8.ns_cost c) <= u32_max ->
     CstNsView.view text d = Some (S8.sem c)).
Proof. exact parse_sound_and_complete_8_hyp. Qed.
Print Assumptions C08_parse_sound_and_complete_8_hyp.

End G28.

(* ---- Proofs/CstSound7Final.v ---- *)
Module G29.
Import RX.Spec.CstFull. Import RX.Spec.CstFullS5. Import RX.Spec.CstFullS6. Import RX.Spec.CstFullS7. Import RX.Spec.CstFullS8. Import RX.Proofs.CstSoundP. Import RX.Proofs.CstSound6. Import RX.Proofs.CstSound6U. Import RX.Proofs.CstSound7. Import RX.Proofs.CstSound7Final.
Theorem C08_parse_sound_fragment_7 :
  forall text opt d,
  in_fragment_7 text = true -> allow_dtd opt = true -> parse text opt = Ok d ->
  exists c : S6.doc, S7.wf_doc c = true /\ S7.render c = text.
Proof. exact parse_sound_fragment_7. Qed.
Print Assumptions C08_parse_sound_fragment_7.

End G29.

(* ---- Proofs/CstSound8Final.v ---- *)
Module G30.
Import RX.Spec.CstFull. Import RX.Spec.CstFullS5. Import RX.Spec.CstFullS6. Import RX.Spec.CstFullS7. Import RX.Spec.CstFullS8. Import RX.Proofs.CstSoundP. Import RX.Proofs.CstSound6. Import RX.Proofs.CstSound6U. Import RX.Proofs.CstSound7. Import RX.Proofs.CstSound8. Import RX.Proofs.CstSound8Final.
Theorem C08_parse_sound_fragment_8 :
  forall text opt d,
  in_fragment_8 text = true -> allow_dtd opt = true -> parse text opt = Ok d ->
  exists c : S6.doc, S8.wf_doc c = true /\ S8.render c = text.
Proof. exact parse_sound_fragment_8. Qed.
Print Assumptions C08_parse_sound_fragment_8.

End G30.

(* ---- Proofs/CstSound6dFinal.v ---- *)
Module G31.
Import RX.Spec.CstFull. Import RX.Spec.CstFullS5. Import RX.Spec.CstFullS6. Import RX.Proofs.CstNsView. Import RX.Proofs.CstSoundP. Import RX.Proofs.CstSound6. Import RX.Proofs.CstSound6U. Import RX.Proofs.CstSound6dFinal.
Theorem C08_parse_sound_fragment_6 :
  forall text opt d,
  in_fragment_6 text = true -> allow_dtd opt = true -> parse text opt = Ok d ->
  exists c : S6.doc, S6.wf_doc c = true /\ S6.render c = text.
Proof. exact parse_sound_fragment_6. Qed.
Print Assumptions C08_parse_sound_fragment_6.

End G31.

(* ---- Proofs/CstSound6eCor.v ---- *)
Module G32.
Import RX.Spec.CstFull. Import RX.Spec.CstFullS5. Import RX.Spec.CstFullS6. Import RX.Proofs.CstNsView. Import RX.Proofs.CstSoundP. Import RX.Proofs.CstSound6. Import RX.Proofs.CstSound6U. Import RX.Proofs.CstSound6eCor.
Theorem C08_parse_sound_fragment_6_res :
  forall text opt d,
  in_fragment_6 text = true -> allow_dtd opt = true -> parse text opt = Ok d ->
  exists c : S6.doc, S6.wf_doc c = true /\ S6.render c = text /\
    S6.distinct_decls_le c (N.to_nat 65535) /\ 1 + N.of_nat (S6.ns_cost c) <= u32_max.
Proof. exact parse_sound_fragment_6_res. Qed.
Print Assumptions C08_parse_sound_fragment_6_res.

Theorem C08_parse_sound_and_complete_6 :
  forall text opt d,
  in_fragment_6 text = true -> allow_dtd opt = true -> parse text opt = Ok d ->
  exists c : S6.doc, S6.wf_doc c = true /\ S6.render c = text /\
    (N.of_nat (length (S6.sem c)) < nodes_limit opt -> N.of_nat (length (S6.sem c)) < u32_max -> N.of_nat (S6.nattrs c) < u32_max ->
     CstNsView.view text d = Some (S6.sem c)).
Proof. exact parse_sound_and_complete_6. Qed.
Print Assumptions C08_parse_sound_and_complete_6.

Theorem C08_parse_sound_and_complete_6_nl :
  forall text opt d,
  in_fragment_6 text = true -> allow_dtd opt = true -> parse text opt = Ok d ->
  exists c : S6.doc, S6.wf_doc c = true /\ S6.render c = text /\
    S6.distinct_decls_le c (N.to_nat 65535) /\ 1 + N.of_nat (S6.ns_cost c) <= u32_max /\
    (N.of_nat (length (S6.sem c)) < u32_max -> N.of_nat (S6.nattrs c) < u32_max -> CstNsView.view text d = Some (S6.sem c)).
Proof. exact parse_sound_and_complete_6_nl. Qed.
Print Assumptions C08_parse_sound_and_complete_6_nl.

End G32.

(* ---- Proofs/CstSound6cFinal.v ---- *)
Module G33.
Import RX.Spec.CstFull. Import RX.Spec.CstFullS5. Import RX.Spec.CstFullS6. Import RX.Proofs.CstSoundP. Import RX.Proofs.CstSound6. Import RX.Proofs.CstSound6U. Import RX.Proofs.CstSound6a. Import RX.Proofs.CstSound6c. Import RX.Proofs.CstSound6cFinal.
Theorem C08_parse_sound_fragment_6c :
  forall text opt d,
  in_fragment_6c text = true -> allow_dtd opt = true -> parse text opt = Ok d ->
  exists c : S6.doc, S6.wf_doc c = true /\ S6.render c = text.
Proof. exact parse_sound_fragment_6c. Qed.
Print Assumptions C08_parse_sound_fragment_6c.

End G33.

(* ---- Proofs/CstSound6aFinal.v ---- *)
Module G34.
Import RX.Spec.CstFull. Import RX.Spec.CstFullS5. Import RX.Spec.CstFullS6. Import RX.Proofs.CstSoundP. Import RX.Proofs.CstSound6. Import RX.Proofs.CstSound6U. Import RX.Proofs.CstSound6a. Import RX.Proofs.CstSound6aFinal.
Theorem C08_parse_sound_fragment_6a1 :
  forall text opt d,
  in_fragment_6a1 text = true -> allow_dtd opt = true -> parse text opt = Ok d ->
  exists c : S6.doc, S6.wf_doc c = true /\ S6.render c = text.
Proof. exact parse_sound_fragment_6a1. Qed.
Print Assumptions C08_parse_sound_fragment_6a1.

End G34.

(* ---- Proofs/KnownFindingsMore.v ---- *)
Module G35.
Import RX.Proofs.CstNsView. Import RX.Proofs.KnownFindingsMore.
Theorem C08_d27_refuted :
  exists x : document,
         parse d27_text opts = Ok x /\ view d27_text x = Some [elem "a" [] 1; CstNs.VText (b "x%y")].
Proof. exact d27_refuted. Qed.
Print Assumptions C08_d27_refuted.

Theorem C08_d28_refuted :
  exists x : document,
         parse d28_text opts = Ok x /\
         view d28_text x = Some [elem "a" [] 2; CstNs.VPI (b "p:q") (Some (b "r")); CstNs.VText (b "x")].
Proof. exact d28_refuted. Qed.
Print Assumptions C08_d28_refuted.

Theorem C08_d29_refuted :
  exists x : document,
         parse d29_text opts = Ok x /\ view d29_text x = Some [elem "a" [] 1; CstNs.VText (b "&")].
Proof. exact d29_refuted. Qed.
Print Assumptions C08_d29_refuted.

End G35.

(* ---- Proofs/KnownFindingsD21.v ---- *)
Module G36.
Import RX.Spec.CstNs. Import RX.Proofs.NsRejDefs. Import RX.Proofs.NsRejBuild. Import RX.Proofs.NsRejMain. Import RX.Proofs.KnownFindingsD21.
Theorem C08_d21_refuted :
  exists (c : doc) (d : document),
    render c = d21_text /\ dup_decl c = true /\ parse (render c) default_options = Ok d.
Proof. exact d21_refuted. Qed.
Print Assumptions C08_d21_refuted.

Theorem C08_d21_wf_for_spec :
  d21_class d21_doc = true /\ wf_doc d21_doc = true /\ first_violation d21_doc = None.
Proof. exact d21_wf_for_spec. Qed.
Print Assumptions C08_d21_wf_for_spec.

Theorem C08_d21_outside_class :
  forall (c : doc) (opt : options),
  wf_syntax_ns c = true -> dup_decl_outside_xml c = true -> fits c opt ->
  exists e, parse (render c) opt = Err e /\ is_ns_error e = true.
Proof. exact d21_outside_class. Qed.
Print Assumptions C08_d21_outside_class.

Theorem C08_d21_outside_class_variant :
  forall (c : doc) (opt : options) (p : bytes),
  wf_syntax_ns c = true -> first_violation c = Some (DupPrefix p) -> fits c opt ->
  dup_decl_outside_xml c = true /\ exists tp, parse (render c) opt = Err (DuplicatedNamespace p tp).
Proof. exact d21_outside_class_variant. Qed.
Print Assumptions C08_d21_outside_class_variant.

End G36.

(* ---- Proofs/NsRejMain.v ---- *)
Module G37.
Import CstNs.
Theorem C08_ns_violation_rejected :
  forall (c : doc) (opt : options),
  wf_syntax_ns c = true -> ns_conditions c = false ->
  N.of_nat (length (sem c)) < nodes_limit opt ->
  N.of_nat (length (render c)) <= u32_max ->
  distinct_decls_le (d_root c) (N.to_nat 65535) ->
  1 + N.of_nat (ns_cost [] (d_root c)) <= u32_max ->
  exists e, parse (render c) opt = Err e /\ is_ns_error e = true.
Proof. exact ns_violation_rejected. Qed.
Print Assumptions C08_ns_violation_rejected.

End G37.

(* ---- Proofs/CstFullRejS11NsMain.v ---- *)
Module G38.
Import RX.Spec.CstFull. Import RX.Spec.CstFullS4. Import RX.Spec.CstFullS6. Import RX.Spec.CstFullS11. Import RX.Proofs.CstNsView. Import RX.Proofs.CstFullS11Main. Import RX.Proofs.NsRejDefs. Import RX.Proofs.NsRejBuild. Import RX.Proofs.CstFullRejSem. Import RX.Proofs.CstFullRejS11Sem. Import RX.Proofs.CstFullRejTrace. Import RX.Proofs.CstFullRejS11Doc. Import RX.Proofs.CstFullRejMain. Import RX.Proofs.CstFullRejS11Main. Import RX.Proofs.CstFullNsRejMain. Import RX.Proofs.CstFullRejS11NsMain.
Theorem C08_ns_violation_rejected_full_s11 :
  forall (d : S6.doc) (opt : options) (cT : CstFull.doc bpieces) (tr : list Detector.lop),
  wf_syntax11 d = true -> ginline6 d = Some (cT, tr) ->
  Detector.within_limits 10 255 0 0 tr = true ->
  provisos_item (d_root cT) = true ->
  attrs_named_ok cT = true ->
  (S6.has_dtd d = true -> allow_dtd opt = true) ->
  N.of_nat (length (usem6 d cT)) < nodes_limit opt ->
  N.of_nat (length (usem6 d cT)) < u32_max ->
  N.of_nat (vattrs (usem6 d cT)) < u32_max ->
  CstFull.distinct_decls_le bmeaning cT (N.to_nat 65535) ->
  1 + N.of_nat (CstFull.ns_cost bmeaning cT) <= u32_max ->
  forallb (ns_ok []) (den bmeaning (d_root cT)) = false ->
  exists e, parse (S6.render d) opt = Err e /\ is_ns_error e = true.
Proof. exact ns_violation_rejected_full_s11. Qed.
Print Assumptions C08_ns_violation_rejected_full_s11.

End G38.

(* ---- Proofs/CstFullNsRejMain.v ---- *)
Module G39.
Import RX.Spec.CstFull. Import RX.Spec.CstFullS4. Import RX.Spec.CstFullS6. Import RX.Proofs.CstNsView. Import RX.Proofs.CstFullS6Main. Import RX.Proofs.NsRejDefs. Import RX.Proofs.NsRejBuild. Import RX.Proofs.CstFullRejSem. Import RX.Proofs.CstFullRejTrace. Import RX.Proofs.CstFullRejDoc. Import RX.Proofs.CstFullRejMain. Import RX.Proofs.CstFullNsRejMain.
Theorem C08_ns_violation_rejected_full_s6 :
  forall (d : S6.doc) (opt : options) (cT : CstFull.doc bpieces) (tr : list Detector.lop),
  wf_syntax6 d = true -> ginline6 d = Some (cT, tr) ->
  Detector.within_limits 10 255 0 0 tr = true ->
  provisos_item (d_root cT) = true ->
  attrs_named_ok cT = true ->
  (S6.has_dtd d = true -> allow_dtd opt = true) ->
  N.of_nat (length (usem6 d cT)) < nodes_limit opt ->
  N.of_nat (length (usem6 d cT)) < u32_max ->
  N.of_nat (vattrs (usem6 d cT)) < u32_max ->
  CstFull.distinct_decls_le bmeaning cT (N.to_nat 65535) ->
  1 + N.of_nat (CstFull.ns_cost bmeaning cT) <= u32_max ->
  forallb (ns_ok []) (den bmeaning (d_root cT)) = false ->
  exists e, parse (S6.render d) opt = Err e /\ is_ns_error e = true.
Proof. exact ns_violation_rejected_full_s6. Qed.
Print Assumptions C08_ns_violation_rejected_full_s6.

End G39.
