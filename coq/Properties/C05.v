(* C05 -- attribute values are normalised per XML 1.0 3.3.3: the attribute machine
   (push_from_attr / push_raw as driven by _normalize_attribute) against Spec/Text.v.
   Statements pinned here; proofs in Proofs/TextMachine.v. *)
From Coq Require Import List NArith Bool.
Import ListNotations.
From RX.Model Require Import Base Stream Builder Parse.
From RX.Spec Require Import Text.
From RX.Proofs Require Import TextMachine.
Open Scope N_scope.

Theorem C05_attr_chunks_normalise :
  forall cs t,
  push_attr_chunks false cs tb_new = Some t ->
  tb_buf (tb_flush t) = norm_attr_chunks cs.
Proof. exact attr_chunks_normalise. Qed.
Print Assumptions C05_attr_chunks_normalise.

Theorem C05_attr_chunks_total_top :
  forall cs, exists t, push_attr_chunks false cs tb_new = Some t.
Proof. exact attr_chunks_total_top. Qed.
Print Assumptions C05_attr_chunks_total_top.

Theorem C05_attr_chunks_in_entity :
  forall cs t,
  push_attr_chunks true cs tb_new = Some t ->
  tb_buf (tb_flush t) = norm_attr_chunks_in_entity cs.
Proof. exact attr_chunks_in_entity. Qed.
Print Assumptions C05_attr_chunks_in_entity.

(* the same, on the model's own function: a top-level attribute value whose chunks contain no
   general entity reference is normalised to norm_attr_chunks *)
Theorem C05_normalize_attribute_chunks_top :
  forall (text : bytes) (value : slice) (c : context) (s0 : Stream.stream) (cs : list chunk),
  existsb (fun x => (x =? 38) || (x =? 9) || (x =? 10) || (x =? 13)) (slice_bytes text value) = true ->
  stream_from_substr text (sl_start value) (sl_end value) = Ok s0 ->
  areads text false s0 cs ->
  (0 <? ld_depth (c_ld c)) = false ->
  normalize_attribute text value c = OutOfFuel \/
  normalize_attribute text value c =
    (if valid_utf8_b (norm_attr_chunks cs)
     then Ok (Doc.Owned (norm_attr_chunks cs), set_ld c (c_ld c))
     else Panic P_unwrap).
Proof. exact normalize_attribute_chunks_top. Qed.
Print Assumptions C05_normalize_attribute_chunks_top.
