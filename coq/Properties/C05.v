(* C05 -- attributes: exact set, source order, values normalised per XML 1.0 3.3.3.
   (1) the attribute machine (push_from_attr / push_raw as driven by _normalize_attribute) against
   Spec/Text.v, at top level and inside entity values, and on the model's normalize_attribute;
   (2) a namespace declaration is never stored as an attribute, attributes are stored in source order,
   nothing dropped or duplicated, expanded names pairwise distinct, namespace indices as resolved;
   (3) whole documents, fragment of Spec/CstText.v (attribute values made of literals incl. TAB / LF / CR / CR LF,
   character and predefined references): every rendering parses to the element's attributes in source order with
   values norm_attr_chunks of their pieces (parse_render_sem_text; view / sem list the attributes of every element).
   Statements are pinned here (copied verbatim from the proof files by tools/pin_props.py);
   each is re-proved by `exact` and followed by Print Assumptions. *)
From Coq Require Import Ascii String.
From Coq Require Import List NArith Bool PeanoNat Sorted.
Import ListNotations.
From RX Require Import Generated.
From RX.Model Require Import Base CharClass Stream Tokenizer Doc Builder Parse Api.
From RX.Spec Require Import Text.
From RX.Spec Require Cst CstText.
From RX.Proofs Require Import TextMachine AttrListProofs CstMain CstTextMain.
Open Scope N_scope.

(* ---- Proofs/CstTextMain.v ---- *)
Module G0.
Module T := CstText.
Theorem C05_parse_render_sem_text :
  forall (c : T.doc) (opt : options),
  T.wf_doc c = true ->
  N.of_nat (length (T.sem c)) < nodes_limit opt ->            (* room for all nodes + the Root *)
  N.of_nat (length (T.render c)) <= u32_max ->                 (* the input is at most u32::MAX bytes long *)
  exists d, parse (T.render c) opt = Ok d /\
            view (T.render c) d = T.sem c /\
            (forall nd ns local ar nss, In nd (d_nodes d) -> nd_kind nd = KElement ns local ar nss -> ns = None) /\
            (forall a, In a (d_attrs d) -> ad_ns_idx a = None).
Proof. exact parse_render_sem_text. Qed.
Print Assumptions C05_parse_render_sem_text.

Theorem C05_layout_insensitive_text :
  forall c1 c2 opt,
  T.wf_doc c1 = true -> T.wf_doc c2 = true -> T.sem c1 = T.sem c2 ->
  N.of_nat (length (T.sem c1)) < nodes_limit opt ->
  N.of_nat (length (T.render c1)) <= u32_max -> N.of_nat (length (T.render c2)) <= u32_max ->
  exists d1 d2, parse (T.render c1) opt = Ok d1 /\ parse (T.render c2) opt = Ok d2 /\
                view (T.render c1) d1 = view (T.render c2) d2.
Proof. exact layout_insensitive_text. Qed.
Print Assumptions C05_layout_insensitive_text.

End G0.

(* ---- Proofs/TextMachine.v ---- *)
Theorem C05_attr_chunks_normalise :
  forall cs t,
  push_attr_chunks false cs tb_new = Some t ->
  tb_buf (tb_flush t) = norm_attr_chunks cs.
Proof. exact attr_chunks_normalise. Qed.
Print Assumptions C05_attr_chunks_normalise.

Theorem C05_attr_chunks_total_top :
  forall cs, exists t, push_attr_chunks false cs tb_new = Some t.
Proof. exact attr_chunks_total_top. Qed.
Print Assumptions C05_attr_chunks_total_top.

Theorem C05_attr_chunks_in_entity :
  forall cs t,
  push_attr_chunks true cs tb_new = Some t ->
  tb_buf (tb_flush t) = norm_attr_chunks_in_entity cs.
Proof. exact attr_chunks_in_entity. Qed.
Print Assumptions C05_attr_chunks_in_entity.

(* ---- Proofs/AttrListProofs.v ---- *)
Theorem C05_process_attribute_classifies :
  forall text r qn eq prefix local value c c',
  process_attribute text r qn eq prefix local value c = Ok c' ->
  d_attrs (c_doc c') = d_attrs (c_doc c) /\ d_nodes (c_doc c') = d_nodes (c_doc c) /\
  (if bytes_eqb (slice_bytes text prefix) xmlns_str || ((slice_len prefix =? 0) && bytes_eqb (slice_bytes text local) xmlns_str)
   then c_cur_attrs c' = c_cur_attrs c
   else exists v, c_cur_attrs c' = c_cur_attrs c ++
          [{| ta_prefix := prefix; ta_local := local; ta_value := v; ta_range := r;
              ta_qname_len := qn; ta_eq_len := eq |}]).
Proof. exact process_attribute_classifies. Qed.
Print Assumptions C05_process_attribute_classifies.

Theorem C05_resolve_attributes_in_order :
  forall text nss c r c',
  resolve_attributes text nss c = Ok (r, c') ->
  c_cur_attrs c' = [] /\
  (exists new,
     d_attrs (c_doc c') = d_attrs (c_doc c) ++ new /\
     map ad_local new = map ta_local (c_cur_attrs c) /\
     map ad_value new = map ta_value (c_cur_attrs c) /\
     map ad_range new = map ta_range (c_cur_attrs c) /\
     map ad_qname_len new = map ta_qname_len (c_cur_attrs c) /\
     map ad_eq_len new = map ta_eq_len (c_cur_attrs c)) /\
  r = match c_cur_attrs c with
      | [] => (0, 0)
      | _ => (len_N (d_attrs (c_doc c)), len_N (d_attrs (c_doc c')))
      end /\
  d_nodes (c_doc c') = d_nodes (c_doc c) /\
  d_ns_values (c_doc c') = d_ns_values (c_doc c) /\
  d_ns_tree (c_doc c') = d_ns_tree (c_doc c).
Proof. exact resolve_attributes_in_order. Qed.
Print Assumptions C05_resolve_attributes_in_order.

Theorem C05_resolve_attributes_unique :
  forall text nss c r c' new,
  resolve_attributes text nss c = Ok (r, c') ->
  d_attrs (c_doc c') = d_attrs (c_doc c) ++ new ->
  exists names,
    Forall2 (fun a n => attr_expanded_name text (c_doc c') (ad_ns_idx a) (ad_local a) = Ok n)
            new names /\
    NoDup names.
Proof. exact resolve_attributes_unique. Qed.
Print Assumptions C05_resolve_attributes_unique.

Theorem C05_resolve_attributes_unique_eqb :
  forall text nss c r c' new i j a a' n n',
  resolve_attributes text nss c = Ok (r, c') ->
  d_attrs (c_doc c') = d_attrs (c_doc c) ++ new ->
  nth_error new i = Some a -> nth_error new j = Some a' -> i <> j ->
  attr_expanded_name text (c_doc c') (ad_ns_idx a) (ad_local a) = Ok n ->
  attr_expanded_name text (c_doc c') (ad_ns_idx a') (ad_local a') = Ok n' ->
  opt_str_eqb (fst n) (fst n') && bytes_eqb (snd n) (snd n') = false.
Proof. exact resolve_attributes_unique_eqb. Qed.
Print Assumptions C05_resolve_attributes_unique_eqb.

Theorem C05_resolve_attributes_namespace :
  forall text nss c r c' new,
  resolve_attributes text nss c = Ok (r, c') ->
  d_attrs (c_doc c') = d_attrs (c_doc c) ++ new ->
  Forall2 (fun t a =>
             let pb := slice_bytes text (ta_prefix t) in
             if bytes_eqb pb ns_xml_prefix then ad_ns_idx a = Some 0
             else match pb with
                  | [] => ad_ns_idx a = None
                  | _ => get_ns_idx_by_prefix text nss (fst (ta_range t)) (ta_prefix t) (c_doc c')
                         = Ok (ad_ns_idx a)
                  end)
          (c_cur_attrs c) new.
Proof. exact resolve_attributes_namespace. Qed.
Print Assumptions C05_resolve_attributes_namespace.


(* the same, on the model's own function: a top-level attribute value whose chunks contain no
   general entity reference is normalised to norm_attr_chunks *)
Theorem C05_normalize_attribute_chunks_top :
  forall (text : bytes) (value : slice) (c : context) (s0 : Stream.stream) (cs : list chunk),
  existsb (fun x => (x =? 38) || (x =? 9) || (x =? 10) || (x =? 13)) (slice_bytes text value) = true ->
  stream_from_substr text (sl_start value) (sl_end value) = Ok s0 ->
  areads text false s0 cs ->
  (0 <? ld_depth (c_ld c)) = false ->
  normalize_attribute text value c = OutOfFuel \/
  normalize_attribute text value c =
    (if valid_utf8_b (norm_attr_chunks cs)
     then Ok (Doc.Owned (norm_attr_chunks cs), set_ld c (c_ld c))
     else Panic P_unwrap).
Proof. exact normalize_attribute_chunks_top. Qed.
Print Assumptions C05_normalize_attribute_chunks_top.
