(* C13 -- source ranges are valid and designate the construct they belong to.  For every parsed document
   (entity-expanded nodes included): every node and attribute range is a valid slice of the input (start <=
   end <= len, char boundaries), the root range is the whole input, every attribute lies strictly inside its
   element's range with its qname sub-range inside it; for documents without a DOCTYPE a child's range lies
   within its parent's and a node starts after its previous sibling ends.  Shape clauses, from the lexer
   post-conditions: the range of a comment token is exactly '<!--' text '-->', of a PI token '<?' target ...
   '?>', a start tag runs from '<' to its '>' and the name follows the '<', an end tag from '</' to '>';
   text / CDATA ranges are the token's source.  Attribute sub-ranges (below the documented saturation limits):
   the qname sub-range ends where the local name ends, the value sub-range is delimited by the same quote on
   both sides, ends one byte before the attribute's end, equals a borrowed value's slice, and only whitespace and
   one '=' separate it from the qname.  Shift: prepending whitespace to an input that starts with neither a BOM nor
   an XML declaration yields the same document with every non-root range moved by exactly that length.
   Whole documents on the fragment of Spec/Cst.v: the range of every node is exactly the span of its construct in
   the rendering (spans c, CstRangeDefs.v: an element from its '<' to the '>' of its end or empty-element tag), the
   root range is the whole input, attribute range / qname / value sub-ranges are exactly the written name-to-quote,
   name and between-the-quotes spans (attr_spans c); hence the slice shapes C13 names (EXTRA below).
   Statements are pinned here (copied verbatim from the proof files by tools/pin_props.py);
   each is re-proved by `exact` and followed by Print Assumptions. *)
From Coq Require Import Ascii String.
From Coq Require Import List NArith Bool PeanoNat Sorted.
Import ListNotations.
From RX Require Import Generated.
From RX.Model Require Import Base CharClass Stream Tokenizer Doc Builder Parse Api.
From RX.Proofs Require Import LexerProofs NoPanicTokenizer RangeTokenizer RangeArena RangeInv RangeBuilder RangeParse RangeAttrLocal RangeAttrTok RangeAttrParse RangeShiftBase RangeShiftStream RangeShiftTokenizer RangeShiftBuilder RangeShiftParse RangeShiftFinal CstRangeDefs CstRangeMain CstRangeTDefs CstRangeTMain CstEntDoc CstRangeEDefs CstRangeEMain CstRangeEValid.
From RX.Spec Require Cst CstText CstEnt CstFull CstFullS5.
From RX.Proofs Require CstRangeFDefs CstRangeFS2 CstRangeGDefs CstRangeGS3 CstRangeG5Defs CstRangeG5.
From RX.Spec Require CstFullS4 CstFullS6.
From RX.Proofs Require CstRangeG6Defs CstRangeG6 ErrShiftSubFinal ErrShiftProlog.
From RX.Spec Require CstFullS10 CstFullS11.
From RX.Proofs Require CstRangeG10 CstRangeG11.
Open Scope N_scope.

(* ---- Proofs/RangeParse.v ---- *)
Theorem C13_parse_ranges_valid :
  forall text opt d, valid_utf8_b text = true ->
  parse text opt = Ok d -> doc_ranges_ok text d.
Proof. exact parse_ranges_valid. Qed.
Print Assumptions C13_parse_ranges_valid.

Theorem C13_parse_attr_ranges_inside :
  forall text opt d id nd ns local ar nss a i, valid_utf8_b text = true ->
  parse text opt = Ok d -> nth_N (d_nodes d) id = Some nd -> nd_kind nd = KElement ns local ar nss ->
  fst ar <= i -> i < snd ar -> nth_N (d_attrs d) i = Some a ->
  fst (nd_range nd) < fst (ad_range a) /\ snd (ad_range a) < snd (nd_range nd) /\
  fst (attr_range_qname a) = fst (ad_range a) /\ snd (attr_range_qname a) <= snd (ad_range a).
Proof. exact parse_attr_ranges_inside. Qed.
Print Assumptions C13_parse_attr_ranges_inside.

Theorem C13_parse_ranges_nest :
  forall text opt d id nd p pnd, valid_utf8_b text = true ->
  contains_b (b "<!DOCTYPE") text = false ->
  parse text opt = Ok d -> nth_N (d_nodes d) id = Some nd -> nd_parent nd = Some p -> nth_N (d_nodes d) p = Some pnd ->
  fst (nd_range pnd) <= fst (nd_range nd) /\ snd (nd_range nd) <= snd (nd_range pnd).
Proof. exact parse_ranges_nest. Qed.
Print Assumptions C13_parse_ranges_nest.

Theorem C13_parse_ranges_siblings :
  forall text opt d id nd q qnd, valid_utf8_b text = true ->
  contains_b (b "<!DOCTYPE") text = false ->
  parse text opt = Ok d -> nth_N (d_nodes d) id = Some nd -> nd_prev_sibling nd = Some q -> nth_N (d_nodes d) q = Some qnd ->
  snd (nd_range qnd) <= fst (nd_range nd).
Proof. exact parse_ranges_siblings. Qed.
Print Assumptions C13_parse_ranges_siblings.

(* ---- Proofs/RangeAttrParse.v ---- *)
Theorem C13_parse_attr_subranges :
  forall text opt d a, valid_utf8_b text = true -> parse text opt = Ok d -> In a (d_attrs d) ->
  ad_qname_len a < qname_len_sat -> ad_eq_len a < eq_len_sat ->
  (* the qname sub-range ends where the local name ends, and starts with the (possibly empty) prefix *)
  snd (attr_range_qname a) = sl_end (ad_local a) /\ fst (ad_range a) <= sl_start (ad_local a) /\
  (* the value sub-range is delimited by the same quote character on both sides *)
  exists vr q, attr_range_value a = Ok vr /\ (q = 39 \/ q = 34) /\
    nth_N text (fst vr - 1) = Some q /\ nth_N text (snd vr) = Some q /\ snd vr + 1 = snd (ad_range a) /\
    fst vr <= snd vr /\
    (* a borrowed value is exactly that sub-range *)
    (forall v, ad_value a = Borrowed (SIn v) -> (sl_start v, sl_end v) = vr) /\
    (* between the qname and the opening quote there is only whitespace and one '=' *)
    (exists w1 w2, sub text (snd (attr_range_qname a)) (fst vr - 1) = w1 ++ [61] ++ w2 /\ forallb byte_is_space w1 = true /\ forallb byte_is_space w2 = true).
Proof. exact parse_attr_subranges. Qed.
Print Assumptions C13_parse_attr_subranges.

(* ---- Proofs/RangeShiftFinal.v ---- *)
Theorem C13_parse_shift_whitespace_partial :
  forall ws text opt d, forallb byte_is_space ws = true -> valid_utf8_b text = true ->
  (* text does not start with a BOM or an XML declaration: those are only recognised at offset 0 *)
  starts_with (stream_new text) [239; 187; 191] = false -> starts_with_declaration (stream_new text) = false ->
  parse text opt = Ok d ->
  exists d', parse (ws ++ text) opt = Ok d' /\ len_N (d_nodes d') = len_N (d_nodes d) /\
    forall id nd nd', 0 < id -> nth_N (d_nodes d) id = Some nd -> nth_N (d_nodes d') id = Some nd' ->
      nd_range nd' = shift_range (blen ws) (nd_range nd).
Proof. exact parse_shift_whitespace_partial. Qed.
Print Assumptions C13_parse_shift_whitespace_partial.

(* ---- Proofs/CstRangeMain.v ---- *)
Theorem C13_parse_render_ranges :
  forall (c : Cst.doc) (opt : options) d,
  Cst.wf_doc c = true ->
  N.of_nat (length (Cst.sem c)) < nodes_limit opt ->          (* room for all nodes + the Root *)
  N.of_nat (length (Cst.render c)) <= u32_max ->               (* the input is at most u32::MAX bytes long *)
  parse (Cst.render c) opt = Ok d ->
  map nd_range (tl (d_nodes d)) = spans c /\
  (exists root, nth_N (d_nodes d) 0 = Some root /\ nd_range root = (0, N.of_nat (length (Cst.render c)))).
Proof. exact parse_render_ranges. Qed.
Print Assumptions C13_parse_render_ranges.

Theorem C13_parse_render_attr_ranges :
  forall (c : Cst.doc) (opt : options) d,
  Cst.wf_doc c = true ->
  N.of_nat (length (Cst.sem c)) < nodes_limit opt ->
  N.of_nat (length (Cst.render c)) <= u32_max ->
  attrs_small c ->                                             (* below the saturation limits *)
  parse (Cst.render c) opt = Ok d ->
  map (fun a => (ad_range a, attr_range_qname a, attr_range_value a)) (d_attrs d) =
  map (fun s => (as_range s, as_qname s, Ok (as_value s))) (attr_spans c).
Proof. exact parse_render_attr_ranges. Qed.
Print Assumptions C13_parse_render_attr_ranges.

(* ---- Proofs/CstRangeTMain.v ---- *)
Module G4.
Module T := CstText.
Theorem C13_parse_render_ranges_t :
  forall (c : T.doc) (opt : options) d,
  T.wf_doc c = true ->
  N.of_nat (length (T.sem c)) < nodes_limit opt ->          (* room for all nodes + the Root *)
  N.of_nat (length (T.render c)) <= u32_max ->               (* the input is at most u32::MAX bytes long *)
  parse (T.render c) opt = Ok d ->
  map nd_range (tl (d_nodes d)) = tspans c /\
  (exists root, nth_N (d_nodes d) 0 = Some root /\ nd_range root = (0, N.of_nat (length (T.render c)))).
Proof. exact parse_render_ranges_t. Qed.
Print Assumptions C13_parse_render_ranges_t.

Theorem C13_parse_render_attr_ranges_t :
  forall (c : T.doc) (opt : options) d,
  T.wf_doc c = true ->
  N.of_nat (length (T.sem c)) < nodes_limit opt ->
  N.of_nat (length (T.render c)) <= u32_max ->
  tattrs_small c ->                                           (* below the saturation limits *)
  parse (T.render c) opt = Ok d ->
  map (fun a => (ad_range a, attr_range_qname a, attr_range_value a)) (d_attrs d) =
  map (fun s => (tas_range s, tas_qname s, Ok (tas_value s))) (tattr_spans c).
Proof. exact parse_render_attr_ranges_t. Qed.
Print Assumptions C13_parse_render_attr_ranges_t.

End G4.

(* ---- Proofs/CstRangeEMain.v ---- *)
Module G5.
Module E := CstEnt.
Theorem C13_parse_render_ranges_e :
  forall (c : E.doc) (opt : options) d,
  E.wf_doc c = true ->
  etext_only c = true ->                                       (* PARTIAL: every declared entity is character data *)
  allow_dtd opt = true ->
  N.of_nat (length (E.sem c)) < nodes_limit opt ->            (* room for all nodes + the Root *)
  N.of_nat (length (E.render c)) <= u32_max ->                 (* the input is at most u32::MAX bytes long *)
  parse (E.render c) opt = Ok d ->
  (* every node below the Root, in document order: the span of the construct it was read from -- in
     the body, or inside the literal of an entity declaration in the DOCTYPE *)
  map nd_range (tl (d_nodes d)) = espans c /\
  (exists root, nth_N (d_nodes d) 0 = Some root /\ nd_range root = (0, N.of_nat (length (E.render c)))).
Proof. exact parse_render_ranges_e. Qed.
Print Assumptions C13_parse_render_ranges_e.

End G5.

(* ---- Proofs/CstRangeEValid.v ---- *)
Module G6.
Module E := CstEnt.
Theorem C13_ranges_valid_e :
  forall (c : E.doc) (opt : options) d,
  E.wf_doc c = true ->
  etext_only c = true ->                                       (* PARTIAL: every declared entity is character data *)
  allow_dtd opt = true ->
  N.of_nat (length (E.sem c)) < nodes_limit opt ->
  N.of_nat (length (E.render c)) <= u32_max ->
  parse (E.render c) opt = Ok d ->
  (* every node range -- of a node of the body or of a node that comes from an entity -- is ordered,
     inside the input and on character boundaries; every Borrowed text is a slice inside the input *)
  (forall nd, In nd (d_nodes d) -> RangeInv.valid_range (E.render c) (nd_range nd)) /\
  (forall nd s, In nd (d_nodes d) -> nd_kind nd = KText (Borrowed (SIn s)) ->
     sl_start s <= sl_end s /\ sl_end s <= tlen (E.render c)).
Proof. exact ranges_valid_e. Qed.
Print Assumptions C13_ranges_valid_e.

End G6.

(* ---- Proofs/CstRangeFS2.v ---- *)
Module G7.
Import RX.Spec.CstFull. Import RX.Proofs.CstRangeFDefs. Import RX.Proofs.CstRangeFS2.
Theorem C13_parse_render_ranges_f2 :
  forall (c : S2.doc) (opt : options) d,
  S2.wf_doc c = true ->
  N.of_nat (length (S2.sem c)) < nodes_limit opt ->               (* room for all nodes + the Root *)
  N.of_nat (length (S2.render c)) <= u32_max ->                    (* the input is at most u32::MAX bytes long *)
  S2.distinct_decls_le c (N.to_nat 65535) ->                       (* at most 65535 distinct declared bindings *)
  1 + N.of_nat (S2.ns_cost c) <= u32_max ->                        (* the namespace table fits *)
  parse (S2.render c) opt = Ok d ->
  (* every node below the Root, in document order: the span of its construct in the UTF-8 rendering *)
  map nd_range (tl (d_nodes d)) = fspans2 c /\
  (exists root, nth_N (d_nodes d) 0 = Some root /\ nd_range root = (0, N.of_nat (length (S2.render c)))) /\
  (* all these offsets are on character boundaries *)
  Forall (fun r => is_boundary (S2.render c) (fst r) = true /\ is_boundary (S2.render c) (snd r) = true) (fspans2 c).
Proof. exact parse_render_ranges_f2. Qed.
Print Assumptions C13_parse_render_ranges_f2.

Theorem C13_parse_render_attr_ranges_f2 :
  forall (c : S2.doc) (opt : options) d,
  S2.wf_doc c = true ->
  N.of_nat (length (S2.sem c)) < nodes_limit opt ->
  N.of_nat (length (S2.render c)) <= u32_max ->
  S2.distinct_decls_le c (N.to_nat 65535) ->
  1 + N.of_nat (S2.ns_cost c) <= u32_max ->
  fattrs_small2 c ->                                           (* below the saturation limits *)
  parse (S2.render c) opt = Ok d ->
  map (fun a => (ad_range a, attr_range_qname a, attr_range_value a)) (d_attrs d) =
  map (fun s => (fa_range s, fa_qname s, Ok (fa_value s))) (fattr_spans2 c).
Proof. exact parse_render_attr_ranges_f2. Qed.
Print Assumptions C13_parse_render_attr_ranges_f2.

End G7.

(* ---- Proofs/CstRangeGS3.v ---- *)
Module G8.
Import RX.Spec.CstFull. Import RX.Proofs.CstRangeFDefs. Import RX.Proofs.CstRangeGDefs. Import RX.Proofs.CstRangeGS3.
Theorem C13_parse_render_ranges_f3 :
  forall (d : S3.doc) (opt : options) doc,
  S3.wf_doc d = true ->
  allow_dtd opt = true ->                                         (* the options allow a DOCTYPE *)
  N.of_nat (length (S3.sem d)) < nodes_limit opt ->               (* room for all nodes + the Root *)
  N.of_nat (length (S3.render d)) <= u32_max ->                    (* the input is at most u32::MAX bytes long *)
  S3.distinct_decls_le d (N.to_nat 65535) ->                       (* at most 65535 distinct declared bindings *)
  1 + N.of_nat (S3.ns_cost d) <= u32_max ->                        (* the namespace table fits *)
  parse (S3.render d) opt = Ok doc ->
  (* every node below the Root, in document order: the span of the construct it was read from -- in
     the document, or (a Text node that starts with the value of an entity) inside the literal of
     the entity declaration in the DOCTYPE *)
  map nd_range (tl (d_nodes doc)) = fspans3 d /\
  (exists root, nth_N (d_nodes doc) 0 = Some root /\ nd_range root = (0, N.of_nat (length (S3.render d)))) /\
  (* all these offsets are on character boundaries *)
  Forall (fun r => is_boundary (S3.render d) (fst r) = true /\ is_boundary (S3.render d) (snd r) = true) (fspans3 d).
Proof. exact parse_render_ranges_f3. Qed.
Print Assumptions C13_parse_render_ranges_f3.

End G8.

(* ---- Proofs/CstRangeG5.v ---- *)
Module G9.
Import RX.Spec.CstFull. Import RX.Spec.CstFullS5. Import RX.Proofs.CstRangeFDefs. Import RX.Proofs.CstRangeFS2. Import RX.Proofs.CstRangeG5Defs. Import RX.Proofs.CstRangeG5.
Theorem C13_parse_render_ranges_f5 :
  forall (d : S5.doc) (opt : options) doc,
  S5.wf_doc d = true ->
  (S5.has_dtd d = true -> allow_dtd opt = true) ->                (* a DOCTYPE needs the option *)
  N.of_nat (length (S5.sem d)) < nodes_limit opt ->               (* room for all nodes + the Root *)
  N.of_nat (length (S5.render d)) <= u32_max ->                    (* the input is at most u32::MAX bytes long *)
  S5.distinct_decls_le d (N.to_nat 65535) ->                       (* at most 65535 distinct declared bindings *)
  1 + N.of_nat (S5.ns_cost d) <= u32_max ->                        (* the namespace table fits *)
  parse (S5.render d) opt = Ok doc ->
  (* every node below the Root, in document order -- the comments / PIs before the DOCTYPE, those of
     the internal subset, those between the DOCTYPE and the root element, the root element with all
     it contains, those after it: the span of the construct it was read from -- in the document, or
     (a Text node that starts with the value of an entity) inside the literal of the entity
     declaration in the internal subset *)
  map nd_range (tl (d_nodes doc)) = fspans5 d /\
  (* the Root: the whole input, the byte order mark and the XML declaration included *)
  (exists root, nth_N (d_nodes doc) 0 = Some root /\ nd_range root = (0, N.of_nat (length (S5.render d)))) /\
  (* all these offsets are on character boundaries *)
  Forall (fun r => is_boundary (S5.render d) (fst r) = true /\ is_boundary (S5.render d) (snd r) = true) (fspans5 d).
Proof. exact parse_render_ranges_f5. Qed.
Print Assumptions C13_parse_render_ranges_f5.

Theorem C13_parse_render_attr_ranges_f5 :
  forall (d : S5.doc) (opt : options) doc,
  S5.wf_doc d = true -> (S5.has_dtd d = true -> allow_dtd opt = true) ->
  N.of_nat (length (S5.sem d)) < nodes_limit opt ->
  N.of_nat (length (S5.render d)) <= u32_max ->
  S5.distinct_decls_le d (N.to_nat 65535) ->
  1 + N.of_nat (S5.ns_cost d) <= u32_max ->
  fattrs_small5 d ->                                           (* below the saturation limits *)
  parse (S5.render d) opt = Ok doc ->
  map (fun a => (ad_range a, attr_range_qname a, attr_range_value a)) (d_attrs doc) =
  map (fun s => (fa_range s, fa_qname s, Ok (fa_value s))) (fattr_spans5 d).
Proof. exact parse_render_attr_ranges_f5. Qed.
Print Assumptions C13_parse_render_attr_ranges_f5.

End G9.

(* ---- Proofs/CstRangeG11.v ---- *)
Module G10.
Import RX.Spec.CstFull. Import RX.Spec.CstFullS4. Import RX.Spec.CstFullS6. Import RX.Spec.CstFullS11. Import RX.Proofs.CstRangeFDefs. Import RX.Proofs.CstRangeFS2. Import RX.Proofs.CstRangeG6Defs. Import RX.Proofs.CstRangeG11.
Theorem C13_parse_render_ranges_f11 :
  forall (d : S6.doc) (opt : options) doc,
  S11.wf_doc d = true ->
  (S6.has_dtd d = true -> allow_dtd opt = true) ->                (* a DOCTYPE needs the option *)
  N.of_nat (length (S6.sem d)) < nodes_limit opt ->               (* room for all nodes + the Root *)
  N.of_nat (length (S6.sem d)) < u32_max ->                        (* of the MEANING: entities add nodes *)
  N.of_nat (S6.nattrs d) < u32_max ->                              (* the attribute rows of the meaning *)
  S6.distinct_decls_le d (N.to_nat 65535) ->                       (* at most 65535 distinct declared bindings *)
  1 + N.of_nat (S6.ns_cost d) <= u32_max ->                        (* the namespace table fits *)
  parse (S6.render d) opt = Ok doc ->
  (* every node below the Root, in document order: the span of the construct it was read from -- in the
     document, or, for what a reference stands for, inside the literal of the entity declaration in the
     internal subset (an element, comment or PI of a markup value: where it is written in the value; a
     Text node: its first fragment) *)
  map nd_range (tl (d_nodes doc)) = fspans6 d /\
  (* the Root: the whole input, the byte order mark and the XML declaration included *)
  (exists root, nth_N (d_nodes doc) 0 = Some root /\ nd_range root = (0, N.of_nat (length (S6.render d)))) /\
  (* all these offsets are on character boundaries *)
  Forall (fun r => is_boundary (S6.render d) (fst r) = true /\ is_boundary (S6.render d) (snd r) = true) (fspans6 d).
Proof. exact parse_render_ranges_f11. Qed.
Print Assumptions C13_parse_render_ranges_f11.

Theorem C13_parse_render_attr_ranges_f11 :
  forall (d : S6.doc) (opt : options) doc,
  S11.wf_doc d = true -> (S6.has_dtd d = true -> allow_dtd opt = true) ->
  N.of_nat (length (S6.sem d)) < nodes_limit opt ->
  N.of_nat (length (S6.sem d)) < u32_max ->
  N.of_nat (S6.nattrs d) < u32_max ->
  S6.distinct_decls_le d (N.to_nat 65535) ->
  1 + N.of_nat (S6.ns_cost d) <= u32_max ->
  fattrs_small6 d ->                                           (* below the saturation limits *)
  parse (S6.render d) opt = Ok doc ->
  (* the attributes of all elements in the order in which they are read (those of an element of a
     markup value once per reference, with ranges inside the literal) *)
  map (fun a => (ad_range a, attr_range_qname a, attr_range_value a)) (d_attrs doc) =
  map (fun s => (fa_range s, fa_qname s, Ok (fa_value s))) (fattr_spans6 d).
Proof. exact parse_render_attr_ranges_f11. Qed.
Print Assumptions C13_parse_render_attr_ranges_f11.

End G10.

(* ---- Proofs/CstRangeG10.v ---- *)
Module G11.
Import RX.Spec.CstFull. Import RX.Spec.CstFullS4. Import RX.Spec.CstFullS6. Import RX.Spec.CstFullS10. Import RX.Proofs.CstRangeFDefs. Import RX.Proofs.CstRangeFS2. Import RX.Proofs.CstRangeG6Defs. Import RX.Proofs.CstRangeG10.
Theorem C13_parse_render_ranges_f10 :
  forall (d : S6.doc) (opt : options) doc,
  S10.wf_doc d = true ->
  (S6.has_dtd d = true -> allow_dtd opt = true) ->                (* a DOCTYPE needs the option *)
  N.of_nat (length (S6.sem d)) < nodes_limit opt ->               (* room for all nodes + the Root *)
  N.of_nat (length (S6.sem d)) < u32_max ->                        (* of the MEANING: entities add nodes *)
  N.of_nat (S6.nattrs d) < u32_max ->                              (* the attribute rows of the meaning *)
  S6.distinct_decls_le d (N.to_nat 65535) ->                       (* at most 65535 distinct declared bindings *)
  1 + N.of_nat (S6.ns_cost d) <= u32_max ->                        (* the namespace table fits *)
  parse (S6.render d) opt = Ok doc ->
  (* every node below the Root, in document order: the span of the construct it was read from -- in the
     document, or, for what a reference stands for, inside the literal of the entity declaration in the
     internal subset (an element, comment or PI of a markup value: where it is written in the value; a
     Text node: its first fragment) *)
  map nd_range (tl (d_nodes doc)) = fspans6 d /\
  (* the Root: the whole input, the byte order mark and the XML declaration included *)
  (exists root, nth_N (d_nodes doc) 0 = Some root /\ nd_range root = (0, N.of_nat (length (S6.render d)))) /\
  (* all these offsets are on character boundaries *)
  Forall (fun r => is_boundary (S6.render d) (fst r) = true /\ is_boundary (S6.render d) (snd r) = true) (fspans6 d).
Proof. exact parse_render_ranges_f10. Qed.
Print Assumptions C13_parse_render_ranges_f10.

Theorem C13_parse_render_attr_ranges_f10 :
  forall (d : S6.doc) (opt : options) doc,
  S10.wf_doc d = true -> (S6.has_dtd d = true -> allow_dtd opt = true) ->
  N.of_nat (length (S6.sem d)) < nodes_limit opt ->
  N.of_nat (length (S6.sem d)) < u32_max ->
  N.of_nat (S6.nattrs d) < u32_max ->
  S6.distinct_decls_le d (N.to_nat 65535) ->
  1 + N.of_nat (S6.ns_cost d) <= u32_max ->
  fattrs_small6 d ->                                           (* below the saturation limits *)
  parse (S6.render d) opt = Ok doc ->
  (* the attributes of all elements in the order in which they are read (those of an element of a
     markup value once per reference, with ranges inside the literal) *)
  map (fun a => (ad_range a, attr_range_qname a, attr_range_value a)) (d_attrs doc) =
  map (fun s => (fa_range s, fa_qname s, Ok (fa_value s))) (fattr_spans6 d).
Proof. exact parse_render_attr_ranges_f10. Qed.
Print Assumptions C13_parse_render_attr_ranges_f10.

End G11.

(* ---- Proofs/CstRangeG6.v ---- *)
Module G12.
Import RX.Spec.CstFull. Import RX.Spec.CstFullS4. Import RX.Spec.CstFullS6. Import RX.Proofs.CstRangeFDefs. Import RX.Proofs.CstRangeFS2. Import RX.Proofs.CstRangeG6Defs. Import RX.Proofs.CstRangeG6.
Theorem C13_parse_render_ranges_f6 :
  forall (d : S6.doc) (opt : options) doc,
  S6.wf_doc d = true ->
  (S6.has_dtd d = true -> allow_dtd opt = true) ->                (* a DOCTYPE needs the option *)
  N.of_nat (length (S6.sem d)) < nodes_limit opt ->               (* room for all nodes + the Root *)
  N.of_nat (length (S6.sem d)) < u32_max ->                        (* of the MEANING: entities add nodes *)
  N.of_nat (S6.nattrs d) < u32_max ->                              (* the attribute rows of the meaning *)
  S6.distinct_decls_le d (N.to_nat 65535) ->                       (* at most 65535 distinct declared bindings *)
  1 + N.of_nat (S6.ns_cost d) <= u32_max ->                        (* the namespace table fits *)
  parse (S6.render d) opt = Ok doc ->
  (* every node below the Root, in document order: the span of the construct it was read from -- in the
     document, or, for what a reference stands for, inside the literal of the entity declaration in the
     internal subset (an element, comment or PI of a markup value: where it is written in the value; a
     Text node: its first fragment) *)
  map nd_range (tl (d_nodes doc)) = fspans6 d /\
  (* the Root: the whole input, the byte order mark and the XML declaration included *)
  (exists root, nth_N (d_nodes doc) 0 = Some root /\ nd_range root = (0, N.of_nat (length (S6.render d)))) /\
  (* all these offsets are on character boundaries *)
  Forall (fun r => is_boundary (S6.render d) (fst r) = true /\ is_boundary (S6.render d) (snd r) = true) (fspans6 d).
Proof. exact parse_render_ranges_f6. Qed.
Print Assumptions C13_parse_render_ranges_f6.

Theorem C13_parse_render_attr_ranges_f6 :
  forall (d : S6.doc) (opt : options) doc,
  S6.wf_doc d = true -> (S6.has_dtd d = true -> allow_dtd opt = true) ->
  N.of_nat (length (S6.sem d)) < nodes_limit opt ->
  N.of_nat (length (S6.sem d)) < u32_max ->
  N.of_nat (S6.nattrs d) < u32_max ->
  S6.distinct_decls_le d (N.to_nat 65535) ->
  1 + N.of_nat (S6.ns_cost d) <= u32_max ->
  fattrs_small6 d ->                                           (* below the saturation limits *)
  parse (S6.render d) opt = Ok doc ->
  (* the attributes of all elements in the order in which they are read (those of an element of a
     markup value once per reference, with ranges inside the literal) *)
  map (fun a => (ad_range a, attr_range_qname a, attr_range_value a)) (d_attrs doc) =
  map (fun s => (fa_range s, fa_qname s, Ok (fa_value s))) (fattr_spans6 d).
Proof. exact parse_render_attr_ranges_f6. Qed.
Print Assumptions C13_parse_render_attr_ranges_f6.

End G12.

(* ---- Proofs/ErrShiftProlog.v ---- *)
Module G13.
Import RX.Proofs.ErrShiftSubFinal. Import RX.Proofs.ErrShiftProlog.
Theorem C13_ranges_move_with_prolog_whitespace :
  forall pre ws post opt d,
  forallb byte_is_space ws = true -> valid_utf8_b post = true -> post <> [] ->
  prolog_point pre post opt ->
  parse (pre ++ post) opt = Ok d ->
  exists d', parse (pre ++ ws ++ post) opt = Ok d' /\ doc_moved (blen pre) (blen ws) d d'.
Proof. exact ranges_move_with_prolog_whitespace. Qed.
Print Assumptions C13_ranges_move_with_prolog_whitespace.

End G13.

(* ---- Proofs/RangeTokenizer.v ---- *)
Module G14.
Local Notation token := Tokenizer.token.
Theorem C13_tokenizer_token_ranges :
  forall text (C : Type) (ev : token -> C -> res C)
    (J : bool -> N -> C -> Prop) dtd c c',
  valid_utf8_b text = true ->
  (forall tok c0 c1 p0 p1, J (tok_pre tok) p0 c0 -> TokAt text p0 p1 tok ->
                           ev tok c0 = Ok c1 -> J (tok_post tok) p1 c1) ->
  J false 0 c -> parse_document text C ev dtd c = Ok c' -> exists p, J false p c'.
Proof. exact tokenizer_token_ranges. Qed.
Print Assumptions C13_tokenizer_token_ranges.

End G14.

(* ---- Proofs/LexerProofs.v ---- *)
Module G15.
Local Notation token := Tokenizer.token.
Theorem C13_parse_comment_post :
  forall (text : bytes), forall s acc s' acc', SInv text s ->
  starts_with s (b "<!--") = true ->
  parse_comment text (list token) rec_ev s acc = Ok (s', acc') ->
  exists txt, acc' = acc ++ [TComment txt (s_pos s, s_pos s')] /\ SInv text s' /\
    sub text (s_pos s) (s_pos s') = b "<!--" ++ slice_bytes text txt ++ b "-->" /\
    sl_start txt = s_pos s + 4 /\ sl_end txt + 3 = s_pos s'.
Proof. exact parse_comment_post. Qed.
Print Assumptions C13_parse_comment_post.

Theorem C13_parse_pi_post :
  forall (text : bytes), forall s acc s' acc', SInv text s ->
  starts_with s (b "<?") = true ->
  parse_pi text (list token) rec_ev s acc = Ok (s', acc') ->
  exists target value, acc' = acc ++ [TPI target value (s_pos s, s_pos s')] /\ SInv text s' /\
    sl_start target = s_pos s + 2 /\
    prefix_b (b "<?") (sub text (s_pos s) (s_pos s')) = true /\
    sub text (s_pos s' - 2) (s_pos s') = b "?>" /\
    match value with
    | Some v => slice_len v <> 0 /\ sl_end v + 2 = s_pos s' /\ sl_end target < sl_start v /\
                forallb byte_is_space (sub text (sl_end target) (sl_start v)) = true /\
                (exists x, hd_error (slice_bytes text v) = Some x /\ byte_is_space x = false)
    | None => forallb byte_is_space (sub text (sl_end target) (s_pos s' - 2)) = true
    end.
Proof. exact parse_pi_post. Qed.
Print Assumptions C13_parse_pi_post.

Theorem C13_parse_cdata_post :
  forall (text : bytes), forall s acc s' acc', SInv text s ->
  starts_with s (b "<![CDATA[") = true ->
  parse_cdata text (list token) rec_ev s acc = Ok (s', acc') ->
  exists txt, acc' = acc ++ [TCdata txt (s_pos s, s_pos s')] /\ SInv text s' /\
    sub text (s_pos s) (s_pos s') = b "<![CDATA[" ++ slice_bytes text txt ++ b "]]>".
Proof. exact parse_cdata_post. Qed.
Print Assumptions C13_parse_cdata_post.

Theorem C13_parse_text_post :
  forall (text : bytes), forall s acc s' acc', SInv text s ->
  parse_text text (list token) rec_ev s acc = Ok (s', acc') ->
  exists txt, acc' = acc ++ [TText txt (s_pos s, s_pos s')] /\ SInv text s' /\
    sl_start txt = s_pos s /\ sl_end txt = s_pos s' /\ mem_b 60 (slice_bytes text txt) = false.
Proof. exact parse_text_post. Qed.
Print Assumptions C13_parse_text_post.

Theorem C13_parse_element_tokens :
  forall (text : bytes), forall s acc open s' acc', SInv text s ->
  starts_with s (b "<") = true ->
  parse_element text (list token) rec_ev s acc = Ok (open, s', acc') ->
  exists prefix local attrs e r,
    acc' = acc ++ [TElementStart prefix local (s_pos s)] ++ attrs ++ [TElementEnd e r] /\
    Forall (fun tok => match tok with TAttribute _ _ _ _ _ _ => True | _ => False end) attrs /\
    (e = EOpen /\ open = true \/ e = EEmpty /\ open = false) /\ snd r = s_pos s' /\ SInv text s' /\
    hd_error (sub text (s_pos s) (s_pos s')) = Some 60 /\ sub text (s_pos s' - 1) (s_pos s') = [62] /\
    sl_start prefix = s_pos s + 1.
Proof. exact parse_element_tokens. Qed.
Print Assumptions C13_parse_element_tokens.

Theorem C13_parse_close_element_post :
  forall (text : bytes), forall s acc s' acc', SInv text s ->
  starts_with s (b "</") = true ->
  parse_close_element text (list token) rec_ev s acc = Ok (s', acc') ->
  exists prefix local, acc' = acc ++ [TElementEnd (EClose prefix local) (s_pos s, s_pos s')] /\
    SInv text s' /\
    prefix_b (b "</") (sub text (s_pos s) (s_pos s')) = true /\
    sub text (s_pos s' - 1) (s_pos s') = [62] /\
    sl_start prefix = s_pos s + 2.
Proof. exact parse_close_element_post. Qed.
Print Assumptions C13_parse_close_element_post.

End G15.


(* the slice shapes of C13, for every node of every parsed rendering of the Cst fragment *)
Theorem C13_element_slice_shape :
  forall (c : Cst.doc) (opt : options) (d : document),
  Cst.wf_doc c = true -> N.of_nat (length (Cst.sem c)) < nodes_limit opt ->
  N.of_nat (length (Cst.render c)) <= u32_max -> parse (Cst.render c) opt = Ok d ->
  forall (id : N) (nd : node_data) (ns : option N) (local : slice) (ar nss : range),
  nth_N (d_nodes d) id = Some nd -> nd_kind nd = KElement ns local ar nss ->
  exists mid : list N,
    sub (Cst.render c) (fst (nd_range nd)) (snd (nd_range nd)) =
    [60] ++ slice_bytes (Cst.render c) local ++ mid ++ [62].
Proof. exact element_slice_shape. Qed.
Print Assumptions C13_element_slice_shape.

Theorem C13_comment_slice_shape :
  forall (c : Cst.doc) (opt : options) (d : document),
  Cst.wf_doc c = true -> N.of_nat (length (Cst.sem c)) < nodes_limit opt ->
  N.of_nat (length (Cst.render c)) <= u32_max -> parse (Cst.render c) opt = Ok d ->
  forall (id : N) (nd : node_data) (s : slice),
  nth_N (d_nodes d) id = Some nd -> nd_kind nd = KComment s ->
  sub (Cst.render c) (fst (nd_range nd)) (snd (nd_range nd)) =
  [60; 33; 45; 45] ++ slice_bytes (Cst.render c) s ++ [45; 45; 62].
Proof. exact comment_slice_shape. Qed.
Print Assumptions C13_comment_slice_shape.

Theorem C13_pi_slice_shape :
  forall (c : Cst.doc) (opt : options) (d : document),
  Cst.wf_doc c = true -> N.of_nat (length (Cst.sem c)) < nodes_limit opt ->
  N.of_nat (length (Cst.render c)) <= u32_max -> parse (Cst.render c) opt = Ok d ->
  forall (id : N) (nd : node_data) (target : slice) (value : option slice),
  nth_N (d_nodes d) id = Some nd -> nd_kind nd = KPI target value ->
  exists mid : list N,
    sub (Cst.render c) (fst (nd_range nd)) (snd (nd_range nd)) =
    [60; 63] ++ slice_bytes (Cst.render c) target ++ mid ++ [63; 62].
Proof. exact pi_slice_shape. Qed.
Print Assumptions C13_pi_slice_shape.

Theorem C13_text_slice_shape :
  forall (c : Cst.doc) (opt : options) (d : document),
  Cst.wf_doc c = true -> N.of_nat (length (Cst.sem c)) < nodes_limit opt ->
  N.of_nat (length (Cst.render c)) <= u32_max -> parse (Cst.render c) opt = Ok d ->
  forall (id : N) (nd : node_data) (st : storage),
  nth_N (d_nodes d) id = Some nd -> nd_kind nd = KText st ->
  exists s : slice, st = Borrowed (SIn s) /\ (sl_start s, sl_end s) = nd_range nd.
Proof. exact text_slice_shape. Qed.
Print Assumptions C13_text_slice_shape.
