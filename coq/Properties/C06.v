(* C06 -- names and in-scope namespaces: the element's namespace range denotes
   Spec.scope_of (own declarations, then inherited bindings not re-declared); names resolve to the
   first binding of their prefix; duplicate declarations are detected; the 2^16 limit.
   (scopes_refine carries the hypothesis that the parent's scope has unique prefixes, which
   scope_prefixes_unique re-establishes.)  Whole documents on the fragment of Spec/CstNs.v (the Cst fragment with
   qualified names and xmlns / xmlns:p declarations interleaved with attributes; empty URIs, xml:lang, p:xmlns
   attributes included): every rendering of a namespace-well-formed abstract document parses to exactly its
   meaning, where the tag's namespace, each attribute's namespace and each element's in-scope list
   (Node::namespaces()) are computed ONLY with Spec/Scope.v from the WRITTEN declarations and the parent's scope
   (parse_render_sem_ns: view = Some (sem c)).  Two resource hypotheses, stated with spec functions: at most 65535
   distinct declared bindings (the documented limit) and a namespace table within u32::MAX entries.
   The same over Unicode (Spec/CstFull.v, stage S1: prefixes, local names, URIs, values and content are scalar values of
   the 5th-edition classes rendered in UTF-8): parse_render_sem_full_s1; stage S2 adds CstText's pieces everywhere:
   attribute values, text runs and the VALUES OF NAMESPACE DECLARATIONS are lists of literals (incl. CR), character and
   predefined references (CDATA in text) -- a URI supplied through references (xmlns:p='&#117;rn:x') declares the
   normalised URI, and the reserved-name rules are decided on it: parse_render_sem_full_s2, spelling_insensitive_full_s2;
   stage S3 adds an internal DTD subset with character-data entities (Unicode names and values, nested, first declaration
   wins) referenced from content, attribute values and NAMESPACE DECLARATION VALUES (a URI supplied through an entity):
   parse_render_sem_full_s3, hoist_insensitive_full_s3.  S1 c S2 c S3; this is the single statement that covers
   C03..C07 together on the largest fragment.  Rejection half (NsRejMain.v, on Spec/CstNs.v): for syntactically
   well-formed documents parse succeeds IFF the namespace conditions N1-N7 hold (ns_decide), and the first violated
   rule (first_violation, NsRejDefs.v) determines the error variant and payload (ns_violation_variant).
   Statements are pinned here (copied verbatim from the proof files by tools/pin_props.py);
   each is re-proved by `exact` and followed by Print Assumptions. *)
From Coq Require Import Ascii String.
From Coq Require Import List NArith Bool PeanoNat Sorted.
Import ListNotations.
From RX Require Import Generated.
From RX.Model Require Import Base CharClass Stream Tokenizer Doc Builder Parse Api.
From RX.Spec Require Scope.
From RX.Spec Require Cst CstNs CstU CstFull.
From RX.Proofs Require Import ScopeProofs ScopeParse CstNsView CstNsMain CstFullMain CstFullS1 CstFullS2 CstFullS3 NsRejDefs NsRejBuild NsRejMain.
From RX.Spec Require CstFullS4 CstFullS6.
From RX.Proofs Require CstFullS4Main CstFullS6Main CstFullRejSem CstFullRejTrace CstFullRejDoc CstFullRejMain CstFullNsRejMain.
From RX.Spec Require CstFullS11.
From RX.Proofs Require CstFullS11Main CstFullRejS11Sem CstFullRejS11Doc CstFullRejS11Main CstFullRejS11NsMain NsRejDefs NsRejBuild.
Open Scope N_scope.

(* ---- Proofs/ScopeParse.v ---- *)
Theorem C06_parse_scopes_ok :
  forall text opt d, parse text opt = Ok d -> elem_scopes_ok text d.
Proof. exact parse_scopes_ok. Qed.
Print Assumptions C06_parse_scopes_ok.

Theorem C06_parse_names_ok :
  forall text opt d, parse text opt = Ok d -> elem_names_ok text d.
Proof. exact parse_names_ok. Qed.
Print Assumptions C06_parse_names_ok.

(* ---- Proofs/ScopeProofs.v ---- *)
Theorem C06_scopes_refine :
  forall text c r c' pnd pns own inherited,
  ns_ok (c_doc c) ->
  nth_N (d_nodes (c_doc c)) (c_parent_id c) = Some pnd ->
  (match nd_kind pnd with KElement _ _ _ nss => pns = nss | _ => pns = (0, 0) end) ->
  snd pns <= c_ns_start_idx c -> c_ns_start_idx c <= len_N (d_ns_tree (c_doc c)) ->
  bindings_of text (c_doc c) pns = Some inherited ->
  Scope.prefixes_unique inherited = true ->
  bindings_of text (c_doc c) (c_ns_start_idx c, len_N (d_ns_tree (c_doc c))) = Some own ->
  resolve_namespaces text c = Ok (r, c') ->
  ns_ok (c_doc c') /\ bindings_of text (c_doc c') r = Some (Scope.scope_of own inherited).
Proof. exact scopes_refine. Qed.
Print Assumptions C06_scopes_refine.

Theorem C06_scope_prefixes_unique :
  forall own inherited,
  Scope.prefixes_unique own = true -> Scope.prefixes_unique inherited = true ->
  Scope.prefixes_unique (Scope.scope_of own inherited) = true.
Proof. exact scope_prefixes_unique. Qed.
Print Assumptions C06_scope_prefixes_unique.

Theorem C06_names_resolve :
  forall text d nss pos prefix sc r,
  bindings_of text d nss = Some sc ->
  get_ns_idx_by_prefix text nss pos prefix d = Ok r ->
  let pb := slice_bytes text prefix in
  if bytes_eqb pb ns_xml_prefix then r = Some 0
  else match r with
       | Some vi => exists v, nth_N (d_ns_values d) vi = Some v /\
                    Scope.lookup sc (match pb with [] => None | _ => Some pb end) = Some (storage_bytes text (ns_uri v))
       | None => pb = [] /\ Scope.lookup sc None = None
       end.
Proof. exact names_resolve. Qed.
Print Assumptions C06_names_resolve.

Theorem C06_unknown_prefix_rejected :
  forall text d nss pos prefix sc,
  bindings_of text d nss = Some sc ->
  fst nss <= snd nss -> snd nss <= len_N (d_ns_tree d) ->
  (exists tp, gen_text_pos_from text pos = Ok tp) ->
  slice_bytes text prefix <> [] -> bytes_eqb (slice_bytes text prefix) ns_xml_prefix = false ->
  Scope.lookup sc (Some (slice_bytes text prefix)) = None ->
  exists e, get_ns_idx_by_prefix text nss pos prefix d = Err e.
Proof. exact unknown_prefix_rejected. Qed.
Print Assumptions C06_unknown_prefix_rejected.

Theorem C06_unknown_prefix_never_ok :
  forall text d nss pos prefix sc,
  bindings_of text d nss = Some sc ->
  slice_bytes text prefix <> [] -> bytes_eqb (slice_bytes text prefix) ns_xml_prefix = false ->
  Scope.lookup sc (Some (slice_bytes text prefix)) = None ->
  forall r, get_ns_idx_by_prefix text nss pos prefix d <> Ok r.
Proof. exact unknown_prefix_never_ok. Qed.
Print Assumptions C06_unknown_prefix_never_ok.

Theorem C06_duplicate_declaration_rejected :
  forall text d start prefix own,
  bindings_of text d (start, len_N (d_ns_tree d)) = Some own ->
  (ns_exists text d start prefix = Ok true <-> existsb (fun b => Scope.prefix_eqb (fst b) prefix) own = true).
Proof. exact duplicate_declaration_rejected. Qed.
Print Assumptions C06_duplicate_declaration_rejected.

Theorem C06_push_ns_appends :
  forall text name uri d d', ns_ok d ->
  push_ns text name uri d = Ok d' ->
  ns_ok d' /\ len_N (d_ns_tree d') = len_N (d_ns_tree d) + 1 /\
  binding_at text d' (len_N (d_ns_tree d)) =
    Some (match name with Some s => Some (str_bytes text s) | None => None end, storage_bytes text uri) /\
  (forall p, p < len_N (d_ns_tree d) -> binding_at text d' p = binding_at text d p).
Proof. exact push_ns_appends. Qed.
Print Assumptions C06_push_ns_appends.

Theorem C06_push_ns_limit :
  forall text name uri d,
  find_ns text (d_ns_values d) (match name with Some s => Some (str_bytes text s) | None => None end) (storage_bytes text uri) 0 = None ->
  ns_values_limit < len_N (d_ns_values d) ->
  push_ns text name uri d = Err NamespacesLimitReached.
Proof. exact push_ns_limit. Qed.
Print Assumptions C06_push_ns_limit.

Theorem C06_ns_values_limit_is :
  ns_values_limit = 65535.
Proof. exact ns_values_limit_is. Qed.
Print Assumptions C06_ns_values_limit_is.

(* ---- Proofs/CstFullS1.v ---- *)
Module G2.
Import CstFull.
Theorem C06_parse_render_sem_full_s1 :
  forall (c : S1.doc) (opt : options),
  S1.wf_doc c = true ->
  N.of_nat (length (S1.sem c)) < nodes_limit opt ->               (* room for all nodes + the Root *)
  N.of_nat (length (S1.render c)) <= u32_max ->                    (* the input is at most u32::MAX bytes long *)
  S1.distinct_decls_le c (N.to_nat 65535) ->                       (* at most 65535 distinct declared bindings *)
  1 + N.of_nat (S1.ns_cost c) <= u32_max ->                        (* the namespace table fits *)
  exists d, parse (S1.render c) opt = Ok d /\ view (S1.render c) d = Some (S1.sem c).
Proof. exact parse_render_sem_full_s1. Qed.
Print Assumptions C06_parse_render_sem_full_s1.

Theorem C06_layout_insensitive_full_s1 :
  forall (c1 c2 : S1.doc) opt,
  S1.wf_doc c1 = true -> S1.wf_doc c2 = true -> S1.sem c1 = S1.sem c2 ->
  N.of_nat (length (S1.sem c1)) < nodes_limit opt ->
  N.of_nat (length (S1.render c1)) <= u32_max -> N.of_nat (length (S1.render c2)) <= u32_max ->
  S1.distinct_decls_le c1 (N.to_nat 65535) -> S1.distinct_decls_le c2 (N.to_nat 65535) ->
  1 + N.of_nat (S1.ns_cost c1) <= u32_max -> 1 + N.of_nat (S1.ns_cost c2) <= u32_max ->
  exists d1 d2, parse (S1.render c1) opt = Ok d1 /\ parse (S1.render c2) opt = Ok d2 /\
                view (S1.render c1) d1 = view (S1.render c2) d2.
Proof. exact layout_insensitive_full_s1. Qed.
Print Assumptions C06_layout_insensitive_full_s1.

End G2.

(* ---- Proofs/CstFullS2.v ---- *)
Module G3.
Import CstFull.
Theorem C06_parse_render_sem_full_s2 :
  forall (c : S2.doc) (opt : options),
  S2.wf_doc c = true ->
  N.of_nat (length (S2.sem c)) < nodes_limit opt ->               (* room for all nodes + the Root *)
  N.of_nat (length (S2.render c)) <= u32_max ->                    (* the input is at most u32::MAX bytes long *)
  S2.distinct_decls_le c (N.to_nat 65535) ->                       (* at most 65535 distinct declared bindings *)
  1 + N.of_nat (S2.ns_cost c) <= u32_max ->                        (* the namespace table fits *)
  exists d, parse (S2.render c) opt = Ok d /\ view (S2.render c) d = Some (S2.sem c).
Proof. exact parse_render_sem_full_s2. Qed.
Print Assumptions C06_parse_render_sem_full_s2.

Theorem C06_spelling_insensitive_full_s2 :
  forall (c1 c2 : S2.doc) opt,
  S2.wf_doc c1 = true -> S2.wf_doc c2 = true -> S2.sem c1 = S2.sem c2 ->
  N.of_nat (length (S2.sem c1)) < nodes_limit opt ->
  N.of_nat (length (S2.render c1)) <= u32_max -> N.of_nat (length (S2.render c2)) <= u32_max ->
  S2.distinct_decls_le c1 (N.to_nat 65535) -> S2.distinct_decls_le c2 (N.to_nat 65535) ->
  1 + N.of_nat (S2.ns_cost c1) <= u32_max -> 1 + N.of_nat (S2.ns_cost c2) <= u32_max ->
  exists d1 d2, parse (S2.render c1) opt = Ok d1 /\ parse (S2.render c2) opt = Ok d2 /\
                view (S2.render c1) d1 = view (S2.render c2) d2.
Proof. exact spelling_insensitive_full_s2. Qed.
Print Assumptions C06_spelling_insensitive_full_s2.

End G3.

(* ---- Proofs/CstFullS3.v ---- *)
Module G4.
Import CstFull.
Theorem C06_parse_render_sem_full_s3 :
  forall (d : S3.doc) (opt : options),
  S3.wf_doc d = true ->
  allow_dtd opt = true ->                                         (* the options allow a DOCTYPE *)
  N.of_nat (length (S3.sem d)) < nodes_limit opt ->               (* room for all nodes + the Root *)
  N.of_nat (length (S3.render d)) <= u32_max ->                    (* the input is at most u32::MAX bytes long *)
  S3.distinct_decls_le d (N.to_nat 65535) ->                       (* at most 65535 distinct declared bindings *)
  1 + N.of_nat (S3.ns_cost d) <= u32_max ->                        (* the namespace table fits *)
  exists doc, parse (S3.render d) opt = Ok doc /\ view (S3.render d) doc = Some (S3.sem d).
Proof. exact parse_render_sem_full_s3. Qed.
Print Assumptions C06_parse_render_sem_full_s3.

Theorem C06_hoist_insensitive_full_s3 :
  forall (d1 d2 : S3.doc) opt,
  S3.wf_doc d1 = true -> S3.wf_doc d2 = true -> allow_dtd opt = true -> S3.sem d1 = S3.sem d2 ->
  N.of_nat (length (S3.sem d1)) < nodes_limit opt ->
  N.of_nat (length (S3.render d1)) <= u32_max -> N.of_nat (length (S3.render d2)) <= u32_max ->
  S3.distinct_decls_le d1 (N.to_nat 65535) -> S3.distinct_decls_le d2 (N.to_nat 65535) ->
  1 + N.of_nat (S3.ns_cost d1) <= u32_max -> 1 + N.of_nat (S3.ns_cost d2) <= u32_max ->
  exists x1 x2, parse (S3.render d1) opt = Ok x1 /\ parse (S3.render d2) opt = Ok x2 /\
                view (S3.render d1) x1 = view (S3.render d2) x2.
Proof. exact hoist_insensitive_full_s3. Qed.
Print Assumptions C06_hoist_insensitive_full_s3.

End G4.

(* ---- Proofs/CstFullS4Main.v ---- *)
Module G5.
Import RX.Spec.CstFull. Import RX.Spec.CstFullS4. Import RX.Proofs.CstFullS4Main.
Theorem C06_parse_render_sem_full_s4 :
  forall (d : S4.doc) (opt : options),
  S4.wf_doc d = true ->
  allow_dtd opt = true ->                                         (* the options allow a DOCTYPE *)
  N.of_nat (length (S4.sem d)) < nodes_limit opt ->               (* room for all nodes + the Root *)
  N.of_nat (length (S4.sem d)) < u32_max ->                        (* of the MEANING: entities add nodes *)
  N.of_nat (S4.nattrs d) < u32_max ->                              (* the attribute rows of the meaning *)
  S4.distinct_decls_le d (N.to_nat 65535) ->                       (* at most 65535 distinct declared bindings *)
  1 + N.of_nat (S4.ns_cost d) <= u32_max ->                        (* the namespace table fits *)
  exists doc, parse (S4.render d) opt = Ok doc /\ view (S4.render d) doc = Some (S4.sem d).
Proof. exact parse_render_sem_full_s4. Qed.
Print Assumptions C06_parse_render_sem_full_s4.

End G5.

(* ---- Proofs/CstNsMain.v ---- *)
Module G6.
Import CstNs.
Theorem C06_parse_render_sem_ns :
  forall (c : doc) (opt : options),
  wf_doc c = true ->
  N.of_nat (length (sem c)) < nodes_limit opt ->               (* room for all nodes + the Root *)
  N.of_nat (length (render c)) <= u32_max ->                    (* the input is at most u32::MAX bytes long *)
  distinct_decls_le (d_root c) (N.to_nat 65535) ->              (* at most 65535 distinct declared bindings *)
  1 + N.of_nat (ns_cost [] (d_root c)) <= u32_max ->            (* the namespace table fits *)
  exists d, parse (render c) opt = Ok d /\ view (render c) d = Some (sem c).
Proof. exact parse_render_sem_ns. Qed.
Print Assumptions C06_parse_render_sem_ns.

Theorem C06_layout_insensitive_ns :
  forall c1 c2 opt,
  wf_doc c1 = true -> wf_doc c2 = true -> sem c1 = sem c2 ->
  N.of_nat (length (sem c1)) < nodes_limit opt ->
  N.of_nat (length (render c1)) <= u32_max -> N.of_nat (length (render c2)) <= u32_max ->
  distinct_decls_le (d_root c1) (N.to_nat 65535) -> distinct_decls_le (d_root c2) (N.to_nat 65535) ->
  1 + N.of_nat (ns_cost [] (d_root c1)) <= u32_max -> 1 + N.of_nat (ns_cost [] (d_root c2)) <= u32_max ->
  exists d1 d2, parse (render c1) opt = Ok d1 /\ parse (render c2) opt = Ok d2 /\
                view (render c1) d1 = view (render c2) d2.
Proof. exact layout_insensitive_ns. Qed.
Print Assumptions C06_layout_insensitive_ns.

End G6.

(* ---- Proofs/NsRejMain.v ---- *)
Module G7.
Import CstNs.
Theorem C06_ns_decide :
  forall (c : doc) (opt : options),
  wf_syntax_ns c = true ->
  N.of_nat (length (sem c)) < nodes_limit opt ->
  N.of_nat (length (render c)) <= u32_max ->
  distinct_decls_le (d_root c) (N.to_nat 65535) ->
  1 + N.of_nat (ns_cost [] (d_root c)) <= u32_max ->
  ((exists d, parse (render c) opt = Ok d) <-> ns_conditions c = true).
Proof. exact ns_decide. Qed.
Print Assumptions C06_ns_decide.

Theorem C06_ns_violation_variant :
  forall (c : doc) (opt : options) (rl : rule),
  wf_syntax_ns c = true -> first_violation c = Some rl ->
  N.of_nat (length (sem c)) < nodes_limit opt ->               (* room for all nodes + the Root *)
  N.of_nat (length (render c)) <= u32_max ->                    (* the input is at most u32::MAX bytes long *)
  distinct_decls_le (d_root c) (N.to_nat 65535) ->              (* at most 65535 distinct declared bindings *)
  1 + N.of_nat (ns_cost [] (d_root c)) <= u32_max ->            (* the namespace table fits *)
  exists e, parse (render c) opt = Err e /\ rule_error rl e = true.
Proof. exact ns_violation_variant. Qed.
Print Assumptions C06_ns_violation_variant.

End G7.

(* ---- Proofs/CstFullRejS11NsMain.v ---- *)
Module G8.
Import RX.Spec.CstFull. Import RX.Spec.CstFullS4. Import RX.Spec.CstFullS6. Import RX.Spec.CstFullS11. Import RX.Proofs.CstNsView. Import RX.Proofs.CstFullS11Main. Import RX.Proofs.NsRejDefs. Import RX.Proofs.NsRejBuild. Import RX.Proofs.CstFullRejSem. Import RX.Proofs.CstFullRejS11Sem. Import RX.Proofs.CstFullRejTrace. Import RX.Proofs.CstFullRejS11Doc. Import RX.Proofs.CstFullRejMain. Import RX.Proofs.CstFullRejS11Main. Import RX.Proofs.CstFullNsRejMain. Import RX.Proofs.CstFullRejS11NsMain.
Theorem C06_decide_full_s11 :
  forall (d : S6.doc) (opt : options) (cT : CstFull.doc bpieces) (tr : list Detector.lop),
  wf_syntax11 d = true -> ginline6 d = Some (cT, tr) ->
  provisos_item (d_root cT) = true ->
  attrs_named_ok cT = true ->
  (S6.has_dtd d = true -> allow_dtd opt = true) ->
  N.of_nat (length (usem6 d cT)) < nodes_limit opt ->
  N.of_nat (length (usem6 d cT)) < u32_max ->
  N.of_nat (vattrs (usem6 d cT)) < u32_max ->
  CstFull.distinct_decls_le bmeaning cT (N.to_nat 65535) ->
  1 + N.of_nat (CstFull.ns_cost bmeaning cT) <= u32_max ->
  match Detector.within_limits 10 255 0 0 tr, forallb (ns_ok []) (den bmeaning (d_root cT)) with
  | true, true =>                                                   (* (a) accepted, with the meaning of the unfolding *)
    exists x, parse (S6.render d) opt = Ok x /\ view (S6.render d) x = Some (usem6 d cT) /\ S11.wf_doc d = true /\ S6.sem d = usem6 d cT
  | false, true =>                                                  (* (b) the detector stops *)
    exists pos, parse (S6.render d) opt = Err (EntityReferenceLoop pos)
  | true, false =>                                                  (* (c) the first violated namespace rule *)
    exists rl e, first_violation6 cT = Some rl /\ parse (S6.render d) opt = Err e /\ rule_error rl e = true /\ is_ns_error e = true
  | false, false => True
  end.
Proof. exact decide_full_s11. Qed.
Print Assumptions C06_decide_full_s11.

End G8.

(* ---- Proofs/CstFullNsRejMain.v ---- *)
Module G9.
Import RX.Spec.CstFull. Import RX.Spec.CstFullS4. Import RX.Spec.CstFullS6. Import RX.Proofs.CstNsView. Import RX.Proofs.CstFullS6Main. Import RX.Proofs.NsRejDefs. Import RX.Proofs.NsRejBuild. Import RX.Proofs.CstFullRejSem. Import RX.Proofs.CstFullRejTrace. Import RX.Proofs.CstFullRejDoc. Import RX.Proofs.CstFullRejMain. Import RX.Proofs.CstFullNsRejMain.
Theorem C06_ns_decide_full_s6_partial :
  forall (d : S6.doc) (opt : options) (cT : CstFull.doc bpieces) (tr : list Detector.lop),
  wf_syntax6 d = true -> ginline6 d = Some (cT, tr) ->
  Detector.within_limits 10 255 0 0 tr = true ->
  provisos_item (d_root cT) = true ->
  attrs_named_ok cT = true ->                                       (* see (1) in the header *)
  (S6.has_dtd d = true -> allow_dtd opt = true) ->
  N.of_nat (length (usem6 d cT)) < nodes_limit opt ->
  N.of_nat (length (usem6 d cT)) < u32_max ->
  N.of_nat (vattrs (usem6 d cT)) < u32_max ->
  CstFull.distinct_decls_le bmeaning cT (N.to_nat 65535) ->
  1 + N.of_nat (CstFull.ns_cost bmeaning cT) <= u32_max ->
  ((exists x, parse (S6.render d) opt = Ok x) <-> forallb (ns_ok []) (den bmeaning (d_root cT)) = true) /\
  (forallb (ns_ok []) (den bmeaning (d_root cT)) = true ->
     exists x, parse (S6.render d) opt = Ok x /\ view (S6.render d) x = Some (usem6 d cT)) /\
  (forallb (ns_ok []) (den bmeaning (d_root cT)) = false ->
     exists e, parse (S6.render d) opt = Err e /\ is_ns_error e = true) /\
  match first_violation6 cT with
  | None => forallb (ns_ok []) (den bmeaning (d_root cT)) = true
  | Some rl => exists e, parse (S6.render d) opt = Err e /\ rule_error rl e = true
  end.
Proof. exact ns_decide_full_s6_partial. Qed.
Print Assumptions C06_ns_decide_full_s6_partial.

Theorem C06_ns_violation_variant_full_s6 :
  forall (d : S6.doc) (opt : options) (cT : CstFull.doc bpieces) (tr : list Detector.lop) (rl : NsRejDefs.rule),
  wf_syntax6 d = true -> ginline6 d = Some (cT, tr) ->
  Detector.within_limits 10 255 0 0 tr = true ->
  provisos_item (d_root cT) = true ->
  attrs_named_ok cT = true ->
  first_violation6 cT = Some rl ->
  (S6.has_dtd d = true -> allow_dtd opt = true) ->
  N.of_nat (length (usem6 d cT)) < nodes_limit opt ->
  N.of_nat (length (usem6 d cT)) < u32_max ->
  N.of_nat (vattrs (usem6 d cT)) < u32_max ->
  CstFull.distinct_decls_le bmeaning cT (N.to_nat 65535) ->
  1 + N.of_nat (CstFull.ns_cost bmeaning cT) <= u32_max ->
  exists e, parse (S6.render d) opt = Err e /\ rule_error rl e = true.
Proof. exact ns_violation_variant_full_s6. Qed.
Print Assumptions C06_ns_violation_variant_full_s6.

Theorem C06_decide_full_s6 :
  forall (d : S6.doc) (opt : options) (cT : CstFull.doc bpieces) (tr : list Detector.lop),
  wf_syntax6 d = true -> ginline6 d = Some (cT, tr) ->
  provisos_item (d_root cT) = true ->
  attrs_named_ok cT = true ->
  (S6.has_dtd d = true -> allow_dtd opt = true) ->
  N.of_nat (length (usem6 d cT)) < nodes_limit opt ->
  N.of_nat (length (usem6 d cT)) < u32_max ->
  N.of_nat (vattrs (usem6 d cT)) < u32_max ->
  CstFull.distinct_decls_le bmeaning cT (N.to_nat 65535) ->
  1 + N.of_nat (CstFull.ns_cost bmeaning cT) <= u32_max ->
  match Detector.within_limits 10 255 0 0 tr, forallb (ns_ok []) (den bmeaning (d_root cT)) with
  | true, true =>                                                   (* (a) accepted, with the meaning of the unfolding *)
    exists x, parse (S6.render d) opt = Ok x /\ view (S6.render d) x = Some (usem6 d cT) /\ S6.wf_doc d = true /\ S6.sem d = usem6 d cT
  | false, true =>                                                  (* (b) the detector stops *)
    exists pos, parse (S6.render d) opt = Err (EntityReferenceLoop pos)
  | true, false =>                                                  (* (c) the first violated namespace rule *)
    exists rl e, first_violation6 cT = Some rl /\ parse (S6.render d) opt = Err e /\ rule_error rl e = true /\ is_ns_error e = true
  | false, false => True
  end.
Proof. exact decide_full_s6. Qed.
Print Assumptions C06_decide_full_s6.

End G9.
