(* C04 -- character data is decoded per XML 1.0: the text machine (TextBuffer with the pending-CR
   flag, as driven by process_text) produces, for every run of literal bytes and referenced
   characters, the decoding of Spec/Text.v: literal stretches normalised as source text, referenced
   characters kept.  (A referenced character never encodes to zero bytes: encode_utf8_nonempty.)
   Statements pinned here; proofs in Proofs/TextMachine.v. *)
From Coq Require Import List NArith Bool.
Import ListNotations.
From RX.Model Require Import Base Stream Builder Parse.
From RX.Spec Require Import Text.
From RX.Proofs Require Import TextMachine.
Open Scope N_scope.

Theorem C04_text_chunks_decode_partial :
  forall cs,
  Forall (fun c => c <> CRef []) cs ->
  run_text_chunks false cs = decode_chunks cs.
Proof. exact text_chunks_decode_partial. Qed.
Print Assumptions C04_text_chunks_decode_partial.

Theorem C04_encode_utf8_nonempty :
  forall c, encode_utf8 c <> [].
Proof. exact encode_utf8_nonempty. Qed.
Print Assumptions C04_encode_utf8_nonempty.

Theorem C04_text_chunks_in_entity :
  forall cs,
  run_text_chunks true cs = norm_eol (concat (map chunk_bytes cs)).
Proof. exact text_chunks_in_entity. Qed.
Print Assumptions C04_text_chunks_in_entity.

Theorem C04_cdata_decode :
  forall l, cdata_norm l = norm_eol l.
Proof. exact cdata_decode. Qed.
Print Assumptions C04_cdata_decode.

Theorem C04_run_text_empty_iff :
  forall e cs,
  tb_is_empty (push_text_chunks e cs tb_new) = true <-> run_text_chunks e cs = [].
Proof. exact run_text_empty_iff. Qed.
Print Assumptions C04_run_text_empty_iff.

(* the same, on the model's own loop: for a text token whose chunks (as read by
   parse_next_chunk) contain no general entity reference, process_text appends exactly one
   text fragment, the decoding of the chunks *)
Theorem C04_process_text_with_decode_top :
  forall (text : bytes) (pc : Stream.stream -> context -> res (Stream.stream * context))
         (t : slice) (r : N * N) (c : context) (s0 : Stream.stream) (cs : list chunk),
  existsb (fun x => (x =? 38) || (x =? 13)) (slice_bytes text t) = true ->
  stream_from_substr text (fst r) (snd r) = Ok s0 ->
  reads text (c_entities c) s0 cs ->
  (0 <? ld_depth (c_ld c)) = false ->
  process_text_with text pc t r c = OutOfFuel \/
  process_text_with text pc t r c = text_result r c (decode_chunks cs).
Proof. exact process_text_with_decode_top. Qed.
Print Assumptions C04_process_text_with_decode_top.
