(* C04 -- character data is decoded per XML 1.0, one text node per run.
   (1) the text machine (TextBuffer with the pending-CR flag, as driven by process_text) produces,
   for every run of literal bytes and referenced characters, the decoding of Spec/Text.v; a referenced
   character never encodes to zero bytes (encode_utf8_nonempty); the same on the model's own loop;
   (2) CDATA sections are normalised like literals; (3) any number of fragments of one run end up in
   exactly one Text node holding their concatenation (after_text protocol); (4) whole documents, fragment of
   Spec/CstText.v (text runs made of literals incl. CR / CR LF, character references, predefined references and
   CDATA sections; ASCII source, no DOCTYPE / namespaces): every rendering parses to exactly its meaning, where a
   run denotes ONE Text node holding decode_chunks of its pieces (Spec/Text.v) -- parse_render_sem_text -- so
   documents that differ only in how a string is spelled (&amp; / &#38; / CDATA) give the same tree.
   Statements are pinned here (copied verbatim from the proof files by tools/pin_props.py);
   each is re-proved by `exact` and followed by Print Assumptions. *)
From Coq Require Import Ascii String.
From Coq Require Import List NArith Bool PeanoNat Sorted.
Import ListNotations.
From RX Require Import Generated.
From RX.Model Require Import Base CharClass Stream Tokenizer Doc Builder Parse Api.
From RX.Spec Require Import Text.
From RX.Spec Require Cst CstText.
From RX.Proofs Require Import TextMachine TextMerge CstMain CstTextMain.
Open Scope N_scope.

(* ---- Proofs/CstTextMain.v ---- *)
Module G0.
Module T := CstText.
Theorem C04_parse_render_sem_text :
  forall (c : T.doc) (opt : options),
  T.wf_doc c = true ->
  N.of_nat (length (T.sem c)) < nodes_limit opt ->            (* room for all nodes + the Root *)
  N.of_nat (length (T.render c)) <= u32_max ->                 (* the input is at most u32::MAX bytes long *)
  exists d, parse (T.render c) opt = Ok d /\
            view (T.render c) d = T.sem c /\
            (forall nd ns local ar nss, In nd (d_nodes d) -> nd_kind nd = KElement ns local ar nss -> ns = None) /\
            (forall a, In a (d_attrs d) -> ad_ns_idx a = None).
Proof. exact parse_render_sem_text. Qed.
Print Assumptions C04_parse_render_sem_text.

Theorem C04_piece_choice_insensitive :
  forall c1 c2 opt,
  T.wf_doc c1 = true -> T.wf_doc c2 = true ->
  same_item (T.d_root c1) (T.d_root c2) ->
  map fst (T.d_before c1) = map fst (T.d_before c2) -> map snd (T.d_after c1) = map snd (T.d_after c2) ->
  N.of_nat (length (T.sem c1)) < nodes_limit opt ->
  N.of_nat (length (T.render c1)) <= u32_max -> N.of_nat (length (T.render c2)) <= u32_max ->
  exists d1 d2, parse (T.render c1) opt = Ok d1 /\ parse (T.render c2) opt = Ok d2 /\
                view (T.render c1) d1 = view (T.render c2) d2.
Proof. exact piece_choice_insensitive. Qed.
Print Assumptions C04_piece_choice_insensitive.

End G0.

(* ---- Proofs/TextMachine.v ---- *)
Theorem C04_text_chunks_decode_partial :
  forall cs,
  Forall (fun c => c <> CRef []) cs ->
  run_text_chunks false cs = decode_chunks cs.
Proof. exact text_chunks_decode_partial. Qed.
Print Assumptions C04_text_chunks_decode_partial.

Theorem C04_encode_utf8_nonempty :
  forall c, encode_utf8 c <> [].
Proof. exact encode_utf8_nonempty. Qed.
Print Assumptions C04_encode_utf8_nonempty.

Theorem C04_text_chunks_in_entity :
  forall cs,
  run_text_chunks true cs = norm_eol (concat (map chunk_bytes cs)).
Proof. exact text_chunks_in_entity. Qed.
Print Assumptions C04_text_chunks_in_entity.

Theorem C04_cdata_decode :
  forall l, cdata_norm l = norm_eol l.
Proof. exact cdata_decode. Qed.
Print Assumptions C04_cdata_decode.

Theorem C04_run_text_empty_iff :
  forall e cs,
  tb_is_empty (push_text_chunks e cs tb_new) = true <-> run_text_chunks e cs = [].
Proof. exact run_text_empty_iff. Qed.
Print Assumptions C04_run_text_empty_iff.

(* ---- Proofs/TextMerge.v ---- *)
Theorem C04_fragments_merge :
  forall text t0 ts r c c0 c1 c2,
  c_after_text c = [] ->
  append_text t0 r c = Ok c0 ->                 (* the first fragment appends the node *)
  append_texts ts r c0 = Ok c1 ->               (* further fragments of the same run *)
  reset_after_text text c1 = Ok c2 ->
  len_N (d_nodes (c_doc c2)) = len_N (d_nodes (c_doc c)) + 1 /\
  c_after_text c2 = [] /\
  (forall i, i < len_N (d_nodes (c_doc c)) -> nth_N (d_nodes (c_doc c2)) i = nth_N (d_nodes (c_doc c0)) i) /\
  exists nd st, nth_N (d_nodes (c_doc c2)) (len_N (d_nodes (c_doc c))) = Some nd /\ nd_kind nd = KText st /\
     storage_bytes text st = concat (map (cow_bytes text) (t0 :: ts)) /\
     (* links and range of the node are those given by append_node for the first fragment *)
     (exists nd0, nth_N (d_nodes (c_doc c0)) (len_N (d_nodes (c_doc c))) = Some nd0 /\
        nd_parent nd = nd_parent nd0 /\ nd_prev_sibling nd = nd_prev_sibling nd0 /\
        nd_next_subtree nd = nd_next_subtree nd0 /\ nd_last_child nd = nd_last_child nd0 /\ nd_range nd = nd_range nd0).
Proof. exact fragments_merge. Qed.
Print Assumptions C04_fragments_merge.

Theorem C04_fragments_merge_ranges :
  forall text t0 r0 ts c c0 c1 c2,
  c_after_text c = [] ->
  append_text t0 r0 c = Ok c0 ->
  append_texts_r ts c0 = Ok c1 ->
  reset_after_text text c1 = Ok c2 ->
  len_N (d_nodes (c_doc c2)) = len_N (d_nodes (c_doc c)) + 1 /\
  c_after_text c2 = [] /\
  (forall i, i < len_N (d_nodes (c_doc c)) ->
             nth_N (d_nodes (c_doc c2)) i = nth_N (d_nodes (c_doc c0)) i) /\
  exists nd st, nth_N (d_nodes (c_doc c2)) (len_N (d_nodes (c_doc c))) = Some nd /\
     nd_kind nd = KText st /\
     storage_bytes text st = concat (map (cow_bytes text) (t0 :: map fst ts)) /\
     (exists nd0, nth_N (d_nodes (c_doc c0)) (len_N (d_nodes (c_doc c))) = Some nd0 /\
        nd_parent nd = nd_parent nd0 /\ nd_prev_sibling nd = nd_prev_sibling nd0 /\
        nd_next_subtree nd = nd_next_subtree nd0 /\ nd_last_child nd = nd_last_child nd0 /\
        nd_range nd = nd_range nd0 /\ nd_range nd = r0).
Proof. exact fragments_merge_ranges. Qed.
Print Assumptions C04_fragments_merge_ranges.

Theorem C04_append_text_continuation :
  forall t r c, c_after_text c <> [] ->
  exists c', append_text t r c = Ok c' /\ d_nodes (c_doc c') = d_nodes (c_doc c) /\
             c_after_text c' = c_after_text c ++ [t].
Proof. exact append_text_continuation. Qed.
Print Assumptions C04_append_text_continuation.

Theorem C04_single_fragment_storage :
  forall text t r c c0 c2, c_after_text c = [] ->
  append_text t r c = Ok c0 -> reset_after_text text c0 = Ok c2 ->
  exists nd, nth_N (d_nodes (c_doc c2)) (len_N (d_nodes (c_doc c))) = Some nd /\
    nd_kind nd = KText (match t with CowBorrowed s => Borrowed (SIn s) | CowOwned bs => Owned bs end).
Proof. exact single_fragment_storage. Qed.
Print Assumptions C04_single_fragment_storage.

Theorem C04_reset_after_text_safe :
  forall text c,
  (c_after_text c <> [] -> exists nd st, hd_error (rev (d_nodes (c_doc c))) = Some nd /\ nd_kind nd = KText st) ->
  exists c', reset_after_text text c = Ok c'.
Proof. exact reset_after_text_safe. Qed.
Print Assumptions C04_reset_after_text_safe.

Theorem C04_process_cdata_spec :
  forall text txt r c,
  process_cdata text txt r c =
  append_text (if mem_b 13 (slice_bytes text txt) then CowOwned (Text.norm_eol (slice_bytes text txt)) else CowBorrowed txt) r c.
Proof. exact process_cdata_spec. Qed.
Print Assumptions C04_process_cdata_spec.


(* the same, on the model's own loop: for a text token whose chunks (as read by parse_next_chunk)
   contain no general entity reference, process_text appends exactly one text fragment, the
   decoding of the chunks *)
Theorem C04_process_text_with_decode_top :
  forall (text : bytes) (pc : Stream.stream -> context -> res (Stream.stream * context))
         (t : slice) (r : N * N) (c : context) (s0 : Stream.stream) (cs : list chunk),
  existsb (fun x => (x =? 38) || (x =? 13)) (slice_bytes text t) = true ->
  stream_from_substr text (fst r) (snd r) = Ok s0 ->
  reads text (c_entities c) s0 cs ->
  (0 <? ld_depth (c_ld c)) = false ->
  process_text_with text pc t r c = OutOfFuel \/
  process_text_with text pc t r c = text_result r c (decode_chunks cs).
Proof. exact process_text_with_decode_top. Qed.
Print Assumptions C04_process_text_with_decode_top.
