(* C09 -- entity expansion is bounded yet not over-restricted: the loop detector.
   Statements pinned here; proofs in Proofs/DetectorProofs.v.  The limits come from
   Generated.v, i.e. from /repo/src/parse.rs as it is now. *)
From Coq Require Import List NArith.
Import ListNotations.
From RX Require Import Generated.
From RX.Model Require Import Base Stream Builder.
From RX.Spec Require Import Detector.
From RX.Proofs Require Import DetectorProofs.
Open Scope N_scope.

(* the pure step used below is what the model's inc_references; inc_depth do *)
Theorem C09_enter_agrees_model : forall text s ld,
  match ld_enter ld with
  | Some ld' => bind (inc_references text s ld) (inc_depth text s) = Ok ld'
  | None => forall x, bind (inc_references text s ld) (inc_depth text s) <> Ok x
  end.
Proof. exact enter_agrees_model. Qed.
Print Assumptions C09_enter_agrees_model.

(* every accepted trace respects the limits ... *)
Theorem C09_detector_sound : forall tr st,
  ld_run ld_init tr = Some st -> depth_after 0 tr <> None ->
  within_limits ld_max_depth ld_max_refs 0 0 tr = true.
Proof. exact detector_sound. Qed.
Print Assumptions C09_detector_sound.

(* ... and every trace within the limits is accepted (not over-restrictive) *)
Theorem C09_detector_complete : forall tr,
  within_limits ld_max_depth ld_max_refs 0 0 tr = true -> accepted tr.
Proof. exact detector_complete. Qed.
Print Assumptions C09_detector_complete.

Theorem C09_limits_bound_depth : forall D R tr pre suf,
  within_limits D R 0 0 tr = true -> tr = pre ++ suf ->
  exists d, depth_after 0 pre = Some d /\ d <= D.
Proof. exact limits_bound_depth. Qed.
Print Assumptions C09_limits_bound_depth.

Theorem C09_limits_bound_nested : forall D R a seg b,
  within_limits D R 0 0 (a ++ Enter :: seg ++ b) = true ->
  depth_after 0 a = Some 0 ->
  (forall p q, seg = p ++ q -> exists d, depth_after 1 p = Some d /\ 1 <= d) ->
  count_enter seg <= R.
Proof. exact limits_bound_nested. Qed.
Print Assumptions C09_limits_bound_nested.

(* the documented numbers, against the constants read from the source *)
Theorem C09_documented_limits : ld_max_depth = 10 /\ ld_max_refs = 255.
Proof. exact documented_limits. Qed.
Print Assumptions C09_documented_limits.

Theorem C09_chain_accepted_iff : forall n, accepted (chain n) <-> (n <= 10)%nat.
Proof. exact chain_accepted_iff. Qed.
Print Assumptions C09_chain_accepted_iff.

Theorem C09_fan_accepted_iff : forall n, accepted (fan n) <-> (n <= 255)%nat.
Proof. exact fan_accepted_iff. Qed.
Print Assumptions C09_fan_accepted_iff.

Theorem C09_flat_accepted : forall n, accepted (flat n).
Proof. exact flat_accepted. Qed.
Print Assumptions C09_flat_accepted.
