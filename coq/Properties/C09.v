(* C09 -- entity expansion is bounded yet not over-restricted.  (1) the loop detector is sound and complete
   w.r.t. the trace specification, with the documented numbers (10, 255) against constants regenerated from the
   source; (2) the node budget over a whole parse: a successfully parsed document has at most
   1 + len + 256 * len * amp nodes (hence <= 256 * (len + 1) * (amp + 1)), for every input and all options;
   without a DOCTYPE at most len + 1 nodes; (3) the byte budget: the text of all Text nodes plus all attribute
   values (text_len + value_len, BudgetBytesBuild.v) is at most len + 256 * len * amp bytes.  (5) Whole documents on the
   fragment of Spec/CstEnt.v: for a document whose only possible defect is the expansion (wf_syntax, and ginline = Some:
   no undeclared name, no markup reaching an attribute), the detector limits DECIDE the outcome -- within 10 / 255 it parses
   to its inlined meaning, otherwise Err EntityReferenceLoop (limits_decide_ent) -- hence a reference cycle reachable
   from the body (cyclic_doc, defined on the declaration graph with first declarations), a reference path of 11 or more
   names, or more than 255 expansions below one top-level reference are each rejected with EntityReferenceLoop.
   Statements are pinned here (copied verbatim from the proof files by tools/pin_props.py);
   each is re-proved by `exact` and followed by Print Assumptions. *)
From Coq Require Import Ascii String.
From Coq Require Import List NArith Bool PeanoNat Sorted.
Import ListNotations.
From RX Require Import Generated.
From RX.Model Require Import Base CharClass Stream Tokenizer Doc Builder Parse Api.
From RX.Spec Require Import Detector.
From RX.Proofs Require Import DetectorProofs OptionsParam OptionsBuild OptionsMain OptionsDtd BudgetStream BudgetTok BudgetBuild BudgetAcct BudgetMain BudgetNoEnt BudgetBytesBuild BudgetBytesTok BudgetBytesAcct BudgetBytesMain CycleStream CycleContent CycleAttr CycleEntered.
From RX.Spec Require Cst CstText CstEnt.
From RX.Proofs Require Import CstMain CstTextMain CstEntMain CstEntRejSem CstEntRejTrace CstEntRejMain.
From RX.Spec Require CstFull CstFullS4 CstFullS6.
From RX.Proofs Require CstNsView CstFullS6Main CstFullRejSem CstFullRejTrace CstFullRejDoc CstFullRejMain.
From RX.Spec Require CstFullS11.
From RX.Proofs Require CstFullS11Main CstFullRejS11Sem CstFullRejS11Doc CstFullRejS11Main CstFullRejS11NsMain NsRejDefs NsRejBuild.
Open Scope N_scope.

(* ---- Proofs/BudgetMain.v ---- *)
Theorem C09_expansion_budget_nodes :
  forall text opt d, parse text opt = Ok d ->
  len_N (d_nodes d) <= 256 * (tlen text + 1) * (amp_count text + 1).
Proof. exact expansion_budget_nodes. Qed.
Print Assumptions C09_expansion_budget_nodes.

Theorem C09_expansion_budget_tight :
  forall text opt d, parse text opt = Ok d ->
  len_N (d_nodes d) <= 1 + tlen text + 256 * tlen text * amp_count text.
Proof. exact expansion_budget_tight. Qed.
Print Assumptions C09_expansion_budget_tight.

(* ---- Proofs/BudgetNoEnt.v ---- *)
Theorem C09_budget_no_entities :
  forall text opt d,
  parse text opt = Ok d -> contains_b (b "<!DOCTYPE") text = false ->
  len_N (d_nodes d) <= tlen text + 1.
Proof. exact budget_no_entities. Qed.
Print Assumptions C09_budget_no_entities.

(* ---- Proofs/BudgetBytesMain.v ---- *)
Theorem C09_expansion_budget_bytes :
  forall text opt d, parse text opt = Ok d ->
  text_len text d + value_len text d <= 256 * (tlen text + 1) * (amp_count text + 1).
Proof. exact expansion_budget_bytes. Qed.
Print Assumptions C09_expansion_budget_bytes.

Theorem C09_expansion_budget_bytes_tight :
  forall text opt d, parse text opt = Ok d ->
  text_len text d + value_len text d <= tlen text + 256 * tlen text * amp_count text.
Proof. exact expansion_budget_bytes_tight. Qed.
Print Assumptions C09_expansion_budget_bytes_tight.

(* ---- Proofs/CstEntRejMain.v ---- *)
Module G3.
Module E := CstEnt. Module T := CstText.
Theorem C09_limits_decide_ent :
  forall (c : E.doc) (opt : options) (cT : T.doc) (tr : list Detector.lop),
  wf_syntax c = true -> ginline c = Some (cT, tr) ->
  E.provisos_item (T.d_root cT) = true ->
  allow_dtd opt = true ->
  N.of_nat (length (T.sem cT)) < nodes_limit opt ->
  N.of_nat (length (T.sem cT)) < u32_max ->
  N.of_nat (tdoc_nattrs cT) < u32_max ->
  (Detector.within_limits 10 255 0 0 tr = true ->
     exists d, parse (E.render c) opt = Ok d /\ view (E.render c) d = T.sem cT) /\
  (Detector.within_limits 10 255 0 0 tr = false ->
     exists pos, parse (E.render c) opt = Err (EntityReferenceLoop pos)) /\
  ((exists d, parse (E.render c) opt = Ok d) <-> Detector.within_limits 10 255 0 0 tr = true) /\
  ((exists pos, parse (E.render c) opt = Err (EntityReferenceLoop pos)) <-> Detector.within_limits 10 255 0 0 tr = false).
Proof. exact limits_decide_ent. Qed.
Print Assumptions C09_limits_decide_ent.

Theorem C09_cycle_rejected_ent :
  forall (c : E.doc) (opt : options) (cT : T.doc) (tr : list Detector.lop),
  wf_syntax c = true -> ginline c = Some (cT, tr) ->
  E.provisos_item (T.d_root cT) = true ->
  allow_dtd opt = true ->
  N.of_nat (length (T.sem cT)) < nodes_limit opt ->
  N.of_nat (length (T.sem cT)) < u32_max ->
  N.of_nat (tdoc_nattrs cT) < u32_max ->
  cyclic_doc c ->
  exists pos, parse (E.render c) opt = Err (EntityReferenceLoop pos).
Proof. exact cycle_rejected_ent. Qed.
Print Assumptions C09_cycle_rejected_ent.

Theorem C09_depth_exceeded_rejected_ent :
  forall (c : E.doc) (opt : options) (cT : T.doc) (tr : list Detector.lop) (L : nat),
  wf_syntax c = true -> ginline c = Some (cT, tr) ->
  E.provisos_item (T.d_root cT) = true ->
  allow_dtd opt = true ->
  N.of_nat (length (T.sem cT)) < nodes_limit opt ->
  N.of_nat (length (T.sem cT)) < u32_max ->
  N.of_nat (tdoc_nattrs cT) < u32_max ->
  (11 <= L)%nat -> deep_doc c L ->
  exists pos, parse (E.render c) opt = Err (EntityReferenceLoop pos).
Proof. exact depth_exceeded_rejected_ent. Qed.
Print Assumptions C09_depth_exceeded_rejected_ent.

Theorem C09_budget_exceeded_rejected_ent :
  forall (c : E.doc) (opt : options) (cT : T.doc) (tr : list Detector.lop),
  wf_syntax c = true -> ginline c = Some (cT, tr) ->
  E.provisos_item (T.d_root cT) = true ->
  allow_dtd opt = true ->
  N.of_nat (length (T.sem cT)) < nodes_limit opt ->
  N.of_nat (length (T.sem cT)) < u32_max ->
  N.of_nat (tdoc_nattrs cT) < u32_max ->
  over_budget_doc c ->
  exists pos, parse (E.render c) opt = Err (EntityReferenceLoop pos).
Proof. exact budget_exceeded_rejected_ent. Qed.
Print Assumptions C09_budget_exceeded_rejected_ent.

End G3.

(* ---- Proofs/CstFullRejS11Main.v ---- *)
Module G4.
Import RX.Spec.CstFull. Import RX.Spec.CstFullS4. Import RX.Spec.CstFullS6. Import RX.Spec.CstFullS11. Import RX.Proofs.CstNsView. Import RX.Proofs.CstFullS11Main. Import RX.Proofs.CstFullRejSem. Import RX.Proofs.CstFullRejS11Sem. Import RX.Proofs.CstFullRejTrace. Import RX.Proofs.CstFullRejS11Doc. Import RX.Proofs.CstFullRejMain. Import RX.Proofs.CstFullRejS11Main.
Theorem C09_limits_decide_full_s11 :
  forall (d : S6.doc) (opt : options) (cT : CstFull.doc bpieces) (tr : list Detector.lop),
  wf_syntax11 d = true -> ginline6 d = Some (cT, tr) ->
  provisos_item (d_root cT) = true ->
  forallb (ns_ok []) (den bmeaning (d_root cT)) = true ->
  (S6.has_dtd d = true -> allow_dtd opt = true) ->
  N.of_nat (length (usem6 d cT)) < nodes_limit opt ->
  N.of_nat (length (usem6 d cT)) < u32_max ->
  N.of_nat (vattrs (usem6 d cT)) < u32_max ->
  CstFull.distinct_decls_le bmeaning cT (N.to_nat 65535) ->
  1 + N.of_nat (CstFull.ns_cost bmeaning cT) <= u32_max ->
  (Detector.within_limits 10 255 0 0 tr = true ->
     exists x, parse (S6.render d) opt = Ok x /\ view (S6.render d) x = Some (usem6 d cT) /\
               S11.wf_doc d = true /\ S6.sem d = usem6 d cT) /\
  (Detector.within_limits 10 255 0 0 tr = false ->
     exists pos, parse (S6.render d) opt = Err (EntityReferenceLoop pos)) /\
  ((exists x, parse (S6.render d) opt = Ok x) <-> Detector.within_limits 10 255 0 0 tr = true) /\
  ((exists pos, parse (S6.render d) opt = Err (EntityReferenceLoop pos)) <-> Detector.within_limits 10 255 0 0 tr = false).
Proof. exact limits_decide_full_s11. Qed.
Print Assumptions C09_limits_decide_full_s11.

Theorem C09_cycle_rejected_full_s11 :
  forall (d : S6.doc) (opt : options) (cT : CstFull.doc bpieces) (tr : list Detector.lop),
  wf_syntax11 d = true -> ginline6 d = Some (cT, tr) ->
  provisos_item (d_root cT) = true ->
  forallb (ns_ok []) (den bmeaning (d_root cT)) = true ->
  (S6.has_dtd d = true -> allow_dtd opt = true) ->
  N.of_nat (length (usem6 d cT)) < nodes_limit opt ->
  N.of_nat (length (usem6 d cT)) < u32_max ->
  N.of_nat (vattrs (usem6 d cT)) < u32_max ->
  CstFull.distinct_decls_le bmeaning cT (N.to_nat 65535) ->
  1 + N.of_nat (CstFull.ns_cost bmeaning cT) <= u32_max ->
  cyclic_doc6 d ->
  exists pos, parse (S6.render d) opt = Err (EntityReferenceLoop pos).
Proof. exact cycle_rejected_full_s11. Qed.
Print Assumptions C09_cycle_rejected_full_s11.

End G4.

(* ---- Proofs/CstFullRejMain.v ---- *)
Module G5.
Import RX.Spec.CstFull. Import RX.Spec.CstFullS4. Import RX.Spec.CstFullS6. Import RX.Proofs.CstNsView. Import RX.Proofs.CstFullS6Main. Import RX.Proofs.CstFullRejSem. Import RX.Proofs.CstFullRejTrace. Import RX.Proofs.CstFullRejDoc. Import RX.Proofs.CstFullRejMain.
Theorem C09_limits_decide_full_s6 :
  forall (d : S6.doc) (opt : options) (cT : CstFull.doc bpieces) (tr : list Detector.lop),
  wf_syntax6 d = true -> ginline6 d = Some (cT, tr) ->
  provisos_item (d_root cT) = true ->
  forallb (ns_ok []) (den bmeaning (d_root cT)) = true ->
  (S6.has_dtd d = true -> allow_dtd opt = true) ->
  N.of_nat (length (usem6 d cT)) < nodes_limit opt ->
  N.of_nat (length (usem6 d cT)) < u32_max ->
  N.of_nat (vattrs (usem6 d cT)) < u32_max ->
  CstFull.distinct_decls_le bmeaning cT (N.to_nat 65535) ->
  1 + N.of_nat (CstFull.ns_cost bmeaning cT) <= u32_max ->
  (Detector.within_limits 10 255 0 0 tr = true ->
     exists x, parse (S6.render d) opt = Ok x /\ view (S6.render d) x = Some (usem6 d cT) /\
               S6.wf_doc d = true /\ S6.sem d = usem6 d cT) /\
  (Detector.within_limits 10 255 0 0 tr = false ->
     exists pos, parse (S6.render d) opt = Err (EntityReferenceLoop pos)) /\
  ((exists x, parse (S6.render d) opt = Ok x) <-> Detector.within_limits 10 255 0 0 tr = true) /\
  ((exists pos, parse (S6.render d) opt = Err (EntityReferenceLoop pos)) <-> Detector.within_limits 10 255 0 0 tr = false).
Proof. exact limits_decide_full_s6. Qed.
Print Assumptions C09_limits_decide_full_s6.

Theorem C09_cycle_rejected_full_s6 :
  forall (d : S6.doc) (opt : options) (cT : CstFull.doc bpieces) (tr : list Detector.lop),
  wf_syntax6 d = true -> ginline6 d = Some (cT, tr) ->
  provisos_item (d_root cT) = true ->
  forallb (ns_ok []) (den bmeaning (d_root cT)) = true ->
  (S6.has_dtd d = true -> allow_dtd opt = true) ->
  N.of_nat (length (usem6 d cT)) < nodes_limit opt ->
  N.of_nat (length (usem6 d cT)) < u32_max ->
  N.of_nat (vattrs (usem6 d cT)) < u32_max ->
  CstFull.distinct_decls_le bmeaning cT (N.to_nat 65535) ->
  1 + N.of_nat (CstFull.ns_cost bmeaning cT) <= u32_max ->
  cyclic_doc6 d ->
  exists pos, parse (S6.render d) opt = Err (EntityReferenceLoop pos).
Proof. exact cycle_rejected_full_s6. Qed.
Print Assumptions C09_cycle_rejected_full_s6.

Theorem C09_depth_exceeded_rejected_full_s6 :
  forall (d : S6.doc) (opt : options) (cT : CstFull.doc bpieces) (tr : list Detector.lop) (L : nat),
  wf_syntax6 d = true -> ginline6 d = Some (cT, tr) ->
  provisos_item (d_root cT) = true ->
  forallb (ns_ok []) (den bmeaning (d_root cT)) = true ->
  (S6.has_dtd d = true -> allow_dtd opt = true) ->
  N.of_nat (length (usem6 d cT)) < nodes_limit opt ->
  N.of_nat (length (usem6 d cT)) < u32_max ->
  N.of_nat (vattrs (usem6 d cT)) < u32_max ->
  CstFull.distinct_decls_le bmeaning cT (N.to_nat 65535) ->
  1 + N.of_nat (CstFull.ns_cost bmeaning cT) <= u32_max ->
  (11 <= L)%nat -> deep_doc6 d L ->
  exists pos, parse (S6.render d) opt = Err (EntityReferenceLoop pos).
Proof. exact depth_exceeded_rejected_full_s6. Qed.
Print Assumptions C09_depth_exceeded_rejected_full_s6.

Theorem C09_budget_exceeded_rejected_full_s6 :
  forall (d : S6.doc) (opt : options) (cT : CstFull.doc bpieces) (tr : list Detector.lop),
  wf_syntax6 d = true -> ginline6 d = Some (cT, tr) ->
  provisos_item (d_root cT) = true ->
  forallb (ns_ok []) (den bmeaning (d_root cT)) = true ->
  (S6.has_dtd d = true -> allow_dtd opt = true) ->
  N.of_nat (length (usem6 d cT)) < nodes_limit opt ->
  N.of_nat (length (usem6 d cT)) < u32_max ->
  N.of_nat (vattrs (usem6 d cT)) < u32_max ->
  CstFull.distinct_decls_le bmeaning cT (N.to_nat 65535) ->
  1 + N.of_nat (CstFull.ns_cost bmeaning cT) <= u32_max ->
  over_budget_doc6 d ->
  exists pos, parse (S6.render d) opt = Err (EntityReferenceLoop pos).
Proof. exact budget_exceeded_rejected_full_s6. Qed.
Print Assumptions C09_budget_exceeded_rejected_full_s6.

End G5.

(* ---- Proofs/DetectorProofs.v ---- *)
Theorem C09_enter_agrees_model :
  forall text s ld,
  match ld_enter ld with
  | Some ld' => bind (inc_references text s ld) (inc_depth text s) = Ok ld'
  | None => forall x, bind (inc_references text s ld) (inc_depth text s) <> Ok x
  end.
Proof. exact enter_agrees_model. Qed.
Print Assumptions C09_enter_agrees_model.

Theorem C09_detector_sound :
  forall tr st,
  ld_run ld_init tr = Some st -> depth_after 0 tr <> None ->
  within_limits ld_max_depth ld_max_refs 0 0 tr = true.
Proof. exact detector_sound. Qed.
Print Assumptions C09_detector_sound.

Theorem C09_detector_complete :
  forall tr,
  within_limits ld_max_depth ld_max_refs 0 0 tr = true -> accepted tr.
Proof. exact detector_complete. Qed.
Print Assumptions C09_detector_complete.

Theorem C09_limits_bound_depth :
  forall D R tr pre suf,
  within_limits D R 0 0 tr = true -> tr = pre ++ suf ->
  exists d, depth_after 0 pre = Some d /\ d <= D.
Proof. exact limits_bound_depth. Qed.
Print Assumptions C09_limits_bound_depth.

Theorem C09_limits_bound_nested :
  forall D R a seg b,
  within_limits D R 0 0 (a ++ Enter :: seg ++ b) = true ->
  depth_after 0 a = Some 0 ->
  (forall p q, seg = p ++ q -> exists d, depth_after 1 p = Some d /\ 1 <= d) ->
  count_enter seg <= R.
Proof. exact limits_bound_nested. Qed.
Print Assumptions C09_limits_bound_nested.

Theorem C09_documented_limits :
  ld_max_depth = 10 /\ ld_max_refs = 255.
Proof. exact documented_limits. Qed.
Print Assumptions C09_documented_limits.

Theorem C09_chain_accepted_iff :
  forall n, accepted (chain n) <-> (n <= 10)%nat.
Proof. exact chain_accepted_iff. Qed.
Print Assumptions C09_chain_accepted_iff.

Theorem C09_fan_accepted_iff :
  forall n, accepted (fan n) <-> (n <= 255)%nat.
Proof. exact fan_accepted_iff. Qed.
Print Assumptions C09_fan_accepted_iff.

Theorem C09_flat_accepted :
  forall n, accepted (flat n).
Proof. exact flat_accepted. Qed.
Print Assumptions C09_flat_accepted.


(* (4) reference cycles end in EntityReferenceLoop.  S is any set of entity names that is CLOSED: the first
   declaration of each member has a value  plain & m ; plain [< ...]  with m again in S (CycleContent.v:
   closed / value_into; names ASCII, m not one of the five predefined names).  Then a text token that
   reaches a member of S -- directly, or through any entity that leads into S -- fails with
   EntityReferenceLoop: never Ok, never another error, at any detector depth and count.  app_ok c says the
   text node for the plain text before the reference can be appended (otherwise NodesLimitReached comes
   first).  The same for attribute values.  Whole-document instances: Proofs/CycleExamples.v. *)
Theorem C09_cycle_in_content_token :
  forall (text : bytes) (es : list entity) (S : bytes -> Prop),
  closed text es S ->
  forall (t : slice) (r : N * N) (c : context) (pre m mid : list N),
  sl_start t = fst r -> sl_end t = snd r -> fst r <= snd r -> snd r <= tlen text ->
  sub text (fst r) (snd r) = pre ++ 38 :: m ++ 59 :: mid ->
  plain pre -> ascii_name m -> predefined_b m = false -> S m ->
  is_boundary text (fst r + blen pre + blen m + 2) = true ->
  c_entities c = es -> app_ok c ->
  exists p : textpos, Parse.token text (TText t r) c = Err (EntityReferenceLoop p).
Proof. exact cycle_in_content_token. Qed.
Print Assumptions C09_cycle_in_content_token.

Theorem C09_cycle_entered :
  forall (text : bytes) (es : list entity) (S : bytes -> Prop),
  closed text es S ->
  forall (lvl : nat) (c : context) (v : slice) (s0 : Stream.stream),
  (entity_levels <= lvl)%nat -> value_into text S v -> c_entities c = es -> app_ok c ->
  stream_from_substr text (sl_start v) (sl_end v) = Ok s0 ->
  exists p : textpos, parse_content_lvl text lvl s0 c = Err (EntityReferenceLoop p).
Proof. exact cycle_entered. Qed.
Print Assumptions C09_cycle_entered.

Theorem C09_cycle_in_content_entered :
  forall (text : bytes) (es : list entity) (S : bytes -> Prop) (lvl : nat) (t : slice)
         (r : N * N) (c : context) (pre : list N) (n : bytes) (mid : list N) (e : entity),
  closed text es S -> find_entity text es n = Some e -> value_into text S (en_value e) ->
  (entity_levels <= lvl)%nat ->
  sl_start t = fst r -> sl_end t = snd r -> fst r <= snd r -> snd r <= tlen text ->
  sub text (fst r) (snd r) = pre ++ 38 :: n ++ 59 :: mid ->
  plain pre -> ascii_name n -> predefined_b n = false ->
  is_boundary text (fst r + blen pre + blen n + 2) = true ->
  c_entities c = es -> app_ok c ->
  exists p : textpos,
    process_text_with text (parse_content_lvl text lvl) t r c = Err (EntityReferenceLoop p).
Proof. exact cycle_in_content_entered. Qed.
Print Assumptions C09_cycle_in_content_entered.

Theorem C09_cycle_in_normalize_attribute :
  forall (text : bytes) (es : list entity) (S : bytes -> Prop),
  attr_closed text es S ->
  forall (v : slice) (c : context),
  attr_value_into text S v -> c_entities c = es ->
  exists p : textpos, normalize_attribute text v c = Err (EntityReferenceLoop p).
Proof. exact cycle_in_normalize_attribute. Qed.
Print Assumptions C09_cycle_in_normalize_attribute.
