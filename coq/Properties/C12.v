(* C12 -- name-based lookups are the first match of the enumerated attributes / namespaces.  The user_* theorems
   (Proofs/ApiUserS7.v) chain this with the capstone: for a rendered S7 document each lookup on the k-th node returns what the
   WRITTEN document says (first attribute with that expanded name, first binding of the in-scope list computed by Spec/Scope.v).
   Statements are pinned here (copied verbatim from the proof files by tools/pin_props.py);
   each is re-proved by `exact` and followed by Print Assumptions. *)
From Coq Require Import Ascii String.
From Coq Require Import List NArith Bool PeanoNat Sorted.
Import ListNotations.
From RX Require Import Generated.
From RX.Model Require Import Base CharClass Stream Tokenizer Doc Builder Parse Api.
From RX.Proofs Require Import LookupProofs.
From RX.Spec Require CstFull CstFullS6 CstFullS7.
From RX.Proofs Require CstNsView ApiViewAcc ApiView ApiUserCore ApiUserAcc ApiUserS7.
Open Scope N_scope.

(* ---- Proofs/ApiUserS7.v ---- *)
Module G0.
Import RX.Spec.CstFull. Import RX.Spec.CstFullS6. Import RX.Spec.CstFullS7. Import RX.Proofs.CstNsView. Import RX.Proofs.ApiViewAcc. Import RX.Proofs.ApiView. Import RX.Proofs.ApiUserCore. Import RX.Proofs.ApiUserAcc. Import RX.Proofs.ApiUserS7.
Theorem C12_user_tag_name :
  forall (d : S7.doc) (opt : options) (doc : document),
       s7_ok d opt ->
       parse (S7.render d) opt = Ok doc ->
       forall (k : nat) (ns : option Text.bytes) (local : Text.bytes)
         (attrs : list (option Text.bytes * Text.bytes * Text.bytes)) (nss : list Scope.binding) 
         (n : nat),
       nth_error (S7.sem d) k = Some (CstNs.VElem ns local attrs nss n) ->
       tag_name (S7.render d) doc (id_of k) = Ok (ns, local).
Proof. exact user_tag_name. Qed.
Print Assumptions C12_user_tag_name.

Theorem C12_user_has_tag_name :
  forall (d : S7.doc) (opt : options) (doc : document),
       s7_ok d opt ->
       parse (S7.render d) opt = Ok doc ->
       forall (k : nat) (ns : option Text.bytes) (local : Text.bytes)
         (attrs : list (option Text.bytes * Text.bytes * Text.bytes)) (nss : list Scope.binding) 
         (n : nat),
       nth_error (S7.sem d) k = Some (CstNs.VElem ns local attrs nss n) ->
       forall name : option bytes * bytes,
       has_tag_name (S7.render d) doc (id_of k) name =
       Ok match fst name with
          | Some _ => ename_eqb (ns, local) name
          | None => bytes_eqb local (snd name)
          end.
Proof. exact user_has_tag_name. Qed.
Print Assumptions C12_user_has_tag_name.

Theorem C12_user_attribute :
  forall (d : S7.doc) (opt : options) (doc : document),
       s7_ok d opt ->
       parse (S7.render d) opt = Ok doc ->
       forall (k : nat) (ns : option Text.bytes) (local : Text.bytes)
         (attrs : list (option Text.bytes * Text.bytes * Text.bytes)) (nss : list Scope.binding) 
         (n : nat),
       nth_error (S7.sem d) k = Some (CstNs.VElem ns local attrs nss n) ->
       forall name : option bytes * bytes,
       attribute (S7.render d) doc (id_of k) name = Ok (first_attr attrs name).
Proof. exact user_attribute. Qed.
Print Assumptions C12_user_attribute.

Theorem C12_user_has_attribute :
  forall (d : S7.doc) (opt : options) (doc : document),
       s7_ok d opt ->
       parse (S7.render d) opt = Ok doc ->
       forall (k : nat) (ns : option Text.bytes) (local : Text.bytes)
         (attrs : list (option Text.bytes * Text.bytes * Text.bytes)) (nss : list Scope.binding) 
         (n : nat),
       nth_error (S7.sem d) k = Some (CstNs.VElem ns local attrs nss n) ->
       forall name : option bytes * bytes,
       has_attribute (S7.render d) doc (id_of k) name =
       Ok match first_attr attrs name with
          | Some _ => true
          | None => false
          end.
Proof. exact user_has_attribute. Qed.
Print Assumptions C12_user_has_attribute.

Theorem C12_user_lookup_namespace_uri :
  forall (d : S7.doc) (opt : options) (doc : document),
       s7_ok d opt ->
       parse (S7.render d) opt = Ok doc ->
       forall (k : nat) (ns : option Text.bytes) (local : Text.bytes)
         (attrs : list (option Text.bytes * Text.bytes * Text.bytes)) (nss : list Scope.binding) 
         (n : nat),
       nth_error (S7.sem d) k = Some (CstNs.VElem ns local attrs nss n) ->
       forall prefix : option bytes,
       lookup_namespace_uri (S7.render d) doc (id_of k) prefix = Ok (Scope.lookup nss prefix).
Proof. exact user_lookup_namespace_uri. Qed.
Print Assumptions C12_user_lookup_namespace_uri.

Theorem C12_user_default_namespace :
  forall (d : S7.doc) (opt : options) (doc : document),
       s7_ok d opt ->
       parse (S7.render d) opt = Ok doc ->
       forall (k : nat) (ns : option Text.bytes) (local : Text.bytes)
         (attrs : list (option Text.bytes * Text.bytes * Text.bytes)) (nss : list Scope.binding) 
         (n : nat),
       nth_error (S7.sem d) k = Some (CstNs.VElem ns local attrs nss n) ->
       default_namespace (S7.render d) doc (id_of k) = Ok (Scope.lookup nss None).
Proof. exact user_default_namespace. Qed.
Print Assumptions C12_user_default_namespace.

Theorem C12_user_lookup_prefix :
  forall (d : S7.doc) (opt : options) (doc : document),
       s7_ok d opt ->
       parse (S7.render d) opt = Ok doc ->
       forall (k : nat) (ns : option Text.bytes) (local : Text.bytes)
         (attrs : list (option Text.bytes * Text.bytes * Text.bytes)) (nss : list Scope.binding) 
         (n : nat),
       nth_error (S7.sem d) k = Some (CstNs.VElem ns local attrs nss n) ->
       forall uri : bytes,
       lookup_prefix (S7.render d) doc (id_of k) uri =
       Ok (if bytes_eqb uri Scope.xml_uri then Some Scope.xml_prefix else first_prefix nss uri).
Proof. exact user_lookup_prefix. Qed.
Print Assumptions C12_user_lookup_prefix.

End G0.

(* ---- Proofs/LookupProofs.v ---- *)
Theorem C12_attribute_node_first_match :
  forall text d id name l r,
  enum_attrs d id = Ok l -> attribute_node text d id name = Ok r ->
  match r with
  | Some i => exists pre post a n, l = pre ++ i :: post /\ attr_at d i = Ok a /\ attr_ename text d a = Ok n /\ ename_eqb n name = true /\
              (forall j, In j pre -> forall a' n', attr_at d j = Ok a' -> attr_ename text d a' = Ok n' -> ename_eqb n' name = false)
  | None => forall j, In j l -> forall a' n', attr_at d j = Ok a' -> attr_ename text d a' = Ok n' -> ename_eqb n' name = false
  end.
Proof. exact attribute_node_first_match. Qed.
Print Assumptions C12_attribute_node_first_match.

Theorem C12_has_attribute_iff :
  forall text d id name r, attribute_node text d id name = Ok r ->
  has_attribute text d id name = Ok (match r with Some _ => true | None => false end).
Proof. exact has_attribute_iff. Qed.
Print Assumptions C12_has_attribute_iff.

Theorem C12_attribute_is_value_of_node :
  forall text d id name r, attribute_node text d id name = Ok r ->
  attribute text d id name = match r with Some i => let! a := attr_at d i in Ok (Some (storage_bytes text (ad_value a))) | None => Ok None end.
Proof. exact attribute_is_value_of_node. Qed.
Print Assumptions C12_attribute_is_value_of_node.

Theorem C12_bare_name_no_namespace :
  forall n1 l1 l2, ename_eqb (Some n1, l1) (None, l2) = false.
Proof. exact bare_name_no_namespace. Qed.
Print Assumptions C12_bare_name_no_namespace.

Theorem C12_has_tag_name_spec :
  forall text d id name tn, tag_name text d id = Ok tn ->
  (exists nd ns local a nss, node_data_of d id = Ok nd /\ nd_kind nd = KElement ns local a nss) ->
  has_tag_name text d id name = Ok (match fst name with Some _ => ename_eqb tn name | None => bytes_eqb (snd tn) (snd name) end).
Proof. exact has_tag_name_spec. Qed.
Print Assumptions C12_has_tag_name_spec.

Theorem C12_has_tag_name_non_element :
  forall text d id name nd, node_data_of d id = Ok nd ->
  is_element_kind (nd_kind nd) = false -> has_tag_name text d id name = Ok false /\ tag_name text d id = Ok (None, []).
Proof. exact has_tag_name_non_element. Qed.
Print Assumptions C12_has_tag_name_non_element.

Theorem C12_lookup_namespace_uri_first :
  forall text d id prefix l r,
  enum_ns d id = Ok l -> lookup_namespace_uri text d id prefix = Ok r ->
  match r with
  | Some u => exists pre post p v, l = pre ++ p :: post /\ namespace_at d p = Ok v /\ opt_str_eqb (ns_name_bytes text v) prefix = true /\ u = storage_bytes text (ns_uri v) /\
              (forall q v', In q pre -> namespace_at d q = Ok v' -> opt_str_eqb (ns_name_bytes text v') prefix = false)
  | None => forall q v', In q l -> namespace_at d q = Ok v' -> opt_str_eqb (ns_name_bytes text v') prefix = false
  end.
Proof. exact lookup_namespace_uri_first. Qed.
Print Assumptions C12_lookup_namespace_uri_first.

Theorem C12_default_namespace_is_lookup_none :
  forall text d id, default_namespace text d id = lookup_namespace_uri text d id None.
Proof. exact default_namespace_is_lookup_none. Qed.
Print Assumptions C12_default_namespace_is_lookup_none.

Theorem C12_lookup_prefix_xml :
  forall text d id, lookup_prefix text d id ns_xml_uri = Ok (Some ns_xml_prefix).
Proof. exact lookup_prefix_xml. Qed.
Print Assumptions C12_lookup_prefix_xml.

Theorem C12_lookup_prefix_first :
  forall text d id uri l r, bytes_eqb uri ns_xml_uri = false ->
  enum_ns d id = Ok l -> lookup_prefix text d id uri = Ok r ->
  (exists pre post p v, l = pre ++ p :: post /\ namespace_at d p = Ok v /\ bytes_eqb (storage_bytes text (ns_uri v)) uri = true /\ r = ns_name_bytes text v /\
      (forall q v', In q pre -> namespace_at d q = Ok v' -> bytes_eqb (storage_bytes text (ns_uri v')) uri = false))
  \/ (r = None /\ forall q v', In q l -> namespace_at d q = Ok v' -> bytes_eqb (storage_bytes text (ns_uri v')) uri = false).
Proof. exact lookup_prefix_first. Qed.
Print Assumptions C12_lookup_prefix_first.

Theorem C12_attr_eqb_spec :
  forall text d i j a c na nc, attr_at d i = Ok a -> attr_at d j = Ok c ->
  attr_ename text d a = Ok na -> attr_ename text d c = Ok nc ->
  attr_eqb text d i j = Ok (ename_eqb na nc && bytes_eqb (storage_bytes text (ad_value a)) (storage_bytes text (ad_value c))).
Proof. exact attr_eqb_spec. Qed.
Print Assumptions C12_attr_eqb_spec.
