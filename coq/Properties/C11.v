(* C11 -- navigation and iterators agree with the tree: on every arena that is the pre-order
   encoding of a tree (Arena d t), each link accessor, axis and iterator of the model's API is the
   corresponding function of t, and the double-ended iterators implement the deque specification
   for every sequence of operations.  Statements pinned here; proofs in Proofs/Nav*.v. *)
From Coq Require Import List NArith Bool.
Import ListNotations.
From RX.Model Require Import Base Stream Tokenizer Doc Builder Api.
From RX.Spec Require Import Tree Deque.
From RX.Proofs Require Import NavEnc NavLinks NavIter NavAxes.
Open Scope N_scope.

Theorem C11_table_ids :
  forall t,
  map (fun e => fst (fst e)) (table t) = N_range 0 (N.to_nat (size t)).
Proof. exact table_ids. Qed.
Print Assumptions C11_table_ids.

Theorem C11_nav_parent :
  forall d t id par s,
  Arena d t -> In (id, par, s) (table t) -> parent d id = Ok par.
Proof. exact nav_parent. Qed.
Print Assumptions C11_nav_parent.

Theorem C11_nav_has_children :
  forall d t id par s,
  Arena d t -> In (id, par, s) (table t) ->
  has_children d id = Ok (negb (match tchildren s with [] => true | _ => false end)).
Proof. exact nav_has_children. Qed.
Print Assumptions C11_nav_has_children.

Theorem C11_nav_first_child :
  forall d t id par s,
  Arena d t -> In (id, par, s) (table t) ->
  first_child d id = Ok (hd_error (child_ids (id + 1) (tchildren s))).
Proof. exact nav_first_child. Qed.
Print Assumptions C11_nav_first_child.

Theorem C11_nav_last_child :
  forall d t id par s,
  Arena d t -> In (id, par, s) (table t) ->
  last_child d id = Ok (hd_error (rev (child_ids (id + 1) (tchildren s)))).
Proof. exact nav_last_child. Qed.
Print Assumptions C11_nav_last_child.

Theorem C11_nav_prev_sibling :
  forall d t id par s,
  Arena d t -> In (id, par, s) (table t) ->
  prev_sibling d id = Ok (hd_error (rev (before N.eqb id (sibling_ids t id par)))).
Proof. exact nav_prev_sibling. Qed.
Print Assumptions C11_nav_prev_sibling.

Theorem C11_nav_next_sibling :
  forall d t id par s,
  Arena d t -> In (id, par, s) (table t) ->
  next_sibling d id = Ok (hd_error (after N.eqb id (sibling_ids t id par))).
Proof. exact nav_next_sibling. Qed.
Print Assumptions C11_nav_next_sibling.

Theorem C11_nav_descendants :
  forall d t id par s,
  Arena d t -> In (id, par, s) (table t) ->
  descendants d id = Ok {| it_lo := id; it_hi := id + size s |}.
Proof. exact nav_descendants. Qed.
Print Assumptions C11_nav_descendants.

Theorem C11_nav_children :
  forall d t id par s,
  Arena d t -> In (id, par, s) (table t) ->
  children_list d id = Ok (child_ids (id + 1) (tchildren s)).
Proof. exact nav_children. Qed.
Print Assumptions C11_nav_children.

Theorem C11_children_deque :
  forall d t id par s ops it,
  Arena d t -> In (id, par, s) (table t) ->
  Forall (fun o => o = DNext \/ o = DNextBack) ops ->
  children d id = Ok it ->
  run_children d ops it = Ok (deque_run ops (child_ids (id + 1) (tchildren s))).
Proof. exact children_deque. Qed.
Print Assumptions C11_children_deque.

Theorem C11_slice_deque :
  forall ops it, it_lo it <= it_hi it ->
  run_slice ops it = deque_run ops (sit_list it).
Proof. exact slice_deque. Qed.
Print Assumptions C11_slice_deque.

Theorem C11_nav_ancestors :
  forall d t id par s,
  Arena d t -> In (id, par, s) (table t) ->
  axis_list d AxAncestors id = Ok (id :: ancestor_ids t par).
Proof. exact nav_ancestors. Qed.
Print Assumptions C11_nav_ancestors.

Theorem C11_nav_next_siblings :
  forall d t id par s,
  Arena d t -> In (id, par, s) (table t) ->
  axis_list d AxNextSiblings id = Ok (id :: after N.eqb id (sibling_ids t id par)).
Proof. exact nav_next_siblings. Qed.
Print Assumptions C11_nav_next_siblings.

Theorem C11_nav_prev_siblings :
  forall d t id par s,
  Arena d t -> In (id, par, s) (table t) ->
  axis_list d AxPrevSiblings id = Ok (id :: rev (before N.eqb id (sibling_ids t id par))).
Proof. exact nav_prev_siblings. Qed.
Print Assumptions C11_nav_prev_siblings.

Theorem C11_nav_first_children :
  forall d t id par s,
  Arena d t -> In (id, par, s) (table t) ->
  axis_list d AxFirstChildren id = Ok (first_chain id s).
Proof. exact nav_first_children. Qed.
Print Assumptions C11_nav_first_children.

Theorem C11_nav_last_children :
  forall d t id par s,
  Arena d t -> In (id, par, s) (table t) ->
  axis_list d AxLastChildren id = Ok (last_chain id s).
Proof. exact nav_last_children. Qed.
Print Assumptions C11_nav_last_children.
