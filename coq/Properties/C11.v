(* C11 -- navigation and iterators agree with the tree: every parsed document is an arena (Arena' d t:
   the pre-order encoding of a well-formed document tree, NavParse.v), and on every such arena (Arena', the form parse yields: up to u32::MAX nodes) each link accessor, axis, element variant, text/tail, root_element
   and iterator of the model's API is the corresponding function of t, and the double-ended iterators
   implement the deque specification for every sequence of operations.
   Statements are pinned here (copied verbatim from the proof files by tools/pin_props.py);
   each is re-proved by `exact` and followed by Print Assumptions. *)
From Coq Require Import Ascii String.
From Coq Require Import List NArith Bool PeanoNat Sorted.
Import ListNotations.
From RX Require Import Generated.
From RX.Model Require Import Base CharClass Stream Tokenizer Doc Builder Parse Api.
From RX.Spec Require Import Tree Deque.
From RX.Proofs Require Import NavEnc NavLinks NavIter NavAxes NavElem NavParse.
From RX.Proofs Require ApiViewAcc ApiView ApiViewProofs.
From RX.Spec Require CstFull CstFullS6 CstFullS7.
From RX.Proofs Require CstNsView ApiUserCore ApiUserAcc ApiUserS7.
Open Scope N_scope.

(* ---- Proofs/ApiViewProofs.v ---- *)
Module G0.
Import RX.Proofs.ApiViewAcc. Import RX.Proofs.ApiView. Import RX.Proofs.ApiViewProofs.
Theorem C11_api_view_agrees :
  forall text opt d,
  valid_utf8_b text = true -> nodes_limit opt <= u32_max -> parse text opt = Ok d ->
  api_view text d = CstNsView.view text d.
Proof. exact api_view_agrees. Qed.
Print Assumptions C11_api_view_agrees.

Theorem C11_api_view_defined :
  forall text opt d,
  valid_utf8_b text = true -> nodes_limit opt <= u32_max -> parse text opt = Ok d ->
  exists vs, api_view_res text d = Ok vs /\ CstNsView.view text d = Some vs.
Proof. exact api_view_defined. Qed.
Print Assumptions C11_api_view_defined.

End G0.

(* ---- Proofs/ApiUserS7.v ---- *)
Module G1.
Import RX.Spec.CstFull. Import RX.Spec.CstFullS6. Import RX.Spec.CstFullS7. Import RX.Proofs.CstNsView. Import RX.Proofs.ApiViewAcc. Import RX.Proofs.ApiView. Import RX.Proofs.ApiUserCore. Import RX.Proofs.ApiUserAcc. Import RX.Proofs.ApiUserS7.
Theorem C11_user_nodes :
  forall (d : S7.doc) (opt : options) (doc : document),
       s7_ok d opt ->
       parse (S7.render d) opt = Ok doc ->
       descendants doc 0 = Ok {| it_lo := 0; it_hi := 1 + N.of_nat (Datatypes.length (S7.sem d)) |} /\
       sit_list {| it_lo := 0; it_hi := 1 + N.of_nat (Datatypes.length (S7.sem d)) |} =
       0 :: map id_of (seq 0 (Datatypes.length (S7.sem d))) /\
       node_type doc 0 = Ok NtRoot /\
       (forall (k : nat) (v : CstNs.vnode),
        nth_error (S7.sem d) k = Some v -> node_type doc (id_of k) = Ok (ntype_of v)).
Proof. exact user_nodes. Qed.
Print Assumptions C11_user_nodes.

Theorem C11_user_root_element :
  forall (d : S7.doc) (opt : options) (doc : document),
       s7_ok d opt ->
       parse (S7.render d) opt = Ok doc ->
       forall (name : qname) (ens : list uentry) (ws : Scope.bytes)
         (body : option (list uitem * Scope.bytes)),
       d_root (S6.x_main d) = IElem name ens ws body ->
       let m := (Datatypes.length (S6.prolog_items d) + Datatypes.length (d_before (S6.x_main d)))%nat in
       root_element doc = Ok (id_of m) /\
       (forall (k : nat) (v : CstNs.vnode),
        (k < m)%nat -> nth_error (S7.sem d) k = Some v -> is_velem v = false) /\
       (exists
          (attrs : list (option Scope.bytes * Scope.bytes * Scope.bytes)) (nss : list Scope.binding) 
        (n : nat),
          nth_error (S7.sem d) m =
          Some
            (CstNs.VElem (CstNs.ns_of (Scope.resolve_elem nss (utf8s (q_prefix name))))
               (utf8s (q_local name)) attrs nss n)).
Proof. exact user_root_element. Qed.
Print Assumptions C11_user_root_element.

Theorem C11_user_children :
  forall (d : S7.doc) (opt : options) (doc : document),
       s7_ok d opt ->
       parse (S7.render d) opt = Ok doc ->
       forall (k : nat) (ns : option Text.bytes) (local : Text.bytes)
         (attrs : list (option Text.bytes * Text.bytes * Text.bytes)) (nss : list Scope.binding) 
         (n : nat),
       nth_error (S7.sem d) k = Some (CstNs.VElem ns local attrs nss n) ->
       exists ch : list N, children_list doc (id_of k) = Ok ch /\ Datatypes.length ch = n.
Proof. exact user_children. Qed.
Print Assumptions C11_user_children.

Theorem C11_user_text :
  forall (d : S7.doc) (opt : options) (doc : document),
       s7_ok d opt ->
       parse (S7.render d) opt = Ok doc ->
       forall (k : nat) (bs : Scope.bytes),
       nth_error (S7.sem d) k = Some (CstNs.VText bs) ->
       exists st : storage, text_storage doc (id_of k) = Ok (Some st) /\ storage_bytes (S7.render d) st = bs.
Proof. exact user_text. Qed.
Print Assumptions C11_user_text.

Theorem C11_user_comment :
  forall (d : S7.doc) (opt : options) (doc : document),
       s7_ok d opt ->
       parse (S7.render d) opt = Ok doc ->
       forall (k : nat) (bs : Scope.bytes),
       nth_error (S7.sem d) k = Some (CstNs.VComment bs) ->
       exists st : storage, text_storage doc (id_of k) = Ok (Some st) /\ storage_bytes (S7.render d) st = bs.
Proof. exact user_comment. Qed.
Print Assumptions C11_user_comment.

Theorem C11_user_pi :
  forall (d : S7.doc) (opt : options) (doc : document),
       s7_ok d opt ->
       parse (S7.render d) opt = Ok doc ->
       forall (k : nat) (target : Scope.bytes) (value : option Scope.bytes),
       nth_error (S7.sem d) k = Some (CstNs.VPI target value) ->
       pi (S7.render d) doc (id_of k) = Ok (Some (target, value)).
Proof. exact user_pi. Qed.
Print Assumptions C11_user_pi.

End G1.

(* ---- Proofs/NavLinks.v ---- *)
Theorem C11_table_ids :
  forall t,
  map (fun e => fst (fst e)) (table t) = N_range 0 (N.to_nat (size t)).
Proof. exact table_ids. Qed.
Print Assumptions C11_table_ids.

Theorem C11_nav_parent' :
  forall d t id par s,
  Arena' d t -> In (id, par, s) (table t) -> parent d id = Ok par.
Proof. exact nav_parent'. Qed.
Print Assumptions C11_nav_parent'.

Theorem C11_nav_has_children' :
  forall d t id par s,
  Arena' d t -> In (id, par, s) (table t) ->
  has_children d id = Ok (negb (match tchildren s with [] => true | _ => false end)).
Proof. exact nav_has_children'. Qed.
Print Assumptions C11_nav_has_children'.

Theorem C11_nav_first_child' :
  forall d t id par s,
  Arena' d t -> In (id, par, s) (table t) ->
  first_child d id = Ok (hd_error (child_ids (id + 1) (tchildren s))).
Proof. exact nav_first_child'. Qed.
Print Assumptions C11_nav_first_child'.

Theorem C11_nav_last_child' :
  forall d t id par s,
  Arena' d t -> In (id, par, s) (table t) ->
  last_child d id = Ok (hd_error (rev (child_ids (id + 1) (tchildren s)))).
Proof. exact nav_last_child'. Qed.
Print Assumptions C11_nav_last_child'.

Theorem C11_nav_prev_sibling' :
  forall d t id par s,
  Arena' d t -> In (id, par, s) (table t) ->
  prev_sibling d id = Ok (hd_error (rev (before N.eqb id (sibling_ids t id par)))).
Proof. exact nav_prev_sibling'. Qed.
Print Assumptions C11_nav_prev_sibling'.

Theorem C11_nav_next_sibling' :
  forall d t id par s,
  Arena' d t -> In (id, par, s) (table t) ->
  next_sibling d id = Ok (hd_error (after N.eqb id (sibling_ids t id par))).
Proof. exact nav_next_sibling'. Qed.
Print Assumptions C11_nav_next_sibling'.

Theorem C11_nav_descendants' :
  forall d t id par s,
  Arena' d t -> In (id, par, s) (table t) ->
  descendants d id = Ok {| it_lo := id; it_hi := id + size s |}.
Proof. exact nav_descendants'. Qed.
Print Assumptions C11_nav_descendants'.

(* ---- Proofs/NavIter.v ---- *)
Theorem C11_nav_children' :
  forall d t id par s,
  Arena' d t -> In (id, par, s) (table t) ->
  children_list d id = Ok (child_ids (id + 1) (tchildren s)).
Proof. exact nav_children'. Qed.
Print Assumptions C11_nav_children'.

Theorem C11_children_deque' :
  forall d t id par s ops it,
  Arena' d t -> In (id, par, s) (table t) ->
  Forall (fun o => o = DNext \/ o = DNextBack) ops ->
  children d id = Ok it ->
  run_children d ops it = Ok (deque_run ops (child_ids (id + 1) (tchildren s))).
Proof. exact children_deque'. Qed.
Print Assumptions C11_children_deque'.

Theorem C11_slice_deque :
  forall ops it, it_lo it <= it_hi it ->
  run_slice ops it = deque_run ops (sit_list it).
Proof. exact slice_deque. Qed.
Print Assumptions C11_slice_deque.

(* ---- Proofs/NavAxes.v ---- *)
Theorem C11_nav_ancestors' :
  forall d t id par s,
  Arena' d t -> In (id, par, s) (table t) ->
  axis_list d AxAncestors id = Ok (id :: ancestor_ids t par).
Proof. exact nav_ancestors'. Qed.
Print Assumptions C11_nav_ancestors'.

Theorem C11_nav_next_siblings' :
  forall d t id par s,
  Arena' d t -> In (id, par, s) (table t) ->
  axis_list d AxNextSiblings id = Ok (id :: after N.eqb id (sibling_ids t id par)).
Proof. exact nav_next_siblings'. Qed.
Print Assumptions C11_nav_next_siblings'.

Theorem C11_nav_prev_siblings' :
  forall d t id par s,
  Arena' d t -> In (id, par, s) (table t) ->
  axis_list d AxPrevSiblings id = Ok (id :: rev (before N.eqb id (sibling_ids t id par))).
Proof. exact nav_prev_siblings'. Qed.
Print Assumptions C11_nav_prev_siblings'.

Theorem C11_nav_first_children' :
  forall d t id par s,
  Arena' d t -> In (id, par, s) (table t) ->
  axis_list d AxFirstChildren id = Ok (first_chain id s).
Proof. exact nav_first_children'. Qed.
Print Assumptions C11_nav_first_children'.

Theorem C11_nav_last_children' :
  forall d t id par s,
  Arena' d t -> In (id, par, s) (table t) ->
  axis_list d AxLastChildren id = Ok (last_chain id s).
Proof. exact nav_last_children'. Qed.
Print Assumptions C11_nav_last_children'.

(* ---- Proofs/NavParse.v ---- *)
Theorem C11_parse_default_arena :
  forall text d,
  parse_default text = Ok d -> exists t, Arena' d t /\ wf_doc_tree t.
Proof. exact parse_default_arena. Qed.
Print Assumptions C11_parse_default_arena.

Theorem C11_parse_arena' :
  forall text opt d,
  parse text opt = Ok d -> len_N (d_nodes d) <= 4294967295 ->
  exists t, Arena' d t /\ wf_doc_tree t.
Proof. exact parse_arena'. Qed.
Print Assumptions C11_parse_arena'.

Theorem C11_parse_ids_dense' :
  forall text opt d,
  parse text opt = Ok d -> len_N (d_nodes d) <= 4294967295 ->
  exists t, Arena' d t /\
    map (fun e => fst (fst e)) (table t) = N_range 0 (N.to_nat (len_N (d_nodes d))).
Proof. exact parse_ids_dense'. Qed.
Print Assumptions C11_parse_ids_dense'.

Theorem C11_parse_descendants_preorder' :
  forall text opt d,
  parse text opt = Ok d -> len_N (d_nodes d) <= 4294967295 ->
  forall id, id < len_N (d_nodes d) ->
  exists hi, descendants d id = Ok {| it_lo := id; it_hi := hi |} /\
             id < hi /\ hi <= len_N (d_nodes d) /\
             sit_list {| it_lo := id; it_hi := hi |} = N_range id (N.to_nat (hi - id)) /\
             forall ops, run_slice ops {| it_lo := id; it_hi := hi |} =
                         deque_run ops (N_range id (N.to_nat (hi - id))).
Proof. exact parse_descendants_preorder'. Qed.
Print Assumptions C11_parse_descendants_preorder'.

Theorem C11_parse_children_rev' :
  forall text opt d,
  parse text opt = Ok d -> len_N (d_nodes d) <= 4294967295 ->
  forall id it, id < len_N (d_nodes d) -> children d id = Ok it ->
  exists l, children_list d id = Ok l /\ NoDup l /\
    forall ops, Forall (fun o => o = DNext \/ o = DNextBack) ops ->
                run_children d ops it = Ok (deque_run ops l).
Proof. exact parse_children_rev'. Qed.
Print Assumptions C11_parse_children_rev'.

Theorem C11_parse_root_element' :
  forall text opt d,
  parse text opt = Ok d -> len_N (d_nodes d) <= 4294967295 ->
  exists i, root_element d = Ok i /\ parent d i = Ok (Some 0).
Proof. exact parse_root_element'. Qed.
Print Assumptions C11_parse_root_element'.

Theorem C11_parse_nav_total' :
  forall text opt d,
  parse text opt = Ok d -> len_N (d_nodes d) <= 4294967295 ->
  forall id, id < len_N (d_nodes d) -> nav_total d id.
Proof. exact parse_nav_total'. Qed.
Print Assumptions C11_parse_nav_total'.

(* ---- Proofs/NavElem.v ---- *)
Theorem C11_nav_has_siblings' :
  forall d t id par s,
  Arena' d t -> In (id, par, s) (table t) ->
  has_siblings d id = Ok (negb (length (sibling_ids t id par) <=? 1)%nat).
Proof. exact nav_has_siblings'. Qed.
Print Assumptions C11_nav_has_siblings'.

Theorem C11_nav_element_variants_exclude_self' :
  forall d t id par s,
  Arena' d t -> In (id, par, s) (table t) ->
  ~ In id (ancestor_ids t par) /\
  ~ In id (before N.eqb id (sibling_ids t id par)) /\
  ~ In id (after N.eqb id (sibling_ids t id par)) /\
  ~ In id (child_ids (id + 1) (tchildren s)).
Proof. exact nav_element_variants_exclude_self'. Qed.
Print Assumptions C11_nav_element_variants_exclude_self'.

Theorem C11_nav_parent_element' :
  forall d t id par s,
  Arena' d t -> In (id, par, s) (table t) ->
  parent_element d id = Ok (first_elem t (ancestor_ids t par)).
Proof. exact nav_parent_element'. Qed.
Print Assumptions C11_nav_parent_element'.

Theorem C11_nav_prev_sibling_element' :
  forall d t id par s,
  Arena' d t -> In (id, par, s) (table t) ->
  prev_sibling_element d id =
  Ok (first_elem t (rev (before N.eqb id (sibling_ids t id par)))).
Proof. exact nav_prev_sibling_element'. Qed.
Print Assumptions C11_nav_prev_sibling_element'.

Theorem C11_nav_next_sibling_element' :
  forall d t id par s,
  Arena' d t -> In (id, par, s) (table t) ->
  next_sibling_element d id = Ok (first_elem t (after N.eqb id (sibling_ids t id par))).
Proof. exact nav_next_sibling_element'. Qed.
Print Assumptions C11_nav_next_sibling_element'.

Theorem C11_nav_first_element_child' :
  forall d t id par s,
  Arena' d t -> In (id, par, s) (table t) ->
  first_element_child d id = Ok (first_elem t (child_ids (id + 1) (tchildren s))).
Proof. exact nav_first_element_child'. Qed.
Print Assumptions C11_nav_first_element_child'.

Theorem C11_nav_last_element_child' :
  forall d t id par s,
  Arena' d t -> In (id, par, s) (table t) ->
  last_element_child d id = Ok (first_elem t (rev (child_ids (id + 1) (tchildren s)))).
Proof. exact nav_last_element_child'. Qed.
Print Assumptions C11_nav_last_element_child'.

Theorem C11_nav_root_element' :
  forall d t i,
  Arena' d t -> first_elem t (child_ids 1 (tchildren t)) = Some i -> root_element d = Ok i.
Proof. exact nav_root_element'. Qed.
Print Assumptions C11_nav_root_element'.

Theorem C11_nav_root_element_none' :
  forall d t,
  Arena' d t -> first_elem t (child_ids 1 (tchildren t)) = None ->
  root_element d = Panic P_unwrap.
Proof. exact nav_root_element_none'. Qed.
Print Assumptions C11_nav_root_element_none'.

Theorem C11_nav_text_storage' :
  forall d t id par s nd,
  Arena' d t -> In (id, par, s) (table t) -> node_data_of d id = Ok nd ->
  text_storage d id =
  Ok (match nd_kind nd with
      | KElement _ _ _ _ =>
        match hd_error (child_ids (id + 1) (tchildren s)) with
        | Some c =>
          match get_node d c with
          | Some cnd => match nd_kind cnd with KText st => Some st | _ => None end
          | None => None
          end
        | None => None
        end
      | KComment sl => Some (Borrowed (SIn sl))
      | KText st => Some st
      | _ => None
      end).
Proof. exact nav_text_storage'. Qed.
Print Assumptions C11_nav_text_storage'.

Theorem C11_nav_tail_storage' :
  forall d t id par s nd,
  Arena' d t -> In (id, par, s) (table t) -> node_data_of d id = Ok nd ->
  tail_storage d id =
  Ok (match nd_kind nd with
      | KElement _ _ _ _ =>
        match hd_error (after N.eqb id (sibling_ids t id par)) with
        | Some c =>
          match get_node d c with
          | Some cnd => match nd_kind cnd with KText st => Some st | _ => None end
          | None => None
          end
        | None => None
        end
      | _ => None
      end).
Proof. exact nav_tail_storage'. Qed.
Print Assumptions C11_nav_tail_storage'.
