(* C19 -- the `positions` feature only adds API surface: the fields it removes (NodeData.range,
   AttributeData.range / qname_len / eq_len) are write-only for the parser.  A builder that strips them after
   every token produces exactly the stripped document and the same errors, for the tokenizer run and for the
   whole parse (parse_np_correct).  Determinism itself holds of the model by construction (it is a function)
   and is decided for the code by the feature-set / repetition correspondence.  The premise -- which fields and
   statements the features gate -- is regenerated from every cfg(feature = ..) attribute of the source (GeneratedFeatures.v)
   and compared with what strip_* erases (Proofs/FeatureGates.v).
   Statements are pinned here (copied verbatim from the proof files by tools/pin_props.py);
   each is re-proved by `exact` and followed by Print Assumptions. *)
From Coq Require Import Ascii String.
From Coq Require Import List NArith Bool PeanoNat Sorted.
Import ListNotations.
From RX Require Import Generated.
From RX.Model Require Import Base CharClass Stream Tokenizer Doc Builder Parse Api.
From RX.Proofs Require Import OptionsParam PositionsNonInterf.
From RX Require GeneratedFeatures.
From RX.Proofs Require FeatureGates.
Open Scope N_scope.

(* ---- Proofs/PositionsNonInterf.v ---- *)
Theorem C19_token_strip :
  forall text tok c1 c2, strip_ctx c1 = strip_ctx c2 ->
  strip_res (token text tok c1) = strip_res (token text tok c2).
Proof. exact token_strip. Qed.
Print Assumptions C19_token_strip.

Theorem C19_parse_document_strip :
  forall text (ev' : Tokenizer.token -> context -> res context) dtd c0,
  (forall tok c, ev' tok c = strip_res (token text tok c)) ->
  parse_document text context ev' dtd (strip_ctx c0) =
  strip_res (parse_document text context (token text) dtd c0).
Proof. exact parse_document_strip. Qed.
Print Assumptions C19_parse_document_strip.

Theorem C19_parse_strip_invariant :
  forall text opt d, parse text opt = Ok d ->
  forall (ev' : Tokenizer.token -> context -> res context),
    (forall tok c, ev' tok c = strip_res (token text tok c)) ->
    exists c0 c', init_context text opt = Ok c0 /\
      parse_document text context ev' (allow_dtd opt) (strip_ctx c0) = Ok c' /\
      c_doc c' = strip_doc d.
Proof. exact parse_strip_invariant. Qed.
Print Assumptions C19_parse_strip_invariant.

Theorem C19_parse_strip_errors :
  forall text dtd c0 e (ev' : Tokenizer.token -> context -> res context),
  (forall tok c, ev' tok c = strip_res (token text tok c)) ->
  parse_document text context (token text) dtd c0 = Err e ->
  parse_document text context ev' dtd (strip_ctx c0) = Err e.
Proof. exact parse_strip_errors. Qed.
Print Assumptions C19_parse_strip_errors.

Theorem C19_parse_np_correct :
  forall text opt (ev' : Tokenizer.token -> context -> res context),
  (forall tok c, ev' tok c = strip_res (token text tok c)) ->
  parse_np text ev' opt =
  match parse text opt with
  | Ok d => Ok (strip_doc d) | Err e => Err e | Panic p => Panic p | OutOfFuel => OutOfFuel
  end.
Proof. exact parse_np_correct. Qed.
Print Assumptions C19_parse_np_correct.

(* ---- Proofs/FeatureGates.v ---- *)
Module G1.
Import RX.GeneratedFeatures. Import RX.Proofs.FeatureGates. Local Open Scope string_scope.
Theorem C19_gated_fields_are_the_stripped_ones :
  positions_gated_fields = stripped_fields.
Proof. exact gated_fields_are_the_stripped_ones. Qed.
Print Assumptions C19_gated_fields_are_the_stripped_ones.

Theorem C19_strip_node_only_range :
  forall nd r, strip_node (Build_node_data (nd_parent nd) (nd_prev_sibling nd) (nd_next_subtree nd)
                                                      (nd_last_child nd) (nd_kind nd) r) = strip_node nd.
Proof. exact strip_node_only_range. Qed.
Print Assumptions C19_strip_node_only_range.

Theorem C19_strip_attr_only_positions :
  forall a r q e, strip_attr (Build_attr_data (ad_ns_idx a) (ad_local a) (ad_value a) r q e) = strip_attr a.
Proof. exact strip_attr_only_positions. Qed.
Print Assumptions C19_strip_attr_only_positions.

Theorem C19_gated_statements :
  positions_gated_field_writes = 1%nat /\ positions_ungated_drops = 2%nat.
Proof. exact gated_statements. Qed.
Print Assumptions C19_gated_statements.

Theorem C19_std_gates :
  std_gated_items = ["extern crate std;"; "impl std::error::Error for Error"].
Proof. exact std_gates. Qed.
Print Assumptions C19_std_gates.

End G1.
