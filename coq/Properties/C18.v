(* C18 -- borrowed strings are slices of the input; undecoded content is not copied.  In the model a
   borrowed string is an offset pair; every such pair in a parsed document is a valid slice of the input
   (start <= end <= len, both on char boundaries), the only 'static strings are those of the xml
   namespace, and the fast paths keep text / CDATA / attribute values borrowed.  Whole documents on the fragment of
   Spec/Cst.v (parse_render_storage): every Text node and every attribute value is stored Borrowed with exactly the
   span where it is written, and every name (tag, attribute, PI target, PI value, comment text) is the slice of its
   written occurrence (shapes c / attr_spans c, CstRangeDefs.v).  On the fragment of Spec/CstText.v
   (parse_render_storage_t; tshapes / tattr_spans in CstRangeTDefs.v): a run that is ONE literal without CR is Borrowed
   with exactly its span; a run that is ONE CDATA section without CR is Borrowed with the span of its content; every other
   run is Owned with the decoded text; an attribute value that is empty or one literal without TAB / LF / CR is Borrowed
   with the span between the quotes, every other is Owned with the normalised value -- undecoded content is never copied.
   Statements are pinned here (copied verbatim from the proof files by tools/pin_props.py);
   each is re-proved by `exact` and followed by Print Assumptions. *)
From Coq Require Import Ascii String.
From Coq Require Import List NArith Bool PeanoNat Sorted.
Import ListNotations.
From RX Require Import Generated.
From RX.Model Require Import Base CharClass Stream Tokenizer Doc Builder Parse Api.
From RX.Spec Require Cst.
From RX.Spec Require CstText CstEnt.
From RX.Proofs Require Import BorrowLocal BorrowTokenizer BorrowParse TextMerge CstRangeDefs CstRangeMain CstRangeTDefs CstRangeTMain CstEntDoc CstRangeEDefs CstRangeEMain.
From RX.Spec Require CstFull CstFullS5.
From RX.Proofs Require CstRangeFDefs CstRangeFS2 CstRangeG5Defs CstRangeG5.
From RX.Spec Require CstFullS4 CstFullS6.
From RX.Proofs Require CstRangeG6Defs CstRangeG6.
From RX.Spec Require CstFullS10 CstFullS11.
From RX.Proofs Require CstRangeG10 CstRangeG11.
Open Scope N_scope.

(* ---- Proofs/BorrowLocal.v ---- *)
Theorem C18_mk_slice_valid :
  forall text a e s,
  mk_slice text a e = Ok s -> valid_slice text s /\ sl_start s = a /\ sl_end s = e.
Proof. exact mk_slice_valid. Qed.
Print Assumptions C18_mk_slice_valid.

Theorem C18_fast_path_text :
  forall text pc t r c,
  existsb (fun x => (x =? 38) || (x =? 13)) (slice_bytes text t) = false ->
  process_text_with text pc t r c = append_text (CowBorrowed t) r c.
Proof. exact fast_path_text. Qed.
Print Assumptions C18_fast_path_text.

Theorem C18_fast_path_attr :
  forall text value c,
  existsb (fun x => (x =? 38) || (x =? 9) || (x =? 10) || (x =? 13)) (slice_bytes text value) = false ->
  normalize_attribute text value c = Ok (Borrowed (SIn value), c).
Proof. exact fast_path_attr. Qed.
Print Assumptions C18_fast_path_attr.

Theorem C18_fast_path_cdata :
  forall text txt r c,
  mem_b 13 (slice_bytes text txt) = false ->
  process_cdata text txt r c = append_text (CowBorrowed txt) r c.
Proof. exact fast_path_cdata. Qed.
Print Assumptions C18_fast_path_cdata.

(* ---- Proofs/BorrowTokenizer.v ---- *)
Module G1.
Local Notation token := Tokenizer.token.
Theorem C18_tokenizer_tokens_ok :
  forall text (C : Type) (ev : token -> C -> res C) (P : C -> Prop) dtd c c',
  (forall tok c0 c1, token_ok text tok -> P c0 -> ev tok c0 = Ok c1 -> P c1) ->
  P c -> parse_document text C ev dtd c = Ok c' -> P c'.
Proof. exact tokenizer_tokens_ok. Qed.
Print Assumptions C18_tokenizer_tokens_ok.

Theorem C18_tokenizer_content_tokens_ok :
  forall text (C : Type) (ev : token -> C -> res C) (P : C -> Prop) s c s' c',
  (forall tok c0 c1, token_ok text tok -> P c0 -> ev tok c0 = Ok c1 -> P c1) ->
  P c -> parse_content text C ev s c = Ok (s', c') -> P c'.
Proof. exact tokenizer_content_tokens_ok. Qed.
Print Assumptions C18_tokenizer_content_tokens_ok.

End G1.

(* ---- Proofs/BorrowParse.v ---- *)
Theorem C18_token_preserves_borrows :
  forall text tok c c',
  token_ok text tok -> ctx_borrows_ok text c -> token text tok c = Ok c' -> ctx_borrows_ok text c'.
Proof. exact token_preserves_borrows. Qed.
Print Assumptions C18_token_preserves_borrows.

Theorem C18_parse_borrows_ok :
  forall text opt d, parse text opt = Ok d -> doc_borrows_ok text d.
Proof. exact parse_borrows_ok. Qed.
Print Assumptions C18_parse_borrows_ok.

Theorem C18_static_only_xml :
  forall text opt d v, parse text opt = Ok d -> In v (d_ns_values d) ->
  (exists b0, ns_name v = Some (SStatic b0)) \/ (exists b0, ns_uri v = Borrowed (SStatic b0)) -> v = xml_ns.
Proof. exact static_only_xml. Qed.
Print Assumptions C18_static_only_xml.

(* ---- Proofs/TextMerge.v ---- *)
Theorem C18_single_fragment_storage :
  forall text t r c c0 c2, c_after_text c = [] ->
  append_text t r c = Ok c0 -> reset_after_text text c0 = Ok c2 ->
  exists nd, nth_N (d_nodes (c_doc c2)) (len_N (d_nodes (c_doc c))) = Some nd /\
    nd_kind nd = KText (match t with CowBorrowed s => Borrowed (SIn s) | CowOwned bs => Owned bs end).
Proof. exact single_fragment_storage. Qed.
Print Assumptions C18_single_fragment_storage.

(* ---- Proofs/CstRangeMain.v ---- *)
Theorem C18_parse_render_storage :
  forall (c : Cst.doc) (opt : options) d,
  Cst.wf_doc c = true ->
  N.of_nat (length (Cst.sem c)) < nodes_limit opt ->
  N.of_nat (length (Cst.render c)) <= u32_max ->
  parse (Cst.render c) opt = Ok d ->
  (* every node holds exactly the slices of its written occurrence; texts are Borrowed *)
  Forall2 stored_as (map nd_kind (tl (d_nodes d))) (shapes c) /\
  (* every attribute: the local name is the slice of the written name, the value is Borrowed
     with exactly the slice between the quotes *)
  map (fun a => (ad_local a, ad_value a)) (d_attrs d) =
  map (fun s => (slice_of (as_qname s), Borrowed (SIn (slice_of (as_value s))))) (attr_spans c).
Proof. exact parse_render_storage. Qed.
Print Assumptions C18_parse_render_storage.

(* ---- Proofs/CstRangeTMain.v ---- *)
Module G5.
Module T := CstText.
Theorem C18_parse_render_storage_t :
  forall (c : T.doc) (opt : options) d,
  T.wf_doc c = true ->
  N.of_nat (length (T.sem c)) < nodes_limit opt ->
  N.of_nat (length (T.render c)) <= u32_max ->
  parse (T.render c) opt = Ok d ->
  (* every node holds exactly what [tshapes] says: the slices of its written occurrence; a Text node
     is Borrowed with the span of its literal / of the content of its CDATA section, or Owned with
     the decoded text *)
  Forall2 stored_as_t (map nd_kind (tl (d_nodes d))) (tshapes c) /\
  (* every attribute: the local name is the slice of the written name; the value is Borrowed with
     the span between the quotes, or Owned with the normalised value *)
  Forall2 attr_stored (d_attrs d) (tattr_spans c).
Proof. exact parse_render_storage_t. Qed.
Print Assumptions C18_parse_render_storage_t.

End G5.

(* ---- Proofs/CstRangeEMain.v ---- *)
Module G6.
Module E := CstEnt.
Theorem C18_parse_render_storage_e :
  forall (c : E.doc) (opt : options) d,
  E.wf_doc c = true ->
  etext_only c = true ->                                       (* PARTIAL: every declared entity is character data *)
  allow_dtd opt = true ->
  N.of_nat (length (E.sem c)) < nodes_limit opt ->
  N.of_nat (length (E.render c)) <= u32_max ->
  parse (E.render c) opt = Ok d ->
  (* every node holds exactly what [eshapes] says: the slices of its written occurrence; a Text node
     is Borrowed with the span of its only fragment -- a literal or the content of a CDATA section
     in the body, or the literal value of an entity inside the DOCTYPE -- or Owned *)
  Forall2 stored_as_e (map nd_kind (tl (d_nodes d))) (eshapes c) /\
  (* every attribute: its range, the slice of its name; the value is Borrowed with the span between
     the quotes (no '&', TAB, LF, CR), or Owned *)
  Forall2 attr_stored_e (d_attrs d) (eattr_spans c).
Proof. exact parse_render_storage_e. Qed.
Print Assumptions C18_parse_render_storage_e.

End G6.

(* ---- Proofs/CstRangeFS2.v ---- *)
Module G7.
Import RX.Spec.CstFull. Import RX.Proofs.CstRangeFDefs. Import RX.Proofs.CstRangeFS2.
Theorem C18_parse_render_storage_f2 :
  forall (c : S2.doc) (opt : options) d,
  S2.wf_doc c = true ->
  N.of_nat (length (S2.sem c)) < nodes_limit opt ->
  N.of_nat (length (S2.render c)) <= u32_max ->
  S2.distinct_decls_le c (N.to_nat 65535) ->
  1 + N.of_nat (S2.ns_cost c) <= u32_max ->
  parse (S2.render c) opt = Ok d ->
  (* every node holds exactly what [fshapes2] says: a tag name is the slice of the written LOCAL part
     (after the colon); comments, PIs and text as in CstRangeT *)
  Forall2 stored_as_f (map nd_kind (tl (d_nodes d))) (fshapes2 c) /\
  (* every ordinary attribute: the local name is the slice of the written local part; the value is
     Borrowed with the span between the quotes, or Owned with the normalised value *)
  Forall2 attr_stored_f (d_attrs d) (fattr_spans2 c) /\
  (* the namespace table: the built-in xml entry (the only one with static strings), then one entry
     per distinct declared (prefix, URI) pair, the first declaration of the pair in document order:
     the prefix is the slice of the written prefix; the URI is Borrowed with the written span of the
     value when that is written without '&', TAB, LF, CR, otherwise Owned with the normalised value *)
  d_ns_values d = xml_ns :: map ns_entry_of (fns_table2 c).
Proof. exact parse_render_storage_f2. Qed.
Print Assumptions C18_parse_render_storage_f2.

End G7.

(* ---- Proofs/CstRangeG5.v ---- *)
Module G8.
Import RX.Spec.CstFull. Import RX.Spec.CstFullS5. Import RX.Proofs.CstRangeFDefs. Import RX.Proofs.CstRangeFS2. Import RX.Proofs.CstRangeG5Defs. Import RX.Proofs.CstRangeG5.
Theorem C18_parse_render_storage_f5 :
  forall (d : S5.doc) (opt : options) doc,
  S5.wf_doc d = true -> (S5.has_dtd d = true -> allow_dtd opt = true) ->
  N.of_nat (length (S5.sem d)) < nodes_limit opt ->
  N.of_nat (length (S5.render d)) <= u32_max ->
  S5.distinct_decls_le d (N.to_nat 65535) ->
  1 + N.of_nat (S5.ns_cost d) <= u32_max ->
  parse (S5.render d) opt = Ok doc ->
  (* every node holds exactly what [fshapes5] says: comments and PIs (those of the prolog and of the
     internal subset too) hold slices of the input; a Text node is Borrowed with the span of its only
     fragment -- a literal or a CDATA section of the document, or the literal value of an entity inside
     the internal subset, through any nesting of references that add nothing else -- or Owned with its text *)
  Forall2 stored_as_f (map nd_kind (tl (d_nodes doc))) (fshapes5 d) /\
  (* every ordinary attribute: local name = slice of the written local part; a value with a
     reference is Owned with the normalised value *)
  Forall2 attr_stored_f (d_attrs doc) (fattr_spans5 d) /\
  (* the namespace table, as in stage S2; a URI written with an entity reference is Owned *)
  d_ns_values doc = xml_ns :: map ns_entry_of (fns_table5 d).
Proof. exact parse_render_storage_f5. Qed.
Print Assumptions C18_parse_render_storage_f5.

End G8.

(* ---- Proofs/CstRangeG11.v ---- *)
Module G9.
Import RX.Spec.CstFull. Import RX.Spec.CstFullS4. Import RX.Spec.CstFullS6. Import RX.Spec.CstFullS11. Import RX.Proofs.CstRangeFDefs. Import RX.Proofs.CstRangeFS2. Import RX.Proofs.CstRangeG6Defs. Import RX.Proofs.CstRangeG11.
Theorem C18_parse_render_storage_f11 :
  forall (d : S6.doc) (opt : options) doc,
  S11.wf_doc d = true -> (S6.has_dtd d = true -> allow_dtd opt = true) ->
  N.of_nat (length (S6.sem d)) < nodes_limit opt ->
  N.of_nat (length (S6.sem d)) < u32_max ->
  N.of_nat (S6.nattrs d) < u32_max ->
  S6.distinct_decls_le d (N.to_nat 65535) ->
  1 + N.of_nat (S6.ns_cost d) <= u32_max ->
  parse (S6.render d) opt = Ok doc ->
  (* every node holds what [fshapes6] says: the names of elements, comments and PIs are slices of the
     input -- of the literal of the declaration for what a markup value stands for --; a Text node is
     Borrowed with the span of its only fragment (a literal or a CDATA section of the document or of a
     markup value, or the literal value of a character-data entity), or Owned *)
  Forall2 stored_as_6 (map nd_kind (tl (d_nodes doc))) (fshapes6 d) /\
  (* every ordinary attribute: local name = slice of the written local part; a value with a
     reference is Owned with the normalised value *)
  Forall2 attr_stored_f (d_attrs doc) (fattr_spans6 d) /\
  (* the namespace table: one entry per distinct (prefix, URI) pair in the order in which the
     declarations are read; prefix and URI are slices of where the FIRST such declaration is written *)
  d_ns_values doc = xml_ns :: map ns_entry_of (fns_table6 d).
Proof. exact parse_render_storage_f11. Qed.
Print Assumptions C18_parse_render_storage_f11.

End G9.

(* ---- Proofs/CstRangeG10.v ---- *)
Module G10.
Import RX.Spec.CstFull. Import RX.Spec.CstFullS4. Import RX.Spec.CstFullS6. Import RX.Spec.CstFullS10. Import RX.Proofs.CstRangeFDefs. Import RX.Proofs.CstRangeFS2. Import RX.Proofs.CstRangeG6Defs. Import RX.Proofs.CstRangeG10.
Theorem C18_parse_render_storage_f10 :
  forall (d : S6.doc) (opt : options) doc,
  S10.wf_doc d = true -> (S6.has_dtd d = true -> allow_dtd opt = true) ->
  N.of_nat (length (S6.sem d)) < nodes_limit opt ->
  N.of_nat (length (S6.sem d)) < u32_max ->
  N.of_nat (S6.nattrs d) < u32_max ->
  S6.distinct_decls_le d (N.to_nat 65535) ->
  1 + N.of_nat (S6.ns_cost d) <= u32_max ->
  parse (S6.render d) opt = Ok doc ->
  (* every node holds what [fshapes6] says: the names of elements, comments and PIs are slices of the
     input -- of the literal of the declaration for what a markup value stands for --; a Text node is
     Borrowed with the span of its only fragment (a literal or a CDATA section of the document or of a
     markup value, or the literal value of a character-data entity), or Owned *)
  Forall2 stored_as_6 (map nd_kind (tl (d_nodes doc))) (fshapes6 d) /\
  (* every ordinary attribute: local name = slice of the written local part; a value with a
     reference is Owned with the normalised value *)
  Forall2 attr_stored_f (d_attrs doc) (fattr_spans6 d) /\
  (* the namespace table: one entry per distinct (prefix, URI) pair in the order in which the
     declarations are read; prefix and URI are slices of where the FIRST such declaration is written *)
  d_ns_values doc = xml_ns :: map ns_entry_of (fns_table6 d).
Proof. exact parse_render_storage_f10. Qed.
Print Assumptions C18_parse_render_storage_f10.

End G10.

(* ---- Proofs/CstRangeG6.v ---- *)
Module G11.
Import RX.Spec.CstFull. Import RX.Spec.CstFullS4. Import RX.Spec.CstFullS6. Import RX.Proofs.CstRangeFDefs. Import RX.Proofs.CstRangeFS2. Import RX.Proofs.CstRangeG6Defs. Import RX.Proofs.CstRangeG6.
Theorem C18_parse_render_storage_f6 :
  forall (d : S6.doc) (opt : options) doc,
  S6.wf_doc d = true -> (S6.has_dtd d = true -> allow_dtd opt = true) ->
  N.of_nat (length (S6.sem d)) < nodes_limit opt ->
  N.of_nat (length (S6.sem d)) < u32_max ->
  N.of_nat (S6.nattrs d) < u32_max ->
  S6.distinct_decls_le d (N.to_nat 65535) ->
  1 + N.of_nat (S6.ns_cost d) <= u32_max ->
  parse (S6.render d) opt = Ok doc ->
  (* every node holds what [fshapes6] says: the names of elements, comments and PIs are slices of the
     input -- of the literal of the declaration for what a markup value stands for --; a Text node is
     Borrowed with the span of its only fragment (a literal or a CDATA section of the document or of a
     markup value, or the literal value of a character-data entity), or Owned *)
  Forall2 stored_as_6 (map nd_kind (tl (d_nodes doc))) (fshapes6 d) /\
  (* every ordinary attribute: local name = slice of the written local part; a value with a
     reference is Owned with the normalised value *)
  Forall2 attr_stored_f (d_attrs doc) (fattr_spans6 d) /\
  (* the namespace table: one entry per distinct (prefix, URI) pair in the order in which the
     declarations are read; prefix and URI are slices of where the FIRST such declaration is written *)
  d_ns_values doc = xml_ns :: map ns_entry_of (fns_table6 d).
Proof. exact parse_render_storage_f6. Qed.
Print Assumptions C18_parse_render_storage_f6.

End G11.
