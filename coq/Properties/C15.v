(* C15 -- nodes_limit is a hard, monotone cap on tree size: a successful parse has at most L nodes;
   if the parse with a larger limit succeeds with N nodes then every L >= N gives the identical document
   and every L < N gives Err NodesLimitReached; if it fails, every smaller limit fails too.
   Statements are pinned here (copied verbatim from the proof files by tools/pin_props.py);
   each is re-proved by `exact` and followed by Print Assumptions. *)
From Coq Require Import Ascii String.
From Coq Require Import List NArith Bool PeanoNat Sorted.
Import ListNotations.
From RX Require Import Generated.
From RX.Model Require Import Base CharClass Stream Tokenizer Doc Builder Parse Api.
From RX.Proofs Require Import OptionsParam OptionsBuild OptionsMain OptionsDtd.
Open Scope N_scope.

(* ---- Proofs/OptionsMain.v ---- *)
Theorem C15_limit_caps :
  forall text dtd lim d,
  parse text (opts dtd lim) = Ok d -> len_N (d_nodes d) <= lim.
Proof. exact limit_caps. Qed.
Print Assumptions C15_limit_caps.

Theorem C15_limit_above :
  forall text dtd big lim d,
  lim <= big ->
  parse text (opts dtd big) = Ok d -> len_N (d_nodes d) <= lim ->
  parse text (opts dtd lim) = Ok d.
Proof. exact limit_above. Qed.
Print Assumptions C15_limit_above.

Theorem C15_limit_below :
  forall text dtd big lim d,
  lim <= big ->
  parse text (opts dtd big) = Ok d -> lim < len_N (d_nodes d) ->
  parse text (opts dtd lim) = Err NodesLimitReached.
Proof. exact limit_below. Qed.
Print Assumptions C15_limit_below.

Theorem C15_limit_error_persists :
  forall text dtd big lim e,
  lim <= big ->
  parse text (opts dtd big) = Err e ->
  exists e', parse text (opts dtd lim) = Err e'.
Proof. exact limit_error_persists. Qed.
Print Assumptions C15_limit_error_persists.
