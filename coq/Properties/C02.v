(* C02 -- a parsed document is a well-formed ordered tree: the arena of every successfully parsed
   document is the pre-order encoding (Spec/Tree.v) of a tree whose root is the Root node, with no other
   Root below, children only under Root / Element nodes, and at least one element child of the root.
   (encode makes 'ids dense and in pre-order, every node reached once, parent / prev-sibling /
   last-child / next-subtree links mutually consistent' one equation.)
   Statements are pinned here (copied verbatim from the proof files by tools/pin_props.py);
   each is re-proved by `exact` and followed by Print Assumptions. *)
From Coq Require Import Ascii String.
From Coq Require Import List NArith Bool PeanoNat Sorted.
Import ListNotations.
From RX Require Import Generated.
From RX.Model Require Import Base CharClass Stream Tokenizer Doc Builder Parse Api.
From RX.Spec Require Import Tree.
From RX.Proofs Require Import KeystoneEnc KeystoneBuilder KeystoneParse KeystoneProto KeystoneWf KeystoneParseWf.
Open Scope N_scope.

(* ---- Proofs/KeystoneParseWf.v ---- *)
Theorem C02_parse_wf_doc_tree :
  forall (text : bytes) (opt : options) (d : document),
  parse text opt = Ok d ->
  exists t : tree, links_of_nodes (d_nodes d) = encode t /\ wf_doc_tree t.
Proof. exact parse_wf_doc_tree. Qed.
Print Assumptions C02_parse_wf_doc_tree.

Theorem C02_parse_no_adjacent_text :
  forall (text : bytes) (opt : options) (d : document),
  parse text opt = Ok d ->
  exists t : tree, links_of_nodes (d_nodes d) = encode t /\ no_adjacent_text t = true.
Proof. exact parse_no_adjacent_text. Qed.
Print Assumptions C02_parse_no_adjacent_text.

Theorem C02_parse_single_root_element :
  forall (text : bytes) (opt : options) (d : document),
  parse text opt = Ok d ->
  exists t : tree, links_of_nodes (d_nodes d) = encode t /\
                   count_kind KdElem (tchildren t) = 1%nat.
Proof. exact parse_single_root_element. Qed.
Print Assumptions C02_parse_single_root_element.

Theorem C02_parse_no_text_under_root :
  forall (text : bytes) (opt : options) (d : document),
  parse text opt = Ok d ->
  exists t : tree, links_of_nodes (d_nodes d) = encode t /\
                   count_kind KdText (tchildren t) = 0%nat.
Proof. exact parse_no_text_under_root. Qed.
Print Assumptions C02_parse_no_text_under_root.

(* ---- Proofs/KeystoneParse.v ---- *)
Theorem C02_parse_links_tree :
  forall (text : bytes) (opt : options) (d : document),
  parse text opt = Ok d ->
  exists t : tree,
    links_of_nodes (d_nodes d) = encode t /\
    tkind t = KdRoot /\
    no_root_below t = true /\
    only_containers_have_children t = true /\
    (1 <= count_kind KdElem (tchildren t))%nat.
Proof. exact parse_links_tree. Qed.
Print Assumptions C02_parse_links_tree.
