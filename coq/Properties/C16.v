(* C16 -- DTD processing is off by default and allow_dtd changes nothing else: the default options
   are {allow_dtd = false; nodes_limit = u32::MAX} (read from the source by the translator); with
   allow_dtd = false the result is Err DtdDetected or identical to the result with allow_dtd = true;
   an input without the string '<!DOCTYPE' gives identical results; with allow_dtd = false no entity is ever
   declared, and the total length of all text and attribute values (text_len + value_len, DefaultMain.v) of a
   parsed document is at most the input length.
   Statements are pinned here (copied verbatim from the proof files by tools/pin_props.py);
   each is re-proved by `exact` and followed by Print Assumptions. *)
From Coq Require Import Ascii String.
From Coq Require Import List NArith Bool PeanoNat Sorted.
Import ListNotations.
From RX Require Import Generated.
From RX.Model Require Import Base CharClass Stream Tokenizer Doc Builder Parse Api.
From RX.Proofs Require Import OptionsParam OptionsBuild OptionsMain OptionsDtd DefaultEntities DefaultTokenizer DefaultContent DefaultText DefaultMain.
Open Scope N_scope.

(* ---- Proofs/OptionsMain.v ---- *)
Theorem C16_default_options_are :
  default_options = opts false 4294967295.
Proof. exact default_options_are. Qed.
Print Assumptions C16_default_options_are.

Theorem C16_dtd_flag_relation :
  forall text lim,
  parse text (opts false lim) = Err DtdDetected \/
  parse text (opts false lim) = parse text (opts true lim).
Proof. exact dtd_flag_relation. Qed.
Print Assumptions C16_dtd_flag_relation.

(* ---- Proofs/OptionsDtd.v ---- *)
Theorem C16_no_doctype_no_difference :
  forall text lim,
  contains_b (b "<!DOCTYPE") text = false ->
  parse text (opts false lim) = parse text (opts true lim).
Proof. exact no_doctype_no_difference. Qed.
Print Assumptions C16_no_doctype_no_difference.

(* ---- Proofs/DefaultEntities.v ---- *)
Theorem C16_no_entities_without_dtd :
  forall text lim c c',
  init_context text {| allow_dtd := false; nodes_limit := lim |} = Ok c ->
  parse_document text context (token text) false c = Ok c' -> c_entities c' = [].
Proof. exact no_entities_without_dtd. Qed.
Print Assumptions C16_no_entities_without_dtd.

(* ---- Proofs/DefaultMain.v ---- *)
Theorem C16_content_le_input :
  forall text lim d, valid_utf8_b text = true ->
  parse text {| allow_dtd := false; nodes_limit := lim |} = Ok d -> text_len text d + value_len text d <= tlen text.
Proof. exact content_le_input. Qed.
Print Assumptions C16_content_le_input.
