(* C16 -- DTD processing is off by default and allow_dtd changes nothing else: the default options
   are {allow_dtd = false; nodes_limit = u32::MAX} (read from the source by the translator); with
   allow_dtd = false the result is Err DtdDetected or identical to the result with allow_dtd = true;
   an input without the string '<!DOCTYPE' gives identical results; with allow_dtd = false no entity is ever
   declared, and the total length of all text and attribute values (text_len + value_len, DefaultMain.v) of a
   parsed document is at most the input length.  On the fragment of Spec/CstFullS5.v: a document WITH a DOCTYPE gives
   Err DtdDetected under allow_dtd = false (dtd_refused_full), a document without one parses identically under both values
   (no_dtd_any_option).
   Statements are pinned here (copied verbatim from the proof files by tools/pin_props.py);
   each is re-proved by `exact` and followed by Print Assumptions. *)
From Coq Require Import Ascii String.
From Coq Require Import List NArith Bool PeanoNat Sorted.
Import ListNotations.
From RX Require Import Generated.
From RX.Model Require Import Base CharClass Stream Tokenizer Doc Builder Parse Api.
From RX.Proofs Require Import OptionsParam OptionsBuild OptionsMain OptionsDtd DefaultEntities DefaultTokenizer DefaultContent DefaultText DefaultMain.
From RX.Proofs Require CstNsView CstFullMain CstFullS5.
From RX.Spec Require CstFull CstFullS5.
Open Scope N_scope.

(* ---- Proofs/OptionsMain.v ---- *)
Theorem C16_default_options_are :
  default_options = opts false 4294967295.
Proof. exact default_options_are. Qed.
Print Assumptions C16_default_options_are.

Theorem C16_dtd_flag_relation :
  forall text lim,
  parse text (opts false lim) = Err DtdDetected \/
  parse text (opts false lim) = parse text (opts true lim).
Proof. exact dtd_flag_relation. Qed.
Print Assumptions C16_dtd_flag_relation.

(* ---- Proofs/OptionsDtd.v ---- *)
Theorem C16_no_doctype_no_difference :
  forall text lim,
  contains_b (b "<!DOCTYPE") text = false ->
  parse text (opts false lim) = parse text (opts true lim).
Proof. exact no_doctype_no_difference. Qed.
Print Assumptions C16_no_doctype_no_difference.

(* ---- Proofs/DefaultEntities.v ---- *)
Theorem C16_no_entities_without_dtd :
  forall text lim c c',
  init_context text {| allow_dtd := false; nodes_limit := lim |} = Ok c ->
  parse_document text context (token text) false c = Ok c' -> c_entities c' = [].
Proof. exact no_entities_without_dtd. Qed.
Print Assumptions C16_no_entities_without_dtd.

(* ---- Proofs/DefaultMain.v ---- *)
Theorem C16_content_le_input :
  forall text lim d, valid_utf8_b text = true ->
  parse text {| allow_dtd := false; nodes_limit := lim |} = Ok d -> text_len text d + value_len text d <= tlen text.
Proof. exact content_le_input. Qed.
Print Assumptions C16_content_le_input.

(* ---- Proofs/CstFullS5.v ---- *)
Module G4.
Import RX.Spec.CstFull. Import RX.Spec.CstFullS5. Import RX.Proofs.CstNsView. Import RX.Proofs.CstFullMain. Import RX.Proofs.CstFullS5.
Theorem C16_dtd_refused_full :
  forall (d : S5.doc) (opt : options),
  S5.wf_doc d = true -> S5.has_dtd d = true -> allow_dtd opt = false ->
  N.of_nat (length (S5.sem d)) < nodes_limit opt ->
  N.of_nat (length (S5.render d)) <= u32_max ->
  parse (S5.render d) opt = Err DtdDetected.
Proof. exact dtd_refused_full. Qed.
Print Assumptions C16_dtd_refused_full.

Theorem C16_no_dtd_any_option :
  forall (d : S5.doc) (lim : N),
  S5.wf_doc d = true -> S5.has_dtd d = false ->
  N.of_nat (length (S5.sem d)) < lim ->
  N.of_nat (length (S5.render d)) <= u32_max ->
  S5.distinct_decls_le d (N.to_nat 65535) ->
  1 + N.of_nat (S5.ns_cost d) <= u32_max ->
  parse (S5.render d) (OptionsMain.opts false lim) = parse (S5.render d) (OptionsMain.opts true lim) /\
  exists doc, parse (S5.render d) (OptionsMain.opts false lim) = Ok doc /\ view (S5.render d) doc = Some (S5.sem d).
Proof. exact no_dtd_any_option. Qed.
Print Assumptions C16_no_dtd_any_option.

End G4.
