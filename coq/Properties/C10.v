(* C10 -- every read operation on a parsed document is total: for every successfully parsed document
   (valid UTF-8 input, limit fitting the u32 field), every node id below the node count and every argument,
   each accessor, axis, element variant, iterator constructor, name lookup, text / tail, root_element,
   get_node (any id) and text_pos_at (any offset) of the model's API returns Ok -- it reaches none of the
   panic sites of the source (unwrap, expect, indexing, slicing) and its loops do not run out of fuel.
   Statements are pinned here (copied verbatim from the proof files by tools/pin_props.py);
   each is re-proved by `exact` and followed by Print Assumptions. *)
From Coq Require Import Ascii String.
From Coq Require Import List NArith Bool PeanoNat Sorted.
Import ListNotations.
From RX Require Import Generated.
From RX.Model Require Import Base CharClass Stream Tokenizer Doc Builder Parse Api.
From RX.Spec Require Import Tree.
From RX.Model Require Import Debug.
From RX.Proofs Require Import ApiTotal PositionProofs DebugTotal StrictModel StrictApi Strict.
From RX Require GeneratedDisplay.
From RX.Model Require ErrDisplay.
From RX.Proofs Require ErrDisplayProofs.
Open Scope N_scope.

(* ---- Proofs/ApiTotal.v ---- *)
Theorem C10_api_total :
  forall text opt d, valid_utf8_b text = true -> nodes_limit opt <= u32_max -> parse text opt = Ok d ->
  forall id, id < len_N (d_nodes d) ->
    returns (parent d id) /\ returns (prev_sibling d id) /\ returns (next_sibling d id) /\ returns (first_child d id) /\ returns (last_child d id) /\
    returns (has_children d id) /\ returns (has_siblings d id) /\ returns (children_list d id) /\
    (forall a, returns (axis_list d a id)) /\
    returns (parent_element d id) /\ returns (prev_sibling_element d id) /\ returns (next_sibling_element d id) /\
    returns (first_element_child d id) /\ returns (last_element_child d id) /\
    returns (text_storage d id) /\ returns (tail_storage d id) /\
    returns (descendants d id) /\ returns (attributes d id) /\ returns (namespaces d id) /\
    returns (tag_name text d id) /\
    (forall name, returns (has_tag_name text d id name) /\ returns (attribute_node text d id name) /\ returns (attribute text d id name) /\ returns (has_attribute text d id name)) /\
    returns (default_namespace text d id) /\ (forall p, returns (lookup_namespace_uri text d id p)) /\ (forall u, returns (lookup_prefix text d id u)).
Proof. exact api_total. Qed.
Print Assumptions C10_api_total.

Theorem C10_api_total_doc :
  forall text opt d, valid_utf8_b text = true -> nodes_limit opt <= u32_max -> parse text opt = Ok d ->
  returns (root_element d) /\ (forall p, returns (text_pos_at text p)) /\
  (forall k, k < u32_max -> returns (get_node_id d k)) /\
  (forall i, i < len_N (d_attrs d) -> exists a, attr_at d i = Ok a /\ returns (attr_range_value a) /\ returns (attr_ename text d a)).
Proof. exact api_total_doc. Qed.
Print Assumptions C10_api_total_doc.

(* ---- Proofs/PositionProofs.v ---- *)
Theorem C10_text_pos_total_valid :
  forall text p, valid_utf8_b text = true ->
  exists rc, text_pos_at text p = Ok rc.
Proof. exact text_pos_total_valid. Qed.
Print Assumptions C10_text_pos_total_valid.

(* ---- Proofs/DebugTotal.v ---- *)
Theorem C10_debug_total :
  forall text opt d, valid_utf8_b text = true -> nodes_limit opt <= u32_max -> parse text opt = Ok d ->
  exists lines maxh, debug_document d = Ok (lines, maxh).
Proof. exact debug_total. Qed.
Print Assumptions C10_debug_total.

Theorem C10_debug_stack_bounded :
  forall text opt d lines maxh, valid_utf8_b text = true -> nodes_limit opt <= u32_max ->
  parse text opt = Ok d -> debug_document d = Ok (lines, maxh) -> maxh <= len_N (d_nodes d).
Proof. exact debug_stack_bounded. Qed.
Print Assumptions C10_debug_stack_bounded.

(* ---- Proofs/Strict.v ---- *)
Theorem C10_site_debug_depth_unreachable :
  forall d, debug_document_s d = debug_document d.
Proof. exact site_debug_depth_unreachable. Qed.
Print Assumptions C10_site_debug_depth_unreachable.

(* ---- Proofs/StrictApi.v ---- *)
Theorem C10_site_descendants_unreachable :
  forall text opt d id it0,
  valid_utf8_b text = true -> nodes_limit opt <= u32_max -> parse text opt = Ok d ->
  descendants d id = Ok it0 ->
  DescInv d it0 /\
  forall it, DescInv d it ->
    (desc_next_s it = Ok (sit_next it) /\ DescInv d (snd (sit_next it))) /\
    (desc_next_back_s it = Ok (sit_next_back it) /\ DescInv d (snd (sit_next_back it))) /\
    (forall n, desc_nth_s n it = Ok (sit_nth n it) /\ DescInv d (snd (sit_nth n it))).
Proof. exact site_descendants_unreachable. Qed.
Print Assumptions C10_site_descendants_unreachable.

(* ---- Proofs/ErrDisplayProofs.v ---- *)
Module G5.
Import RX.GeneratedDisplay. Import RX.Model.ErrDisplay. Import RX.Proofs.ErrShiftBase. Import RX.Proofs.ErrDisplayProofs. Local Open Scope list_scope.
Theorem C10_display_table_complete :
  forall e,
  exists ps, dlookup (error_name e) display_table = Some ps /\ pieces_fit ps (error_fields e) = true.
Proof. exact display_table_complete. Qed.
Print Assumptions C10_display_table_complete.

Theorem C10_display_nonempty :
  forall e, error_display e <> [].
Proof. exact display_nonempty. Qed.
Print Assumptions C10_display_nonempty.

End G5.
