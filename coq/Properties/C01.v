(* C01 -- parsing is total.  Termination half: the model's OutOfFuel value (a loop of the Rust
   source that does not finish, or entity recursion deeper than the level fuel) is unreachable
   on valid UTF-8 input -- every loop iteration consumes input and the loop detector bounds the
   entity nesting.  Statements pinned here; proofs in Proofs/Term*.v.
   (On byte strings that are not valid UTF-8 the model can loop: termination_needs_valid_utf8;
   a Rust &str is always valid UTF-8.) *)
From Coq Require Import List NArith.
Import ListNotations.
From RX.Model Require Import Base Stream Tokenizer Doc Builder Parse.
From RX.Proofs Require Import TermStream TermUtf8 TermParse.
Open Scope N_scope.

Theorem C01_tokenizer_terminates :
  forall (text : bytes) (C : Type) (ev : Tokenizer.token -> C -> res C) (dtd : bool) (c : C),
  valid_utf8_b text = true ->
  (forall (tok : Tokenizer.token) (c0 : C), ev tok c0 <> OutOfFuel) ->
  parse_document text C ev dtd c <> OutOfFuel.
Proof. exact tokenizer_terminates. Qed.
Print Assumptions C01_tokenizer_terminates.

Theorem C01_token_terminates :
  forall (text : bytes) (tok : Tokenizer.token) (c : context),
  valid_utf8_b text = true -> ld_depth (c_ld c) = 0 -> Parse.token text tok c <> OutOfFuel.
Proof. exact token_terminates. Qed.
Print Assumptions C01_token_terminates.

Theorem C01_token_preserves_depth0 :
  forall (text : bytes) (tok : Tokenizer.token) (c c' : context),
  valid_utf8_b text = true -> ld_depth (c_ld c) = 0 ->
  Parse.token text tok c = Ok c' -> ld_depth (c_ld c') = 0.
Proof. exact token_preserves_depth0. Qed.
Print Assumptions C01_token_preserves_depth0.

Theorem C01_parse_document_terminates :
  forall (text : bytes) (opt : options) (c : context),
  valid_utf8_b text = true -> init_context text opt = Ok c ->
  parse_document text context (Parse.token text) (allow_dtd opt) c <> OutOfFuel.
Proof. exact parse_document_terminates. Qed.
Print Assumptions C01_parse_document_terminates.

Theorem C01_termination_needs_valid_utf8 :
  valid_utf8_b overlong_lt_text = false /\ ~ safe overlong_lt_text /\
  parse_document overlong_lt_text unit (fun (_ : Tokenizer.token) (c : unit) => Ok c) false tt = OutOfFuel /\
  parse_default overlong_lt_text = OutOfFuel.
Proof. exact termination_needs_valid_utf8. Qed.
Print Assumptions C01_termination_needs_valid_utf8.
