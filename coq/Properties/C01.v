(* C01 -- parsing is total.
   Termination: the model's OutOfFuel value (a loop of the Rust source that does not finish, or entity
   recursion deeper than the level fuel) is unreachable on valid UTF-8 input: every loop iteration consumes
   input and the loop detector bounds the entity nesting.  (On byte strings that are not valid UTF-8 the
   model can loop: termination_needs_valid_utf8; a Rust &str is always valid UTF-8.)
   No panic: the tokenizer reaches none of its panic sites (slicing, indexing, advance, unwrap) on valid
   UTF-8, with any callback that does not panic itself; the real callback preserves the builder invariant
   Core and reaches no panic site either; the final root-children check is covered through the arena
   invariant of C02.  Together: parse_no_panic and parse_terminates, i.e. parse returns Ok or Err for every
   valid UTF-8 input and every limit that fits the u32 field.  (The one site that could not be excluded,
   ShortRange::from in resolve_namespaces, was a genuine defect: D17, repaired.)
   The panic sites of the SOURCE that the model does not represent (it uses total functions there: slicing in
   as_bytes / starts_with / process_cdata, from_utf8().unwrap() in skip_string, the debug assertions of push_ns and
   of the range conversion, the swallowed advance in try_consume_byte; found by the model audit) are given strict
   variants that DO panic there (Proofs/StrictModel.v) and proved unreachable: the builder sites over a whole run
   (site_builder_run: the strict builder never panics), the others pointwise / on every constructible stream; the
   table site -> theorem is in the header of Proofs/Strict.v.
   Statements are pinned here (copied verbatim from the proof files by tools/pin_props.py);
   each is re-proved by `exact` and followed by Print Assumptions. *)
From Coq Require Import Ascii String.
From Coq Require Import List NArith Bool PeanoNat Sorted.
Import ListNotations.
From RX Require Import Generated.
From RX.Model Require Import Base CharClass Stream Tokenizer Doc Builder Parse Api.
From RX.Proofs Require Import TermStream TermUtf8 TermParse TermFinal NoPanicUtf8 NoPanicStream NoPanicTokenizer NoPanicBuilder NoPanicBuilderCtx NoPanicText NoPanicParse NoPanicFinal StrictModel StrictTok StrictStream StrictBuilder StrictApi Strict StrictRunModel StrictRun.
Open Scope N_scope.

(* ---- Proofs/NoPanicFinal.v ---- *)
Theorem C01_parse_no_panic :
  forall text opt p, valid_utf8_b text = true -> nodes_limit opt <= u32_max -> parse text opt <> Panic p.
Proof. exact parse_no_panic. Qed.
Print Assumptions C01_parse_no_panic.

(* ---- Proofs/TermFinal.v ---- *)
Theorem C01_parse_terminates :
  forall text opt, valid_utf8_b text = true -> parse text opt <> OutOfFuel.
Proof. exact parse_terminates. Qed.
Print Assumptions C01_parse_terminates.

(* ---- Proofs/StrictRun.v ---- *)
Theorem C01_strict_refines :
  forall text opt, valid_utf8_b text = true -> nodes_limit opt <= u32_max -> parse_strict text opt = parse text opt.
Proof. exact strict_refines. Qed.
Print Assumptions C01_strict_refines.

Theorem C01_parse_strict_no_panic :
  forall text opt p, valid_utf8_b text = true -> nodes_limit opt <= u32_max ->
  parse_strict text opt <> Panic p.
Proof. exact parse_strict_no_panic. Qed.
Print Assumptions C01_parse_strict_no_panic.

(* ---- Proofs/Strict.v ---- *)
Theorem C01_site_builder_run :
  forall text opt p,
  valid_utf8_b text = true -> nodes_limit opt <= u32_max -> parse_builder_strict text opt <> Panic p.
Proof. exact site_builder_run. Qed.
Print Assumptions C01_site_builder_run.

Theorem C01_site_cdata_unreachable :
  forall l, valid_utf8_b l = true -> cdata_norm_s l = Ok (cdata_norm l).
Proof. exact site_cdata_unreachable. Qed.
Print Assumptions C01_site_cdata_unreachable.

Theorem C01_site_ns_range_unreachable :
  forall text c, Core text c ->
  resolve_namespaces_s text c = resolve_namespaces text c.
Proof. exact site_ns_range_unreachable. Qed.
Print Assumptions C01_site_ns_range_unreachable.

Theorem C01_site_try_consume_byte_unreachable :
  forall c s,
  try_consume_byte_s c s = Ok (try_consume_byte c s).
Proof. exact site_try_consume_byte_unreachable. Qed.
Print Assumptions C01_site_try_consume_byte_unreachable.

Theorem C01_site_skip_string_unreachable :
  forall text p s,
  In p skip_string_literals -> StreamGen text s ->
  skip_string_s text p s = skip_string text p s.
Proof. exact site_skip_string_unreachable. Qed.
Print Assumptions C01_site_skip_string_unreachable.

Theorem C01_site_advance_until2_unreachable :
  forall text n1 n2 s, StreamGen text s ->
  advance_until2_s text n1 n2 s = advance_until2 n1 n2 s.
Proof. exact site_advance_until2_unreachable. Qed.
Print Assumptions C01_site_advance_until2_unreachable.

Theorem C01_strict_callback_refines :
  forall text tok c, valid_utf8_b text = true ->
  TokOk2 text tok -> Core text c ->
  token_s text tok c = token_with text (process_text_s text) tok c.
Proof. exact strict_callback_refines. Qed.
Print Assumptions C01_strict_callback_refines.

(* ---- Proofs/TermParse.v ---- *)
Theorem C01_tokenizer_terminates :
  forall (text : bytes) (C : Type) (ev : Tokenizer.token -> C -> res C) (dtd : bool) (c : C),
  valid_utf8_b text = true ->
  (forall tok c0, ev tok c0 <> OutOfFuel) ->
  parse_document text C ev dtd c <> OutOfFuel.
Proof. exact tokenizer_terminates. Qed.
Print Assumptions C01_tokenizer_terminates.

Theorem C01_token_terminates :
  forall text tok c,
  valid_utf8_b text = true ->
  ld_depth (c_ld c) = 0 -> token text tok c <> OutOfFuel.
Proof. exact token_terminates. Qed.
Print Assumptions C01_token_terminates.

Theorem C01_token_preserves_depth0 :
  forall text tok c c',
  valid_utf8_b text = true ->
  ld_depth (c_ld c) = 0 -> token text tok c = Ok c' -> ld_depth (c_ld c') = 0.
Proof. exact token_preserves_depth0. Qed.
Print Assumptions C01_token_preserves_depth0.

Theorem C01_parse_document_terminates :
  forall text opt c,
  valid_utf8_b text = true ->
  init_context text opt = Ok c ->
  parse_document text context (token text) (allow_dtd opt) c <> OutOfFuel.
Proof. exact parse_document_terminates. Qed.
Print Assumptions C01_parse_document_terminates.

(* ---- Proofs/TermUtf8.v ---- *)
Module G5.
Local Notation safe := TermStream.safe.
Theorem C01_termination_needs_valid_utf8 :
  valid_utf8_b overlong_lt_text = false /\
  ~ safe overlong_lt_text /\
  parse_document overlong_lt_text unit (fun _ c => Ok c) false tt = OutOfFuel /\
  parse_default overlong_lt_text = OutOfFuel.
Proof. exact termination_needs_valid_utf8. Qed.
Print Assumptions C01_termination_needs_valid_utf8.

End G5.

(* ---- Proofs/NoPanicTokenizer.v ---- *)
Module G6.
Local Notation token := Tokenizer.token.
Theorem C01_tokenizer_no_panic :
  forall (text : bytes) (C : Type) (ev : token -> C -> res C) (dtd : bool) (c : C) p,
  valid_utf8_b text = true ->
  (forall tok c0 q, ev tok c0 <> Panic q) ->
  parse_document text C ev dtd c <> Panic p.
Proof. exact tokenizer_no_panic. Qed.
Print Assumptions C01_tokenizer_no_panic.

End G6.

(* ---- Proofs/NoPanicParse.v ---- *)
Module G7.
Local Notation TokOk := NoPanicTokenizer.TokOk.
Theorem C01_token_no_panic :
  forall text tok c p, valid_utf8_b text = true -> Core text c -> NoPanicTokenizer.TokOk text tok ->
  (tok_pre tok = true -> InTag c) -> token text tok c <> Panic p.
Proof. exact token_no_panic. Qed.
Print Assumptions C01_token_no_panic.

Theorem C01_token_preserves_core :
  forall text tok c c',
  valid_utf8_b text = true -> Core text c -> NoPanicTokenizer.TokOk text tok -> (tok_pre tok = true -> InTag c) ->
  token text tok c = Ok c' -> Core text c' /\ TagPost tok c c'.
Proof. exact token_preserves_core. Qed.
Print Assumptions C01_token_preserves_core.

Theorem C01_parse_document_token_no_panic :
  forall text opt c p, valid_utf8_b text = true -> nodes_limit opt <= u32_max ->
  init_context text opt = Ok c -> parse_document text context (token text) (allow_dtd opt) c <> Panic p.
Proof. exact parse_document_token_no_panic. Qed.
Print Assumptions C01_parse_document_token_no_panic.

End G7.
