(* C14 -- text positions and error reports: text_pos_at is total on valid UTF-8, clamps, counts
   rows by LF and columns in characters, stays in bounds and moves with inserted line breaks / spaces;
   every Err returned by parse carries the position of an offset inside the input (or is one of the
   seven position-less variants, which report 1:1), hence row / column are within the input.  Shift over a whole
   parse: whitespace put in front of a document (no BOM / declaration) leaves the outcome unchanged -- an Ok result is
   the same document with shifted offsets, an Err has the same variant and payload and is reported at the same place of
   the document (offset + k), i.e. k spaces move the column of a row-1 error by k, k line breaks move the row by k.
   The same for whitespace inserted at any insertion point of the prolog before a DOCTYPE (after the BOM / XML
   declaration, after each comment or PI of the first Misc run; insertion_point is defined operationally and is
   decidable by insertion_point_b): parse_err_shift_mid_partial, parse_ok_shift_mid_partial and the spaces / lines
   corollaries (an error on the insertion point's row moves by k columns; k line breaks move the row by k).  And for
   insertion points AFTER a DOCTYPE (between the DOCTYPE and the root, after later comments / PIs) when the DOCTYPE
   records no general entity (parameter / external entities, ELEMENT / ATTLIST / NOTATION, comments and PIs inside the
   subset are allowed): parse_err_shift_dtd, parse_ok_shift_dtd.
   Statements are pinned here (copied verbatim from the proof files by tools/pin_props.py);
   each is re-proved by `exact` and followed by Print Assumptions. *)
From Coq Require Import Ascii String.
From Coq Require Import List NArith Bool PeanoNat Sorted.
Import ListNotations.
From RX Require Import Generated.
From RX.Model Require Import Base CharClass Stream Tokenizer Doc Builder Parse Api.
From RX.Proofs Require Import PositionProofs ErrPosStream ErrPosTokenizer ErrPosParse ErrPayload RangeShiftBuilder ErrShiftBase ErrShiftFinal ErrShiftMidCore ErrShiftMidFinal ErrShiftDtdFinal ErrShiftEntFinal ErrShiftSubCont ErrShiftSubFinal ErrShiftProlog.
From RX Require GeneratedDisplay.
From RX.Model Require ErrDisplay.
From RX.Proofs Require ErrDisplayProofs.
From RX Require GeneratedErrors.
From RX.Proofs Require ErrorEnumTie.
Open Scope N_scope.

(* ---- Proofs/PositionProofs.v ---- *)
Theorem C14_text_pos_total_valid :
  forall text p, valid_utf8_b text = true ->
  exists rc, text_pos_at text p = Ok rc.
Proof. exact text_pos_total_valid. Qed.
Print Assumptions C14_text_pos_total_valid.

Theorem C14_text_pos_clamped :
  forall text p, tlen text <= p -> text_pos_at text p = text_pos_at text (tlen text).
Proof. exact text_pos_clamped. Qed.
Print Assumptions C14_text_pos_clamped.

Theorem C14_text_pos_on_boundary :
  forall text q, q <= tlen text -> is_boundary text q = true ->
  text_pos_at text q = Ok (1 + count_byte 10 (firstn (N.to_nat q) text),
                           1 + char_count (after_last_lf (firstn (N.to_nat q) text))).
Proof. exact text_pos_on_boundary. Qed.
Print Assumptions C14_text_pos_on_boundary.

Theorem C14_text_pos_bounds :
  forall text p r c, text_pos_at text p = Ok (r, c) ->
  1 <= r /\ r <= 1 + count_byte 10 text /\ 1 <= c /\ c <= 1 + char_count text.
Proof. exact text_pos_bounds. Qed.
Print Assumptions C14_text_pos_bounds.

Theorem C14_text_pos_shift_lines_valid :
  forall text k q r c, valid_utf8_b text = true ->
  q <= tlen text -> is_boundary text q = true ->
  text_pos_at text q = Ok (r, c) ->
  text_pos_at (repeat 10 k ++ text) (N.of_nat k + q) = Ok (N.of_nat k + r, c).
Proof. exact text_pos_shift_lines_valid. Qed.
Print Assumptions C14_text_pos_shift_lines_valid.

Theorem C14_text_pos_shift_spaces_valid :
  forall text k q r c, valid_utf8_b text = true ->
  q <= tlen text -> is_boundary text q = true ->
  text_pos_at text q = Ok (r, c) ->
  text_pos_at (repeat 32 k ++ text) (N.of_nat k + q) = Ok (r, if r =? 1 then N.of_nat k + c else c).
Proof. exact text_pos_shift_spaces_valid. Qed.
Print Assumptions C14_text_pos_shift_spaces_valid.

Theorem C14_text_pos_shift_lines_gen :
  forall text k q r c, q <= tlen text -> is_boundary text q = true ->
  (q = 0 -> head_ok text) ->
  text_pos_at text q = Ok (r, c) ->
  text_pos_at (repeat 10 k ++ text) (N.of_nat k + q) = Ok (N.of_nat k + r, c).
Proof. exact text_pos_shift_lines_gen. Qed.
Print Assumptions C14_text_pos_shift_lines_gen.

Theorem C14_text_pos_shift_spaces_gen :
  forall text k q r c, q <= tlen text -> is_boundary text q = true ->
  (q = 0 -> head_ok text) ->
  text_pos_at text q = Ok (r, c) ->
  text_pos_at (repeat 32 k ++ text) (N.of_nat k + q) = Ok (r, if r =? 1 then N.of_nat k + c else c).
Proof. exact text_pos_shift_spaces_gen. Qed.
Print Assumptions C14_text_pos_shift_spaces_gen.

(* ---- Proofs/ErrShiftFinal.v ---- *)
Theorem C14_parse_err_shift :
  forall ws text opt e,
  forallb byte_is_space ws = true -> valid_utf8_b text = true ->
  starts_with (stream_new text) [239;187;191] = false -> starts_with_declaration (stream_new text) = false ->
  parse text opt = Err e ->
  exists e', parse (ws ++ text) opt = Err e' /\
    (* same variant, same payload *)
    err_kind e = err_kind e' /\
    (* errors without a position are equal outright *)
    (has_pos e = false -> e' = e) /\
    (* the position is that of the same place of the document *)
    (has_pos e = true -> exists off, off <= tlen text /\ is_boundary text off = true /\
        text_pos_at text off = Ok (error_pos e) /\
        text_pos_at (ws ++ text) (off + blen ws) = Ok (error_pos e')).
Proof. exact parse_err_shift. Qed.
Print Assumptions C14_parse_err_shift.

Theorem C14_parse_ok_shift :
  forall ws text opt d,
  forallb byte_is_space ws = true -> valid_utf8_b text = true -> ws <> [] ->
  starts_with (stream_new text) [239;187;191] = false -> starts_with_declaration (stream_new text) = false ->
  parse text opt = Ok d -> parse (ws ++ text) opt = Ok (sh_doc (blen ws) d).
Proof. exact parse_ok_shift. Qed.
Print Assumptions C14_parse_ok_shift.

Theorem C14_parse_err_shift_spaces :
  forall n text opt e, valid_utf8_b text = true ->
  starts_with (stream_new text) [239;187;191] = false -> starts_with_declaration (stream_new text) = false ->
  parse text opt = Err e -> has_pos e = true ->
  exists e', parse (repeat 32 n ++ text) opt = Err e' /\ err_kind e = err_kind e' /\
    error_pos e' = (fst (error_pos e),
                    if fst (error_pos e) =? 1 then N.of_nat n + snd (error_pos e) else snd (error_pos e)).
Proof. exact parse_err_shift_spaces. Qed.
Print Assumptions C14_parse_err_shift_spaces.

Theorem C14_parse_err_shift_lines :
  forall n text opt e, valid_utf8_b text = true ->
  starts_with (stream_new text) [239;187;191] = false -> starts_with_declaration (stream_new text) = false ->
  parse text opt = Err e -> has_pos e = true ->
  exists e', parse (repeat 10 n ++ text) opt = Err e' /\ err_kind e = err_kind e' /\
    error_pos e' = (N.of_nat n + fst (error_pos e), snd (error_pos e)).
Proof. exact parse_err_shift_lines. Qed.
Print Assumptions C14_parse_err_shift_lines.

(* ---- Proofs/ErrShiftMidFinal.v ---- *)
Theorem C14_parse_err_shift_mid_partial :
  forall pre ws post opt e,
  forallb byte_is_space ws = true -> valid_utf8_b post = true ->
  insertion_point pre post opt ->
  parse (pre ++ post) opt = Err e ->
  exists e', parse (pre ++ ws ++ post) opt = Err e' /\
    err_kind e = err_kind e' /\
    (has_pos e = false -> e' = e) /\
    (has_pos e = true -> exists off, blen pre <= off /\ off <= tlen (pre ++ post) /\
        is_boundary (pre ++ post) off = true /\
        text_pos_at (pre ++ post) off = Ok (error_pos e) /\
        text_pos_at (pre ++ ws ++ post) (off + blen ws) = Ok (error_pos e')).
Proof. exact parse_err_shift_mid_partial. Qed.
Print Assumptions C14_parse_err_shift_mid_partial.

Theorem C14_parse_ok_shift_mid_partial :
  forall pre ws post opt d,
  forallb byte_is_space ws = true -> valid_utf8_b post = true ->
  insertion_point pre post opt ->
  parse (pre ++ post) opt = Ok d ->
  parse (pre ++ ws ++ post) opt = Ok (mid_doc (blen pre) (blen ws) d).
Proof. exact parse_ok_shift_mid_partial. Qed.
Print Assumptions C14_parse_ok_shift_mid_partial.

Theorem C14_parse_err_shift_mid_spaces :
  forall k pre post opt e,
  valid_utf8_b post = true -> insertion_point pre post opt ->
  parse (pre ++ post) opt = Err e -> has_pos e = true ->
  exists e' rP cP, parse (pre ++ repeat 32 k ++ post) opt = Err e' /\ err_kind e = err_kind e' /\
    text_pos_at (pre ++ post) (blen pre) = Ok (rP, cP) /\
    error_pos e' = (fst (error_pos e),
                    if fst (error_pos e) =? rP then N.of_nat k + snd (error_pos e) else snd (error_pos e)).
Proof. exact parse_err_shift_mid_spaces. Qed.
Print Assumptions C14_parse_err_shift_mid_spaces.

Theorem C14_parse_err_shift_mid_lines :
  forall k pre post opt e, (0 < k)%nat ->
  valid_utf8_b post = true -> insertion_point pre post opt ->
  parse (pre ++ post) opt = Err e -> has_pos e = true ->
  exists e' rP cP, parse (pre ++ repeat 10 k ++ post) opt = Err e' /\ err_kind e = err_kind e' /\
    text_pos_at (pre ++ post) (blen pre) = Ok (rP, cP) /\
    error_pos e' = (N.of_nat k + fst (error_pos e),
                    if fst (error_pos e) =? rP then snd (error_pos e) - (cP - 1) else snd (error_pos e)).
Proof. exact parse_err_shift_mid_lines. Qed.
Print Assumptions C14_parse_err_shift_mid_lines.

(* ---- Proofs/ErrShiftDtdFinal.v ---- *)
Theorem C14_parse_err_shift_dtd :
  forall pre ws post opt e,
  forallb byte_is_space ws = true -> valid_utf8_b post = true -> post <> [] ->
  dtd_point_noent pre post opt ->
  parse (pre ++ post) opt = Err e ->
  exists e', parse (pre ++ ws ++ post) opt = Err e' /\
    err_kind e = err_kind e' /\
    (has_pos e = false -> e' = e) /\
    (has_pos e = true -> exists off, blen pre <= off /\ off <= tlen (pre ++ post) /\
        is_boundary (pre ++ post) off = true /\
        text_pos_at (pre ++ post) off = Ok (error_pos e) /\
        text_pos_at (pre ++ ws ++ post) (off + blen ws) = Ok (error_pos e')).
Proof. exact parse_err_shift_dtd. Qed.
Print Assumptions C14_parse_err_shift_dtd.

Theorem C14_parse_ok_shift_dtd :
  forall pre ws post opt d,
  forallb byte_is_space ws = true -> valid_utf8_b post = true -> post <> [] ->
  dtd_point_noent pre post opt ->
  parse (pre ++ post) opt = Ok d ->
  parse (pre ++ ws ++ post) opt = Ok (mid_doc (blen pre) (blen ws) d).
Proof. exact parse_ok_shift_dtd. Qed.
Print Assumptions C14_parse_ok_shift_dtd.

Theorem C14_parse_err_shift_dtd_spaces :
  forall k pre post opt e,
  valid_utf8_b post = true -> post <> [] -> dtd_point_noent pre post opt ->
  parse (pre ++ post) opt = Err e -> has_pos e = true ->
  exists e' rP cP, parse (pre ++ repeat 32 k ++ post) opt = Err e' /\ err_kind e = err_kind e' /\
    text_pos_at (pre ++ post) (blen pre) = Ok (rP, cP) /\
    error_pos e' = (fst (error_pos e),
                    if fst (error_pos e) =? rP then N.of_nat k + snd (error_pos e) else snd (error_pos e)).
Proof. exact parse_err_shift_dtd_spaces. Qed.
Print Assumptions C14_parse_err_shift_dtd_spaces.

Theorem C14_parse_err_shift_dtd_lines :
  forall k pre post opt e, (0 < k)%nat ->
  valid_utf8_b post = true -> post <> [] -> dtd_point_noent pre post opt ->
  parse (pre ++ post) opt = Err e -> has_pos e = true ->
  exists e' rP cP, parse (pre ++ repeat 10 k ++ post) opt = Err e' /\ err_kind e = err_kind e' /\
    text_pos_at (pre ++ post) (blen pre) = Ok (rP, cP) /\
    error_pos e' = (N.of_nat k + fst (error_pos e),
                    if fst (error_pos e) =? rP then snd (error_pos e) - (cP - 1) else snd (error_pos e)).
Proof. exact parse_err_shift_dtd_lines. Qed.
Print Assumptions C14_parse_err_shift_dtd_lines.

(* ---- Proofs/ErrShiftEntFinal.v ---- *)
Theorem C14_parse_err_shift_ent :
  forall pre ws post opt e,
  forallb byte_is_space ws = true -> valid_utf8_b post = true -> post <> [] ->
  dtd_point pre post opt ->
  parse (pre ++ post) opt = Err e ->
  exists e', parse (pre ++ ws ++ post) opt = Err e' /\
    err_kind e = err_kind e' /\
    (has_pos e = false -> e' = e) /\
    (has_pos e = true -> exists off, text_pos_at (pre ++ post) off = Ok (error_pos e) /\
        ((off < blen pre /\ error_pos e' = error_pos e) \/
         (blen pre <= off /\ text_pos_at (pre ++ ws ++ post) (off + blen ws) = Ok (error_pos e')))).
Proof. exact parse_err_shift_ent. Qed.
Print Assumptions C14_parse_err_shift_ent.

Theorem C14_parse_ok_shift_ent :
  forall pre ws post opt d,
  forallb byte_is_space ws = true -> valid_utf8_b post = true -> post <> [] ->
  dtd_point pre post opt ->
  parse (pre ++ post) opt = Ok d ->
  parse (pre ++ ws ++ post) opt = Ok (mid_doc (blen pre) (blen ws) d).
Proof. exact parse_ok_shift_ent. Qed.
Print Assumptions C14_parse_ok_shift_ent.

Theorem C14_parse_err_shift_ent_spaces :
  forall k pre post opt e,
  valid_utf8_b post = true -> post <> [] -> dtd_point pre post opt ->
  parse (pre ++ post) opt = Err e -> has_pos e = true ->
  exists e' rP cP, parse (pre ++ repeat 32 k ++ post) opt = Err e' /\ err_kind e = err_kind e' /\
    text_pos_at (pre ++ post) (blen pre) = Ok (rP, cP) /\
    exists off, text_pos_at (pre ++ post) off = Ok (error_pos e) /\
      ((off < blen pre /\ error_pos e' = error_pos e) \/
       (blen pre <= off /\
        error_pos e' = (fst (error_pos e),
                        if fst (error_pos e) =? rP then N.of_nat k + snd (error_pos e) else snd (error_pos e)))).
Proof. exact parse_err_shift_ent_spaces. Qed.
Print Assumptions C14_parse_err_shift_ent_spaces.

Theorem C14_parse_err_shift_ent_lines :
  forall k pre post opt e, (0 < k)%nat ->
  valid_utf8_b post = true -> post <> [] -> dtd_point pre post opt ->
  parse (pre ++ post) opt = Err e -> has_pos e = true ->
  exists e' rP cP, parse (pre ++ repeat 10 k ++ post) opt = Err e' /\ err_kind e = err_kind e' /\
    text_pos_at (pre ++ post) (blen pre) = Ok (rP, cP) /\
    exists off, text_pos_at (pre ++ post) off = Ok (error_pos e) /\
      ((off < blen pre /\ error_pos e' = error_pos e) \/
       (blen pre <= off /\
        error_pos e' = (N.of_nat k + fst (error_pos e),
                        if fst (error_pos e) =? rP then snd (error_pos e) - (cP - 1) else snd (error_pos e)))).
Proof. exact parse_err_shift_ent_lines. Qed.
Print Assumptions C14_parse_err_shift_ent_lines.

(* ---- Proofs/ErrShiftSubFinal.v ---- *)
Theorem C14_parse_err_shift_sub :
  forall pre ws post opt e,
  forallb byte_is_space ws = true -> valid_utf8_b post = true -> post <> [] ->
  subset_point pre post opt ->
  parse (pre ++ post) opt = Err e ->
  exists e', parse (pre ++ ws ++ post) opt = Err e' /\
    err_kind e = err_kind e' /\
    (has_pos e = false -> e' = e) /\
    (has_pos e = true -> exists off, text_pos_at (pre ++ post) off = Ok (error_pos e) /\
        ((off < blen pre /\ error_pos e' = error_pos e) \/
         (blen pre <= off /\ text_pos_at (pre ++ ws ++ post) (off + blen ws) = Ok (error_pos e')))).
Proof. exact parse_err_shift_sub. Qed.
Print Assumptions C14_parse_err_shift_sub.

Theorem C14_parse_ok_shift_sub :
  forall pre ws post opt d,
  forallb byte_is_space ws = true -> valid_utf8_b post = true -> post <> [] ->
  subset_point pre post opt ->
  parse (pre ++ post) opt = Ok d ->
  parse (pre ++ ws ++ post) opt = Ok (mid_doc (blen pre) (blen ws) d).
Proof. exact parse_ok_shift_sub. Qed.
Print Assumptions C14_parse_ok_shift_sub.

Theorem C14_parse_err_shift_sub_spaces :
  forall k pre post opt e,
  valid_utf8_b post = true -> post <> [] -> subset_point pre post opt ->
  parse (pre ++ post) opt = Err e -> has_pos e = true ->
  exists e' rP cP, parse (pre ++ repeat 32 k ++ post) opt = Err e' /\ err_kind e = err_kind e' /\
    text_pos_at (pre ++ post) (blen pre) = Ok (rP, cP) /\
    exists off, text_pos_at (pre ++ post) off = Ok (error_pos e) /\
      ((off < blen pre /\ error_pos e' = error_pos e) \/
       (blen pre <= off /\
        error_pos e' = (fst (error_pos e),
                        if fst (error_pos e) =? rP then N.of_nat k + snd (error_pos e) else snd (error_pos e)))).
Proof. exact parse_err_shift_sub_spaces. Qed.
Print Assumptions C14_parse_err_shift_sub_spaces.

Theorem C14_parse_err_shift_sub_lines :
  forall k pre post opt e, (0 < k)%nat ->
  valid_utf8_b post = true -> post <> [] -> subset_point pre post opt ->
  parse (pre ++ post) opt = Err e -> has_pos e = true ->
  exists e' rP cP, parse (pre ++ repeat 10 k ++ post) opt = Err e' /\ err_kind e = err_kind e' /\
    text_pos_at (pre ++ post) (blen pre) = Ok (rP, cP) /\
    exists off, text_pos_at (pre ++ post) off = Ok (error_pos e) /\
      ((off < blen pre /\ error_pos e' = error_pos e) \/
       (blen pre <= off /\
        error_pos e' = (N.of_nat k + fst (error_pos e),
                        if fst (error_pos e) =? rP then snd (error_pos e) - (cP - 1) else snd (error_pos e)))).
Proof. exact parse_err_shift_sub_lines. Qed.
Print Assumptions C14_parse_err_shift_sub_lines.

Theorem C14_parse_err_shift_prolog :
  forall pre ws post opt e,
  forallb byte_is_space ws = true -> valid_utf8_b post = true -> post <> [] ->
  prolog_point pre post opt ->
  parse (pre ++ post) opt = Err e ->
  exists e', parse (pre ++ ws ++ post) opt = Err e' /\
    err_kind e = err_kind e' /\
    (has_pos e = false -> e' = e) /\
    (has_pos e = true -> exists off, text_pos_at (pre ++ post) off = Ok (error_pos e) /\
        ((off < blen pre /\ error_pos e' = error_pos e) \/
         (blen pre <= off /\ text_pos_at (pre ++ ws ++ post) (off + blen ws) = Ok (error_pos e')))).
Proof. exact parse_err_shift_prolog. Qed.
Print Assumptions C14_parse_err_shift_prolog.

(* ---- Proofs/ErrShiftProlog.v ---- *)
Theorem C14_parse_ok_shift_prolog :
  forall pre ws post opt d,
  forallb byte_is_space ws = true -> valid_utf8_b post = true -> post <> [] ->
  prolog_point pre post opt ->
  parse (pre ++ post) opt = Ok d ->
  parse (pre ++ ws ++ post) opt = Ok (mid_doc (blen pre) (blen ws) d).
Proof. exact parse_ok_shift_prolog. Qed.
Print Assumptions C14_parse_ok_shift_prolog.

(* ---- Proofs/ErrPosTokenizer.v ---- *)
Module G7.
Local Notation token := Tokenizer.token.
Theorem C14_tokenizer_errors_positioned :
  forall text (C : Type) (ev : token -> C -> res C) dtd c e,
  (forall tok c0 e0, ev tok c0 = Err e0 -> positioned text e0) ->
  parse_document text C ev dtd c = Err e -> positioned text e.
Proof. exact tokenizer_errors_positioned. Qed.
Print Assumptions C14_tokenizer_errors_positioned.

End G7.

(* ---- Proofs/ErrPosParse.v ---- *)
Theorem C14_token_errors_positioned :
  forall text tok c e, token text tok c = Err e -> positioned text e.
Proof. exact token_errors_positioned. Qed.
Print Assumptions C14_token_errors_positioned.

Theorem C14_parse_errors_positioned :
  forall text opt e, parse text opt = Err e -> positioned text e.
Proof. exact parse_errors_positioned. Qed.
Print Assumptions C14_parse_errors_positioned.

Theorem C14_parse_error_in_bounds :
  forall text opt e, parse text opt = Err e ->
  1 <= fst (error_pos e) /\ fst (error_pos e) <= 1 + count_byte 10 text /\ 1 <= snd (error_pos e) /\ snd (error_pos e) <= 1 + char_count text.
Proof. exact parse_error_in_bounds. Qed.
Print Assumptions C14_parse_error_in_bounds.

(* ---- Proofs/ErrPayload.v ---- *)
Theorem C14_parse_error_payload_from_source :
  forall text opt e,
  valid_utf8_b text = true -> parse text opt = Err e -> payload_ok text e.
Proof. exact parse_error_payload_from_source. Qed.
Print Assumptions C14_parse_error_payload_from_source.

(* ---- Proofs/ErrDisplayProofs.v ---- *)
Module G10.
Import RX.GeneratedDisplay. Import RX.Model.ErrDisplay. Import RX.Proofs.ErrShiftBase. Import RX.Proofs.ErrDisplayProofs. Local Open Scope list_scope.
Theorem C14_display_table_complete :
  forall e,
  exists ps, dlookup (error_name e) display_table = Some ps /\ pieces_fit ps (error_fields e) = true.
Proof. exact display_table_complete. Qed.
Print Assumptions C14_display_table_complete.

Theorem C14_display_pos :
  forall e, has_pos e = true ->
  exists pre post, forall p', error_display (set_pos e p') = pre ++ show_pos p' ++ post.
Proof. exact display_pos. Qed.
Print Assumptions C14_display_pos.

Theorem C14_display_positionless :
  forall e, has_pos e = false ->
  exists s, dlookup (error_name e) display_table = Some [DLit s] /\ error_display e = b s.
Proof. exact display_positionless. Qed.
Print Assumptions C14_display_positionless.

Theorem C14_read_show_pos :
  forall p, read_pos (show_pos p) = Some p.
Proof. exact read_show_pos. Qed.
Print Assumptions C14_read_show_pos.

Theorem C14_display_payload :
  forall e s, quoted_payload e = true -> In (FStr s) (error_fields e) ->
  exists pre post, error_display e = pre ++ [39] ++ s ++ [39] ++ post.
Proof. exact display_payload. Qed.
Print Assumptions C14_display_payload.

End G10.

(* ---- Proofs/ErrorEnumTie.v ---- *)
Module G11.
Import RX.GeneratedErrors. Import RX.Model.ErrDisplay. Import RX.Proofs.ErrorEnumTie. Local Open Scope list_scope.
Theorem C14_error_enum_tie :
  forall e, lookup (error_name e) error_enum = Some (map fty_of (error_fields e)).
Proof. exact error_enum_tie. Qed.
Print Assumptions C14_error_enum_tie.

Theorem C14_error_enum_complete :
  (forall n tys, In (n, tys) error_enum -> exists e, error_name e = n) /\
  nodup_b (map fst error_enum) = true /\ length error_enum = length witnesses.
Proof. exact error_enum_complete. Qed.
Print Assumptions C14_error_enum_complete.

Theorem C14_error_pos_tie :
  forall e, pos_of_table e = Some (error_pos e).
Proof. exact error_pos_tie. Qed.
Print Assumptions C14_error_pos_tie.

Theorem C14_pos_field_last :
  forall e,
  match lookup (error_name e) pos_table with
  | Some (Some i) => S i = length (error_fields e)
  | Some None => error_fields e = []
  | None => False
  end.
Proof. exact pos_field_last. Qed.
Print Assumptions C14_pos_field_last.

End G11.
