(* C14 -- text positions: text_pos_at is total on valid UTF-8, clamps, counts rows by LF and
   columns in characters, stays in bounds and moves with inserted line breaks / spaces.
   Statements pinned here; proofs in Proofs/PositionProofs.v. *)
From Coq Require Import List NArith.
Import ListNotations.
From RX.Model Require Import Base Stream.
From RX.Proofs Require Import PositionProofs.
Open Scope N_scope.

Theorem C14_text_pos_total_valid :
  forall text p, valid_utf8_b text = true ->
  exists rc, text_pos_at text p = Ok rc.
Proof. exact text_pos_total_valid. Qed.
Print Assumptions C14_text_pos_total_valid.

Theorem C14_text_pos_clamped :
  forall text p, tlen text <= p -> text_pos_at text p = text_pos_at text (tlen text).
Proof. exact text_pos_clamped. Qed.
Print Assumptions C14_text_pos_clamped.

Theorem C14_text_pos_on_boundary :
  forall text q, q <= tlen text -> is_boundary text q = true ->
  text_pos_at text q = Ok (1 + count_byte 10 (firstn (N.to_nat q) text),
                           1 + char_count (after_last_lf (firstn (N.to_nat q) text))).
Proof. exact text_pos_on_boundary. Qed.
Print Assumptions C14_text_pos_on_boundary.

Theorem C14_text_pos_bounds :
  forall text p r c, text_pos_at text p = Ok (r, c) ->
  1 <= r /\ r <= 1 + count_byte 10 text /\ 1 <= c /\ c <= 1 + char_count text.
Proof. exact text_pos_bounds. Qed.
Print Assumptions C14_text_pos_bounds.

Theorem C14_text_pos_shift_lines_valid :
  forall text k q r c, valid_utf8_b text = true ->
  q <= tlen text -> is_boundary text q = true ->
  text_pos_at text q = Ok (r, c) ->
  text_pos_at (repeat 10 k ++ text) (N.of_nat k + q) = Ok (N.of_nat k + r, c).
Proof. exact text_pos_shift_lines_valid. Qed.
Print Assumptions C14_text_pos_shift_lines_valid.

Theorem C14_text_pos_shift_spaces_valid :
  forall text k q r c, valid_utf8_b text = true ->
  q <= tlen text -> is_boundary text q = true ->
  text_pos_at text q = Ok (r, c) ->
  text_pos_at (repeat 32 k ++ text) (N.of_nat k + q) = Ok (r, if r =? 1 then N.of_nat k + c else c).
Proof. exact text_pos_shift_spaces_valid. Qed.
Print Assumptions C14_text_pos_shift_spaces_valid.

Theorem C14_text_pos_shift_lines_gen :
  forall text k q r c, q <= tlen text -> is_boundary text q = true ->
  (q = 0 -> head_ok text) ->
  text_pos_at text q = Ok (r, c) ->
  text_pos_at (repeat 10 k ++ text) (N.of_nat k + q) = Ok (N.of_nat k + r, c).
Proof. exact text_pos_shift_lines_gen. Qed.
Print Assumptions C14_text_pos_shift_lines_gen.

Theorem C14_text_pos_shift_spaces_gen :
  forall text k q r c, q <= tlen text -> is_boundary text q = true ->
  (q = 0 -> head_ok text) ->
  text_pos_at text q = Ok (r, c) ->
  text_pos_at (repeat 32 k ++ text) (N.of_nat k + q) = Ok (r, if r =? 1 then N.of_nat k + c else c).
Proof. exact text_pos_shift_spaces_gen. Qed.
Print Assumptions C14_text_pos_shift_spaces_gen.
