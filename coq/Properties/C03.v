(* C03 -- elements, comments and PIs mirror the document's logical structure.  Lexer post-conditions
   (with a token recorder as callback): a comment token's text is exactly the source between '<!--' and
   '-->'; a PI's target and value are the source strings (value without leading whitespace, None when
   empty); CDATA / text tokens are their source slices; the DOCTYPE and the prolog / epilog deliver only
   comments, PIs (and entity declarations); a start tag delivers ElementStart, attributes, one ElementEnd.
   The XML declaration has no callback at all.  Document-level token shape: Proofs/RejectProofs.v.
   Completeness on the fragment of Spec/Cst.v (ASCII names and content, no DOCTYPE, references, namespaces, CR): every
   rendering of a well-formed abstract document -- with any layout choices: whitespace in tags, quote style,
   empty-element syntax, prolog / epilog comments and PIs -- parses to exactly its meaning (view = sem:
   kinds, names, attributes in order with values, comment text, PI target / value, text, children counts), so two
   renderings with the same meaning give the same tree (layout_insensitive).  view is defined in Proofs/CstMain.v.
   The same over Unicode (Spec/CstU.v: names, values, text, comments, PIs are lists of scalar values in the 5th-edition
   Name / Char classes, rendered in UTF-8): parse_render_sem_u, layout_insensitive_u, render_valid_utf8.
   The largest fragment (Spec/CstFull.v stage S3 = Unicode + namespaces + pieces + character-data entities, pinned under
   C06) extended by the whole PROLOG (Spec/CstFullS5.v): byte order mark, XML declaration, DOCTYPE with external id and an
   internal subset holding every kind of declaration (general / parameter / external / unparsed entities, ELEMENT /
   ATTLIST / NOTATION, comments and PIs -- which become nodes under the Root), CR in markup whitespace:
   parse_render_sem_full_s5 and prolog_insensitive_full_s5 (same meaning => same tree, whatever the prolog).
   THE CAPSTONE (Spec/CstFullS6.v): S4's entities (character data or markup with qualified names, resolved at the place
   of reference) inside S5's prolog, CR in markup whitespace everywhere -- ONE statement for the whole supported subset:
   parse_render_sem_full_s6; same meaning => same tree whatever the distribution over entities, the prolog and the layout
   (hoist_prolog_insensitive_full_s6); S4 and S5 embed with the same rendering and meaning (s4_in_s6, s5_in_s6), hence
   so do S1..S3.  What S6 still excludes is listed in the spec files: CR inside comment / PI bodies (admitted by S7), '%' and character references to TAB / LF / CR / '&' / '<' inside entity literals, colons
   in DOCTYPE / entity names, the CR LF proviso and D15.
   Statements are pinned here (copied verbatim from the proof files by tools/pin_props.py);
   each is re-proved by `exact` and followed by Print Assumptions. *)
From Coq Require Import Ascii String.
From Coq Require Import List NArith Bool PeanoNat Sorted.
Import ListNotations.
From RX Require Import Generated.
From RX.Model Require Import Base CharClass Stream Tokenizer Doc Builder Parse Api.
From RX.Spec Require Cst.
From RX.Spec Require CstU CstNs CstFull CstFullS5.
From RX.Proofs Require Import LexerProofs RejectProofs CstMain CstUMain.
From RX.Proofs Require CstNsView CstFullMain CstFullS5 CstFullS6Main CstFullS6Embed5.
From RX.Spec Require CstFullS4 CstFullS6.
From RX.Proofs Require ApiViewAcc ApiView ApiViewProofs ApiViewCapstone.
From RX.Spec Require CstFullS7 CstFullS8 CstFullS9 CstFullS10 CstFullS11.
From RX.Proofs Require CstFullS7Main CstFullS8Main CstFullS9Main CstFullS10Main CstFullS11Main.
Open Scope N_scope.

(* ---- Proofs/CstMain.v ---- *)
Theorem C03_parse_render_sem :
  forall (c : Cst.doc) (opt : options),
  Cst.wf_doc c = true ->
  N.of_nat (length (Cst.sem c)) < nodes_limit opt ->          (* room for all nodes + the Root *)
  N.of_nat (length (Cst.render c)) <= u32_max ->               (* the input is at most u32::MAX bytes long *)
  exists d, parse (Cst.render c) opt = Ok d /\
            view (Cst.render c) d = Cst.sem c /\
            (* no namespaces in this fragment *)
            (forall nd ns local ar nss, In nd (d_nodes d) -> nd_kind nd = KElement ns local ar nss -> ns = None) /\
            (forall a, In a (d_attrs d) -> ad_ns_idx a = None).
Proof. exact parse_render_sem. Qed.
Print Assumptions C03_parse_render_sem.

Theorem C03_layout_insensitive :
  forall c1 c2 opt,
  Cst.wf_doc c1 = true -> Cst.wf_doc c2 = true -> Cst.sem c1 = Cst.sem c2 ->
  N.of_nat (length (Cst.sem c1)) < nodes_limit opt ->
  N.of_nat (length (Cst.render c1)) <= u32_max -> N.of_nat (length (Cst.render c2)) <= u32_max ->
  exists d1 d2, parse (Cst.render c1) opt = Ok d1 /\ parse (Cst.render c2) opt = Ok d2 /\
                view (Cst.render c1) d1 = view (Cst.render c2) d2.
Proof. exact layout_insensitive. Qed.
Print Assumptions C03_layout_insensitive.

(* ---- Proofs/ApiViewCapstone.v ---- *)
Module G1.
Import RX.Spec.CstFull. Import RX.Spec.CstFullS6. Import RX.Proofs.ApiView. Import RX.Proofs.ApiViewProofs. Import RX.Proofs.ApiViewCapstone.
Theorem C03_parse_render_sem_full_s6_api :
  forall (d : S6.doc) (opt : options),
  S6.wf_doc d = true ->
  (S6.has_dtd d = true -> allow_dtd opt = true) ->
  nodes_limit opt <= u32_max ->                                    (* a u32 *)
  N.of_nat (length (S6.sem d)) < nodes_limit opt ->
  N.of_nat (length (S6.sem d)) < u32_max ->
  N.of_nat (S6.nattrs d) < u32_max ->
  S6.distinct_decls_le d (N.to_nat 65535) ->
  1 + N.of_nat (S6.ns_cost d) <= u32_max ->
  exists doc, parse (S6.render d) opt = Ok doc /\ api_view (S6.render d) doc = Some (S6.sem d).
Proof. exact parse_render_sem_full_s6_api. Qed.
Print Assumptions C03_parse_render_sem_full_s6_api.

Theorem C03_hoist_prolog_insensitive_full_s6_api :
  forall (d1 d2 : S6.doc) opt,
  S6.wf_doc d1 = true -> S6.wf_doc d2 = true -> allow_dtd opt = true -> nodes_limit opt <= u32_max -> S6.sem d1 = S6.sem d2 ->
  N.of_nat (length (S6.sem d1)) < nodes_limit opt -> N.of_nat (length (S6.sem d1)) < u32_max ->
  N.of_nat (S6.nattrs d1) < u32_max ->
  S6.distinct_decls_le d1 (N.to_nat 65535) -> S6.distinct_decls_le d2 (N.to_nat 65535) ->
  1 + N.of_nat (S6.ns_cost d1) <= u32_max -> 1 + N.of_nat (S6.ns_cost d2) <= u32_max ->
  exists x1 x2, parse (S6.render d1) opt = Ok x1 /\ parse (S6.render d2) opt = Ok x2 /\
                api_view (S6.render d1) x1 = api_view (S6.render d2) x2.
Proof. exact hoist_prolog_insensitive_full_s6_api. Qed.
Print Assumptions C03_hoist_prolog_insensitive_full_s6_api.

End G1.

(* ---- Proofs/ApiViewProofs.v ---- *)
Module G2.
Import RX.Proofs.ApiViewAcc. Import RX.Proofs.ApiView. Import RX.Proofs.ApiViewProofs.
Theorem C03_api_view_agrees :
  forall text opt d,
  valid_utf8_b text = true -> nodes_limit opt <= u32_max -> parse text opt = Ok d ->
  api_view text d = CstNsView.view text d.
Proof. exact api_view_agrees. Qed.
Print Assumptions C03_api_view_agrees.

Theorem C03_api_view_defined :
  forall text opt d,
  valid_utf8_b text = true -> nodes_limit opt <= u32_max -> parse text opt = Ok d ->
  exists vs, api_view_res text d = Ok vs /\ CstNsView.view text d = Some vs.
Proof. exact api_view_defined. Qed.
Print Assumptions C03_api_view_defined.

End G2.

(* ---- Proofs/CstFullS7Main.v ---- *)
Module G3.
Import RX.Spec.CstFull. Import RX.Spec.CstFullS6. Import RX.Spec.CstFullS7. Import RX.Proofs.CstNsView. Import RX.Proofs.ApiView. Import RX.Proofs.CstFullS7Main.
Theorem C03_parse_render_sem_full_s7 :
  forall (d : S7.doc) (opt : options),
  S7.wf_doc d = true ->
  (S7.has_dtd d = true -> allow_dtd opt = true) ->                (* a DOCTYPE needs the option *)
  N.of_nat (length (S7.sem d)) < nodes_limit opt ->               (* room for all nodes + the Root *)
  N.of_nat (length (S7.sem d)) < u32_max ->                        (* of the MEANING: entities add nodes *)
  N.of_nat (S7.nattrs d) < u32_max ->                              (* the attribute rows of the meaning *)
  S7.distinct_decls_le d (N.to_nat 65535) ->                       (* at most 65535 distinct declared bindings *)
  1 + N.of_nat (S7.ns_cost d) <= u32_max ->                        (* the namespace table fits *)
  exists doc, parse (S7.render d) opt = Ok doc /\ view (S7.render d) doc = Some (S7.sem d).
Proof. exact parse_render_sem_full_s7. Qed.
Print Assumptions C03_parse_render_sem_full_s7.

Theorem C03_parse_render_sem_full_s7_api :
  forall (d : S7.doc) (opt : options),
  S7.wf_doc d = true ->
  (S7.has_dtd d = true -> allow_dtd opt = true) ->
  nodes_limit opt <= u32_max ->                                    (* a u32 *)
  N.of_nat (length (S7.sem d)) < nodes_limit opt ->
  N.of_nat (length (S7.sem d)) < u32_max ->
  N.of_nat (S7.nattrs d) < u32_max ->
  S7.distinct_decls_le d (N.to_nat 65535) ->
  1 + N.of_nat (S7.ns_cost d) <= u32_max ->
  exists doc, parse (S7.render d) opt = Ok doc /\ ApiView.api_view (S7.render d) doc = Some (S7.sem d).
Proof. exact parse_render_sem_full_s7_api. Qed.
Print Assumptions C03_parse_render_sem_full_s7_api.

Theorem C03_s6_in_s7 :
  forall d : S6.doc, S6.wf_doc d = true ->
  S7.wf_doc d = true /\ S7.render d = S6.render d /\ S7.sem d = S6.sem d /\ S7.has_dtd d = S6.has_dtd d.
Proof. exact s6_in_s7. Qed.
Print Assumptions C03_s6_in_s7.

End G3.

(* ---- Proofs/CstFullS11Main.v ---- *)
Module G4.
Import RX.Spec.CstFull. Import RX.Spec.CstFullS6. Import RX.Spec.CstFullS10. Import RX.Spec.CstFullS11. Import RX.Proofs.CstNsView. Import RX.Proofs.ApiView. Import RX.Proofs.CstFullS11Main.
Theorem C03_parse_render_sem_full_s11 :
  forall (d : S11.doc) (opt : options),
  S11.wf_doc d = true ->
  (S11.has_dtd d = true -> allow_dtd opt = true) ->                (* a DOCTYPE needs the option *)
  N.of_nat (length (S11.sem d)) < nodes_limit opt ->               (* room for all nodes + the Root *)
  N.of_nat (length (S11.sem d)) < u32_max ->                        (* of the MEANING: entities add nodes *)
  N.of_nat (S11.nattrs d) < u32_max ->                              (* the attribute rows of the meaning *)
  S11.distinct_decls_le d (N.to_nat 65535) ->                       (* at most 65535 distinct declared bindings *)
  1 + N.of_nat (S11.ns_cost d) <= u32_max ->                        (* the namespace table fits *)
  exists doc, parse (S11.render d) opt = Ok doc /\ view (S11.render d) doc = Some (S11.sem d).
Proof. exact parse_render_sem_full_s11. Qed.
Print Assumptions C03_parse_render_sem_full_s11.

Theorem C03_parse_render_sem_full_s11_api :
  forall (d : S11.doc) (opt : options),
  S11.wf_doc d = true ->
  (S11.has_dtd d = true -> allow_dtd opt = true) ->
  nodes_limit opt <= u32_max ->                                    (* a u32 *)
  N.of_nat (length (S11.sem d)) < nodes_limit opt ->
  N.of_nat (length (S11.sem d)) < u32_max ->
  N.of_nat (S11.nattrs d) < u32_max ->
  S11.distinct_decls_le d (N.to_nat 65535) ->
  1 + N.of_nat (S11.ns_cost d) <= u32_max ->
  exists doc, parse (S11.render d) opt = Ok doc /\ ApiView.api_view (S11.render d) doc = Some (S11.sem d).
Proof. exact parse_render_sem_full_s11_api. Qed.
Print Assumptions C03_parse_render_sem_full_s11_api.

Theorem C03_s10_in_s11 :
  forall d : S10.doc, S10.wf_doc d = true ->
  S11.wf_doc d = true /\ S11.render d = S10.render d /\ S11.sem d = S10.sem d /\ S11.has_dtd d = S10.has_dtd d.
Proof. exact s10_in_s11. Qed.
Print Assumptions C03_s10_in_s11.

End G4.

(* ---- Proofs/CstFullS10Main.v ---- *)
Module G5.
Import RX.Spec.CstFull. Import RX.Spec.CstFullS6. Import RX.Spec.CstFullS9. Import RX.Spec.CstFullS10. Import RX.Proofs.CstNsView. Import RX.Proofs.ApiView. Import RX.Proofs.CstFullS10Main.
Theorem C03_parse_render_sem_full_s10 :
  forall (d : S10.doc) (opt : options),
  S10.wf_doc d = true ->
  (S10.has_dtd d = true -> allow_dtd opt = true) ->                (* a DOCTYPE needs the option *)
  N.of_nat (length (S10.sem d)) < nodes_limit opt ->               (* room for all nodes + the Root *)
  N.of_nat (length (S10.sem d)) < u32_max ->                        (* of the MEANING: entities add nodes *)
  N.of_nat (S10.nattrs d) < u32_max ->                              (* the attribute rows of the meaning *)
  S10.distinct_decls_le d (N.to_nat 65535) ->                       (* at most 65535 distinct declared bindings *)
  1 + N.of_nat (S10.ns_cost d) <= u32_max ->                        (* the namespace table fits *)
  exists doc, parse (S10.render d) opt = Ok doc /\ view (S10.render d) doc = Some (S10.sem d).
Proof. exact parse_render_sem_full_s10. Qed.
Print Assumptions C03_parse_render_sem_full_s10.

Theorem C03_parse_render_sem_full_s10_api :
  forall (d : S10.doc) (opt : options),
  S10.wf_doc d = true ->
  (S10.has_dtd d = true -> allow_dtd opt = true) ->
  nodes_limit opt <= u32_max ->                                    (* a u32 *)
  N.of_nat (length (S10.sem d)) < nodes_limit opt ->
  N.of_nat (length (S10.sem d)) < u32_max ->
  N.of_nat (S10.nattrs d) < u32_max ->
  S10.distinct_decls_le d (N.to_nat 65535) ->
  1 + N.of_nat (S10.ns_cost d) <= u32_max ->
  exists doc, parse (S10.render d) opt = Ok doc /\ ApiView.api_view (S10.render d) doc = Some (S10.sem d).
Proof. exact parse_render_sem_full_s10_api. Qed.
Print Assumptions C03_parse_render_sem_full_s10_api.

Theorem C03_s9_in_s10 :
  forall d : CstFullS9.S9.doc, CstFullS9.S9.wf_doc d = true ->
  S10.wf_doc d = true /\ S10.render d = CstFullS9.S9.render d /\ S10.sem d = CstFullS9.S9.sem d /\ S10.has_dtd d = CstFullS9.S9.has_dtd d.
Proof. exact s9_in_s10. Qed.
Print Assumptions C03_s9_in_s10.

End G5.

(* ---- Proofs/CstFullS9Main.v ---- *)
Module G6.
Import RX.Spec.CstFull. Import RX.Spec.CstFullS6. Import RX.Spec.CstFullS8. Import RX.Spec.CstFullS9. Import RX.Proofs.CstNsView. Import RX.Proofs.ApiView. Import RX.Proofs.CstFullS9Main.
Theorem C03_parse_render_sem_full_s9 :
  forall (d : S9.doc) (opt : options),
  S9.wf_doc d = true ->
  (S9.has_dtd d = true -> allow_dtd opt = true) ->                (* a DOCTYPE needs the option *)
  N.of_nat (length (S9.sem d)) < nodes_limit opt ->               (* room for all nodes + the Root *)
  N.of_nat (length (S9.sem d)) < u32_max ->                        (* of the MEANING: entities add nodes *)
  N.of_nat (S9.nattrs d) < u32_max ->                              (* the attribute rows of the meaning *)
  S9.distinct_decls_le d (N.to_nat 65535) ->                       (* at most 65535 distinct declared bindings *)
  1 + N.of_nat (S9.ns_cost d) <= u32_max ->                        (* the namespace table fits *)
  exists doc, parse (S9.render d) opt = Ok doc /\ view (S9.render d) doc = Some (S9.sem d).
Proof. exact parse_render_sem_full_s9. Qed.
Print Assumptions C03_parse_render_sem_full_s9.

Theorem C03_s8_in_s9 :
  forall d : S8.doc, S8.wf_doc d = true ->
  S9.wf_doc d = true /\ S9.render d = S8.render d /\ S9.sem d = S8.sem d /\ S9.has_dtd d = S8.has_dtd d.
Proof. exact s8_in_s9. Qed.
Print Assumptions C03_s8_in_s9.

End G6.

(* ---- Proofs/CstFullS8Main.v ---- *)
Module G7.
Import RX.Spec.CstFull. Import RX.Spec.CstFullS6. Import RX.Spec.CstFullS7. Import RX.Spec.CstFullS8. Import RX.Proofs.CstNsView. Import RX.Proofs.ApiView. Import RX.Proofs.CstFullS8Main.
Theorem C03_parse_render_sem_full_s8 :
  forall (d : S8.doc) (opt : options),
  S8.wf_doc d = true ->
  (S8.has_dtd d = true -> allow_dtd opt = true) ->                (* a DOCTYPE needs the option *)
  N.of_nat (length (S8.sem d)) < nodes_limit opt ->               (* room for all nodes + the Root *)
  N.of_nat (length (S8.sem d)) < u32_max ->                        (* of the MEANING: entities add nodes *)
  N.of_nat (S8.nattrs d) < u32_max ->                              (* the attribute rows of the meaning *)
  S8.distinct_decls_le d (N.to_nat 65535) ->                       (* at most 65535 distinct declared bindings *)
  1 + N.of_nat (S8.ns_cost d) <= u32_max ->                        (* the namespace table fits *)
  exists doc, parse (S8.render d) opt = Ok doc /\ view (S8.render d) doc = Some (S8.sem d).
Proof. exact parse_render_sem_full_s8. Qed.
Print Assumptions C03_parse_render_sem_full_s8.

Theorem C03_s7_in_s8 :
  forall d : S7.doc, S7.wf_doc d = true ->
  S8.wf_doc d = true /\ S8.render d = S7.render d /\ S8.sem d = S7.sem d /\ S8.has_dtd d = S7.has_dtd d.
Proof. exact s7_in_s8. Qed.
Print Assumptions C03_s7_in_s8.

End G7.

(* ---- Proofs/CstUMain.v ---- *)
Theorem C03_render_valid_utf8 :
  forall c, CstU.wf_doc c = true -> valid_utf8_b (CstU.render c) = true.
Proof. exact render_valid_utf8. Qed.
Print Assumptions C03_render_valid_utf8.

Theorem C03_parse_render_sem_u :
  forall (c : Cst.doc) (opt : options),
  CstU.wf_doc c = true ->
  N.of_nat (length (CstU.sem c)) < nodes_limit opt ->          (* room for all nodes + the Root *)
  N.of_nat (length (CstU.render c)) <= u32_max ->               (* the input is at most u32::MAX bytes long *)
  exists d, parse (CstU.render c) opt = Ok d /\
            view (CstU.render c) d = CstU.sem c /\
            (* no namespaces in this fragment *)
            (forall nd ns local ar nss, In nd (d_nodes d) -> nd_kind nd = KElement ns local ar nss -> ns = None) /\
            (forall a, In a (d_attrs d) -> ad_ns_idx a = None).
Proof. exact parse_render_sem_u. Qed.
Print Assumptions C03_parse_render_sem_u.

Theorem C03_layout_insensitive_u :
  forall c1 c2 opt,
  CstU.wf_doc c1 = true -> CstU.wf_doc c2 = true -> CstU.sem c1 = CstU.sem c2 ->
  N.of_nat (length (CstU.sem c1)) < nodes_limit opt ->
  N.of_nat (length (CstU.render c1)) <= u32_max -> N.of_nat (length (CstU.render c2)) <= u32_max ->
  exists d1 d2, parse (CstU.render c1) opt = Ok d1 /\ parse (CstU.render c2) opt = Ok d2 /\
                view (CstU.render c1) d1 = view (CstU.render c2) d2.
Proof. exact layout_insensitive_u. Qed.
Print Assumptions C03_layout_insensitive_u.

(* ---- Proofs/CstFullS6Main.v ---- *)
Module G9.
Import RX.Spec.CstFull. Import RX.Spec.CstFullS4. Import RX.Spec.CstFullS6. Import RX.Proofs.CstNsView. Import RX.Proofs.CstFullS6Main.
Theorem C03_parse_render_sem_full_s6 :
  forall (d : S6.doc) (opt : options),
  S6.wf_doc d = true ->
  (S6.has_dtd d = true -> allow_dtd opt = true) ->                (* a DOCTYPE needs the option *)
  N.of_nat (length (S6.sem d)) < nodes_limit opt ->               (* room for all nodes + the Root *)
  N.of_nat (length (S6.sem d)) < u32_max ->                        (* of the MEANING: entities add nodes *)
  N.of_nat (S6.nattrs d) < u32_max ->                              (* the attribute rows of the meaning *)
  S6.distinct_decls_le d (N.to_nat 65535) ->                       (* at most 65535 distinct declared bindings *)
  1 + N.of_nat (S6.ns_cost d) <= u32_max ->                        (* the namespace table fits *)
  exists doc, parse (S6.render d) opt = Ok doc /\ view (S6.render d) doc = Some (S6.sem d).
Proof. exact parse_render_sem_full_s6. Qed.
Print Assumptions C03_parse_render_sem_full_s6.

Theorem C03_hoist_prolog_insensitive_full_s6 :
  forall (d1 d2 : S6.doc) opt,
  S6.wf_doc d1 = true -> S6.wf_doc d2 = true -> allow_dtd opt = true -> S6.sem d1 = S6.sem d2 ->
  N.of_nat (length (S6.sem d1)) < nodes_limit opt -> N.of_nat (length (S6.sem d1)) < u32_max ->
  N.of_nat (S6.nattrs d1) < u32_max ->
  S6.distinct_decls_le d1 (N.to_nat 65535) -> S6.distinct_decls_le d2 (N.to_nat 65535) ->
  1 + N.of_nat (S6.ns_cost d1) <= u32_max -> 1 + N.of_nat (S6.ns_cost d2) <= u32_max ->
  exists x1 x2, parse (S6.render d1) opt = Ok x1 /\ parse (S6.render d2) opt = Ok x2 /\
                view (S6.render d1) x1 = view (S6.render d2) x2.
Proof. exact hoist_prolog_insensitive_full_s6. Qed.
Print Assumptions C03_hoist_prolog_insensitive_full_s6.

Theorem C03_s4_in_s6 :
  forall d : S4.doc, S4.wf_doc d = true ->
  S6.wf_doc (S6.of_s4 d) = true /\ S6.render (S6.of_s4 d) = S4.render d /\ S6.sem (S6.of_s4 d) = S4.sem d /\
  S6.has_dtd (S6.of_s4 d) = true.
Proof. exact s4_in_s6. Qed.
Print Assumptions C03_s4_in_s6.

End G9.

(* ---- Proofs/CstFullS6Embed5.v ---- *)
Module G10.
Import RX.Spec.CstFull. Import RX.Spec.CstFullS5. Import RX.Spec.CstFullS6. Import RX.Proofs.CstFullS6Main. Import RX.Proofs.CstFullS6Embed5.
Theorem C03_s5_in_s6 :
  forall d : S5.doc, S5.wf_doc d = true ->
  S6.wf_doc (S6.of_s5 d) = true /\ S6.render (S6.of_s5 d) = S5.render d /\ S6.sem (S6.of_s5 d) = S5.sem d /\
  S6.has_dtd (S6.of_s5 d) = S5.has_dtd d.
Proof. exact s5_in_s6. Qed.
Print Assumptions C03_s5_in_s6.

End G10.

(* ---- Proofs/CstFullS5.v ---- *)
Module G11.
Import RX.Spec.CstFull. Import RX.Spec.CstFullS5. Import RX.Proofs.CstNsView. Import RX.Proofs.CstFullMain. Import RX.Proofs.CstFullS5.
Theorem C03_parse_render_sem_full_s5 :
  forall (d : S5.doc) (opt : options),
  S5.wf_doc d = true ->
  (S5.has_dtd d = true -> allow_dtd opt = true) ->                (* a DOCTYPE needs the option *)
  N.of_nat (length (S5.sem d)) < nodes_limit opt ->               (* room for all nodes + the Root *)
  N.of_nat (length (S5.render d)) <= u32_max ->                    (* the input is at most u32::MAX bytes long *)
  S5.distinct_decls_le d (N.to_nat 65535) ->                       (* at most 65535 distinct declared bindings *)
  1 + N.of_nat (S5.ns_cost d) <= u32_max ->                        (* the namespace table fits *)
  exists doc, parse (S5.render d) opt = Ok doc /\ view (S5.render d) doc = Some (S5.sem d).
Proof. exact parse_render_sem_full_s5. Qed.
Print Assumptions C03_parse_render_sem_full_s5.

Theorem C03_prolog_insensitive_full_s5 :
  forall (d1 d2 : S5.doc) opt,
  S5.wf_doc d1 = true -> S5.wf_doc d2 = true -> allow_dtd opt = true -> S5.sem d1 = S5.sem d2 ->
  N.of_nat (length (S5.sem d1)) < nodes_limit opt ->
  N.of_nat (length (S5.render d1)) <= u32_max -> N.of_nat (length (S5.render d2)) <= u32_max ->
  S5.distinct_decls_le d1 (N.to_nat 65535) -> S5.distinct_decls_le d2 (N.to_nat 65535) ->
  1 + N.of_nat (S5.ns_cost d1) <= u32_max -> 1 + N.of_nat (S5.ns_cost d2) <= u32_max ->
  exists x1 x2, parse (S5.render d1) opt = Ok x1 /\ parse (S5.render d2) opt = Ok x2 /\
                view (S5.render d1) x1 = view (S5.render d2) x2.
Proof. exact prolog_insensitive_full_s5. Qed.
Print Assumptions C03_prolog_insensitive_full_s5.

End G11.

(* ---- Proofs/LexerProofs.v ---- *)
Module G12.
Local Notation token := Tokenizer.token.
Theorem C03_parse_comment_post :
  forall (text : bytes), forall s acc s' acc', SInv text s ->
  starts_with s (b "<!--") = true ->
  parse_comment text (list token) rec_ev s acc = Ok (s', acc') ->
  exists txt, acc' = acc ++ [TComment txt (s_pos s, s_pos s')] /\ SInv text s' /\
    sub text (s_pos s) (s_pos s') = b "<!--" ++ slice_bytes text txt ++ b "-->" /\
    sl_start txt = s_pos s + 4 /\ sl_end txt + 3 = s_pos s'.
Proof. exact parse_comment_post. Qed.
Print Assumptions C03_parse_comment_post.

Theorem C03_parse_pi_post :
  forall (text : bytes), forall s acc s' acc', SInv text s ->
  starts_with s (b "<?") = true ->
  parse_pi text (list token) rec_ev s acc = Ok (s', acc') ->
  exists target value, acc' = acc ++ [TPI target value (s_pos s, s_pos s')] /\ SInv text s' /\
    sl_start target = s_pos s + 2 /\
    prefix_b (b "<?") (sub text (s_pos s) (s_pos s')) = true /\
    sub text (s_pos s' - 2) (s_pos s') = b "?>" /\
    match value with
    | Some v => slice_len v <> 0 /\ sl_end v + 2 = s_pos s' /\ sl_end target < sl_start v /\
                forallb byte_is_space (sub text (sl_end target) (sl_start v)) = true /\
                (exists x, hd_error (slice_bytes text v) = Some x /\ byte_is_space x = false)
    | None => forallb byte_is_space (sub text (sl_end target) (s_pos s' - 2)) = true
    end.
Proof. exact parse_pi_post. Qed.
Print Assumptions C03_parse_pi_post.

Theorem C03_parse_cdata_post :
  forall (text : bytes), forall s acc s' acc', SInv text s ->
  starts_with s (b "<![CDATA[") = true ->
  parse_cdata text (list token) rec_ev s acc = Ok (s', acc') ->
  exists txt, acc' = acc ++ [TCdata txt (s_pos s, s_pos s')] /\ SInv text s' /\
    sub text (s_pos s) (s_pos s') = b "<![CDATA[" ++ slice_bytes text txt ++ b "]]>".
Proof. exact parse_cdata_post. Qed.
Print Assumptions C03_parse_cdata_post.

Theorem C03_parse_text_post :
  forall (text : bytes), forall s acc s' acc', SInv text s ->
  parse_text text (list token) rec_ev s acc = Ok (s', acc') ->
  exists txt, acc' = acc ++ [TText txt (s_pos s, s_pos s')] /\ SInv text s' /\
    sl_start txt = s_pos s /\ sl_end txt = s_pos s' /\ mem_b 60 (slice_bytes text txt) = false.
Proof. exact parse_text_post. Qed.
Print Assumptions C03_parse_text_post.

Theorem C03_parse_close_element_post :
  forall (text : bytes), forall s acc s' acc', SInv text s ->
  starts_with s (b "</") = true ->
  parse_close_element text (list token) rec_ev s acc = Ok (s', acc') ->
  exists prefix local, acc' = acc ++ [TElementEnd (EClose prefix local) (s_pos s, s_pos s')] /\
    SInv text s' /\
    prefix_b (b "</") (sub text (s_pos s) (s_pos s')) = true /\
    sub text (s_pos s' - 1) (s_pos s') = [62] /\
    sl_start prefix = s_pos s + 2.
Proof. exact parse_close_element_post. Qed.
Print Assumptions C03_parse_close_element_post.

Theorem C03_parse_doctype_tokens :
  forall (text : bytes), forall s acc s' acc',
  parse_doctype text (list token) rec_ev s acc = Ok (s', acc') ->
  exists new, acc' = acc ++ new /\
    Forall (fun tok => match tok with TEntityDecl _ _ | TComment _ _ | TPI _ _ _ => True | _ => False end) new.
Proof. exact parse_doctype_tokens. Qed.
Print Assumptions C03_parse_doctype_tokens.

Theorem C03_parse_misc_tokens :
  forall (text : bytes), forall s acc s' acc',
  parse_misc text (list token) rec_ev s acc = Ok (s', acc') ->
  exists new, acc' = acc ++ new /\
    Forall (fun tok => match tok with TComment _ _ | TPI _ _ _ => True | _ => False end) new.
Proof. exact parse_misc_tokens. Qed.
Print Assumptions C03_parse_misc_tokens.

Theorem C03_parse_element_tokens :
  forall (text : bytes), forall s acc open s' acc', SInv text s ->
  starts_with s (b "<") = true ->
  parse_element text (list token) rec_ev s acc = Ok (open, s', acc') ->
  exists prefix local attrs e r,
    acc' = acc ++ [TElementStart prefix local (s_pos s)] ++ attrs ++ [TElementEnd e r] /\
    Forall (fun tok => match tok with TAttribute _ _ _ _ _ _ => True | _ => False end) attrs /\
    (e = EOpen /\ open = true \/ e = EEmpty /\ open = false) /\ snd r = s_pos s' /\ SInv text s' /\
    hd_error (sub text (s_pos s) (s_pos s')) = Some 60 /\ sub text (s_pos s' - 1) (s_pos s') = [62] /\
    sl_start prefix = s_pos s + 1.
Proof. exact parse_element_tokens. Qed.
Print Assumptions C03_parse_element_tokens.

End G12.

(* ---- Proofs/RejectProofs.v ---- *)
Module G13.
Local Notation token := Tokenizer.token.
Theorem C03_ok_document_shape :
  forall text dtd toks,
  parse_document text (list token) rec_ev dtd [] = Ok toks ->
  exists pre root post,
    toks = pre ++ root ++ post /\
    Forall is_prolog_tok pre /\ (dtd = false -> Forall is_misc_tok pre) /\
    Forall is_misc_tok post /\
    root_shape root post.
Proof. exact ok_document_shape. Qed.
Print Assumptions C03_ok_document_shape.

Theorem C03_ok_no_text_before_root :
  forall text dtd toks,
  parse_document text (list token) rec_ev dtd [] = Ok toks ->
  exists pre post, toks = pre ++ post /\ Forall is_prolog_tok pre /\
    (post = [] \/ (exists p l st rest, post = TElementStart p l st :: rest) \/ Forall is_misc_tok post).
Proof. exact ok_no_text_before_root. Qed.
Print Assumptions C03_ok_no_text_before_root.

End G13.
