(* driver.ml -- runs the extracted Coq model (model.ml) on a cases file and prints the same
   canonical dump as the Rust harness (harness/src/main.rs).  Unverified glue: I/O, hex,
   int <-> N conversion and the order in which the model's functions are called. *)
exception Model_stop of Stdlib.String.t
open Model



(* ---- conversions ---- *)
let rec pos_of_int (i : int) : positive =
  if i = 1 then XH else if i land 1 = 0 then XO (pos_of_int (i lsr 1)) else XI (pos_of_int (i lsr 1))
let n_of_int (i : int) : n = if i = 0 then N0 else Npos (pos_of_int i)
let rec int_of_pos = function XH -> 1 | XO p -> 2 * int_of_pos p | XI p -> 2 * int_of_pos p + 1
let int_of_n = function N0 -> 0 | Npos p -> int_of_pos p

let hex_of_bytes (l : n list) : Stdlib.String.t =
  let b = Buffer.create 16 in
  Buffer.add_char b 'x';
  List.iter (fun x -> Buffer.add_string b (Printf.sprintf "%02x" (int_of_n x))) l;
  Buffer.contents b
let hexval c = match c with
  | '0'..'9' -> Char.code c - 48 | 'a'..'f' -> Char.code c - 87 | 'A'..'F' -> Char.code c - 55
  | _ -> failwith "hex"
let bytes_of_hex (s : Stdlib.String.t) : n list =
  let s = if String.length s > 0 && s.[0] = 'x' then String.sub s 1 (String.length s - 1) else s in
  let r = ref [] in
  let i = ref (String.length s / 2 - 1) in
  while !i >= 0 do
    r := n_of_int (16 * hexval s.[2 * !i] + hexval s.[2 * !i + 1]) :: !r; decr i
  done; !r
let bytes_of_string (s : Stdlib.String.t) : n list =
  List.init (String.length s) (fun i -> n_of_int (Char.code s.[i]))
let opt_hex = function Some l -> hex_of_bytes l | None -> "-"

let site_name = function
  | P_index -> "index" | P_slice -> "slice" | P_unwrap -> "unwrap" | P_unreachable -> "unreachable"
  | P_debug_assert -> "debug_assert" | P_overflow -> "overflow"

let get (r : 'a res) : 'a = match r with
  | Ok a -> a
  | Err _ -> raise (Model_stop "err-from-api")
  | Panic s -> raise (Model_stop ("panic-" ^ site_name s))
  | OutOfFuel -> raise (Model_stop "outoffuel")

let oid = function Some i -> int_of_n i | None -> -1

(* ---- errors ---- *)
let error_line (e : error) : Stdlib.String.t =
  let (row, col) = error_pos e in
  let name, payload = match e with
    | InvalidXmlPrefixUri _ -> "InvalidXmlPrefixUri", []
    | UnexpectedXmlUri _ -> "UnexpectedXmlUri", []
    | UnexpectedXmlnsUri _ -> "UnexpectedXmlnsUri", []
    | InvalidElementNamePrefix _ -> "InvalidElementNamePrefix", []
    | DuplicatedNamespace (s, _) -> "DuplicatedNamespace", [hex_of_bytes s]
    | UnknownNamespace (s, _) -> "UnknownNamespace", [hex_of_bytes s]
    | UnexpectedCloseTag (a, b, _) -> "UnexpectedCloseTag", [hex_of_bytes a; hex_of_bytes b]
    | UnexpectedEntityCloseTag _ -> "UnexpectedEntityCloseTag", []
    | UnknownEntityReference (s, _) -> "UnknownEntityReference", [hex_of_bytes s]
    | MalformedEntityReference _ -> "MalformedEntityReference", []
    | EntityReferenceLoop _ -> "EntityReferenceLoop", []
    | InvalidAttributeValue _ -> "InvalidAttributeValue", []
    | DuplicatedAttribute (s, _) -> "DuplicatedAttribute", [hex_of_bytes s]
    | NoRootNode -> "NoRootNode", []
    | UnclosedRootNode -> "UnclosedRootNode", []
    | UnexpectedDeclaration _ -> "UnexpectedDeclaration", []
    | DtdDetected -> "DtdDetected", []
    | NodesLimitReached -> "NodesLimitReached", []
    | AttributesLimitReached -> "AttributesLimitReached", []
    | NamespacesLimitReached -> "NamespacesLimitReached", []
    | InvalidName _ -> "InvalidName", []
    | NonXmlChar (c, _) -> "NonXmlChar", [string_of_int (int_of_n c)]
    | InvalidChar (a, b, _) -> "InvalidChar", [string_of_int (int_of_n a); string_of_int (int_of_n b)]
    | InvalidChar2 (a, b, _) -> "InvalidChar2", [hex_of_bytes a; string_of_int (int_of_n b)]
    | InvalidString (a, _) -> "InvalidString", [hex_of_bytes a]
    | InvalidExternalID _ -> "InvalidExternalID", []
    | InvalidComment _ -> "InvalidComment", []
    | InvalidCharacterData _ -> "InvalidCharacterData", []
    | UnknownToken _ -> "UnknownToken", []
    | UnexpectedEndOfStream -> "UnexpectedEndOfStream", [] in
  String.concat " " (["E"; name; string_of_int (int_of_n row); string_of_int (int_of_n col)] @ payload)

(* ---- document access ---- *)
let kind_c (nd : node_data) = match nd.nd_kind with
  | KRoot -> 'R' | KElement _ -> 'E' | KPI _ -> 'P' | KComment _ -> 'C' | KText _ -> 'T'

let nodes_arr (d : document) = Array.of_list d.d_nodes

let str_off = function SIn sl -> int_of_n sl.sl_start | SStatic _ -> -1
let storage_kind = function Borrowed _ -> 'B' | Owned _ -> 'O'
let storage_off = function Borrowed s -> str_off s | Owned _ -> -1

let wmax = 4
let fb_words maxlen =
  let out = ref [] in
  for l = 1 to maxlen do
    for m = 0 to (1 lsl l) - 1 do
      let w = String.init l (fun i -> if (m lsr (l - 1 - i)) land 1 = 0 then 'F' else 'B') in
      out := w :: !out
    done
  done;
  List.rev !out
let scripts = ["L"; "N0 L"; "N1 F L"; "F N1 B L"; "B N0 L"; "N2 L"; "N5 L F"; "F B L"; "B B N1 L"; "R0 L"; "R1 B L"; "F R1 F L"; "R2 L F"; "N1 R1 L"; "R5 L B"; "C T"; "F C T"; "B T C"; "N1 C T"; "R1 T C";
  "B N0 F"; "B N1 L"; "B B N2 L"; "B B N0 F L"; "B B B N3 L"; "F B N1 L"; "N3 L"; "B B N3 L"; "B N2 F L"]

(* a generic iterator: state + next / next_back / nth / len, results as ints (-1 = None) *)
type 's iter = {
  init : 's;
  next : 's -> int * 's;
  next_back : 's -> int * 's;
  nth : int -> 's -> int * 's;
  len : 's -> int;
}

let run_deque (it : 's iter) (b : Buffer.t) =
  (* forward list *)
  let rec fw s acc = let (x, s') = it.next s in if x < 0 then List.rev acc else fw s' (x :: acc) in
  let l = fw it.init [] in
  let len = List.length l in
  Buffer.add_string b (Printf.sprintf " %d" len);
  let maxlen = min (len + 2) wmax in
  List.iter (fun w ->
      Buffer.add_char b ' '; Buffer.add_string b w; Buffer.add_char b '=';
      let s = ref it.init in
      String.iteri (fun k op ->
          let (x, s') = if op = 'F' then it.next !s else it.next_back !s in
          s := s';
          if k > 0 then Buffer.add_char b '.';
          Buffer.add_string b (string_of_int x)) w)
    (fb_words maxlen);
  List.iter (fun sc ->
      Buffer.add_char b ' ';
      Buffer.add_string b (String.concat "" (String.split_on_char ' ' sc));
      Buffer.add_char b '=';
      let s = ref it.init in
      List.iteri (fun k tok ->
          if k > 0 then Buffer.add_char b '.';
          match tok.[0] with
          | 'F' -> let (x, s') = it.next !s in s := s'; Buffer.add_string b (string_of_int x)
          | 'B' -> let (x, s') = it.next_back !s in s := s'; Buffer.add_string b (string_of_int x)
          | 'N' ->
            let n = int_of_string (String.sub tok 1 (String.length tok - 1)) in
            let (x, s') = it.nth n !s in s := s'; Buffer.add_string b (string_of_int x)
          | 'C' ->
            (* Iterator::count of a copy: the number of remaining items *)
            let rec cnt st acc = let (x, st') = it.next st in if x < 0 then acc else cnt st' (acc + 1) in
            Buffer.add_string b (string_of_int (cnt !s 0))
          | 'T' ->
            (* Iterator::last of a copy *)
            let rec lst st acc = let (x, st') = it.next st in if x < 0 then acc else lst st' x in
            Buffer.add_string b (string_of_int (lst !s (-1)))
          | 'R' ->
            (* DoubleEndedIterator::nth_back (not overridden by the crate): n + 1 calls of next_back, stopping at None *)
            let n = int_of_string (String.sub tok 1 (String.length tok - 1)) in
            let rec go n st = let (x, st') = it.next_back st in if x < 0 then (x, st') else if n = 0 then (x, st') else go (n - 1) st' in
            let (x, s') = go n !s in s := s'; Buffer.add_string b (string_of_int x)
          | 'L' -> let n = it.len !s in Buffer.add_string b (Printf.sprintf "%d/%d" n n)
          | _ -> assert false)
        (String.split_on_char ' ' sc))
    scripts

(* slice iterator of the model, items mapped by f *)
let slice_iter (init : slice_it) (f : int -> int) : slice_it iter = {
  init;
  next = (fun s -> let (o, s') = sit_next s in ((match o with Some i -> f (int_of_n i) | None -> -1), s'));
  next_back = (fun s -> let (o, s') = sit_next_back s in ((match o with Some i -> f (int_of_n i) | None -> -1), s'));
  nth = (fun n s -> let (o, s') = sit_nth (n_of_int n) s in ((match o with Some i -> f (int_of_n i) | None -> -1), s'));
  len = (fun s -> int_of_n (sit_len s));
}

(* Children: nth is Iterator::nth's default (n+1 calls of next, stopping at None);
   len = number of remaining items (counted with a copy) *)
let children_iter (d : document) (init : children_it) : children_it iter =
  let next s = let (o, s') = get (children_next d s) in (oid o, s') in
  let next_back s = let (o, s') = get (children_next_back d s) in (oid o, s') in
  let rec nth n s = let (x, s') = next s in if x < 0 then (x, s') else if n = 0 then (x, s') else nth (n - 1) s' in
  let rec count s acc = let (x, s') = next s in if x < 0 then acc else count s' (acc + 1) in
  { init; next; next_back; nth; len = (fun s -> count s 0) }

let ids_str l = String.concat "" (List.map (fun i -> " " ^ string_of_int (int_of_n i)) l)

let dump_doc (idx : Stdlib.String.t) (flags : Stdlib.String.t) (text : n list) (d : document) (out : Buffer.t) =
  let has c = String.contains flags c in
  let pr fmt = Printf.bprintf out fmt in
  let nodes = nodes_arr d in
  let n = Array.length nodes in
  let attrs = Array.of_list d.d_attrs in
  let tlen = List.length text in
  let sl_len (s : slice) = int_of_n s.sl_end - int_of_n s.sl_start in
  let attr_range id = let it = get (attributes d (n_of_int id)) in (int_of_n it.it_lo, int_of_n it.it_hi) in
  let ns_list id = List.map (fun p -> get (namespace_at d p)) (sit_list (get (namespaces d (n_of_int id)))) in
  let attr_ns (a : attr_data) = get (ns_uri_at text d a.ad_ns_idx) in
  if has 'n' then
    for id = 0 to n - 1 do
      let i = n_of_int id in
      pr "%s N %d %c %d %d %d %d %d %d\n" idx id (kind_c nodes.(id))
        (oid (get (parent d i))) (oid (get (prev_sibling d i))) (oid (get (next_sibling d i)))
        (oid (get (first_child d i))) (oid (get (last_child d i)))
        (int_of_n (sit_len (get (descendants d i))))
    done;
  (* NK: disagreements between the kind predicates / id conversions / storage accessors and node_type / id / text / tail: in the
     model these are the same functions, so 0 *)
  if has 'n' then pr "%s NK 0\n" idx;
  if has 'c' then
    for id = 0 to n - 1 do
      match nodes.(id).nd_kind with
      | KElement (_, _, _, _) ->
        let (ns, local) = get (tag_name text d (n_of_int id)) in
        pr "%s Q %d %s %s\n" idx id (opt_hex ns) (hex_of_bytes local);
        let (a, e) = attr_range id in
        for k = a to e - 1 do
          let ad = attrs.(k) in
          pr "%s A %d %d %s %s %s\n" idx id (k - a) (opt_hex (attr_ns ad))
            (hex_of_bytes (slice_bytes text ad.ad_local)) (hex_of_bytes (storage_bytes text ad.ad_value))
        done;
        List.iteri (fun k (v : namespace) ->
            pr "%s S %d %d %s %s\n" idx id k (opt_hex (ns_name_bytes text v)) (hex_of_bytes (storage_bytes text v.ns_uri)))
          (ns_list id)
      | KPI (target, value) ->
        pr "%s K %d %s %s\n" idx id (hex_of_bytes (slice_bytes text target))
          (match value with Some v -> hex_of_bytes (slice_bytes text v) | None -> "-")
      | KComment s -> pr "%s C %d %s\n" idx id (hex_of_bytes (slice_bytes text s))
      | KText s -> pr "%s X %d %s\n" idx id (hex_of_bytes (storage_bytes text s))
      | KRoot -> ()
    done;
  if has 'p' then
    for id = 0 to n - 1 do
      let (s, e) = nodes.(id).nd_range in
      pr "%s P %d %d %d\n" idx id (int_of_n s) (int_of_n e);
      let (a, e) = attr_range id in
      for k = a to e - 1 do
        let ad = attrs.(k) in
        let (rs, re) = ad.ad_range in
        let (qs, qe) = attr_range_qname ad in
        let (vs, ve) = get (attr_range_value ad) in
        pr "%s PA %d %d %d %d %d %d %d %d\n" idx id (k - a) (int_of_n rs) (int_of_n re) (int_of_n qs)
          (int_of_n qe) (int_of_n vs) (int_of_n ve)
      done
    done;
  if has 'b' then begin
    pr "%s B input 0 %d\n" idx tlen;
    for id = 0 to n - 1 do
      match nodes.(id).nd_kind with
      | KElement (_, local, _, _) ->
        pr "%s B %d local %d %d\n" idx id (int_of_n local.sl_start) (sl_len local);
        let (a, e) = attr_range id in
        for k = a to e - 1 do
          let ad = attrs.(k) in
          pr "%s B %d attr %d %d %d %c %d %d\n" idx id (k - a) (int_of_n ad.ad_local.sl_start)
            (sl_len ad.ad_local) (storage_kind ad.ad_value) (storage_off ad.ad_value)
            (List.length (storage_bytes text ad.ad_value))
        done;
        List.iteri (fun k (v : namespace) ->
            let (noff, nlen) = match v.ns_name with
              | Some s -> (str_off s, List.length (str_bytes text s)) | None -> (-2, 0) in
            pr "%s B %d ns %d %d %d %d %d\n" idx id k noff nlen (storage_off v.ns_uri)
              (List.length (storage_bytes text v.ns_uri)))
          (ns_list id)
      | KPI (target, value) ->
        pr "%s B %d pi %d %d %d %d\n" idx id (int_of_n target.sl_start) (sl_len target)
          (match value with Some v -> int_of_n v.sl_start | None -> -2)
          (match value with Some v -> sl_len v | None -> 0)
      | KComment s -> pr "%s B %d text B %d %d\n" idx id (int_of_n s.sl_start) (sl_len s)
      | KText s -> pr "%s B %d text %c %d %d\n" idx id (storage_kind s) (storage_off s) (List.length (storage_bytes text s))
      | KRoot -> ()
    done
  end;
  if has 't' then begin
    pr "%s TP" idx;
    for p = 0 to tlen + 2 do
      let (r, c) = get (text_pos_at text (n_of_int p)) in
      pr " %d:%d" (int_of_n r) (int_of_n c)
    done;
    pr "\n"
  end;
  if has 'a' then begin
    pr "%s AR %d\n" idx (int_of_n (get (root_element d)));
    for id = 0 to n - 1 do
      let i = n_of_int id in
      pr "%s AX %d anc%s\n" idx id (ids_str (get (axis_list d AxAncestors i)));
      pr "%s AX %d prevs%s\n" idx id (ids_str (get (axis_list d AxPrevSiblings i)));
      pr "%s AX %d nexts%s\n" idx id (ids_str (get (axis_list d AxNextSiblings i)));
      pr "%s AX %d firsts%s\n" idx id (ids_str (get (axis_list d AxFirstChildren i)));
      pr "%s AX %d lasts%s\n" idx id (ids_str (get (axis_list d AxLastChildren i)));
      let ch = get (children_list d i) in
      pr "%s AX %d ch%s\n" idx id (ids_str ch);
      (* children().rev(): repeated next_back *)
      let rec back s acc = let (o, s') = get (children_next_back d s) in
        (match o with Some x -> back s' (x :: acc) | None -> List.rev acc) in
      pr "%s AX %d chrev%s\n" idx id (ids_str (back (get (children d i)) []));
      let de = get (descendants d i) in
      pr "%s AX %d desc%s\n" idx id (ids_str (sit_list de));
      let rec dback s acc = let (o, s') = sit_next_back s in
        (match o with Some x -> dback s' (x :: acc) | None -> List.rev acc) in
      pr "%s AX %d descrev%s\n" idx id (ids_str (dback de []));
      pr "%s AE %d %d %d %d %d %d\n" idx id (oid (get (parent_element d i)))
        (oid (get (prev_sibling_element d i))) (oid (get (next_sibling_element d i)))
        (oid (get (first_element_child d i))) (oid (get (last_element_child d i)));
      pr "%s AH %d %d %d\n" idx id (if get (has_children d i) then 1 else 0) (if get (has_siblings d i) then 1 else 0);
      let st o = match o with Some s -> hex_of_bytes (storage_bytes text s) | None -> "-" in
      pr "%s AT %d %s %s\n" idx id (st (get (text_storage d i))) (st (get (tail_storage d i)))
    done
  end;
  if has 'd' then
    for id = 0 to n - 1 do
      let i = n_of_int id in
      pr "%s D %d ch" idx id; run_deque (children_iter d (get (children d i))) out; pr "\n";
      pr "%s D %d de" idx id; run_deque (slice_iter (get (descendants d i)) (fun x -> x)) out; pr "\n";
      (match nodes.(id).nd_kind with
       | KElement _ ->
         let at = get (attributes d i) in
         let lo = int_of_n at.it_lo in
         pr "%s D %d at" idx id; run_deque (slice_iter at (fun x -> x - lo)) out; pr "\n";
         let ns = get (namespaces d i) in
         let lo = int_of_n ns.it_lo in
         pr "%s D %d ns" idx id; run_deque (slice_iter ns (fun x -> x - lo)) out; pr "\n"
       | _ -> ())
    done;
  if has 'l' then begin
    let names = ref [] and prefixes = ref [None; Some (bytes_of_string "absent"); Some (bytes_of_string "xml")]
    and uris = ref [bytes_of_string "absent"; []; ns_xml_uri; ns_xmlns_uri] in
    let push_name ns l =
      List.iter (fun cand -> if not (List.mem cand !names) then names := !names @ [cand])
        [(ns, l); (None, l); (Some (bytes_of_string "other"), l); (Some [], l)] in
    for id = 0 to n - 1 do
      match nodes.(id).nd_kind with
      | KElement _ ->
        let (ns, local) = get (tag_name text d (n_of_int id)) in
        push_name ns local;
        let (a, e) = attr_range id in
        for k = a to e - 1 do
          let ad = attrs.(k) in push_name (attr_ns ad) (slice_bytes text ad.ad_local)
        done
      | _ -> ()
    done;
    push_name None (bytes_of_string "absent");
    push_name (Some ns_xml_uri) (bytes_of_string "lang");
    push_name None [];
    for id = 0 to n - 1 do
      List.iter (fun (v : namespace) ->
          let p = ns_name_bytes text v in
          if not (List.mem p !prefixes) then prefixes := !prefixes @ [p];
          let u = storage_bytes text v.ns_uri in
          if not (List.mem u !uris) then uris := !uris @ [u])
        (ns_list id)
    done;
    for id = 0 to n - 1 do
      let i = n_of_int id in
      let (tns, tl) = get (tag_name text d i) in
      pr "%s L %d tn=%s,%s" idx id (opt_hex tns) (hex_of_bytes tl);
      let (alo, _) = attr_range id in
      List.iter (fun q ->
          let h = get (has_tag_name text d i q) in
          let a = get (attribute text d i q) in
          let ha = get (has_attribute text d i q) in
          let an = get (attribute_node text d i q) in
          pr " %d%d%d:%s" (if h then 1 else 0) (if ha then 1 else 0)
            (match an with Some k -> int_of_n k - alo | None -> -1) (opt_hex a))
        !names;
      pr " dn=%s" (opt_hex (get (default_namespace text d i)));
      List.iter (fun p -> pr " %s" (opt_hex (get (lookup_namespace_uri text d i p)))) !prefixes;
      List.iter (fun u -> pr " %s" (opt_hex (get (lookup_prefix text d i u)))) !uris;
      pr "\n"
    done;
    (* attribute equality over the first 12 attributes of the document, in node order *)
    let all = ref [] in
    for id = 0 to n - 1 do
      let (a, e) = attr_range id in
      for k = a to e - 1 do if List.length !all < 12 then all := !all @ [k] done
    done;
    (* the model's read operations are functions of the document and their arguments: no hidden state *)
    pr "%s LB 0\n" idx;
    pr "%s LQ" idx;
    List.iter (fun a ->
        pr " ";
        List.iter (fun c -> pr "%c" (if get (attr_eqb text d (n_of_int a) (n_of_int c)) then '1' else '0')) !all)
      !all;
    pr "\n"
  end;
  if has 'o' then begin
    pr "%s OG" idx;
    List.iter (fun k ->
        let r = get_node_id d (n_of_int k) in
        (* NodeId::new(u32::MAX - 1) is fine; the model panics only at u32::MAX *)
        let v = match r with
          | Ok (Some id) -> if int_of_n id = k then 1 else 0
          | Ok None -> -1
          | _ -> raise (Model_stop "get_node") in
        pr " %d" v)
      (List.init (n + 3) (fun k -> k) @ [4294967294]);
    pr "\n";
    let take = 6 in
    let ks = List.init (min take n) (fun k -> (n_of_int 1, n_of_int k)) @ List.init (min take n) (fun k -> (n_of_int 2, n_of_int k)) in
    pr "%s OC" idx;
    List.iter (fun a ->
        pr " ";
        List.iter (fun c ->
            pr "%c%c." (match node_cmp a c with Lt -> 'l' | Eq -> 'e' | Gt -> 'g') (if node_eqb a c then '1' else '0'))
          ks)
      ks;
    pr "\n";
    (* sorting with the model's order: a stable merge sort on the same (reversed) input order *)
    let all = List.rev (List.init n (fun k -> (n_of_int 2, n_of_int k)) @ List.init n (fun k -> (n_of_int 1, n_of_int k))) in
    let sorted = List.stable_sort (fun a c -> match node_cmp a c with Lt -> -1 | Eq -> 0 | Gt -> 1) all in
    pr "%s OS" idx;
    List.iter (fun (dd, k) -> pr " %d:%d" (int_of_n dd) (int_of_n k)) sorted;
    pr "\n";
    (* HashSet of all nodes of both documents (one of them twice): distinct keys by node_eqb *)
    let keys = List.init n (fun k -> (n_of_int 1, n_of_int k)) @ List.init n (fun k -> (n_of_int 2, n_of_int k)) @ List.init n (fun k -> (n_of_int 1, n_of_int k)) in
    let distinct = List.fold_left (fun acc k -> if List.exists (fun x -> node_eqb x k) acc then acc else k :: acc) [] keys in
    pr "%s OH %d 1\n" idx (List.length distinct);
    (* nodes reached through descendants().nth(k) and the following next() calls: in the model an
       item of the slice iterator IS the id, so every one of them round-trips *)
    let cnt = ref 0 in
    for k = 0 to 2 do
      let it = get (descendants d (n_of_int 0)) in
      let (o, it') = sit_nth (n_of_int k) it in
      (match o with Some _ -> cnt := !cnt + int_of_n (sit_len it') | None -> ())
    done;
    (* plus four walks of one iterator from both ends over the whole document: n items each *)
    (* plus descendants() of each of the first 40 nodes, plus skip(k).last() for k = 0..2 *)
    let sub = ref 0 in
    for id = 0 to (min n 40) - 1 do
      sub := !sub + int_of_n (sit_len (get (descendants d (n_of_int id))))
    done;
    let lasts = (if n > 0 then 1 else 0) + (if n > 1 then 1 else 0) + (if n > 2 then 1 else 0) in
    (* plus, for each of the first 40 nodes with t nodes in its subtree and k = 0..2: nth_back(k), then rev().skip(k).take(2) of a
       fresh iterator, then one more next_back() of the first one *)
    let rb = ref 0 in
    for id = 0 to (min n 40) - 1 do
      let t = int_of_n (sit_len (get (descendants d (n_of_int id)))) in
      for k = 0 to 2 do
        rb := !rb + (if t > k then 1 else 0) + (min 2 (max 0 (t - k))) + (if t > k + 1 then 1 else 0)
      done
    done;
    pr "%s OI %d\n" idx (!cnt + 4 * n + !sub + lasts + !rb)
  end;
  if has 'g' then begin
    let (lines, _maxh) = get (debug_document d) in
    pr "%s G ok %d\n" idx (int_of_n lines)
  end

let run_case idx flags dtd limit (text : n list) (out : Buffer.t) =
  let opt = { allow_dtd = dtd; nodes_limit = n_of_int limit } in
  let r = if String.contains flags 'D' then parse_default text else parse text opt in
  match r with
  | Ok d ->
    Printf.bprintf out "%s R ok %d\n" idx (List.length d.d_nodes);
    let b = Buffer.create 1024 in
    (try dump_doc idx flags text d b; Buffer.add_buffer out b
     with Model_stop s -> Buffer.add_buffer out b; Printf.bprintf out "%s R mstop %s\n" idx s)
  | Err e ->
    Printf.bprintf out "%s R err\n%s %s\n" idx idx (error_line e);
    (* the position carried by the variant (the model has one position per error: pos() = the field) *)
    (let l = error_line e in
     match String.split_on_char ' ' l with
     | _ :: name :: r :: c :: _ when not (List.mem name ["NoRootNode"; "UnclosedRootNode"; "DtdDetected"; "NodesLimitReached";
                                                        "AttributesLimitReached"; "NamespacesLimitReached"; "UnexpectedEndOfStream"]) ->
       Printf.bprintf out "%s EV %s %s\n" idx r c
     | _ -> Printf.bprintf out "%s EV - -\n" idx);
    (* the Display text of the error, from the format table regenerated from the source *)
    Printf.bprintf out "%s EM %s\n" idx (hex_of_bytes (error_display e));
    if String.contains flags 'g' then Printf.bprintf out "%s G ok 0\n" idx
  | Panic s -> Printf.bprintf out "%s R mpanic %s\n" idx (site_name s)
  | OutOfFuel -> Printf.bprintf out "%s R mfuel\n" idx

let summary_mode file =
  let ic = open_in file in
  (try
     while true do
       let line = input_line ic in
       match String.split_on_char ' ' line with
       | [idx; _; dtd; limit; hx] ->
         let l = summary (bytes_of_hex hx) { allow_dtd = (dtd = "1"); nodes_limit = n_of_int (int_of_string limit) } in
         Printf.printf "%s SUM%s\n" idx (String.concat "" (List.map (fun x -> " " ^ string_of_int (int_of_n x)) l))
       | _ -> ()
     done
   with End_of_file -> ())

let () =
  if Array.length Sys.argv > 2 && Sys.argv.(1) = "summary" then (summary_mode Sys.argv.(2); exit 0);
  let file = Sys.argv.(1) in
  let ic = open_in file in
  let out = Buffer.create 65536 in
  (try
     while true do
       let line = input_line ic in
       if line <> "" then begin
         match String.split_on_char ' ' line with
         | [idx; flags; dtd; limit; hx] ->
           run_case idx flags (dtd = "1") (int_of_string limit) (bytes_of_hex hx) out;
           if Buffer.length out > 60000 then (print_string (Buffer.contents out); Buffer.clear out)
         | _ -> Printf.bprintf out "? BADCASE %s\n" line
       end
     done
   with End_of_file -> ());
  print_string (Buffer.contents out)
